//! Escaping family (C14): `esc <n> <byte>*` - quick-xml's `escape` / `unescape` (the functions the GraphML
//! writer and reader go through for every attribute value) on one string, and the crate's own write-then-read
//! of a graph whose single node carries that string as its name.
use crate::rng::Rng;
use crate::store::Toks;
use graphrs::{readwrite::graphml, Graph, GraphSpecs, Node};

fn p_bytes(b: &[u8]) -> String {
    if b.is_empty() { ".".to_string() } else { b.iter().map(|x| x.to_string()).collect::<Vec<_>>().join(",") }
}

pub fn observe(t: &mut Toks) -> String {
    let bytes: Vec<u8> = t.list(|t| t.next() as u8);
    let s = match String::from_utf8(bytes) { Ok(s) => s, Err(_) => return "i.badrequest=not UTF-8".to_string() };
    let esc = quick_xml::escape::escape(s.as_str()).into_owned();
    let un = match quick_xml::escape::unescape(s.as_str()) { Ok(u) => p_bytes(u.as_bytes()), Err(_) => "E".to_string() };
    let rt = match quick_xml::escape::unescape(esc.as_str()) { Ok(u) => (u == s) as u8, Err(_) => 0 };
    // the crate's own path: the string as a node name, written and read back
    let attr = {
        let mut g: Graph<String, ()> = Graph::new(GraphSpecs::directed_create_missing());
        g.add_node(Node::from_name(s.clone()));
        match graphml::write_graphml_string(&g) {
            Err(_) => "write-error".to_string(),
            Ok(doc) => match graphml::read_graphml_string(&doc, GraphSpecs::directed_create_missing()) {
                Err(_) => "read-error".to_string(),
                Ok(r) => {
                    let names: Vec<String> = r.get_all_nodes().iter().map(|n| n.name.clone()).collect();
                    if names == vec![s.clone()] { "1".to_string() } else { format!("read-back-{:?}", names).replace(' ', "_").replace('|', "/") }
                }
            },
        }
    };
    format!("i.esc={}|i.un={}|i.rt={}|i.attr={}", p_bytes(esc.as_bytes()), un, rt, attr)
}

const PIECES: [&str; 40] = [
    "&", ";", "<", ">", "'", "\"", " ", "\t", "\n", "\r", "&amp;", "&lt;", "&gt;", "&apos;", "&quot;", "&#32;", "&#x20;", "&#9;", "&#10;", "&#13;",
    "&#0;", "&#x0;", "&#xD800;", "&#x10FFFF;", "&#x110000;", "&#4294967296;", "&#+32;", "&#-1;", "&#;", "&#x;", "&;", "&nbsp;", "&AMP;", "&#X41;", "&#x1F600;",
    "&#xe9;", "&#00065;", "&amp", "&#x4G;", "&#1114111;",
];

pub fn gen(rng: &mut Rng, profile: &str) -> String {
    let mut s = String::new();
    let n = rng.range(0, 8);
    for _ in 0..n {
        match rng.below(if profile == "names" { 5 } else { 8 }) {
            0 => s.push(*rng.pick(&['a', 'b', 'z', '0', '9', '#', 'x', '_', '-', '.', ':'])),
            1 => s.push(*rng.pick(&['&', ';', '<', '>', '\'', '"', ' ', '\t', '\n', '\r', '=', '/'])),
            2 => s.push(*rng.pick(&['é', 'ß', '日', '本', '😀', '\u{7f}', '\u{80}', '\u{7ff}', '\u{800}', '\u{ffff}', '\u{10000}', '\u{10ffff}', '\u{d7ff}', '\u{e000}'])),
            3 => s.push_str(*rng.pick(&["a b", "x<y", "R&D", "\"q\"", "it's", "<node id=\"n\"/>", "]]>", "<!--", "-->", "&&", ";;"])),
            4 => { let c = char::from_u32(rng.range(32, 0x2fff) as u32).unwrap_or('?'); s.push(c); }
            _ => s.push_str(*rng.pick(&PIECES)),
        }
    }
    crate::xml::bytes_request("esc", s.as_bytes())
}

pub fn candidates(line: &str) -> Vec<String> {
    let (_, mut t) = Toks::from_line(line);
    let bytes: Vec<u8> = t.list(|t| t.next() as u8);
    let s = match String::from_utf8(bytes) { Ok(s) => s, Err(_) => return vec![] };
    let chars: Vec<char> = s.chars().collect();
    (0..chars.len()).map(|i| {
        let c: String = chars.iter().enumerate().filter(|(j, _)| *j != i).map(|(_, c)| *c).collect();
        crate::xml::bytes_request("esc", c.as_bytes())
    }).collect()
}
