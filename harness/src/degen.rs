//! Degenerate-graph sweep (C20): every public function on small degenerate graphs of all 8 kinds,
//! arguments drawn from the graph's own names plus one absent name (for functions with an error
//! channel), each call under catch_unwind; Louvain and eigenvector under a watchdog.
use crate::graphgen::GraphCase;
use crate::store::{err_code, Specs, Toks, G};
use graphrs::algorithms::centrality::{betweenness, closeness, degree, eigenvector};
use graphrs::algorithms::cluster;
use graphrs::algorithms::community::{louvain, partitions};
use graphrs::algorithms::components;
use graphrs::algorithms::shortest_path::dijkstra;
use graphrs::readwrite::graphml;
use graphrs::Error;
use std::collections::HashSet;
use std::panic::{catch_unwind, AssertUnwindSafe};
use std::sync::mpsc;
use std::sync::Arc;
use std::time::Duration;

pub const ABSENT: u32 = 9;

pub fn shape_edges(shape: i64) -> (Vec<u32>, Vec<(u32, u32)>) {
    match shape {
        0 => (vec![], vec![]),
        1 => (vec![2], vec![]),
        2 => (vec![2, 1], vec![]),
        3 => (vec![2, 1], vec![(2, 1)]),
        4 => (vec![3, 1, 2], vec![(3, 1), (1, 2)]),
        5 => (vec![3, 1, 2], vec![(3, 1), (1, 2), (2, 3)]),
        6 => (vec![3, 1, 2], vec![(3, 1), (3, 1)]),
        7 => (vec![2], vec![(2, 2)]),
        8 => (vec![3, 1, 2], vec![(3, 1), (1, 3), (2, 2)]),
        9 => (vec![3, 1, 2], vec![(1, 1), (1, 3), (3, 1), (1, 3)]),
        10 => (vec![1, 2, 3], vec![(1, 2)]),
        11 => (vec![2, 3, 1], vec![(2, 3), (3, 1), (1, 2), (2, 1), (1, 1)]),
        // larger degenerate graphs: size-dependent code paths (small-selection shortcuts, the rayon branch above 20 nodes)
        12 => (vec![13, 10, 15, 11, 14, 12], vec![]),
        13 => (vec![13, 10, 15, 11, 14, 12], vec![(12, 12), (12, 12), (14, 14)]),
        14 => (vec![18, 10, 17, 11, 16, 12, 15, 13, 14], vec![(10, 11), (11, 12), (12, 10), (13, 14), (14, 15), (16, 16)]),
        15 => ((20..42).rev().collect(), vec![]),
        16 => ((20..42).collect(), vec![(20, 21), (30, 30)]),
        17 => ((20..43).collect(), (20..42).map(|i| (i, i + 1)).collect()),
        // above the rayon threshold with nodes that have no out-edges / no in-edges at all (directed kinds): an out-star
        // (22 sinks), an in-star (22 sources), two hubs over 20 common sinks (squares), a cycle with pendant sinks and an
        // isolated node
        18 => ((20..43).collect(), (21..43).map(|i| (20, i)).collect()),
        19 => ((20..43).rev().collect(), (21..43).map(|i| (i, 20)).collect()),
        20 => ((20..42).collect(), (22..42).flat_map(|i| vec![(20, i), (21, i)]).collect()),
        _ => ((20..48).collect(), (20..45).map(|i| (i, if i == 44 { 20 } else { i + 1 })).chain(vec![(20, 45), (20, 46), (30, 46)]).collect()),
    }
}
pub const NUM_SHAPES: i64 = 22;

pub fn case(kind: i64, shape: i64, wmode: i64, dedupe: u8) -> GraphCase {
    let specs = Specs { directed: kind & 1 != 0, multi: kind & 2 != 0, self_loops: kind & 4 != 0, dedupe, missing: 0, slfalse: 1 };
    let (nodes, edges) = shape_edges(shape);
    let mut k = 0;
    let es: Vec<(u32, u32, Option<i64>)> = edges.iter().map(|(u, v)| {
        k += 1;
        let w = match wmode { 0 => None, 1 => Some(k as i64), 3 => Some(if k % 2 == 1 { -(k as i64) - 5 } else { k as i64 }), _ => if k % 2 == 0 { None } else { Some(k as i64) } };
        (*u, *v, w)
    }).collect();
    GraphCase { specs, nodes, edges: es }
}

fn class<T>(f: impl FnOnce() -> Result<T, Error>) -> String {
    match catch_unwind(AssertUnwindSafe(f)) {
        Err(_) => "P".to_string(),
        Ok(Ok(_)) => "ok".to_string(),
        Ok(Err(e)) => format!("E{}", err_code(&e.kind)),
    }
}
fn class_opt<T>(f: impl FnOnce() -> Option<T>) -> String {
    match catch_unwind(AssertUnwindSafe(f)) {
        Err(_) => "P".to_string(),
        Ok(Some(_)) => "ok".to_string(),
        Ok(None) => "none".to_string(),
    }
}
fn class_plain<T>(f: impl FnOnce() -> T) -> String {
    match catch_unwind(AssertUnwindSafe(f)) {
        Err(_) => "P".to_string(),
        Ok(_) => "ok".to_string(),
    }
}
/// a call that may not return: worker thread + watchdog
fn class_watch(g: &Arc<G>, f: impl FnOnce(&G) -> String + Send + 'static) -> String {
    let (tx, rx) = mpsc::channel();
    let g2 = Arc::clone(g);
    std::thread::spawn(move || { let _ = tx.send(f(&g2)); });
    match rx.recv_timeout(Duration::from_millis(5000)) { Ok(s) => s, Err(_) => "T".to_string() }
}

pub fn observe(t: &mut Toks) -> String {
    let gc = GraphCase::parse(t);
    let g: G = match gc.build() { Ok(g) => g, Err(e) => return format!("i.build=E{}", err_code(&e.kind)) };
    let g = Arc::new(g);
    let u: Vec<u32> = g.get_all_node_names().into_iter().copied().collect();
    // arguments: every node of a small graph; the first two and the last node of a larger one; always one absent name
    let mut one: Vec<u32> = if u.len() > 4 { vec![u[0], u[1], u[u.len() - 1]] } else { u.clone() };
    one.push(ABSENT);
    let pairs: Vec<(u32, u32)> = one.iter().flat_map(|x| one.iter().map(move |y| (*x, *y))).collect();
    let first: Vec<u32> = u.iter().take(1).copied().collect();
    let mut first_absent = first.clone(); first_absent.push(ABSENT);
    // node lists: empty, one name, all names, a name and an absent one, a name twice, all names and the first again
    let twice: Vec<u32> = first.iter().chain(first.iter()).copied().collect();
    let all_again: Vec<u32> = u.iter().chain(first.iter()).copied().collect();
    let sets: Vec<Vec<u32>> = vec![vec![], first.clone(), u.clone(), first_absent, twice, all_again];
    let mut f: Vec<(String, String)> = vec![];
    let mut add = |name: &str, items: Vec<String>| f.push((name.to_string(), if items.is_empty() { ".".to_string() } else { items.join(" ") }));
    let gr: &G = &g;
    // negative weights: representable, and the shortest-path functions must answer `ContradictoryPaths` rather than panic; the
    // weighted forms of the other algorithms are only specified for positive weights and are not called
    let negw = g.get_all_edges().iter().any(|e| e.weight < 0.0);
    // --- one name, with an error channel
    add("get_node", one.iter().map(|x| class_opt(|| gr.get_node(*x))).collect());
    add("has_node", one.iter().map(|x| class_plain(|| gr.has_node(x))).collect());
    add("get_edges_for_node", one.iter().map(|x| class(|| gr.get_edges_for_node(*x))).collect());
    add("get_in_edges_for_node", one.iter().map(|x| class(|| gr.get_in_edges_for_node(*x))).collect());
    add("get_out_edges_for_node", one.iter().map(|x| class(|| gr.get_out_edges_for_node(*x))).collect());
    add("get_neighbor_nodes", one.iter().map(|x| class(|| gr.get_neighbor_nodes(*x))).collect());
    add("get_successor_nodes", one.iter().map(|x| class(|| gr.get_successor_nodes(*x))).collect());
    add("get_predecessor_nodes", one.iter().map(|x| class(|| gr.get_predecessor_nodes(*x))).collect());
    add("get_successor_node_names", one.iter().map(|x| class(|| gr.get_successor_node_names(*x))).collect());
    add("get_predecessor_node_names", one.iter().map(|x| class(|| gr.get_predecessor_node_names(*x))).collect());
    add("get_node_degree", one.iter().map(|x| class_opt(|| gr.get_node_degree(*x))).collect());
    add("get_node_in_degree", one.iter().map(|x| class_opt(|| gr.get_node_in_degree(*x))).collect());
    add("get_node_out_degree", one.iter().map(|x| class_opt(|| gr.get_node_out_degree(*x))).collect());
    add("get_node_weighted_degree", one.iter().map(|x| class_opt(|| gr.get_node_weighted_degree(*x))).collect());
    add("get_node_weighted_in_degree", one.iter().map(|x| class_opt(|| gr.get_node_weighted_in_degree(*x))).collect());
    add("get_node_weighted_out_degree", one.iter().map(|x| class_opt(|| gr.get_node_weighted_out_degree(*x))).collect());
    add("node_connected_component", one.iter().map(|x| class(|| components::node_connected_component(gr, x))).collect());
    for w in [false, true] {
        add(&format!("single_source.w{}", w as u8), one.iter().map(|x| class(|| dijkstra::single_source(gr, w, *x, None, None, false, true))).collect());
        add(&format!("single_source_target.w{}", w as u8), pairs.iter().map(|p| class(|| dijkstra::single_source(gr, w, p.0, Some(p.1), Some(2.0), true, true))).collect());
        add(&format!("all_pairs_target.w{}", w as u8), one.iter().map(|x| class(|| dijkstra::all_pairs(gr, w, Some(*x), None, false, true))).collect());
        add(&format!("involving.w{}", w as u8), one.iter().map(|x| class_plain(|| dijkstra::get_all_shortest_paths_involving(gr, *x, w))).collect());
    }
    // --- pairs
    add("get_edge", pairs.iter().map(|p| class(|| gr.get_edge(p.0, p.1).map(|_| ()))).collect());
    add("get_edges", pairs.iter().map(|p| class(|| gr.get_edges(p.0, p.1))).collect());
    // --- sets
    add("has_nodes", sets.iter().map(|s| class_plain(|| gr.has_nodes(s))).collect());
    add("get_edges_for_nodes", sets.iter().map(|s| class(|| gr.get_edges_for_nodes(s))).collect());
    add("get_in_edges_for_nodes", sets.iter().map(|s| class(|| gr.get_in_edges_for_nodes(s))).collect());
    add("get_out_edges_for_nodes", sets.iter().map(|s| class(|| gr.get_out_edges_for_nodes(s))).collect());
    add("get_subgraph", sets.iter().map(|s| class_plain(|| gr.get_subgraph(s))).collect());
    add("triangles_some", sets.iter().map(|s| class(|| cluster::triangles(gr, Some(s)))).collect());
    add("generalized_degree_some", sets.iter().map(|s| class(|| cluster::generalized_degree(gr, Some(s)))).collect());
    for w in [false, true] {
        add(&format!("multi_source.w{}", w as u8), sets.iter().map(|s| class(|| dijkstra::multi_source(gr, w, s.clone(), None, None, false, false))).collect());
        if negw && w { add("clustering_some.w1", vec!["skipneg".to_string()]); add("average_clustering_some.w1", vec!["skipneg".to_string()]); continue; }
        add(&format!("clustering_some.w{}", w as u8), sets.iter().map(|s| class(|| cluster::clustering(gr, w, Some(s)))).collect());
        add(&format!("average_clustering_some.w{}", w as u8), sets.iter().map(|s| class(|| cluster::average_clustering(gr, w, Some(s), true))).collect());
    }
    // --- existing names only (no error channel)
    add("breadth_first_search", u.iter().map(|x| class_plain(|| gr.breadth_first_search(x))).collect());
    add("get_successors_or_neighbors", u.iter().map(|x| class_plain(|| gr.get_successors_or_neighbors(*x))).collect());
    add("square_clustering_some", u.iter().map(|x| class_plain(|| cluster::square_clustering(gr, Some(&[*x])))).collect());
    add("bfs_equal_size_partitions", [1usize, 2, 5].iter().map(|k| class_plain(|| components::bfs_equal_size_partitions(gr, *k))).collect());
    add("get_node_by_index", [0usize, 1, 7].iter().map(|i| class_opt(|| gr.get_node_by_index(i))).collect());
    // --- no arguments
    let mut nullary = |name: &str, c: String| f.push((name.to_string(), c));
    nullary("get_all_nodes", class_plain(|| gr.get_all_nodes().len()));
    nullary("get_all_edges", class_plain(|| gr.get_all_edges().len()));
    nullary("get_all_node_names", class_plain(|| gr.get_all_node_names().len()));
    nullary("edges_have_weight", class_plain(|| gr.edges_have_weight()));
    nullary("number_of_nodes", class_plain(|| gr.number_of_nodes()));
    nullary("number_of_edges", class_plain(|| gr.number_of_edges()));
    nullary("size", class_plain(|| (gr.size(false), gr.size(true))));
    nullary("get_degree_for_all_nodes", class_plain(|| gr.get_degree_for_all_nodes()));
    nullary("get_in_degree_for_all_nodes", class(|| gr.get_in_degree_for_all_nodes()));
    nullary("get_out_degree_for_all_nodes", class(|| gr.get_out_degree_for_all_nodes()));
    nullary("get_weighted_degree_for_all_nodes", class_plain(|| gr.get_weighted_degree_for_all_nodes()));
    nullary("get_weighted_in_degree_for_all_nodes", class(|| gr.get_weighted_in_degree_for_all_nodes()));
    nullary("get_weighted_out_degree_for_all_nodes", class(|| gr.get_weighted_out_degree_for_all_nodes()));
    nullary("get_density", class_plain(|| gr.get_density()));
    nullary("degree_centrality", class_plain(|| degree::degree_centrality(gr)));
    nullary("get_sparse_adjacency_matrix", class(|| gr.get_sparse_adjacency_matrix()));
    nullary("reverse", class(|| gr.reverse()));
    nullary("set_all_edge_weights", class_plain(|| gr.set_all_edge_weights(2.0)));
    nullary("to_single_edges", class(|| gr.to_single_edges()));
    nullary("get_successors_map", class_plain(|| gr.get_successors_map().len()));
    nullary("get_predecessors_map", class_plain(|| gr.get_predecessors_map().len()));
    nullary("ensure_directed", class(|| gr.ensure_directed()));
    nullary("ensure_undirected", class(|| gr.ensure_undirected()));
    nullary("ensure_not_multi_edges", class(|| gr.ensure_not_multi_edges()));
    nullary("ensure_weighted", class(|| gr.ensure_weighted()));
    nullary("connected_components", class(|| components::connected_components(gr)));
    nullary("number_of_connected_components", class(|| components::number_of_connected_components(gr)));
    nullary("weakly_connected_components", class(|| components::weakly_connected_components(gr)));
    nullary("strongly_connected_components", class(|| components::strongly_connected_components(gr)));
    nullary("triangles", class(|| cluster::triangles(gr, None)));
    nullary("generalized_degree", class(|| cluster::generalized_degree(gr, None)));
    nullary("transitivity", class(|| cluster::transitivity(gr)));
    nullary("square_clustering", class_plain(|| cluster::square_clustering(gr, None)));
    nullary("write_graphml_string", class_plain(|| graphml::write_graphml_string(gr).is_ok()));
    let singletons: Vec<HashSet<u32>> = u.iter().map(|x| { let mut h = HashSet::new(); h.insert(*x); h }).collect();
    let bad: Vec<HashSet<u32>> = vec![first.iter().copied().chain(std::iter::once(ABSENT)).collect()];
    nullary("is_partition", class_plain(|| (partitions::is_partition(gr, &singletons), partitions::is_partition(gr, &bad))));
    for w in [false, true] {
        let s = w as u8;
        nullary(&format!("all_pairs.w{}", s), class(|| dijkstra::all_pairs(gr, w, None, None, false, true)));
        nullary(&format!("all_pairs_basic.w{}", s), class(|| dijkstra::all_pairs(gr, w, None, None, false, false)));
        if negw && w {
            for name in ["betweenness", "closeness", "clustering", "average_clustering", "modularity", "eigenvector", "louvain_partitions", "louvain_communities"] {
                nullary(&format!("{}.w1", name), "skipneg".to_string());
            }
            continue;
        }
        nullary(&format!("betweenness.w{}", s), format!("{} {}", class(|| betweenness::betweenness_centrality(gr, w, false)), class(|| betweenness::betweenness_centrality(gr, w, true))));
        nullary(&format!("closeness.w{}", s), format!("{} {}", class(|| closeness::closeness_centrality(gr, w, false)), class(|| closeness::closeness_centrality(gr, w, true))));
        nullary(&format!("clustering.w{}", s), class(|| cluster::clustering(gr, w, None)));
        nullary(&format!("average_clustering.w{}", s), format!("{} {}", class(|| cluster::average_clustering(gr, w, None, true)), class(|| cluster::average_clustering(gr, w, None, false))));
        nullary(&format!("modularity.w{}", s), format!("{} {}", class(|| partitions::modularity(gr, &singletons, w, None)), class(|| partitions::modularity(gr, &bad, w, Some(0.5)))));
        nullary(&format!("eigenvector.w{}", s), class_watch(&g, move |g| class(|| eigenvector::eigenvector_centrality(g, w, Some(50), None))));
        nullary(&format!("louvain_partitions.w{}", s), class_watch(&g, move |g| class(|| louvain::louvain_partitions(g, w, None, None, Some(3)))));
        nullary(&format!("louvain_communities.w{}", s), class_watch(&g, move |g| class(|| louvain::louvain_communities(g, w, Some(1.5), Some(0.0), Some(4)))));
    }
    // graphs that take the rayon branches: the same calls inside caller-installed pools of one worker, of more workers than the
    // graph has nodes, and of 64 workers (work is split by the number of workers somewhere => a split of size 0 or 1)
    if u.len() > 20 {
        let mut items: Vec<String> = vec![];
        for k in [1usize, u.len() + 3, 64] {
            let pool = rayon::ThreadPoolBuilder::new().num_threads(k).build().unwrap();
            let srcs: Vec<u32> = u.clone();
            let x = u[0];
            let r: Vec<String> = pool.install(|| {
                let mut v = vec![];
                for w in [false, true] {
                    if negw && w { continue; }
                    v.push(class(|| betweenness::betweenness_centrality(gr, w, true)));
                    v.push(class(|| closeness::closeness_centrality(gr, w, true)));
                    v.push(class(|| dijkstra::all_pairs(gr, w, None, None, false, true)));
                    v.push(class(|| dijkstra::all_pairs(gr, w, Some(x), None, true, false)));
                    v.push(class(|| dijkstra::multi_source(gr, w, srcs.clone(), None, None, false, true)));
                    v.push(class(|| dijkstra::multi_source(gr, w, vec![], None, None, false, false)));
                    v.push(class_plain(|| dijkstra::get_all_shortest_paths_involving(gr, x, w)));
                    v.push(class_plain(|| cluster::square_clustering(gr, None)));
                }
                v
            });
            items.extend(r);
        }
        f.push(("pools".to_string(), items.join(" ")));
    }
    f.iter().map(|(k, v)| format!("i.{}={}", k, v)).collect::<Vec<_>>().join("|")
}

pub fn all_requests() -> Vec<String> {
    let mut out = vec![];
    // every duplicate-edge policy under which the shape can be built (a shape with a repeated pair
    // cannot be built on a single-edge graph under the `Error` policy)
    for kind in 0..8 { for shape in 0..NUM_SHAPES { for w in 0..4 { for dedupe in 0..3u8 {
        // weight mode 3 (negative weights) only matters where there are edges, and is kept to the small shapes
        if w == 3 && (shape > 11 || shape_edges(shape).1.is_empty()) { continue; }
        let c = case(kind, shape, w, dedupe);
        if c.build().is_ok() { out.push(format!("degen {}", c.tokens())); }
    } } } }
    out
}
