//! Shortest-path family (C04, C07, C08): single_source / multi_source / all_pairs /
//! get_all_shortest_paths_involving on one graph and one option combination.
use crate::graphgen::{gen_graph, GenOpts, GraphCase, WeightMode};
use crate::rng::Rng;
use crate::store::{err_code, Toks, NAN_TOKEN};
use graphrs::algorithms::shortest_path::{dijkstra, ShortestPathInfo};
use graphrs::Error;
use std::collections::HashMap;

#[derive(Clone, Debug)]
pub struct Case {
    pub g: GraphCase,
    pub weighted: bool,
    pub target: Option<u32>,
    pub cutoff2: Option<i64>,
    pub first_only: bool,
    pub with_paths: bool,
    pub involving: u32,
    /// the implementation sees every weight (and the cutoff, when weighted) divided by this power of two; the distances it
    /// reports are multiplied back (all exact in f64), so that the model and the checker keep working on integers
    pub wdiv: u64,
}

impl Case {
    pub fn request(&self) -> String {
        format!(
            "sp {} {} {} {} {} {} {} {}",
            self.g.tokens(),
            self.weighted as u8,
            self.target.map(|x| x as i64).unwrap_or(-1),
            self.cutoff2.unwrap_or(NAN_TOKEN),
            self.first_only as u8,
            self.with_paths as u8,
            self.involving,
            self.wdiv
        )
    }
    pub fn parse(t: &mut Toks) -> Case {
        let g = GraphCase::parse(t);
        let weighted = t.next() != 0;
        let tg = t.next();
        let c = t.next();
        let first_only = t.next() != 0;
        let with_paths = t.next() != 0;
        let involving = t.next() as u32;
        let wdiv = t.next() as u64;
        Case { wdiv, g, weighted, target: if tg < 0 { None } else { Some(tg as u32) }, cutoff2: if c == NAN_TOKEN { None } else { Some(c) }, first_only, with_paths, involving }
    }
}

type Row = HashMap<u32, ShortestPathInfo<u32>>;

fn dist_int(d: f64) -> Option<i64> {
    if d.fract() == 0.0 && d.abs() < 9.0e15 { Some(d as i64) } else { None }
}
fn p_info(i: &ShortestPathInfo<u32>) -> String {
    let mut ps: Vec<Vec<u32>> = i.paths.clone();
    ps.sort();
    let d = match dist_int(i.distance) { Some(x) => x.to_string(), None => format!("f{}", i.distance.to_bits()) };
    format!("{}:{}", d, if ps.is_empty() { ".".to_string() } else { ps.iter().map(|p| p.iter().map(|x| x.to_string()).collect::<Vec<_>>().join("-")).collect::<Vec<_>>().join("/") })
}
fn p_row(r: &Row) -> String {
    if r.is_empty() { return ".".to_string(); }
    let mut kv: Vec<(&u32, &ShortestPathInfo<u32>)> = r.iter().collect();
    kv.sort_by_key(|x| *x.0);
    kv.iter().map(|(k, v)| format!("{}:{}", k, p_info(v))).collect::<Vec<_>>().join(";")
}
fn p_map(m: &Result<Vec<(u32, Row)>, Error>) -> String {
    match m {
        Err(e) => format!("E{}", err_code(&e.kind)),
        Ok(v) => {
            if v.is_empty() { return ".".to_string(); }
            let mut kv: Vec<&(u32, Row)> = v.iter().collect();
            kv.sort_by_key(|x| x.0);
            kv.iter().map(|(k, r)| format!("{}>{}", k, p_row(r))).collect::<Vec<_>>().join(" ")
        }
    }
}
fn tok_map(m: &Result<Vec<(u32, Row)>, Error>) -> String {
    match m {
        Err(e) => format!("{}", err_code(&e.kind)),
        Ok(v) => {
            let mut s = format!("0 {}", v.len());
            for (src, row) in v {
                s.push_str(&format!(" {} {}", src, row.len()));
                for (t, i) in row {
                    s.push_str(&format!(" {} {} {}", t, dist_int(i.distance).unwrap_or(NAN_TOKEN), i.paths.len()));
                    for p in &i.paths {
                        s.push_str(&format!(" {}", p.len()));
                        for x in p { s.push_str(&format!(" {}", x)); }
                    }
                }
            }
            s
        }
    }
}

pub fn observe_inner(c: &Case) -> String {
    let g = match c.g.build_scaled(c.wdiv.max(1)) {
        Ok(g) => g,
        Err(e) => return format!("i.build=E{}", err_code(&e.kind)),
    };
    let scale = if c.weighted { c.wdiv.max(1) as f64 } else { 1.0 };
    let cutoff = c.cutoff2.map(|x| x as f64 / 2.0 / scale);
    let unscale = |mut r: Row| -> Row { for i in r.values_mut() { i.distance *= scale; } r };
    let names: Vec<u32> = g.get_all_node_names().into_iter().copied().collect();
    // one single_source call per node
    let mut ss: Result<Vec<(u32, Row)>, Error> = Ok(vec![]);
    for s in &names {
        match dijkstra::single_source(&g, c.weighted, *s, c.target, cutoff, c.first_only, c.with_paths) {
            Ok(r) => { if let Ok(v) = ss.as_mut() { v.push((*s, unscale(r))); } }
            Err(e) => { ss = Err(e); break; }
        }
    }
    let ms = dijkstra::multi_source(&g, c.weighted, names.clone(), c.target, cutoff, c.first_only, c.with_paths).map(|m| m.into_iter().map(|(k, r)| (k, unscale(r))).collect::<Vec<_>>());
    let ap = dijkstra::all_pairs(&g, c.weighted, c.target, cutoff, c.first_only, c.with_paths).map(|m| m.into_iter().map(|(k, r)| (k, unscale(r))).collect::<Vec<_>>());
    let inv: Vec<ShortestPathInfo<u32>> = dijkstra::get_all_shortest_paths_involving(&g, c.involving, c.weighted).into_iter().map(|mut i| { i.distance *= scale; i }).collect();
    let mut inv_s: Vec<String> = inv.iter().map(p_info).collect();
    inv_s.sort();
    let mut tok = format!("{} {} {} {}", tok_map(&ss), tok_map(&ms), tok_map(&ap), inv.len());
    for i in &inv {
        tok.push_str(&format!(" {} {}", dist_int(i.distance).unwrap_or(NAN_TOKEN), i.paths.len()));
        for p in &i.paths {
            tok.push_str(&format!(" {}", p.len()));
            for x in p { tok.push_str(&format!(" {}", x)); }
        }
    }
    let cert = f64_certificate(c);
    format!(
        "i.build=0|i.f64cert={}|i.ss={}|i.ms={}|i.ap={}|i.inv={}|i.tok={}",
        cert, p_map(&ss), p_map(&ms), p_map(&ap),
        if inv_s.is_empty() { ".".to_string() } else { inv_s.join(" ") },
        tok
    )
}

/// The distance certificate in the implementation's own arithmetic, on a copy of the graph whose weights are divided by 10
/// (sums that are not exact in f64, routes whose lengths differ in the last place). With non-negative weights f64 addition is
/// monotone, so Dijkstra's invariants hold *exactly* in f64: every returned path, folded left to right with the lightest
/// parallel edge, has bit for bit the reported distance; the labelling is closed (`dist[v] <= dist[u] + w` for every stored
/// edge out of a reached node, hence every node an edge leads to is reached); the distance-only search agrees bit for bit.
/// (Over exact arithmetic this is `C04_certificate_exact`; here it is evaluated over f64 path sums.)
fn f64_certificate(c: &Case) -> String {
    if !c.weighted || c.g.edges.iter().any(|e| e.2.map_or(true, |w| w < 0)) { return "1".to_string(); }
    let g = match c.g.build_divided(10.0) { Ok(g) => g, Err(_) => return "1".to_string() };
    let directed = g.specs.directed;
    let mut wmin: std::collections::HashMap<(u32, u32), f64> = std::collections::HashMap::new();
    for e in g.get_all_edges() {
        let mut put = |k: (u32, u32)| { let x = wmin.entry(k).or_insert(f64::INFINITY); if e.weight < *x { *x = e.weight; } };
        put((e.u, e.v));
        if !directed { put((e.v, e.u)); }
    }
    let names: Vec<u32> = g.get_all_node_names().into_iter().copied().collect();
    let basic = match dijkstra::all_pairs(&g, true, None, None, false, false) { Ok(m) => m, Err(e) => return format!("all_pairs:E{}", err_code(&e.kind)) };
    for s in &names {
        let row = match dijkstra::single_source(&g, true, *s, None, None, false, true) { Ok(r) => r, Err(e) => return format!("single_source({}):E{}", s, err_code(&e.kind)) };
        for (t, info) in &row {
            if info.paths.is_empty() { return format!("no-path:{}->{}", s, t); }
            for p in &info.paths {
                if p.first() != Some(s) || p.last() != Some(t) { return format!("endpoints:{}->{}", s, t); }
                let mut d = 0.0f64;
                for w in p.windows(2) {
                    match wmin.get(&(w[0], w[1])) { Some(x) => d += *x, None => return format!("not-a-walk:{}->{}", s, t) }
                }
                if d.to_bits() != info.distance.to_bits() && !(d == 0.0 && info.distance == 0.0) {
                    return format!("path-sum:{}->{}:{:e}/{:e}", s, t, d, info.distance);
                }
            }
        }
        for ((u, v), w) in &wmin {
            if let Some(iu) = row.get(u) {
                match row.get(v) {
                    None => return format!("not-closed:{}:{}->{}", s, u, v),
                    Some(iv) => if iv.distance > iu.distance + *w { return format!("not-closed:{}:{}->{}:{:e}>{:e}", s, u, v, iv.distance, iu.distance + *w); }
                }
            }
        }
        match basic.get(s) {
            None => return format!("basic-missing-source:{}", s),
            Some(b) => {
                if b.len() != row.len() { return format!("basic-size:{}", s); }
                for (t, info) in &row {
                    match b.get(t) { Some(x) if x.distance.to_bits() == info.distance.to_bits() || (x.distance == 0.0 && info.distance == 0.0) => {}, _ => return format!("basic-differs:{}->{}", s, t) }
                }
            }
        }
    }
    "1".to_string()
}

pub fn gen_case(rng: &mut Rng, profile: &str, size: usize) -> Case {
    let big = profile == "parallel";
    let wm = match rng.below(4) { 0 => WeightMode::Unweighted, 1 => WeightMode::NonNegative, _ => WeightMode::Positive };
    let o = GenOpts {
        max_nodes: if big { 40 } else { size }, min_nodes: if big { 21 } else { 1 }, weights: wm, allow_multi: true, allow_loops: true,
        directed: None, density_pct: if big { 6 } else { 22 },
    };
    let mut g = gen_graph(rng, &o);
    if big && rng.chance(35) {
        // a long chain with a few chords: distances well above the number of nodes when weighted
        let n = g.nodes.len();
        g.edges.clear();
        for i in 0..n.saturating_sub(1) {
            let w = match wm { WeightMode::Unweighted => None, _ => Some(rng.range(2, 4)) };
            g.edges.push((g.nodes[i], g.nodes[i + 1], w));
            if g.specs.directed && rng.chance(70) { g.edges.push((g.nodes[i + 1], g.nodes[i], w)); }
        }
        for _ in 0..rng.range(0, 3) {
            let (a, b) = (*rng.pick(&g.nodes), *rng.pick(&g.nodes));
            if a != b || g.specs.self_loops { g.edges.push((a, b, match wm { WeightMode::Unweighted => None, _ => Some(rng.range(1, 4)) })); }
        }
    }
    let weighted = wm != WeightMode::Unweighted && rng.chance(75);
    // hop-count mode must ignore the stored weights altogether: some of them negative
    if !weighted && rng.chance(30) {
        for e in g.edges.iter_mut() { if let Some(w) = e.2 { if rng.chance(40) { e.2 = Some(-w - 1); } } }
    }
    let absent = 99u32;
    let target = if rng.chance(if big { 30 } else { 45 }) { if rng.chance(8) { Some(absent) } else if g.nodes.is_empty() { None } else { Some(*rng.pick(&g.nodes)) } } else { None };
    // (twice the) cutoff: around the distances that occur - small graphs have distances up to ~6, the sparse graphs of the
    // parallel profile up to a few times their node count
    let cutoff2 = if big { if rng.chance(55) { Some(rng.range(0, 6 * g.nodes.len() as i64)) } else { None } }
                  else if rng.chance(40) { Some(rng.range(0, 12)) } else { None };
    let involving = if g.nodes.is_empty() { absent } else { *rng.pick(&g.nodes) };
    Case { wdiv: *rng.pick(&[1u64, 1, 1, 2, 4, 1 << 60, 1 << 60]), g, weighted, target, cutoff2, first_only: rng.chance(35), with_paths: rng.chance(if big { 45 } else { 70 }), involving }
}

pub fn candidates(c: &Case) -> Vec<String> {
    let mut out: Vec<String> = c.g.candidates().into_iter().map(|g| Case { g, ..c.clone() }.request()).collect();
    if c.cutoff2.is_some() { out.push(Case { cutoff2: None, ..c.clone() }.request()); }
    if c.target.is_some() { out.push(Case { target: None, ..c.clone() }.request()); }
    out
}
