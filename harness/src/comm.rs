//! Community families: `mod` (is_partition / modularity; C12) and `louv` (Louvain; C13, C17).
use crate::graphgen::{gen_graph, GenOpts, GraphCase, WeightMode};
use crate::rng::Rng;
use crate::store::{err_code, p_q, Toks};
use graphrs::algorithms::community::{louvain, partitions};
use rand::seq::SliceRandom;
use rand::SeedableRng;
use std::collections::HashSet;
use std::sync::mpsc;
use std::time::Duration;

#[derive(Clone, Debug)]
pub struct ModCase {
    pub g: GraphCase,
    pub weighted: bool,
    pub res: (i64, u32),
    pub comms: Vec<Vec<u32>>,
    /// the implementation sees every weight divided by this power of two (modularity is invariant under the scaling)
    pub wdiv: u64,
}
impl ModCase {
    pub fn request(&self) -> String {
        let mut s = format!("mod {} {} {} {} {}", self.g.tokens(), self.weighted as u8, self.res.0, self.res.1, self.comms.len());
        for c in &self.comms {
            s.push_str(&format!(" {}", c.len()));
            for x in c { s.push_str(&format!(" {}", x)); }
        }
        s.push_str(&format!(" {}", self.wdiv));
        s
    }
    pub fn parse(t: &mut Toks) -> ModCase {
        let g = GraphCase::parse(t);
        let weighted = t.next() != 0;
        let res = (t.next(), t.next() as u32);
        let comms = t.list(|t| t.list(|t| t.next() as u32));
        let wdiv = t.next() as u64;
        ModCase { g, weighted, res, comms, wdiv }
    }
}

pub fn observe_mod(c: &ModCase) -> String {
    let g = match c.g.build_scaled(c.wdiv.max(1)) {
        Ok(g) => g,
        Err(e) => return format!("i.build=E{}", err_code(&e.kind)),
    };
    let comms: Vec<HashSet<u32>> = c.comms.iter().map(|v| v.iter().copied().collect()).collect();
    // denominator 0 encodes an extreme resolution: numerator x 1e-320 (a subnormal f64, still a positive resolution)
    let res = if c.res.1 == 0 { c.res.0 as f64 * 1e-320 } else { c.res.0 as f64 / c.res.1 as f64 };
    let isp = partitions::is_partition(&g, &comms);
    let m = partitions::modularity(&g, &comms, c.weighted, Some(res));
    // resolution None must mean 1.0
    let extra = if c.res == (1, 1) {
        let m2 = partitions::modularity(&g, &comms, c.weighted, None);
        match (&m, &m2) {
            (Ok(a), Ok(b)) if a == b || (a.is_nan() && b.is_nan()) => "1",
            (Err(_), Err(_)) => "1",
            _ => "0",
        }
    } else { "1" };
    format!("i.build=0|i.isp={}|i.mod:q={}|i.defaultres={}", isp as u8, match m { Ok(x) => p_q(x), Err(e) => format!("E{}", err_code(&e.kind)) }, extra)
}

pub fn gen_mod(rng: &mut Rng, _profile: &str, size: usize) -> ModCase {
    let weighted = rng.chance(50);
    let o = GenOpts {
        max_nodes: size, min_nodes: 1,
        weights: if weighted { WeightMode::Positive } else if rng.chance(50) { WeightMode::Unweighted } else { WeightMode::Positive },
        allow_multi: true, allow_loops: true, directed: None, density_pct: 30,
    };
    let g = gen_graph(rng, &o);
    let k = rng.range(1, 4) as usize;
    let mut comms: Vec<Vec<u32>> = vec![vec![]; k];
    for n in &g.nodes { let i = rng.below(k as u64) as usize; comms[i].push(*n); }
    if rng.chance(70) { comms.retain(|c| !c.is_empty()); }
    // perturbations: families that are not partitions - one to four independent faults, so that faults whose effects
    // cancel in a count (overlap + omission, foreign name + omission + overlap, ...) occur together
    let nfaults = match rng.below(100) { 0..=54 => 0, 55..=74 => 1, 75..=86 => 2, 87..=95 => 3, _ => 4 };
    let mut foreign = 77u32;
    for _ in 0..nfaults {
        if comms.is_empty() { comms.push(vec![]); }
        let nonempty: Vec<usize> = (0..comms.len()).filter(|i| !comms[*i].is_empty()).collect();
        match rng.below(5) {
            0 => { // overlap: a member of one community also named by another one
                if comms.len() < 2 { comms.push(vec![]); }
                if let Some(&d) = nonempty.first() {
                    let x = *rng.pick(&comms[d]);
                    let others: Vec<usize> = (0..comms.len()).filter(|i| *i != d).collect();
                    let t = *rng.pick(&others);
                    if !comms[t].contains(&x) { comms[t].push(x); }
                }
            }
            1 => { // omission
                if !nonempty.is_empty() { let d = *rng.pick(&nonempty); let k = rng.below(comms[d].len() as u64) as usize; comms[d].remove(k); }
            }
            2 => { // foreign name added
                let t = rng.below(comms.len() as u64) as usize;
                comms[t].push(foreign); foreign += 1;
            }
            3 => { // foreign name replacing a real one
                if !nonempty.is_empty() { let d = *rng.pick(&nonempty); let k = rng.below(comms[d].len() as u64) as usize; comms[d][k] = foreign; foreign += 1; }
            }
            _ => { comms.push(vec![]); } // an empty community
        }
    }
    let res = if rng.chance(4) { (rng.range(1, 9), 0u32) } else { *rng.pick(&[(1i64, 1u32), (1, 1), (1, 2), (3, 2), (2, 1), (1, 4), (5, 4)]) };
    ModCase { g, weighted, res, comms, wdiv: *rng.pick(&[1u64, 1, 2, 4, 1 << 60]) }
}

pub fn candidates_mod(c: &ModCase) -> Vec<String> {
    let mut out: Vec<String> = vec![];
    for g in c.g.candidates() {
        out.push(ModCase { g, ..c.clone() }.request());
    }
    for i in 0..c.comms.len() {
        let mut cs = c.comms.clone();
        cs.remove(i);
        out.push(ModCase { comms: cs, ..c.clone() }.request());
        for j in 0..c.comms[i].len() {
            let mut cs = c.comms.clone();
            cs[i].remove(j);
            out.push(ModCase { comms: cs, ..c.clone() }.request());
        }
    }
    out
}

// ---------------------------------------------------------------------------------------------

#[derive(Clone, Debug)]
pub struct LouvCase {
    pub g: GraphCase,
    pub weighted: bool,
    pub res: (i64, u32),
    pub seed: u64,
    /// the implementation sees every weight divided by this number (1 = the integer weights themselves): weights that differ
    /// in the tenth digit, or that are all tiny - modularity and every gain comparison are invariant under the scaling, so
    /// the model and the checker keep working on the integer numerators
    pub wden: u64,
}
impl LouvCase {
    pub fn request(&self) -> String {
        // perms[L] = the permutation `shuffle` applies to a vector of length L for this seed (same crate, same call as louvain.rs)
        let n = self.g.nodes.len();
        let mut perms = format!("{}", n + 1);
        for l in 0..=n {
            let mut v: Vec<usize> = (0..l).collect();
            let mut rng = rand::rngs::StdRng::seed_from_u64(self.seed);
            v.shuffle(&mut rng);
            perms.push_str(&format!(" {}", l));
            for x in v { perms.push_str(&format!(" {}", x)); }
        }
        format!("louv {} {} {} {} {} {} {}", self.g.tokens(), self.weighted as u8, self.res.0, self.res.1, self.seed as i64, perms, self.wden)
    }
    pub fn parse(t: &mut Toks) -> LouvCase {
        let g = GraphCase::parse(t);
        let weighted = t.next() != 0;
        let res = (t.next(), t.next() as u32);
        let seed = t.next() as u64;
        let _perms = t.list(|t| t.list(|t| t.next()));
        let wden = t.next() as u64;
        LouvCase { g, weighted, res, seed, wden }
    }
}

type Levels = Vec<Vec<Vec<u32>>>;
fn canon_levels(l: Vec<Vec<HashSet<u32>>>) -> Levels {
    l.into_iter().map(|lev| {
        let mut v: Vec<Vec<u32>> = lev.into_iter().map(|hs| { let mut c: Vec<u32> = hs.into_iter().collect(); c.sort(); c }).collect();
        v.sort();
        v
    }).collect()
}
fn p_level(l: &[Vec<u32>]) -> String {
    if l.is_empty() { return "_".to_string(); }
    l.iter().map(|c| if c.is_empty() { "_".to_string() } else { c.iter().map(|x| x.to_string()).collect::<Vec<_>>().join(",") }).collect::<Vec<_>>().join(";")
}
fn tok_sets(l: &[Vec<u32>]) -> String {
    let mut s = format!("{}", l.len());
    for c in l { s.push_str(&format!(" {}", c.len())); for x in c { s.push_str(&format!(" {}", x)); } }
    s
}

fn louvain_once(c: &LouvCase) -> Result<(Levels, Result<Vec<Vec<u32>>, u32>), String> {
    let g = if c.wden <= 1 { c.g.build() } else { c.g.build_divided(c.wden as f64) }.map_err(|e| format!("E{}", err_code(&e.kind)))?;
    let res = c.res.0 as f64 / c.res.1 as f64;
    let parts = louvain::louvain_partitions(&g, c.weighted, Some(res), None, Some(c.seed)).map_err(|e| format!("E{}", err_code(&e.kind)))?;
    let comm = louvain::louvain_communities(&g, c.weighted, Some(res), None, Some(c.seed));
    let comm = match comm {
        Ok(v) => Ok(canon_levels(vec![v]).pop().unwrap()),
        Err(e) => Err(err_code(&e.kind)),
    };
    Ok((canon_levels(parts), comm))
}

/// Runs Louvain in a worker thread with a watchdog: a call that does not return within the
/// limit is reported as `i.timeout` (the thread is left behind; the process exits at the end).
pub fn observe_louv(c: &LouvCase, limit_ms: u64) -> String {
    let (tx, rx) = mpsc::channel();
    let cc = c.clone();
    std::thread::spawn(move || {
        let r = std::panic::catch_unwind(|| {
            let first = louvain_once(&cc);
            // C17: repeated calls in one process, and under pools of 1 and 4 threads
            let again = louvain_once(&cc);
            let p1 = rayon::ThreadPoolBuilder::new().num_threads(1).build().unwrap().install(|| louvain_once(&cc));
            let p4 = rayon::ThreadPoolBuilder::new().num_threads(4).build().unwrap().install(|| louvain_once(&cc));
            let same = first == again && first == p1 && first == p4;
            (first, same)
        });
        let _ = tx.send(r);
    });
    match rx.recv_timeout(Duration::from_millis(limit_ms)) {
        Err(_) => format!("i.timeout=louvain did not return within {} ms", limit_ms),
        Ok(Err(_)) => "i.panic=louvain panicked".to_string(),
        Ok(Ok((first, same))) => match first {
            Err(code) => format!("i.build=0|i.parts={}|i.same={}|i.tok={} 0", code, same as u8, &code[1..]),
            Ok((levels, comm)) => {
                let parts = if levels.is_empty() { ".".to_string() } else { levels.iter().map(|l| p_level(l)).collect::<Vec<_>>().join(" ") };
                let mut tok = format!("0 {}", levels.len());
                for l in &levels { tok.push(' '); tok.push_str(&tok_sets(l)); }
                match &comm {
                    Ok(cm) => { tok.push_str(" 0 "); tok.push_str(&tok_sets(cm)); }
                    Err(code) => tok.push_str(&format!(" {}", code)),
                }
                format!("i.build=0|i.parts={}|i.same={}|i.tok={}", parts, same as u8, tok)
            }
        },
    }
}

/// a hub joined to several identical cliques by edges whose weights differ in the tenth significant digit (or are all of
/// the order 1e-9): candidate communities whose gains are neither equal nor clearly apart
fn gen_nearties(rng: &mut Rng) -> LouvCase {
    let (base, wden): (i64, u64) = if rng.chance(60) { (2_500_000_000, 2_500_000_000) } else { (10, 10_000_000_000) };
    let step: i64 = if base > 100 { 1 } else { 4 };
    let t = rng.range(3, 5) as u32;
    let csize = rng.range(2, 4) as u32;
    let n = 1 + t * csize;
    let mut names: Vec<u32> = (1..=n).collect();
    rng.shuffle(&mut names);
    let hub = names[0];
    let mut edges = vec![];
    for c in 0..t {
        let first = 1 + c * csize;
        for i in 0..csize { for j in (i + 1)..csize { edges.push((names[(first + i) as usize], names[(first + j) as usize], Some(base))); } }
        if csize == 2 && rng.chance(50) { edges.push((names[first as usize], names[first as usize + 1], Some(base))); edges.pop(); }
        edges.push((hub, names[first as usize], Some(base + step * rng.range(0, 3))));
    }
    if rng.chance(50) { rng.shuffle(&mut edges); }
    let mut nodes = names.clone();
    if rng.chance(50) { rng.shuffle(&mut nodes); }
    let directed = rng.chance(25);
    let g = GraphCase { specs: crate::store::Specs { directed, multi: false, self_loops: false, dedupe: 1, missing: 0, slfalse: 1 }, nodes, edges };
    LouvCase { g, weighted: true, res: *rng.pick(&[(1i64, 1u32), (1, 1), (1, 2), (3, 2)]), seed: rng.below(1000), wden }
}

pub fn gen_louv(rng: &mut Rng, profile: &str, size: usize) -> LouvCase {
    if profile == "nearties" { return gen_nearties(rng); }
    if profile == "inexact" {
        // ordinary decimal weights (0.1, 0.3, 1/7 ...): sums that are not exact in f64, so that any dependence of a rounding
        // on the iteration order of a hash container can flip an exact tie
        let base = if rng.chance(40) { "ties" } else { "random" };
        let mut c = gen_louv(rng, base, size);
        c.weighted = true;
        for e in c.g.edges.iter_mut() { if e.2.is_none() { e.2 = Some(rng.range(1, 22)); } else if rng.chance(60) { e.2 = Some(rng.range(1, 22)); } }
        c.wden = *rng.pick(&[3u64, 7, 10, 10, 10, 100, 10_000_000_000]);
        return c;
    }
    let weighted = rng.chance(50);
    let ties = profile == "ties";
    let mut g;
    if profile == "hub" {
        g = GraphCase { specs: crate::store::Specs { directed: true, multi: false, self_loops: false, dedupe: 1, missing: 0, slfalse: 1 }, nodes: vec![], edges: vec![] };
    } else if ties && rng.chance(70) {
        // paths, cycles and regular graphs: exact ties between candidate communities
        let n = rng.range(3, size as i64 + 4) as u32;
        let directed = rng.chance(40);
        let mut edges = vec![];
        let shape = rng.below(3);
        for i in 0..n {
            let j = (i + 1) % n;
            if shape == 0 && j == 0 { continue; } // path
            edges.push((i + 1, j + 1, if weighted { Some(1) } else { None }));
            if shape == 2 { let k = (i + 2) % n; if k != i { edges.push((i + 1, k + 1, if weighted { Some(1) } else { None })); } }
        }
        let mut nodes: Vec<u32> = (1..=n).collect();
        if rng.chance(50) { rng.shuffle(&mut nodes); }
        g = GraphCase { specs: crate::store::Specs { directed, multi: false, self_loops: false, dedupe: 1, missing: 0, slfalse: 1 }, nodes, edges };
    } else {
        let o = GenOpts {
            max_nodes: size, min_nodes: 2, weights: if weighted { WeightMode::Positive } else if rng.chance(50) { WeightMode::Unweighted } else { WeightMode::Positive },
            allow_multi: true, allow_loops: true, directed: None, density_pct: *rng.pick(&[10u64, 20, 35]),
        };
        g = gen_graph(rng, &o);
        if g.edges.is_empty() && g.nodes.len() >= 2 {
            g.edges.push((g.nodes[0], g.nodes[1], if weighted { Some(1) } else { None }));
        }
    }
    let mut res = *rng.pick(&[(1i64, 1u32), (1, 1), (1, 1), (1, 2), (3, 2), (2, 1)]);
    if profile == "strand" {
        // small sparse directed graphs, mostly acyclic (sources with out-edges only, sinks with in-edges only), resolution
        // above 1: nodes join a community and are later left behind in it without any edge into it
        let n = *rng.pick(&[3u32, 4, 4, 4, 4, 5, 5, 5, 6, 6]);
        let mut order: Vec<u32> = (1..=n).collect();
        rng.shuffle(&mut order);
        let mut edges = vec![];
        let pct = *rng.pick(&[40u64, 60, 80, 100]);
        for i in 0..n as usize {
            for j in (i + 1)..n as usize {
                if rng.chance(pct) {
                    let (u, v) = if rng.chance(94) { (order[i], order[j]) } else { (order[j], order[i]) };
                    edges.push((u, v, if weighted { Some(rng.range(1, 3)) } else { None }));
                }
            }
        }
        if edges.is_empty() { edges.push((order[0], order[1], if weighted { Some(1) } else { None })); }
        let mut nodes: Vec<u32> = (1..=n).collect();
        if rng.chance(50) { rng.shuffle(&mut nodes); }
        g = GraphCase { specs: crate::store::Specs { directed: true, multi: false, self_loops: false, dedupe: 1, missing: 0, slfalse: 1 }, nodes, edges };
        res = *rng.pick(&[(6i64, 5u32), (6, 5), (11, 10), (5, 4), (3, 2), (7, 4), (2, 1), (1, 1)]);
    }
    if profile == "hub" {
        // degree thresholds: one or two nodes with 33..60 adjacent nodes (out-hub, in-hub or both ways), the other nodes
        // sparsely connected among themselves and partly outside the hub's reach
        let k = rng.range(33, 60) as u32;
        let extra = rng.range(5, 30) as u32;
        let n = 1 + k + extra;
        let directed = rng.chance(75);
        let mode = rng.below(3); // 0: hub -> leaves, 1: leaves -> hub, 2: mixed
        let mut edges: Vec<(u32, u32, Option<i64>)> = vec![];
        let wt = |rng: &mut Rng| if weighted { Some(rng.range(1, 3)) } else { None };
        for leaf in 2..=(k + 1) {
            let out = match mode { 0 => true, 1 => false, _ => rng.chance(50) };
            let w = wt(rng);
            edges.push(if out { (1, leaf, w) } else { (leaf, 1, w) });
        }
        let mut seen = std::collections::HashSet::new();
        for _ in 0..(n + rng.range(0, n as i64) as u32) {
            let (a, b) = (rng.range(2, n as i64) as u32, rng.range(2, n as i64) as u32);
            if a == b || !seen.insert((a.min(b), a.max(b))) { continue; }
            let w = wt(rng);
            edges.push((a, b, w));
        }
        let mut nodes: Vec<u32> = (1..=n).collect();
        if rng.chance(50) { rng.shuffle(&mut nodes); }
        g = GraphCase { specs: crate::store::Specs { directed, multi: false, self_loops: false, dedupe: 1, missing: 0, slfalse: 1 }, nodes, edges };
    }
    // dyadic scaling is exact in f64: the implementation's decisions are those of the unscaled run
    LouvCase { g, weighted, res, seed: special_seed(rng, 1000), wden: *rng.pick(&[1u64, 1, 2, 4]) }
}

pub fn candidates_louv(c: &LouvCase) -> Vec<String> {
    c.g.candidates().into_iter().filter(|g| !g.edges.is_empty()).map(|g| LouvCase { g, ..c.clone() }.request()).collect()
}


/// a seed: mostly small, now and then one of the boundary values of u64 / i64 / u32 (seeds travel as signed tokens)
pub fn special_seed(rng: &mut Rng, below: u64) -> u64 {
    if rng.chance(8) {
        *rng.pick(&[0u64, 1, u64::MAX, u64::MAX - 1, u64::MAX - 2, i64::MAX as u64, i64::MAX as u64 + 1, u32::MAX as u64, u32::MAX as u64 + 1, 1 << 63])
    } else { rng.below(below) }
}
