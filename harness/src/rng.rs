//! A small deterministic PRNG (splitmix64) so that every generated case is a pure function of
//! `VERIF_SEED` and the case number, independent of any crate's algorithm changes.
#[derive(Clone)]
pub struct Rng(pub u64);

impl Rng {
    pub fn new(seed: u64) -> Rng {
        Rng(seed.wrapping_mul(0x9E3779B97F4A7C15) ^ 0xD1B54A32D192ED03)
    }
    pub fn next_u64(&mut self) -> u64 {
        self.0 = self.0.wrapping_add(0x9E3779B97F4A7C15);
        let mut z = self.0;
        z = (z ^ (z >> 30)).wrapping_mul(0xBF58476D1CE4E5B9);
        z = (z ^ (z >> 27)).wrapping_mul(0x94D049BB133111EB);
        z ^ (z >> 31)
    }
    /// uniform in 0..n (n > 0)
    pub fn below(&mut self, n: u64) -> u64 {
        self.next_u64() % n
    }
    pub fn range(&mut self, lo: i64, hi: i64) -> i64 {
        lo + self.below((hi - lo + 1) as u64) as i64
    }
    pub fn chance(&mut self, percent: u64) -> bool {
        self.below(100) < percent
    }
    pub fn pick<'a, T>(&mut self, v: &'a [T]) -> &'a T {
        &v[self.below(v.len() as u64) as usize]
    }
    pub fn shuffle<T>(&mut self, v: &mut Vec<T>) {
        for i in (1..v.len()).rev() {
            let j = self.below(i as u64 + 1) as usize;
            v.swap(i, j);
        }
    }
    pub fn fork(&mut self) -> Rng {
        Rng::new(self.next_u64())
    }
}
