//! Generator families (C16, C17): complete_graph, karate_club_graph, fast_gnp_random_graph.
use crate::rng::Rng;
use crate::store::{err_code, Toks};
use graphrs::generators::{classic, random, social};
use graphrs::{Error, Graph};
use rand::{Rng as _, SeedableRng};
use rand_chacha::ChaCha20Rng;
use std::collections::HashSet;

fn p_graph(g: &Graph<i32, ()>) -> (String, String) {
    let ns: Vec<i32> = g.get_all_node_names().into_iter().copied().collect();
    let mut es: Vec<(i32, i32)> = g.get_all_edges().iter().map(|e| (e.u, e.v)).collect();
    es.sort();
    let fields = format!(
        "i.nodes={}|i.edges={}",
        if ns.is_empty() { ".".to_string() } else { ns.iter().map(|x| x.to_string()).collect::<Vec<_>>().join(",") },
        if es.is_empty() { ".".to_string() } else { es.iter().map(|e| format!("{},{}", e.0, e.1)).collect::<Vec<_>>().join(";") }
    );
    let mut tok = format!("0 {}", ns.len());
    for n in &ns { tok.push_str(&format!(" {}", n)); }
    tok.push_str(&format!(" {}", es.len()));
    for e in &es { tok.push_str(&format!(" {} {}", e.0, e.1)); }
    (fields, tok)
}

pub fn observe_complete(t: &mut Toks) -> String {
    let n = t.next() as i32;
    let directed = t.next() != 0;
    let g = classic::complete_graph(n, directed);
    let (f, tok) = p_graph(&g);
    format!("{}|i.tok={}", f, tok)
}

pub fn observe_karate() -> String {
    let g = social::karate_club_graph();
    let (f, tok) = p_graph(&g);
    format!("{}|i.directed={}|i.tok={}", f, g.specs.directed as u8, tok)
}

/// the skips the generator draws for this seed: same crates, same expression as src/generators/random.rs
pub fn skips(p: f64, seed: u64, k: usize) -> Vec<i64> {
    let mut rng = ChaCha20Rng::seed_from_u64(seed);
    let lp = (1.0 - p).ln();
    (0..k)
        .map(|_| {
            let lr: f64 = (1.0_f64 - rng.gen::<f64>()).ln();
            let skip = lr / lp;
            if skip >= 0.0 { skip as i64 } else { i64::MAX }
        })
        .collect()
}

pub fn gnp_request(n: i64, pnum: i64, pden: u64, directed: bool, seed: u64) -> String { gnp_request_k(n, pnum, pden, directed, seed, 2600) }

pub fn gnp_request_k(n: i64, pnum: i64, pden: u64, directed: bool, seed: u64, kmax: usize) -> String {
    let p = pnum as f64 / pden as f64;
    let k = if pnum <= 0 || pnum as u64 >= pden { 0 } else { ((n.max(0) * n.max(0) + n.max(0) + 5) as usize).min(kmax) };
    let sk = skips(p, seed, k);
    format!("gnp {} {} {} {} {} {}{}", n, pnum, pden, directed as u8, seed as i64, sk.len(), sk.iter().map(|x| format!(" {}", x)).collect::<String>())
}

fn gnp_call(n: i32, p: f64, directed: bool, seed: u64) -> Result<(String, String), Error> {
    random::fast_gnp_random_graph(n, p, directed, Some(seed)).map(|g| p_graph(&g))
}

pub fn observe_gnp(t: &mut Toks) -> String {
    let n = t.next() as i32;
    let pnum = t.next();
    let pden = t.next() as u64;
    let directed = t.next() != 0;
    let seed = t.next() as u64;
    let p = pnum as f64 / pden as f64;
    let a = gnp_call(n, p, directed, seed);
    // C17: a second call, and calls inside pools of 1 and 4 threads, must give the same graph
    let b = gnp_call(n, p, directed, seed);
    let c = rayon::ThreadPoolBuilder::new().num_threads(1).build().unwrap().install(|| gnp_call(n, p, directed, seed));
    let d = rayon::ThreadPoolBuilder::new().num_threads(4).build().unwrap().install(|| gnp_call(n, p, directed, seed));
    let key = |r: &Result<(String, String), Error>| match r { Ok(x) => x.0.clone(), Err(e) => format!("E{}", err_code(&e.kind)) };
    let same = key(&a) == key(&b) && key(&a) == key(&c) && key(&a) == key(&d);
    match a {
        Ok((f, tok)) => format!("{}|i.same={}|i.tok={}", f, same as u8, tok),
        Err(e) => format!("i.nodes=E{0}|i.edges=E{0}|i.same={1}|i.tok={0}", err_code(&e.kind), same as u8),
    }
}

/// `gnpdet n pnum pden directed seed`: C17 on graphs far above every size threshold of the crate - the seeded generator is
/// called twice on the caller's thread and inside pools of 1, 2, 4 and 16 workers; every call must return the same graph
/// (nodes in order, edge list in order), and the graph must have the structure C16 promises (nodes 0..n-1, no self-loop,
/// no repeated pair, endpoints in range).
pub fn observe_gnpdet(t: &mut Toks) -> String {
    let n = t.next() as i32;
    let pnum = t.next();
    let pden = t.next() as u64;
    let directed = t.next() != 0;
    let seed = t.next() as u64;
    let p = pnum as f64 / pden as f64;
    let call = || -> Result<(Vec<i32>, Vec<(i32, i32)>), Error> {
        random::fast_gnp_random_graph(n, p, directed, Some(seed)).map(|g| {
            (g.get_all_nodes().iter().map(|x| x.name).collect(), g.get_all_edges().iter().map(|e| (e.u, e.v)).collect::<Vec<_>>())
        })
    };
    let canon = |r: Result<(Vec<i32>, Vec<(i32, i32)>), Error>| match r {
        Ok((nodes, mut edges)) => { edges.sort(); Ok((nodes, edges)) }
        Err(e) => Err(err_code(&e.kind)),
    };
    let a = canon(call());
    let mut diffs: Vec<String> = vec![];
    if canon(call()) != a { diffs.push("second-call".to_string()); }
    for k in [1usize, 2, 4, 16] {
        let r = rayon::ThreadPoolBuilder::new().num_threads(k).build().unwrap().install(|| canon(call()));
        if r != a { diffs.push(format!("pool{}", k)); }
    }
    let (structure, m) = match &a {
        Ok((nodes, edges)) => {
            let nodes_ok = nodes.len() == n.max(0) as usize && nodes.iter().enumerate().all(|(i, x)| *x == i as i32);
            let mut seen: HashSet<(i32, i32)> = HashSet::new();
            let edges_ok = edges.iter().all(|(u, v)| {
                let key = if directed { (*u, *v) } else { (*u.min(v), *u.max(v)) };
                u != v && *u >= 0 && *v >= 0 && *u < n && *v < n && seen.insert(key)
            });
            ((nodes_ok && edges_ok) as u8, edges.len())
        }
        Err(_) => (0, 0),
    };
    format!("i.same={}|i.diffs={}|i.structure={}|i.m={}", diffs.is_empty() as u8, if diffs.is_empty() { ".".to_string() } else { diffs.join(",") }, structure, m)
}

/// `gnpstat n pnum pden directed seed0 count`: edge counts over many seeds
pub fn observe_gnpstat(t: &mut Toks) -> String {
    let n = t.next() as i32;
    let pnum = t.next();
    let pden = t.next() as u64;
    let directed = t.next() != 0;
    let seed0 = t.next() as u64;
    let count = t.next() as u64;
    let p = pnum as f64 / pden as f64;
    let mut sum = 0u64;
    let mut union: HashSet<(i32, i32)> = HashSet::new();
    let mut errs = 0;
    for s in 0..count {
        match random::fast_gnp_random_graph(n, p, directed, Some(seed0 + s)) {
            Ok(g) => {
                sum += g.get_all_edges().len() as u64;
                if n <= 40 { for e in g.get_all_edges() { union.insert((e.u, e.v)); } }
            }
            Err(_) => errs += 1,
        }
    }
    format!("i.sum={}|i.count={}|i.union={}|i.errs={}", sum, count, union.len(), errs)
}

pub fn gen_case(rng: &mut Rng, family: &str, profile: &str, size: usize) -> String {
    match family {
        "complete" => format!("complete {} {}", rng.range(0, size as i64), rng.below(2)),
        "karate" => "karate".to_string(),
        "gnp" if profile == "sparse" => {
            // a handful of expected edges: every skip crosses many rows of the slot table (long-skip code paths, the last
            // row, the diagonal), n 2..=size, p = c / n^2 with c in 0.25 .. 6
            let n = rng.range(2, size as i64);
            let directed = rng.chance(65);
            let c4 = rng.range(1, 24);           // c = c4 / 4
            let pden = (4 * n * n) as u64;
            gnp_request_k(n, c4.min(pden as i64 - 1).max(1), pden, directed, rng.below(1_000_000), 80)
        }
        "gnp" if profile == "huge" => {
            // far above every size threshold used in the crate (20 nodes for the rayon branches; a generator that grew a parallel
            // path would choose its own): 600 .. 2600 nodes, a few thousand expected edges
            let n = *rng.pick(&[600i64, 1001, 1025, 1500, 2049, 2600]) + rng.range(0, 40);
            let directed = rng.chance(50);
            let c = rng.range(1, 8);
            format!("gnpdet {} {} {} {} {}", n, c, n, directed as u8, crate::comm::special_seed(rng, 100000) as i64)
        }
        "gnp" => {
            let n = if profile == "large" { rng.range(41, 300) } else { rng.range(0, size as i64) };
            let directed = rng.chance(50);
            let (pnum, pden): (i64, u64) = match rng.below(20) {
                0 => (0, 10), 1 => (10, 10), 2 => (-1, 10), 3 => (15, 10),
                4 => (1, 1_000_000_000_000), 5 => (1, 100_000_000_000_000_000), 6 => (999_999, 1_000_000),
                _ => (rng.range(1, 99), 100),
            };
            gnp_request(n, pnum, pden, directed, crate::comm::special_seed(rng, 100000))
        }
        "gnpstat" => {
            // ordinary probabilities, and probabilities so small that the expected number of edges is a few or (almost) none
            if rng.chance(35) {
                // every small size, odd and even: "every possible pair can occur" is decided per pair
                let n = rng.range(2, 13);
                let pnum = *rng.pick(&[20i64, 35, 50, 65, 80]);
                format!("gnpstat {} {} 100 {} {} {}", n, pnum, rng.below(2), rng.below(1_000_000), 300)
            } else if rng.chance(60) {
                let (n, count) = *rng.pick(&[(6i64, 600u64), (10, 400), (25, 300), (33, 300), (60, 150), (120, 60)]);
                let pnum = *rng.pick(&[5i64, 10, 30, 50, 70, 90]);
                format!("gnpstat {} {} 100 {} {} {}", n, pnum, rng.below(2), rng.below(1_000_000), count)
            } else {
                let (n, pnum, pden, count) = *rng.pick(&[(20i64, 4i64, 1000u64, 400u64), (10, 1, 1_000_000, 300), (2, 1, 1_000_000, 300), (30, 1, 1000, 300),
                                                          (8, 1, 100, 500), (50, 1, 100_000_000_000_000_000, 100), (3, 5, 1000, 500)]);
                format!("gnpstat {} {} {} {} {} {}", n, pnum, pden, rng.below(2), rng.below(1_000_000), count)
            }
        }
        _ => panic!("unknown generator family"),
    }
}
