//! Harness driving the real graphrs implementation (built from /repo's working tree with the
//! `verif_hooks` feature) on generated or replayed cases of the line protocol.
//!
//!   verif-harness gen <family> <profile> <seed> <count> <size> <req-file>
//!   verif-harness run <req-file> <impl-file>        one impl observation line per request line
//!   verif-harness candidates <req-file>             smaller variants of the (single) request
mod cen;
mod clu;
mod comm;
mod comp;
mod degen;
mod gen;
mod graphgen;
mod par;
mod rng;
mod sp;
mod store;
mod xml;
mod esc;

use rng::Rng;
use std::io::{BufRead, BufWriter, Write};

fn gen(family: &str, profile: &str, seed: u64, count: usize, size: usize) -> Vec<String> {
    if family == "degen" {
        // exhaustive: every kind x shape x weight mode
        return degen::all_requests();
    }
    let mut rng = Rng::new(seed);
    let mut out = vec![];
    for _ in 0..count {
        let mut r = rng.fork();
        let line = match family {
            "store" => {
                let p = match profile {
                    "weights" => store::Profile::Weights,
                    "degrees" => store::Profile::Degrees,
                    "big" => store::Profile::Big,
                    "huge" => store::Profile::Huge,
                    _ => store::Profile::General,
                };
                store::gen_case(&mut r, p, size).request()
            }
            "sp" => sp::gen_case(&mut r, profile, size).request(),
            "complete" | "karate" | "gnp" | "gnpstat" => gen::gen_case(&mut r, family, profile, size),
            "par" if profile == "big" => par::gen_big(&mut r),
            "par" => par::gen_case(&mut r, profile, size).request(),
            "xml" => if profile == "roundtrip" { xml::gen_roundtrip(&mut r, size) } else { xml::gen_malformed(&mut r) },
            "xmlbig" => format!("xmlbig {} {} {}", r.below(1_000_000), r.range(1500, 3500), r.below(2)),
            "esc" => esc::gen(&mut r, profile),
            "mod" => comm::gen_mod(&mut r, profile, size).request(),
            "louv" => comm::gen_louv(&mut r, profile, size).request(),
            "clu" => clu::gen_case(&mut r, profile, size).request(),
            "comp" => comp::gen_case(&mut r, profile, size).request(),
            "cen" => cen::gen_cen(&mut r, profile, size).request(),
            "eig" => cen::gen_eig(&mut r, profile, size).request(),
            _ => panic!("unknown family {}", family),
        };
        out.push(line);
    }
    out
}

/// Run a case under `catch_unwind`; a panic becomes the single field `i.panic`.
pub fn guarded(f: impl FnOnce() -> String + std::panic::UnwindSafe) -> String {
    match std::panic::catch_unwind(f) {
        Ok(s) => s,
        Err(e) => {
            let msg = if let Some(s) = e.downcast_ref::<String>() { s.clone() } else if let Some(s) = e.downcast_ref::<&str>() { s.to_string() } else { "?".to_string() };
            format!("i.panic={}", msg.replace('|', "/").replace('\n', " "))
        }
    }
}

static TIMEOUTS: std::sync::atomic::AtomicUsize = std::sync::atomic::AtomicUsize::new(0);

fn run_line(line: &str) -> String {
    let (cmd, mut t) = store::Toks::from_line(line);
    match cmd.as_str() {
        "store" => store::observe(&store::Case::parse(&mut t)),
        "sp" => { let c = sp::Case::parse(&mut t); guarded(move || sp::observe_inner(&c)) }
        "complete" => guarded(move || gen::observe_complete(&mut t)),
        "karate" => guarded(gen::observe_karate),
        "gnp" => guarded(move || gen::observe_gnp(&mut t)),
        "gnpstat" => guarded(move || gen::observe_gnpstat(&mut t)),
        "gnpdet" => guarded(move || gen::observe_gnpdet(&mut t)),
        "degen" => guarded(move || degen::observe(&mut t)),
        "par" => { let c = par::Case::parse(&mut t); guarded(move || par::observe(&c)) }
        "parbig" => guarded(move || par::observe_big(&mut t)),
        "xml" => guarded(move || xml::observe(&mut t)),
        "xmlbig" => guarded(move || xml::observe_big(&mut t)),
        "esc" => guarded(move || esc::observe(&mut t)),
        "mod" => { let c = comm::ModCase::parse(&mut t); guarded(move || comm::observe_mod(&c)) }
        "louv" => {
            let c = comm::LouvCase::parse(&mut t);
            let n = TIMEOUTS.load(std::sync::atomic::Ordering::SeqCst);
            if n >= 3 { return "i.timeout=skipped after 3 earlier timeouts in this run".to_string(); }
            let r = comm::observe_louv(&c, 8000);
            if r.starts_with("i.timeout") { TIMEOUTS.fetch_add(1, std::sync::atomic::Ordering::SeqCst); }
            r
        }
        "clu" => { let c = clu::Case::parse(&mut t); guarded(move || clu::observe(&c)) }
        "comp" => { let c = comp::Case::parse(&mut t); guarded(move || comp::observe(&c)) }
        "cen" => { let c = cen::CenCase::parse(&mut t); guarded(move || cen::observe_cen(&c)) }
        "eig" => { let c = cen::EigCase::parse(&mut t); guarded(move || cen::observe_eig(&c)) }
        _ => format!("i.badrequest={}", cmd),
    }
}

fn candidates(line: &str) -> Vec<String> {
    let (cmd, mut t) = store::Toks::from_line(line);
    match cmd.as_str() {
        "store" => store::candidates(&store::Case::parse(&mut t)),
        "sp" => sp::candidates(&sp::Case::parse(&mut t)),
        "par" => par::candidates(&par::Case::parse(&mut t)),
        "xml" => xml::candidates(line),
        "esc" => esc::candidates(line),
        "mod" => comm::candidates_mod(&comm::ModCase::parse(&mut t)),
        "louv" => comm::candidates_louv(&comm::LouvCase::parse(&mut t)),
        "clu" => clu::candidates(&clu::Case::parse(&mut t)),
        "comp" => comp::candidates(&comp::Case::parse(&mut t)),
        "cen" => cen::candidates_cen(&cen::CenCase::parse(&mut t)),
        "eig" => cen::candidates_eig(&cen::EigCase::parse(&mut t)),
        _ => vec![],
    }
}

fn main() {
    // panics inside catch_unwind are reported through the observation, not on stderr
    std::panic::set_hook(Box::new(|_| {}));
    let args: Vec<String> = std::env::args().collect();
    match args.get(1).map(|s| s.as_str()) {
        Some("gen") => {
            let lines = gen(&args[2], &args[3], args[4].parse().unwrap(), args[5].parse().unwrap(), args[6].parse().unwrap());
            let mut w = BufWriter::new(std::fs::File::create(&args[7]).unwrap());
            for l in lines {
                writeln!(w, "{}", l).unwrap();
            }
        }
        Some("run") => {
            let f = std::io::BufReader::new(std::fs::File::open(&args[2]).unwrap());
            let mut w = BufWriter::new(std::fs::File::create(&args[3]).unwrap());
            for line in f.lines() {
                let line = line.unwrap();
                if line.trim().is_empty() {
                    continue;
                }
                writeln!(w, "{}", run_line(&line)).unwrap();
            }
        }
        Some("candidates") => {
            let s = std::fs::read_to_string(&args[2]).unwrap();
            let line = s.lines().next().unwrap_or("");
            for c in candidates(line) {
                println!("{}", c);
            }
        }
        _ => {
            eprintln!("usage: verif-harness gen|run|candidates ...");
            std::process::exit(2);
        }
    }
}
