fn main() { println!("hello"); }
