//! Store family (C01, C02, C03, C09, C15): mutation histories on the real `Graph`, and its
//! canonical observation through the public read API plus the feature-guarded snapshot.
//! The field list and formats mirror lean/GraphrsModel/Obs.lean exactly.
use crate::rng::Rng;
use graphrs::{
    algorithms::centrality::degree::degree_centrality, Edge, EdgeDedupeStrategy, Error, ErrorKind,
    Graph, GraphSpecs, MissingNodeStrategy, Node, SelfLoopsFalseStrategy,
};
use std::collections::{HashMap, HashSet};
use std::sync::Arc;

pub type G = Graph<u32, u32>;
pub const NAN_TOKEN: i64 = -999999;

#[derive(Clone, Debug)]
pub struct Specs {
    pub directed: bool,
    pub multi: bool,
    pub self_loops: bool,
    pub dedupe: u8,  // 0 error 1 keepfirst 2 keeplast
    pub missing: u8, // 0 create 1 error
    pub slfalse: u8, // 0 error 1 drop
}

impl Specs {
    pub fn from_index(i: u32) -> Specs {
        Specs {
            directed: i & 1 != 0,
            multi: i & 2 != 0,
            self_loops: i & 4 != 0,
            dedupe: ((i >> 3) % 3) as u8,
            missing: ((i / 24) % 2) as u8,
            slfalse: ((i / 48) % 2) as u8,
        }
    }
    pub fn to_graph_specs(&self) -> GraphSpecs {
        GraphSpecs {
            directed: self.directed,
            multi_edges: self.multi,
            self_loops: self.self_loops,
            edge_dedupe_strategy: match self.dedupe {
                0 => EdgeDedupeStrategy::Error,
                1 => EdgeDedupeStrategy::KeepFirst,
                _ => EdgeDedupeStrategy::KeepLast,
            },
            missing_node_strategy: match self.missing {
                0 => MissingNodeStrategy::Create,
                _ => MissingNodeStrategy::Error,
            },
            self_loops_false_strategy: match self.slfalse {
                0 => SelfLoopsFalseStrategy::Error,
                _ => SelfLoopsFalseStrategy::Drop,
            },
        }
    }
    pub fn tokens(&self) -> String {
        format!(
            "{} {} {} {} {} {}",
            self.directed as u8, self.multi as u8, self.self_loops as u8, self.dedupe, self.missing, self.slfalse
        )
    }
    pub fn parse(t: &mut Toks) -> Specs {
        Specs {
            directed: t.next() != 0,
            multi: t.next() != 0,
            self_loops: t.next() != 0,
            dedupe: t.next() as u8,
            missing: t.next() as u8,
            slfalse: t.next() as u8,
        }
    }
}

/// integer-token reader for request lines (used for replay)
pub struct Toks {
    pub v: Vec<i64>,
    pub i: usize,
}
impl Toks {
    pub fn from_line(line: &str) -> (String, Toks) {
        let mut it = line.split_whitespace();
        let cmd = it.next().unwrap_or("").to_string();
        let v = it.map(|t| t.parse::<i64>().expect("integer token")).collect();
        (cmd, Toks { v, i: 0 })
    }
    pub fn next(&mut self) -> i64 {
        let x = self.v[self.i];
        self.i += 1;
        x
    }
    pub fn list<T>(&mut self, f: impl Fn(&mut Toks) -> T) -> Vec<T> {
        let n = self.next();
        (0..n).map(|_| f(self)).collect()
    }
}

#[derive(Clone, Debug, PartialEq)]
pub struct N {
    pub name: u32,
    pub attr: Option<u32>,
}
#[derive(Clone, Debug, PartialEq)]
pub struct E {
    pub u: u32,
    pub v: u32,
    pub w: Option<i64>,
    pub attr: Option<u32>,
}

#[derive(Clone, Debug, PartialEq)]
pub enum Op {
    AddNode(N),
    AddNodes(Vec<N>),
    AddEdge(E),
    AddEdgeTuple(u32, u32),
    AddEdges(Vec<E>),
    AddEdgeTuples(Vec<(u32, u32)>),
    NewFrom(Vec<N>, Vec<E>),
}

fn opt_tok(a: Option<u32>) -> String {
    match a {
        None => "-1".to_string(),
        Some(x) => x.to_string(),
    }
}
fn w_tok(w: Option<i64>) -> String {
    match w {
        None => NAN_TOKEN.to_string(),
        Some(x) => x.to_string(),
    }
}
impl N {
    fn tokens(&self) -> String {
        format!("{} {}", self.name, opt_tok(self.attr))
    }
    fn parse(t: &mut Toks) -> N {
        let name = t.next() as u32;
        let a = t.next();
        N { name, attr: if a < 0 { None } else { Some(a as u32) } }
    }
    pub fn to_node(&self) -> Arc<Node<u32, u32>> {
        match self.attr {
            None => Node::from_name(self.name),
            Some(a) => Node::from_name_and_attributes(self.name, a),
        }
    }
}
impl E {
    fn tokens(&self) -> String {
        format!("{} {} {} {}", self.u, self.v, w_tok(self.w), opt_tok(self.attr))
    }
    fn parse(t: &mut Toks) -> E {
        let u = t.next() as u32;
        let v = t.next() as u32;
        let w = t.next();
        let a = t.next();
        E { u, v, w: if w == NAN_TOKEN { None } else { Some(w) }, attr: if a < 0 { None } else { Some(a as u32) } }
    }
    pub fn to_edge(&self) -> Arc<Edge<u32, u32>> {
        Arc::new(Edge {
            u: self.u,
            v: self.v,
            weight: match self.w {
                None => f64::NAN,
                Some(x) => x as f64,
            },
            attributes: self.attr,
        })
    }
}
fn list_tokens<T>(v: &[T], f: impl Fn(&T) -> String) -> String {
    let mut s = v.len().to_string();
    for x in v {
        s.push(' ');
        s.push_str(&f(x));
    }
    s
}
impl Op {
    pub fn tokens(&self) -> String {
        match self {
            Op::AddNode(n) => format!("1 {}", n.tokens()),
            Op::AddNodes(ns) => format!("2 {}", list_tokens(ns, |n| n.tokens())),
            Op::AddEdge(e) => format!("3 {}", e.tokens()),
            Op::AddEdgeTuple(u, v) => format!("4 {} {}", u, v),
            Op::AddEdges(es) => format!("5 {}", list_tokens(es, |e| e.tokens())),
            Op::AddEdgeTuples(es) => format!("6 {}", list_tokens(es, |p| format!("{} {}", p.0, p.1))),
            Op::NewFrom(ns, es) => format!("7 {} {}", list_tokens(ns, |n| n.tokens()), list_tokens(es, |e| e.tokens())),
        }
    }
    pub fn parse(t: &mut Toks) -> Op {
        match t.next() {
            1 => Op::AddNode(N::parse(t)),
            2 => Op::AddNodes(t.list(N::parse)),
            3 => Op::AddEdge(E::parse(t)),
            4 => {
                let u = t.next() as u32;
                let v = t.next() as u32;
                Op::AddEdgeTuple(u, v)
            }
            5 => Op::AddEdges(t.list(E::parse)),
            6 => Op::AddEdgeTuples(t.list(|t| {
                let u = t.next() as u32;
                let v = t.next() as u32;
                (u, v)
            })),
            7 => {
                let ns = t.list(N::parse);
                let es = t.list(E::parse);
                Op::NewFrom(ns, es)
            }
            x => panic!("bad op code {}", x),
        }
    }
}

#[derive(Clone, Debug)]
pub struct Case {
    pub specs: Specs,
    pub universe: Vec<u32>,
    pub w: Option<i64>,
    pub ops: Vec<Op>,
}
impl Case {
    pub fn request(&self) -> String {
        format!(
            "store {} {} {} {}",
            self.specs.tokens(),
            list_tokens(&self.universe, |x| x.to_string()),
            w_tok(self.w),
            list_tokens(&self.ops, |o| o.tokens())
        )
    }
    pub fn parse(t: &mut Toks) -> Case {
        let specs = Specs::parse(t);
        let universe = t.list(|t| t.next() as u32);
        let w = t.next();
        let ops = t.list(Op::parse);
        Case { specs, universe, w: if w == NAN_TOKEN { None } else { Some(w) }, ops }
    }
}

pub fn err_code(k: &ErrorKind) -> u32 {
    match k {
        ErrorKind::ContradictoryPaths => 1,
        ErrorKind::DuplicateEdge => 2,
        ErrorKind::InvalidArgument => 3,
        ErrorKind::NodeNotFound => 4,
        ErrorKind::NoPartitions => 5,
        ErrorKind::NotAPartition => 6,
        ErrorKind::EdgeNotFound => 7,
        ErrorKind::EdgeWeightNotSpecified => 8,
        ErrorKind::PowerIterationFailedConvergence => 9,
        ErrorKind::ReadError => 10,
        ErrorKind::SelfLoopsFound => 11,
        ErrorKind::WrongMethod => 12,
    }
}

/// one shared `Arc<Edge>` per distinct edge description
#[derive(Default)]
pub struct EdgeArcs(std::collections::HashMap<(u32, u32, Option<i64>, Option<u32>), Arc<Edge<u32, u32>>>);
impl EdgeArcs {
    pub fn get(&mut self, e: &E) -> Arc<Edge<u32, u32>> {
        Arc::clone(self.0.entry((e.u, e.v, e.w, e.attr)).or_insert_with(|| e.to_edge()))
    }
}

/// Apply a history to the real graph. Returns the graph and the result code of every call.
pub fn apply(case: &Case) -> (G, Vec<u32>) {
    let mut g: G = Graph::new(case.specs.to_graph_specs());
    let mut res = vec![];
    let code = |r: Result<(), Error>| match r {
        Ok(_) => 0,
        Err(e) => err_code(&e.kind),
    };
    // an edge description that occurs more than once in a history is handed over as clones of ONE `Arc<Edge>`: the API takes
    // `Arc<Edge>` values, so a caller may well insert the same allocation repeatedly (parallel edges of a multigraph)
    let mut arcs = EdgeArcs::default();
    for op in &case.ops {
        let r = match op {
            Op::AddNode(n) => {
                g.add_node(n.to_node());
                0
            }
            Op::AddNodes(ns) => {
                g.add_nodes(ns.iter().map(|n| n.to_node()).collect());
                0
            }
            Op::AddEdge(e) => code(g.add_edge(arcs.get(e))),
            Op::AddEdgeTuple(u, v) => code(g.add_edge_tuple(*u, *v)),
            Op::AddEdges(es) => code(g.add_edges(es.iter().map(|e| arcs.get(e)).collect())),
            Op::AddEdgeTuples(es) => code(g.add_edge_tuples(es.clone())),
            Op::NewFrom(ns, es) => {
                match Graph::new_from_nodes_and_edges(
                    ns.iter().map(|n| n.to_node()).collect(),
                    es.iter().map(|e| arcs.get(e)).collect(),
                    case.specs.to_graph_specs(),
                ) {
                    Ok(ng) => {
                        g = ng;
                        0
                    }
                    Err(e) => err_code(&e.kind),
                }
            }
        };
        res.push(r);
        // between two mutations every read API that could fill a cache is called (results discarded): whatever the graph
        // memoises must be invalidated by the next mutation
        if res.len() % 2 == 1 { crate::graphgen::warm_caches(&g); }
    }
    (g, res)
}

// ---------------------------------------------------------------------------------------------
// canonical printing (mirrors Obs.lean)

pub fn p_w(w: f64) -> String {
    if w.is_nan() {
        "n".to_string()
    } else if w.fract() == 0.0 && w.abs() < 9.0e15 {
        format!("{}", w as i64)
    } else {
        format!("f{}", w.to_bits())
    }
}
fn p_opt(a: &Option<u32>) -> String {
    match a {
        None => "-".to_string(),
        Some(x) => x.to_string(),
    }
}
fn p_edge(e: &Edge<u32, u32>) -> String {
    format!("{},{},{},{}", e.u, e.v, p_w(e.weight), p_opt(&e.attributes))
}
fn p_node(n: &Node<u32, u32>) -> String {
    format!("{}:{}", n.name, p_opt(&n.attributes))
}
/// canonical edge list: stable sort by (u, v), parallel edges keep their returned order
fn p_edges(es: &[&Arc<Edge<u32, u32>>]) -> String {
    if es.is_empty() {
        return ".".to_string();
    }
    let mut v: Vec<&Arc<Edge<u32, u32>>> = es.to_vec();
    v.sort_by_key(|e| (e.u, e.v)); // stable
    v.iter().map(|e| p_edge(e)).collect::<Vec<_>>().join(";")
}
fn p_names(mut v: Vec<u32>) -> String {
    if v.is_empty() {
        return ".".to_string();
    }
    v.sort();
    v.iter().map(|x| x.to_string()).collect::<Vec<_>>().join(",")
}
fn p_res<T>(r: Result<T, Error>, f: impl Fn(T) -> String) -> String {
    match r {
        Ok(x) => f(x),
        Err(e) => format!("E{}", err_code(&e.kind)),
    }
}
fn subsets(u: &[u32]) -> Vec<Vec<u32>> {
    (0..(1u32 << u.len()))
        .map(|mask| u.iter().enumerate().filter(|(i, _)| (mask >> i) & 1 == 1).map(|(_, x)| *x).collect())
        .collect()
}
fn duplists(u: &[u32]) -> Vec<Vec<u32>> {
    if u.is_empty() { return vec![]; }
    let mut a = u.to_vec(); a.push(u[0]);
    let mut b: Vec<u32> = u.iter().rev().copied().collect(); b.extend_from_slice(u);
    vec![vec![u[0], u[0]], a, b]
}
fn p_map_sets(m: &HashMap<u32, HashSet<u32>>) -> String {
    if m.is_empty() {
        return ".".to_string();
    }
    let mut kv: Vec<(&u32, &HashSet<u32>)> = m.iter().collect();
    kv.sort_by_key(|x| *x.0);
    kv.iter()
        .map(|(k, v)| format!("{}>{}", k, p_names(v.iter().copied().collect())))
        .collect::<Vec<_>>()
        .join(";")
}
fn p_map_with<V>(m: &HashMap<u32, V>, f: impl Fn(&V) -> String) -> String {
    if m.is_empty() {
        return ".".to_string();
    }
    let mut kv: Vec<(&u32, &V)> = m.iter().collect();
    kv.sort_by_key(|x| *x.0);
    kv.iter().map(|(k, v)| format!("{}>{}", k, f(v))).collect::<Vec<_>>().join(";")
}
/// ordering of weights: NaN first, then numeric
fn w_key(w: f64) -> (u8, i64) {
    if w.is_nan() {
        (0, 0)
    } else {
        (1, w as i64)
    }
}
fn p_adj_row(row: &[(usize, f64)]) -> String {
    if row.is_empty() {
        return ".".to_string();
    }
    let mut r = row.to_vec();
    r.sort_by_key(|a| (a.0, w_key(a.1)));
    r.iter().map(|a| format!("{}:{}", a.0, p_w(a.1))).collect::<Vec<_>>().join(",")
}
fn p_adj(rows: &[Vec<(usize, f64)>]) -> String {
    if rows.is_empty() {
        return ".".to_string();
    }
    rows.iter().map(|r| p_adj_row(r)).collect::<Vec<_>>().join(";")
}
/// one entry per neighbour, with the minimum listed weight under f64 `<`
fn trav_rows(rows: &[Vec<(usize, f64)>]) -> Vec<Vec<(usize, f64)>> {
    rows.iter()
        .map(|row| {
            let mut out: Vec<(usize, f64)> = vec![];
            for (j, w) in row {
                match out.iter_mut().find(|x| x.0 == *j) {
                    None => out.push((*j, *w)),
                    Some(x) => {
                        if *w < x.1 {
                            x.1 = *w
                        }
                    }
                }
            }
            out
        })
        .collect()
}
pub fn p_q(x: f64) -> String {
    // floats the model computes exactly as rationals: printed in Rust's shortest round-trip form
    if x.is_nan() {
        "nan".to_string()
    } else if x.is_infinite() {
        "inf".to_string()
    } else {
        format!("{:?}", x)
    }
}

pub fn compact(g: &G) -> String {
    let snap = g.verif_snapshot();
    let ns = g.get_all_nodes();
    let nstr = if ns.is_empty() { ".".to_string() } else { ns.iter().map(|n| p_node(n)).collect::<Vec<_>>().join(",") };
    format!(
        "N[{}] E[{}] S[{}] P[{}]",
        nstr,
        p_edges(&g.get_all_edges()),
        p_adj(&trav_rows(&snap.successors_vec)),
        p_adj(&trav_rows(&snap.predecessors_vec))
    )
}

fn p_edge_lists<K: Ord + Copy + std::fmt::Debug>(m: &[((K, K), Vec<(u32, u32, f64)>)], pk: impl Fn(K) -> String) -> String {
    if m.is_empty() {
        return ".".to_string();
    }
    let mut kv: Vec<&((K, K), Vec<(u32, u32, f64)>)> = m.iter().collect();
    kv.sort_by_key(|x| x.0);
    kv.iter()
        .map(|(k, es)| {
            format!(
                "{},{}>{}",
                pk(k.0),
                pk(k.1),
                es.iter().map(|e| format!("{},{},{}", e.0, e.1, p_w(e.2))).collect::<Vec<_>>().join(";")
            )
        })
        .collect::<Vec<_>>()
        .join(" ")
}

/// All fields of the store family for one graph (after a history with results `res`).
pub fn fields(g: &G, res: &[u32], u: &[u32], w: Option<i64>) -> Vec<(String, String)> {
    let mut f: Vec<(String, String)> = vec![];
    let sp = |v: Vec<String>| v.join(" ");
    let present: Vec<u32> = u.iter().copied().filter(|x| g.get_node(*x).is_some()).collect();
    let subs = subsets(u);
    let pairs: Vec<(u32, u32)> = u.iter().flat_map(|x| u.iter().map(move |y| (*x, *y))).collect();
    let n = g.number_of_nodes();
    f.push(("res".into(), if res.is_empty() { ".".into() } else { sp(res.iter().map(|r| r.to_string()).collect()) }));
    f.push(("nodes".into(), sp(g.get_all_nodes().iter().map(|n| p_node(n)).collect())));
    f.push(("edges".into(), p_edges(&g.get_all_edges())));
    f.push(("node".into(), sp(u.iter().map(|x| match g.get_node(*x) { None => "N".to_string(), Some(n) => p_opt(&n.attributes) }).collect())));
    let snap = g.verif_snapshot();
    let idx_of: HashMap<u32, usize> = snap.nodes_map.iter().cloned().collect();
    f.push(("idx".into(), sp(u.iter().map(|x| match idx_of.get(x) { None => "N".to_string(), Some(i) => i.to_string() }).collect())));
    f.push(("byidx".into(), sp((0..=n).map(|i| match g.get_node_by_index(&i) { None => "N".to_string(), Some(n) => p_node(n) }).collect())));
    f.push(("hasnodes".into(), sp(subs.iter().map(|s| if g.has_nodes(s) { "1".to_string() } else { "0".to_string() }).collect())));
    f.push(("ge".into(), sp(pairs.iter().map(|p| p_res(g.get_edge(p.0, p.1), |e| p_edge(e))).collect())));
    f.push(("ges".into(), sp(pairs.iter().map(|p| p_res(g.get_edges(p.0, p.1), |l| l.iter().map(|e| p_edge(e)).collect::<Vec<_>>().join(";"))).collect())));
    f.push(("efn".into(), sp(u.iter().map(|x| p_res(g.get_edges_for_node(*x), |l| p_edges(&l))).collect())));
    f.push(("efns".into(), sp(subs.iter().map(|s| p_res(g.get_edges_for_nodes(s), |l| p_edges(&l))).collect())));
    f.push(("ien".into(), sp(u.iter().map(|x| p_res(g.get_in_edges_for_node(*x), |l| p_edges(&l))).collect())));
    f.push(("iens".into(), sp(subs.iter().map(|s| p_res(g.get_in_edges_for_nodes(s), |l| p_edges(&l))).collect())));
    f.push(("oen".into(), sp(u.iter().map(|x| p_res(g.get_out_edges_for_node(*x), |l| p_edges(&l))).collect())));
    f.push(("oens".into(), sp(subs.iter().map(|s| p_res(g.get_out_edges_for_nodes(s), |l| p_edges(&l))).collect())));
    let names = |l: Vec<&Arc<Node<u32, u32>>>| p_names(l.iter().map(|n| n.name).collect());
    f.push(("nb".into(), sp(u.iter().map(|x| p_res(g.get_neighbor_nodes(*x), names)).collect())));
    f.push(("sn".into(), sp(u.iter().map(|x| {
        let a = p_res(g.get_successor_nodes(*x), names);
        let b = p_res(g.get_successor_node_names(*x), |l| p_names(l.into_iter().copied().collect()));
        if a == b { a } else { format!("MISMATCH({}!={})", a, b) }
    }).collect())));
    f.push(("pn".into(), sp(u.iter().map(|x| {
        let a = p_res(g.get_predecessor_nodes(*x), names);
        let b = p_res(g.get_predecessor_node_names(*x), |l| p_names(l.into_iter().copied().collect()));
        if a == b { a } else { format!("MISMATCH({}!={})", a, b) }
    }).collect())));
    f.push(("son".into(), sp(present.iter().map(|x| names(g.get_successors_or_neighbors(*x))).collect())));
    f.push(("smap".into(), p_map_sets(g.get_successors_map())));
    f.push(("pmap".into(), p_map_sets(g.get_predecessors_map())));
    f.push(("bfs".into(), sp(present.iter().map(|x| {
        let l = g.breadth_first_search(x);
        format!("{}:{}:{}", match l.first() { None => "N".to_string(), Some(h) => h.to_string() }, p_names(l.clone()), l.len())
    }).collect())));
    f.push(("ehw".into(), if g.edges_have_weight() { "1".into() } else { "0".into() }));
    f.push(("travs".into(), p_adj(&trav_rows(&snap.successors_vec))));
    f.push(("travp".into(), p_adj(&trav_rows(&snap.predecessors_vec))));
    f.push(("cnt".into(), format!("{} {} {} {}", g.number_of_nodes(), g.number_of_edges(), p_w(g.size(false)), p_w(g.size(true)))));
    let p_on = |o: Option<usize>| match o { None => "N".to_string(), Some(d) => d.to_string() };
    let p_ow = |o: Option<f64>| match o { None => "N".to_string(), Some(d) => p_w(d) };
    f.push(("deg".into(), sp(u.iter().map(|x| p_on(g.get_node_degree(*x))).collect())));
    f.push(("indeg".into(), sp(u.iter().map(|x| p_on(g.get_node_in_degree(*x))).collect())));
    f.push(("outdeg".into(), sp(u.iter().map(|x| p_on(g.get_node_out_degree(*x))).collect())));
    f.push(("wdeg".into(), sp(u.iter().map(|x| p_ow(g.get_node_weighted_degree(*x))).collect())));
    f.push(("windeg".into(), sp(u.iter().map(|x| p_ow(g.get_node_weighted_in_degree(*x))).collect())));
    f.push(("woutdeg".into(), sp(u.iter().map(|x| p_ow(g.get_node_weighted_out_degree(*x))).collect())));
    f.push(("degall".into(), p_map_with(&g.get_degree_for_all_nodes(), |d| d.to_string())));
    f.push(("indegall".into(), p_res(g.get_in_degree_for_all_nodes(), |m| p_map_with(&m, |d| d.to_string()))));
    f.push(("outdegall".into(), p_res(g.get_out_degree_for_all_nodes(), |m| p_map_with(&m, |d| d.to_string()))));
    f.push(("wdegall".into(), p_map_with(&g.get_weighted_degree_for_all_nodes(), |d| p_w(*d))));
    f.push(("windegall".into(), p_res(g.get_weighted_in_degree_for_all_nodes(), |m| p_map_with(&m, |d| p_w(*d)))));
    f.push(("woutdegall".into(), p_res(g.get_weighted_out_degree_for_all_nodes(), |m| p_map_with(&m, |d| p_w(*d)))));
    f.push(("dens:q".into(), p_q(g.get_density())));
    {
        let dc = degree_centrality(g);
        let mut kv: Vec<(&u32, &f64)> = dc.iter().collect();
        kv.sort_by_key(|x| *x.0);
        f.push(("dc:q".into(), if kv.is_empty() { ".".into() } else { kv.iter().map(|(k, v)| format!("{}>{}", k, p_q(**v))).collect::<Vec<_>>().join(" ") }));
    }
    f.push(("mat".into(), p_res(g.get_sparse_adjacency_matrix(), |m| {
        let mut t: Vec<(usize, usize, i64)> = vec![];
        let mut bad = false;
        for (val, (r, c)) in m.iter() {
            if val.fract() != 0.0 || val.is_nan() { bad = true; }
            t.push((r, c, *val as i64));
        }
        if m.rows() != n || m.cols() != n { bad = true; }
        t.sort();
        if bad { format!("BAD{:?}", t) } else if t.is_empty() { ".".to_string() } else { t.iter().map(|x| format!("{},{},{}", x.0, x.1, x.2)).collect::<Vec<_>>().join(";") }
    })));
    // derived graphs (C15); the source must be left unchanged
    let before = compact(g);
    for (i, s) in subs.iter().enumerate() {
        f.push((format!("sub{}", i), compact(&g.get_subgraph(s))));
    }
    // node lists that name a node more than once (the argument is a slice, not a set)
    for (i, s) in duplists(u).iter().enumerate() {
        f.push((format!("subdup{}", i), compact(&g.get_subgraph(s))));
    }
    f.push(("rev".into(), p_res(g.reverse(), |r| compact(&r))));
    let wf = match w { None => f64::NAN, Some(x) => x as f64 };
    f.push(("setw".into(), compact(&g.set_all_edge_weights(wf))));
    f.push(("single".into(), p_res(g.to_single_edges(), |r| compact(&r))));
    let after = compact(g);
    f.push(("srcsame".into(), if before == after { "1".into() } else { "0".into() }));
    // raw snapshot
    let hm = |v: &Vec<(u32, Vec<u32>)>| -> HashMap<u32, HashSet<u32>> { v.iter().map(|(k, s)| (*k, s.iter().copied().collect())).collect() };
    let hmi = |v: &Vec<(usize, Vec<usize>)>| -> HashMap<u32, HashSet<u32>> { v.iter().map(|(k, s)| (*k as u32, s.iter().map(|x| *x as u32).collect())).collect() };
    f.push(("snap.nodes_map".into(), p_map_with(&snap.nodes_map.iter().cloned().collect::<HashMap<u32, usize>>(), |d| d.to_string())));
    f.push(("snap.nodes_map_rev".into(), p_map_with(&snap.nodes_map_rev.iter().map(|(k, v)| (*k as u32, *v)).collect::<HashMap<u32, u32>>(), |d| d.to_string())));
    f.push(("snap.nodes_vec".into(), if snap.nodes_vec.is_empty() { ".".into() } else { snap.nodes_vec.iter().map(|x| x.to_string()).collect::<Vec<_>>().join(",") }));
    f.push(("snap.edges".into(), p_edge_lists(&snap.edges, |k: u32| k.to_string())));
    f.push(("snap.edges_map".into(), p_edge_lists(&snap.edges_map, |k: usize| k.to_string())));
    f.push(("snap.successors".into(), p_map_sets(&hm(&snap.successors))));
    f.push(("snap.successors_map".into(), p_map_sets(&hmi(&snap.successors_map))));
    f.push(("snap.successors_vec".into(), p_adj(&snap.successors_vec)));
    f.push(("snap.predecessors".into(), p_map_sets(&hm(&snap.predecessors))));
    f.push(("snap.predecessors_map".into(), p_map_sets(&hmi(&snap.predecessors_map))));
    f.push(("snap.predecessors_vec".into(), p_adj(&snap.predecessors_vec)));
    f.push(("poison".into(), "0".into()));
    f
}

pub fn print_fields(f: &[(String, String)]) -> String {
    f.iter().map(|(k, v)| format!("i.{}={}", k, v)).collect::<Vec<_>>().join("|")
}

/// Run one case against the implementation; a panic becomes the single field `panic`.
pub fn observe(case: &Case) -> String {
    let c = case.clone();
    let r = std::panic::catch_unwind(move || {
        let (g, res) = apply(&c);
        print_fields(&fields(&g, &res, &c.universe, c.w))
    });
    match r {
        Ok(s) => s,
        Err(e) => {
            let msg = if let Some(s) = e.downcast_ref::<String>() { s.clone() } else if let Some(s) = e.downcast_ref::<&str>() { s.to_string() } else { "?".to_string() };
            format!("i.panic={}", msg.replace('|', "/").replace('\n', " "))
        }
    }
}

// ---------------------------------------------------------------------------------------------
// generation

/// Profile of a generated history (which properties' biases to emphasise).
#[derive(Clone, Copy, PartialEq)]
pub enum Profile {
    General,
    Weights, // C03: repeated edges with smaller / larger weights, uniformly weighted or unweighted
    Degrees, // C09: directed self-loops, parallel edges
    Big,     // 10..16 nodes, two or three hubs of high degree, long histories: size-dependent code paths
    Huge,    // 24..40 nodes (above the rayon threshold of the algorithms), hubs, histories of 60..140 operations
}

pub fn gen_case(rng: &mut Rng, profile: Profile, max_ops: usize) -> Case {
    let specs = Specs::from_index(rng.below(96) as u32);
    // names drawn so that sort order differs from insertion order
    let huge = matches!(profile, Profile::Huge);
    let big = matches!(profile, Profile::Big) || huge;
    let k = if huge { rng.range(24, 40) as usize } else if big { rng.range(10, 16) as usize } else { rng.range(2, 5) as usize };
    let mut pool: Vec<u32> = if huge { (1..=70).collect() } else if big { (1..=30).collect() } else { (1..=9).collect() };
    rng.shuffle(&mut pool);
    let names: Vec<u32> = pool[..k].to_vec();
    let absent = pool[k];
    let weighted_uniform: Option<bool> = match profile {
        Profile::Weights => Some(rng.chance(70)),
        _ => if rng.chance(50) { Some(rng.chance(50)) } else { None },
    };
    let mut tag = 100u32;
    let gen_w = |rng: &mut Rng| -> Option<i64> {
        match weighted_uniform {
            Some(true) => Some(rng.range(0, 6)),
            Some(false) => None,
            None => if rng.chance(60) { Some(rng.range(-2, 6)) } else { None },
        }
    };
    let nops = if huge { rng.range(60, 140) as usize } else if big { rng.range(20, 60) as usize } else { rng.range(1, max_ops as i64) as usize };
    // hubs (Big profile): most edges touch one of them, so that their adjacency lists grow long
    let nhubs = if huge { rng.range(2, 5) as usize } else if big { rng.range(2, 3) as usize } else { 0 };
    let hub_pos: Vec<usize> = { let mut idx: Vec<usize> = (0..k).collect(); rng.shuffle(&mut idx); idx[..nhubs].to_vec() };
    let hubs: Vec<u32> = hub_pos.iter().map(|i| names[*i]).collect();
    let mut ops = vec![];
    let mut used_pairs: Vec<(u32, u32)> = vec![];
    let mut prev_edges: Vec<E> = vec![];
    let all_names: Vec<u32> = { let mut v = names.clone(); if rng.chance(30) { v.push(absent) }; v };
    let mut gen_edge = |rng: &mut Rng, used: &mut Vec<(u32, u32)>, tag: &mut u32| -> E {
        // an exact copy of an earlier edge description (same endpoints, weight and attribute): the same `Arc` again
        if !prev_edges.is_empty() && rng.chance(12) {
            let e = rng.pick(&prev_edges).clone();
            used.push((e.u, e.v));
            return e;
        }
        let dup_pct = match profile { Profile::Weights => 55, Profile::Degrees => 40, _ => 35 };
        let loop_pct = match profile { Profile::Degrees => 30, _ => 15 };
        let (u, v) = if big && rng.chance(55) {
            // a hub with anybody (another hub now and then), either orientation
            let h = *rng.pick(&hubs);
            let o = if rng.chance(25) { *rng.pick(&hubs) } else { *rng.pick(&all_names) };
            if rng.chance(50) { (h, o) } else { (o, h) }
        } else if !used.is_empty() && rng.chance(dup_pct) {
            let p = *rng.pick(used);
            if rng.chance(40) { (p.1, p.0) } else { p }
        } else if rng.chance(loop_pct) {
            let x = *rng.pick(&all_names);
            (x, x)
        } else {
            (*rng.pick(&all_names), *rng.pick(&all_names))
        };
        used.push((u, v));
        *tag += 1;
        let e = E { u, v, w: gen_w(rng), attr: if rng.chance(70) { Some(*tag) } else { None } };
        prev_edges.push(e.clone());
        e
    };
    let gen_node = |rng: &mut Rng, tag: &mut u32| -> N {
        *tag += 1;
        N { name: *rng.pick(&all_names), attr: if rng.chance(60) { Some(*tag) } else { None } }
    };
    // start: often add most nodes first (so that missing=error histories are not all errors)
    if rng.chance(60) || big {
        let mut first = names.clone();
        rng.shuffle(&mut first);
        let cut = if big && rng.chance(70) { first.len() } else { rng.range(1, first.len() as i64) as usize };
        ops.push(Op::AddNodes(first[..cut].iter().map(|x| { tag += 1; N { name: *x, attr: if rng.chance(50) { Some(tag) } else { None } } }).collect()));
    }
    while ops.len() < nops {
        let r = rng.below(100);
        let op = if r < 50 {
            Op::AddEdge(gen_edge(rng, &mut used_pairs, &mut tag))
        } else if r < 60 {
            Op::AddNode(gen_node(rng, &mut tag))
        } else if r < 66 {
            let k = rng.range(0, 3);
            Op::AddNodes((0..k).map(|_| gen_node(rng, &mut tag)).collect())
        } else if r < 74 && weighted_uniform != Some(true) {
            let e = gen_edge(rng, &mut used_pairs, &mut tag);
            Op::AddEdgeTuple(e.u, e.v)
        } else if r < 86 {
            let k = rng.range(0, 4);
            Op::AddEdges((0..k).map(|_| gen_edge(rng, &mut used_pairs, &mut tag)).collect())
        } else if r < 92 && weighted_uniform != Some(true) {
            let k = rng.range(0, 4);
            Op::AddEdgeTuples((0..k).map(|_| { let e = gen_edge(rng, &mut used_pairs, &mut tag); (e.u, e.v) }).collect())
        } else if r < 96 && !(big && rng.chance(85)) {
            let kn = rng.range(0, 4);
            let ke = rng.range(0, 5);
            used_pairs.clear();
            let ns = (0..kn).map(|_| gen_node(rng, &mut tag)).collect();
            let es = (0..ke).map(|_| gen_edge(rng, &mut used_pairs, &mut tag)).collect();
            Op::NewFrom(ns, es)
        } else {
            Op::AddEdge(gen_edge(rng, &mut used_pairs, &mut tag))
        };
        ops.push(op);
    }
    let mut universe = names.clone();
    if big {
        // the hubs and one other node: the per-pair / per-subset queries stay cheap, the snapshot covers the rest
        universe = hubs.clone();
        if let Some(x) = names.iter().find(|x| !hubs.contains(x)) { universe.push(*x); }
    }
    universe.truncate(3);
    universe.push(absent);
    Case { specs, universe, w: if rng.chance(80) { Some(rng.range(0, 9)) } else { None }, ops }
}

/// Smaller variants of a case for shrinking: drop one op, drop one element of a batch,
/// simplify weights / attributes.
pub fn candidates(case: &Case) -> Vec<String> {
    let mut out = vec![];
    for i in 0..case.ops.len() {
        let mut c = case.clone();
        c.ops.remove(i);
        out.push(c.request());
    }
    for i in 0..case.ops.len() {
        let variants: Vec<Op> = match &case.ops[i] {
            Op::AddNodes(ns) => (0..ns.len()).map(|j| { let mut v = ns.clone(); v.remove(j); Op::AddNodes(v) }).collect(),
            Op::AddEdges(es) => (0..es.len()).map(|j| { let mut v = es.clone(); v.remove(j); Op::AddEdges(v) }).collect(),
            Op::AddEdgeTuples(es) => (0..es.len()).map(|j| { let mut v = es.clone(); v.remove(j); Op::AddEdgeTuples(v) }).collect(),
            Op::NewFrom(ns, es) => {
                let mut v: Vec<Op> = (0..ns.len()).map(|j| { let mut x = ns.clone(); x.remove(j); Op::NewFrom(x, es.clone()) }).collect();
                v.extend((0..es.len()).map(|j| { let mut x = es.clone(); x.remove(j); Op::NewFrom(ns.clone(), x) }));
                v
            }
            Op::AddEdge(e) => {
                let mut v = vec![];
                if e.attr.is_some() { v.push(Op::AddEdge(E { attr: None, ..e.clone() })); }
                if let Some(w) = e.w { if w != 1 { v.push(Op::AddEdge(E { w: Some(1), ..e.clone() })); } }
                v
            }
            Op::AddNode(n) => if n.attr.is_some() { vec![Op::AddNode(N { attr: None, ..n.clone() })] } else { vec![] },
            _ => vec![],
        };
        for op in variants {
            let mut c = case.clone();
            c.ops[i] = op;
            out.push(c.request());
        }
    }
    if case.universe.len() > 1 {
        for i in 0..case.universe.len() {
            let mut c = case.clone();
            c.universe.remove(i);
            out.push(c.request());
        }
    }
    out
}
