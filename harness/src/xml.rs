//! GraphML families: write-then-read round trip (C14) and arbitrary / corrupted input (C19).
use crate::rng::Rng;
use crate::store::{err_code, Specs, Toks, NAN_TOKEN};
use graphrs::readwrite::graphml;
use graphrs::{Edge, Graph, Node};
use quick_xml::events::{BytesStart, Event};
use quick_xml::Reader;
use std::collections::HashMap;
use std::sync::mpsc;
use std::time::Duration;

const SPECIALS: [&str; 14] = ["node", "edge", "key", "graph", "data", "id", "source", "target", "for", "attr.name", "edgedefault", "weight", "directed", "undirected"];

struct Intern {
    table: HashMap<String, u64>,
    fresh: u64,
}
impl Intern {
    fn new(strings: &[String]) -> Intern {
        let mut table = HashMap::new();
        for (i, s) in strings.iter().enumerate() {
            table.entry(s.clone()).or_insert(100 + i as u64);
        }
        for (i, s) in SPECIALS.iter().enumerate() {
            table.insert(s.to_string(), 1 + i as u64);
        }
        table.insert("graphml".to_string(), 0);
        Intern { table, fresh: 100000 }
    }
    fn id(&mut self, s: &str) -> u64 {
        if let Some(i) = self.table.get(s) { return *i; }
        self.fresh += 1;
        self.table.insert(s.to_string(), self.fresh);
        self.fresh
    }
}

fn attrs_tokens(e: &BytesStart, it: &mut Intern) -> String {
    // mirrors get_attributes_as_hashmap: any malformed / duplicated attribute or failing unescape is an error
    let mut pairs = vec![];
    for a in e.attributes() {
        let attr = match a { Ok(a) => a, Err(_) => return "1 0".to_string() };
        let key = match String::from_utf8(attr.key.local_name().as_ref().to_vec()) { Ok(k) => k, Err(_) => return "1 0".to_string() };
        let value = match attr.unescape_value() { Ok(v) => v.into_owned(), Err(_) => return "1 0".to_string() };
        pairs.push((it.id(&key), it.id(&value)));
    }
    let mut s = format!("0 {}", pairs.len());
    for (k, v) in pairs { s.push_str(&format!(" {} {}", k, v)); }
    s
}

fn w_token(w: f64) -> String {
    if w.is_nan() { NAN_TOKEN.to_string() } else { (w.to_bits() as i64).to_string() }
}

/// the quick-xml event stream of a document, as tokens (same Reader configuration as the crate)
fn event_tokens(doc: &str, it: &mut Intern) -> String {
    let mut reader = Reader::from_str(doc);
    let mut buf = Vec::new();
    let mut evs: Vec<String> = vec![];
    loop {
        if evs.len() > 100000 { break; }
        match reader.read_event_into(&mut buf) {
            Ok(Event::Start(ref e)) => { let n = it.id(&String::from_utf8_lossy(e.name().as_ref())); evs.push(format!("1 {} {}", n, attrs_tokens(e, it))); }
            Ok(Event::Empty(ref e)) => { let n = it.id(&String::from_utf8_lossy(e.name().as_ref())); evs.push(format!("2 {} {}", n, attrs_tokens(e, it))); }
            Ok(Event::End(ref e)) => { let n = it.id(&String::from_utf8_lossy(e.name().as_ref())); evs.push(format!("3 {}", n)); }
            Ok(Event::Text(e)) => {
                let parsed = std::str::from_utf8(&e).ok().and_then(|s| s.trim().parse::<f64>().ok());
                evs.push(match parsed { Some(w) => format!("4 1 {}", w_token(w)), None => "4 0 0".to_string() });
            }
            Ok(Event::Eof) => { evs.push("5".to_string()); break; }
            Err(_) => { evs.push("6".to_string()); break; }
            _ => evs.push("7".to_string()),
        }
        buf.clear();
    }
    format!("{} {}", evs.len(), evs.join(" "))
}

fn p_read(g: &Graph<String, ()>, it: &mut Intern) -> String {
    let ns: Vec<u64> = g.get_all_nodes().iter().map(|n| it.id(&n.name)).collect();
    let mut es: Vec<(u64, u64, String)> = vec![];
    // canonical: stable sort by key, parallel edges in returned order
    let all = g.get_all_edges();
    let mut idx: Vec<usize> = (0..all.len()).collect();
    // interned ids are not order-isomorphic to the strings in general: an undirected edge is printed with its
    // endpoints ordered by id (the stored orientation is the subject of C01/C02, not of the GraphML properties)
    let dir = g.specs.directed;
    let keys: Vec<(u64, u64)> = all.iter().map(|e| { let (a, b) = (it.id(&e.u), it.id(&e.v)); if dir || a <= b { (a, b) } else { (b, a) } }).collect();
    idx.sort_by_key(|i| keys[*i]);
    for i in idx {
        let w = all[i].weight;
        es.push((keys[i].0, keys[i].1, if w.is_nan() { "n".to_string() } else { (w.to_bits() as i64).to_string() }));
    }
    format!(
        "i.rnodes={}|i.redges={}|i.rends={}|i.rdir={}",
        if ns.is_empty() { ".".to_string() } else { ns.iter().map(|x| x.to_string()).collect::<Vec<_>>().join(",") },
        if es.is_empty() { ".".to_string() } else { es.iter().map(|e| format!("{},{},{}", e.0, e.1, e.2)).collect::<Vec<_>>().join(";") },
        if es.is_empty() { ".".to_string() } else { es.iter().map(|e| format!("{},{}", e.0, e.1)).collect::<Vec<_>>().join(";") },
        g.specs.directed as u8
    )
}

/// read_graphml_string under catch_unwind and a watchdog
fn guarded_read(doc: String, specs: graphrs::GraphSpecs) -> Result<Result<Graph<String, ()>, graphrs::Error>, String> {
    let (tx, rx) = mpsc::channel();
    std::thread::spawn(move || {
        let r = std::panic::catch_unwind(|| graphml::read_graphml_string(&doc, specs));
        let _ = tx.send(r);
    });
    match rx.recv_timeout(Duration::from_millis(5000)) {
        Err(_) => Err("i.timeout=read_graphml_string did not return within 5000 ms".to_string()),
        Ok(Err(_)) => Err("i.panic=read_graphml_string panicked".to_string()),
        Ok(Ok(r)) => Ok(r),
    }
}

pub fn observe(t: &mut Toks) -> String {
    let specs = Specs::parse(t);
    let has_orig = t.next() != 0;
    if has_orig {
        let table: Vec<String> = t.list(|t| String::from_utf8(t.list(|t| t.next() as u8)).unwrap());
        // an id below 100 is one of the reader's own words, anything else an index into the table
        let name_of = |id: i64| -> String { if id < 100 { SPECIALS[id as usize - 1].to_string() } else { table[id as usize - 100].clone() } };
        let nodes: Vec<String> = t.list(|t| name_of(t.next()));
        let edges: Vec<(String, String, i64)> = t.list(|t| { let u = name_of(t.next()); let v = name_of(t.next()); (u, v, t.next()) });
        // the tokens carry the weight's bit pattern; i64 tokens cannot hold the upper half of u64, so the
        // harness encodes bits through i64 reinterpretation
        let g = match Graph::<String, ()>::new_from_nodes_and_edges(
            nodes.iter().map(|n| Node::from_name(n.clone())).collect(),
            edges.iter().map(|e| if e.2 == NAN_TOKEN { Edge::new(e.0.clone(), e.1.clone()) } else { Edge::with_weight(e.0.clone(), e.1.clone(), f64::from_bits(e.2 as u64)) }).collect(),
            specs.to_graph_specs(),
        ) {
            Ok(g) => g,
            Err(e) => return format!("i.build=E{}", err_code(&e.kind)),
        };
        let doc = match graphml::write_graphml_string(&g) { Ok(d) => d, Err(_) => return "i.write=error".to_string() };
        // the file variant must produce the same document
        let path = format!("/verif/work/tmp_graphml_{}.xml", std::process::id());
        let mut file_read: Option<Result<Graph<String, ()>, graphrs::Error>> = None;
        let file_same = match graphml::write_graphml_file(&g, &path) {
            Ok(_) => {
                let s = std::fs::read_to_string(&path).unwrap_or_default();
                // the file variant of the reader must see the same graph as the string variant
                file_read = std::panic::catch_unwind(|| graphml::read_graphml_file(&path, specs.to_graph_specs())).ok();
                let _ = std::fs::remove_file(&path);
                s == doc
            }
            Err(_) => false,
        };
        let mut it = Intern::new(&table);
        let evs = event_tokens(&doc, &mut it);
        match guarded_read(doc, specs.to_graph_specs()) {
            Err(s) => s,
            Ok(Err(e)) => format!("i.rnodes=E{0}|i.redges=E{0}|i.rdir=E{0}|i.filesame={1}|i.tok={2} {0}", err_code(&e.kind), file_same as u8, evs),
            Ok(Ok(rg)) => {
                let a = p_read(&rg, &mut it);
                let file_read_same = match &file_read { Some(Ok(fg)) => p_read(fg, &mut it) == a, _ => false };
                format!("{}|i.filesame={}|i.fileread={}|i.tok={} 0", a, file_same as u8, file_read_same as u8, evs)
            }
        }
    } else {
        let bytes: Vec<u8> = t.list(|t| t.next() as u8);
        let doc = match String::from_utf8(bytes) { Ok(d) => d, Err(_) => return "i.badrequest=document is not UTF-8".to_string() };
        let mut it = Intern::new(&[]);
        let evs = event_tokens(&doc, &mut it);
        match guarded_read(doc, specs.to_graph_specs()) {
            Err(s) => s,
            Ok(Err(e)) => format!("i.rnodes=E{0}|i.redges=E{0}|i.rdir=E{0}|i.tok={1} {0}", err_code(&e.kind), evs),
            Ok(Ok(rg)) => format!("{}|i.tok={} 0", p_read(&rg, &mut it), evs),
        }
    }
}

pub fn bytes_request(cmd: &str, b: &[u8]) -> String { format!("{} {}", cmd, bytes_tokens(b)) }

fn bytes_tokens(b: &[u8]) -> String {
    let mut s = b.len().to_string();
    for x in b { s.push_str(&format!(" {}", x)); }
    s
}

fn gen_name(rng: &mut Rng) -> String {
    const ALPHA: [&str; 24] = ["a", "b", "n", "1", "x", " ", "<", ">", "&", "\"", "'", "é", "ß", "日", "😀", "&amp;", "&#65;", "=", "/", ";", "weight ", "Node", "\u{00a0}", "]]>"];
    match rng.below(12) {
        0 => String::new(),
        1 => "weights".to_string(),
        2 => " padded ".to_string(),
        _ => { let k = rng.range(1, 4); (0..k).map(|_| *rng.pick(&ALPHA)).collect::<Vec<&str>>().join("") }
    }
}
fn gen_weight_bits(rng: &mut Rng) -> i64 {
    let w: f64 = match rng.below(14) {
        0 => 0.0, 1 => -0.0, 2 => f64::INFINITY, 3 => f64::NEG_INFINITY, 4 => f64::MIN_POSITIVE, 5 => 5e-324, 6 => 1.7976931348623157e308,
        7 => -1.7976931348623157e308, 8 => 0.1, 9 => 1.0 / 3.0, 10 => 1e21, 11 => 123456789.125,
        _ => { let b = rng.next_u64(); let f = f64::from_bits(b); if f.is_nan() { 1.5 } else { f } }
    };
    w.to_bits() as i64
}

pub fn gen_roundtrip(rng: &mut Rng, size: usize) -> String {
    let directed = rng.chance(50);
    let multi = rng.chance(40);
    let specs = Specs { directed, multi, self_loops: rng.chance(60), dedupe: if multi { 0 } else { 1 + rng.below(2) as u8 }, missing: 0, slfalse: 1 };
    let n = rng.range(0, size as i64) as usize;
    let mut table: Vec<String> = vec![];
    while table.len() < n {
        let s = gen_name(rng);
        if !table.contains(&s) && !SPECIALS.contains(&s.as_str()) { table.push(s); }
    }
    // ids must be order-isomorphic to the strings (undirected edges are stored with u <= v by name):
    // the table is sorted, the nodes are inserted in a shuffled order
    table.sort();
    let mut nodes: Vec<usize> = (0..n).collect();
    rng.shuffle(&mut nodes);
    let mut edges: Vec<(usize, usize, i64)> = vec![];
    let mut seen: Vec<(usize, usize)> = vec![];
    if n > 0 {
        for _ in 0..rng.range(0, (2 * n) as i64) {
            let u = rng.below(n as u64) as usize;
            let v = rng.below(n as u64) as usize;
            if u == v && !specs.self_loops { continue; }
            let key = if directed { (u, v) } else { (u.min(v), u.max(v)) };
            if !multi && seen.contains(&key) { continue; }
            seen.push(key);
            edges.push((u, v, if rng.chance(25) { NAN_TOKEN } else { gen_weight_bits(rng) }));
        }
    }
    let mut s = format!("xml {} 1 {}", specs.tokens(), table.len());
    for t in &table { s.push(' '); s.push_str(&bytes_tokens(t.as_bytes())); }
    let id_of = |i: usize| -> usize { match SPECIALS.iter().position(|w| *w == table[i]) { Some(k) => k + 1, None => i + 100 } };
    s.push_str(&format!(" {}", nodes.len()));
    for i in &nodes { s.push_str(&format!(" {}", id_of(*i))); }
    s.push_str(&format!(" {}", edges.len()));
    for e in &edges { s.push_str(&format!(" {} {} {}", id_of(e.0), id_of(e.1), e.2)); }
    s
}

fn base_document(rng: &mut Rng) -> String {
    // a well-formed GraphML document (written by hand, not by the crate, so that it also covers
    // shapes the writer never produces)
    let directed = rng.chance(50);
    let wkey = if rng.chance(30) { "d0" } else { "weight" };
    let mut d = String::from("<?xml version=\"1.0\" encoding=\"UTF-8\"?>\n<graphml xmlns=\"http://graphml.graphdrawing.org/xmlns\">\n");
    if wkey != "weight" || rng.chance(60) {
        d.push_str(&format!("  <key id=\"{}\" for=\"edge\" attr.name=\"weight\" attr.type=\"double\"/>\n", wkey));
    }
    if rng.chance(30) { d.push_str("  <key id=\"d1\" for=\"node\" attr.name=\"color\" attr.type=\"string\"/>\n"); }
    // GraphML's optional parse hints (and any other numeric-looking attribute) with ordinary and with extreme values
    let hints = if rng.chance(25) {
        let v = |rng: &mut Rng| *rng.pick(&["0", "3", "18446744073709551615", "9223372036854775808", "4611686018427387904", "-1", "99999999999999999999999", "1.5", ""]);
        format!(" parse.nodes=\"{}\" parse.edges=\"{}\" parse.order=\"nodesfirst\" parse.maxindegree=\"{}\"", v(rng), v(rng), v(rng))
    } else { String::new() };
    d.push_str(&format!("  <graph id=\"G\" edgedefault=\"{}\"{}>\n", if directed { "directed" } else { "undirected" }, hints));
    let n = rng.range(0, 5);
    // names with multi-byte characters, repeated a random number of times so that byte offsets (and any
    // slicing of the document by byte position) fall inside characters in some cases
    let tag: String = match rng.below(4) { 0 => String::new(), 1 => "é".repeat(rng.range(1, 30) as usize), 2 => "日".repeat(rng.range(1, 20) as usize), _ => "😀".repeat(rng.range(1, 12) as usize) };
    if rng.chance(40) { d.push_str(&format!("  <!-- {} -->\n", "ß".repeat(rng.range(0, 25) as usize))); }
    for i in 0..n {
        if rng.chance(30) { d.push_str(&format!("    <node id=\"n{}{}\"><data key=\"d1\">green</data></node>\n", i, tag)); } else { d.push_str(&format!("    <node id=\"n{}{}\"/>\n", i, tag)); }
    }
    if n > 0 {
        for _ in 0..rng.range(0, 6) {
            let (u, v) = (rng.below(n as u64), rng.below(n as u64));
            match rng.below(4) {
                0 => d.push_str(&format!("    <edge source=\"n{}{t}\" target=\"n{}{t}\"/>\n", u, v, t = tag)),
                1 => d.push_str(&format!("    <edge id=\"e\" source=\"n{}{t}\" target=\"n{}{t}\"></edge>\n", u, v, t = tag)),
                2 if rng.chance(35) => {
                    // a weight text that is not a number, of every length up to ~50 bytes, with a multi-byte character at
                    // an arbitrary byte offset (error paths that quote or slice document text)
                    let mut w = String::new();
                    for _ in 0..rng.range(0, 40) { w.push(*rng.pick(&['a', 'z', '0', '7', '.', ',', '-', 'e', 'x', '_'])); }
                    w.push(*rng.pick(&['é', '€', '日', '😀', 'ß']));
                    for _ in 0..rng.range(0, 12) { w.push(*rng.pick(&['1', 'q', '.', '€'])); }
                    d.push_str(&format!("    <edge source=\"n{}{t}\" target=\"n{}{t}\"><data key=\"{}\">{}</data></edge>\n", u, v, wkey, w, t = tag));
                }
                _ => d.push_str(&format!("    <edge source=\"n{}{t}\" target=\"n{}{t}\">\n      <data key=\"{}\">{}</data>\n    </edge>\n", u, v, wkey, *rng.pick(&["1.5", "2", "0.25", "1e3", "-4", "inf"]), t = tag)),
            }
        }
    }
    // well-formed content the writer never produces: elements nested inside non-empty <node>, <edge>,
    // <data> or unknown wrappers (GraphML nested graphs, ports, hyperedges, descriptions)
    if rng.chance(35) {
        let mut fresh = 0u32;
        for _ in 0..rng.range(1, 4) { nested_block(rng, 0, n as u64, &tag, wkey, &mut fresh, &mut d); }
    }
    d.push_str("  </graph>\n</graphml>\n");
    d
}

/// one random well-formed element (possibly with children) appended to `d`
fn nested_block(rng: &mut Rng, depth: u32, n: u64, tag: &str, wkey: &str, fresh: &mut u32, d: &mut String) {
    let kids = |rng: &mut Rng, fresh: &mut u32, d: &mut String| {
        if depth < 3 { for _ in 0..rng.range(0, 3) { nested_block(rng, depth + 1, n, tag, wkey, fresh, d); } }
    };
    let endpoint = |rng: &mut Rng, fresh: &u32| -> String {
        if n > 0 && (*fresh == 0 || rng.chance(60)) { format!("n{}{}", rng.below(n), tag) } else if *fresh > 0 { format!("m{}", rng.below(*fresh as u64)) } else { "n0".to_string() }
    };
    match rng.below(9) {
        0 | 1 => { *fresh += 1; d.push_str(&format!("<node id=\"m{}\">", *fresh - 1)); kids(rng, fresh, d); d.push_str("</node>\n"); }
        2 => { *fresh += 1; d.push_str(&format!("<node id=\"m{}\"/>\n", *fresh - 1)); }
        3 => { let (u, v) = (endpoint(rng, fresh), endpoint(rng, fresh)); d.push_str(&format!("<edge source=\"{}\" target=\"{}\">", u, v)); kids(rng, fresh, d); d.push_str("</edge>\n"); }
        4 => { let (u, v) = (endpoint(rng, fresh), endpoint(rng, fresh)); d.push_str(&format!("<edge source=\"{}\" target=\"{}\"/>\n", u, v)); }
        5 => { d.push_str(&format!("<graph id=\"sub{}\" edgedefault=\"{}\">", depth, *rng.pick(&["directed", "undirected"]))); kids(rng, fresh, d); d.push_str("</graph>\n"); }
        6 => { let name = *rng.pick(&["desc", "port", "hyperedge", "locator", "y:ShapeNode"]); d.push_str(&format!("<{}>", name)); kids(rng, fresh, d); d.push_str(&format!("</{}>\n", name)); }
        7 => { d.push_str(&format!("<data key=\"{}\">", *rng.pick(&[wkey, "d1", "weight"]))); if rng.chance(50) { d.push_str(*rng.pick(&["3", "0.5", "x", " 2 "])); } kids(rng, fresh, d); d.push_str("</data>\n"); }
        _ => { d.push_str(&format!("<data key=\"{}\">{}</data>\n", wkey, *rng.pick(&["9", "1.25", "-2"]))); }
    }
}

const SNIPPETS: [&str; 34] = [
    "<node id=\"a\" id=\"b\"/>", "<node id=\"&foo;\"/>", "<key id=\"w\" attr.name=\"weight\"/>", "<key for=\"edge\" attr.name=\"weight\"/>",
    "<data key=\"weight\">abc</data>", "<data key=\"weight\"> 1.5 </data>", "<data key=\"weight\"></data>", "<data key=\"weight\"/>",
    "<graph edgedefault=\"undirected\"/>", "<graph edgedefault=\"sideways\">", "<graph>", "<node/>", "<edge source=\"n0\"/>", "<edge target=\"n0\"/>",
    "<edge source=\"zz\" target=\"n0\"/>", "<!-- c -->", "<![CDATA[ x ]]>", "<?pi?>", "</graph>", "</nope>", "<node id=\"n0\" x:id=\"other\"/>",
    "<data key=\"weight\"><b>3</b></data>", "<edge source=\"n0\" target=\"n0\"><data key=\"weight\">7</data></edge>", "&", "<", ">", "\"", "<node id=>",
    "<node id=\"n9\"", "<data key=\"weight\">1e400</data>",
    "<data key=\"weight\"><node id=\"zz\"/></data>", "<data key=\"weight\"><edge source=\"n0\" target=\"n0\"/></data>",
    "<edge source=\"n0\" target=\"n0\"><data key=\"weight\"><node id=\"q\"/>5</data></edge>", "<data key=\"weight\"><!-- c -->3</data>",
];

pub fn gen_malformed(rng: &mut Rng) -> String {
    let specs = Specs::from_index(rng.below(96) as u32);
    let mut doc = base_document(rng).into_bytes();
    let nmut = match rng.below(10) { 0 => 0, 1..=6 => 1, 7..=8 => 2, _ => 3 };
    for _ in 0..nmut {
        if doc.is_empty() { break; }
        let pos = rng.below(doc.len() as u64) as usize;
        match rng.below(7) {
            0 => { doc.remove(pos); }
            1 => { let b = doc[pos]; doc.insert(pos, b); }
            2 => { doc.truncate(pos); }
            3 => { doc[pos] = *rng.pick(&[b'<', b'>', b'&', b'"', b'\'', b'=', b'/', b' ', b'a', b'0', b';', b'#']); }
            4 | 5 => {
                // insert a snippet at a line boundary
                let at = doc[..pos].iter().rposition(|c| *c == b'\n').map(|i| i + 1).unwrap_or(0);
                let sn = rng.pick(&SNIPPETS).as_bytes();
                for (k, b) in sn.iter().enumerate() { doc.insert(at + k, *b); }
            }
            _ => {
                // delete a whole line
                let start = doc[..pos].iter().rposition(|c| *c == b'\n').map(|i| i + 1).unwrap_or(0);
                let end = doc[pos..].iter().position(|c| *c == b'\n').map(|i| pos + i + 1).unwrap_or(doc.len());
                doc.drain(start..end);
            }
        }
    }
    let doc = String::from_utf8_lossy(&doc).into_owned();
    format!("xml {} 0 {}", specs.tokens(), bytes_tokens(doc.as_bytes()))
}

pub fn candidates(line: &str) -> Vec<String> {
    // malformed documents only: delete one line, or one byte
    let (_, mut t) = Toks::from_line(line);
    let specs = Specs::parse(&mut t);
    if t.next() != 0 { return vec![]; }
    let bytes: Vec<u8> = t.list(|t| t.next() as u8);
    let mut out = vec![];
    let mut start = 0;
    for i in 0..bytes.len() {
        if bytes[i] == b'\n' || i + 1 == bytes.len() {
            let mut b = bytes.clone();
            b.drain(start..=i);
            out.push(format!("xml {} 0 {}", specs.tokens(), bytes_tokens(&b)));
            start = i + 1;
        }
    }
    if bytes.len() < 200 {
        for i in 0..bytes.len() {
            let mut b = bytes.clone();
            b.remove(i);
            if String::from_utf8(b.clone()).is_ok() { out.push(format!("xml {} 0 {}", specs.tokens(), bytes_tokens(&b))); }
        }
    }
    out
}


/// `xmlbig <seed> <n> <directed>`: a document well above 64 KiB whose names are dense in 2-, 3- and 4-byte characters, written with
/// `write_graphml_file` and read back with `read_graphml_file` (whatever either of them does in blocks sees multi-byte characters at
/// every alignment)
pub fn observe_big(t: &mut Toks) -> String {
    let seed = t.next() as u64;
    let n = t.next() as usize;
    let directed = t.next() != 0;
    let mut rng = Rng::new(seed);
    let alphabet = ['é', 'ß', '日', '€', '😀', '𝔘', '🦀', 'a', '&', '<'];
    let names: Vec<String> = (0..n).map(|i| {
        let mut s = format!("{}", i);
        for _ in 0..rng.range(3, 9) { s.push(*rng.pick(&alphabet)); }
        s
    }).collect();
    let mut edges: Vec<(usize, usize, Option<f64>)> = vec![];
    let mut seen = std::collections::HashSet::new();
    for _ in 0..n {
        let (u, v) = (rng.below(n as u64) as usize, rng.below(n as u64) as usize);
        let key = if directed { (u, v) } else { (u.min(v), u.max(v)) };
        if u == v || !seen.insert(key) { continue; }
        edges.push((u, v, if rng.chance(30) { None } else { Some(rng.range(1, 1000) as f64 / 8.0) }));
    }
    let specs = if directed { graphrs::GraphSpecs::directed() } else { graphrs::GraphSpecs::undirected() };
    let g = match Graph::<String, ()>::new_from_nodes_and_edges(
        names.iter().map(|x| Node::from_name(x.clone())).collect(),
        edges.iter().map(|e| match e.2 { Some(w) => Edge::with_weight(names[e.0].clone(), names[e.1].clone(), w), None => Edge::new(names[e.0].clone(), names[e.1].clone()) }).collect(),
        specs.clone(),
    ) { Ok(g) => g, Err(e) => return format!("i.build=E{}", err_code(&e.kind)) };
    let path = format!("/verif/work/tmp_graphml_big_{}.xml", std::process::id());
    if graphml::write_graphml_file(&g, &path).is_err() { return "i.bigfile=0:write failed".to_string(); }
    let size = std::fs::metadata(&path).map(|m| m.len()).unwrap_or(0);
    let p2 = path.clone();
    let r = std::panic::catch_unwind(move || graphml::read_graphml_file(&p2, specs));
    let _ = std::fs::remove_file(&path);
    let canon = |g: &Graph<String, ()>| -> (Vec<String>, Vec<(String, String, u64)>) {
        let ns: Vec<String> = g.get_all_nodes().iter().map(|x| x.name.clone()).collect();
        let mut es: Vec<(String, String, u64)> = g.get_all_edges().iter().map(|e| (e.u.clone(), e.v.clone(), if e.weight.is_nan() { u64::MAX } else { e.weight.to_bits() })).collect();
        es.sort();
        (ns, es)
    };
    let verdict = match r {
        Err(_) => "0:read_graphml_file panicked".to_string(),
        Ok(Err(e)) => format!("0:read error E{}", err_code(&e.kind)),
        Ok(Ok(rg)) => {
            let (a, b) = (canon(&g), canon(&rg));
            if a == b { "1".to_string() } else if a.0 != b.0 { format!("0:node names differ ({} vs {})", a.0.len(), b.0.len()) } else { "0:edges differ".to_string() }
        }
    };
    format!("i.build=0|i.bigfile={}|i.bytes={}", verdict, size)
}
