//! Centrality families: `cen` (betweenness + closeness; C05, C06) and `eig` (eigenvector; C18).
use crate::graphgen::{gen_graph, GenOpts, GraphCase, WeightMode};
use crate::rng::Rng;
use crate::store::{err_code, p_q, Toks};
use graphrs::algorithms::centrality::{betweenness, closeness, eigenvector};
use graphrs::Error;
use std::collections::HashMap;

#[derive(Clone, Debug)]
pub struct CenCase {
    pub g: GraphCase,
    pub weighted: bool,
    pub spec_limit: usize,
    /// the implementation sees every weight divided by this power of two (the model works on the integer numerators:
    /// betweenness is scale-invariant, closeness scales by the same factor)
    pub wdiv: u64,
}
impl CenCase {
    pub fn request(&self) -> String {
        format!("cen {} {} {} {}", self.g.tokens(), self.weighted as u8, self.spec_limit, self.wdiv)
    }
    pub fn parse(t: &mut Toks) -> CenCase {
        let g = GraphCase::parse(t);
        let weighted = t.next() != 0;
        let spec_limit = t.next() as usize;
        let wdiv = t.next() as u64;
        CenCase { g, weighted, spec_limit, wdiv }
    }
}

pub fn p_fmap(r: &Result<HashMap<u32, f64>, Error>) -> String {
    match r {
        Err(e) => format!("E{}", err_code(&e.kind)),
        Ok(m) => {
            if m.is_empty() { return ".".to_string(); }
            let mut kv: Vec<(&u32, &f64)> = m.iter().collect();
            kv.sort_by_key(|x| *x.0);
            kv.iter().map(|(k, v)| format!("{}>{}", k, p_q(**v))).collect::<Vec<_>>().join(" ")
        }
    }
}

pub fn observe_cen(c: &CenCase) -> String {
    let g = match c.g.build_scaled(c.wdiv.max(1)) {
        Ok(g) => g,
        Err(e) => return format!("i.build=E{}", err_code(&e.kind)),
    };
    format!(
        "i.build=0|i.bc0:q={}|i.bc1:q={}|i.cc0:q={}|i.cc1:q={}",
        p_fmap(&betweenness::betweenness_centrality(&g, c.weighted, false)),
        p_fmap(&betweenness::betweenness_centrality(&g, c.weighted, true)),
        p_fmap(&closeness::closeness_centrality(&g, c.weighted, false)),
        p_fmap(&closeness::closeness_centrality(&g, c.weighted, true)),
    )
}

/// a chain of `k` "diamonds" a_i -> {b_i1 .. b_iw} -> a_{i+1}: w^k shortest paths between the two ends, so the path
/// counts of the Brandes stages pass 2^53 and 2^64 for k >= 54 / 65 (w = 2) while the betweenness values stay small
fn gen_diamond_chain(rng: &mut Rng) -> CenCase {
    let weighted = rng.chance(50);
    let width = if rng.chance(75) { 2 } else { 3 };
    let k = if rng.chance(30) { rng.range(60, 72) } else if rng.chance(50) { rng.range(30, 59) } else { rng.range(1, 29) } as usize;
    let k = if width == 3 { k.min(48) } else { k };
    let n = k * (width + 1) + 1;
    let mut pool: Vec<u32> = (1..=(n as u32 + 9)).collect();
    rng.shuffle(&mut pool);
    let nodes: Vec<u32> = pool[..n].to_vec();
    let w = if weighted { Some(rng.range(1, 3)) } else if rng.chance(50) { None } else { Some(rng.range(1, 3)) };
    let directed = rng.chance(50);
    let mut edges = vec![];
    let a = |i: usize| nodes[i * (width + 1)];
    for i in 0..k {
        for j in 1..=width {
            let b = nodes[i * (width + 1) + j];
            edges.push((a(i), b, w));
            if directed || rng.chance(50) { edges.push((b, a(i + 1), w)); } else { edges.push((a(i + 1), b, w)); }
        }
    }
    rng.shuffle(&mut edges);
    let specs = crate::store::Specs { directed, multi: false, self_loops: false, dedupe: 1, missing: 0, slfalse: 1 };
    CenCase { g: GraphCase { specs, nodes, edges }, weighted, spec_limit: 8, wdiv: *rng.pick(&[1u64, 1, 2]) }
}

pub fn gen_cen(rng: &mut Rng, profile: &str, size: usize) -> CenCase {
    if profile == "diamond" { return gen_diamond_chain(rng); }
    let big = profile == "parallel";
    let weighted = rng.chance(50);
    let o = GenOpts {
        max_nodes: if big { 36 } else { size }, min_nodes: if big { 21 } else { 1 },
        weights: if weighted { WeightMode::Positive } else if rng.chance(50) { WeightMode::Unweighted } else { WeightMode::Mixed },
        allow_multi: true, allow_loops: true, directed: None, density_pct: if big { 7 } else { 25 },
    };
    CenCase { g: gen_graph(rng, &o), weighted, spec_limit: 8, wdiv: *rng.pick(&[1u64, 1, 2, 2, 4, 1 << 60]) }
}

pub fn candidates_cen(c: &CenCase) -> Vec<String> {
    c.g.candidates().into_iter().map(|g| CenCase { g, ..c.clone() }.request()).collect()
}

#[derive(Clone, Debug)]
pub struct EigCase {
    pub g: GraphCase,
    pub weighted: bool,
    pub max_iter: u32,
    pub tol_exp: u32,
    /// the implementation sees every weight divided by this number (3, 7, 10: decimal weights that are exact neither in f64
    /// nor in any narrower format); the model and the checker divide the same way
    pub wden: u64,
}
impl EigCase {
    pub fn request(&self) -> String {
        format!("eig {} {} {} {} {}", self.g.tokens(), self.weighted as u8, self.max_iter, self.tol_exp, self.wden)
    }
    pub fn parse(t: &mut Toks) -> EigCase {
        let g = GraphCase::parse(t);
        let weighted = t.next() != 0;
        let max_iter = t.next() as u32;
        let tol_exp = t.next() as u32;
        let wden = t.next() as u64;
        EigCase { g, weighted, max_iter, tol_exp, wden }
    }
}

pub fn observe_eig(c: &EigCase) -> String {
    let g = match if c.wden <= 1 { c.g.build() } else { c.g.build_divided(c.wden as f64) } {
        Ok(g) => g,
        Err(e) => return format!("i.build=E{}", err_code(&e.kind)),
    };
    // same expression as the Lean driver: exp(ln(10) * -k)
    let tol = (10.0f64.ln() * (0.0 - c.tol_exp as f64)).exp();
    let r = eigenvector::eigenvector_centrality(&g, c.weighted, Some(c.max_iter), Some(tol));
    let (val, tok) = match &r {
        Err(e) => (format!("E{}", err_code(&e.kind)), format!("{}", err_code(&e.kind))),
        Ok(m) => {
            let mut kv: Vec<(&u32, &f64)> = m.iter().collect();
            kv.sort_by_key(|x| *x.0);
            (
                if kv.is_empty() { ".".to_string() } else { kv.iter().map(|(k, v)| format!("{}>b{}", k, v.to_bits())).collect::<Vec<_>>().join(" ") },
                format!("0 {}{}", kv.len(), kv.iter().map(|(k, v)| format!(" {} {}", k, v.to_bits())).collect::<String>()),
            )
        }
    };
    format!("i.build=0|i.eig:b={}|i.tok={}", val, tok)
}

pub fn gen_eig(rng: &mut Rng, _profile: &str, size: usize) -> EigCase {
    let weighted = rng.chance(50);
    let o = GenOpts {
        max_nodes: size, min_nodes: if size > 20 { 21 } else { 1 },
        weights: if weighted { WeightMode::NonNegative } else if rng.chance(50) { WeightMode::Unweighted } else { WeightMode::Mixed },
        allow_multi: rng.chance(10), allow_loops: true, directed: None, density_pct: if size > 20 { 9 } else { 30 },
    };
    let max_iter = *rng.pick(&[1u32, 2, 3, 5, 10, 30, 100, 100, 300]);
    let tol_exp = rng.range(2, 12) as u32;
    EigCase { g: gen_graph(rng, &o), weighted, max_iter, tol_exp, wden: *rng.pick(&[1u64, 1, 10, 10, 7, 3]) }
}

pub fn candidates_eig(c: &EigCase) -> Vec<String> {
    c.g.candidates().into_iter().map(|g| EigCase { g, ..c.clone() }.request()).collect()
}
