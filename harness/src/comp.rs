//! Components family (C10).
use crate::graphgen::{gen_graph, GenOpts, GraphCase, WeightMode};
use crate::rng::Rng;
use crate::store::{err_code, Toks};
use graphrs::algorithms::components;
use graphrs::Error;
use std::collections::HashSet;

#[derive(Clone, Debug)]
pub struct Case {
    pub g: GraphCase,
    pub x: u32,
    pub k: usize,
}
impl Case {
    pub fn request(&self) -> String {
        format!("comp {} {} {}", self.g.tokens(), self.x, self.k)
    }
    pub fn parse(t: &mut Toks) -> Case {
        let g = GraphCase::parse(t);
        let x = t.next() as u32;
        let k = t.next() as usize;
        Case { g, x, k }
    }
}

fn p_sets_vec(v: &[Vec<u32>]) -> String {
    if v.is_empty() { return ".".to_string(); }
    let mut s: Vec<Vec<u32>> = v.iter().map(|c| { let mut c = c.clone(); c.sort(); c }).collect();
    s.sort();
    s.iter().map(|c| if c.is_empty() { "_".to_string() } else { c.iter().map(|x| x.to_string()).collect::<Vec<_>>().join(",") }).collect::<Vec<_>>().join(" ")
}
fn p_parts(v: &[Vec<u32>]) -> String {
    if v.is_empty() { return ".".to_string(); }
    v.iter().map(|c| if c.is_empty() { "_".to_string() } else { c.iter().map(|x| x.to_string()).collect::<Vec<_>>().join(",") }).collect::<Vec<_>>().join(" ")
}
fn to_vecs(r: Result<Vec<HashSet<u32>>, Error>) -> Result<Vec<Vec<u32>>, Error> {
    r.map(|v| v.into_iter().map(|hs| hs.into_iter().collect()).collect())
}
fn p_r(r: &Result<Vec<Vec<u32>>, Error>, f: impl Fn(&[Vec<u32>]) -> String) -> String {
    match r { Ok(v) => f(v), Err(e) => format!("E{}", err_code(&e.kind)) }
}
fn tok_r(r: &Result<Vec<Vec<u32>>, Error>) -> String {
    match r {
        Err(e) => format!("{}", err_code(&e.kind)),
        Ok(v) => {
            let mut s = format!("0 {}", v.len());
            for c in v { s.push_str(&format!(" {}", c.len())); for x in c { s.push_str(&format!(" {}", x)); } }
            s
        }
    }
}

pub fn observe(c: &Case) -> String {
    let g = match c.g.build() {
        Ok(g) => g,
        Err(e) => return format!("i.build=E{}", err_code(&e.kind)),
    };
    let cc = to_vecs(components::connected_components(&g));
    let wcc = to_vecs(components::weakly_connected_components(&g));
    let scc = to_vecs(components::strongly_connected_components(&g));
    let ncc = components::node_connected_component(&g, &c.x).map(|hs| vec![hs.into_iter().collect::<Vec<u32>>()]);
    let num = components::number_of_connected_components(&g);
    let bfs: Vec<Vec<u32>> = g.get_all_node_names().into_iter().map(|x| g.breadth_first_search(x)).collect();
    // C17: the order of the returned list is part of the answer - three more calls must return the very same lists
    let bfssame = (0..3).all(|_| g.get_all_node_names().into_iter().map(|x| g.breadth_first_search(x)).collect::<Vec<Vec<u32>>>() == bfs);
    let eq = if c.k == 0 { vec![] } else { components::bfs_equal_size_partitions(&g, c.k) };
    let (num_s, num_t) = match &num { Ok(n) => (n.to_string(), format!("0 {}", n)), Err(e) => (format!("E{}", err_code(&e.kind)), format!("{} 0", err_code(&e.kind))) };
    let tok = format!("{} {} {} {} {} {} {}", tok_r(&cc), tok_r(&wcc), tok_r(&scc), tok_r(&ncc), num_t, tok_r(&Ok(bfs)), tok_r(&Ok(eq.clone())));
    format!(
        "i.build=0|i.cc={}|i.wcc={}|i.scc={}|i.ncc={}|i.num={}|i.eq={}|i.bfssame={}|i.tok={}",
        p_r(&cc, p_sets_vec), p_r(&wcc, p_sets_vec), p_r(&scc, p_sets_vec), p_r(&ncc, p_sets_vec), num_s,
        if c.k == 0 { "P".to_string() } else { p_parts(&eq) }, bfssame as u8, tok
    )
}

pub fn gen_case(rng: &mut Rng, _profile: &str, size: usize) -> Case {
    let o = GenOpts {
        max_nodes: size, min_nodes: 0, weights: if rng.chance(50) { WeightMode::Unweighted } else { WeightMode::Positive },
        allow_multi: true, allow_loops: true, directed: None, density_pct: *rng.pick(&[4u64, 8, 12, 20]),
    };
    let g = gen_graph(rng, &o);
    let x = if g.nodes.is_empty() || rng.chance(10) { 99 } else { *rng.pick(&g.nodes) };
    let k = rng.range(1, (g.nodes.len() as i64 + 2).max(2)) as usize;
    Case { g, x, k }
}

pub fn candidates(c: &Case) -> Vec<String> {
    let mut out: Vec<String> = c.g.candidates().into_iter().map(|g| Case { g, ..c.clone() }.request()).collect();
    if c.k > 1 { out.push(Case { k: c.k - 1, ..c.clone() }.request()); }
    out
}
