//! Parallel family (C07): the five functions that take the rayon code path, under pools of
//! 1..=16 threads and under concurrent read-only use of one graph, compared bit for bit.
use crate::graphgen::{gen_graph, GenOpts, GraphCase, WeightMode};
use crate::rng::Rng;
use crate::store::{err_code, Toks};
use graphrs::algorithms::centrality::{betweenness, closeness};
use graphrs::algorithms::shortest_path::dijkstra;
use graphrs::Graph;

#[derive(Clone, Debug)]
pub struct Case {
    pub g: GraphCase,
    pub weighted: bool,
    pub pools: Vec<usize>,
    pub repeats: usize,
}
impl Case {
    pub fn request(&self) -> String {
        format!("par {} {} {} {}{}", self.g.tokens(), self.weighted as u8, self.repeats, self.pools.len(), self.pools.iter().map(|x| format!(" {}", x)).collect::<String>())
    }
    pub fn parse(t: &mut Toks) -> Case {
        let g = GraphCase::parse(t);
        let weighted = t.next() != 0;
        let repeats = t.next() as usize;
        let pools = t.list(|t| t.next() as usize);
        Case { g, weighted, pools, repeats }
    }
}

/// every observable of the five functions, with every f64 as its bit pattern
fn fingerprint(g: &Graph<u32, u32>, weighted: bool, x: u32) -> String {
    let mut out = String::new();
    let canon_pairs = |r: Result<std::collections::HashMap<u32, std::collections::HashMap<u32, graphrs::algorithms::shortest_path::ShortestPathInfo<u32>>>, graphrs::Error>| -> String {
        match r {
            Err(e) => format!("E{}:{}", err_code(&e.kind), e.message),
            Ok(m) => {
                let mut rows: Vec<String> = m.into_iter().map(|(s, row)| {
                    let mut cells: Vec<String> = row.into_iter().map(|(t, i)| { let mut ps = i.paths; ps.sort(); format!("{}:{}:{:?}", t, i.distance.to_bits(), ps) }).collect();
                    cells.sort();
                    format!("{}>{}", s, cells.join(";"))
                }).collect();
                rows.sort();
                rows.join(" ")
            }
        }
    };
    let names: Vec<u32> = g.get_all_node_names().into_iter().copied().collect();
    out.push_str(&canon_pairs(dijkstra::all_pairs(g, weighted, None, None, false, true)));
    out.push('#');
    out.push_str(&canon_pairs(dijkstra::all_pairs(g, weighted, None, None, false, false)));
    out.push('#');
    out.push_str(&canon_pairs(dijkstra::multi_source(g, weighted, names.clone(), None, Some(3.0), true, true)));
    out.push('#');
    // with a target the search of one source stops early: whatever a worker keeps between two sources of its chunk must
    // not leak into the next one
    let y = names.first().copied().unwrap_or(x);
    for t in [x, y] {
        out.push_str(&canon_pairs(dijkstra::all_pairs(g, weighted, Some(t), None, false, true)));
        out.push('#');
        out.push_str(&canon_pairs(dijkstra::all_pairs(g, weighted, Some(t), Some(4.0), true, false)));
        out.push('#');
        out.push_str(&canon_pairs(dijkstra::multi_source(g, weighted, names.clone(), Some(t), None, true, true)));
        out.push('#');
    }
    let mut inv: Vec<String> = dijkstra::get_all_shortest_paths_involving(g, x, weighted).into_iter().map(|i| { let mut ps = i.paths; ps.sort(); format!("{}:{:?}", i.distance.to_bits(), ps) }).collect();
    inv.sort();
    out.push_str(&inv.join(";"));
    let fmap = |r: Result<std::collections::HashMap<u32, f64>, graphrs::Error>| -> String {
        match r {
            Err(e) => format!("E{}:{}", err_code(&e.kind), e.message),
            Ok(m) => { let mut v: Vec<(u32, u64)> = m.into_iter().map(|(k, x)| (k, x.to_bits())).collect(); v.sort(); format!("{:?}", v) }
        }
    };
    // invalid calls: which error is reported must not depend on the schedule either (an absent source among valid ones;
    // on the copy with a negative weight, searches that fail with ContradictoryPaths next to an absent source)
    let mut with_absent = names.clone();
    with_absent.insert(names.len() / 2, 9999);
    out.push_str(&canon_pairs(dijkstra::multi_source(g, weighted, with_absent, None, None, false, true)));
    out.push('#');
    out.push_str(&canon_pairs(dijkstra::all_pairs(g, weighted, Some(9999), None, false, true)));
    for norm in [false, true] {
        out.push('#');
        out.push_str(&fmap(betweenness::betweenness_centrality(g, weighted, norm)));
        out.push('#');
        out.push_str(&fmap(closeness::closeness_centrality(g, weighted, norm)));
    }
    out
}

pub fn observe(c: &Case) -> String {
    // two cases in three see their weights divided by 10 or 7: sums that are not exact in f64, so that a reduction whose
    // shape depends on the schedule changes the rounding
    let den = match (c.g.nodes.len() + c.g.edges.len()) % 3 { 0 => 1.0, 1 => 10.0, _ => 7.0 };
    let g = match if den == 1.0 { c.g.build() } else { c.g.build_divided(den) } {
        Ok(g) => g,
        Err(e) => return format!("i.build=E{}", err_code(&e.kind)),
    };
    let x = c.g.nodes.get(c.g.nodes.len() / 2).copied().unwrap_or(0);
    // a copy whose last weighted edge is strongly negative: weighted searches that come across it fail
    let g_neg: Option<Graph<u32, u32>> = if c.weighted {
        let mut gc = c.g.clone();
        match gc.edges.iter().rposition(|e| e.2.is_some()) {
            Some(i) => {
                gc.edges[i].2 = Some(-60);
                // a second negative edge elsewhere: different sources run into different contradictions
                if let Some(j) = gc.edges.iter().position(|e| e.2.is_some()) { if j != i { gc.edges[j].2 = Some(-45); } }
                gc.build().ok()
            }
            None => None,
        }
    } else { None };
    let fingerprint = |g: &Graph<u32, u32>, weighted: bool, x: u32| -> String {
        let mut fp = fingerprint(g, weighted, x);
        if let Some(gn) = &g_neg {
            let names: Vec<u32> = gn.get_all_node_names().into_iter().copied().collect();
            let mut with_absent = names.clone();
            with_absent.push(9999);
            let cls = |r: Result<std::collections::HashMap<u32, std::collections::HashMap<u32, graphrs::algorithms::shortest_path::ShortestPathInfo<u32>>>, graphrs::Error>| match r { Ok(m) => format!("ok{}", m.len()), Err(e) => format!("E{}:{}", err_code(&e.kind), e.message) };
            fp.push_str(&format!("#neg:{}:{}:{}", cls(dijkstra::multi_source(gn, true, names, None, None, false, true)),
                cls(dijkstra::multi_source(gn, true, with_absent, None, None, false, true)), cls(dijkstra::all_pairs(gn, true, None, None, false, true))));
            // every option combination: which search routine runs (and whether it can notice the contradiction) must not
            // depend on the branch taken
            for (first_only, with_paths, cutoff) in [(false, false, None), (true, false, None), (true, true, None), (false, false, Some(1000.0)), (true, false, Some(1000.0))] {
                fp.push_str(&format!(":{}", cls(dijkstra::all_pairs(gn, true, None, cutoff, first_only, with_paths))));
            }
        }
        fp
    };
    let serial = rayon::ThreadPoolBuilder::new().num_threads(1).build().unwrap().install(|| fingerprint(&g, c.weighted, x));
    let mut diffs: Vec<String> = vec![];
    for k in &c.pools {
        let pool = rayon::ThreadPoolBuilder::new().num_threads(*k).build().unwrap();
        for r in 0..c.repeats {
            let fp = pool.install(|| fingerprint(&g, c.weighted, x));
            if fp != serial { diffs.push(format!("pool{}-run{}", k, r)); }
        }
    }
    // concurrent read-only use of one graph from several threads (each inside the global pool)
    let results: Vec<String> = std::thread::scope(|s| {
        let hs: Vec<_> = (0..6).map(|_| s.spawn(|| fingerprint(&g, c.weighted, x))).collect();
        hs.into_iter().map(|h| h.join().unwrap_or_else(|_| "panic".to_string())).collect()
    });
    for (i, r) in results.iter().enumerate() {
        if *r != serial { diffs.push(format!("concurrent-reader{}", i)); }
    }
    format!("i.build=0|i.par={}|i.fplen={}", if diffs.is_empty() { "1".to_string() } else { diffs.join(",") }, serial.len())
}

pub fn gen_case(rng: &mut Rng, profile: &str, _size: usize) -> Case {
    let weighted = rng.chance(50);
    let o = GenOpts {
        max_nodes: 60, min_nodes: 21, weights: if weighted { if rng.chance(70) { WeightMode::Positive } else { WeightMode::NonNegative } } else { WeightMode::Unweighted },
        allow_multi: true, allow_loops: true, directed: None, density_pct: *rng.pick(&[3u64, 5, 8]),
    };
    let pools = if profile == "all" { (1..=16).collect() } else { vec![2, 3, 4, 7, 16] };
    Case { g: gen_graph(rng, &o), weighted, pools, repeats: if profile == "all" { 3 } else { 2 } }
}

pub fn candidates(c: &Case) -> Vec<String> {
    c.g.candidates().into_iter().filter(|g| g.nodes.len() > 20).map(|g| Case { g, ..c.clone() }.request()).collect()
}
