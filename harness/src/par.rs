//! Parallel family (C07): the five functions that take the rayon code path, under pools of
//! 1..=16 threads and under concurrent read-only use of one graph, compared bit for bit.
use crate::graphgen::{gen_graph, GenOpts, GraphCase, WeightMode};
use crate::rng::Rng;
use crate::store::{err_code, Toks};
use graphrs::algorithms::centrality::{betweenness, closeness};
use graphrs::algorithms::shortest_path::dijkstra;
use graphrs::Graph;

#[derive(Clone, Debug)]
pub struct Case {
    pub g: GraphCase,
    pub weighted: bool,
    pub pools: Vec<usize>,
    pub repeats: usize,
}
impl Case {
    pub fn request(&self) -> String {
        format!("par {} {} {} {}{}", self.g.tokens(), self.weighted as u8, self.repeats, self.pools.len(), self.pools.iter().map(|x| format!(" {}", x)).collect::<String>())
    }
    pub fn parse(t: &mut Toks) -> Case {
        let g = GraphCase::parse(t);
        let weighted = t.next() != 0;
        let repeats = t.next() as usize;
        let pools = t.list(|t| t.next() as usize);
        Case { g, weighted, pools, repeats }
    }
}

/// every observable of the five functions, with every f64 as its bit pattern
fn fingerprint(g: &Graph<u32, u32>, weighted: bool, x: u32) -> String {
    let mut out = String::new();
    let canon_pairs = |r: Result<std::collections::HashMap<u32, std::collections::HashMap<u32, graphrs::algorithms::shortest_path::ShortestPathInfo<u32>>>, graphrs::Error>| -> String {
        match r {
            Err(e) => format!("E{}:{}", err_code(&e.kind), e.message),
            Ok(m) => {
                let mut rows: Vec<String> = m.into_iter().map(|(s, row)| {
                    let mut cells: Vec<String> = row.into_iter().map(|(t, i)| { let mut ps = i.paths; ps.sort(); format!("{}:{}:{:?}", t, i.distance.to_bits(), ps) }).collect();
                    cells.sort();
                    format!("{}>{}", s, cells.join(";"))
                }).collect();
                rows.sort();
                rows.join(" ")
            }
        }
    };
    let names: Vec<u32> = g.get_all_node_names().into_iter().copied().collect();
    out.push_str(&canon_pairs(dijkstra::all_pairs(g, weighted, None, None, false, true)));
    out.push('#');
    out.push_str(&canon_pairs(dijkstra::all_pairs(g, weighted, None, None, false, false)));
    out.push('#');
    out.push_str(&canon_pairs(dijkstra::multi_source(g, weighted, names.clone(), None, Some(3.0), true, true)));
    out.push('#');
    // with a target the search of one source stops early: whatever a worker keeps between two sources of its chunk must
    // not leak into the next one
    let y = names.first().copied().unwrap_or(x);
    for t in [x, y] {
        out.push_str(&canon_pairs(dijkstra::all_pairs(g, weighted, Some(t), None, false, true)));
        out.push('#');
        out.push_str(&canon_pairs(dijkstra::all_pairs(g, weighted, Some(t), Some(4.0), true, false)));
        out.push('#');
        out.push_str(&canon_pairs(dijkstra::multi_source(g, weighted, names.clone(), Some(t), None, true, true)));
        out.push('#');
    }
    let mut inv: Vec<String> = dijkstra::get_all_shortest_paths_involving(g, x, weighted).into_iter().map(|i| { let mut ps = i.paths; ps.sort(); format!("{}:{:?}", i.distance.to_bits(), ps) }).collect();
    inv.sort();
    out.push_str(&inv.join(";"));
    let fmap = |r: Result<std::collections::HashMap<u32, f64>, graphrs::Error>| -> String {
        match r {
            Err(e) => format!("E{}:{}", err_code(&e.kind), e.message),
            Ok(m) => { let mut v: Vec<(u32, u64)> = m.into_iter().map(|(k, x)| (k, x.to_bits())).collect(); v.sort(); format!("{:?}", v) }
        }
    };
    // invalid calls: which error is reported must not depend on the schedule either (an absent source among valid ones;
    // on the copy with a negative weight, searches that fail with ContradictoryPaths next to an absent source)
    let mut with_absent = names.clone();
    with_absent.insert(names.len() / 2, 9999);
    out.push_str(&canon_pairs(dijkstra::multi_source(g, weighted, with_absent, None, None, false, true)));
    out.push('#');
    out.push_str(&canon_pairs(dijkstra::all_pairs(g, weighted, Some(9999), None, false, true)));
    for norm in [false, true] {
        out.push('#');
        out.push_str(&fmap(betweenness::betweenness_centrality(g, weighted, norm)));
        out.push('#');
        out.push_str(&fmap(closeness::closeness_centrality(g, weighted, norm)));
    }
    out
}

pub fn observe(c: &Case) -> String {
    // two cases in three see their weights divided by 10 or 7: sums that are not exact in f64, so that a reduction whose
    // shape depends on the schedule changes the rounding
    let den = match (c.g.nodes.len() + c.g.edges.len()) % 3 { 0 => 1.0, 1 => 10.0, _ => 7.0 };
    let g = match if den == 1.0 { c.g.build() } else { c.g.build_divided(den) } {
        Ok(g) => g,
        Err(e) => return format!("i.build=E{}", err_code(&e.kind)),
    };
    let x = c.g.nodes.get(c.g.nodes.len() / 2).copied().unwrap_or(0);
    // a copy whose last weighted edge is strongly negative: weighted searches that come across it fail
    let g_neg: Option<Graph<u32, u32>> = if c.weighted {
        let mut gc = c.g.clone();
        match gc.edges.iter().rposition(|e| e.2.is_some()) {
            Some(i) => {
                gc.edges[i].2 = Some(-60);
                // a second negative edge elsewhere: different sources run into different contradictions
                if let Some(j) = gc.edges.iter().position(|e| e.2.is_some()) { if j != i { gc.edges[j].2 = Some(-45); } }
                gc.build().ok()
            }
            None => None,
        }
    } else { None };
    let fingerprint = |g: &Graph<u32, u32>, weighted: bool, x: u32| -> String {
        let mut fp = fingerprint(g, weighted, x);
        if let Some(gn) = &g_neg {
            let names: Vec<u32> = gn.get_all_node_names().into_iter().copied().collect();
            let mut with_absent = names.clone();
            with_absent.push(9999);
            let cls = |r: Result<std::collections::HashMap<u32, std::collections::HashMap<u32, graphrs::algorithms::shortest_path::ShortestPathInfo<u32>>>, graphrs::Error>| match r { Ok(m) => format!("ok{}", m.len()), Err(e) => format!("E{}:{}", err_code(&e.kind), e.message) };
            fp.push_str(&format!("#neg:{}:{}:{}", cls(dijkstra::multi_source(gn, true, names, None, None, false, true)),
                cls(dijkstra::multi_source(gn, true, with_absent, None, None, false, true)), cls(dijkstra::all_pairs(gn, true, None, None, false, true))));
            // every option combination: which search routine runs (and whether it can notice the contradiction) must not
            // depend on the branch taken
            for (first_only, with_paths, cutoff) in [(false, false, None), (true, false, None), (true, true, None), (false, false, Some(1000.0)), (true, false, Some(1000.0))] {
                fp.push_str(&format!(":{}", cls(dijkstra::all_pairs(gn, true, None, cutoff, first_only, with_paths))));
            }
        }
        fp
    };
    let serial = rayon::ThreadPoolBuilder::new().num_threads(1).build().unwrap().install(|| fingerprint(&g, c.weighted, x));
    let mut diffs: Vec<String> = vec![];
    for k in &c.pools {
        let pool = rayon::ThreadPoolBuilder::new().num_threads(*k).build().unwrap();
        for r in 0..c.repeats {
            let fp = pool.install(|| fingerprint(&g, c.weighted, x));
            if fp != serial { diffs.push(format!("pool{}-run{}", k, r)); }
        }
    }
    // concurrent read-only use of one graph from several threads (each inside the global pool)
    let results: Vec<String> = std::thread::scope(|s| {
        let hs: Vec<_> = (0..6).map(|_| s.spawn(|| fingerprint(&g, c.weighted, x))).collect();
        hs.into_iter().map(|h| h.join().unwrap_or_else(|_| "panic".to_string())).collect()
    });
    for (i, r) in results.iter().enumerate() {
        if *r != serial { diffs.push(format!("concurrent-reader{}", i)); }
    }
    format!("i.build=0|i.par={}|i.fplen={}", if diffs.is_empty() { "1".to_string() } else { diffs.join(",") }, serial.len())
}

pub fn gen_case(rng: &mut Rng, profile: &str, _size: usize) -> Case {
    let weighted = rng.chance(50);
    let o = GenOpts {
        max_nodes: 60, min_nodes: 21, weights: if weighted { if rng.chance(70) { WeightMode::Positive } else { WeightMode::NonNegative } } else { WeightMode::Unweighted },
        allow_multi: true, allow_loops: true, directed: None, density_pct: *rng.pick(&[3u64, 5, 8]),
    };
    let pools = if profile == "all" { (1..=16).collect() } else { vec![2, 3, 4, 7, 16] };
    Case { g: gen_graph(rng, &o), weighted, pools, repeats: if profile == "all" { 3 } else { 2 } }
}

pub fn candidates(c: &Case) -> Vec<String> {
    c.g.candidates().into_iter().filter(|g| g.nodes.len() > 20).map(|g| Case { g, ..c.clone() }.request()).collect()
}

// ---------------------------------------------------------------------------------------------------------------------------
// `parbig n c directed weighted seed`: a sparse random graph far above every size threshold of the crate (1 030 .. 2 140 nodes,
// mean degree c), built here from the seed. Every algorithm family of the crate - not only the five functions that are parallel
// today - is called in a pool of one worker, again in the same pool, and in pools of 3 and 16 workers. Set-valued and
// integer-valued answers and the five functions of C07 must agree exactly (bit patterns); the other float-valued answers to 1e-9
// (C17: "up to floating-point rounding of sums").

/// (exact part, float part) of every observable
fn big_fingerprint(ga: &std::sync::Arc<Graph<u32, u32>>, weighted: bool) -> (Vec<String>, Vec<f64>) {
    let g: &Graph<u32, u32> = ga;
    use graphrs::algorithms::centrality::{degree, eigenvector};
    use graphrs::algorithms::cluster;
    use graphrs::algorithms::community::louvain;
    use graphrs::algorithms::components;
    use std::collections::{HashMap, HashSet};
    let mut ex: Vec<String> = vec![];
    let mut fl: Vec<f64> = vec![];
    let names: Vec<u32> = { let mut v: Vec<u32> = g.get_all_node_names().into_iter().copied().collect(); v.sort(); v };
    let sets = |r: Result<Vec<HashSet<u32>>, graphrs::Error>| -> String {
        match r {
            Err(e) => format!("E{}", err_code(&e.kind)),
            Ok(v) => { let mut rows: Vec<Vec<u32>> = v.into_iter().map(|s| { let mut x: Vec<u32> = s.into_iter().collect(); x.sort(); x }).collect(); rows.sort(); format!("{:?}", rows) }
        }
    };
    let bits = |r: Result<HashMap<u32, f64>, graphrs::Error>| -> String {
        match r {
            Err(e) => format!("E{}", err_code(&e.kind)),
            Ok(m) => { let mut v: Vec<(u32, u64)> = m.into_iter().map(|(k, x)| (k, x.to_bits())).collect(); v.sort(); format!("{:?}", v) }
        }
    };
    let mut floats = |tag: &str, r: Result<HashMap<u32, f64>, graphrs::Error>, ex: &mut Vec<String>| {
        match r {
            Err(e) => ex.push(format!("{}:E{}", tag, err_code(&e.kind))),
            Ok(m) => {
                let mut keys: Vec<u32> = m.keys().copied().collect();
                keys.sort();
                ex.push(format!("{}:{}", tag, keys.len()));
                for k in keys { fl.push(m[&k]); }
            }
        }
    };
    // C07's five functions: bit for bit
    ex.push(bits(betweenness::betweenness_centrality(g, weighted, true)));
    ex.push(bits(closeness::closeness_centrality(g, weighted, true)));
    let some: Vec<u32> = names.iter().step_by(names.len() / 24 + 1).copied().collect();
    let pairs = |r: Result<HashMap<u32, HashMap<u32, graphrs::algorithms::shortest_path::ShortestPathInfo<u32>>>, graphrs::Error>| -> String {
        match r {
            Err(e) => format!("E{}", err_code(&e.kind)),
            Ok(m) => {
                let mut rows: Vec<String> = m.into_iter().map(|(s, row)| {
                    let mut cells: Vec<String> = row.into_iter().map(|(t, i)| { let mut ps = i.paths; ps.sort(); format!("{}:{}:{:?}", t, i.distance.to_bits(), ps) }).collect();
                    cells.sort();
                    format!("{}>{}", s, cells.join(";"))
                }).collect();
                rows.sort();
                rows.join(" ")
            }
        }
    };
    ex.push(pairs(dijkstra::multi_source(g, weighted, some.clone(), None, None, false, true)));
    ex.push(pairs(dijkstra::multi_source(g, weighted, some.clone(), Some(names[names.len() / 2]), Some(6.0), true, false)));
    ex.push(pairs(dijkstra::all_pairs(g, weighted, Some(names[0]), None, true, false)));
    let mut inv: Vec<String> = dijkstra::get_all_shortest_paths_involving(g, names[1], weighted).into_iter().map(|i| format!("{}:{}", i.distance.to_bits(), i.paths.len())).collect();
    inv.sort();
    inv.truncate(5000);
    ex.push(inv.join(";"));
    // components, BFS, equal-size partitions
    ex.push(sets(components::connected_components(g)));
    ex.push(sets(components::weakly_connected_components(g)));
    ex.push(sets(components::strongly_connected_components(g)));
    ex.push(format!("{:?}", components::number_of_connected_components(g).map_err(|e| err_code(&e.kind))));
    ex.push(format!("{:?}", g.breadth_first_search(&names[0])));
    ex.push(format!("{:?}", components::bfs_equal_size_partitions(g, 7)));
    // clustering
    ex.push(format!("{:?}", cluster::triangles(g, None).map(|m| { let mut v: Vec<(u32, usize)> = m.into_iter().collect(); v.sort(); v }).map_err(|e| err_code(&e.kind))));
    ex.push(format!("{:?}", cluster::generalized_degree(g, None).map(|m| { let mut v: Vec<(u32, Vec<(usize, usize)>)> = m.into_iter().map(|(k, h)| { let mut x: Vec<(usize, usize)> = h.into_iter().collect(); x.sort(); (k, x) }).collect(); v.sort(); v }).map_err(|e| err_code(&e.kind))));
    floats("clustering", cluster::clustering(g, false, None), &mut ex);
    floats("clustering_w", cluster::clustering(g, weighted, None), &mut ex);
    floats("square", Ok(cluster::square_clustering(g, None)), &mut ex);
    floats("degree_centrality", Ok(degree::degree_centrality(g)), &mut ex);
    floats("eigenvector", eigenvector::eigenvector_centrality(g, weighted, Some(60), Some(1e-5)), &mut ex);
    match cluster::transitivity(g) { Ok(x) => fl.push(x), Err(e) => ex.push(format!("transitivity:E{}", err_code(&e.kind))) }
    match cluster::average_clustering(g, weighted, None, true) { Ok(x) => fl.push(x), Err(e) => ex.push(format!("avg:E{}", err_code(&e.kind))) }
    // degrees and sizes
    ex.push(format!("{} {} {}", g.number_of_nodes(), g.number_of_edges(), g.size(false)));
    fl.push(g.size(true));
    fl.push(g.get_density());
    // seeded Louvain
    // under a watchdog (a detached thread on a shared copy): a Louvain that does not come back within 20 s is recorded as such
    // instead of stalling the whole run (termination itself is C13's subject)
    let (tx, rx) = std::sync::mpsc::channel();
    let g2 = ga.clone();
    std::thread::spawn(move || { let _ = tx.send(louvain::louvain_partitions(&g2, weighted, None, None, Some(11))); });
    ex.push(match rx.recv_timeout(std::time::Duration::from_secs(20)) {
        Err(_) => "louvain:no-answer-within-20s".to_string(),
        Ok(Err(e)) => format!("E{}", err_code(&e.kind)),
        Ok(Ok(levels)) => levels.into_iter().map(|l| sets(Ok(l))).collect::<Vec<_>>().join("|"),
    });
    (ex, fl)
}

pub fn observe_big(t: &mut Toks) -> String {
    let n = t.next() as u32;
    let c = t.next() as u64;
    let directed = t.next() != 0;
    let weighted = t.next() != 0;
    let seed = t.next() as u64;
    let mut rng = Rng::new(seed);
    let mut names: Vec<u32> = (0..n).map(|i| 3 * i + 1).collect();
    rng.shuffle(&mut names);
    let mut seen = std::collections::HashSet::new();
    let mut edges = vec![];
    for _ in 0..(n as u64 * c / 2) {
        let (a, b) = (names[rng.below(n as u64) as usize], names[rng.below(n as u64) as usize]);
        let key = if directed { (a, b) } else { (a.min(b), a.max(b)) };
        if a == b || !seen.insert(key) { continue; }
        let w = (rng.range(1, 40) as f64) / 7.0;
        edges.push(if weighted { graphrs::Edge::with_weight(a, b, w) } else { graphrs::Edge::new(a, b) });
    }
    let specs = if directed { graphrs::GraphSpecs::directed_create_missing() } else { graphrs::GraphSpecs::undirected_create_missing() };
    let g: std::sync::Arc<Graph<u32, u32>> = match Graph::new_from_nodes_and_edges(names.iter().map(|x| graphrs::Node::from_name(*x)).collect(), edges, specs) {
        Ok(g) => std::sync::Arc::new(g),
        Err(e) => return format!("i.build=E{}", err_code(&e.kind)),
    };
    let run = |k: usize| rayon::ThreadPoolBuilder::new().num_threads(k).build().unwrap().install(|| big_fingerprint(&g, weighted));
    let base = run(1);
    let mut diffs: Vec<String> = vec![];
    for (tag, k) in [("again1", 1usize), ("pool3", 3), ("pool16", 16)] {
        let other = run(k);
        if other.0.len() != base.0.len() || other.1.len() != base.1.len() { diffs.push(format!("{}:shape", tag)); continue; }
        for i in (0..base.0.len()).filter(|i| base.0[*i] != other.0[*i]) { diffs.push(format!("{}:exact#{}", tag, i)); }
        let close = |a: f64, b: f64| a == b || (a.is_nan() && b.is_nan()) || (a - b).abs() <= 1e-9 * a.abs().max(b.abs()).max(1e-3);
        if let Some(i) = (0..base.1.len()).find(|i| !close(base.1[*i], other.1[*i])) { diffs.push(format!("{}:float#{}:{:e}/{:e}", tag, i, base.1[i], other.1[i])); }
    }
    format!("i.build=0|i.par={}|i.fplen={}", if diffs.is_empty() { "1".to_string() } else { diffs.join(",") }, base.0.iter().map(|s| s.len()).sum::<usize>() + base.1.len())
}

pub fn gen_big(rng: &mut Rng) -> String {
    let n = *rng.pick(&[1030i64, 1300]) + rng.range(0, 80);
    format!("parbig {} {} {} {} {}", n, rng.range(2, 4), rng.below(2), rng.below(2), rng.below(1_000_000))
}
