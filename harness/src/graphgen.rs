//! Graph cases shared by the algorithm families: a GraphSpecs combination that accepts every
//! generated edge, a node list and a weighted edge list.
use crate::rng::Rng;
use crate::store::{Specs, Toks, E, G, N, NAN_TOKEN};
use graphrs::Graph;

#[derive(Clone, Debug)]
pub struct GraphCase {
    pub specs: Specs,
    pub nodes: Vec<u32>,
    pub edges: Vec<(u32, u32, Option<i64>)>,
}

#[derive(Clone, Copy, PartialEq)]
pub enum WeightMode {
    Unweighted,
    NonNegative, // 0..=4
    Positive,    // 1..=4
    Mixed,       // some NaN
}

pub struct GenOpts {
    pub max_nodes: usize,
    pub min_nodes: usize,
    pub weights: WeightMode,
    pub allow_multi: bool,
    pub allow_loops: bool,
    pub directed: Option<bool>,
    pub density_pct: u64,
}

impl GraphCase {
    pub fn tokens(&self) -> String {
        let mut s = format!("{} {}", self.specs.tokens(), self.nodes.len());
        for n in &self.nodes {
            s.push_str(&format!(" {}", n));
        }
        s.push_str(&format!(" {}", self.edges.len()));
        for e in &self.edges {
            s.push_str(&format!(" {} {} {}", e.0, e.1, match e.2 { None => NAN_TOKEN, Some(w) => w }));
        }
        s
    }
    pub fn parse(t: &mut Toks) -> GraphCase {
        let specs = Specs::parse(t);
        let nodes = t.list(|t| t.next() as u32);
        let edges = t.list(|t| {
            let u = t.next() as u32;
            let v = t.next() as u32;
            let w = t.next();
            (u, v, if w == NAN_TOKEN { None } else { Some(w) })
        });
        GraphCase { specs, nodes, edges }
    }
    /// the algorithm families build their graph in one call; to give them a multi-step history as well, a subset of the nodes
    /// (determined by the case) is added again afterwards - a no-op on the abstract graph (same name, no attributes)
    fn readd(&self, r: Result<G, graphrs::Error>) -> Result<G, graphrs::Error> {
        let mut g = r?;
        let h = (self.nodes.len() * 7 + self.edges.len() * 3) % 4;
        if h != 0 {
            for (i, n) in self.nodes.iter().enumerate() {
                if (i + h) % 2 == 0 { g.add_node(N { name: *n, attr: None }.to_node()); }
            }
        }
        Ok(g)
    }
    pub fn build(&self) -> Result<G, graphrs::Error> {
        let mut arcs = crate::store::EdgeArcs::default();
        let edges: Vec<std::sync::Arc<graphrs::Edge<u32, u32>>> = self.edges.iter().map(|e| arcs.get(&E { u: e.0, v: e.1, w: e.2, attr: None })).collect();
        self.two_phase(edges)
    }
    /// the same graph with every weight divided by `div` (a power of two: exact in f64): non-integer weights for the
    /// algorithms whose model works on the integer numerators
    pub fn build_scaled(&self, div: u64) -> Result<G, graphrs::Error> {
        self.build_divided(div as f64)
    }
    /// the same graph with every weight divided by an arbitrary number (not exact in f64 unless it is a power of two)
    pub fn build_divided(&self, den: f64) -> Result<G, graphrs::Error> {
        self.two_phase(self.edges.iter().map(|e| match e.2 {
            Some(w) => graphrs::Edge::with_weight(e.0, e.1, w as f64 / den),
            None => graphrs::Edge::new(e.0, e.1),
        }).collect())
    }
    /// Two-phase construction: `new_from_nodes_and_edges` with the first part of the edge list, then every read API that
    /// could fill a cache is called (results discarded), then the remaining edges go in through `add_edges`, then some nodes
    /// are added again. For an edge list that is accepted this is the graph `new_from_nodes_and_edges` builds in one call
    /// (same nodes, same edges in the same order); a rejected edge is rejected with the same error in either phase. Whatever
    /// the graph memoises between mutations is stale afterwards if it is not invalidated.
    fn two_phase(&self, edges: Vec<std::sync::Arc<graphrs::Edge<u32, u32>>>) -> Result<G, graphrs::Error> {
        let cut = match (self.nodes.len() + 2 * edges.len()) % 3 { 0 => edges.len(), 1 => edges.len() * 2 / 3, _ => edges.len() / 2 };
        let mut rest = edges;
        let first: Vec<_> = rest.drain(..cut).collect();
        let mut g = Graph::new_from_nodes_and_edges(
            self.nodes.iter().map(|n| N { name: *n, attr: None }.to_node()).collect(),
            first,
            self.specs.to_graph_specs(),
        )?;
        if !rest.is_empty() {
            warm_caches(&g);
            g.add_edges(rest)?;
        }
        self.readd(Ok(g))
    }
    /// smaller variants: drop an edge, drop a node (with its edges), weights to 1
    pub fn candidates(&self) -> Vec<GraphCase> {
        let mut out = vec![];
        for i in 0..self.edges.len() {
            let mut c = self.clone();
            c.edges.remove(i);
            out.push(c);
        }
        for i in 0..self.nodes.len() {
            let mut c = self.clone();
            let x = c.nodes.remove(i);
            c.edges.retain(|e| e.0 != x && e.1 != x);
            out.push(c);
        }
        for i in 0..self.edges.len() {
            if let Some(w) = self.edges[i].2 {
                if w != 1 {
                    let mut c = self.clone();
                    c.edges[i].2 = Some(1);
                    out.push(c);
                }
            }
        }
        out
    }
}

pub fn gen_graph(rng: &mut Rng, o: &GenOpts) -> GraphCase {
    let directed = o.directed.unwrap_or_else(|| rng.chance(50));
    let multi = o.allow_multi && rng.chance(35);
    let loops = o.allow_loops && rng.chance(40);
    let specs = Specs {
        directed,
        multi,
        self_loops: loops,
        dedupe: if multi { rng.below(3) as u8 } else { 1 + rng.below(2) as u8 },
        missing: 0,
        slfalse: 1,
    };
    let n = rng.range(o.min_nodes as i64, o.max_nodes as i64) as usize;
    let mut pool: Vec<u32> = (1..=(n as u32 + 6)).collect();
    rng.shuffle(&mut pool);
    let nodes: Vec<u32> = pool[..n].to_vec();
    let mut edges = vec![];
    if n > 0 {
        // shape: sparse / medium / dense / several components
        let shape = rng.below(4);
        let pairs = n * n;
        let pct = match shape { 0 => o.density_pct / 3 + 1, 1 => o.density_pct, 2 => (o.density_pct * 2).min(90), _ => o.density_pct };
        let m = ((pairs as u64 * pct) / 100).max(if n > 1 { 1 } else { 0 }) as usize;
        let comps = if shape == 3 && n >= 4 { 2 } else { 1 };
        for _ in 0..m {
            let (u, v) = if comps == 2 {
                let half = n / 2;
                let side = rng.chance(50);
                let (lo, hi) = if side { (0, half) } else { (half, n) };
                (nodes[lo + rng.below((hi - lo) as u64) as usize], nodes[lo + rng.below((hi - lo) as u64) as usize])
            } else {
                (*rng.pick(&nodes), *rng.pick(&nodes))
            };
            if u == v && !loops && rng.chance(80) {
                continue;
            }
            let w = match o.weights {
                WeightMode::Unweighted => None,
                WeightMode::NonNegative => Some(rng.range(0, 4)),
                WeightMode::Positive => Some(rng.range(1, 4)),
                WeightMode::Mixed => if rng.chance(70) { Some(rng.range(1, 4)) } else { None },
            };
            edges.push((u, v, w));
            if multi && rng.chance(25) {
                let w2 = w.map(|x| (x + rng.range(-1, 2)).max(if o.weights == WeightMode::Positive { 1 } else { 0 }));
                edges.push(if rng.chance(50) { (u, v, w2) } else { (v, u, w2) });
            }
        }
    }
    GraphCase { specs, nodes, edges }
}


/// calls every read API whose answer a graph could memoise (degree tables, sizes, maps, per-node lists); results are discarded
pub fn warm_caches(g: &G) {
    let _ = g.get_degree_for_all_nodes();
    let _ = g.get_in_degree_for_all_nodes();
    let _ = g.get_out_degree_for_all_nodes();
    let _ = g.get_weighted_degree_for_all_nodes();
    let _ = g.get_weighted_in_degree_for_all_nodes();
    let _ = g.get_weighted_out_degree_for_all_nodes();
    let _ = (g.size(true), g.size(false), g.number_of_edges(), g.number_of_nodes(), g.get_density(), g.edges_have_weight());
    let _ = (g.get_all_edges().len(), g.get_all_nodes().len(), g.get_successors_map().len(), g.get_predecessors_map().len());
    let _ = g.get_sparse_adjacency_matrix();
    for n in g.get_all_node_names().into_iter().copied().collect::<Vec<u32>>() {
        let _ = (g.get_node_degree(n), g.get_node_weighted_degree(n), g.get_edges_for_node(n).map(|v| v.len()), g.get_neighbor_nodes(n).map(|v| v.len()));
        let _ = (g.get_successor_nodes(n).map(|v| v.len()), g.get_predecessor_nodes(n).map(|v| v.len()), g.get_successors_or_neighbors(n).len());
    }
}
