//! Clustering family (C11).
use crate::cen::p_fmap;
use crate::graphgen::{gen_graph, GenOpts, GraphCase, WeightMode};
use crate::rng::Rng;
use crate::store::{err_code, p_q, Toks};
use graphrs::algorithms::cluster;
use graphrs::Error;
use std::collections::HashMap;

#[derive(Clone, Debug)]
pub struct Case {
    pub g: GraphCase,
    pub weighted: bool,
    pub subset: Vec<u32>,
    /// the implementation sees every weight divided by this power of two (exact in f64; the weighted coefficients are
    /// normalised by the largest weight, so the model, which works on the integer numerators, must give the same bits)
    pub wdiv: u64,
}
impl Case {
    pub fn request(&self) -> String {
        format!("clu {} {} {}{} {}", self.g.tokens(), self.weighted as u8, self.subset.len(), self.subset.iter().map(|x| format!(" {}", x)).collect::<String>(), self.wdiv)
    }
    pub fn parse(t: &mut Toks) -> Case {
        let g = GraphCase::parse(t);
        let weighted = t.next() != 0;
        let subset = t.list(|t| t.next() as u32);
        let wdiv = t.next() as u64;
        Case { g, weighted, subset, wdiv }
    }
}

fn p_bits(x: f64) -> String {
    if x.is_nan() { "nan".to_string() } else { format!("b{}", x.to_bits()) }
}
fn p_bmap(r: &Result<HashMap<u32, f64>, Error>) -> String {
    match r {
        Err(e) => format!("E{}", err_code(&e.kind)),
        Ok(m) => {
            if m.is_empty() { return ".".to_string(); }
            let mut kv: Vec<(&u32, &f64)> = m.iter().collect();
            kv.sort_by_key(|x| *x.0);
            kv.iter().map(|(k, v)| format!("{}>{}", k, p_bits(**v))).collect::<Vec<_>>().join(" ")
        }
    }
}
fn p_umap(r: &Result<HashMap<u32, usize>, Error>) -> String {
    match r {
        Err(e) => format!("E{}", err_code(&e.kind)),
        Ok(m) => {
            if m.is_empty() { return ".".to_string(); }
            let mut kv: Vec<(&u32, &usize)> = m.iter().collect();
            kv.sort_by_key(|x| *x.0);
            kv.iter().map(|(k, v)| format!("{}>{}", k, v)).collect::<Vec<_>>().join(" ")
        }
    }
}
fn p_gd(r: &Result<HashMap<u32, HashMap<usize, usize>>, Error>) -> String {
    match r {
        Err(e) => format!("E{}", err_code(&e.kind)),
        Ok(m) => {
            if m.is_empty() { return ".".to_string(); }
            let mut kv: Vec<(&u32, &HashMap<usize, usize>)> = m.iter().collect();
            kv.sort_by_key(|x| *x.0);
            kv.iter().map(|(k, h)| {
                let mut hv: Vec<(&usize, &usize)> = h.iter().collect();
                hv.sort();
                format!("{}>{}", k, if hv.is_empty() { "_".to_string() } else { hv.iter().map(|(a, b)| format!("{}:{}", a, b)).collect::<Vec<_>>().join(";") })
            }).collect::<Vec<_>>().join(" ")
        }
    }
}
fn p_f(r: &Result<f64, Error>, f: impl Fn(f64) -> String) -> String {
    match r { Ok(x) => f(*x), Err(e) => format!("E{}", err_code(&e.kind)) }
}

pub fn observe(c: &Case) -> String {
    let g = match c.g.build_scaled(c.wdiv.max(1)) {
        Ok(g) => g,
        Err(e) => return format!("i.build=E{}", err_code(&e.kind)),
    };
    let s: &[u32] = &c.subset;
    let absent = s.iter().any(|x| !g.has_node(x));
    let w = c.weighted;
    let sq_all: Result<HashMap<u32, f64>, Error> = Ok(cluster::square_clustering(&g, None));
    let sq_s = if absent { "skip".to_string() } else { p_fmap(&Ok(cluster::square_clustering(&g, Some(s)))) };
    format!(
        "i.build=0|i.tri={}|i.triS={}|i.gd={}|i.gdS={}|i.trans:q={}|i.clu:q={}|i.cluS:q={}|i.wclu:b={}|i.wcluS:b={}|i.avg1:b={}|i.avg0:b={}|i.avgS:b={}|i.sq:q={}|i.sqS:q={}",
        p_umap(&cluster::triangles(&g, None)), p_umap(&cluster::triangles(&g, Some(s))),
        p_gd(&cluster::generalized_degree(&g, None)), p_gd(&cluster::generalized_degree(&g, Some(s))),
        p_f(&cluster::transitivity(&g), p_q),
        p_fmap(&cluster::clustering(&g, false, None)), p_fmap(&cluster::clustering(&g, false, Some(s))),
        if w { p_bmap(&cluster::clustering(&g, true, None)) } else { "-".to_string() },
        if w { p_bmap(&cluster::clustering(&g, true, Some(s))) } else { "-".to_string() },
        p_f(&cluster::average_clustering(&g, w, None, true), p_bits),
        p_f(&cluster::average_clustering(&g, w, None, false), p_bits),
        p_f(&cluster::average_clustering(&g, w, Some(s), true), p_bits),
        if g.specs.directed { "skipdir".to_string() } else { p_fmap(&sq_all) },
        if g.specs.directed && !absent { "skipdir".to_string() } else { sq_s }
    )
}

pub fn gen_case(rng: &mut Rng, _profile: &str, size: usize) -> Case {
    let weighted = rng.chance(45);
    let o = GenOpts {
        max_nodes: size, min_nodes: 1,
        weights: if weighted { if rng.chance(85) { WeightMode::Positive } else { WeightMode::Mixed } } else if rng.chance(50) { WeightMode::Unweighted } else { WeightMode::Positive },
        allow_multi: rng.chance(12), allow_loops: true, directed: None, density_pct: *rng.pick(&[15u64, 30, 45, 60]),
    };
    let g = gen_graph(rng, &o);
    let mut subset: Vec<u32> = g.nodes.iter().copied().filter(|_| rng.chance(45)).collect();
    if subset.is_empty() { subset.push(*rng.pick(&g.nodes)); }
    if rng.chance(7) { subset.push(99); }
    rng.shuffle(&mut subset);
    Case { g, weighted, subset, wdiv: *rng.pick(&[1u64, 1, 2, 2, 4, 1 << 60]) }
}

pub fn candidates(c: &Case) -> Vec<String> {
    let mut out: Vec<String> = c.g.candidates().into_iter().map(|g| {
        let subset: Vec<u32> = c.subset.iter().copied().filter(|x| g.nodes.contains(x) || *x == 99).collect();
        Case { subset: if subset.is_empty() && !g.nodes.is_empty() { vec![g.nodes[0]] } else { subset }, g, ..c.clone() }.request()
    }).collect();
    if c.subset.len() > 1 {
        for i in 0..c.subset.len() { let mut s = c.subset.clone(); s.remove(i); out.push(Case { subset: s, ..c.clone() }.request()); }
    }
    out
}
