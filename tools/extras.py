"""Extra dynamic checks that are not a model/specification comparison of one request."""
import os, re, subprocess


def run(ctx, name):
    return globals()[name](ctx)


def _impl_lines(path):
    return [l.rstrip('\n') for l in open(path)]


def fresh_process_identical(ctx):
    """C17: the same requests, answered by a second harness process, must give identical results."""
    import check
    fails = []
    for f in sorted(os.listdir(ctx.work)):
        if not re.fullmatch(r'gen\d+\.req', f):
            continue
        req = os.path.join(ctx.work, f)
        first = os.path.join(ctx.work, f.replace('.req', '.impl'))
        second = os.path.join(ctx.work, f.replace('.req', '.impl2'))
        rc, out = check.sh([check.HBIN, 'run', req, second], timeout=3600, env={'RAYON_NUM_THREADS': '7'})
        if rc != 0:
            raise RuntimeError('second harness run failed: ' + out[-1000:])
        reqs = [l.rstrip('\n') for l in open(req) if l.strip()]
        for r, a, b in zip(reqs, _impl_lines(first), _impl_lines(second)):
            fa = re.sub(r'\|i\.tok=.*', '', a)
            fb = re.sub(r'\|i\.tok=.*', '', b)
            ctx.stats['hist']['fresh_process_pairs'] = ctx.stats['hist'].get('fresh_process_pairs', 0) + 1
            if fa != fb:
                fails.append((r, {'spec': [], 'model': [], 'impl': [{'field': 'fresh-process', 'impl': fa[:400], 'expected': fb[:400]}],
                                  'nontrivial': True, 'hist': []}))
    return fails
