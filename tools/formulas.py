"""Formula translator: arithmetic expressions and guards of /repo's current source -> Lean definitions.

The hand-written model states each closed formula of the code (Louvain gain, modularity term, closeness quotient,
betweenness scale, density, degree centrality, clustering quotients, eigenvector start value / stopping test) once.
This translator re-reads those expressions from the Rust source on every run, parses them with a small Rust expression
parser, and regenerates `lean/GraphrsModel/Generated/Formulas<Cxx>.lean` (`namespace Graphrs.Src`).  The hand-written
`Props/Formulas<Cxx>.lean` proves (by `ring` / `rfl` / `simp`, i.e. up to the field axioms, so a harmless algebraic
rewrite of the source still passes) that every regenerated expression is the one the model uses.  An edit that changes a
formula makes that theorem fail; an edit that removes the anchored statement makes the translator report a problem: either
way the proof obligation is reported broken and the search for a failing input starts.

Types: every atom (a Rust place expression such as `deg_info.stot_in[nbr_com]`) is declared per site with a Lean name and a
type (`rat` for f64 values, `nat` for usize values); `as f64` casts a nat expression to Rat; usize arithmetic is Nat
arithmetic (truncated subtraction for `saturating_sub`; plain `-` on usize is translated the same way and the guard that makes
it safe is a separate site)."""
import os, re

REPO = os.environ.get('VERIF_REPO', '/repo')
ROOT = os.path.dirname(os.path.dirname(os.path.abspath(__file__)))
GEN = os.path.join(ROOT, 'lean', 'GraphrsModel', 'Generated')

TOK = re.compile(r'\s*(?:(\d+\.\d+(?:e-?\d+)?|\d+)|([A-Za-z_][A-Za-z0-9_]*(?:::[A-Za-z_][A-Za-z0-9_<>]*)*)|(<=|>=|==|!=|&&|\|\||[-+*/()<>\[\].,!&]))')


class ParseError(Exception):
    pass


def tokenize(s):
    out, i = [], 0
    s = s.strip()
    while i < len(s):
        m = TOK.match(s, i)
        if not m or m.end() == i:
            raise ParseError('cannot tokenize at: ' + s[i:i + 20])
        if m.group(1):
            out.append(('num', m.group(1)))
        elif m.group(2):
            out.append(('id', m.group(2)))
        else:
            out.append(('op', m.group(3)))
        i = m.end()
        while i < len(s) and s[i].isspace():
            i += 1
    return out


BIN = {'||': 1, '&&': 2, '<': 3, '<=': 3, '>': 3, '>=': 3, '==': 3, '!=': 3, '+': 4, '-': 4, '*': 5, '/': 5}


class Parser:
    def __init__(self, toks):
        self.t, self.i = toks, 0

    def peek(self):
        return self.t[self.i] if self.i < len(self.t) else (None, None)

    def eat(self, val=None):
        k, v = self.peek()
        if k is None or (val is not None and v != val):
            raise ParseError(f'expected {val!r}, found {v!r}')
        self.i += 1
        return k, v

    def expr(self, minp=1):
        lhs = self.unary()
        while True:
            k, v = self.peek()
            if k == 'op' and v in BIN and BIN[v] >= minp:
                self.eat()
                rhs = self.expr(BIN[v] + 1)
                lhs = ('bin', v, lhs, rhs)
            else:
                return lhs

    def unary(self):
        k, v = self.peek()
        if k == 'op' and v == '-':
            self.eat()
            return ('neg', self.unary())
        if k == 'op' and v in ('*', '&'):      # deref / borrow: transparent
            self.eat()
            return self.unary()
        if k == 'op' and v == '!':
            self.eat()
            return ('not', self.unary())
        e = self.postfix(self.primary())
        while self.peek() == ('id', 'as'):
            self.eat()
            _, ty = self.eat()
            e = ('cast', ty, e)
        return e

    def primary(self):
        k, v = self.eat()
        if k == 'num':
            return ('num', v)
        if k == 'id':
            return ('path', v)
        if v == '(':
            e = self.expr()
            self.eat(')')
            return ('paren', e)
        raise ParseError(f'unexpected token {v!r}')

    def postfix(self, e):
        while True:
            k, v = self.peek()
            if (k, v) == ('op', '.'):
                self.eat()
                _, name = self.eat()
                if self.peek() == ('op', '('):
                    self.eat()
                    args = []
                    while self.peek() != ('op', ')'):
                        args.append(self.expr())
                        if self.peek() == ('op', ','):
                            self.eat()
                    self.eat(')')
                    e = ('call', name, e, args)
                else:
                    e = ('field', name, e)
            elif (k, v) == ('op', '['):
                self.eat()
                ix = self.expr()
                self.eat(']')
                e = ('index', e, ix)
            else:
                return e


def parse(s):
    p = Parser(tokenize(s))
    e = p.expr()
    if p.i != len(p.t):
        raise ParseError('trailing tokens: ' + ' '.join(v for _, v in p.t[p.i:]))
    return e


def canon(e):
    """canonical text of a place expression (None if `e` is not one)"""
    k = e[0]
    if k == 'path':
        return e[1]
    if k == 'paren':
        return canon(e[1])
    if k == 'field':
        b = canon(e[2])
        return None if b is None else f'{b}.{e[1]}'
    if k == 'index':
        b, i = canon(e[1]), canon(e[2])
        return None if b is None or i is None else f'{b}[{i}]'
    if k == 'call' and e[1] in ('len', 'unwrap', 'clone', 'unwrap_or', 'number_of_nodes', 'get_node_degree', 'is_none', 'is_some', 'is_nan', 'get'):
        b = canon(e[2])
        if b is None:
            return None
        args = []
        for a in e[3]:
            args.append(a[1] if a[0] == 'num' else canon(a))
        if any(a is None for a in args):
            return None
        return f'{b}.{e[1]}({",".join(args)})'
    return None


def lit(v, want):
    if '.' in v or 'e' in v:
        from fractions import Fraction
        f = Fraction(v)
        s = str(f.numerator) if f.denominator == 1 else f'({f.numerator} / {f.denominator})'
        return f'({s} : Rat)', 'rat'
    return (f'({v} : Rat)', 'rat') if want == 'rat' else (f'({v} : Nat)', 'nat')


def emit(e, atoms, want=None):
    """-> (lean text, type) with type in rat | nat | bool"""
    k = e[0]
    c = canon(e)
    if c is not None and c in atoms:
        return atoms[c]
    if k == 'path' and e[1] in ('true', 'false'):
        return e[1], 'bool'
    if k == 'num':
        return lit(e[1], want)
    if k == 'paren':
        t, ty = emit(e[1], atoms, want)
        return f'({t})', ty
    if k == 'neg':
        t, ty = emit(e[1], atoms, want)
        return f'(-{t})', ty
    if k == 'not':
        t, ty = emit(e[1], atoms, 'bool')
        return f'(!{t})', 'bool'
    if k == 'cast':
        t, ty = emit(e[2], atoms, 'nat')
        if e[1] == 'f64':
            return (f'(({t} : Nat) : Rat)', 'rat') if ty == 'nat' else (t, ty)
        return t, ty
    if k == 'call':
        name, recv, args = e[1], e[2], e[3]
        if name in ('powf', 'powi') and len(args) == 1 and args[0][0] == 'num':
            t, ty = emit(recv, atoms, 'rat')
            n = int(float(args[0][1]))
            return f'({t} ^ {n})', ty
        if name == 'saturating_sub' and len(args) == 1:
            a, ta = emit(recv, atoms, 'nat')
            b, tb = emit(args[0], atoms, 'nat')
            if ta == tb == 'nat':
                return f'({a} - {b})', 'nat'
        raise ParseError(f'unsupported method .{name}(..)')
    if k == 'bin':
        op = e[1]
        if op in ('&&', '||'):
            a, _ = emit(e[2], atoms, 'bool')
            b, _ = emit(e[3], atoms, 'bool')
            return f'({a} {op} {b})', 'bool'
        # operand types: try without expectation first, literals follow the other side
        def side(x, w):
            return emit(x, atoms, w)
        a, ta = side(e[2], want if op in '+-*/' else None)
        b, tb = side(e[3], ta if ta in ('rat', 'nat') else want)
        if e[2][0] == 'num' and tb in ('rat', 'nat') and ta != tb:
            a, ta = side(e[2], tb)
        if ta == tb == 'bool' and op in ('==', '!='):
            return (f'({a} == {b})' if op == '==' else f'({a} != {b})'), 'bool'
        if ta != tb:
            raise ParseError(f'type mismatch in `{op}`: {a} : {ta} vs {b} : {tb}')
        if op in '+-*/':
            return f'({a} {op} {b})', ta
        lop = {'<': '<', '<=': '≤', '>': '>', '>=': '≥', '==': '=', '!=': '≠'}[op]
        return f'(decide ({a} {lop} {b}))', 'bool'
    raise ParseError(f'unknown atom `{c or e}` (the expression mentions something the site table does not declare)')


def emit_sc(e, atoms, want=None):
    """generic-scalar mode (C18): f64 expressions become terms over a `Scalar α` record `S` (type 'sc'), so that the same
    regenerated definition is compared with the model's generic code whatever arithmetic instantiates it"""
    k = e[0]
    c = canon(e)
    if c is not None and c in atoms:
        return atoms[c]
    if k == 'path' and e[1] in ('true', 'false'):
        return e[1], 'bool'
    if k == 'num':
        v = e[1]
        if want == 'nat' and '.' not in v and 'e' not in v:
            return f'({v} : Nat)', 'nat'
        if float(v) == 0.0:
            return 'S.zero', 'sc'
        if float(v) == 1.0:
            return 'S.one', 'sc'
        raise ParseError(f'scalar literal {v} has no name in the Scalar record')
    if k == 'paren':
        t, ty = emit_sc(e[1], atoms, want)
        return f'({t})', ty
    if k == 'not':
        t, ty = emit_sc(e[1], atoms, 'bool')
        return f'(!{t})', 'bool'
    if k == 'cast':
        t, ty = emit_sc(e[2], atoms, 'nat')
        if e[1] == 'f64' and ty == 'nat':
            return f'(S.ofNat {t})', 'sc'
        return t, ty
    if k == 'call':
        name, recv, args = e[1], e[2], e[3]
        t, ty = emit_sc(recv, atoms, 'sc')
        if name == 'powf' and len(args) == 1 and args[0][0] == 'num' and float(args[0][1]) == 2.0 and ty == 'sc':
            return f'(S.mul {t} {t})', 'sc'
        if name == 'abs' and not args and ty == 'sc':
            return f'(S.abs {t})', 'sc'
        if name == 'sqrt' and not args and ty == 'sc':
            return f'(S.sqrt {t})', 'sc'
        raise ParseError(f'unsupported method .{name}(..) in scalar mode')
    if k == 'bin':
        op = e[1]
        if op in ('&&', '||'):
            a, _ = emit_sc(e[2], atoms, 'bool')
            b, _ = emit_sc(e[3], atoms, 'bool')
            return f'({a} {op} {b})', 'bool'
        if op == '==' and e[3][0] == 'num' and float(e[3][1]) == 0.0:
            a, ta = emit_sc(e[2], atoms, 'sc')
            if ta == 'sc':
                return f'(S.isZero {a})', 'bool'
        a, ta = emit_sc(e[2], atoms, 'sc')
        b, tb = emit_sc(e[3], atoms, 'sc')
        if ta == tb == 'sc':
            f = {'+': 'add', '-': 'sub', '*': 'mul', '/': 'div'}.get(op)
            if f:
                return f'(S.{f} {a} {b})', 'sc'
            if op == '<':
                return f'(S.lt {a} {b})', 'bool'
            if op == '>':
                return f'(S.lt {b} {a})', 'bool'
        raise ParseError(f'unsupported `{op}` on {ta}/{tb} in scalar mode')
    raise ParseError(f'unknown atom `{c or e}` (scalar mode)')


LEAN_TY = {'rat': 'Rat', 'nat': 'Nat', 'bool': 'Bool', 'sc': 'α'}

# (property, name, file, regex with one group (re.S), occurrence index, params [(rust atom, lean name, type)], result type)
DJ = 'src/algorithms/shortest_path/dijkstra.rs'
EV = 'src/algorithms/centrality/eigenvector.rs'
WC = 'src/algorithms/components/weak_connectivity.rs'
SITES = [
    # ---- C05 / C06: the weighted search stage of betweenness.rs and of closeness.rs (sentinel f64::MAX) ----
    ('C05', 'stageDist', 'src/algorithms/centrality/betweenness.rs', r'let vw_dist = (.*?);', 1, [('dist', 'dist', 'rat'), ('cost', 'c', 'rat')], 'rat'),
    ('C05', 'stageImproves', 'src/algorithms/centrality/betweenness.rs', r'if (D\[w\] [^{;]*?) \{\s*(?://[^\n]*\n\s*)*seen\[w\] = vw_dist;', 0,
     [('D[w]', 'dw', 'rat'), ('seen[w]', 'sw', 'rat'), ('vw_dist', 'vw', 'rat'), ('f64::MAX', 'fmax', 'rat')], 'bool'),
    ('C05', 'stageTie', 'src/algorithms/centrality/betweenness.rs', r'\} else if (vw_dist [^{;]*?) \{', 0, [('vw_dist', 'vw', 'rat'), ('seen[w]', 'sw', 'rat')], 'bool'),
    ('C05', 'stageSigmaReset', 'src/algorithms/centrality/betweenness.rs', r'push_fringe_node\(&mut fringe, v, w, vw_dist\);\s*sigma\[w\] = (.*?);\s*P\[w\] = vec!\[v\];', 0, [], 'rat'),
    ('C05', 'stageSigmaTie', 'src/algorithms/centrality/betweenness.rs', r'sigma\[w\] \+= (.*?);\s*P\[w\]\.push\(v\);', 1, [('sigma[v]', 'sigmaV', 'rat')], 'rat'),
    ('C06', 'stageDist', 'src/algorithms/centrality/closeness.rs', r'let vw_dist = (.*?);', 0, [('dist', 'dist', 'rat'), ('cost', 'c', 'rat')], 'rat'),
    ('C06', 'stageImproves', 'src/algorithms/centrality/closeness.rs', r'if (D\[w\] [^{;]*?) \{\s*(?://[^\n]*\n\s*)*seen\[w\] = vw_dist;', 0,
     [('D[w]', 'dw', 'rat'), ('seen[w]', 'sw', 'rat'), ('vw_dist', 'vw', 'rat'), ('f64::MAX', 'fmax', 'rat')], 'bool'),
    ('C06', 'stageTie', 'src/algorithms/centrality/closeness.rs', r'\} else if (vw_dist [^{;]*?) \{', 0, [('vw_dist', 'vw', 'rat'), ('seen[w]', 'sw', 'rat')], 'bool'),
    # ---- C10: bfs_equal_size_partitions ----
    ('C10', 'partMaxSize', WC, r'let partition_max_size = (.*?);', 0, [('graph.number_of_nodes()', 'n', 'nat'), ('num_partitions', 'k', 'nat')], 'nat'),
    ('C10', 'partFullInner', WC, r'if (partitions\[partition\]\.len\(\) [=!<>]+ partition_max_size) \{', 0,
     [('partitions[partition].len()', 'len', 'nat'), ('partition_max_size', 'maxSize', 'nat')], 'bool'),
    ('C10', 'partFullOuter', WC, r'if (partitions\[partition\]\.len\(\) [=!<>]+ partition_max_size) \{', 1,
     [('partitions[partition].len()', 'len', 'nat'), ('partition_max_size', 'maxSize', 'nat')], 'bool'),
    # ---- C18: eigenvector_centrality (generic-scalar mode) ----
    ('C18', 'start', EV, r'\.map\(\|n\| \(n\.name\.clone\(\), (.*?)\)\)\s*\.collect\(\);', 0, [('nnodes', 'nnodes', 'nat')], 'sc'),
    ('C18', 'unitWeight', EV, r'let w = match (.*?) \{\s*true => 1\.0,\s*false => edge\.weight,', 0,
     [('weighted', 'weighted', 'bool'), ('edge.weight.is_nan()', 'isNan', 'bool')], 'bool'),
    ('C18', 'contribution', EV, r'\*x\.get_mut\(&nbr\.name\)\.unwrap\(\) \+= (.*?);', 0, [('xlast.get(n).unwrap()', 'xn', 'sc'), ('w', 'w', 'sc')], 'sc'),
    ('C18', 'square', EV, r'x\.values\(\)\.map\(\|v\| (.*?)\)\.sum\(\);', 0, [('v', 'v', 'sc')], 'sc'),
    ('C18', 'normRoot', EV, r'norm = (norm\.sqrt\(\));', 0, [('norm', 'norm', 'sc')], 'sc'),
    ('C18', 'normIsZero', EV, r'norm = match (.*?) \{\s*true => 1\.0,\s*false => norm,', 0, [('norm', 'norm', 'sc')], 'bool'),
    ('C18', 'change', EV, r'\.map\(\|\(k, v\)\| (.*?)\)\s*\.sum\(\);', 0, [('v', 'v', 'sc'), ('xlast.get(k).unwrap()', 'xk', 'sc')], 'sc'),
    ('C18', 'converged', EV, r'if (y < .*?) \{\s*return Ok\(x\);', 0, [('y', 'y', 'sc'), ('nnodes', 'nnodes', 'nat'), ('_tolerance', 'tol', 'sc')], 'bool'),
    # ---- C04 / C08: the relaxation step of dijkstra / dijkstra_basic, the choice between them, the fringe key ----
    ('C04', 'relaxDist', DJ, r'let vu_dist = (.*?);', 0, [('dist[v]', 'dv', 'rat'), ('cost', 'c', 'rat')], 'rat'),
    ('C04', 'relaxDistBasic', DJ, r'let vu_dist = (.*?);', 1, [('dist[v]', 'dv', 'rat'), ('cost', 'c', 'rat')], 'rat'),
    ('C04', 'hopCost', DJ, r'let cost = match weighted \{\s*true => adj\.weight,\s*false => (.*?),\s*\};', 0, [], 'rat'),
    ('C04', 'hopCostBasic', DJ, r'let cost = match weighted \{\s*true => adj\.weight,\s*false => (.*?),\s*\};', 1, [], 'rat'),
    ('C04', 'overCutoff', DJ, r'if cutoff\.map_or\(false, \|c\| (.*?)\) \{\s*continue;', 0, [('vu_dist', 'vu', 'rat'), ('c', 'c', 'rat')], 'bool'),
    ('C04', 'contradictory', DJ, r'let u_dist = dist\[u\];\s*if (.*?) \{\s*return Err', 0, [('vu_dist', 'vu', 'rat'), ('u_dist', 'du', 'rat')], 'bool'),
    ('C04', 'improves', DJ, r'if (vu_dist [^{;]*?) \{\s*seen\[u\] = vu_dist;', 0, [('vu_dist', 'vu', 'rat'), ('seen[u]', 'su', 'rat')], 'bool'),
    ('C04', 'improvesBasic', DJ, r'if (vu_dist [^{;]*?) \{\s*seen\[u\] = vu_dist;', 1, [('vu_dist', 'vu', 'rat'), ('seen[u]', 'su', 'rat')], 'bool'),
    ('C04', 'tie', DJ, r'\} else if (!first_only[^{;]*?) \{\s*push_fringe_node', 0,
     [('first_only', 'firstOnly', 'bool'), ('vu_dist', 'vu', 'rat'), ('seen[u]', 'su', 'rat')], 'bool'),
    ('C04', 'tieBasic', DJ, r'\} else if (vu_dist [^{;]*?) \{\s*push_fringe_node', 0, [('vu_dist', 'vu', 'rat'), ('seen[u]', 'su', 'rat')], 'bool'),
    ('C04', 'canUseBasic', DJ, r'fn can_use_basic<T>\(.*?\) -> bool \{\s*(.*?)\s*\}', 0,
     [('target.is_none()', 'targetNone', 'bool'), ('cutoff.is_none()', 'cutoffNone', 'bool'), ('first_only', 'firstOnly', 'bool'),
      ('with_paths', 'withPaths', 'bool')], 'bool'),
    ('C04', 'pushDistance', DJ, r'distance: (-vu_dist),', 0, [('vu_dist', 'vu', 'rat')], 'rat'),
    ('C04', 'popDistance', DJ, r'let d = (.*?);\s*let v = fringe_item\.node_index;', 0, [('fringe_item.distance', 'fd', 'rat')], 'rat'),
    ('C04', 'popDistanceBasic', DJ, r'let d = (.*?);\s*let v = fringe_item\.node_index;', 1, [('fringe_item.distance', 'fd', 'rat')], 'rat'),
    # ---- C05: accumulate_betweenness ----
    ('C05', 'accCoeff', 'src/algorithms/centrality/betweenness.rs', r'let coeff = (.*?);', 0, [('delta[w]', 'deltaW', 'rat'), ('result.sigma[w]', 'sigmaW', 'rat')], 'rat'),
    ('C05', 'accDelta', 'src/algorithms/centrality/betweenness.rs', r'delta\[\*v\] \+= (.*?);', 0, [('result.sigma[v]', 'sigmaV', 'rat'), ('coeff', 'coeff', 'rat')], 'rat'),
    ('C05', 'accSkipSource', 'src/algorithms/centrality/betweenness.rs', r'if (\*w [!=]= result\.source) \{\s*betweenness\[\*w\] \+= delta\[\*w\];', 0,
     [('w', 'w', 'nat'), ('result.source', 'source', 'nat')], 'bool'),
    # ---- C13 / C17: update_best_com ----
    ('C13', 'gainDirected', 'src/algorithms/community/louvain.rs', r'let gain = match directed \{\s*true => \{\s*(.*?)\s*\}\s*false =>', 0,
     [('m', 'm', 'rat'), ('resolution', 'res', 'rat'), ('wt', 'wt', 'rat'), ('deg_info.out_degree', 'outDeg', 'rat'), ('deg_info.in_degree', 'inDeg', 'rat'),
      ('deg_info.stot_in[nbr_com]', 'stotIn', 'rat'), ('deg_info.stot_out[nbr_com]', 'stotOut', 'rat')], 'rat'),
    ('C13', 'gainUndirected', 'src/algorithms/community/louvain.rs', r'let gain = match directed \{.*?false => (.*?),\s*\};', 0,
     [('m', 'm', 'rat'), ('resolution', 'res', 'rat'), ('wt', 'wt', 'rat'), ('deg_info.stot[nbr_com]', 'stot', 'rat'), ('deg_info.degree', 'degree', 'rat')], 'rat'),
    ('C13', 'gainAccepted', 'src/algorithms/community/louvain.rs', r'\};\s*if (gain [<>=!]+ \*best_mod) \{\s*\*best_mod = gain;\s*\*best_com = nbr_com;', 0,
     [('gain', 'gain', 'rat'), ('best_mod', 'bestMod', 'rat')], 'bool'),
    ('C13', 'bestModStart', 'src/algorithms/community/louvain.rs', r'let mut best_mod = (.*?);', 0, [], 'rat'),
    # ---- C12: modularity ----
    ('C12', 'contribution', 'src/algorithms/community/partitions.rs', r'false => out_degree_sum,\s*\};\s*(.*?)\s*\};\s*Ok\(communities', 0,
     [('subgraph_edges_weight', 'lc', 'rat'), ('m', 'm', 'rat'), ('resolution.unwrap_or(1.0)', 'res', 'rat'), ('out_degree_sum', 'o', 'rat'),
      ('in_degree_sum', 'i', 'rat'), ('norm', 'norm', 'rat')], 'rat'),
    ('C12', 'normDirected', 'src/algorithms/community/partitions.rs', r'let norm = (.*?);', 0, [('m', 'm', 'rat')], 'rat'),
    ('C12', 'mUndirected', 'src/algorithms/community/partitions.rs', r'let m = (deg_sum.*?);', 0, [('deg_sum', 'degSum', 'rat')], 'rat'),
    ('C12', 'normUndirected', 'src/algorithms/community/partitions.rs', r'let norm = (.*?);', 1, [('deg_sum', 'degSum', 'rat')], 'rat'),
    # ---- C06: get_node_centrality ----
    ('C06', 'ccGuard', 'src/algorithms/centrality/closeness.rs', r'let mut cc = 0\.0;\s*if (.*?) \{', 0,
     [('totsp', 'totsp', 'rat'), ('num_nodes', 'numNodes', 'nat')], 'bool'),
    ('C06', 'ccReached', 'src/algorithms/centrality/closeness.rs', r'let s = (\(shortest_paths.*?);', 0, [('shortest_paths.len()', 'len', 'nat')], 'rat'),
    ('C06', 'ccPlain', 'src/algorithms/centrality/closeness.rs', r'\n\s*cc = (.*?);', 0, [('s', 's', 'rat'), ('totsp', 'totsp', 'rat')], 'rat'),
    ('C06', 'ccWfFactor', 'src/algorithms/centrality/closeness.rs', r'if wf_improved \{\s*let s = (.*?);\s*cc \*= s;', 0,
     [('s', 's', 'rat'), ('num_nodes', 'numNodes', 'nat')], 'rat'),
    # ---- C05: get_scale ----
    ('C05', 'scaleTrivial', 'src/algorithms/centrality/betweenness.rs', r'true => match (.*?) \{\s*true => None,', 0, [('num_nodes', 'numNodes', 'nat')], 'bool'),
    ('C05', 'scaleNormalized', 'src/algorithms/centrality/betweenness.rs', r'true => None,\s*false => Some\((.*?)\),\s*\},', 0, [('num_nodes', 'numNodes', 'nat')], 'rat'),
    ('C05', 'scaleUndirected', 'src/algorithms/centrality/betweenness.rs', r'false => match directed \{\s*true => None,\s*false => Some\((.*?)\),', 0, [], 'rat'),
    # ---- C09: density, degree centrality ----
    ('C09', 'densityUndirected', 'src/graph/density.rs', r'match self\.specs\.directed \{\s*false => (.*?),\s*true =>', 0, [('m', 'm', 'rat'), ('n', 'n', 'rat')], 'rat'),
    ('C09', 'densityDirected', 'src/graph/density.rs', r'match self\.specs\.directed \{.*?true => (.*?),\s*\}', 0, [('m', 'm', 'rat'), ('n', 'n', 'rat')], 'rat'),
    ('C09', 'degreeCentralityTrivial', 'src/algorithms/centrality/degree.rs', r'let num_nodes = graph\.get_all_nodes\(\)\.len\(\);\s*if (.*?) \{', 0, [('num_nodes', 'numNodes', 'nat')], 'bool'),
    ('C09', 'degreeCentralityScale', 'src/algorithms/centrality/degree.rs', r'let s = (.*?);', 0, [('num_nodes', 'numNodes', 'nat')], 'rat'),
    ('C09', 'degreeCentralityValue', 'src/algorithms/centrality/degree.rs', r'n\.name\.clone\(\),\s*(graph\.get_node_degree\(n\.name\.clone\(\)\)\.unwrap\(\) as f64 \* s),', 0,
     [('graph.get_node_degree(n.name.clone()).unwrap()', 'degree', 'nat'), ('s', 's', 'rat')], 'rat'),
    # ---- C11: clustering quotients ----
    ('C11', 'clusteringUndirected', 'src/algorithms/cluster/mod.rs', r'(o\.number_of_triangles as f64 / .*?)\n', 0,
     [('o.number_of_triangles', 'tri', 'nat'), ('o.degree', 'degree', 'nat')], 'rat'),
    ('C11', 'clusteringDirected', 'src/algorithms/cluster/mod.rs', r'(o\.directed_triangles as f64\s*/ .*?\* 2\.0\))\n', 0,
     [('o.directed_triangles', 'tri', 'nat'), ('o.total_degree', 'total', 'nat'), ('o.reciprocal_degree', 'recip', 'nat')], 'rat'),
    ('C11', 'transitivityTerm', 'src/algorithms/cluster/mod.rs', r'\.map\(\|item\| (item\.degree \* .*?)\)\s*\.sum::<usize>\(\) as f64;', 0,
     [('item.degree', 'degree', 'nat')], 'nat'),
    ('C11', 'transitivityValue', 'src/algorithms/cluster/mod.rs', r'false => Ok\((triangles / contri)\),', 0, [('triangles', 'triangles', 'rat'), ('contri', 'contri', 'rat')], 'rat'),
    ('C11', 'trianglesValue', 'src/algorithms/cluster/mod.rs', r'\.map\(\|item\| \(item\.node_name, (item\.number_of_triangles / 2)\)\)', 0,
     [('item.number_of_triangles', 'ntri', 'nat')], 'nat'),
]


def strip_comments(src):
    src = re.sub(r'/\*.*?\*/', '', src, flags=re.S)
    return re.sub(r'//[^\n]*', '', src)


def translate_site(site):
    prop, name, f, pat, occ, params, rty = site
    src = strip_comments(open(os.path.join(REPO, f)).read())
    ms = list(re.finditer(pat, src, flags=re.S))
    if len(ms) <= occ:
        return None, f'{name}: anchor not found in {f} (occurrence {occ} of /{pat}/)'
    text = ' '.join(ms[occ].group(1).split())
    atoms = {a: (ln, ty) for a, ln, ty in params}
    scalar = rty == 'sc' or any(t == 'sc' for _, _, t in params)
    try:
        lean, ty = (emit_sc if scalar else emit)(parse(text), atoms, rty)
    except ParseError as ex:
        return None, f'{name}: cannot translate `{text}` from {f}: {ex}'
    if ty != rty:
        return None, f'{name}: `{text}` has type {ty}, expected {rty}'
    binders = ' '.join(f'({ln} : {LEAN_TY[t]})' for _, ln, t in params)
    if scalar:
        binders = '{α : Type} (S : Scalar α) ' + binders
    return (f'/-- {f}: `{text}` -/\ndef {name} {binders} : {LEAN_TY[rty]} := {lean}\n', text), None


def write_if_changed(path, content):
    old = open(path).read() if os.path.exists(path) else None
    if old != content:
        os.makedirs(os.path.dirname(path), exist_ok=True)
        open(path, 'w').write(content)
        return True
    return False


def formulas(prop):
    """regenerate Generated/Formulas<prop>.lean; returns {'name':..., 'problem':..., 'sites': {name: text}}"""
    sites = [s for s in SITES if s[0] == prop]
    if not sites:
        return {'name': 'formulas', 'problem': None, 'sites': {}}
    problems, defs, texts = [], [], {}
    for s in sites:
        r, p = translate_site(s)
        if p:
            problems.append(p)
            # keep the file well-formed so that the other theorems of the module still check; the missing one fails by name
        else:
            defs.append(r[0])
            texts[s[1]] = r[1]
    lean = (f'/- GENERATED by tools/formulas.py from /repo\'s current source on every {prop} run; do not edit. -/\n'
            + ('import GraphrsModel.Model.Centrality\n' if prop == 'C18' else '') +
            f'namespace Graphrs\nnamespace Src\nnamespace {prop}\n\n' + '\n'.join(defs) + f'\nend {prop}\nend Src\nend Graphrs\n')
    changed = write_if_changed(os.path.join(GEN, f'Formulas{prop}.lean'), lean)
    return {'name': 'formulas', 'problem': '; '.join(problems) if problems else None, 'sites': texts, 'changed': changed}


# ---------------------------------------------------------------------------------------------------------------------------
# GraphSpecs presets: the six constructors of src/graph_specs.rs and the spec literals the generators build their graphs with

FIELD = {'directed': 'directed', 'multi_edges': 'multi', 'self_loops': 'selfLoops', 'edge_dedupe_strategy': 'dedupe',
         'missing_node_strategy': 'missing', 'self_loops_false_strategy': 'slFalse'}
VALUE = {'true': 'true', 'false': 'false', 'EdgeDedupeStrategy::Error': '.error', 'EdgeDedupeStrategy::KeepFirst': '.keepFirst',
         'EdgeDedupeStrategy::KeepLast': '.keepLast', 'MissingNodeStrategy::Create': '.create', 'MissingNodeStrategy::Error': '.error',
         'SelfLoopsFalseStrategy::Error': '.error', 'SelfLoopsFalseStrategy::Drop': '.drop'}


def parse_spec_literal(text, presets):
    """`GraphSpecs { f: v, .. , ..BASE }` | `GraphSpecs::preset()` | `DEFAULT_GRAPH_SPECS` -> dict of Lean field values"""
    text = ' '.join(text.split())
    m = re.fullmatch(r'GraphSpecs::(\w+)\(\)', text)
    if m:
        return dict(presets[m.group(1)])
    if text == 'DEFAULT_GRAPH_SPECS':
        return dict(presets['DEFAULT'])
    m = re.fullmatch(r'GraphSpecs \{(.*)\}', text)
    if not m:
        raise ParseError('not a GraphSpecs expression: ' + text[:60])
    rec = {}
    for part in [p.strip() for p in m.group(1).split(',') if p.strip()]:
        if part.startswith('..'):
            base = parse_spec_literal(part[2:].strip(), presets)
            for k, v in base.items():
                rec.setdefault(k, v)
        else:
            k, v = [x.strip() for x in part.split(':', 1)]
            if k not in FIELD or v not in VALUE:
                raise ParseError(f'unknown field or value `{part}`')
            rec[FIELD[k]] = VALUE[v]
    if set(rec) != set(FIELD.values()):
        raise ParseError('incomplete GraphSpecs literal: ' + text[:80])
    return rec


def presets(ctx=None):
    """regenerate Generated/Presets.lean"""
    problems, out = [], {}
    try:
        src = strip_comments(open(os.path.join(REPO, 'src/graph_specs.rs')).read())
        m = re.search(r'const DEFAULT_GRAPH_SPECS: GraphSpecs = (GraphSpecs \{.*?\});', src, flags=re.S)
        table = {'DEFAULT': parse_spec_literal(m.group(1), {})}
        for name in ['directed', 'directed_create_missing', 'undirected', 'undirected_create_missing', 'multi_directed', 'multi_undirected']:
            m = re.search(r'pub fn %s\(\) -> GraphSpecs \{\s*(.*?)\s*\}\s*(?:pub fn|\}\s*$|/\*\*|\})' % name, src, flags=re.S)
            body = m.group(1).strip()
            if body.startswith('GraphSpecs {') and not body.endswith('}'):
                body += '}'
            table[name] = parse_spec_literal(body, table)
            out[name] = table[name]
        gsrc = {f: strip_comments(open(os.path.join(REPO, 'src/generators', f)).read()) for f in ('classic.rs', 'random.rs', 'social.rs')}
        m = re.search(r'let specs = match directed \{\s*false => (GraphSpecs \{.*?\}),\s*true => (GraphSpecs \{.*?\}),\s*\};', gsrc['classic.rs'], flags=re.S)
        out['completeUndirected'] = parse_spec_literal(m.group(1), table)
        out['completeDirected'] = parse_spec_literal(m.group(2), table)
        m = re.search(r'fn fast_gnp_random_graph_directed.*?Graph::new\((GraphSpecs::\w+\(\))\)', gsrc['random.rs'], flags=re.S)
        out['gnpDirected'] = parse_spec_literal(m.group(1), table)
        m = re.search(r'fn fast_gnp_random_graph_undirected.*?Graph::new\((GraphSpecs::\w+\(\))\)', gsrc['random.rs'], flags=re.S)
        out['gnpUndirected'] = parse_spec_literal(m.group(1), table)
        m = re.search(r'Graph::new_from_nodes_and_edges\(\s*nodes,\s*edges,\s*(GraphSpecs \{.*?\}),\s*\)', gsrc['social.rs'], flags=re.S)
        out['karate'] = parse_spec_literal(m.group(1), table)
    except (ParseError, AttributeError, KeyError) as ex:
        problems.append(f'presets: cannot read the GraphSpecs constructors / generator specs: {ex!r}')
    defs = []
    for name, rec in out.items():
        body = ', '.join(f'{k} := {rec[k]}' for k in ['directed', 'multi', 'selfLoops', 'dedupe', 'missing', 'slFalse'])
        defs.append(f'def {name} : Specs := {{ {body} }}')
    lean = ('/- GENERATED by tools/formulas.py (presets) from /repo/src/graph_specs.rs and /repo/src/generators/*.rs on every run; do not edit. -/\n'
            'import GraphrsModel.Model.Store\nnamespace Graphrs\nnamespace Src\nnamespace Presets\n\n' + '\n'.join(defs) + '\n\nend Presets\nend Src\nend Graphrs\n')
    changed = write_if_changed(os.path.join(GEN, 'Presets.lean'), lean)
    return {'name': 'presets', 'problem': '; '.join(problems) or None, 'presets': {k: v for k, v in out.items()}, 'changed': changed}


if __name__ == '__main__':
    import sys, json
    for p in (sys.argv[1:] or sorted({s[0] for s in SITES})):
        print(p, json.dumps(formulas(p), indent=1))
    if not sys.argv[1:]:
        print('presets', json.dumps(presets(), indent=1))
