#!/usr/bin/env python3
"""Run the repository's own test-suite with the verification guard OFF and compare with
/root/.vp/BASELINE.json (207 stable tests).  Exit 0 iff every stable test passes."""
import json, re, subprocess, sys, os
base = json.load(open('/root/.vp/BASELINE.json'))
stable = set(base['stable_pass'])
env = dict(os.environ, CARGO_NET_OFFLINE='true')
p = subprocess.run(['cargo', 'test', '--workspace', '--no-fail-fast', '--offline'],
                   cwd='/repo', env=env, stdout=subprocess.PIPE, stderr=subprocess.STDOUT, text=True)
passed = set(); failed = set(); cur = None
for line in p.stdout.splitlines():
    m = re.search(r'Running (?:unittests )?(\S+)', line)
    if m:
        f = m.group(1)
        cur = 'graphrs' if f.startswith('src/') else 'graphrs::' + os.path.basename(f).replace('.rs', '')
        continue
    if 'Doc-tests' in line:
        cur = None
    m = re.match(r'test (\S+) \.\.\. (\w+)', line)
    if m and cur:
        name = cur + '::' + m.group(1)
        (passed if m.group(2) == 'ok' else failed).add(name)
missing = sorted(stable - passed)
print(f'stable={len(stable)} passed_of_stable={len(stable & passed)} other_failed={sorted(failed - stable)}')
if missing:
    print('MISSING/FAILED stable tests:'); [print('  ', m) for m in missing]
    sys.exit(1)
print('BASELINE OK')
