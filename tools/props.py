"""Per-property configuration of tools/check.py.

gens: (family, profile, count_quick, count_thorough, size)
spec_fields / model_fields: regexes over field names; the implementation's value of a spec
field is compared with the Lean *specification*'s (`s.`) value - a mismatch is a concrete
failing input; a model field is compared with the Lean *model*'s (`m.`) value - a mismatch
breaks the correspondence only.
"""
import os, re, subprocess, sys, json

ERR = {1: 'ContradictoryPaths', 2: 'DuplicateEdge', 3: 'InvalidArgument', 4: 'NodeNotFound', 5: 'NoPartitions',
       6: 'NotAPartition', 7: 'EdgeNotFound', 8: 'EdgeWeightNotSpecified', 9: 'PowerIterationFailedConvergence',
       10: 'ReadError', 11: 'SelfLoopsFound', 12: 'WrongMethod'}

OPNAMES = {1: 'add_node', 2: 'add_nodes', 3: 'add_edge', 4: 'add_edge_tuple', 5: 'add_edges', 6: 'add_edge_tuples',
           7: 'new_from_nodes_and_edges'}


def store_hist(req, I):
    t = req.split()
    keys = []
    if t[0] != 'store':
        return keys
    d, m, s, dd, mn, sl = t[1:7]
    keys.append(f'kind.dir{d}.multi{m}.loops{s}')
    keys.append(f'policy.dedupe{dd}.missing{mn}.slfalse{sl}')
    for r in I.get('res', '').split():
        if r.isdigit():
            keys.append('result.' + ('ok' if r == '0' else ERR.get(int(r), r)))
    ne = 0 if I.get('edges', '.') == '.' else len(I['edges'].split(';'))
    keys.append('edges.%s' % (ne if ne < 6 else '6+'))
    keys.append('nodes.%d' % len(I.get('nodes', '').split()))
    return keys


def store_nontrivial(req, I):
    return I.get('edges', '.') != '.'


STORE_MODEL_ALL = [r'agree\.wf', r'res', r'nodes', r'edges', r'node', r'idx', r'byidx', r'hasnodes', r'ge', r'ges', r'efn', r'efns',
                   r'ien', r'iens', r'oen', r'oens', r'nb', r'sn', r'pn', r'son', r'smap', r'pmap', r'bfs', r'ehw',
                   r'travs', r'travp', r'cnt', r'deg', r'indeg', r'outdeg', r'wdeg', r'windeg', r'woutdeg', r'degall',
                   r'indegall', r'outdegall', r'wdegall', r'windegall', r'woutdegall', r'dens:q', r'dc:q', r'mat',
                   r'sub\d+', r'subdup\d+', r'rev', r'setw', r'single', r'snap\..*', r'poison']

STORE_RULE = ('histories of 1..size calls over add_node/add_nodes/add_edge/add_edge_tuple/add_edges/add_edge_tuples/'
              'new_from_nodes_and_edges drawn from one splitmix64 stream per case (VERIF_SEED), uniformly over the 96 '
              'GraphSpecs combinations, 2-5 names out of 1..9 in shuffled order (sort order != insertion order), '
              '~35-55% repeated pairs (either orientation), 15-30% self-loops, an absent name, NaN/integer weights, '
              'attribute tags; profile "big": 10-16 names out of 1..30, two or three hubs touched by most edges (adjacency lists longer than 8), '
              'histories of 20-60 calls, the universe of per-pair queries = the hubs, one other node and an absent name; '
              'a case is non-trivial when at least one edge is stored at the end; distinct = distinct request lines')

COMMON_ASSUME = ['the Lean model is hand-written; it is tied to the Rust source only by the correspondence run (sampled)',
                 'node names are u32 in the harness; the code is generic in T (parametricity of safe Rust)',
                 'IEEE-754 rounding is not modelled: weights are integer-valued (or NaN) so every f64 operation is exact']

PROPS = {
    'C01': dict(
        extra_modules=['GraphrsModel.Props.Core'],
        gens=[('store', 'general', 4000, 60000, 14), ('store', 'big', 300, 5000, 0), ('store', 'huge', 25, 400, 0)],
        spec_fields=[r'res', r'nodes', r'edges'],
        model_fields=[r'res', r'nodes', r'edges', r'snap\..*', r'poison', r'agree\.wf'],
        nontrivial=store_nontrivial, hist=store_hist, rule=STORE_RULE, assumptions=COMMON_ASSUME,
    ),
    'C02': dict(
        extra_modules=['GraphrsModel.Props.Core'],
        gens=[('store', 'general', 3000, 40000, 12), ('store', 'big', 150, 3000, 0), ('store', 'huge', 20, 300, 0)],
        spec_fields=[r'nodes', r'edges', r'node', r'idx', r'byidx', r'hasnodes', r'ge', r'ges', r'efn', r'efns', r'ien',
                     r'iens', r'oen', r'oens', r'nb', r'sn', r'pn', r'son', r'smap', r'pmap', r'bfs', r'ehw'],
        model_fields=STORE_MODEL_ALL,
        nontrivial=store_nontrivial, hist=store_hist, rule=STORE_RULE, assumptions=COMMON_ASSUME,
    ),
    'C03': dict(
        extra_modules=['GraphrsModel.Props.Core', 'GraphrsModel.Props.C03Rows'],
        gens=[('store', 'weights', 4000, 60000, 12), ('store', 'big', 150, 3000, 0), ('store', 'huge', 20, 300, 0)],
        spec_fields=[r'travs', r'travp', r'edges'],
        model_fields=[r'travs', r'travp', r'edges', r'snap\.successors_vec', r'snap\.predecessors_vec', r'poison', r'agree\.wf'],
        nontrivial=store_nontrivial, hist=store_hist, rule=STORE_RULE + '; profile "weights": 55% repeated pairs, '
        'uniformly weighted (70%) or uniformly unweighted histories', assumptions=COMMON_ASSUME,
    ),
    'C09': dict(
        extra_modules=['GraphrsModel.Props.C09Model', 'GraphrsModel.Props.C12Weighted', 'GraphrsModel.Props.C09Rest', 'GraphrsModel.Props.FormulasC09'],
        translators=['formulas'],
        gens=[('store', 'degrees', 3000, 40000, 12), ('store', 'big', 150, 3000, 0), ('store', 'huge', 20, 300, 0)],
        spec_fields=[r'cnt', r'deg', r'indeg', r'outdeg', r'wdeg', r'windeg', r'woutdeg', r'degall', r'indegall',
                     r'outdegall', r'wdegall', r'windegall', r'woutdegall', r'dens:q', r'dc:q', r'mat'],
        model_fields=[r'cnt', r'deg', r'indeg', r'outdeg', r'wdeg', r'windeg', r'woutdeg', r'degall', r'indegall',
                      r'outdegall', r'wdegall', r'windegall', r'woutdegall', r'dens:q', r'dc:q', r'mat', r'edges', r'nodes'],
        nontrivial=store_nontrivial, hist=store_hist, rule=STORE_RULE + '; profile "degrees": 30% self-loops, 40% repeated pairs',
        assumptions=COMMON_ASSUME + ['the adjacency matrix is compared on the stored entries of the CsMat sprs builds '
                                     '(triplets -> CSR conversion is library code)'],
    ),
    'C15': dict(
        extra_modules=['GraphrsModel.Props.Core'],
        gens=[('store', 'general', 3000, 40000, 12), ('store', 'big', 150, 3000, 0), ('store', 'huge', 20, 300, 0)],
        spec_fields=[r'sub\d+', r'subdup\d+', r'rev', r'setw', r'single'],
        model_fields=[r'sub\d+', r'subdup\d+', r'rev', r'setw', r'single', r'edges', r'nodes', r'agree\.wfderived'],
        impl_checks=[('srcsame', '1')],
        nontrivial=store_nontrivial, hist=store_hist, rule=STORE_RULE + '; derived graphs: get_subgraph for every subset '
        'of a 4-name universe (one absent), reverse, set_all_edge_weights(w), to_single_edges; each compared on nodes, '
        'edges and both traversal lists', assumptions=COMMON_ASSUME,
    ),
}


def graph_hist(req, I):
    t = req.split()
    d, m, s = t[1:4]
    n = int(t[7])
    ne = int(t[8 + n])
    keys = [f'kind.dir{d}.multi{m}.loops{s}', 'n.%s' % (n if n < 10 else '10+'), 'm.%s' % (ne if ne < 12 else '12+')]
    return keys


def sp_hist(req, I):
    t = req.split()
    keys = graph_hist(req, I)
    w, tg, c, fo, wp = t[-6:-1]
    keys.append(f'opts.weighted{w}.target{int(tg != "-1")}.cutoff{int(c != "-999999")}.first{fo}.paths{wp}')
    for f in ('ss', 'ms', 'ap'):
        v = I.get(f, '')
        if v.startswith('E'):
            keys.append(f'{f}.{v}')
    return keys


def sp_nontrivial(req, I):
    # some source reaches another node
    return bool(re.search(r'\d+>\d+:\d+:[^ ;]*;', I.get('ss', '')))


SP_RULE = ('random graphs of all 8 kinds (directed x multi-edge x self-loops) with 1..size nodes (names shuffled), four density '
           'shapes incl. two components, integer weights 0..4 / 1..4 / unweighted, parallel edges with different weights; '
           'target in {None, a node, an absent name}, cutoff in halves 0..6 (parallel profile: 21-40 nodes, a third of them long weighted chains with chords, cutoff up to 3n), first_only, with_paths; every node as source through '
           'single_source, multi_source and all_pairs; non-trivial = some source reaches another node')

PROPS.update({
    'C04': dict(
        extra_modules=['GraphrsModel.Props.C04Model', 'GraphrsModel.Props.C08Api', 'GraphrsModel.Props.C04Paths', 'GraphrsModel.Props.C04PathsReach', 'GraphrsModel.Props.FormulasC04'],
        translators=['formulas'],
        gens=[('sp', 'small', 2500, 40000, 8), ('sp', 'parallel', 60, 600, 40)],
        spec_fields=[r'ok\.ss', r'ok\.ms', r'ok\.ap'],
        model_fields=[r'build', r'ss', r'ms', r'ap'],
        impl_checks=[('f64cert', '1')],
        nontrivial=sp_nontrivial, hist=sp_hist, rule=SP_RULE, assumptions=COMMON_ASSUME,
    ),
    'C08': dict(
        extra_modules=['GraphrsModel.Props.C04Model', 'GraphrsModel.Props.C08Api', 'GraphrsModel.Props.C04Paths', 'GraphrsModel.Props.C04PathsReach', 'GraphrsModel.Props.FormulasC04'],
        translators=['formulas'],
        gens=[('sp', 'small', 2500, 40000, 7), ('sp', 'parallel', 80, 800, 30)],
        spec_fields=[r'ok\.ss', r'ok\.ms', r'ok\.ap', r'ok\.inv'],
        model_fields=[r'build', r'ss', r'ms', r'ap', r'inv'],
        impl_checks=[('f64cert', '1')],
        nontrivial=sp_nontrivial, hist=sp_hist, rule=SP_RULE, assumptions=COMMON_ASSUME,
    ),
})


def cen_nontrivial(req, I):
    return bool(re.search(r'>(?!0\.0( |$))[0-9.e-]+', I.get('bc0:q', ''))) or bool(re.search(r'>(?!0\.0( |$))[0-9.e-]+', I.get('cc0:q', '')))


def cen_hist(req, I):
    t = req.split()
    return graph_hist(req, I) + [f'weighted{t[-2]}']


CEN_RULE = ('random graphs of all 8 kinds, 1..size nodes (plus a few with 21-36 nodes that take the parallel path), positive integer '
            'weights 1..4 when weighted - handed to the implementation divided by 1, 2 or 4, so that it also sees non-integer weights (betweenness is scale-invariant, closeness scales) - several density shapes incl. disconnected graphs, parallel edges, self-loops; raw+normalized / '
            'plain+Wasserman-Faust; the definition-level specification (path enumeration) is evaluated for graphs of at most 8 nodes; '
            'non-trivial = some node has a non-zero value')

PROPS.update({
    'C05': dict(
        extra_modules=['GraphrsModel.Props.C05Full', 'GraphrsModel.Props.FormulasC05'],
        translators=['formulas'],
        gens=[('cen', 'small', 1500, 25000, 8), ('cen', 'parallel', 20, 200, 36), ('cen', 'diamond', 12, 150, 0)],
        spec_fields=[r'bc0:q', r'bc1:q'], model_fields=[r'build', r'bc0:q', r'bc1:q'],
        nontrivial=cen_nontrivial, hist=cen_hist, rule=CEN_RULE,
        assumptions=COMMON_ASSUME + ['f64 rounding of the accumulation is not modelled: values are compared with relative tolerance 1e-9'],
    ),
    'C06': dict(
        extra_modules=['GraphrsModel.Props.C06Model', 'GraphrsModel.Props.C03Rows', 'GraphrsModel.Props.FormulasC06'],
        translators=['formulas'],
        gens=[('cen', 'small', 1500, 25000, 8), ('cen', 'parallel', 20, 200, 36)],
        spec_fields=[r'cc0:q', r'cc1:q'], model_fields=[r'build', r'cc0:q', r'cc1:q'],
        nontrivial=cen_nontrivial, hist=cen_hist, rule=CEN_RULE,
        assumptions=COMMON_ASSUME + ['f64 rounding of the quotient is not modelled: values are compared with relative tolerance 1e-9'],
    ),
    'C18': dict(
        extra_modules=['GraphrsModel.Props.C18Model', 'GraphrsModel.Props.FormulasC18'],
        translators=['formulas'],
        gens=[('eig', 'small', 1500, 25000, 7), ('eig', 'small', 100, 2000, 16), ('eig', 'small', 60, 1000, 32)],
        spec_fields=[r'ok\.eig'], model_fields=[r'build', r'agree\.eig'],
        nontrivial=lambda req, I: I.get('eig:b', '').count('>') >= 2,
        hist=lambda req, I: graph_hist(req, I) + ['result.' + ('ok' if '>' in I.get('eig:b', '') or I.get('eig:b') == '.' else I.get('eig:b', '?')),
                                                   'maxiter.' + req.split()[-2], 'tol.1e-' + req.split()[-1]],
        rule='random single-edge (10% multi-edge) graphs of 1..7 nodes, non-negative integer weights 0..4 / unweighted / mixed, '
             'max_iter in {1,2,3,5,10,30,100,300}, tolerance 1e-2..1e-12; non-trivial = result has at least two entries',
        assumptions=COMMON_ASSUME[:2] + ['the model is executed over Lean Float (IEEE doubles, same operations, different summation order): '
                                         'values are compared within 1e-7 and not at all when the stopping test is within rounding of its threshold',
                                         'the checker evaluates the C18 clauses in Float with slack 1e-9'],
    ),
})


PROPS.update({
    'C10': dict(
        extra_modules=['GraphrsModel.Props.C10Model', 'GraphrsModel.Props.C10EqualSize', 'GraphrsModel.Props.FormulasC10'],
        translators=['formulas'],
        gens=[('comp', 'small', 2500, 40000, 10), ('comp', 'small', 150, 3000, 24), ('comp', 'small', 10, 150, 40)],
        spec_fields=[r'ok\.cc', r'ok\.wcc', r'ok\.scc', r'ok\.ncc', r'ok\.num', r'ok\.bfs', r'ok\.eq'],
        model_fields=[r'build', r'cc', r'wcc', r'scc', r'ncc', r'num', r'eq', r'agree\.bfsorder'],
        impl_checks=[('bfssame', '1')],
        nontrivial=lambda req, I: any(',' in I.get(f, '') for f in ('cc', 'wcc', 'scc')),
        hist=lambda req, I: graph_hist(req, I) + ['k.' + req.split()[-1]] + ['ncomp.%d' % (len(I.get(f, '').split())) for f in ('cc', 'wcc') if not I.get(f, 'E').startswith('E')],
        rule='random graphs of all 8 kinds with 0..10 nodes at densities 4-20% (many small components, isolated nodes, cycles, nested SCCs), '
             'one start node x (10% absent), k in 1..n+2; all seven functions of the components module plus breadth_first_search from every node; '
             'non-trivial = some component has at least two nodes',
        assumptions=COMMON_ASSUME[:2] + ['hash-set iteration orders are list orders in the model; answers are compared as sets of sets '
                                         '(bfs_equal_size_partitions, which is deterministic, exactly)'],
    ),
})


PROPS.update({
    'C11': dict(
        extra_modules=['GraphrsModel.Props.C11Model', 'GraphrsModel.Props.C11Weighted', 'GraphrsModel.Props.C11GenDeg', 'GraphrsModel.Props.FormulasC11'],
        translators=['formulas'],
        gens=[('clu', 'small', 2500, 40000, 7), ('clu', 'small', 100, 2000, 16), ('clu', 'small', 8, 120, 30)],
        spec_fields=[r'tri', r'triS', r'gd', r'gdS', r'trans:q', r'clu:q', r'cluS:q', r'wclu:b', r'wcluS:b', r'avg1:b', r'avg0:b',
                     r'avgS:b', r'sq:q', r'sqS:q', r'ok\.unit'],
        model_fields=[r'build', r'tri', r'triS', r'gd', r'gdS', r'trans:q', r'clu:q', r'cluS:q', r'wclu:b', r'wcluS:b', r'avg1:b',
                      r'avg0:b', r'avgS:b', r'sq:q', r'sqS:q'],
        nontrivial=lambda req, I: bool(re.search(r'>(?!0\.0( |$))[0-9.e-]+', I.get('clu:q', ''))),
        hist=lambda req, I: graph_hist(req, I) + ['clu.' + ('E' if I.get('clu:q', '').startswith('E') else 'ok'),
                                                   'triS.' + ('E' + I['triS'][1:] if I.get('triS', '').startswith('E') else 'ok')],
        rule='random graphs (88% single-edge) of 1..7 nodes at densities 15-60% with self-loops, positive integer weights / unweighted / '
             'mixed, a random non-empty subset of the nodes as node_names (7% with an absent name); every function of the cluster module '
             'for the full node set and for the subset; non-trivial = some node has a non-zero clustering coefficient',
        assumptions=COMMON_ASSUME[:2] + ['weighted coefficients are evaluated over Float (cbrt) on both sides of the comparison and compared '
                                         'with relative tolerance 1e-9; cbrt/division rounding is not modelled'],
    ),
})


LOUV_RULE = ('random graphs of all 8 kinds with 2..size nodes and at least one edge (positive integer weights or unweighted, parallel '
             'edges, self-loops, several components) and - profile "ties" - paths, cycles and circulant graphs whose candidate communities '
             'tie exactly, profile "strand": dense DAG-like directed graphs of 3-6 nodes with resolutions 1.1..2 (nodes left behind in a community they have no edge into); resolutions 1/2..2, seeds 0..999; every call runs under a watchdog (8 s); non-trivial = more than one node '
             'ends up in one community')

PROPS.update({
    'C12': dict(
        extra_modules=['GraphrsModel.Props.C09Model', 'GraphrsModel.Props.C12Weighted', 'GraphrsModel.Props.FormulasC12'],
        translators=['formulas'],
        gens=[('mod', 'small', 3000, 50000, 7), ('mod', 'small', 150, 3000, 18), ('mod', 'small', 20, 300, 50)],
        spec_fields=[r'isp', r'mod:q'], model_fields=[r'build', r'isp', r'mod:q'], impl_checks=[('defaultres', '1')],
        nontrivial=lambda req, I: I.get('isp') == '1' and I.get('mod:q') not in ('nan', None),
        hist=lambda req, I: graph_hist(req, I) + ['isp.' + I.get('isp', '?'), 'mod.' + ('E6' if I.get('mod:q') == 'E6' else 'value')],
        rule='random graphs of all 8 kinds (1..7 nodes, parallel edges, self-loops), 1-4 communities from a random assignment, 40% perturbed '
             'into non-partitions (overlap, omission, overlap+omission cancelling in the count, foreign node, foreign node replacing a real '
             'one, empty sets), resolutions 1/4..2; non-trivial = a true partition with a defined modularity',
        assumptions=COMMON_ASSUME,
    ),
    'C13': dict(
        extra_modules=['GraphrsModel.Props.C13Model', 'GraphrsModel.Props.C13Termination', 'GraphrsModel.Props.C13TerminationFull', 'GraphrsModel.Props.C13Monotone', 'GraphrsModel.Props.C13Communities', 'GraphrsModel.Props.FormulasC13'],
        translators=['formulas'],
        gens=[('louv', 'random', 1500, 25000, 9), ('louv', 'ties', 500, 8000, 10), ('louv', 'strand', 1500, 25000, 6), ('louv', 'random', 100, 2000, 20), ('louv', 'random', 8, 120, 45), ('louv', 'hub', 6, 80, 0)],
        spec_fields=[r'ok\.levels', r'ok\.nested', r'ok\.monotone', r'ok\.last'], model_fields=[r'build', r'parts'],
        nontrivial=lambda req, I: ',' in I.get('parts', ''),
        hist=lambda req, I: graph_hist(req, I) + ['levels.%d' % len(I.get('parts', '').split())],
        rule=LOUV_RULE, assumptions=COMMON_ASSUME[:2] + [
            'modularity of the returned levels is recomputed exactly (rationals) on the input graph by the Lean specification; '
            'a decrease of more than 1e-9 is a violation (f64 rounding inside Louvain is not modelled)',
            'termination is observed through a watchdog: 8 s per call'],
    ),
    'C17': dict(
        extra_modules=['GraphrsModel.Props.C17Model', 'GraphrsModel.Props.FormulasC13'],
        translators=['formulas'],
        thorough_scale=2,
        gens=[('louv', 'ties', 1200, 20000, 12), ('louv', 'random', 600, 10000, 9), ('louv', 'nearties', 300, 5000, 0), ('louv', 'inexact', 600, 10000, 10), ('par', 'some', 12, 60, 0),
              ('gnp', 'small', 300, 5000, 40), ('gnp', 'large', 20, 200, 300), ('gnp', 'huge', 8, 80, 0),
              ('comp', 'small', 400, 6000, 12), ('par', 'big', 1, 8, 0)],
        spec_fields=[], model_fields=[r'build'], impl_checks=[('same', '1'), ('par', '1'), ('bfssame', '1')],
        extra_checks=['fresh_process_identical'],
        nontrivial=lambda req, I: True if req.startswith(('par', 'comp')) else (I.get('edges', '.') not in ('.', 'E3') or I.get('m', '0') != '0') if req.startswith('gnp') else ',' in I.get('parts', ''),
        hist=lambda req, I: ['family.' + req.split()[0]] if req.startswith(('par', 'comp')) else gen_hist(req, I) if req.startswith('gnp') else graph_hist(req, I) + ['levels.%d' % len(I.get('parts', '').split())],
        rule=LOUV_RULE + '; profile "nearties": a hub joined to 3-5 identical cliques by edges whose weights differ in the tenth significant digit, or are all of the order 1e-9 (gains neither equal nor clearly apart); profile "inexact": random and tie-rich graphs with decimal weights k/3, k/7, k/10, k/100, k·1e-10 (sums not exact in f64); each case is run twice in one process, in rayon pools of 1 and 4 threads, and again in a second process; fast_gnp_random_graph with a seed: 0..300 nodes called twice and in pools of 1 and 4 workers, 600..2640 nodes (far above any size threshold) called twice and in pools of 1, 2, 4 and 16 workers',
        assumptions=COMMON_ASSUME[:2] + ['the std hasher (RandomState) is library code: its per-instance keying is exercised by repeated calls '
                                         'and fresh processes, not modelled'],
    ),
})


def gnpstat_check(req, I):
    """C16: over many seeds the mean number of edges is p x pairs to within a relative 1/(n-1) plus sampling noise (4.5 sigma);
    for small n every possible pair occurs."""
    t = req.split()
    if t[0] != 'gnpstat' or 'sum' not in I:
        return []
    import math
    n, pnum, pden, directed = int(t[1]), int(t[2]), int(t[3]), t[4] == '1'
    p = pnum / pden
    pairs = n * (n - 1) if directed else n * (n - 1) // 2
    count = int(I['count'])
    out = []
    if I.get('errs') != '0':
        out.append({'field': 'gnpstat.errs', 'impl': I.get('errs'), 'spec': '0 errors for 0 < p < 1'})
    mean = int(I['sum']) / count
    expect = p * pairs
    # total number of edges over all draws: a sum of independent indicator variables with mean between count*expect and
    # count*expect*(1 + 1/(n-1)); for small means the normal approximation is useless (one edge in 300 draws of a graph with
    # expectation 1e-4 is a 3% event, not a 4.5 sigma one), so the tails are taken from the Poisson distribution, which
    # dominates the sum of indicators; an alarm needs a tail probability below 1e-9
    k = int(I['sum'])
    lam_lo = count * expect
    lam_hi = lam_lo * (1 + 1 / max(n - 1, 1))
    def pois_upper(lam, k):        # P(X >= k)
        if k <= 0:
            return 1.0
        if lam > 700:
            z = (k - lam) / math.sqrt(lam)
            return 0.5 * math.erfc(z / math.sqrt(2))
        term, cdf = math.exp(-lam), 0.0
        for i in range(k):
            cdf += term
            term *= lam / (i + 1)
        return max(0.0, 1.0 - cdf)
    def pois_lower(lam, k):        # P(X <= k)
        if lam > 700:
            z = (k - lam) / math.sqrt(lam)
            return 0.5 * math.erfc(-z / math.sqrt(2))
        term, cdf = math.exp(-lam), 0.0
        for i in range(k + 1):
            cdf += term
            term *= lam / (i + 1)
        return min(1.0, cdf)
    if pois_upper(lam_hi, k) < 1e-9 or pois_lower(lam_lo, k) < 1e-9:
        out.append({'field': 'gnpstat.mean', 'impl': f'{k} edges in {count} draws (mean {mean:.4f})',
                    'spec': f'mean between {expect:.4f} and {expect * (1 + 1 / max(n - 1, 1)):.4f}: Poisson tail probability below 1e-9'})
    # a pair that can occur (probability >= p per draw) is missing from `count` independent draws with probability <= (1-p)^count
    if n <= 40 and 0 < p < 1 and pairs * (1 - p) ** count < 1e-9 and int(I['union']) != pairs:
        out.append({'field': 'gnpstat.union', 'impl': f'{I["union"]} distinct pairs seen', 'spec': f'all {pairs} pairs can occur'})
    return out


def gen_hist(req, I):
    t = req.split()
    keys = ['family.' + t[0]]
    if t[0] == 'gnpdet':
        keys.append('gnpdet.n.%s' % ('600-1000' if int(t[1]) <= 1000 else '1001+'))
        keys.append('gnpdet.dir' + t[4])
    if t[0] == 'gnp':
        n = int(t[1])
        keys.append('gnp.n.%s' % ('0-5' if n <= 5 else '6-40' if n <= 40 else '41+'))
        keys.append('gnp.' + ('invalid-p' if I.get('nodes', '').startswith('E') else 'ok'))
        keys.append('gnp.dir' + t[4])
    return keys


PROPS.update({
    'C16': dict(
        extra_modules=['GraphrsModel.Props.C16Store', 'GraphrsModel.Props.C16Dist', 'GraphrsModel.Props.C16DistDir', 'GraphrsModel.Props.FormulasC16'],
        thorough_scale=1.5,
        gens=[('complete', '-', 120, 600, 14), ('karate', '-', 1, 1, 0), ('gnp', 'small', 1500, 25000, 40), ('gnp', 'sparse', 4000, 60000, 40), ('gnp', 'large', 40, 400, 300),
              ('gnp', 'huge', 6, 60, 0), ('gnpstat', '-', 40, 300, 0)],
        translators=['karate', 'presets'],
        spec_fields=[r'ok\.complete', r'ok\.karate', r'ok\.gnp'], model_fields=[r'nodes', r'edges'], impl_checks=[('same', '1'), ('structure', '1')],
        custom=gnpstat_check, require_spec_fields=False,
        nontrivial=lambda req, I: I.get('edges', '.') not in ('.', 'E3') or 'sum' in I or I.get('m', '0') != '0',
        hist=gen_hist,
        rule='complete_graph(n, directed) for n in 0..14; karate_club_graph(); fast_gnp_random_graph(n, p, directed, seed) for n in 0..40 '
             '(model comparison through the skip sequence the seed produces) and 41..300 (structure only), p in {0, 1, <0, >1, 1e-12, 1e-17, '
             '0.999999, 0.01..0.99}; statistical runs of 60-600 seeds per (n, p, directedness); non-trivial = at least one edge',
        assumptions=COMMON_ASSUME[:2] + ['the ChaCha20 stream, ln and the uniform->geometric transformation are library / textbook facts: the model '
                                         'takes the skip sequence as input, the statistical test (mean edge count, 4.5 sigma) covers the rest'],
        trusted_extra=['tools/extract.py (karate table translator)'],
    ),
})


def esc_hist(req, I):
    b = [int(x) for x in req.split()[2:]]
    keys = ['esc.unescape.' + ('error' if I.get('un') == 'E' else 'ok')]
    if any(x in (38, 60, 62, 39, 34) for x in b): keys.append('esc.has-markup-char')
    if any(x in (9, 10, 13, 32) for x in b): keys.append('esc.has-whitespace')
    if any(x >= 128 for x in b): keys.append('esc.has-multibyte')
    if 38 in b and 59 in b: keys.append('esc.has-entity-shape')
    return keys


def xml_hist(req, I):
    t = req.split()
    keys = ['kind.dir%s.multi%s.loops%s' % tuple(t[1:4])]
    r = I.get('rnodes', '')
    keys.append('read.' + (r if r.startswith('E') else 'ok'))
    return keys


PROPS.update({
    'C14': dict(
        gens=[('xml', 'roundtrip', 1500, 25000, 6), ('esc', 'names', 1500, 30000, 0), ('esc', 'entities', 1500, 30000, 0), ('xmlbig', '-', 5, 60, 0)],
        spec_fields=[r'rnodes', r'redges', r'rdir', r'rt', r'attr'],
        model_fields=[r'rnodes', r'redges', r'rdir', r'agree\.doc', r'esc', r'un', r'rt', r'attr'],
        impl_checks=[('filesame', '1'), ('fileread', '1'), ('bigfile', '1')],
        nontrivial=lambda req, I: True if req.startswith('xmlbig') else (I.get('esc', '.') != '.') if req.startswith('esc') else
                                  (I.get('redges', '.') not in ('.', '') and not I.get('redges', '').startswith('E')),
        hist=lambda req, I: ['family.xmlbig'] if req.startswith('xmlbig') else esc_hist(req, I) if req.startswith('esc') else xml_hist(req, I),
        extra_modules=['GraphrsModel.Props.C14Escape', 'GraphrsModel.Props.C14Full'],
        rule='random graphs of all 8 kinds (0..6 nodes) over string names built from XML-special characters, spaces, entity-looking text, '
             'non-ASCII and astral characters, the empty string and the words the reader looks for; weights: signed zero, subnormals, '
             '1.797e308, +-inf, random bit patterns, 25% unweighted; write_graphml_string + write_graphml_file, then read_graphml_string with '
             'the same specs, and read_graphml_file on the written file (must see the same graph); xmlbig: documents of 150-400 KB whose names are dense in 2-, 3- and 4-byte characters, written and read through the file variants; non-trivial = at least one edge read back. esc family: strings of 0..8 pieces (markup characters, whitespace, '
             'multi-byte and boundary code points, 40 entity / character-reference shapes incl. overflow, surrogate, signed and unterminated '
             'ones): quick_xml escape, unescape, unescape(escape(s)), and the crate writing and reading a graph whose node is named s',
        assumptions=COMMON_ASSUME[:2] + ['quick-xml (tokenizer, writer, escaping) and f64 Display/parse are library code: the model starts from '
                                         "quick-xml's event stream of the written document and from the parse result of each weight text"],
    ),
    'C19': dict(
        gens=[('xml', 'malformed', 4000, 60000, 0)],
        spec_fields=[r'rnodes', r'rends', r'rdir'], model_fields=[r'rnodes', r'redges', r'rdir'], require_spec_fields=False,
        nontrivial=lambda req, I: True,
        hist=xml_hist,
        rule='hand-written well-formed GraphML documents (keys with other ids, node data, empty and start/end edge elements, weights) with 0-3 '
             'point mutations each: byte deletion, duplication, truncation, byte replacement by a markup character, insertion of one of 30 '
             'hostile snippets (duplicate attributes, unknown entities, keys without for/id, non-numeric / padded / empty weights, empty '
             '<graph/>, unknown edgedefault, stray end tags, CDATA, nested markup in data), line deletion; all 96 GraphSpecs; every call under '
             'catch_unwind and a 5 s watchdog; every case counts as non-trivial',
        assumptions=COMMON_ASSUME[:2] + ['quick-xml itself (that it neither panics nor loops on arbitrary strings) is exercised but not modelled'],
    ),
})


PROPS.update({
    'C07': dict(
        quick_scale=1,
        extra_modules=['GraphrsModel.Props.C07Model'],
        shrink_seconds=60, shrink_candidates=12,
        thorough_scale=1,
        gens=[('par', 'some', 40, 0, 0), ('par', 'all', 0, 120, 0), ('par', 'big', 1, 6, 0)],
        translators=['parallel_sites', 'constants'],
        spec_fields=[], model_fields=[r'build'], impl_checks=[('par', '1')],
        nontrivial=lambda req, I: I.get('par') is not None and int(I.get('fplen', '0')) > 1000,
        hist=lambda req, I: ['family.parbig', 'parbig.dir' + req.split()[3], 'parbig.w' + req.split()[4]] if req.startswith('parbig') else graph_hist(req, I) + ['pools.0'],
        rule='random graphs of 21..60 nodes (all kinds, sparse) weighted and unweighted; all_pairs (with and without paths), multi_source '
             '(cutoff, first_only), get_all_shortest_paths_involving, betweenness (raw, normalized), closeness (plain, wf) inside '
             'ThreadPoolBuilder pools of 2,3,4,7,16 threads (thorough: every size 1..=16, three repeats) and from six concurrent reader '
             'threads sharing one &Graph, every f64 compared by bit pattern with the 1-thread result; non-trivial = fingerprint longer than 1000 bytes',
        assumptions=['the actual work-stealing interleavings and rayon\'s guarantee that an indexed collect preserves order are runtime / library '
                     'behaviour: the theorem is about the indexed-collect model, whose shape is re-checked against the source on every run',
                     'data-race freedom is Rust\'s type system (no unsafe / interior mutability in src/, re-checked syntactically)'],
        trusted_extra=['tools/extract.py parallel_sites, constants (syntactic re-check of the modelling assumption)'],
    ),
})
PROPS['C07']['hist'] = lambda req, I: ['family.parbig', 'parbig.dir' + req.split()[3], 'parbig.w' + req.split()[4]] if req.startswith('parbig') else graph_hist(req, I)


def degen_custom(req, I):
    out = []
    for name, v in I.items():
        items = v.split(' ')
        if 'P' in items or 'T' in items:
            out.append({'field': name, 'impl': v[:300], 'spec': 'no panic (P) and no hang (T) on any call'})
    return out


DEGEN_MODEL = [r'get_node', r'has_node', r'get_edges_for_node', r'get_in_edges_for_node', r'get_out_edges_for_node', r'get_neighbor_nodes',
               r'get_successor_nodes', r'get_predecessor_nodes', r'get_successor_node_names', r'get_predecessor_node_names',
               r'get_node_(weighted_)?(in_|out_)?degree', r'node_connected_component', r'get_edge', r'get_edges', r'has_nodes',
               r'get_edges_for_nodes', r'get_in_edges_for_nodes', r'get_out_edges_for_nodes', r'get_subgraph', r'triangles_some',
               r'generalized_degree_some', r'clustering_some\.w[01]', r'breadth_first_search', r'get_successors_or_neighbors',
               r'square_clustering_some', r'bfs_equal_size_partitions', r'get_node_by_index', r'get_(weighted_)?(in_|out_)?degree_for_all_nodes',
               r'degree_centrality', r'get_sparse_adjacency_matrix', r'reverse', r'set_all_edge_weights', r'to_single_edges', r'ensure_\w+',
               r'connected_components', r'number_of_connected_components', r'weakly_connected_components', r'strongly_connected_components',
               r'triangles', r'generalized_degree', r'transitivity', r'square_clustering', r'clustering\.w[01]', r'single_source\.w[01]',
               r'single_source_target\.w[01]', r'all_pairs_target\.w[01]', r'multi_source\.w[01]', r'all_pairs\.w[01]',
               r'all_pairs_basic\.w[01]', r'betweenness\.w0', r'closeness\.w0']

PROPS.update({
    'C20': dict(
        quick_scale=1,
        extra_modules=['GraphrsModel.Props.C20Model', 'GraphrsModel.Props.C20Breadth', 'GraphrsModel.Props.C20BreadthCore', 'GraphrsModel.Props.C20BreadthCluster', 'GraphrsModel.Props.C20BreadthEigen', 'GraphrsModel.Props.C20BreadthPaths'],
        thorough_scale=1,
        gens=[('degen', '-', 864, 864, 0)],
        translators=['pub_fns'],
        spec_fields=[r'.*'], model_fields=DEGEN_MODEL, require_spec_fields=False, custom=degen_custom,
        nontrivial=lambda req, I: True,
        hist=lambda req, I: graph_hist(req, I) + ['calls.%d' % sum(len(v.split()) for v in I.values())],
        rule='exhaustive: 8 graph kinds x 22 degenerate shapes (empty, single node, two isolated nodes, single edge, path, triangle, '
             'parallel edges, lone self-loop, reciprocal pair with self-loop, self-loop with parallel edges, edge plus isolated node, mixed; ten larger ones: 6 isolated nodes, 6 nodes with (parallel) self-loops only, 9 nodes in three components, 22 isolated nodes, 22 nodes with one edge and one self-loop, a 23-node path, a 23-node out-star (22 sinks), a 23-node in-star, two hubs over 20 common sinks, a 25-cycle with pendant sinks and an isolated node - above the rayon threshold) '
             'x 3 weight modes x the duplicate-edge policies under which the shape can be built; ~100 public functions, arguments = every name of the graph (first two and last of a larger graph) plus one absent name (functions with an error '
             'channel), every ordered pair, four node sets; each call under catch_unwind, Louvain and eigenvector under a 5 s watchdog; '
             'harness built with overflow-checks and debug-assertions on (thorough: also without); every case counts as non-trivial',
        assumptions=COMMON_ASSUME[:2] + ['coverage of the public API is re-checked against `pub fn` in src/ on every run (tools/pubfns_covered.txt)'],
        trusted_extra=['tools/extract.py pub_fns'],
    ),
})


def run_translator(ctx, name):
    if name == 'presets':
        import formulas
        return formulas.presets(ctx)
    if name == 'formulas':
        import formulas
        # C17 relies on the same expressions of update_best_com as C13
        return formulas.formulas({'C17': 'C13', 'C08': 'C04'}.get(ctx.prop, ctx.prop))
    import extract
    return extract.run(ctx, name)


def run_extra(ctx, name):
    import extras
    return extras.run(ctx, name)
