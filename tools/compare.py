"""Field-by-field comparison of the implementation's observation with the Lean model's (`m.`)
and the Lean specification's (`s.`) observation of the same request."""
import re, struct
from fractions import Fraction

REL_TOL = 1e-9
ABS_TOL = 1e-12


def parse_line(line):
    """'p.f=v|p.g=w' -> {'p': {'f': 'v', 'g': 'w'}}"""
    out = {}
    for part in line.split('|'):
        if '=' not in part:
            continue
        k, v = part.split('=', 1)
        if '.' not in k:
            continue
        pre, name = k.split('.', 1)
        out.setdefault(pre, {})[name] = v
    return out


def to_float(tok):
    """'3/4' | '0.75' | 'b<bits>' | 'inf' -> float (None if not numeric)"""
    try:
        if tok == 'inf':
            return float('inf')
        if tok == 'nan':
            return float('nan')
        if tok.startswith('b') and tok[1:].isdigit():
            return struct.unpack('<d', struct.pack('<Q', int(tok[1:])))[0]
        if '/' in tok:
            return float(Fraction(tok))
        return float(tok)
    except Exception:
        return None


def num_close(a, b):
    if a is None or b is None:
        return False
    if a == b:
        return True
    if a != a and b != b:
        return True
    if a in (float('inf'), float('-inf')) or b in (float('inf'), float('-inf')):
        return False
    return abs(a - b) <= max(ABS_TOL, REL_TOL * max(abs(a), abs(b)))


def item_equal(iv, ov, numeric, is_spec):
    if iv == ov:
        return True
    if is_spec and ov == '*':
        return True
    if is_spec and ov.startswith('E') and '/' in ov and iv.startswith('E'):
        return iv[1:] in ov[1:].split('/')
    if numeric:
        # items look like 'key>num' or 'num'; keys must match exactly
        ik, _, inum = iv.rpartition('>')
        ok, _, onum = ov.rpartition('>')
        if ik != ok:
            return False
        return num_close(to_float(inum), to_float(onum))
    return False


def field_equal(name, iv, ov, is_spec):
    if iv == ov:
        return True
    if is_spec and ov == '*':
        return True
    numeric = name.endswith(':q') or name.endswith(':b')
    a, b = iv.split(' '), ov.split(' ')
    if len(a) != len(b):
        return False
    return all(item_equal(x, y, numeric, is_spec) for x, y in zip(a, b))


def matches(name, patterns):
    return any(re.fullmatch(p, name) for p in patterns)


def compare_case(cfg, req, impl_line, model_line):
    I = parse_line(impl_line).get('i', {})
    ML = parse_line(model_line)
    M, S = ML.get('m', {}), ML.get('s', {})
    res = {'spec': [], 'model': [], 'impl': [], 'nontrivial': False, 'hist': []}
    if model_line.startswith('bad-request'):
        res['model'].append({'field': '(request)', 'impl': '', 'model': model_line})
        return res
    if 'panic' in I and not cfg.get('panic_ok'):
        res['impl'].append({'field': 'panic', 'impl': I['panic'][:300], 'expected': 'no panic'})
        return res
    if 'timeout' in I:
        res['impl'].append({'field': 'timeout', 'impl': I['timeout'][:300], 'expected': 'termination'})
        return res
    if 'badrequest' in I:
        res['model'].append({'field': '(request)', 'impl': I['badrequest'], 'model': ''})
        return res
    for name, iv in I.items():
        if matches(name, cfg.get('spec_fields', [])):
            if name in S and not field_equal(name, iv, S[name], True):
                res['spec'].append({'field': name, 'impl': iv[:600], 'spec': S[name][:600]})
            elif name not in S and cfg.get('require_spec_fields', True):
                res['model'].append({'field': name, 'impl': iv[:200], 'model': '(specification prints no such field)'})
        if matches(name, cfg.get('model_fields', [])):
            if name in M and M[name] != 'nomodel' and not field_equal(name, iv, M[name], False):
                res['model'].append({'field': name, 'impl': iv[:600], 'model': M[name][:600]})
            elif name not in M:
                res['model'].append({'field': name, 'impl': iv[:200], 'model': '(model prints no such field)'})
    for name in list(S) + list(M):
        if name not in I and not name.startswith(('ok.', 'agree.')) and (matches(name, cfg.get('spec_fields', [])) or matches(name, cfg.get('model_fields', []))):
            res['model'].append({'field': name, 'impl': '(implementation side prints no such field)', 'model': ''})
    # verdicts computed by the Lean spec checker on the implementation's output: 's.ok.<clause>=1'
    for name, v in S.items():
        if name.startswith('ok.') and matches(name, cfg.get('spec_fields', [])) and v != '1':
            res['spec'].append({'field': name, 'impl': I.get(name[3:], '')[:600], 'spec': 'checker says: ' + v[:300]})
    for name, v in M.items():
        if name.startswith('agree.') and matches(name, cfg.get('model_fields', [])) and v != '1':
            res['model'].append({'field': name, 'impl': I.get(name[6:], '')[:600], 'model': v[:600]})
    if 'abort' in I:
        res['impl'].append({'field': 'abort', 'impl': I['abort'][:300], 'expected': 'a value or an error (the process must survive the call)'})
    for chk in cfg.get('impl_checks', []):
        name, want = chk
        if name in I and I[name] != want:
            res['impl'].append({'field': name, 'impl': I[name][:300], 'expected': want})
    cu = cfg.get('custom')
    if cu:
        res['spec'] += cu(req, I)
    nt = cfg.get('nontrivial')
    res['nontrivial'] = bool(nt(req, I)) if nt else True
    h = cfg.get('hist')
    res['hist'] = h(req, I) if h else []
    return res
