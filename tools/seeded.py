#!/usr/bin/env python3
"""Confirm a seeded change and run the registered checks against it.

    python3 tools/seeded.py confirm <src-dir> <id>      # src-dir holds patch.diff, demo.rs, meta.json
        - fresh scratch worktree of /repo under /tmp, apply patch, build, existing suite (207 stable tests) must pass,
          demo (tests/seeded_demo.rs) must FAIL with the patch and PASS without it; copies the files to /verif/seeded/<id>/
    python3 tools/seeded.py run <id> <Cxx> [<Cyy> ...]  # apply to /repo, run the quick checks, undo; records detection in meta.json
"""
import json, os, re, shutil, subprocess, sys, time

ROOT = os.path.dirname(os.path.dirname(os.path.abspath(__file__)))
ENV = dict(os.environ, CARGO_NET_OFFLINE='true', VERIF_EVIDENCE_DIR=os.path.join(ROOT, 'work', 'seeded_evidence'))


def sh(cmd, cwd=None, timeout=3600):
    p = subprocess.run(cmd, cwd=cwd, env=ENV, stdout=subprocess.PIPE, stderr=subprocess.STDOUT, text=True, timeout=timeout, shell=isinstance(cmd, str))
    return p.returncode, p.stdout


def suite(wt):
    """run the crate's tests in worktree `wt`; return (missing stable tests, all failed)"""
    base = json.load(open('/root/.vp/BASELINE.json'))
    stable = set(base['stable_pass'])
    rc, out = sh(['cargo', 'test', '--workspace', '--no-fail-fast', '--offline'], cwd=wt)
    passed, failed, cur = set(), set(), None
    for line in out.splitlines():
        m = re.search(r'Running (?:unittests )?(\S+)', line)
        if m:
            f = m.group(1)
            cur = 'graphrs' if f.startswith('src/') else 'graphrs::' + os.path.basename(f).replace('.rs', '')
            continue
        if 'Doc-tests' in line:
            cur = None
        m = re.match(r'test (\S+) \.\.\. (\w+)', line)
        if m and cur:
            (passed if m.group(2) == 'ok' else failed).add(cur + '::' + m.group(1))
    if not passed:
        return ['(does not compile)'], [], out[-3000:]
    return sorted(stable - passed), sorted(failed), ''


def demo(wt, demo_src):
    shutil.copy(demo_src, os.path.join(wt, 'tests', 'seeded_demo.rs'))
    rc, out = sh(['cargo', 'test', '--offline', '--test', 'seeded_demo'], cwd=wt)
    os.remove(os.path.join(wt, 'tests', 'seeded_demo.rs'))
    return rc, out[-1500:]


def confirm(src, sid):
    wt = f'/tmp/seedchk_{sid}'
    sh(['git', '-C', '/repo', 'worktree', 'remove', '--force', wt])
    rc, out = sh(['git', '-C', '/repo', 'worktree', 'add', '--detach', wt, 'HEAD'])
    assert rc == 0, out
    try:
        patch = os.path.join(src, 'patch.diff')
        rc0, out0 = demo(wt, os.path.join(src, 'demo.rs'))
        rc, out = sh(['git', 'apply', patch], cwd=wt)
        if rc != 0:
            print('PATCH DOES NOT APPLY:', out)
            return False
        missing, failed, cerr = suite(wt)
        rc1, out1 = demo(wt, os.path.join(src, 'demo.rs'))
        ok = (not missing) and rc0 == 0 and rc1 != 0
        print(f'[{sid}] stable tests missing/failing with patch: {missing[:5]} ; demo without patch rc={rc0}, with patch rc={rc1} -> {"CONFIRMED" if ok else "REJECTED"}')
        if not ok:
            print(cerr or out0[-600:] + '\n---\n' + out1[-600:])
            return False
        dst = os.path.join(ROOT, 'seeded', sid)
        os.makedirs(dst, exist_ok=True)
        shutil.copy(patch, os.path.join(dst, 'patch.diff'))
        shutil.copy(os.path.join(src, 'demo.rs'), os.path.join(dst, 'demo.rs'))
        meta = {}
        try:
            meta = json.load(open(os.path.join(src, 'meta.json')))
        except Exception:
            pass
        meta['confirmed'] = {'suite_stable_tests_pass_with_patch': True, 'other_failed_tests_with_patch': failed,
                             'demo_without_patch': 'pass', 'demo_with_patch': 'fail',
                             'ran': ['git worktree add (scratch)', 'git apply patch.diff', 'cargo test --workspace --no-fail-fast --offline',
                                     'cargo test --offline --test seeded_demo (with and without the patch)']}
        json.dump(meta, open(os.path.join(dst, 'meta.json'), 'w'), indent=1)
        return True
    finally:
        sh(['git', '-C', '/repo', 'worktree', 'remove', '--force', wt])
        shutil.rmtree(wt, ignore_errors=True)


def run(sid, props):
    dst = os.path.join(ROOT, 'seeded', sid)
    rc, out = sh(['git', '-C', '/repo', 'status', '--porcelain', '--untracked-files=no'])
    assert out.strip() == '', '/repo is not clean: ' + out
    rc, out = sh(['git', '-C', '/repo', 'apply', os.path.join(dst, 'patch.diff')])
    assert rc == 0, out
    results = {}
    try:
        for p in props:
            t0 = time.time()
            rc, out = sh(['python3', os.path.join(ROOT, 'tools', 'check.py'), p, '--tier', 'quick'], cwd=ROOT)
            vio = [l for l in out.splitlines() if l.startswith('VIOLATION')]
            detail = ''
            m = re.search(r'replay=(\S+)', vio[0]) if vio else None
            if m and os.path.exists(m.group(1)):
                d = json.load(open(m.group(1)))
                detail = {'requests': d.get('requests', [])[:1], 'spec': (d.get('spec_failures') or [])[:2], 'impl': (d.get('impl_failures') or [])[:2],
                          'broken': d.get('broken_correspondence', {}).get('disagreements', [])[:2] if isinstance(d.get('broken_correspondence'), dict) else d.get('broken_proof_obligations')}
            results[p] = {'exit': rc, 'violation': vio[0] if vio else None, 'detail': detail, 'wall_s': round(time.time() - t0, 1)}
            print(f'[{sid}] {p}: exit {rc} {vio[0] if vio else "(no violation reported)"}')
    finally:
        sh(['git', '-C', '/repo', 'checkout', '--', '.'])
        # the translators regenerated Generated/*.lean from the broken tree: regenerate them from the restored source
        sh(['python3', os.path.join(ROOT, 'tools', 'formulas.py')], cwd=ROOT)
        sh(['python3', os.path.join(ROOT, 'tools', 'extract.py'), 'karate'], cwd=ROOT)
    mp = os.path.join(dst, 'meta.json')
    meta = json.load(open(mp)) if os.path.exists(mp) else {}
    meta.setdefault('checks_run', {}).update(results)
    json.dump(meta, open(mp, 'w'), indent=1)


if __name__ == '__main__':
    if sys.argv[1] == 'confirm':
        sys.exit(0 if confirm(sys.argv[2], sys.argv[3]) else 1)
    elif sys.argv[1] == 'run':
        run(sys.argv[2], sys.argv[3:])
