"""Texts for MANIFEST.json (kept apart from the machinery's configuration)."""
HOOK_COMMITS = ['7a45ad8']
NOTES = ('One engine: Lean 4 proof about a hand-written model + correspondence check against the real crate. '
         'See DESIGN.md. Every check rebuilds the harness from /repo (path dependency) and the Lean project.')
NOT_APPLICABLE = {}
_STORE_NOTE = ('Trusted: Lean kernel; the hand-written model (tied to the code only by the sampled correspondence run: '
               'real Graph vs model on generated histories over all 96 GraphSpecs); harness canonicalisation; check.py. '
               'Not modelled: std HashMap/IntMap internals (modelled as association lists, iteration order canonicalised), '
               'Arc sharing, the generic name type (u32 used).')
TEXT = {
    'C01': dict(level='Theorems about the Lean model of add_node/add_edge/batch adds for all specs and all histories '
                '(refinement of the abstract machine written from the statement), plus differential runs model<->implementation '
                'and specification<->implementation on generated histories.',
                note=_STORE_NOTE, technique='Lean 4 refinement proof + differential correspondence', ref='DESIGN.md 5 C01'),
    'C02': dict(level='Theorems that every modelled query equals its abstract answer under the store invariant; every query of '
                'query.rs compared on every ordered pair / subset of a 4-name universe after each generated history.',
                note=_STORE_NOTE, technique='Lean 4 invariant + refinement proof + differential correspondence', ref='DESIGN.md 5 C02'),
    'C03': dict(level='Theorem: traversal lists match the edge store (neighbour iff stored edge, weight = minimum stored weight) on '
                'every reachable state; snapshot of successors_vec/predecessors_vec compared after weight-biased histories.',
                note=_STORE_NOTE, technique='Lean 4 invariant proof + differential correspondence', ref='DESIGN.md 5 C03'),
    'C09': dict(level='Theorems on the abstract graph (handshake identities, counts) transferred to the model; all count/degree/'
                'density/matrix functions compared with the specification on generated histories.',
                note=_STORE_NOTE + ' sprs triplet->CSR conversion is library code.', technique='Lean 4 proof + differential correspondence',
                ref='DESIGN.md 5 C09'),
    'C15': dict(level='Theorems that subgraph/reverse/reweight/collapse of the model equal the abstract derived graph; all four '
                'compared (nodes, edges, traversal lists, source unchanged) for every subset of the universe.',
                note=_STORE_NOTE, technique='Lean 4 proof + differential correspondence', ref='DESIGN.md 5 C15'),
}
