"""Texts for MANIFEST.json (kept apart from the machinery's configuration)."""
HOOK_COMMITS = ['7a45ad8']
NOTES = ('One engine: Lean 4 proof about a hand-written model + correspondence check against the real crate. '
         'See DESIGN.md. Every check rebuilds the harness from /repo (path dependency) and the Lean project.')
NOT_APPLICABLE = {}
_STORE_NOTE = ('Trusted: Lean kernel; the hand-written model (tied to the code only by the sampled correspondence run: '
               'real Graph vs model on generated histories over all 96 GraphSpecs); harness canonicalisation; check.py. '
               'Not modelled: std HashMap/IntMap internals (modelled as association lists, iteration order canonicalised), '
               'Arc sharing, the generic name type (u32 used).')
TEXT = {
    'C01': dict(level='Theorems about the Lean model of add_node/add_edge/batch adds for all specs and all histories '
                '(refinement of the abstract machine written from the statement), plus differential runs model<->implementation '
                'and specification<->implementation on generated histories.',
                note=_STORE_NOTE, technique='Lean 4 refinement proof + differential correspondence', ref='DESIGN.md 5 C01'),
    'C02': dict(level='Theorems that every modelled query equals its abstract answer under the store invariant; every query of '
                'query.rs compared on every ordered pair / subset of a 4-name universe after each generated history.',
                note=_STORE_NOTE, technique='Lean 4 invariant + refinement proof + differential correspondence', ref='DESIGN.md 5 C02'),
    'C03': dict(level='Theorem: traversal lists match the edge store (neighbour iff stored edge, weight = minimum stored weight) on '
                'every reachable state; snapshot of successors_vec/predecessors_vec compared after weight-biased histories.',
                note=_STORE_NOTE, technique='Lean 4 invariant proof + differential correspondence', ref='DESIGN.md 5 C03'),
    'C09': dict(level='Theorems on the abstract graph (handshake identities, counts) transferred to the model; all count/degree/'
                'density/matrix functions compared with the specification on generated histories.',
                note=_STORE_NOTE + ' sprs triplet->CSR conversion is library code.', technique='Lean 4 proof + formula translator + differential correspondence',
                ref='DESIGN.md 5 C09'),
    'C15': dict(level='Theorems that subgraph/reverse/reweight/collapse of the model equal the abstract derived graph; all four '
                'compared (nodes, edges, traversal lists, source unchanged) for every subset of the universe.',
                note=_STORE_NOTE, technique='Lean 4 proof + differential correspondence', ref='DESIGN.md 5 C15'),
    'C04': dict(level='Theorems about the Lean model of dijkstra / dijkstra_basic (invariants of the lazy-deletion priority loop) and a Lean '
                'checker of a single-source answer, proved sound against the walk-based specification; the checker runs on the real '
                "implementation's output (every source, target/cutoff/first_only/with_paths combinations, single_source = multi_source = "
                'all_pairs), and the model is compared with the implementation path for path.',
                note='Trusted: Lean kernel, hand-written model (sampled correspondence), harness, check.py. Distances are exact because the '
                     'harness uses integer weights; IEEE rounding, std BinaryHeap and HashMap are not modelled.',
                technique='Lean 4 proof (checker soundness + loop invariants) + differential correspondence', ref='DESIGN.md 5 C04'),
    'C05': dict(level='Definition-level specification of betweenness in Lean (enumeration of all shortest paths) evaluated on the '
                "implementation's output for graphs up to 8 nodes; Brandes stage/accumulation model in exact rationals compared with the "
                'implementation on all sizes incl. the parallel path; theorems on the scaling rule, shape and accumulation.',
                note='Trusted as for C04; f64 accumulation is compared with relative tolerance 1e-9.', technique='Lean 4 proof + formula translator + definition-level '
                'spec check + differential correspondence', ref='DESIGN.md 5 C05'),
    'C06': dict(level='Definition-level specification of closeness (incoming distances via Bellman-Ford on the abstract graph) evaluated on the '
                "implementation's output; model (reverse + level BFS / Dijkstra stage + get_node_centrality) in exact rationals compared "
                'with the implementation; theorems on get_node_centrality and reversal.',
                note='Trusted as for C04; f64 quotient compared with relative tolerance 1e-9.', technique='Lean 4 proof + formula translator + definition-level spec '
                'check + differential correspondence', ref='DESIGN.md 5 C06'),
    'C07': dict(level='Theorem: an indexed parallel collect followed by a sequential fold equals the serial computation for every schedule and '
                'every thread count (C07_parCollect_eq_map, C07_schedule_independent, C07_threads_independent). The shape assumption is '
                're-checked against the source on every run (translator parallel_sites); bit-for-bit comparison across rayon pools of '
                '1..16 threads and concurrent readers on graphs above the threshold.',
                note='Partial by nature: work-stealing interleavings, rayon\'s order-preserving collect and data-race freedom (Rust type system, no '
                     'unsafe) are runtime / library facts the model cannot exhibit.', technique='Lean 4 proof of schedule independence + '
                'syntactic translator + thread-pool differential runs', ref='DESIGN.md 5 C07'),
    'C08': dict(level='Consequences of the C04 checker being exact: every option combination (target x cutoff x first_only x with_paths, all '
                '16) is checked against the same walk-based specification, so restricted answers are restrictions of the unrestricted one; '
                'get_all_shortest_paths_involving checked against the specification; model compared path for path.',
                note='Trusted as for C04.', technique='Lean 4 proof (checker soundness) + differential correspondence', ref='DESIGN.md 5 C08'),
    'C10': dict(level='Lean checker "is the partition of the nodes by relation R" (proved equivalent to the statement) run on the implementation\'s '
                'connected / weak / strong components, node component, component count, BFS from every node and equal-size partitions; models '
                'of all seven functions compared as sets of sets; theorems on the checker, BFS and the equal-size arithmetic.',
                note='Trusted as for C04. The SCC algorithm is checked through the proved checker on explored graphs, not proved correct for all '
                     'graphs (stated as C10_scc_full_statement).', technique='Lean 4 proof (checkers) + differential correspondence',
                ref='DESIGN.md 5 C10'),
    'C11': dict(level='Definitions of triangles / clustering (undirected, Fagiolo, weighted geometric-mean forms) / transitivity / generalized '
                'degree / square clustering over the abstract graph; the implementation\'s values (full node set and arbitrary subsets) are '
                'compared with them; model of every cluster function compared; theorems on counts and the unit interval.',
                note='Trusted as for C04; weighted coefficients are evaluated over Float (cbrt) with tolerance 1e-9. Directed square clustering is '
                     'not specified (iteration-order dependent) and only checked for panics (C20).',
                technique='Lean 4 proof + formula translator + definition-level spec check + differential correspondence', ref='DESIGN.md 5 C11'),
    'C12': dict(level='Theorem: is_partition model = "pairwise disjoint, only graph nodes, covering"; Newman\'s formula over the abstract graph in '
                'exact rationals compared with the implementation for true partitions, NotAPartition demanded for everything else.',
                note='Trusted as for C04; value compared with tolerance 1e-9.', technique='Lean 4 proof + formula translator + spec comparison + differential '
                'correspondence', ref='DESIGN.md 5 C12'),
    'C13': dict(level='Lean checker on every Louvain output: non-empty list of levels, each a partition into non-empty communities, each level '
                'coarsens the previous, exact (rational) modularity on the input graph non-decreasing and first level >= singletons, '
                'louvain_communities = last level; termination observed under a watchdog; theorems on the gain formula (gain = m*deltaQ); a step-level exact model of the implementation compared level by level.',
                note='Partial: termination and monotonicity are proved of the exact-arithmetic model (bound n^n sweeps); for the f64 implementation they are observed (watchdog, checker) - f64 ties can cycle (finding F23, repaired by a sweep cap equal to the model fuel); the model comparison is skipped when two '
                     'candidate gains are within 1e-9 (f64 rounding decides). The shuffle permutations are inputs computed by the harness with the same rand call.',
                technique='Lean 4 proof (gain identity, partition invariants, termination of the model, checker) + formula translator + spec check on implementation output + differential correspondence', ref='DESIGN.md 5 C13'),
    'C14': dict(level='Event-level model of the GraphML writer and reader; theorem: readEvents (writeEvents g) rebuilds g; the real document is '
                'tokenised with the same quick-xml and compared with the model writer, the real read-back graph with the original '
                '(names over hostile alphabets, weights by bit pattern).',
                note='quick-xml tokenizer/writer/escaping and f64 Display/parse are library code (assumed, exercised, not modelled).',
                technique='Lean 4 proof (event-level round trip) + differential correspondence', ref='DESIGN.md 5 C14'),
    'C16': dict(level='complete_graph model theorem; karate table regenerated from the source and decided by the kernel; G(n,p) model over the '
                'skip sequence with structure theorems; structure checker on every generated graph, statistical mean-edge-count test.',
                note='Partial: the undirected and the directed output laws are proved from the assumption that the skips are independent geometric(p); that assumption (ChaCha20, ln and the uniform->geometric transformation: library code) is tested statistically.',
                technique='Lean 4 proof + translator (karate) + differential correspondence + statistical test', ref='DESIGN.md 5 C16'),
    'C17': dict(level='Repeated calls in one process, inside rayon pools of 1 and 4 threads and in a second process must agree exactly (Louvain on '
                'tie-rich graphs, G(n,p)); theorem that the deterministic tie-break (argmax over a sorted candidate list) is independent of '
                'the iteration order of the candidate map.',
                note='Partial: the std hasher and process state are runtime behaviour; exercised, not modelled.',
                technique='Lean 4 proof (order-independent argmax) + formula translator + repeated-run / fresh-process differential runs', ref='DESIGN.md 5 C17'),
    'C18': dict(level='Lean checker of an Ok answer (keys, non-negativity, unit norm, next-step bound 2*||I+A^T||_F*n*tol) run on the '
                'implementation\'s output; Float model of the power iteration compared with the implementation; theorems on the step.',
                note='Partial: evaluated over Float with slack 1e-9; IEEE rounding not modelled.', technique='Lean 4 proof + spec check + '
                'differential correspondence', ref='DESIGN.md 5 C18'),
    'C19': dict(level='Theorem: the event-level reader model is total and never panics (C19_total) and Ok content equals the declared '
                'nodes/edges; the real reader runs on thousands of corrupted documents under catch_unwind + watchdog and is compared with the '
                'model on quick-xml\'s own event stream.',
                note='quick-xml itself (no panic / termination on arbitrary strings) is exercised, not proved.',
                technique='Lean 4 proof (totality) + fault enumeration + differential correspondence', ref='DESIGN.md 5 C19'),
    'C20': dict(level='Exhaustive sweep of ~100 public functions over 8 kinds x 18 degenerate shapes x 3 weight modes x all argument values incl. '
                'an absent name, each call under catch_unwind (overflow checks on); outcome classes compared with the error-channel table '
                '(specification) and with the models; theorems that the modelled functions never reach a panic site on reachable stores.',
                note='The pub-fn table is regenerated from the source on every run; functions outside the models are covered by the sweep only.',
                technique='Lean 4 proof (no-panic of models) + exhaustive small-scope sweep + translator (pub fn table)', ref='DESIGN.md 5 C20'),
}


# model-level theorems added after the first round (appended to the level text)
MODEL_LEVEL = {
    'C03': 'Entry level (Props/C03Rows): rowsNodup / entriesStored are invariants of every reachable store, hence every single entry of '
           'successors_vec / predecessors_vec carries exactly the minimum stored weight (C03_entry_exact).',
    'C06': 'Model level (Props/C06Model, C03Rows): the closeness model equals the definition on every well-formed store (unweighted) and on '
           'every reachable store with positive weights (weighted), incl. exactness of closeness.rs\' own BFS / Dijkstra stages.',
    'C09': 'Model level (Props/C09Model, C12Weighted): degree, in/out degree, weighted degrees and the for-all-nodes maps of the model equal the abstract values.',
    'C10': 'Model level (Props/C10Model): BFS, connected / weak components and the iterative Tarjan-style strong-components model are proved '
           'correct for every well-formed store and every successor order (fuel bound included).',
    'C11': 'Model level (Props/C11Model): triangles, clustering (undirected and Fagiolo directed), transitivity and square clustering of the model '
           'equal the definitions on every well-formed store.',
    'C12': 'Model level (Props/C09Model, C12Weighted): unweighted and weighted modularity of the model equal Newman\'s formula for every true partition, degenerate NaN cases included.',
    'C13': 'Model level (Props/C13Model): for every shuffle, resolution and threshold every returned level is a partition into non-empty sets, levels are nested, '
           'and no slice index or unwrap site of compute_one_level / generate_graph can panic on a well-formed store.',
    'C14': 'Escaping layer (Props/C14Escape, Model/Escape = quick-xml escape/unescape over bytes, tied by the esc correspondence family): unescape(escape s) = s '
           'for every byte string, the written value cannot end the attribute early; C14_roundtrip_abs: read(write g) is a well-formed store of the same abstract graph.',
}
MODEL_LEVEL.update({
    'C05': 'Model level (Props/C05Full): the Brandes model (BFS / Dijkstra stage with path counts, accumulation, rescale) equals the definition by enumeration '
           'of all shortest paths on every store reachable through the mutation API, both modes, raw and normalised (C05_full_statement_reachable).',
    'C16': 'Props/C16Store: the generated graph never fails for any skip sequence, has nodes 0..n-1 and exactly the emitted pairs; every subset of the undirected '
           'slots and every directed pair is produced by some skip sequence. Props/C16Dist: the undirected generator is the plain slot process; with independent geometric(p) '
           'skips the probability of emitting exactly a given set S of pairs is p^|S| (1-p)^(N-|S|) (HasSum over the preimage, which is characterised exactly), masses sum to 1, mean = pN.',
    'C13': 'Model level (Props/C13Model, C13Termination, C13TerminationFull): every returned level is a partition into non-empty sets, levels are nested, no index / unwrap site can panic; '
           'the local-moving loop terminates (a move strictly improves the potential or lowers the community-id sum; fuel k^k+1), the level loop needs at most n+2 levels, and the whole model never stops for lack of fuel '
           '(C13_model_terminates); C13Monotone: Newman modularity of the returned levels, measured on the input graph, never decreases and the first level is at least as good as the singletons;  FormulasC13: the gain expressions and the acceptance test regenerated from louvain.rs are the model\'s.',
    'C17': 'Props/C17Model: the Louvain visit / sweep / level of the step model are independent of the iteration order of the candidate-community map.',
})
MODEL_LEVEL.update({
    'C04': 'Path lists (Props/C04Paths, C04PathsReach): with positive costs the model returns exactly the set of all shortest paths, each once on every store built through the API; '
           'first_only returns exactly one of them. Public functions by names against the abstract graph: Props/C08Api.',
    'C08': 'Model level (Props/C04Paths, C08Api): a target run is a prefix of the unrestricted run, with_paths=false only empties the path lists, all_pairs = multi_source = one single_source per node, '
           'distances symmetric on undirected graphs, get_all_shortest_paths_involving characterised.',
    'C18': 'Model level (Props/C18Model): the model is generic over the scalar type; its real instance is the power step of I + A^T of the abstract graph and every Ok answer of the real-instance loop '
           'satisfies the C18 clauses; the driver runs the Float instance of the same definitions.',
    'C20': 'Props/C20Model: on every well-formed store (empty graph of every kind included) the models of betweenness, closeness, strong components, Louvain, single_source and modularity never panic.',
})
MODEL_LEVEL['C07'] = ('Props/C07Model: each of betweenness, closeness, all_pairs, multi_source, involving of the model is proved to be fold(items.map f) with f the rayon work item and '
                      'fold the sequential post-processing, so the schedule-independence theorem applies to the algorithm models themselves.')
MODEL_LEVEL['C11'] += (' Props/C11Weighted: weighted model and weighted definition are generic over a scalar record; over the reals the model equals the definition (undirected and directed), '
                       'values in [0,1]; the driver runs the Float instance of the same code.')
MODEL_LEVEL['C09'] += ' Props/C09Rest: sizes, density, degree centrality and the adjacency-matrix triplets of the model equal the abstract values.'
MODEL_LEVEL['C20'] += (' Props/C20Breadth*: a no-panic theorem for every model function that models a public function (wf store only; names that exist where there is '
                        'no error channel), any weights incl. negative / NaN for the shortest-path functions.')
MODEL_LEVEL['C10'] += ' Props/C10EqualSize: bfs_equal_size_partitions of the model returns k parts that partition the nodes, each of at most n/k+1 members (fuel proved sufficient).'
MODEL_LEVEL['C16'] += (' Props/C16DistDir: the directed generator is the slot process with diagonal redirect; product law (p per ordinary slot, 1-(1-p)^2 after a diagonal slot) and '
                        'mean p n(n-1) + p(1-p)(n-1), i.e. a relative excess of at most 1/(n-1).')
for _k, _v in MODEL_LEVEL.items():
    TEXT[_k]['level'] = TEXT[_k]['level'] + ' ' + _v
