#!/usr/bin/env python3
"""Entry point of every check registered in MANIFEST.json.

    python3 tools/check.py <Cxx> [--tier quick|thorough] [--replay FILE]

Verdict (DESIGN.md 3.4):
  1. proof stage   - `lake build` of the property's theorem module, axiom audit, forbidden-token grep
  2. translators   - tables regenerated from /repo's current source (where the property has any)
  3. dynamic stage - corpus + generated cases: implementation (rebuilt from /repo) vs the Lean
                     model (correspondence) and vs the Lean specification / spec checker
  4. verdict, evidence/<id>.json
Exit 0 = property held on everything explored; exit 1 + `VIOLATION property=<id> replay=<path>`.
"""
import argparse, json, os, re, shutil, subprocess, sys, time
from fractions import Fraction

ROOT = os.path.dirname(os.path.dirname(os.path.abspath(__file__)))
sys.path.insert(0, os.path.join(ROOT, 'tools'))
import props as P          # per-property configuration  (tools/props.py)
import compare as C        # field comparison             (tools/compare.py)

LEAN = os.path.join(ROOT, 'lean')
HARNESS = os.path.join(ROOT, 'harness')
DRIVER = os.path.join(LEAN, '.lake', 'build', 'bin', 'driver')
HBIN = os.path.join(HARNESS, 'target', 'release', 'verif-harness')
ALLOWED_AXIOMS = {'propext', 'Classical.choice', 'Quot.sound'}
FORBIDDEN = re.compile(r'\b(sorry|admit|native_decide|bv_decide|implemented_by|unsafe)\b|^\s*axiom\s|maxHeartbeats\s+0')


def sh(cmd, cwd=None, timeout=None, env=None, inp=None):
    e = dict(os.environ, CARGO_NET_OFFLINE='true')
    if env:
        e.update(env)
    p = subprocess.run(cmd, cwd=cwd, env=e, input=inp, stdout=subprocess.PIPE, stderr=subprocess.STDOUT,
                       text=True, timeout=timeout)
    return p.returncode, p.stdout


class Ctx:
    def __init__(self, prop, tier, seed, keep_replays=False):
        self.prop, self.tier, self.seed = prop, tier, seed
        self.cfg = P.PROPS[prop]
        self.work = os.path.join(ROOT, 'work', prop, tier)
        shutil.rmtree(self.work, ignore_errors=True)
        os.makedirs(self.work, exist_ok=True)
        rd = os.path.join(ROOT, 'work', 'replays')
        if os.path.isdir(rd) and not keep_replays:
            for f in os.listdir(rd):
                if f.startswith(prop + '_'):
                    os.remove(os.path.join(rd, f))
        self.t0 = time.time()
        self.log = []
        self.proof = dict(obligations=0, discharged=0, theorems=[], axioms={}, problems=[])
        self.translators = []
        self.stats = dict(evaluations=0, distinct=set(), nontrivial=set(), samples=[], hist={},
                          spec_fail=[], model_fail=[], impl_fail=[], known=[])

    def say(self, *a):
        msg = ' '.join(str(x) for x in a)
        self.log.append(msg)
        print(msg, flush=True)


# ------------------------------------------------------------------------------------------
# builds

def build_lean(ctx, targets):
    rc, out = sh(['lake', 'build'] + targets, cwd=LEAN, timeout=3600)
    return rc == 0, out


def build_harness(ctx):
    rc, out = sh(['cargo', 'build', '--release', '--offline'], cwd=HARNESS, timeout=3600)
    return rc == 0, out


# ------------------------------------------------------------------------------------------
# proof stage

def strip_comments(src):
    """remove Lean block comments (they nest) and line comments"""
    out, depth, i = [], 0, 0
    while i < len(src):
        if src.startswith('/-', i):
            depth += 1
            i += 2
        elif src.startswith('-/', i) and depth > 0:
            depth -= 1
            i += 2
        else:
            if depth == 0:
                out.append(src[i])
            elif src[i] == '\n':
                out.append('\n')
            i += 1
    return re.sub(r'--.*', '', ''.join(out))


def theorem_names(path):
    """fully qualified names of the public theorems of a Lean file (namespace tracking; `private` ones are reached through the public ones)"""
    src = strip_comments(open(path).read())
    stack, out = [], []
    for line in src.splitlines():
        m = re.match(r'^\s*namespace\s+([A-Za-z0-9_.]+)', line)
        if m:
            stack.append(m.group(1))
            continue
        m = re.match(r'^\s*end\s+([A-Za-z0-9_.]+)\s*$', line)
        if m and stack and stack[-1] == m.group(1):
            stack.pop()
            continue
        m = re.match(r'^\s*(?:@\[[^\]]*\]\s*)?(private\s+|protected\s+)?theorem\s+([A-Za-z0-9_.\']+)', line)
        if m and not (m.group(1) or '').startswith('private'):
            out.append('.'.join(stack + [m.group(2)]))
    return out


def lean_sources():
    out = []
    for base, _, files in os.walk(LEAN):
        if '.lake' in base:
            continue
        for f in files:
            if f.endswith('.lean'):
                out.append(os.path.join(base, f))
    return sorted(out)


def proof_stage(ctx):
    """Build the property's theorem module(s), audit axioms, grep for forbidden tokens."""
    pr = ctx.proof
    mods = [ctx.cfg.get('lean_module', 'GraphrsModel.Props.' + ctx.prop)] + ctx.cfg.get('extra_modules', [])
    pr['modules'] = mods
    paths = []
    for mod in mods:
        path = os.path.join(LEAN, *mod.split('.')) + '.lean'
        if not os.path.exists(path):
            pr['problems'].append(f'theorem module {mod} is missing')
            return
        paths.append(path)
    for f in lean_sources():
        for i, line in enumerate(strip_comments(open(f).read()).splitlines(), 1):
            if FORBIDDEN.search(line):
                pr['problems'].append(f'forbidden token in {os.path.relpath(f, ROOT)}:{i}: {line.strip()[:80]}')
    ok, out = build_lean(ctx, mods + ['driver'])
    names = [n for path in paths for n in theorem_names(path)]
    pr['obligations'] = len(names)
    pr['theorems'] = names
    if not ok:
        pr['problems'].append('lake build failed for ' + ' '.join(mods) + ':\n' + out[-3000:])
        return
    audit = os.path.join(ctx.work, 'Audit.lean')
    with open(audit, 'w') as f:
        for mod in mods:
            f.write(f'import {mod}\n')
        for n in names:
            f.write(f'#print axioms {n}\n')
    rc, out = sh(['lake', 'env', 'lean', audit], cwd=LEAN, timeout=1800)
    if rc != 0:
        pr['problems'].append('axiom audit failed to run:\n' + out[-2000:])
        return
    # parse "'X' depends on axioms: [a, b]" / "'X' does not depend on any axioms"
    found = {}
    for m in re.finditer(r"'([^'\s]+'*)' depends on axioms: \[([^\]]*)\]", out.replace('\n', ' ')):
        found[m.group(1)] = [a.strip() for a in m.group(2).split(',') if a.strip()]
    for m in re.finditer(r"'([^'\s]+'*)' does not depend on any axioms", out):
        found[m.group(1)] = []
    for n in names:
        if n not in found:
            pr['problems'].append(f'no axiom report for {n}')
            continue
        ax = found[n]
        pr['axioms'][n] = ax
        bad = [a for a in ax if a not in ALLOWED_AXIOMS]
        if bad:
            pr['problems'].append(f'{n} depends on non-standard axioms {bad}')
        else:
            pr['discharged'] += 1
    if ctx.tier == 'thorough' and not pr['problems']:
        for mod in mods:
            rc, out = sh(['lake', 'env', 'leanchecker', mod], cwd=LEAN, timeout=3600)
            pr['leanchecker'] = 'ok' if rc == 0 else 'FAILED: ' + out[-500:]
            if rc != 0:
                pr['problems'].append('leanchecker rejected ' + mod)


# ------------------------------------------------------------------------------------------
# dynamic stage

def run_requests(ctx, req_path, tag, timeout=1800):
    """implementation and model observations for a request file -> list of (req, impl, model)."""
    impl_path = os.path.join(ctx.work, tag + '.impl')
    model_path = os.path.join(ctx.work, tag + '.model')
    henv = {'RAYON_NUM_THREADS': os.environ.get('RAYON_NUM_THREADS', '4')}
    rc, out = sh([HBIN, 'run', req_path, impl_path], timeout=timeout, env=henv)
    reqs = [l.rstrip('\n') for l in open(req_path) if l.strip()]
    if rc != 0:
        # the harness process died (an abort that catch_unwind cannot intercept: allocation failure, stack overflow, ...):
        # bisect for the request that kills it, record that as the implementation's observation, and run the others
        def dies(sub):
            pth = os.path.join(ctx.work, tag + '.bisect')
            with open(pth, 'w') as f:
                f.write('\n'.join(sub) + '\n')
            r, o = sh([HBIN, 'run', pth, pth + '.out'], timeout=timeout, env=henv)
            return r != 0, o
        # at most three killers are isolated (by bisection inside the first dying chunks); chunks that still die afterwards are
        # left out of this run (no verdict for their requests)
        killers, kept, kept_impl = {}, [], []
        CH = 400
        for c0 in range(0, len(reqs), CH):
            chunk = reqs[c0:c0 + CH]
            for _ in range(4):
                d, o = dies(chunk)
                if not d:
                    kept += chunk
                    kept_impl += [l.rstrip('\n') for l in open(os.path.join(ctx.work, tag + '.bisect.out'))]
                    break
                if len(killers) >= 3:
                    break
                lo, hi = 0, len(chunk)
                while hi - lo > 1:
                    mid = (lo + hi) // 2
                    if dies(chunk[lo:mid])[0]:
                        hi = mid
                    else:
                        lo = mid
                d1, o1 = dies(chunk[lo:hi])
                if not d1:
                    break
                msg = [l for l in o1.splitlines() if l.strip()]
                killers[chunk[lo]] = 'i.abort=the process died: ' + (msg[0][:200] if msg else 'no message').replace('|', '/')
                kept.append(chunk[lo])
                kept_impl.append(killers[chunk[lo]])
                chunk = chunk[:lo] + chunk[hi:]
        if not killers:
            raise RuntimeError('harness run failed: ' + out[-2000:])
        reqs, impls = kept, kept_impl
    else:
        impls = [l.rstrip('\n') for l in open(impl_path)]
    # the Lean spec checkers see the implementation's answer: its integer encoding (`i.tok`)
    # is appended to the request after a separator token
    din_path = os.path.join(ctx.work, tag + '.din')
    with open(din_path, 'w') as f:
        for r, i in zip(reqs, impls):
            m = re.search(r'(?:^|\|)i\.tok=([^|]*)', i)
            f.write(r + (' 777777 ' + m.group(1) if m else '') + '\n')
    with open(din_path) as f, open(model_path, 'w') as g:
        p = subprocess.run([DRIVER], stdin=f, stdout=g, stderr=subprocess.PIPE, text=True, timeout=timeout)
    if p.returncode != 0:
        raise RuntimeError('driver failed: ' + p.stderr[-2000:])
    models = [l.rstrip('\n') for l in open(model_path)]
    if not (len(reqs) == len(impls) == len(models)):
        raise RuntimeError(f'line count mismatch {len(reqs)} {len(impls)} {len(models)}')
    return list(zip(reqs, impls, models))


def evaluate(ctx, triples, record=True):
    """Compare; returns list of failures (req, kind, details)."""
    fails = []
    for req, impl, model in triples:
        res = C.compare_case(ctx.cfg, req, impl, model)
        if record:
            st = ctx.stats
            st['evaluations'] += 1
            st['distinct'].add(req)
            if res['nontrivial']:
                st['nontrivial'].add(req)
            for k in res['hist']:
                st['hist'][k] = st['hist'].get(k, 0) + 1
            if len(st['samples']) < 3 and res['nontrivial']:
                st['samples'].append(req[:400])
        if res['spec'] or res['model'] or res['impl']:
            fails.append((req, res))
    return fails


def one_request(ctx, req, tag):
    path = os.path.join(ctx.work, tag + '.req')
    with open(path, 'w') as f:
        f.write(req + '\n')
    return run_requests(ctx, path, tag)[0]


def shrink(ctx, req, key, budget=400):
    """Greedy shrinking with the harness' candidate generator; `key(res)` says 'still fails'."""
    cur = req
    steps = 0
    improved = True
    t0 = time.time()
    limit = float(ctx.cfg.get('shrink_seconds', 120))
    while improved and steps < budget and time.time() - t0 < limit:
        improved = False
        path = os.path.join(ctx.work, 'shrink.cur')
        with open(path, 'w') as f:
            f.write(cur + '\n')
        rc, out = sh([HBIN, 'candidates', path], timeout=120)
        cands = [l for l in out.splitlines() if l.strip()][:int(ctx.cfg.get('shrink_candidates', 200))]
        if not cands:
            break
        cpath = os.path.join(ctx.work, 'shrink.req')
        # candidates go to the two sides in batches, so that the time limit is honoured on large cases too
        batch = 200 if len(cur) < 600 else 16
        for b0 in range(0, len(cands), batch):
            if time.time() - t0 >= limit:
                break
            with open(cpath, 'w') as f:
                f.write('\n'.join(cands[b0:b0 + batch]) + '\n')
            try:
                triples = run_requests(ctx, cpath, 'shrink')
            except Exception:
                triples = []
            for r, i, m in triples:
                steps += 1
                res = C.compare_case(ctx.cfg, r, i, m)
                if key(res) and len(r) < len(cur):
                    cur = r
                    improved = True
                    break
            if improved:
                break
    return cur


def corpus_requests(ctx):
    d = os.path.join(ROOT, 'corpus')
    out = []
    for name in sorted(os.listdir(d)) if os.path.isdir(d) else []:
        if name.startswith(ctx.prop + '_') or name.startswith('all_'):
            out += [l.strip() for l in open(os.path.join(d, name)) if l.strip() and not l.startswith('#')]
    fam = {g[0] for g in ctx.cfg.get('gens', [])} | set(ctx.cfg.get('families', []))
    return [l for l in out if l.split()[0] in fam]


def dynamic_stage(ctx, seed, scale=1.0, tag='gen'):
    fails = []
    cor = corpus_requests(ctx) if tag == 'gen' else []
    if cor:
        path = os.path.join(ctx.work, 'corpus.req')
        open(path, 'w').write('\n'.join(cor) + '\n')
        fails += evaluate(ctx, run_requests(ctx, path, 'corpus'))
        ctx.stats['hist']['corpus_cases'] = len(cor)
    for gi, g in enumerate(ctx.cfg.get('gens', [])):
        family, profile, count_q, count_t, size = g
        # thorough tier: the configured count times VERIF_THOROUGH_SCALE (default 3; per-property override `thorough_scale`)
        tscale = float(os.environ.get('VERIF_THOROUGH_SCALE', ctx.cfg.get('thorough_scale', 3)))
        # quick tier: the configured count times VERIF_QUICK_SCALE (default 2; per-property override `quick_scale`)
        qscale = float(os.environ.get('VERIF_QUICK_SCALE', ctx.cfg.get('quick_scale', 2)))
        count = int((count_q * qscale if ctx.tier == 'quick' else count_t * tscale) * scale)
        path = os.path.join(ctx.work, f'{tag}{gi}.req')
        rc, out = sh([HBIN, 'gen', family, profile, str(seed + gi), str(count), str(size), path], timeout=1800)
        if rc != 0:
            raise RuntimeError('harness gen failed: ' + out[-2000:])
        fails += evaluate(ctx, run_requests(ctx, path, f'{tag}{gi}'))
    return fails


# ------------------------------------------------------------------------------------------
# verdict

def known_findings(prop):
    out = []
    p = os.path.join(ROOT, 'known_findings.txt')
    if os.path.exists(p):
        for line in open(p):
            m = re.match(r'finding: property=(\S+) key=(.*?) :: (.*)', line.strip())
            if m and m.group(1) == prop:
                out.append((m.group(2).strip(), m.group(3)))
    return out


def write_replay(ctx, name, payload):
    d = os.path.join(ROOT, 'work', 'replays')
    os.makedirs(d, exist_ok=True)
    path = os.path.join(d, f'{ctx.prop}_{name}.json')
    json.dump(payload, open(path, 'w'), indent=1)
    return path


def write_evidence(ctx, violations):
    pr, st = ctx.proof, ctx.stats
    cfg = ctx.cfg
    ev = {
        'property_id': ctx.prop,
        'tier': ctx.tier,
        'seed': ctx.seed,
        'level': cfg.get('level', 'proof'),
        'coverage': {
            'obligations': pr['obligations'],
            'discharged': pr['discharged'],
            'checker_cmd': f"cd lean && lake build {' '.join(pr.get('modules', []))} && "
                           "lake env lean <generated #print axioms file>"
                           + (' && lake env leanchecker <module>' if ctx.tier == 'thorough' else ''),
            'trusted_base': ['Lean 4.33 kernel', 'axioms: ' + ', '.join(sorted({a for v in pr['axioms'].values() for a in v}) or ['none']),
                             'hand-written Lean model tied to /repo by the correspondence run below (bounded, sampled)',
                             'tools/check.py, tools/compare.py, harness generators and canonicalisation',
                             'Lean compiler/runtime for the driver executable'] + cfg.get('trusted_extra', []),
            'theorems': pr['theorems'],
            'axioms_per_theorem': pr['axioms'],
            'proof_problems': pr['problems'],
            'translators': ctx.translators,
            'changed_sources': getattr(ctx, 'changed_sources', []),
            'evaluations': st['evaluations'],
            'distinct_nontrivial': len(st['nontrivial']),
            'rule': cfg.get('rule', ''),
            'samples': st['samples'] or ['(no dynamic cases in this run)'],
            'distribution': {k: st['hist'][k] for k in sorted(st['hist'])},
            'traces_validated_against_impl': st['evaluations'],
            'spec_failures': len(st['spec_fail']),
            'correspondence_disagreements': len(st['model_fail']),
            'known_findings_hit': st['known'],
            'explanation': cfg.get('explanation', ''),
        },
        'assumptions': cfg.get('assumptions', []),
        'wall_s': round(time.time() - ctx.t0, 2),
        'violations': violations,
    }
    if pr.get('leanchecker'):
        ev['coverage']['leanchecker'] = pr['leanchecker']
    # tools/seeded.py runs the checks against a deliberately broken tree: those runs must not overwrite the evidence
    evdir = os.environ.get('VERIF_EVIDENCE_DIR') or os.path.join(ROOT, 'evidence')
    os.makedirs(evdir, exist_ok=True)
    json.dump(ev, open(os.path.join(evdir, ctx.prop + '.json'), 'w'), indent=1)


def finish(ctx, violations_lines):
    write_evidence(ctx, len(violations_lines))
    for l in violations_lines:
        print(l, flush=True)
    sys.exit(1 if violations_lines else 0)


def main():
    ap = argparse.ArgumentParser()
    ap.add_argument('prop')
    ap.add_argument('--tier', default=os.environ.get('VERIF_TIER', 'quick'))
    ap.add_argument('--replay')
    a = ap.parse_args()
    if a.tier not in ('quick', 'thorough'):
        a.tier = 'quick'
    seed = int(os.environ.get('VERIF_SEED', '20260929'))
    if a.prop not in P.PROPS:
        print('unknown property', a.prop)
        sys.exit(2)
    ctx = Ctx(a.prop, a.tier, seed, keep_replays=bool(a.replay))

    # -- builds --------------------------------------------------------------------------
    okh, outh = build_harness(ctx)
    if not okh:
        rp = write_replay(ctx, 'harness_build', {'property': a.prop, 'broken': 'harness no longer builds against /repo '
                          '(correspondence cannot be run)', 'compiler_output': outh[-6000:]})
        proof_stage(ctx)
        finish(ctx, [f'VIOLATION property={a.prop} replay={rp} no-failing-input-found'])

    if a.replay:
        payload = json.load(open(a.replay))
        bad = 0
        for req in payload.get('requests', []):
            ok, _ = build_lean(ctx, ['driver'])
            r, i, m = one_request(ctx, req, 'replay')
            res = C.compare_case(ctx.cfg, r, i, m)
            print(json.dumps({'request': r, 'spec': res['spec'], 'model': res['model'], 'impl': res['impl']}, indent=1))
            if res['spec'] or res['impl']:
                bad += 1
        sys.exit(1 if bad else 0)

    # translators first: what they regenerate from /repo's current source (Generated/*.lean) is compiled and checked by the
    # proof stage of this very run
    for t in ctx.cfg.get('translators', []):
        ctx.translators.append(P.run_translator(ctx, t))
    proof_stage(ctx)
    ctx.say(f'[{a.prop}] proof stage: {ctx.proof["discharged"]}/{ctx.proof["obligations"]} theorems audited, '
            f'{len(ctx.proof["problems"])} problem(s)')
    proof_broken = list(ctx.proof['problems']) + [t['problem'] for t in ctx.translators if t.get('problem')]

    # -- dynamic ---------------------------------------------------------------------------
    lines = []
    # change-aware depth: when the Rust sources the model mirrors differ from the recorded fingerprints, search deeper
    # (no alarm by itself - see tools/fingerprint.py)
    import fingerprint as FP
    ctx.changed_sources = FP.changed(a.prop)
    base_scale = 1.0
    if ctx.changed_sources:
        base_scale = float(os.environ.get('VERIF_CHANGED_SCALE', 6 if a.tier == 'quick' else 2))
        ctx.say(f'[{a.prop}] modelled sources changed since the model was validated ({", ".join(ctx.changed_sources)}): searching {base_scale:g}x deeper')
    try:
        fails = dynamic_stage(ctx, seed, scale=base_scale)
    except Exception as e:  # the machinery itself broke: the property is no longer shown to hold
        rp = write_replay(ctx, 'machinery', {'property': a.prop, 'broken': 'dynamic stage could not run', 'error': str(e)[-4000:]})
        finish(ctx, [f'VIOLATION property={a.prop} replay={rp} no-failing-input-found'])

    for extra in ctx.cfg.get('extra_checks', []):
        fails += P.run_extra(ctx, extra)

    spec_f = [(r, x) for r, x in fails if x['spec'] or x['impl']]
    model_f = [(r, x) for r, x in fails if x['model'] and not (x['spec'] or x['impl'])]
    ctx.stats['spec_fail'] = [r for r, _ in spec_f]
    ctx.stats['model_fail'] = [r for r, _ in model_f]

    if not spec_f and (model_f or proof_broken):
        # the property is no longer shown to hold: widened search for a concrete failing input
        ctx.say(f'[{a.prop}] proof/correspondence broken ({len(model_f)} disagreement(s), {len(proof_broken)} proof problem(s)); widened search')
        for k in range(1, 4 if a.tier == 'quick' else 10):
            more = dynamic_stage(ctx, seed + 1000 * k, scale=2.0, tag=f'wide{k}_')
            spec_f = [(r, x) for r, x in more if x['spec'] or x['impl']]
            if spec_f:
                break

    kf = known_findings(a.prop)
    if spec_f:
        # shrink the smallest of the failing requests
        req, res = min(spec_f, key=lambda t: (t[0].split()[0] == 'extra', len(t[0])))
        small = req
        if req.split()[0] not in ('extra',):
            small = shrink(ctx, req, lambda x: bool(x['spec'] or x['impl']))
        r, i, m = one_request(ctx, small, 'final') if small.split()[0] != 'extra' else (small, '', '')
        res2 = C.compare_case(ctx.cfg, r, i, m) if i else res
        hit = [k for k in kf if k[0] == small]
        if hit:
            print(f'KNOWN-FINDING: property={a.prop} {hit[0][1]}')
            ctx.stats['known'].append(small)
        else:
            rp = write_replay(ctx, 'violation', {'property': a.prop, 'requests': [small], 'original_request': req,
                              'spec_failures': (res2['spec'] or res['spec'])[:10], 'impl_failures': (res2['impl'] or res['impl'])[:10],
                              'how': f'python3 tools/check.py {a.prop} --replay <this file>'})
            lines.append(f'VIOLATION property={a.prop} replay={rp}')
    elif model_f or proof_broken:
        payload = {'property': a.prop, 'no_failing_input_found': True}
        if proof_broken:
            payload['broken_proof_obligations'] = proof_broken
        if model_f:
            req, res = model_f[0]
            small = shrink(ctx, req, lambda x: bool(x['model']))
            payload['broken_correspondence'] = {'requests': [small], 'disagreements': res['model'][:10]}
            payload['requests'] = [small]
        rp = write_replay(ctx, 'unproved', payload)
        lines.append(f'VIOLATION property={a.prop} replay={rp} no-failing-input-found')
    ctx.say(f'[{a.prop}] {ctx.stats["evaluations"]} cases, {len(ctx.stats["nontrivial"])} distinct non-trivial, '
            f'{len(spec_f)} spec failure(s), {len(model_f)} correspondence disagreement(s), '
            f'{round(time.time() - ctx.t0, 1)}s')
    finish(ctx, lines)


if __name__ == '__main__':
    main()
