#!/usr/bin/env python3
"""Regenerates /verif/MANIFEST.json from tools/props.py and tools/manifest_text.py."""
import json, os, sys
ROOT = os.path.dirname(os.path.dirname(os.path.abspath(__file__)))
sys.path.insert(0, os.path.join(ROOT, 'tools'))
import props as P
import manifest_text as T

all_ids = [json.loads(l)['id'] for l in open(os.path.join(ROOT, 'properties.jsonl'))]
checks = []
for pid in all_ids:
    if pid not in P.PROPS or pid not in T.TEXT:
        continue
    t = T.TEXT[pid]
    checks.append({
        'property_id': pid,
        'quick_cmd': f'python3 tools/check.py {pid} --tier quick',
        'thorough_cmd': f'python3 tools/check.py {pid} --tier thorough',
        'evidence_file': f'/verif/evidence/{pid}.json',
        'replay_cmd_template': f'python3 tools/check.py {pid} --replay {{path}}',
        'engine': 'lean-proof+correspondence',
        'level_claimed': {'category': P.PROPS[pid].get('level', 'proof'), 'text': t['level'], 'design_ref': t.get('ref', 'DESIGN.md section 5')},
        'level_note': t['note'],
        'technique': t['technique'],
    })
man = {
    'version': 1,
    'setup_cmd': 'bash tools/setup.sh',
    'hooks': {
        'guard': 'cargo feature verif_hooks',
        'enable': 'the harness crate /verif/harness depends on /repo by path with features ["verif_hooks", "adjacency_matrix"]',
        'baseline_off_cmd': 'python3 /verif/tools/baseline.py',
        'source_commits': T.HOOK_COMMITS,
        'add_only': True,
    },
    'engines': [
        {'name': 'lean-proof+correspondence', 'path': '/verif/lean, /verif/harness, /verif/tools/check.py',
         'serves_properties': [c['property_id'] for c in checks],
         'kind_free_text': 'Lean 4 theorems about a hand-written executable model (lake project GraphrsModel), a Rust harness that runs '
                           'the real crate and a native Lean driver that runs the model and the specification on the same cases; '
                           'tools/check.py builds, audits axioms, compares, shrinks and writes evidence'}],
    'checks': checks,
    'notes': T.NOTES,
    'not_applicable': [{'property_id': pid, 'reason': T.NOT_APPLICABLE.get(pid, 'check not yet registered (framework under construction)')}
                       for pid in all_ids if pid not in {c['property_id'] for c in checks}],
}
json.dump(man, open(os.path.join(ROOT, 'MANIFEST.json'), 'w'), indent=1)
print('MANIFEST.json:', len(checks), 'checks,', len(man['not_applicable']), 'not applicable')
