#!/bin/bash
# Build the framework offline from files on disk: the Lean project (model, theorems, driver)
# and the Rust harness (path dependency on /repo, feature verif_hooks).
set -e
cd "$(dirname "$0")/.."
export CARGO_NET_OFFLINE=true
(cd lean && lake build GraphrsModel GraphrsModel.AllProps driver)
(cd harness && cargo build --release --offline)
mkdir -p work evidence
echo setup done
