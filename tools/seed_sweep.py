#!/usr/bin/env python3
"""Run the quick check of its property against EVERY confirmed seeded change, in parallel on private copies.

    python3 tools/seed_sweep.py [workers] [only-ids...]

Each worker owns /tmp/sw_<k>/repo (a detached worktree of /repo) and /tmp/sw_<k>/verif (a copy of /verif whose harness
depends on that worktree; tools honour VERIF_REPO). /repo itself and /verif/evidence are never touched. Result:
work/seed_sweep.json ({seed: {property, exit, violation}}) and a summary on stdout."""
import json, os, re, shutil, subprocess, sys, threading, queue, time

ROOT = os.path.dirname(os.path.dirname(os.path.abspath(__file__)))


def sh(cmd, cwd=None, env=None, timeout=3600):
    p = subprocess.run(cmd, cwd=cwd, env=env, stdout=subprocess.PIPE, stderr=subprocess.STDOUT, text=True, shell=isinstance(cmd, str), timeout=timeout)
    return p.returncode, p.stdout


def setup(k):
    base = f'/tmp/sw_{k}'
    sh(['git', '-C', '/repo', 'worktree', 'remove', '--force', base + '/repo'])
    shutil.rmtree(base, ignore_errors=True)
    os.makedirs(base)
    rc, out = sh(['git', '-C', '/repo', 'worktree', 'add', '--detach', base + '/repo', 'HEAD'])
    assert rc == 0, out
    sh(f'rsync -a --exclude .git --exclude work --exclude seeded /verif/ {base}/verif/')
    os.makedirs(base + '/verif/work', exist_ok=True)
    ct = base + '/verif/harness/Cargo.toml'
    s = open(ct).read().replace('path = "/repo"', f'path = "{base}/repo"')
    open(ct, 'w').write(s)
    return base


def worker(k, q, results):
    base = setup(k)
    env = dict(os.environ, VERIF_REPO=base + '/repo', VERIF_EVIDENCE_DIR=base + '/verif/work/ev', CARGO_NET_OFFLINE='true')
    while True:
        try:
            sid = q.get_nowait()
        except queue.Empty:
            break
        prop = sid.split('_')[1]
        patch = os.path.join(ROOT, 'seeded', sid, 'patch.diff')
        sh(['git', 'checkout', '--', '.'], cwd=base + '/repo')
        rc, out = sh(['git', 'apply', patch], cwd=base + '/repo')
        if rc != 0:
            results[sid] = {'property': prop, 'exit': None, 'violation': 'PATCH DOES NOT APPLY'}
            continue
        t0 = time.time()
        try:
            rc, out = sh(['python3', base + '/verif/tools/check.py', prop, '--tier', 'quick'], cwd=base + '/verif', env=env, timeout=2400)
        except subprocess.TimeoutExpired:
            rc, out = -1, 'TIMEOUT'
        vio = [l for l in out.splitlines() if l.startswith('VIOLATION')]
        results[sid] = {'property': prop, 'exit': rc, 'violation': vio[0] if vio else None, 'wall_s': round(time.time() - t0, 1)}
        detail = ''
        m = re.search(r'replay=(\S+)', vio[0]) if vio else None
        if m and os.path.exists(m.group(1)):
            try:
                d = json.load(open(m.group(1)))
                detail = {'requests': [r[:2000] for r in d.get('requests', [])[:1]], 'spec': (d.get('spec_failures') or [])[:2], 'impl': (d.get('impl_failures') or [])[:2]}
            except Exception:
                pass
        mp = os.path.join(ROOT, 'seeded', sid, 'meta.json')
        try:
            meta = json.load(open(mp))
            meta.setdefault('checks_run', {})[prop] = {'exit': rc, 'violation': re.sub(r'/tmp/sw_\d+/verif', '/verif', vio[0]) if vio else None, 'detail': detail, 'wall_s': results[sid]['wall_s'], 'how': 'tools/seed_sweep.py'}
            json.dump(meta, open(mp, 'w'), indent=1)
        except Exception:
            pass
        print(f'[{sid}] exit {rc} {vio[0][:90] if vio else "(no violation reported)"} {results[sid]["wall_s"]}s', flush=True)
    sh(['git', 'checkout', '--', '.'], cwd=base + '/repo')
    sh(['git', '-C', '/repo', 'worktree', 'remove', '--force', base + '/repo'])
    shutil.rmtree(base, ignore_errors=True)


def main():
    workers = int(sys.argv[1]) if len(sys.argv) > 1 else 4
    ids = sys.argv[2:] or sorted(d for d in os.listdir(os.path.join(ROOT, 'seeded')) if os.path.isdir(os.path.join(ROOT, 'seeded', d)))
    q = queue.Queue()
    for s in ids:
        q.put(s)
    results = {}
    ts = [threading.Thread(target=worker, args=(k, q, results)) for k in range(workers)]
    for t in ts:
        t.start()
    for t in ts:
        t.join()
    json.dump(results, open(os.path.join(ROOT, 'work', 'seed_sweep.json'), 'w'), indent=1, sort_keys=True)
    missed = [s for s, r in results.items() if r['exit'] != 1 or not r['violation']]
    noinput = [s for s, r in results.items() if r['violation'] and 'no-failing-input-found' in r['violation']]
    print(f'{len(results)} seeds: {len(results) - len(missed)} reported, of which {len(noinput)} without a failing input: {noinput}; not reported: {missed}')


if __name__ == '__main__':
    main()
