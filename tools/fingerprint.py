#!/usr/bin/env python3
"""Fingerprints of the Rust sources each property's model was validated against.

    python3 tools/fingerprint.py --update     # record the fingerprints of /repo's current sources (tools/source_fingerprints.json)

check.py compares the current sources with the recorded fingerprints. A difference is NOT a violation and raises no alarm:
it only makes the dynamic stage of that property search deeper (VERIF_CHANGED_SCALE, default 6x the quick counts), because
a hand-written model cannot notice by itself that the code it mirrors has been edited - the correspondence run has to.
Comments and whitespace are ignored.
"""
import hashlib, json, os, re, sys

ROOT = os.path.dirname(os.path.dirname(os.path.abspath(__file__)))
REPO = os.environ.get('VERIF_REPO', '/repo')
PATH = os.path.join(ROOT, 'tools', 'source_fingerprints.json')
# files every store-based model depends on
STORE = ['src/graph/creation.rs', 'src/graph/mod.rs', 'src/graph/query.rs', 'src/graph_specs.rs', 'src/edge.rs', 'src/node.rs']


def normalise(src):
    src = re.sub(r'/\*.*?\*/', '', src, flags=re.S)
    src = re.sub(r'//[^\n]*', '', src)
    return re.sub(r'\s+', '', src)


def files_for(prop):
    out = set(STORE)
    for line in open(os.path.join(ROOT, 'properties.jsonl')):
        d = json.loads(line)
        if d['id'] == prop:
            for f in d.get('anchors', {}).get('files', []):
                if f.endswith('.rs'):
                    out.add(f)
    return sorted(out)


def current(prop):
    fp = {}
    for f in files_for(prop):
        p = os.path.join(REPO, f)
        if os.path.isdir(p):
            continue
        fp[f] = hashlib.sha256(normalise(open(p, errors='replace').read()).encode()).hexdigest()[:16] if os.path.exists(p) else 'missing'
    return fp


def changed(prop):
    """files whose normalised text differs from the recorded fingerprint (empty when nothing is recorded)"""
    if not os.path.exists(PATH):
        return []
    rec = json.load(open(PATH)).get(prop, {})
    cur = current(prop)
    return sorted(f for f in cur if f in rec and rec[f] != cur[f]) + sorted(f for f in rec if f not in cur)


if __name__ == '__main__':
    if '--update' in sys.argv:
        props = [json.loads(l)['id'] for l in open(os.path.join(ROOT, 'properties.jsonl'))]
        json.dump({p: current(p) for p in props}, open(PATH, 'w'), indent=1, sort_keys=True)
        print('recorded', PATH)
    else:
        for p in sys.argv[1:]:
            print(p, changed(p))
