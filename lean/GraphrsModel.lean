import GraphrsModel.Base
import GraphrsModel.Model.Store
import GraphrsModel.Model.Query
import GraphrsModel.Spec.Abs
import GraphrsModel.Obs
import GraphrsModel.Model.Dijkstra
import GraphrsModel.Spec.Paths
import GraphrsModel.Model.Centrality
