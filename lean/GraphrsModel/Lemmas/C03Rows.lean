/-
  `Abs.minW` algebra and the effect of `adjUpdate` (`add_to_adjacency_vec`) on the minimum
  listed weight of a traversal row.
-/
import GraphrsModel.Lemmas.C03AList
namespace Graphrs
namespace C03

/-- "minimum with `w`", keeping the old value on ties and on NaN -/
def gmin (w m : W) : W := if W.lt w m then w else m

theorem gmin_self (w : W) : gmin w w = w := by
  unfold gmin; split <;> rfl

theorem gmin_comm (w x m : W) : gmin w (gmin x m) = gmin x (gmin w m) := by
  unfold gmin W.lt
  cases w <;> cases x <;> cases m <;> simp
  rename_i a b c
  by_cases h1 : b < c <;> by_cases h2 : a < c <;> simp [h1, h2]
  · by_cases h3 : a < b <;> by_cases h4 : b < a <;> simp [h3, h4] <;> omega
  · intro h; omega
  · intro h; omega

theorem gmin_idem (w m : W) : gmin w (gmin w m) = gmin w m := by
  unfold gmin W.lt
  cases w <;> cases m <;> simp
  rename_i a b
  by_cases h : a < b <;> simp [h]

theorem foldl_gmin (w a : W) (t : List W) :
    t.foldl (fun m x => if W.lt x m then x else m) (gmin w a) =
      gmin w (t.foldl (fun m x => if W.lt x m then x else m) a) := by
  induction t generalizing a with
  | nil => rfl
  | cons x t ih =>
    simp only [List.foldl_cons]
    have h1 : (if W.lt x (gmin w a) then x else gmin w a) = gmin w (gmin x a) := by
      rw [gmin_comm]; rfl
    rw [h1]
    exact ih (gmin x a)

theorem minW_cons (a : W) (t : List W) :
    Abs.minW (a :: t) = some (t.foldl (fun m x => if W.lt x m then x else m) a) := rfl

theorem minW_isSome (l : List W) : (Abs.minW l).isSome = !l.isEmpty := by
  cases l <;> rfl

theorem minW_eq_none (l : List W) : Abs.minW l = none ↔ l = [] := by
  cases l <;> simp [Abs.minW]

/-- what appending one weight does to the minimum -/
def mpush (m : Option W) (w : W) : W :=
  match m with
  | none => w
  | some m => gmin w m

theorem minW_append_single (ws : List W) (w : W) :
    Abs.minW (ws ++ [w]) = some (mpush (Abs.minW ws) w) := by
  cases ws with
  | nil => rfl
  | cons a t =>
    simp only [List.cons_append, minW_cons, List.foldl_append, List.foldl_cons, List.foldl_nil,
      mpush]
    rfl

theorem minW_gmin_cons (w a : W) (t : List W) :
    Abs.minW (gmin w a :: t) = (Abs.minW (a :: t)).map (gmin w) := by
  simp only [minW_cons, Option.map_some, foldl_gmin]

theorem minW_map_const (w : W) (l : List W) :
    Abs.minW (l.map (fun _ => w)) = (Abs.minW l).map (fun _ => w) := by
  cases l with
  | nil => rfl
  | cons a t =>
    simp only [List.map_cons, minW_cons, Option.map_some]
    congr 1
    induction t with
    | nil => rfl
    | cons b t ih =>
      simp only [List.map_cons, List.foldl_cons]
      have : (if W.lt w w then w else w) = w := by split <;> rfl
      rw [this]; exact ih

/-- the effect of one `add_to_adjacency_vec` call on the minimum listed weight of the pair -/
def eff (upd : AdjUpd) (w : W) (m : Option W) : Option W :=
  match upd with
  | .push => some (mpush m w)
  | .keepMin => m.map (gmin w)
  | .overwrite => m.map (fun _ => w)
  | .untouched => m

theorem eff_isSome (upd : AdjUpd) (w : W) (m : Option W) :
    (eff upd w m).isSome = (m.isSome || decide (upd = .push)) := by
  cases upd <;> cases m <;> simp [eff]

/-- applying the same update twice (undirected self-loop) is the same as applying it once,
    provided a `push` starts from "no entry" -/
theorem eff_idem (upd : AdjUpd) (w : W) (m : Option W) (h : upd = .push → m = none) :
    eff upd w (eff upd w m) = eff upd w m := by
  cases upd
  · simp [h rfl, eff, mpush, gmin_self]
  · cases m <;> simp [eff, gmin_idem]
  · cases m <;> simp [eff]
  · rfl

/-- the weights listed for `j` in a row -/
def wts (row : List Adj) (j : Nat) : List W := (row.filter (·.1 == j)).map (·.2)

theorem wts_nil (j : Nat) : wts [] j = [] := rfl

theorem wts_cons (a : Adj) (row : List Adj) (j : Nat) :
    wts (a :: row) j = if a.1 = j then a.2 :: wts row j else wts row j := by
  unfold wts
  by_cases h : a.1 = j <;> simp [h]

theorem wts_append (r1 r2 : List Adj) (j : Nat) : wts (r1 ++ r2) j = wts r1 j ++ wts r2 j := by
  simp [wts]

theorem wts_ne_nil_iff (row : List Adj) (j : Nat) : wts row j ≠ [] ↔ ∃ a ∈ row, a.1 = j := by
  induction row with
  | nil => simp [wts]
  | cons a r ih =>
    rw [wts_cons]
    by_cases h : a.1 = j
    · simp [h]
    · simp only [h, if_false, ih, List.mem_cons]
      constructor
      · rintro ⟨b, hb, hj⟩; exact ⟨b, Or.inr hb, hj⟩
      · rintro ⟨b, hb | hb, hj⟩
        · subst hb; exact absurd hj h
        · exact ⟨b, hb, hj⟩

theorem any_eq_wts (row : List Adj) (j : Nat) :
    row.any (·.1 == j) = (Abs.minW (wts row j)).isSome := by
  rw [minW_isSome, Bool.eq_iff_iff]
  have := wts_ne_nil_iff row j
  simp only [List.any_eq_true, beq_iff_eq, Bool.not_eq_true', List.isEmpty_eq_false_iff]
  exact this.symm

/-- the `keepMin` mode, structurally -/
def keepMinRow (v : Nat) (w : W) : List Adj → List Adj
  | [] => []
  | a :: r => if a.1 = v then (if W.lt w a.2 then (v, w) :: r else a :: r) else a :: keepMinRow v w r

def updRow (row : List Adj) (v : Nat) (w : W) : AdjUpd → List Adj
  | .push => row ++ [(v, w)]
  | .keepMin => keepMinRow v w row
  | .overwrite => row.map (fun a => if a.1 == v then (a.1, w) else a)
  | .untouched => row

theorem keepMinRow_aux (v : Nat) (w : W) (row : List Adj) (h : ∃ a ∈ row, a.1 = v) :
    ∃ i a, row.findIdx? (fun a => a.1 == v) = some i ∧ row[i]? = some a ∧
      keepMinRow v w row = (if W.lt w a.2 then row.set i (v, w) else row) := by
  induction row with
  | nil => simp at h
  | cons b r ih =>
    by_cases hb : b.1 = v
    · refine ⟨0, b, ?_, rfl, ?_⟩
      · simp [List.findIdx?_cons, hb]
      · simp only [keepMinRow, hb, if_true, List.set_cons_zero]
    · have h' : ∃ a ∈ r, a.1 = v := by
        obtain ⟨a, ha, hv⟩ := h
        rcases List.mem_cons.1 ha with e | e
        · subst e; exact absurd hv hb
        · exact ⟨a, e, hv⟩
      obtain ⟨i, a, h1, h2, h3⟩ := ih h'
      refine ⟨i + 1, a, ?_, ?_, ?_⟩
      · simp [List.findIdx?_cons, hb, h1]
      · simpa using h2
      · simp only [keepMinRow, hb, if_false, h3, List.set_cons_succ]
        split <;> rfl

theorem set_self {α} (l : List α) (i : Nat) (x : α) (h : l[i]? = some x) : l.set i x = l := by
  induction l generalizing i with
  | nil => rfl
  | cons a l ih =>
    cases i with
    | zero => simp at h; simp [h]
    | succ i => simp at h; simp [ih i h]

/-- `adjUpdate` succeeds and replaces row `u` by `updRow` -/
theorem adjUpdate_spec (vec : List (List Adj)) (u v : Nat) (w : W) (upd : AdjUpd) (row : List Adj)
    (hrow : vec[u]? = some row) (hk : upd = .keepMin → ∃ a ∈ row, a.1 = v) :
    adjUpdate vec u v w upd = some (vec.set u (updRow row v w upd)) := by
  unfold adjUpdate
  simp only [hrow]
  cases upd with
  | push => rfl
  | keepMin =>
    obtain ⟨i, a, h1, h2, h3⟩ := keepMinRow_aux v w row (hk rfl)
    simp only [h1, h2, updRow, h3]
    split
    · rfl
    · rw [set_self vec u row hrow]
  | overwrite => rfl
  | untouched => simp only [updRow]; rw [set_self vec u row hrow]

theorem wts_keepMinRow_ne (v : Nat) (w : W) (row : List Adj) (j : Nat) (hj : j ≠ v) :
    wts (keepMinRow v w row) j = wts row j := by
  induction row with
  | nil => rfl
  | cons a r ih =>
    simp only [keepMinRow]
    by_cases ha : a.1 = v
    · simp only [ha, if_true]
      have : ¬ v = j := fun e => hj e.symm
      split <;> simp [wts_cons, ha, this]
    · simp only [ha, if_false, wts_cons, ih]

theorem minW_wts_keepMinRow (v : Nat) (w : W) (row : List Adj) :
    Abs.minW (wts (keepMinRow v w row) v) = (Abs.minW (wts row v)).map (gmin w) := by
  induction row with
  | nil => rfl
  | cons a r ih =>
    simp only [keepMinRow]
    by_cases ha : a.1 = v
    · simp only [ha, if_true]
      have e : Abs.minW (wts (a :: r) v) = Abs.minW (a.2 :: wts r v) := by
        simp [wts_cons, ha]
      rw [e, ← minW_gmin_cons]
      by_cases hlt : W.lt w a.2
      · simp [hlt, wts_cons, gmin]
      · simp [hlt, wts_cons, gmin, ha]
    · simp only [ha, if_false, wts_cons, ih]

theorem wts_overwrite (v : Nat) (w : W) (row : List Adj) (j : Nat) :
    wts (row.map (fun a => if a.1 == v then (a.1, w) else a)) j =
      if j = v then (wts row j).map (fun _ => w) else wts row j := by
  induction row with
  | nil => simp [wts]
  | cons a r ih =>
    simp only [List.map_cons, wts_cons, ih]
    by_cases ha : a.1 = v
    · by_cases hj : j = v
      · subst hj; simp [ha]
      · have : ¬ v = j := fun e => hj e.symm
        simp [ha, hj, this]
    · by_cases hj : j = v
      · subst hj; simp [ha]
      · by_cases haj : a.1 = j <;> simp [ha, hj, haj]

/-- the minimum listed weight of every pair after the row update -/
theorem minW_wts_updRow (row : List Adj) (v : Nat) (w : W) (upd : AdjUpd) (j : Nat) :
    Abs.minW (wts (updRow row v w upd) j) =
      if j = v then eff upd w (Abs.minW (wts row j)) else Abs.minW (wts row j) := by
  cases upd with
  | push =>
    simp only [updRow, wts_append, eff]
    by_cases hj : j = v
    · subst hj
      have : wts [(j, w)] j = [w] := by simp [wts]
      simp [this, minW_append_single]
    · have h' : ¬ v = j := fun e => hj e.symm
      have : wts [(v, w)] j = [] := by simp [wts, h']
      simp [this, hj]
  | keepMin =>
    simp only [updRow, eff]
    by_cases hj : j = v
    · subst hj; simp [minW_wts_keepMinRow]
    · simp [hj, wts_keepMinRow_ne _ _ _ _ hj]
  | overwrite =>
    simp only [updRow, eff, wts_overwrite]
    by_cases hj : j = v
    · simp [hj, minW_map_const]
    · simp [hj]
  | untouched => simp [updRow, eff]

/-- first components after the row update -/
theorem fst_updRow (row : List Adj) (v : Nat) (w : W) (upd : AdjUpd) (a : Adj)
    (ha : a ∈ updRow row v w upd) : a.1 = v ∨ ∃ b ∈ row, b.1 = a.1 := by
  cases upd with
  | push =>
    simp only [updRow, List.mem_append, List.mem_singleton] at ha
    rcases ha with h | h
    · exact Or.inr ⟨a, h, rfl⟩
    · subst h; exact Or.inl rfl
  | keepMin =>
    simp only [updRow] at ha
    induction row with
    | nil => simp [keepMinRow] at ha
    | cons b r ih =>
      simp only [keepMinRow] at ha
      by_cases hb : b.1 = v
      · simp only [hb, if_true] at ha
        split at ha
        · rcases List.mem_cons.1 ha with h | h
          · subst h; exact Or.inl rfl
          · exact Or.inr ⟨a, List.mem_cons_of_mem _ h, rfl⟩
        · exact Or.inr ⟨a, ha, rfl⟩
      · simp only [hb, if_false] at ha
        rcases List.mem_cons.1 ha with h | h
        · subst h; exact Or.inr ⟨a, List.mem_cons_self .., rfl⟩
        · rcases ih h with h' | ⟨c, hc, hc'⟩
          · exact Or.inl h'
          · exact Or.inr ⟨c, List.mem_cons_of_mem _ hc, hc'⟩
  | overwrite =>
    simp only [updRow, List.mem_map] at ha
    obtain ⟨b, hb, e⟩ := ha
    refine Or.inr ⟨b, hb, ?_⟩
    subst e
    split <;> rfl
  | untouched => exact Or.inr ⟨a, ha, rfl⟩

/-- minimum listed weight for `j` in row `i` of an adjacency vector (`none`: not listed) -/
def rowMin (vec : List (List Adj)) (i j : Nat) : Option W := Abs.minW (wts ((vec[i]?).getD []) j)

theorem rowMin_set (vec : List (List Adj)) (u : Nat) (r : List Adj) (hu : u < vec.length)
    (i j : Nat) :
    rowMin (vec.set u r) i j = if i = u then Abs.minW (wts r j) else rowMin vec i j := by
  unfold rowMin
  by_cases h : i = u
  · subst h; simp [hu]
  · have : ¬ u = i := fun e => h e.symm
    simp [this, h]

theorem rowMin_adjUpdate (vec vec' : List (List Adj)) (u v : Nat) (w : W) (upd : AdjUpd)
    (row : List Adj) (hrow : vec[u]? = some row)
    (h : adjUpdate vec u v w upd = some vec') (hk : upd = .keepMin → ∃ a ∈ row, a.1 = v)
    (i j : Nat) :
    rowMin vec' i j = if i = u ∧ j = v then eff upd w (rowMin vec i j) else rowMin vec i j := by
  rw [adjUpdate_spec vec u v w upd row hrow hk] at h
  cases h
  have hu : u < vec.length := by
    rcases Nat.lt_or_ge u vec.length with h | h
    · exact h
    · simp [List.getElem?_eq_none h] at hrow
  rw [rowMin_set _ _ _ hu, minW_wts_updRow]
  by_cases hi : i = u
  · subst hi
    simp only [true_and, if_true]
    simp [rowMin, hrow]
  · simp [hi]

end C03
end Graphrs
