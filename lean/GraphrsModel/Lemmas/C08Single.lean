/-
  One `single_source`-style search by position followed by the renaming (`runOne` then `spToNames`), on a store with the
  coupling and the entry-level invariant: success, the bindings of the result, exactness, validity of the renamed paths.
-/
import GraphrsModel.Lemmas.C08Sim
namespace Graphrs
namespace C08A
open C06T

theorem map_names_eq {names : List Nat} {f : Nat → Nat} (hf : ∀ i x, names[i]? = some x → f i = x) :
    ∀ (q p' : List Nat), q.map (fun i => names[i]?) = p'.map some → q.map f = p' := by
  intro q
  induction q with
  | nil => intro p' h; cases p' with | nil => rfl | cons a b => simp at h
  | cons i q ih =>
    intro p' h
    cases p' with
    | nil => simp at h
    | cons a b =>
      simp only [List.map_cons, List.cons.injEq] at h ⊢
      exact ⟨hf i a h.1, ih b h.2⟩

theorem map_names_valid {names : List Nat} :
    ∀ (q p' : List Nat), q.map (fun i => names[i]?) = p'.map some → ∀ i ∈ q, ∃ x, names[i]? = some x := by
  intro q
  induction q with
  | nil => intro p' _ i hi; simp at hi
  | cons j q ih =>
    intro p' h i hi
    cases p' with
    | nil => simp at h
    | cons a b =>
      simp only [List.map_cons, List.cons.injEq] at h
      rw [List.mem_cons] at hi
      rcases hi with e | hi
      · subst e; exact ⟨a, h.1⟩
      · exact ih b h.2 i hi

/-- the inversion of `single_source` -/
theorem singleSource_inv (s : Store) (weighted : Bool) (src : Nat) (target : Option Nat) (c : Option Int) (f w : Bool)
    (out : List (Nat × SPInfo)) (hout : s.singleSource weighted src target c f w = .ok out) :
    ∃ si ti r, s.getNodeIndex src = .ok si ∧ (target = none → ti = none) ∧
      s.runOne weighted si ti target c f w = .ok r ∧ s.spToNames r = .ok out := by
  unfold Store.singleSource at hout
  cases h1 : s.getNodeIndex src with
  | err k => rw [h1] at hout; cases hout
  | panic m => rw [h1] at hout; cases hout
  | ok si =>
    rw [h1] at hout
    cases target with
    | none =>
      cases h3 : s.runOne weighted si none none c f w with
      | err k => simp only [bind, Outcome.bind, h3] at hout; cases hout
      | panic m => simp only [bind, Outcome.bind, h3] at hout; cases hout
      | ok r =>
        simp only [bind, Outcome.bind, h3] at hout
        exact ⟨si, none, r, rfl, fun _ => rfl, h3, hout⟩
    | some t =>
      cases h2 : s.getNodeIndex t with
      | err k => simp only [bind, Outcome.bind, h2, Outcome.map'] at hout; cases hout
      | panic m => simp only [bind, Outcome.bind, h2, Outcome.map'] at hout; cases hout
      | ok ti =>
        cases h3 : s.runOne weighted si (some ti) (some t) c f w with
        | err k => simp only [bind, Outcome.bind, h2, Outcome.map', h3] at hout; cases hout
        | panic m => simp only [bind, Outcome.bind, h2, Outcome.map', h3] at hout; cases hout
        | ok r =>
          simp only [bind, Outcome.bind, h2, Outcome.map', h3] at hout
          exact ⟨si, some ti, r, rfl, (fun h => by cases h), h3, hout⟩

theorem singleSource_none_eq (s : Store) (weighted : Bool) (src si : Nat) (c : Option Int) (f w : Bool)
    (hsi : s.getNodeIndex src = .ok si) :
    s.singleSource weighted src none c f w = (s.runOne weighted si none none c f w).bind s.spToNames := by
  unfold Store.singleSource
  rw [hsi]
  rfl

/-- what one search by position delivers, by names -/
structure Single (s : Store) (weighted : Bool) (si src : Nat) (ti : Option Nat) (cutoff2 : Option Int) (withPaths : Bool)
    (r : List (Nat × SPInfo)) : Prop where
  /-- the renaming succeeds -/
  conv_ok : ∃ out, s.spToNames r = .ok out
  nodup : ∀ out, s.spToNames r = .ok out → (out.map (·.1)).Nodup
  /-- every binding of the renamed result is a reached position with a walk of the reported cost -/
  sound : ∀ out, s.spToNames r = .ok out → ∀ y i, alookup out y = some i →
    ∃ t info, (t, info) ∈ r ∧ s.names[t]? = some y ∧ i = conv s (t, info) ∧
      Walk (s.idxArcs weighted) si t info.dist
  complete : ∀ out, s.spToNames r = .ok out → ∀ t info, (t, info) ∈ r →
    ∃ y, s.names[t]? = some y ∧ alookup out y = some (conv s (t, info))
  exact : ti = none → cutoff2 = none → ∀ t d, (∃ info, (t, info) ∈ r ∧ info.dist = d) ↔ IsDist (s.idxArcs weighted) si t d
  paths : withPaths = true → ∀ t info, (t, info) ∈ r → ∀ q ∈ info.paths,
    ∃ p' : List Nat, q.map (fun i => s.names[i]?) = p'.map some ∧ q.head? = some si ∧ q.getLast? = some t ∧
      Arcs.walkCost (s.abs.arcs s.specs.directed weighted) p' = some info.dist

theorem single_run (s : Store) (h : s.wf = true) (hent : s.entOk = true) (weighted : Bool)
    (hc : weighted = true → ∀ e ∈ s.allEdges, ∃ c, e.w = some c ∧ 0 ≤ c)
    (si src : Nat) (hsi : s.names[si]? = some src) (ti tgt : Option Nat) (cutoff2 : Option Int) (firstOnly withPaths : Bool) :
    ∃ r, s.runOne weighted si ti tgt cutoff2 firstOnly withPaths = .ok r ∧ Single s weighted si src ti cutoff2 withPaths r := by
  have hn := wf_names_nodup s h
  have S := store_sim s h hent weighted hc
  have hnn := idxArcs_nonneg s h hent weighted hc
  have hlt : si < s.nodesVec.length := lt_of_names s hsi
  obtain ⟨dist, paths, hrun, hwalk, hpaths, hexact⟩ :=
    runOne_run s weighted si ti tgt cutoff2 firstOnly withPaths (vecWf_of_wf s h) hlt hnn
  refine ⟨_, hrun, ?_⟩
  -- facts about the entries
  have hent1 : ∀ t info, (t, info) ∈ spInfos dist paths withPaths →
      Walk (s.idxArcs weighted) si t info.dist ∧ ∃ y, s.names[t]? = some y := by
    intro t info hm
    obtain ⟨d, hd, e⟩ := (mem_spInfos ..).1 hm
    subst e
    exact ⟨hwalk t d hd, S.target hsi (hwalk t d hd)⟩
  have hdet : ∀ t i1 i2, (t, i1) ∈ spInfos dist paths withPaths → (t, i2) ∈ spInfos dist paths withPaths → i1 = i2 := by
    intro t i1 i2 h1 h2
    obtain ⟨d1, hd1, e1⟩ := (mem_spInfos ..).1 h1
    obtain ⟨d2, hd2, e2⟩ := (mem_spInfos ..).1 h2
    rw [hd1] at hd2
    cases hd2
    rw [e1, e2]
  have hpth : withPaths = true → ∀ t info, (t, info) ∈ spInfos dist paths withPaths → ∀ q ∈ info.paths,
      ∃ p' : List Nat, q.map (fun i => s.names[i]?) = p'.map some ∧ q.head? = some si ∧ q.getLast? = some t ∧
        Arcs.walkCost (s.abs.arcs s.specs.directed weighted) p' = some info.dist := by
    intro hp t info hm q hq
    obtain ⟨d, hd, e⟩ := (mem_spInfos ..).1 hm
    subst e
    subst hp
    simp only [if_true] at hq ⊢
    obtain ⟨h1, h2, h3⟩ := hpaths rfl t d hd q hq
    obtain ⟨p', hp', hw'⟩ := sim_walkCost hn S q d h3 (fun i hi => by
      rw [h1] at hi
      cases hi
      exact ⟨src, hsi⟩)
    exact ⟨p', hp', h1, h2, hw'⟩
  have hvalid : ∀ p ∈ spInfos dist paths withPaths, valid s p := by
    intro p hp
    obtain ⟨t, info⟩ := p
    obtain ⟨_, y, hy⟩ := hent1 t info hp
    refine ⟨(isIdx_of_names s h hy).1, ?_⟩
    intro q hq i hi
    cases hwp : withPaths with
    | false =>
      obtain ⟨d, hd, e⟩ := (mem_spInfos ..).1 hp
      subst e
      subst hwp
      simp at hq
    | true =>
      obtain ⟨p', hp', _⟩ := hpth hwp t info hp q hq
      obtain ⟨x, hx⟩ := map_names_valid q p' hp' i hi
      exact (isIdx_of_names s h hx).1
  have hsound : ∀ out, s.spToNames (spInfos dist paths withPaths) = .ok out → ∀ y i, alookup out y = some i →
      ∃ t info, (t, info) ∈ spInfos dist paths withPaths ∧ s.names[t]? = some y ∧ i = conv s (t, info) ∧
        Walk (s.idxArcs weighted) si t info.dist := by
    intro out ho y i hl
    obtain ⟨_, _, _, h4⟩ := spToNames_spec s _ out ho
    obtain ⟨⟨t, info⟩, hm, hk, hv⟩ := h4 y i hl
    obtain ⟨hw, y', hy'⟩ := hent1 t info hm
    have := (isIdx_of_names s h hy').2
    simp only at hk
    rw [this] at hk
    subst hk
    exact ⟨t, info, hm, hy', hv, hw⟩
  refine ⟨spToNames_ok s _ hvalid, fun out ho => (spToNames_spec s _ out ho).2.1, hsound, ?_, ?_, hpth⟩
  · intro out ho t info hm
    obtain ⟨_, y, hy⟩ := hent1 t info hm
    refine ⟨y, hy, ?_⟩
    obtain ⟨_, _, h3, _⟩ := spToNames_spec s _ out ho
    have hsome : (alookup out y).isSome = true := by
      rw [h3 y, List.any_eq_true]
      exact ⟨(t, info), hm, by simp [(isIdx_of_names s h hy).2]⟩
    cases hl : alookup out y with
    | none => rw [hl] at hsome; cases hsome
    | some i =>
      obtain ⟨t', info', hm', hy', hi, _⟩ := hsound out ho y i hl
      have e : t' = t := C03.names_inj hn hy' hy
      subst e
      have := hdet t' info' info hm' hm
      subst this
      rw [hi]
  · intro h1 h2 t d
    rw [spInfos_dist_iff]
    exact hexact h1 h2 t d

end C08A
end Graphrs
