/-
  Helper lemmas for C02: the adjacency-set clause through `add_node` and through the
  set / edge-store updates of `add_edge`.
-/
import GraphrsModel.Lemmas.C02Step
namespace Graphrs
namespace C02
open Store

/-! ### set-valued maps -/

/-- a set-valued map with distinct keys whose keys and members all satisfy `Q` -/
def SetMapOk (Q : Nat → Prop) (m : List (Nat × List Nat)) : Prop :=
  (m.map (·.1)).Nodup ∧ ∀ kv ∈ m, kv.2.Nodup ∧ Q kv.1 ∧ ∀ y ∈ kv.2, Q y

theorem SetMapOk.amodify {Q : Nat → Prop} {m : List (Nat × List Nat)} (h : SetMapOk Q m) (k v : Nat)
    (hk : Q k) (hv : Q v) : SetMapOk Q (amodify m k [] (sinsert · v)) := by
  refine ⟨nodup_keys_amodify _ _ _ _ h.1, ?_⟩
  apply forall_amodify _ _ _ _ _ h.2
  cases hl : alookup m k with
  | none =>
    refine ⟨by simp [sinsert], hk, ?_⟩
    intro y hy
    simp [sinsert] at hy
    exact hy ▸ hv
  | some l =>
    have := h.2 _ (alookup_mem _ _ _ hl)
    refine ⟨nodup_sinsert _ _ this.1, hk, ?_⟩
    intro y hy
    rcases (mem_sinsert _ _ _).1 hy with hy | rfl
    · exact this.2.2 y hy
    · exact hv

theorem SetMapOk.ainsert_nil {Q : Nat → Prop} {m : List (Nat × List Nat)} (h : SetMapOk Q m) (k : Nat)
    (hk : Q k) : SetMapOk Q (ainsert m k []) := by
  refine ⟨nodup_keys_ainsert _ _ _ h.1, ?_⟩
  intro kv hkv
  rcases mem_ainsert _ _ _ _ hkv with h' | rfl
  · exact h.2 kv h'
  · exact ⟨List.nodup_nil, hk, by simp⟩

theorem SetMapOk.mono {Q Q' : Nat → Prop} {m : List (Nat × List Nat)} (h : SetMapOk Q m)
    (hq : ∀ a, Q a → Q' a) : SetMapOk Q' m :=
  ⟨h.1, fun kv hkv => ⟨(h.2 kv hkv).1, hq _ (h.2 kv hkv).2.1, fun y hy => hq _ ((h.2 kv hkv).2.2 y hy)⟩⟩

theorem mem_setOf_amodify (m : List (Nat × List Nat)) (k v x y : Nat) :
    y ∈ setOf (amodify m k [] (sinsert · v)) x ↔ (y ∈ setOf m x ∨ (x = k ∧ y = v)) := by
  unfold setOf
  rw [alookup_amodify]
  by_cases hk : k = x
  · subst hk
    simp only [if_true, Option.getD_some, mem_sinsert, true_and]
  · have : ¬ x = k := fun e => hk e.symm
    simp [hk, this]

theorem setOf_ainsert_nil (m : List (Nat × List Nat)) (k x : Nat) :
    setOf (ainsert m k []) x = if k = x then [] else setOf m x := by
  unfold setOf
  rw [alookup_ainsert]
  split <;> simp

theorem acontains_amodify {ν : Type} (m : List (Nat × ν)) (k : Nat) (d : ν) (f : ν → ν) (i : Nat)
    (h : acontains m i = true) : acontains (amodify m k d f) i = true := by
  unfold acontains at h ⊢
  rw [alookup_amodify]
  split <;> simp [h]

theorem setOf_eq_nil_of_not_key (Q : Nat → Prop) (m : List (Nat × List Nat)) (h : SetMapOk Q m) (x : Nat)
    (hx : ¬ Q x) : setOf m x = [] := by
  unfold setOf
  cases hl : alookup m x with
  | none => rfl
  | some l => exact absurd (h.2 _ (alookup_mem _ _ _ hl)).2.1 hx

theorem SetMapOk.mem {Q : Nat → Prop} {m : List (Nat × List Nat)} (h : SetMapOk Q m) {x y : Nat}
    (hy : y ∈ setOf m x) : Q x ∧ Q y := by
  obtain ⟨l, hl, hyl, _⟩ := setOf_mem _ _ _ hy
  exact ⟨(h.2 _ hl).2.1, (h.2 _ hl).2.2 y hyl⟩

/-! ### the adjacency clause in terms of set maps -/

def Ends (s : Store) : Prop := ∀ e ∈ s.allEdges, e.u ∈ s.names ∧ e.v ∈ s.names

theorem Ends.hasEdge {s : Store} (hends : Ends s) {x y : Nat} (h : s.hasEdge x y = true) :
    x ∈ s.names ∧ y ∈ s.names := by
  obtain ⟨e, hmem, hj⟩ := (hasEdge_iff s x y).1 h
  have := hends e hmem
  simp only [joins, Bool.or_eq_true, Bool.and_eq_true, beq_iff_eq] at hj
  rcases hj with ⟨a, b⟩ | ⟨⟨_, a⟩, b⟩
  · exact ⟨a ▸ this.1, b ▸ this.2⟩
  · exact ⟨b ▸ this.2, a ▸ this.1⟩

theorem AdjP.okSucc {s : Store} (ha : AdjP s) : SetMapOk (· ∈ s.names) s.succ := ⟨ha.kSucc, ha.succOk⟩
theorem AdjP.okPred {s : Store} (ha : AdjP s) : SetMapOk (· ∈ s.names) s.pred := ⟨ha.kPred, ha.predOk⟩
theorem AdjP.okSuccMap {s : Store} (ha : AdjP s) : SetMapOk (· < s.nodesVec.length) s.succMap :=
  ⟨ha.kSuccMap, ha.succMapOk⟩
theorem AdjP.okPredMap {s : Store} (ha : AdjP s) : SetMapOk (· < s.nodesVec.length) s.predMap :=
  ⟨ha.kPredMap, ha.predMapOk⟩

theorem AdjP.mem_succ' {s : Store} (ha : AdjP s) (hends : Ends s) (x y : Nat) :
    y ∈ setOf s.succ x ↔ s.hasEdge x y = true := by
  constructor
  · intro h
    have := ha.okSucc.mem h
    exact ((ha.edge x this.1 y this.2).1).1 h
  · intro h
    have := hends.hasEdge h
    exact ((ha.edge x this.1 y this.2).1).2 h

theorem AdjP.mem_pred' {s : Store} (ha : AdjP s) (hends : Ends s) (x y : Nat) :
    y ∈ setOf s.pred x ↔ (s.specs.directed = true ∧ s.hasEdge y x = true) := by
  constructor
  · intro h
    have := ha.okPred.mem h
    exact ((ha.edge x this.1 y this.2).2).1 h
  · intro h
    have := hends.hasEdge h.2
    exact ((ha.edge x this.2 y this.1).2).2 h

/-- assembling `AdjP` from set-map facts -/
theorem AdjP.mk' (t : Store)
    (okS : SetMapOk (· ∈ t.names) t.succ) (okP : SetMapOk (· ∈ t.names) t.pred)
    (okSM : SetMapOk (· < t.nodesVec.length) t.succMap) (okPM : SetMapOk (· < t.nodesVec.length) t.predMap)
    (tot : ∀ i, i < t.nodesVec.length → acontains t.succMap i = true ∧ acontains t.predMap i = true)
    (edge : ∀ x y, (y ∈ setOf t.succ x ↔ t.hasEdge x y = true) ∧
      (y ∈ setOf t.pred x ↔ (t.specs.directed = true ∧ t.hasEdge y x = true)))
    (idx : ∀ x i y j, t.names[i]? = some x → t.names[j]? = some y →
      (j ∈ setOf t.succMap i ↔ y ∈ setOf t.succ x) ∧ (j ∈ setOf t.predMap i ↔ y ∈ setOf t.pred x)) :
    AdjP t :=
  ⟨okS.1, okP.1, okSM.1, okPM.1, okS.2, okP.2, okSM.2, okPM.2, tot, fun x _ y _ => edge x y, idx⟩

theorem hasEdge_congr (s t : Store) (h1 : t.edges = s.edges) (h2 : t.specs = s.specs) (x y : Nat) :
    t.hasEdge x y = s.hasEdge x y := by
  unfold Store.hasEdge Store.allEdges
  rw [h1, h2]

/-! ### `add_node` -/

/-- what the `add_edge` ladder needs to know about a state between its steps -/
structure J (s : Store) : Prop where
  link : ∀ x i, alookup s.nodesMap x = some i ↔ s.names[i]? = some x
  adj : AdjP s
  ends : Ends s

theorem J_of_wf (s : Store) (h1 : s.nodesOk = true) (h2 : s.edgesOk = true) (h3 : s.adjOk = true) : J s :=
  ⟨(nodesP_of s h1).link, (adjOk_iff s).1 h3, fun _ he => (edgesP_of s h2).edge_names he⟩

theorem not_mem_names_of_none {s : Store} (hl : ∀ x i, alookup s.nodesMap x = some i ↔ s.names[i]? = some x)
    {x : Nat} (h : alookup s.nodesMap x = none) : x ∉ s.names := by
  intro hx
  obtain ⟨i, hi⟩ := List.mem_iff_getElem?.1 hx
  rw [(hl x i).2 hi] at h
  cases h

theorem Ends_congr (s t : Store) (h1 : t.edges = s.edges) (hsub : ∀ a, a ∈ s.names → a ∈ t.names)
    (h : Ends s) : Ends t := by
  intro e he
  have : e ∈ s.allEdges := by
    unfold Store.allEdges at he ⊢
    rw [h1] at he; exact he
  exact ⟨hsub _ (h e this).1, hsub _ (h e this).2⟩

theorem J_same (s t : Store) (hnm : t.nodesMap = s.nodesMap) (hnames : t.names = s.names)
    (hlen : t.nodesVec.length = s.nodesVec.length) (hsucc : t.succ = s.succ) (hpred : t.pred = s.pred)
    (hsm : t.succMap = s.succMap) (hpm : t.predMap = s.predMap) (hedges : t.edges = s.edges)
    (hspecs : t.specs = s.specs) (hj : J s) : J t := by
  obtain ⟨hl, ha, hends⟩ := hj
  refine ⟨?_, ?_, ?_⟩
  · intro x i
    rw [hnm, hnames]; exact hl x i
  · apply AdjP.mk'
    · rw [hnames, hsucc]; exact ha.okSucc
    · rw [hnames, hpred]; exact ha.okPred
    · rw [hlen, hsm]; exact ha.okSuccMap
    · rw [hlen, hpm]; exact ha.okPredMap
    · rw [hlen, hsm, hpm]; exact ha.total
    · intro x y
      rw [hsucc, hpred, hspecs, hasEdge_congr s t hedges hspecs, hasEdge_congr s t hedges hspecs]
      exact ⟨ha.mem_succ' hends x y, ha.mem_pred' hends x y⟩
    · rw [hnames, hsucc, hpred, hsm, hpm]; exact ha.idx
  · exact Ends_congr s t hedges (fun a h => hnames ▸ h) hends

theorem J_grow (s t : Store) (x : Nat) (hx : alookup s.nodesMap x = none)
    (hnm : t.nodesMap = ainsert s.nodesMap x s.nodesVec.length) (hnames : t.names = s.names ++ [x])
    (hlen : t.nodesVec.length = s.nodesVec.length + 1) (hsucc : t.succ = s.succ) (hpred : t.pred = s.pred)
    (hsm : t.succMap = ainsert s.succMap s.nodesVec.length [])
    (hpm : t.predMap = ainsert s.predMap s.nodesVec.length []) (hedges : t.edges = s.edges)
    (hspecs : t.specs = s.specs) (hj : J s) : J t := by
  obtain ⟨hl, ha, hends⟩ := hj
  have hnew : x ∉ s.names := not_mem_names_of_none hl hx
  have hsub : ∀ a, a ∈ s.names → a ∈ s.names ++ [x] := fun a h => List.mem_append_left _ h
  have hget : ∀ i y, (s.names ++ [x])[i]? = some y →
      (i < s.nodesVec.length ∧ s.names[i]? = some y) ∨ (i = s.nodesVec.length ∧ y = x) := by
    intro i y h
    rw [List.getElem?_append, names_length] at h
    by_cases hi : i < s.nodesVec.length
    · rw [if_pos hi] at h; exact .inl ⟨hi, h⟩
    · rw [if_neg hi] at h
      have : i - s.nodesVec.length = 0 := by
        cases hd : i - s.nodesVec.length with
        | zero => rfl
        | succ k => rw [hd] at h; simp at h
      rw [this] at h
      simp only [List.getElem?_cons_zero, Option.some.injEq] at h
      exact .inr ⟨by omega, h.symm⟩
  refine ⟨?_, ?_, ?_⟩
  · intro y i
    rw [hnm, hnames, alookup_ainsert]
    by_cases hy : x = y
    · subst hy
      simp only [if_true, Option.some.injEq]
      constructor
      · intro h; subst h
        rw [List.getElem?_append_right (by rw [names_length]; exact Nat.le_refl _), names_length]
        simp
      · intro h
        rcases hget i _ h with ⟨_, h'⟩ | ⟨h', _⟩
        · exact absurd (List.mem_of_getElem? h') hnew
        · exact h'.symm
    · simp only [hy, if_false]
      rw [hl y i]
      constructor
      · intro h
        have hlt := (List.getElem?_eq_some_iff.1 h).1
        rw [List.getElem?_append_left hlt]; exact h
      · intro h
        rcases hget i y h with ⟨_, h'⟩ | ⟨_, h'⟩
        · exact h'
        · exact absurd h'.symm hy
  · apply AdjP.mk'
    · rw [hnames, hsucc]; exact ha.okSucc.mono hsub
    · rw [hnames, hpred]; exact ha.okPred.mono hsub
    · rw [hlen, hsm]
      exact (ha.okSuccMap.mono (fun a h => Nat.lt_succ_of_lt h)).ainsert_nil _ (Nat.lt_succ_self _)
    · rw [hlen, hpm]
      exact (ha.okPredMap.mono (fun a h => Nat.lt_succ_of_lt h)).ainsert_nil _ (Nat.lt_succ_self _)
    · rw [hlen, hsm, hpm]
      intro i hi
      unfold acontains
      rw [alookup_ainsert, alookup_ainsert]
      by_cases hin : s.nodesVec.length = i
      · simp [hin]
      · have := ha.total i (by omega)
        unfold acontains at this
        simp only [hin, if_false]
        exact this
    · intro a b
      rw [hsucc, hpred, hspecs, hasEdge_congr s t hedges hspecs, hasEdge_congr s t hedges hspecs]
      exact ⟨ha.mem_succ' hends a b, ha.mem_pred' hends a b⟩
    · rw [hnames, hsucc, hpred, hsm, hpm]
      intro a i b j ha' hb'
      rw [setOf_ainsert_nil, setOf_ainsert_nil]
      rcases hget i a ha' with ⟨hi, hx'⟩ | ⟨hi, hx'⟩
      · have hne : ¬ s.nodesVec.length = i := by omega
        simp only [hne, if_false]
        rcases hget j b hb' with ⟨hj, hy'⟩ | ⟨hj, hy'⟩
        · exact ha.idx a i b j hx' hy'
        · subst hy'
          constructor
          · constructor
            · intro h; have := (ha.okSuccMap.mem h).2; omega
            · intro h; exact absurd (ha.okSucc.mem h).2 hnew
          · constructor
            · intro h; have := (ha.okPredMap.mem h).2; omega
            · intro h; exact absurd (ha.okPred.mem h).2 hnew
      · subst hx'
        simp only [hi, if_true, List.not_mem_nil, false_iff]
        exact ⟨fun h => hnew (ha.okSucc.mem h).1, fun h => hnew (ha.okPred.mem h).1⟩
  · exact Ends_congr s t hedges (fun a h => hnames ▸ hsub a h) hends

theorem addNode_J (s : Store) (nd : Node) (hj : J s) : J (s.addNode nd) := by
  have hl := hj.link
  unfold Store.addNode
  cases hlk : alookup s.nodesMap nd.name with
  | some i =>
    have hi := (hl nd.name i).1 hlk
    have hlt : i < s.nodesVec.length := by
      rw [← names_length]; exact (List.getElem?_eq_some_iff.1 hi).1
    simp only [hlt, if_true]
    have hnames : (s.nodesVec.set i nd).map (·.name) = s.names := by
      unfold Store.names
      apply List.ext_getElem?
      intro j
      rw [List.getElem?_map, List.getElem?_set]
      by_cases hij : i = j
      · subst hij
        simp only [if_true, hlt, Option.map_some]
        exact hi.symm
      · simp [hij]
    exact J_same s _ rfl hnames (List.length_set) rfl rfl rfl rfl rfl rfl hj
  | none =>
    exact J_grow s _ nd.name hlk rfl (by simp [Store.names]) (by simp) rfl rfl rfl rfl rfl rfl hj

end C02
end Graphrs
