/-
  The path bookkeeping of `dijkstra`: every stored path for `u` starts at the source, ends at `u` and has
  `walkCost` equal to `seen[u]` (at row boundaries; inside a row a cheaper parallel arc may still be pending).
-/
import GraphrsModel.Lemmas.DijkstraFull
import GraphrsModel.Spec.PathCheck
namespace Graphrs

/-! ## `walkCost` at the end of a path -/

/-- cost of the cheapest arc `x → y` -/
def minArc (A : Arcs) (x y : Nat) : Option Int :=
  match (A.filter fun a => a.1 == x && a.2.1 == y).map (·.2.2) with
  | [] => none
  | c :: cs' => some (cs'.foldl (fun m z => if z < m then z else m) c)

theorem walkCost_cons_cons (A : Arcs) (x y : Nat) (rest : List Nat) :
    Arcs.walkCost A (x :: y :: rest) =
      match minArc A x y with
      | none => none
      | some b => (Arcs.walkCost A (y :: rest)).map (· + b) := by
  unfold minArc
  rw [Arcs.walkCost]
  split <;> rename_i h <;> simp only [h]

theorem foldl_min_le (cs : List Int) (c : Int) :
    ∀ z ∈ c :: cs, cs.foldl (fun m z => if z < m then z else m) c ≤ z := by
  induction cs generalizing c with
  | nil => intro z hz; simp at hz; subst hz; simp
  | cons y ys ih =>
    simp only [List.foldl_cons]
    intro z hz
    have h0 := ih (if y < c then y else c) _ (List.mem_cons_self ..)
    have h1 : (if y < c then y else c) ≤ c ∧ (if y < c then y else c) ≤ y := by split <;> omega
    simp only [List.mem_cons] at hz
    rcases hz with e | e | e
    · subst e; omega
    · subst e; omega
    · exact ih _ z (List.mem_cons_of_mem _ e)

theorem minArc_spec {A : Arcs} {x y : Nat} {w : Int} (h : (x, y, w) ∈ A) :
    ∃ m, minArc A x y = some m ∧ (x, y, m) ∈ A ∧ m ≤ w := by
  unfold minArc
  have hw : w ∈ (A.filter fun a => a.1 == x && a.2.1 == y).map (·.2.2) := by
    rw [List.mem_map]
    exact ⟨(x, y, w), List.mem_filter.2 ⟨h, by simp⟩, rfl⟩
  cases hcs : (A.filter fun a => a.1 == x && a.2.1 == y).map (·.2.2) with
  | nil => rw [hcs] at hw; simp at hw
  | cons c cs' =>
    rw [hcs] at hw
    refine ⟨_, rfl, ?_, foldl_min_le cs' c w hw⟩
    have hm := foldl_min_mem cs' c
    rw [← hcs, List.mem_map] at hm
    obtain ⟨⟨a1, a2, a3⟩, ha, he⟩ := hm
    rw [List.mem_filter] at ha
    obtain ⟨ha1, ha2⟩ := ha
    simp only [Bool.and_eq_true, beq_iff_eq] at ha2
    obtain ⟨e1, e2⟩ := ha2
    simp only at he
    subst e1 e2
    rw [← he]; exact ha1

theorem walkCost_append_last (A : Arcs) (u : Nat) : ∀ (q : List Nat) (v : Nat), q.getLast? = some v →
    Arcs.walkCost A (q ++ [u]) = (Arcs.walkCost A q).bind fun x => (minArc A v u).map fun b => x + b := by
  intro q
  induction q with
  | nil => intro v h; simp at h
  | cons x rest ih =>
    intro v h
    cases rest with
    | nil =>
      simp at h
      subst h
      simp only [List.cons_append, List.nil_append]
      rw [walkCost_cons_cons]
      cases minArc A x u with
      | none => simp [Arcs.walkCost]
      | some b => simp [Arcs.walkCost]
    | cons y rest =>
      rw [List.getLast?_cons_cons] at h
      have := ih v h
      simp only [List.cons_append] at this ⊢
      rw [walkCost_cons_cons, walkCost_cons_cons, this]
      cases minArc A x y with
      | none => simp
      | some b =>
        cases Arcs.walkCost A (y :: rest) with
        | none => simp
        | some x' =>
          cases minArc A v u with
          | none => simp
          | some m => simp; omega

/-! ## the paths invariant -/

def PathOk (A : Arcs) (src u : Nat) (p : List Nat) (k : Int) : Prop :=
  p.head? = some src ∧ p.getLast? = some u ∧ Arcs.walkCost A p = some k

/-- at row boundaries -/
def PInvB (A : Arcs) (src : Nat) (seen : List (Option Int)) (paths : List (List (List Nat))) : Prop :=
  ∀ u, ∀ p ∈ paths[u]?.getD [], ∃ k, lk seen u = some k ∧ PathOk A src u p k

/-- inside the row of `v` -/
def PInv (A : Arcs) (src : Nat) (cut : Option Int) (v : Nat) (d : Int) (pend : Arcs)
    (seen : List (Option Int)) (paths : List (List (List Nat))) : Prop :=
  ∀ u, ∀ p ∈ paths[u]?.getD [], ∃ k k', lk seen u = some k ∧ PathOk A src u p k' ∧
    (k' = k ∨ (k' < k ∧ overCutoff cut k' = false ∧ ∃ c', (v, u, c') ∈ pend ∧ d + c' = k'))

theorem PInvB.toPInv {A : Arcs} {src : Nat} {cut : Option Int} {v : Nat} {d : Int} {pend : Arcs}
    {seen : List (Option Int)} {paths : List (List (List Nat))} (h : PInvB A src seen paths) :
    PInv A src cut v d pend seen paths := by
  intro u p hp
  obtain ⟨k, hk, hok⟩ := h u p hp
  exact ⟨k, k, hk, hok, Or.inl rfl⟩

theorem PInv.toPInvB {A : Arcs} {src : Nat} {cut : Option Int} {v : Nat} {d : Int}
    {seen : List (Option Int)} {paths : List (List (List Nat))} (h : PInv A src cut v d [] seen paths) :
    PInvB A src seen paths := by
  intro u p hp
  obtain ⟨k, k', hk, hok, h3⟩ := h u p hp
  rcases h3 with e | ⟨_, _, c', hc', _⟩
  · subst e; exact ⟨k', hk, hok⟩
  · simp at hc'

theorem PInvB.init (A : Arcs) (src n : Nat) :
    PInvB A src ((List.replicate n none).set src (some 0)) ((List.replicate n []).set src [[src]]) := by
  intro u p hp
  by_cases e : src = u
  · subst e
    by_cases hn : src < n
    · simp [hn] at hp
      subst hp
      exact ⟨0, lk_set_self _ _ _ (by simpa using hn), by simp [PathOk, Arcs.walkCost]⟩
    · simp [hn] at hp
  · rw [List.getElem?_set_ne e] at hp
    by_cases hn : u < n
    · simp [hn] at hp
    · simp [hn] at hp

theorem mem_getD_set_self {α} {l : List (List α)} {u : Nat} {x : List α} {p : α}
    (h : p ∈ (l.set u x)[u]?.getD []) : p ∈ x := by
  by_cases hn : u < l.length
  · simpa [hn] using h
  · simp [hn] at h

/-- skipping the head arc -/
theorem PInv.skip {A : Arcs} {src : Nat} {cut : Option Int} {v : Nat} {d : Int} {pend : Arcs}
    {seen : List (Option Int)} {paths : List (List (List Nat))} {u : Nat} {c : Int}
    (h : PInv A src cut v d ((v, u, c) :: pend) seen paths) (hok : ArcOk cut seen d u c) :
    PInv A src cut v d pend seen paths := by
  intro x p hp
  obtain ⟨k, k', hk, hpo, h3⟩ := h x p hp
  refine ⟨k, k', hk, hpo, ?_⟩
  rcases h3 with e | ⟨hlt, hc, c', hc', he⟩
  · exact Or.inl e
  · simp only [List.mem_cons, Prod.mk.injEq] at hc'
    rcases hc' with ⟨_, e2, e3⟩ | hc'
    · subst e2 e3
      rcases hok with ho | ⟨k2, hk2, hle⟩
      · rw [he, hc] at ho; cases ho
      · rw [hk] at hk2; cases hk2; omega
    · exact Or.inr ⟨hlt, hc, c', hc', he⟩

/-- the new paths through the arc `(v, u, c)` -/
theorem PInv.new_paths {A : Arcs} {src n : Nat} {cut : Option Int} {v : Nat} {d : Int} {pend : Arcs}
    {dist seen : List (Option Int)} {fr : List FNode} {paths : List (List (List Nat))} {u : Nat} {c : Int}
    (hA : ArcsWf A n)
    (R : RowInv A src n cut v d ((v, u, c) :: pend) dist seen fr)
    (h : PInv A src cut v d ((v, u, c) :: pend) seen paths)
    (hcut : overCutoff cut (d + c) = false)
    (hdec : ∀ su, lk seen u = some su → d + c ≤ su)
    (p : List Nat) (hp : p ∈ (paths[v]?.getD []).map (· ++ [u])) :
    ∃ k', PathOk A src u p k' ∧
      (k' = d + c ∨ (k' < d + c ∧ overCutoff cut k' = false ∧ ∃ c', (v, u, c') ∈ pend ∧ d + c' = k')) := by
  rw [List.mem_map] at hp
  obtain ⟨q, hq, e⟩ := hp
  subst e
  have harc : (v, u, c) ∈ A := R.pendA _ (List.mem_cons_self ..)
  obtain ⟨kq, kq', hkq, ⟨hq1, hq2, hq3⟩, hq4⟩ := h v q hq
  have hsv : lk seen v = some d := R.distSeen v d R.hv
  rw [hsv] at hkq
  have hkd : kq = d := by cases hkq; rfl
  have hkq' : kq' = d := by
    rcases hq4 with e | ⟨hlt, _, c', hc', he⟩
    · omega
    · have := (hA _ (R.pendA _ hc')).2
      simp only at this
      omega
  rw [hkq'] at hq3
  obtain ⟨m, hm1, hm2, hm3⟩ := minArc_spec harc
  refine ⟨d + m, ⟨?_, by simp, ?_⟩, ?_⟩
  · simp [List.head?_append, hq1]
  · rw [walkCost_append_last A u q v hq2, hq3, hm1]; rfl
  · by_cases e : m = c
    · subst e; exact Or.inl rfl
    · have hlt : m < c := by omega
      refine Or.inr ⟨by omega, overCutoff_mono hcut (by omega), m, ?_, rfl⟩
      rcases R.closed v d R.hv u m hm2 with hc | ho | ⟨k2, hk2, hle⟩
      · simp only [List.mem_cons, Prod.mk.injEq] at hc
        rcases hc with ⟨_, _, e3⟩ | hc
        · exact absurd e3 e
        · exact hc
      · rw [overCutoff_mono hcut (by omega)] at ho; cases ho
      · have := hdec k2 hk2
        omega

/-- paths of the other nodes are unaffected by a push at `u` -/
theorem PInv.other {A : Arcs} {src : Nat} {cut : Option Int} {v : Nat} {d : Int} {pend : Arcs}
    {seen seen' : List (Option Int)} {paths : List (List (List Nat))} {u : Nat} {c : Int}
    (h : PInv A src cut v d ((v, u, c) :: pend) seen paths)
    (hs3 : ∀ x, x ≠ u → lk seen' x = lk seen x) (x : Nat) (hx : x ≠ u) (p : List Nat)
    (hp : p ∈ paths[x]?.getD []) :
    ∃ k k', lk seen' x = some k ∧ PathOk A src x p k' ∧
      (k' = k ∨ (k' < k ∧ overCutoff cut k' = false ∧ ∃ c', (v, x, c') ∈ pend ∧ d + c' = k')) := by
  obtain ⟨k, k', hk, hpo, h3⟩ := h x p hp
  refine ⟨k, k', by rw [hs3 x hx]; exact hk, hpo, ?_⟩
  rcases h3 with e | ⟨hlt, hc, c', hc', he⟩
  · exact Or.inl e
  · simp only [List.mem_cons, Prod.mk.injEq] at hc'
    rcases hc' with ⟨_, e2, _⟩ | hc'
    · exact absurd e2 hx
    · exact Or.inr ⟨hlt, hc, c', hc', he⟩

theorem PInv.push_lt {A : Arcs} {src n : Nat} {cut : Option Int} {v : Nat} {d : Int} {pend : Arcs}
    {st : DState} {u : Nat} {c : Int}
    (hA : ArcsWf A n)
    (R : RowInv A src n cut v d ((v, u, c) :: pend) st.dist st.seen st.fringe)
    (h : PInv A src cut v d ((v, u, c) :: pend) st.seen st.paths)
    (hcut : overCutoff cut (d + c) = false)
    (hlt : ∀ su, lk st.seen u = some su → d + c < su) :
    PInv A src cut v d pend (pushLt true v u (d + c) st).seen (pushLt true v u (d + c) st).paths := by
  have harc : (v, u, c) ∈ A := R.pendA _ (List.mem_cons_self ..)
  have hun : u < st.seen.length := by rw [R.lseen]; exact (hA _ harc).1
  intro x p hp
  simp only [pushLt, if_true] at hp ⊢
  by_cases hx : x = u
  · subst hx
    have hp' := mem_getD_set_self hp
    obtain ⟨k', hpo, h3⟩ := PInv.new_paths hA R h hcut (fun su hs => by have := hlt su hs; omega) p hp'
    exact ⟨d + c, k', lk_set_self _ _ _ hun, hpo, h3⟩
  · rw [List.getElem?_set_ne (fun e => hx e.symm)] at hp
    exact PInv.other h (fun y hy => lk_set_ne _ _ _ _ (fun e => hy e.symm)) x hx p hp

theorem PInv.push_eq {A : Arcs} {src n : Nat} {cut : Option Int} {v : Nat} {d : Int} {pend : Arcs}
    {st : DState} {u : Nat} {c : Int}
    (hA : ArcsWf A n)
    (R : RowInv A src n cut v d ((v, u, c) :: pend) st.dist st.seen st.fringe)
    (h : PInv A src cut v d ((v, u, c) :: pend) st.seen st.paths)
    (hcut : overCutoff cut (d + c) = false)
    (hs : lk st.seen u = some (d + c)) :
    PInv A src cut v d pend (pushEq true v u (d + c) st).seen (pushEq true v u (d + c) st).paths := by
  intro x p hp
  simp only [pushEq, if_true] at hp ⊢
  by_cases hx : x = u
  · subst hx
    have hp' := mem_getD_set_self hp
    rw [List.mem_append] at hp'
    rcases hp' with hp' | hp'
    · obtain ⟨k, k', hk, hpo, h3⟩ := h x p hp'
      rw [hs] at hk; cases hk
      refine ⟨d + c, k', hs, hpo, ?_⟩
      rcases h3 with e | ⟨hlt, hc, c', hc', he⟩
      · exact Or.inl e
      · simp only [List.mem_cons, Prod.mk.injEq] at hc'
        rcases hc' with ⟨_, _, e3⟩ | hc'
        · subst e3; omega
        · exact Or.inr ⟨hlt, hc, c', hc', he⟩
    · obtain ⟨k', hpo, h3⟩ := PInv.new_paths hA R h hcut (fun su hs' => by rw [hs] at hs'; cases hs'; omega) p hp'
      exact ⟨d + c, k', hs, hpo, h3⟩
  · rw [List.getElem?_set_ne (fun e => hx e.symm)] at hp
    exact PInv.other h (fun _ _ => rfl) x hx p hp

/-! ## the row and the loop -/

theorem relaxFull_row_paths {A : Arcs} {src n : Nat} {weighted : Bool} {cut : Option Int} {firstOnly : Bool}
    {v : Nat} {d : Int} (hA : ArcsWf A n) (st : DState) (a : Adj) (row : List Adj)
    (R : RowInv A src n cut v d (rowArcs weighted v (a :: row)) st.dist st.seen st.fringe)
    (P : PInv A src cut v d (rowArcs weighted v (a :: row)) st.seen st.paths) :
    ∃ st', relaxFull weighted cut firstOnly true v d st a = .ok st' ∧
      RowInv A src n cut v d (rowArcs weighted v row) st'.dist st'.seen st'.fringe ∧
      PInv A src cut v d (rowArcs weighted v row) st'.seen st'.paths := by
  obtain ⟨st', e1, R1, _, _⟩ := relaxFull_row (firstOnly := firstOnly) (withPaths := true) hA st a row R
  refine ⟨st', e1, R1, ?_⟩
  obtain ⟨u, w⟩ := a
  rcases relaxFull_cases (firstOnly := firstOnly) (withPaths := true) hA st u w row R with
    ⟨hc, h⟩ | ⟨c, hc, ⟨hok, h⟩ | ⟨ho, hd, hlt, h⟩ | ⟨ho, hd, hs, hf, h⟩⟩
  · rw [h] at e1; cases e1
    rw [rowArcs_cons_none (by simpa using hc)] at P
    exact P
  · rw [h] at e1; cases e1
    rw [rowArcs_cons_some (by simpa using hc)] at P
    exact P.skip hok
  · rw [h] at e1; cases e1
    rw [rowArcs_cons_some (by simpa using hc)] at P R
    exact PInv.push_lt hA R P ho hlt
  · rw [h] at e1; cases e1
    rw [rowArcs_cons_some (by simpa using hc)] at P R
    exact PInv.push_eq hA R P ho hs

theorem full_fold_paths {A : Arcs} {src n : Nat} {weighted : Bool} {cut : Option Int} {firstOnly : Bool}
    {v : Nat} {d : Int} (hA : ArcsWf A n) (row : List Adj) : ∀ (st : DState),
    RowInv A src n cut v d (rowArcs weighted v row) st.dist st.seen st.fringe →
    PInv A src cut v d (rowArcs weighted v row) st.seen st.paths →
    ∃ st', foldExcept (relaxFull weighted cut firstOnly true v d) st row = .ok st' ∧
      RowInv A src n cut v d [] st'.dist st'.seen st'.fringe ∧
      PInv A src cut v d [] st'.seen st'.paths := by
  induction row with
  | nil => intro st R P; exact ⟨st, rfl, R, P⟩
  | cons a row ih =>
    intro st R P
    obtain ⟨st1, e1, R1, P1⟩ := relaxFull_row_paths (firstOnly := firstOnly) hA st a row R P
    obtain ⟨st2, e2, R2, P2⟩ := ih st1 R1 P1
    refine ⟨st2, ?_, R2, P2⟩
    simp only [foldExcept, e1]
    exact e2

theorem dijkstraLoop_paths {A : Arcs} {src n : Nat} {weighted : Bool} {cut : Option Int} {firstOnly : Bool}
    {target : Option Nat} (rows : List (List Adj)) (hA : ArcsWf A n)
    (hrows : RowsOk A weighted rows) : ∀ (fuel : Nat) (st st' : DState),
    Inv A src n cut [] st.dist st.seen st.fringe →
    PInvB A src st.seen st.paths →
    dijkstraLoop (fun v => rows[v]?.getD []) weighted target cut firstOnly true fuel st = .ok st' →
    PInvB A src st'.seen st'.paths := by
  intro fuel
  induction fuel with
  | zero =>
    intro st st' _ P h
    simp only [dijkstraLoop, Except.ok.injEq] at h
    subst h; exact P
  | succ fuel ih =>
    intro st st' I P h
    unfold dijkstraLoop at h
    cases hp : popFringe st.fringe with
    | none =>
      simp only [hp, Except.ok.injEq] at h
      subst h; exact P
    | some res =>
      obtain ⟨⟨d, cnt, v⟩, rest⟩ := res
      obtain ⟨hmem, hrest, hmin⟩ := popFringe_some hp
      simp only [hp] at h
      cases hd : st.dist[v]?.join with
      | some dv =>
        have hd' : lk st.dist v = some dv := hd
        simp only [hd, Option.isSome_some, if_true] at h
        refine ih { st with fringe := rest } st' ?_ P h
        simp only; rw [hrest]; exact I.pop_stale (d, cnt, v) dv hd'
      | none =>
        have hd' : lk st.dist v = none := hd
        simp only [hd, Option.isSome_none, Bool.false_eq_true, if_false] at h
        have R := I.pop_fresh d cnt v hmem hmin hd' (rowArcs weighted v (rows[v]?.getD []))
          (hrows.sub v) (fun a ha => rowArcs_src a ha) (hrows.sup v)
        rw [← hrest] at R
        by_cases ht : target = some v
        · subst ht
          simp only [beq_self_eq_true, if_true, Except.ok.injEq] at h
          subst h
          exact P
        · have : (target == some v) = false := by simpa using ht
          simp only [this, Bool.false_eq_true, if_false] at h
          obtain ⟨st2, e2, R2, P2⟩ := full_fold_paths (firstOnly := firstOnly) hA
            (rows[v]?.getD []) { st with fringe := rest, dist := st.dist.set v (some d) } R P.toPInv
          simp only [e2] at h
          exact ih st2 st' R2.done P2.toPInvB h

end Graphrs
