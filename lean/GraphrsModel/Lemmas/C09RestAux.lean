/-
  Helper lemmas for Props/C09Rest.lean: the adjacency-matrix triplets as a `flatMap` over the position-keyed edge store,
  and the one-to-one correspondence between the position-keyed and the name-keyed store.
-/
import GraphrsModel.Props.C09Model
import Mathlib.Data.List.Nodup
namespace Graphrs
namespace C09R

/-- the entries one binding of `edges_map` contributes -/
def trip (dir : Bool) (kv : (Nat × Nat) × List Edge) : List (Nat × Nat × Int) :=
  match kv.2 with
  | [] => []
  | e :: _ =>
    let w : Int := match e.w with | none => 1 | some x => x
    if !dir && kv.1.1 != kv.1.2 then [(kv.1.1, kv.1.2, w), (kv.1.2, kv.1.1, w)] else [(kv.1.1, kv.1.2, w)]

theorem triplets_fold (dir : Bool) (F : Outcome (List (Nat × Nat × Int)) → (Nat × Nat) × List Edge → Outcome (List (Nat × Nat × Int)))
    (hF : ∀ acc kv, kv.2 ≠ [] → F (.ok acc) kv = .ok (acc ++ trip dir kv))
    (m : List ((Nat × Nat) × List Edge)) (hne : ∀ kv ∈ m, kv.2 ≠ []) (acc : List (Nat × Nat × Int)) :
    m.foldl F (.ok acc) = .ok (acc ++ m.flatMap (trip dir)) := by
  induction m generalizing acc with
  | nil => simp
  | cons kv m ih =>
    rw [List.foldl_cons, hF acc kv (hne kv (by simp)), ih (fun kv' h => hne kv' (List.mem_cons_of_mem _ h))]
    simp

theorem triplets_eq (s : Store) (hm : s.specs.multi = false) (hne : ∀ kv ∈ s.edgesMap, kv.2 ≠ []) :
    s.getAdjacencyTriplets = .ok (s.edgesMap.flatMap (trip s.specs.directed)) := by
  unfold Store.getAdjacencyTriplets
  simp only [hm, Bool.false_eq_true, if_false]
  rw [triplets_fold s.specs.directed _ ?_ s.edgesMap hne []]
  · simp
  · intro acc kv hkv
    obtain ⟨⟨u, v⟩, l⟩ := kv
    cases l with
    | nil => exact absurd rfl hkv
    | cons e l =>
      obtain ⟨eu, ev, ew, ea⟩ := e
      cases ew <;> (simp only [bind, Outcome.bind, trip]; split <;> simp)

/-- position of a name through `nodes_map` -/
def pos (s : Store) (x : Nat) : Nat := (alookup s.nodesMap x).getD 0

/-- the `edges_map` binding that corresponds to a binding of `edges` -/
def toIdx (s : Store) (kv : (Nat × Nat) × List Edge) : (Nat × Nat) × List Edge :=
  (idxKey s.specs.directed (pos s kv.1.1) (pos s kv.1.2), kv.2)

theorem emap_nonempty {s : Store} (he : s.EdgesInv) : ∀ kv ∈ s.edgesMap, kv.2 ≠ [] := by
  intro kv hkv
  obtain ⟨k, l⟩ := kv
  have hl := AL.mem_lookup he.emap_nodup hkv
  obtain ⟨_, _, _, x, y, _, _, a4⟩ := he.emap_ok k l hl
  exact (he.edges_ok _ l a4).1

theorem emap_perm {s : Store} (hn : s.NodesInv) (he : s.EdgesInv) : s.edgesMap.Perm (s.edges.map (toIdx s)) := by
  rw [List.perm_ext_iff_of_nodup (List.Nodup.of_map _ he.emap_nodup)]
  · rintro ⟨k, l⟩
    constructor
    · intro hkl
      have hl := AL.mem_lookup he.emap_nodup hkl
      obtain ⟨_, _, a3, x, y, e1, e2, a4⟩ := he.emap_ok k l hl
      have px : pos s x = k.1 := by simp [pos, (hn.map_iff x k.1).mpr e1]
      have py : pos s y = k.2 := by simp [pos, (hn.map_iff y k.2).mpr e2]
      refine List.mem_map.mpr ⟨(nameKey s.specs.directed x y, l), AL.lookup_mem a4, ?_⟩
      simp only [toIdx]
      rcases idxKey_cases s.specs.directed x y with ⟨hk, _⟩ | ⟨hk, hd, _⟩
      · rw [show nameKey = idxKey from rfl, hk]
        simp only [px, py, idxKey_canon _ k a3]
      · rw [show nameKey = idxKey from rfl, hk]
        simp only [px, py]
        rw [hd, idxKey_symm, ← hd, idxKey_canon _ k a3]
    · intro hkl
      obtain ⟨⟨k', l'⟩, hmem, heq⟩ := List.mem_map.mp hkl
      have hl := AL.mem_lookup he.edges_nodup hmem
      obtain ⟨_, _, _, _, _, _, _, i, j, e1, e2, a8⟩ := he.edges_ok k' l' hl
      simp only [toIdx, pos, e1, e2, Option.getD_some, Prod.mk.injEq] at heq
      obtain ⟨h1, h2⟩ := heq
      subst h1; subst h2
      exact AL.lookup_mem a8
  · apply List.Nodup.map_on _ (List.Nodup.of_map _ he.edges_nodup)
    rintro ⟨k, l⟩ hkl ⟨k', l'⟩ hkl' heq
    obtain ⟨_, _, a3, _, _, _, _, i, j, e1, e2, _⟩ := he.edges_ok k l (AL.mem_lookup he.edges_nodup hkl)
    obtain ⟨_, _, a3', _, _, _, _, i', j', e1', e2', _⟩ := he.edges_ok k' l' (AL.mem_lookup he.edges_nodup hkl')
    simp only [toIdx, pos, e1, e2, e1', e2', Option.getD_some, Prod.mk.injEq] at heq
    obtain ⟨h1, h2⟩ := heq
    have := key_inj s.specs.directed (x := k.1) (y := k.2) (u := k'.1) (v := k'.2) (i := i) (j := j) (ui := i') (vi := j')
      ⟨fun e => hn.idx_inj e1 (e ▸ e1'), fun e => hn.idx_inj e1 (e ▸ e2'),
       fun e => hn.idx_inj e2 (e ▸ e1'), fun e => hn.idx_inj e2 (e ▸ e2')⟩ h1
    rw [show nameKey = idxKey from rfl, idxKey_canon _ k a3, idxKey_canon _ k' a3'] at this
    rw [this, h2]


/-! ### positions of the triplets -/

theorem trip_swap_mem (kv : (Nat × Nat) × List Edge) (t : Nat × Nat × Int) (ht : t ∈ trip false kv) :
    (t.2.1, t.1, t.2.2) ∈ trip false kv := by
  obtain ⟨⟨u, v⟩, l⟩ := kv
  cases l with
  | nil => simp [trip] at ht
  | cons e l =>
    simp only [trip, Bool.not_false, Bool.true_and] at ht ⊢
    by_cases huv : u = v
    · subst huv
      simp only [bne_self_eq_false, Bool.false_eq_true, if_false, List.mem_singleton] at ht ⊢
      subst ht; rfl
    · have : (u != v) = true := by simpa using huv
      simp only [this, if_true, List.mem_cons, List.not_mem_nil, or_false] at ht ⊢
      rcases ht with rfl | rfl
      · exact Or.inr rfl
      · exact Or.inl rfl

theorem trip_pos_mem (dir : Bool) (kv : (Nat × Nat) × List Edge) (p : Nat × Nat)
    (hp : p ∈ (trip dir kv).map fun t => (t.1, t.2.1)) :
    p = kv.1 ∨ (dir = false ∧ kv.1.1 ≠ kv.1.2 ∧ p = (kv.1.2, kv.1.1)) := by
  obtain ⟨⟨u, v⟩, l⟩ := kv
  cases l with
  | nil => simp [trip] at hp
  | cons e l =>
    simp only [trip] at hp
    split at hp
    · rename_i hc
      simp only [Bool.and_eq_true, Bool.not_eq_true', bne_iff_ne] at hc
      simp only [List.map_cons, List.map_nil, List.mem_cons, List.not_mem_nil, or_false] at hp
      rcases hp with rfl | rfl
      · exact Or.inl rfl
      · exact Or.inr ⟨hc.1, hc.2, rfl⟩
    · simp only [List.map_cons, List.map_nil, List.mem_singleton] at hp
      exact Or.inl hp

theorem trip_pos_nodup (dir : Bool) (kv : (Nat × Nat) × List Edge) :
    ((trip dir kv).map fun t => (t.1, t.2.1)).Nodup := by
  obtain ⟨⟨u, v⟩, l⟩ := kv
  cases l with
  | nil => simp [trip]
  | cons e l =>
    simp only [trip]
    split
    · rename_i hc
      simp only [Bool.and_eq_true, Bool.not_eq_true', bne_iff_ne] at hc
      simp only [List.map_cons, List.map_nil, List.nodup_cons, List.mem_singleton, Prod.mk.injEq, List.not_mem_nil,
        not_false_eq_true, List.nodup_nil, and_true]
      intro hh; exact hc.2 hh.1
    · simp

theorem positions_nodup {s : Store} (he : s.EdgesInv) :
    ((s.edgesMap.flatMap (trip s.specs.directed)).map fun t => (t.1, t.2.1)).Nodup := by
  rw [List.map_flatMap, List.nodup_flatMap]
  refine ⟨fun kv _ => trip_pos_nodup _ kv, ?_⟩
  have hnd := he.emap_nodup
  rw [List.Nodup, List.pairwise_map] at hnd
  refine hnd.imp_of_mem ?_
  intro kv kv' hkv hkv' hne
  have c1 := (he.emap_ok kv.1 kv.2 (AL.mem_lookup he.emap_nodup hkv)).2.2.1
  have c2 := (he.emap_ok kv'.1 kv'.2 (AL.mem_lookup he.emap_nodup hkv')).2.2.1
  show List.Disjoint _ _
  intro p hp hp'
  have h1 := trip_pos_mem _ kv p hp
  have h2 := trip_pos_mem _ kv' p hp'
  obtain ⟨⟨u, v⟩, l⟩ := kv
  obtain ⟨⟨u', v'⟩, l'⟩ := kv'
  simp only [ne_eq, Prod.mk.injEq] at hne h1 h2 c1 c2
  rcases h1 with rfl | ⟨hd, hne1, rfl⟩
  · rcases h2 with h2 | ⟨hd, hne2, h2⟩
    · exact hne (by simpa using h2)
    · rw [hd] at c1 c2
      simp only [Bool.false_eq_true, false_or, Prod.mk.injEq] at c1 c2 h2
      omega
  · rw [hd] at c1 c2
    simp only [Bool.false_eq_true, false_or] at c1 c2
    rcases h2 with h2 | ⟨_, hne2, h2⟩
    · simp only [Prod.mk.injEq] at h2; omega
    · simp only [Prod.mk.injEq] at h2
      exact hne ⟨h2.2, h2.1⟩

end C09R
end Graphrs
