/-
  Pure simulation facts about the model of `dijkstra` (no graph hypotheses):
  * `with_paths = false` runs the same computation with an empty path table;
  * entries of finalised nodes (`dist`, `paths`) are frozen;
  * the run with a target is a prefix of the run without.
-/
import GraphrsModel.Lemmas.DijkstraInv
namespace Graphrs

/-! ## `with_paths = false` -/

/-- forget the path table -/
def DState.ctl (st : DState) : DState := { st with paths := [] }

theorem relaxFull_ctl (weighted : Bool) (cut : Option Int) (fo : Bool) (v : Nat) (d : Int) (st : DState) (adj : Adj) :
    relaxFull weighted cut fo false v d st.ctl adj = (relaxFull weighted cut fo true v d st adj).map DState.ctl := by
  unfold relaxFull DState.ctl
  simp only
  cases (if weighted then adj.2 else some 1) with
  | none => rfl
  | some c =>
    simp only
    cases overCutoff cut (d + c) with
    | true => rfl
    | false =>
      simp only [Bool.false_eq_true, if_false]
      cases st.dist[adj.1]?.join with
      | some du => simp only; split <;> rfl
      | none =>
        simp only
        cases st.seen[adj.1]?.join with
        | none => rfl
        | some su =>
          simp only
          by_cases h1 : d + c < su
          · simp only [h1, decide_true, if_true]; rfl
          · simp only [h1, decide_false, Bool.false_eq_true, if_false]
            by_cases h2 : (!fo && some su == some (d + c)) = true
            · simp only [h2, if_true]; rfl
            · simp only [h2, Bool.false_eq_true, if_false]; rfl

theorem foldExcept_ctl (weighted : Bool) (cut : Option Int) (fo : Bool) (v : Nat) (d : Int) (row : List Adj) :
    ∀ st : DState, foldExcept (relaxFull weighted cut fo false v d) st.ctl row =
      (foldExcept (relaxFull weighted cut fo true v d) st row).map DState.ctl := by
  induction row with
  | nil => intro st; rfl
  | cons a row ih =>
    intro st
    simp only [foldExcept]
    rw [relaxFull_ctl]
    cases relaxFull weighted cut fo true v d st a with
    | error e => rfl
    | ok st' => exact ih st'

theorem dijkstraLoop_ctl (adjOf : Nat → List Adj) (weighted : Bool) (target : Option Nat) (cut : Option Int) (fo : Bool) :
    ∀ (fuel : Nat) (st : DState), dijkstraLoop adjOf weighted target cut fo false fuel st.ctl =
      (dijkstraLoop adjOf weighted target cut fo true fuel st).map DState.ctl := by
  intro fuel
  induction fuel with
  | zero => intro st; rfl
  | succ fuel ih =>
    intro st
    unfold dijkstraLoop
    have e1 : st.ctl.fringe = st.fringe := rfl
    rw [e1]
    cases popFringe st.fringe with
    | none => rfl
    | some res =>
      obtain ⟨⟨d, cnt, v⟩, rest⟩ := res
      simp only
      have e2 : st.ctl.dist = st.dist := rfl
      rw [e2]
      by_cases hd : (st.dist[v]?.join).isSome = true
      · simp only [hd, if_true]
        exact ih { st with fringe := rest }
      · simp only [hd, Bool.false_eq_true, if_false]
        by_cases ht : (target == some v) = true
        · simp only [ht, if_true]; rfl
        · simp only [ht, Bool.false_eq_true, if_false]
          have := foldExcept_ctl weighted cut fo v d (adjOf v) { st with fringe := rest, dist := st.dist.set v (some d) }
          simp only [DState.ctl] at this
          simp only [DState.ctl]
          rw [this]
          cases foldExcept (relaxFull weighted cut fo true v d) { st with fringe := rest, dist := st.dist.set v (some d) } (adjOf v) with
          | error e => rfl
          | ok st' => exact ih st'

/-! ## entries of finalised nodes are frozen -/

def Frozen (a b : DState) : Prop :=
  ∀ x d, lk a.dist x = some d → lk b.dist x = some d ∧ b.paths[x]? = a.paths[x]?

theorem Frozen.refl (a : DState) : Frozen a a := fun _ _ h => ⟨h, rfl⟩

theorem Frozen.trans {a b c : DState} (h1 : Frozen a b) (h2 : Frozen b c) : Frozen a c := by
  intro x d h
  obtain ⟨h3, h4⟩ := h1 x d h
  obtain ⟨h5, h6⟩ := h2 x d h3
  exact ⟨h5, h6.trans h4⟩

theorem relaxFull_frozen {weighted : Bool} {cut : Option Int} {fo wp : Bool} {v : Nat} {d : Int} {st st' : DState} {adj : Adj}
    (h : relaxFull weighted cut fo wp v d st adj = .ok st') :
    st'.dist = st.dist ∧ (∀ x, lk st.dist x ≠ none → st'.paths[x]? = st.paths[x]?) ∧
      ∀ e ∈ st'.fringe, e ∈ st.fringe ∨ e.2.2 = adj.1 := by
  have hpush : ∀ (x : Int) (k : Nat), ∀ e ∈ (x, k, adj.1) :: st.fringe, e ∈ st.fringe ∨ e.2.2 = adj.1 := by
    intro x k e he
    simp only [List.mem_cons] at he
    rcases he with he | he
    · subst he; exact Or.inr rfl
    · exact Or.inl he
  unfold relaxFull at h
  simp only at h
  cases hc : (if weighted then adj.2 else some 1) with
  | none => rw [hc] at h; cases h; exact ⟨rfl, fun _ _ => rfl, fun _ he => Or.inl he⟩
  | some c =>
    rw [hc] at h
    simp only at h
    cases ho : overCutoff cut (d + c) with
    | true => rw [ho] at h; cases h; exact ⟨rfl, fun _ _ => rfl, fun _ he => Or.inl he⟩
    | false =>
      rw [ho] at h
      simp only [Bool.false_eq_true, if_false] at h
      cases hd : st.dist[adj.1]?.join with
      | some du =>
        rw [hd] at h
        simp only at h
        by_cases h1 : d + c < du
        · simp [h1] at h
        · simp only [h1, if_false] at h; cases h; exact ⟨rfl, fun _ _ => rfl, fun _ he => Or.inl he⟩
      | none =>
        rw [hd] at h
        simp only at h
        have hne : ∀ x, lk st.dist x ≠ none → adj.1 ≠ x := by
          intro x hx e; subst e; exact hx hd
        have key : ∀ (q : List (List Nat)) (x : Nat), lk st.dist x ≠ none → (st.paths.set adj.1 q)[x]? = st.paths[x]? :=
          fun q x hx => List.getElem?_set_ne (hne x hx)
        cases hs : st.seen[adj.1]?.join with
        | none =>
          rw [hs] at h
          simp only [if_true] at h
          cases wp
          · simp only [Bool.false_eq_true, if_false] at h; cases h; exact ⟨rfl, fun _ _ => rfl, hpush _ _⟩
          · simp only [if_true] at h; cases h; exact ⟨rfl, key _, hpush _ _⟩
        | some su =>
          rw [hs] at h
          simp only at h
          by_cases h1 : d + c < su
          · simp only [h1, decide_true, if_true] at h
            cases wp
            · simp only [Bool.false_eq_true, if_false] at h; cases h; exact ⟨rfl, fun _ _ => rfl, hpush _ _⟩
            · simp only [if_true] at h; cases h; exact ⟨rfl, key _, hpush _ _⟩
          · simp only [h1, decide_false, Bool.false_eq_true, if_false] at h
            by_cases h2 : (!fo && some su == some (d + c)) = true
            · simp only [h2, if_true] at h
              cases wp
              · simp only [Bool.false_eq_true, if_false] at h; cases h; exact ⟨rfl, fun _ _ => rfl, hpush _ _⟩
              · simp only [if_true] at h; cases h; exact ⟨rfl, key _, hpush _ _⟩
            · simp only [h2, Bool.false_eq_true, if_false] at h; cases h; exact ⟨rfl, fun _ _ => rfl, fun _ he => Or.inl he⟩

theorem foldExcept_frozen {weighted : Bool} {cut : Option Int} {fo wp : Bool} {v : Nat} {d : Int} (row : List Adj) :
    ∀ {st st' : DState}, foldExcept (relaxFull weighted cut fo wp v d) st row = .ok st' →
    st'.dist = st.dist ∧ (∀ x, lk st.dist x ≠ none → st'.paths[x]? = st.paths[x]?) ∧
      ∀ e ∈ st'.fringe, e ∈ st.fringe ∨ ∃ a ∈ row, e.2.2 = a.1 := by
  induction row with
  | nil => intro st st' h; simp only [foldExcept] at h; cases h; exact ⟨rfl, fun _ _ => rfl, fun _ he => Or.inl he⟩
  | cons a row ih =>
    intro st st' h
    simp only [foldExcept] at h
    cases h1 : relaxFull weighted cut fo wp v d st a with
    | error e => rw [h1] at h; cases h
    | ok st1 =>
      rw [h1] at h
      obtain ⟨e1, e2, e5⟩ := relaxFull_frozen h1
      obtain ⟨e3, e4, e6⟩ := ih h
      refine ⟨e3.trans e1, fun x hx => ?_, fun e he => ?_⟩
      · rw [e4 x (by rw [e1]; exact hx), e2 x hx]
      · rcases e6 e he with h7 | ⟨b, hb, h7⟩
        · rcases e5 e h7 with h8 | h8
          · exact Or.inl h8
          · exact Or.inr ⟨a, List.mem_cons_self .., h8⟩
        · exact Or.inr ⟨b, List.mem_cons_of_mem _ hb, h7⟩

theorem Frozen.of_eq {a b : DState} (h1 : b.dist = a.dist) (h2 : ∀ x, lk a.dist x ≠ none → b.paths[x]? = a.paths[x]?) :
    Frozen a b := by
  intro x d h
  exact ⟨by rw [h1]; exact h, h2 x (by rw [h]; simp)⟩

theorem Frozen.setDist (st : DState) (rest : List FNode) (v : Nat) (d : Int) (hv : lk st.dist v = none) :
    Frozen st { st with fringe := rest, dist := st.dist.set v (some d) } := by
  intro x dx h
  refine ⟨?_, rfl⟩
  have : v ≠ x := by intro e; subst e; rw [hv] at h; cases h
  simp only
  rw [lk_set_ne _ _ _ _ this]; exact h

theorem dijkstraLoop_frozen (adjOf : Nat → List Adj) (weighted : Bool) (target : Option Nat) (cut : Option Int) (fo wp : Bool) :
    ∀ (fuel : Nat) (st st' : DState), dijkstraLoop adjOf weighted target cut fo wp fuel st = .ok st' → Frozen st st' := by
  intro fuel
  induction fuel with
  | zero => intro st st' h; simp only [dijkstraLoop] at h; cases h; exact Frozen.refl _
  | succ fuel ih =>
    intro st st' h
    unfold dijkstraLoop at h
    cases hp : popFringe st.fringe with
    | none => rw [hp] at h; cases h; exact Frozen.refl _
    | some res =>
      obtain ⟨⟨d, cnt, v⟩, rest⟩ := res
      rw [hp] at h
      simp only at h
      cases hd : st.dist[v]?.join with
      | some dv =>
        simp only [hd, Option.isSome_some, if_true] at h
        exact (show Frozen st { st with fringe := rest } from fun _ _ h => ⟨h, rfl⟩).trans (ih _ _ h)
      | none =>
        simp only [hd, Option.isSome_none, Bool.false_eq_true, if_false] at h
        have F1 := Frozen.setDist st rest v d hd
        by_cases ht : (target == some v) = true
        · simp only [ht, if_true] at h; cases h; exact F1
        · simp only [ht, Bool.false_eq_true, if_false] at h
          cases hf : foldExcept (relaxFull weighted cut fo wp v d) { st with fringe := rest, dist := st.dist.set v (some d) } (adjOf v) with
          | error e => rw [hf] at h; cases h
          | ok st2 =>
            rw [hf] at h
            simp only at h
            obtain ⟨e1, e2, _⟩ := foldExcept_frozen _ hf
            exact F1.trans ((Frozen.of_eq e1 e2).trans (ih _ _ h))

/-- **the run with a target is a prefix of the run without**: the two final states agree on every node the
    run with a target finalised, and either the states are equal or the target was finalised -/
theorem dijkstraLoop_target_prefix (adjOf : Nat → List Adj) (weighted : Bool) (tgt : Nat) (cut : Option Int) (fo wp : Bool)
    (n : Nat) (hadj : ∀ v, ∀ a ∈ adjOf v, a.1 < n) :
    ∀ (fuel : Nat) (st st1 st2 : DState), st.dist.length = n → (∀ e ∈ st.fringe, e.2.2 < n) →
      dijkstraLoop adjOf weighted (some tgt) cut fo wp fuel st = .ok st1 →
      dijkstraLoop adjOf weighted none cut fo wp fuel st = .ok st2 →
      Frozen st1 st2 ∧ (st1 = st2 ∨ ∃ d, lk st1.dist tgt = some d) := by
  intro fuel
  induction fuel with
  | zero =>
    intro st st1 st2 _ _ h1 h2
    simp only [dijkstraLoop] at h1 h2; cases h1; cases h2
    exact ⟨Frozen.refl _, Or.inl rfl⟩
  | succ fuel ih =>
    intro st st1 st2 hlen hfr h1 h2
    unfold dijkstraLoop at h1 h2
    cases hp : popFringe st.fringe with
    | none => rw [hp] at h1 h2; cases h1; cases h2; exact ⟨Frozen.refl _, Or.inl rfl⟩
    | some res =>
      obtain ⟨⟨d, cnt, v⟩, rest⟩ := res
      obtain ⟨hmem, hrest, _⟩ := popFringe_some hp
      have hrest' : ∀ e ∈ rest, e.2.2 < n := fun e he => hfr e (by rw [hrest] at he; exact List.mem_of_mem_erase he)
      rw [hp] at h1 h2
      simp only at h1 h2
      cases hd : st.dist[v]?.join with
      | some dv =>
        simp only [hd, Option.isSome_some, if_true] at h1 h2
        exact ih { st with fringe := rest } _ _ hlen hrest' h1 h2
      | none =>
        simp only [hd, Option.isSome_none, Bool.false_eq_true, if_false] at h1 h2
        have hn : ((none : Option Nat) == some v) = false := rfl
        simp only [hn, Bool.false_eq_true, if_false] at h2
        by_cases ht : tgt = v
        · subst ht
          simp only [beq_self_eq_true, if_true] at h1
          cases h1
          cases hf : foldExcept (relaxFull weighted cut fo wp tgt d) { st with fringe := rest, dist := st.dist.set tgt (some d) } (adjOf tgt) with
          | error e => rw [hf] at h2; cases h2
          | ok st3 =>
            rw [hf] at h2
            simp only at h2
            obtain ⟨e1, e2, _⟩ := foldExcept_frozen _ hf
            refine ⟨(Frozen.of_eq e1 e2).trans (dijkstraLoop_frozen _ _ _ _ _ _ _ _ _ h2), Or.inr ⟨d, ?_⟩⟩
            exact lk_set_self _ _ _ (by rw [hlen]; exact hfr _ hmem)
        · have : ((some tgt : Option Nat) == some v) = false := by simpa using ht
          simp only [this, Bool.false_eq_true, if_false] at h1
          cases hf : foldExcept (relaxFull weighted cut fo wp v d) { st with fringe := rest, dist := st.dist.set v (some d) } (adjOf v) with
          | error e => rw [hf] at h2; cases h2
          | ok st3 =>
            rw [hf] at h1 h2
            simp only at h1 h2
            obtain ⟨e1, _, e3⟩ := foldExcept_frozen _ hf
            refine ih _ _ _ (by rw [e1]; simpa using hlen) ?_ h1 h2
            intro e he
            rcases e3 e he with h3 | ⟨a, ha, h3⟩
            · exact hrest' e h3
            · rw [h3]; exact hadj v a ha

end Graphrs
