/-
  `basicLoop` (the loop of `dijkstra_basic`) preserves the invariant and terminates with an empty fringe
  within the fuel bound.
-/
import GraphrsModel.Lemmas.DijkstraInv
namespace Graphrs

/-- the arcs of one row of the successor lists -/
def rowArcs (weighted : Bool) (v : Nat) (row : List Adj) : Arcs :=
  row.filterMap fun a => (if weighted then a.2 else some 1).map fun c => (v, a.1, c)

theorem rowArcs_cons_none {weighted : Bool} {v : Nat} {a : Adj} {row : List Adj}
    (h : (if weighted then a.2 else some 1) = none) :
    rowArcs weighted v (a :: row) = rowArcs weighted v row := by
  simp [rowArcs, h]

theorem rowArcs_cons_some {weighted : Bool} {v : Nat} {a : Adj} {row : List Adj} {c : Int}
    (h : (if weighted then a.2 else some 1) = some c) :
    rowArcs weighted v (a :: row) = (v, a.1, c) :: rowArcs weighted v row := by
  simp [rowArcs, h]

/-! ## the termination measure: adjacency entries of rows not yet finalised -/

def pendFrom : List (List Adj) → Nat → List (Option Int) → Nat
  | [], _, _ => 0
  | r :: rs, i, dist => (if lk dist i = none then r.length else 0) + pendFrom rs (i + 1) dist

theorem pendFrom_set_lt (rows : List (List Adj)) (i v : Nat) (dist : List (Option Int)) (x : Option Int)
    (h : v < i) : pendFrom rows i (dist.set v x) = pendFrom rows i dist := by
  induction rows generalizing i with
  | nil => rfl
  | cons r rs ih =>
    simp only [pendFrom]
    rw [lk_set_ne _ _ _ _ (by omega : v ≠ i), ih (i + 1) (by omega)]

theorem pendFrom_set (rows : List (List Adj)) (i v : Nat) (dist : List (Option Int)) (d : Int)
    (hi : i ≤ v) (hn : lk dist v = none) (hv : v < dist.length) :
    pendFrom rows i (dist.set v (some d)) + (rows[v - i]?.getD []).length = pendFrom rows i dist := by
  induction rows generalizing i with
  | nil => simp [pendFrom]
  | cons r rs ih =>
    simp only [pendFrom]
    by_cases e : i = v
    · subst e
      rw [lk_set_self _ _ _ hv, hn, pendFrom_set_lt _ _ _ _ _ (by omega)]
      simp
      omega
    · rw [lk_set_ne _ _ _ _ (fun e' => e e'.symm)]
      have := ih (i + 1) (by omega)
      have e2 : v - i = (v - (i + 1)) + 1 := by omega
      rw [e2, List.getElem?_cons_succ]
      omega

theorem foldl_add_init (l : List Nat) (a : Nat) : l.foldl (· + ·) a = a + l.foldl (· + ·) 0 := by
  induction l generalizing a with
  | nil => simp
  | cons x xs ih => simp only [List.foldl_cons]; rw [ih (a + x), ih (0 + x)]; omega

theorem pendFrom_replicate (rows : List (List Adj)) (i n : Nat) :
    pendFrom rows i (List.replicate n none) = sumNat (rows.map List.length) := by
  induction rows generalizing i with
  | nil => rfl
  | cons r rs ih =>
    simp only [pendFrom, lk_replicate_none, if_true, ih, sumNat, List.map_cons, List.foldl_cons]
    rw [foldl_add_init _ (0 + r.length)]
    omega

/-! ## one relaxation of `dijkstra_basic` -/

theorem relaxBasic_none {weighted : Bool} {d : Int} {st : DState} {u : Nat} {w : W}
    (hc : (if weighted then w else some 1) = none) : relaxBasic weighted d st (u, w) = st := by
  unfold relaxBasic
  simp only [hc]

theorem relaxBasic_lt {weighted : Bool} {d : Int} {st : DState} {u : Nat} {w : W} {c : Int}
    (hc : (if weighted then w else some 1) = some c) (h : ∀ su, lk st.seen u = some su → d + c < su) :
    relaxBasic weighted d st (u, w) =
      { st with seen := st.seen.set u (some (d + c)), count := st.count + 1,
                fringe := (d + c, st.count + 1, u) :: st.fringe } := by
  unfold relaxBasic
  simp only [hc]
  unfold lk at h
  cases hs : st.seen[u]?.join with
  | none => simp
  | some su => simp [h su hs]

theorem relaxBasic_eq {weighted : Bool} {d : Int} {st : DState} {u : Nat} {w : W} {c : Int}
    (hc : (if weighted then w else some 1) = some c) (h : lk st.seen u = some (d + c)) :
    relaxBasic weighted d st (u, w) =
      { st with count := st.count + 1, fringe := (d + c, st.count + 1, u) :: st.fringe } := by
  unfold relaxBasic
  simp only [hc]
  unfold lk at h
  simp [h]

theorem relaxBasic_gt {weighted : Bool} {d : Int} {st : DState} {u : Nat} {w : W} {c su : Int}
    (hc : (if weighted then w else some 1) = some c) (h : lk st.seen u = some su) (hgt : su < d + c) :
    relaxBasic weighted d st (u, w) = st := by
  unfold relaxBasic
  simp only [hc]
  unfold lk at h
  have h1 : ¬ d + c < su := by omega
  have h2 : ¬ su = d + c := by omega
  simp [h, h1, h2]

theorem relaxBasic_row {A : Arcs} {src n : Nat} {weighted : Bool} {v : Nat} {d : Int} (hA : ArcsWf A n)
    (st : DState) (a : Adj) (row : List Adj)
    (R : RowInv A src n none v d (rowArcs weighted v (a :: row)) st.dist st.seen st.fringe) :
    RowInv A src n none v d (rowArcs weighted v row) (relaxBasic weighted d st a).dist
        (relaxBasic weighted d st a).seen (relaxBasic weighted d st a).fringe ∧
      (relaxBasic weighted d st a).dist = st.dist ∧
      (relaxBasic weighted d st a).fringe.length ≤ st.fringe.length + 1 := by
  obtain ⟨u, w⟩ := a
  cases hcost : (if weighted then w else some 1) with
  | none =>
    rw [rowArcs_cons_none (by simpa using hcost)] at R
    rw [relaxBasic_none hcost]
    exact ⟨R, rfl, by omega⟩
  | some c =>
    rw [rowArcs_cons_some (by simpa using hcost)] at R
    have harc : (v, u, c) ∈ A := R.pendA _ (List.mem_cons_self ..)
    have hun : u < st.seen.length := by rw [R.lseen]; exact (hA _ harc).1
    by_cases hlt : ∀ su, lk st.seen u = some su → d + c < su
    · rw [relaxBasic_lt hcost hlt]
      refine ⟨?_, rfl, by simp⟩
      exact R.push hA rfl (fun su h => by have := hlt su h; omega) _ (by simp [R.lseen])
        (lk_set_self _ _ _ hun) (fun x hx => lk_set_ne _ _ _ _ (fun e => hx e.symm)) _
    · have : ∃ su, lk st.seen u = some su ∧ su ≤ d + c := by
        cases hs : lk st.seen u with
        | none => exact absurd (fun su h => by rw [hs] at h; cases h) hlt
        | some su =>
          refine ⟨su, rfl, ?_⟩
          by_cases hle : su ≤ d + c
          · exact hle
          · exact absurd (fun su' h => by rw [hs] at h; cases h; omega) hlt
      obtain ⟨su, hs, hle⟩ := this
      by_cases heq : su = d + c
      · subst heq
        rw [relaxBasic_eq hcost hs]
        refine ⟨?_, rfl, by simp⟩
        exact R.push hA rfl (fun su' h => by rw [hs] at h; cases h; omega) _ R.lseen
          hs (fun x _ => rfl) _
      · rw [relaxBasic_gt hcost hs (by omega)]
        exact ⟨R.skip (Or.inr ⟨su, hs, by omega⟩), rfl, by omega⟩

theorem basic_fold {A : Arcs} {src n : Nat} {weighted : Bool} {v : Nat} {d : Int} (hA : ArcsWf A n)
    (row : List Adj) : ∀ (st : DState),
    RowInv A src n none v d (rowArcs weighted v row) st.dist st.seen st.fringe →
    RowInv A src n none v d [] (row.foldl (relaxBasic weighted d) st).dist
        (row.foldl (relaxBasic weighted d) st).seen (row.foldl (relaxBasic weighted d) st).fringe ∧
      (row.foldl (relaxBasic weighted d) st).dist = st.dist ∧
      (row.foldl (relaxBasic weighted d) st).fringe.length ≤ st.fringe.length + row.length := by
  induction row with
  | nil => intro st R; exact ⟨R, rfl, by simp⟩
  | cons a row ih =>
    intro st R
    obtain ⟨R1, h1, h2⟩ := relaxBasic_row hA st a row R
    obtain ⟨R2, h3, h4⟩ := ih _ R1
    simp only [List.foldl_cons, List.length_cons]
    exact ⟨R2, by rw [h3, h1], by omega⟩

/-- the rows are exactly the arcs -/
structure RowsOk (A : Arcs) (weighted : Bool) (rows : List (List Adj)) : Prop where
  sub : ∀ v x w, (v, x, w) ∈ A → (v, x, w) ∈ rowArcs weighted v (rows[v]?.getD [])
  sup : ∀ v, ∀ a ∈ rowArcs weighted v (rows[v]?.getD []), a ∈ A

theorem rowArcs_src {weighted : Bool} {v : Nat} {row : List Adj} : ∀ a ∈ rowArcs weighted v row, a.1 = v := by
  intro a ha
  simp only [rowArcs, List.mem_filterMap, Option.map_eq_some_iff] at ha
  obtain ⟨_, _, _, _, h⟩ := ha
  rw [← h]

theorem basicLoop_inv {A : Arcs} {src n : Nat} {weighted : Bool} (rows : List (List Adj)) (hA : ArcsWf A n)
    (hrows : RowsOk A weighted rows) : ∀ (fuel : Nat) (st : DState),
    Inv A src n none [] st.dist st.seen st.fringe →
    st.fringe.length + pendFrom rows 0 st.dist < fuel →
    Inv A src n none [] (basicLoop (fun v => rows[v]?.getD []) weighted fuel st).dist
      (basicLoop (fun v => rows[v]?.getD []) weighted fuel st).seen
      (basicLoop (fun v => rows[v]?.getD []) weighted fuel st).fringe ∧
    (basicLoop (fun v => rows[v]?.getD []) weighted fuel st).fringe = [] := by
  intro fuel
  induction fuel with
  | zero => intro st _ h; omega
  | succ fuel ih =>
    intro st I hm
    unfold basicLoop
    cases hp : popFringe st.fringe with
    | none =>
      have := popFringe_none hp
      simp only
      exact ⟨I, this⟩
    | some res =>
      obtain ⟨⟨d, cnt, v⟩, rest⟩ := res
      obtain ⟨hmem, hrest, hmin⟩ := popFringe_some hp
      have hlen : rest.length + 1 = st.fringe.length := by
        rw [hrest, List.length_erase_of_mem hmem]
        have : 0 < st.fringe.length := List.length_pos_of_mem hmem
        omega
      simp only
      cases hd : st.dist[v]?.join with
      | some dv =>
        have hd' : lk st.dist v = some dv := hd
        simp only [Option.isSome_some, if_true]
        apply ih
        · simp only; rw [hrest]; exact I.pop_stale (d, cnt, v) dv hd'
        · simp only; omega
      | none =>
        have hd' : lk st.dist v = none := hd
        simp only [Option.isSome_none, Bool.false_eq_true, if_false]
        have R := I.pop_fresh d cnt v hmem hmin hd' (rowArcs weighted v (rows[v]?.getD []))
          (hrows.sub v) (fun a ha => rowArcs_src a ha) (hrows.sup v)
        rw [← hrest] at R
        obtain ⟨R2, h3, h4⟩ := basic_fold hA (rows[v]?.getD [])
          { st with fringe := rest, dist := st.dist.set v (some d) } R
        apply ih
        · exact R2.done
        · rw [h3]
          have hvn : v < st.dist.length := by rw [I.ldist]; exact I.frLt _ hmem
          have := pendFrom_set rows 0 v st.dist d (Nat.zero_le _) hd' hvn
          simp only [Nat.sub_zero] at this
          simp only at h4 ⊢
          omega

end Graphrs
