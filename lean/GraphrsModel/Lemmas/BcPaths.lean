/-
  C05 (Brandes), the meaning of the specification's enumeration: over unit costs and an exact labelling,
  `Arcs.tightPaths` lists every shortest source-target path (as a node sequence accepted by `walkCost`) exactly once.
-/
import GraphrsModel.Lemmas.BcSpec
import GraphrsModel.Lemmas.DijkstraPaths
import GraphrsModel.Props.C04
import Mathlib.Data.List.Nodup
namespace Graphrs
namespace Bc

theorem minArc_mem {A : Arcs} {x y : Nat} {m : Int} (h : minArc A x y = some m) : (x, y, m) ∈ A := by
  unfold minArc at h
  cases hcs : (A.filter fun a => a.1 == x && a.2.1 == y).map (·.2.2) with
  | nil => rw [hcs] at h; cases h
  | cons c cs' =>
    rw [hcs] at h
    simp only [Option.some.injEq] at h
    have hm := foldl_min_mem cs' c
    rw [h, ← hcs, List.mem_map] at hm
    obtain ⟨⟨a1, a2, a3⟩, ha, he⟩ := hm
    rw [List.mem_filter] at ha
    obtain ⟨ha1, ha2⟩ := ha
    simp only [Bool.and_eq_true, beq_iff_eq] at ha2
    obtain ⟨e1, e2⟩ := ha2
    simp only at he
    subst e1 e2 he
    exact ha1

theorem minArc_unit {A : Arcs} (hU : UnitArcs A) {x y : Nat} (h : (x, y, (1 : Int)) ∈ A) : minArc A x y = some 1 := by
  obtain ⟨m, hm, hin, _⟩ := minArc_spec h
  have : m = 1 := hU _ hin
  rw [hm, this]

section exact
variable {B : Arcs} {d : List (Nat × Int)} {s : Nat}

/-- a shortest path: a node sequence from `s` to `t` that `walkCost` accepts with the distance as its cost -/
def ShortestPath (B : Arcs) (s t : Nat) (p : List Nat) : Prop := ∃ c, PathOk B s t p c ∧ IsDist B s t c

theorem pathOk_walk {s t : Nat} {p : List Nat} {c : Int} (h : PathOk B s t p c) : Walk B s t c := by
  obtain ⟨a, b, ha, hb, hw⟩ := C04_walkCost_walk B p c h.2.2
  rw [h.1] at ha; rw [h.2.1] at hb
  cases ha; cases hb
  exact hw

/-- a path of cost 0 over unit arcs is the single node -/
theorem pathOk_zero (hU : UnitArcs B) {s t : Nat} {p : List Nat} (h : PathOk B s t p 0) : p = [s] := by
  obtain ⟨hh, hl, hw⟩ := h
  cases p with
  | nil => simp at hh
  | cons x rest =>
    simp at hh; subst hh
    cases rest with
    | nil => rfl
    | cons y rest =>
      exfalso
      rw [walkCost_cons_cons] at hw
      cases hm : minArc B x y with
      | none => rw [hm] at hw; cases hw
      | some b =>
        rw [hm] at hw
        simp only at hw
        cases hr : Arcs.walkCost B (y :: rest) with
        | none => rw [hr] at hw; cases hw
        | some c' =>
          rw [hr] at hw
          simp only [Option.map_some, Option.some.injEq] at hw
          have hb : b = 1 := hU _ (minArc_mem hm)
          obtain ⟨a', b', _, _, hwk⟩ := C04_walkCost_walk B _ _ hr
          have := walk_nonneg hU hwk
          omega

/-- **`tightPaths` lists every shortest path exactly once** -/
theorem tightPaths_exact (hU : UnitArcs B) (hd : ExactD B d s) (n : Nat) (hn : ∀ t k, IsDist B s t k → k < (n : Int)) :
    ∀ t, (Arcs.tightPaths B d s n t).Nodup ∧ ∀ p, p ∈ Arcs.tightPaths B d s n t ↔ ShortestPath B s t p := by
  have hTp := tp_eq hU hd n hn
  -- the source
  have hsrc : (Arcs.tightPaths B d s n s).Nodup ∧ ∀ p, p ∈ Arcs.tightPaths B d s n s ↔ ShortestPath B s s p := by
    rw [hTp]
    simp only [beq_self_eq_true, if_true, List.mem_singleton]
    refine ⟨by simp, fun p => ⟨?_, ?_⟩⟩
    · rintro rfl
      exact ⟨0, ⟨rfl, rfl, rfl⟩, isDist_source hU s⟩
    · rintro ⟨c, hp, hc⟩
      have : c = 0 := isDist_unique hc (isDist_source hU s)
      subst this
      exact pathOk_zero hU hp
  -- unreachable targets
  have hnone : ∀ t, t ≠ s → alookup d t = none →
      (Arcs.tightPaths B d s n t).Nodup ∧ ∀ p, p ∈ Arcs.tightPaths B d s n t ↔ ShortestPath B s t p := by
    intro t hts hl
    have : (t == s) = false := by simpa using hts
    rw [hTp, this, hl]
    simp only [Bool.false_eq_true, if_false]
    refine ⟨List.nodup_nil, fun p => ⟨fun h => absurd h List.not_mem_nil, ?_⟩⟩
    rintro ⟨c, _, hc⟩
    rw [(hd t c).2 hc] at hl; cases hl
  have key : ∀ m : Nat, ∀ t dt, alookup d t = some dt → dt.toNat = m →
      (Arcs.tightPaths B d s n t).Nodup ∧ ∀ p, p ∈ Arcs.tightPaths B d s n t ↔ ShortestPath B s t p := by
    intro m
    induction m using Nat.strong_induction_on with
    | _ m ih =>
      intro t dt hl hm
      by_cases hts : t = s
      · subst hts; exact hsrc
      · have hdt := (hd t dt).1 hl
        have hdt1 : 1 ≤ dt := by
          have h0 := isDist_nonneg hU hdt
          by_contra hlt
          have : dt = 0 := by omega
          subst this
          exact hts (walk_zero hU hdt.1 (Int.le_refl _))
        have hIH : ∀ y ∈ tpreds B d t dt,
            (Arcs.tightPaths B d s n y).Nodup ∧ ∀ p, p ∈ Arcs.tightPaths B d s n y ↔ ShortestPath B s y p := by
          intro y hy
          have hyd := ((mem_tpreds hU hd t dt y).1 hy).2
          exact ih (dt - 1).toNat (by omega) y (dt - 1) ((hd y _).2 hyd) rfl
        have hbeq : (t == s) = false := by simpa using hts
        rw [hTp, hbeq, hl]
        simp only [Bool.false_eq_true, if_false]
        constructor
        · rw [List.nodup_flatMap]
          constructor
          · intro y hy
            exact (hIH y hy).1.map (fun a b e => List.append_cancel_right e)
          · refine (tpreds_nodup B d t dt).imp ?_
            intro y y' hne
            simp only [Function.onFun]
            intro p hp hp'
            rw [List.mem_map] at hp hp'
            obtain ⟨q, hq, rfl⟩ := hp
            obtain ⟨q', hq', e⟩ := hp'
            have : q' = q := List.append_cancel_right e
            subst this
            have h1 := tightPaths_last B d s n y q' hq
            have h2 := tightPaths_last B d s n y' q' hq'
            rw [h1] at h2
            exact hne (Option.some.inj h2)
        · intro p
          simp only [List.mem_flatMap, List.mem_map]
          constructor
          · rintro ⟨y, hy, q, hq, rfl⟩
            obtain ⟨harc, hyd⟩ := (mem_tpreds hU hd t dt y).1 hy
            obtain ⟨c, hpq, hc⟩ := ((hIH y hy).2 q).1 hq
            have hcy : c = dt - 1 := isDist_unique hc hyd
            subst hcy
            refine ⟨dt, ⟨?_, by simp, ?_⟩, hdt⟩
            · cases q with
              | nil => have := hpq.1; simp at this
              | cons a l => simpa using hpq.1
            · rw [walkCost_append_last B t q y hpq.2.1, hpq.2.2, minArc_unit hU harc]
              simp
          · rintro ⟨c, hp, hc⟩
            have hcd : c = dt := isDist_unique hc hdt
            subst hcd
            obtain ⟨hh, hlst, hw⟩ := hp
            have hpne : p ≠ [] := by intro e; rw [e] at hh; simp at hh
            have hsplit := List.dropLast_concat_getLast hpne
            have hgl : p.getLast hpne = t := by
              have := List.getLast?_eq_some_getLast hpne
              rw [hlst] at this
              exact (Option.some.inj this).symm
            rw [hgl] at hsplit
            -- the prefix is not empty
            cases hq : p.dropLast with
            | nil =>
              rw [hq] at hsplit
              rw [← hsplit] at hh
              simp at hh
              exact absurd hh hts
            | cons a l =>
              rw [hq] at hsplit
              have hqne : (a :: l) ≠ [] := by simp
              obtain ⟨y, hy⟩ : ∃ y, (a :: l).getLast? = some y := ⟨_, List.getLast?_eq_some_getLast hqne⟩
              rw [← hsplit, walkCost_append_last B t (a :: l) y hy] at hw
              cases hwq : Arcs.walkCost B (a :: l) with
              | none => rw [hwq] at hw; cases hw
              | some x =>
                rw [hwq] at hw
                simp only [Option.bind_some] at hw
                cases hm : minArc B y t with
                | none => rw [hm] at hw; cases hw
                | some b =>
                  rw [hm] at hw
                  simp only [Option.map_some, Option.some.injEq] at hw
                  have harc := minArc_mem hm
                  have hb : b = 1 := hU _ harc
                  subst hb
                  have hhq : (a :: l).head? = some s := by
                    rw [← hsplit] at hh; simpa using hh
                  have hpq : PathOk B s y (a :: l) x := ⟨hhq, hy, hwq⟩
                  have hwalk := pathOk_walk hpq
                  have hyd : IsDist B s y x := by
                    refine ⟨hwalk, fun c' hc' => ?_⟩
                    have := hdt.2 _ (Walk.snoc hc' harc)
                    omega
                  have hx : x = c - 1 := by omega
                  subst hx
                  have hyin : y ∈ tpreds B d t c := (mem_tpreds hU hd t c y).2 ⟨harc, hyd⟩
                  exact ⟨y, hyin, a :: l, ((hIH y hyin).2 _).2 ⟨c - 1, hpq, hyd⟩, hsplit⟩
  intro t
  by_cases hts : t = s
  · subst hts; exact hsrc
  · cases hl : alookup d t with
    | none => exact hnone t hts hl
    | some dt => exact key _ t dt hl rfl

end exact

end Bc
end Graphrs
