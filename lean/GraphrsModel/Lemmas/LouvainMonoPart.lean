/-
  Lemmas for Props/C13Monotone.lean, part 3: the aggregation invariant `AggInv` of a level graph (its edge sums are
  the edge sums of the level-0 graph after mapping every original node to its super-node), the modularity of the
  partition `st.part` of ORIGINAL nodes as the potential of the level graph, and the monotonicity of one call of
  `compute_one_level`.
-/
import GraphrsModel.Lemmas.LouvainMonoLevel
import GraphrsModel.Lemmas.LouvainFullWeights
namespace Graphrs
open LouvainFull
namespace LM

/-- `B` maps every original node `z < n` to the super-node of `lv` that contains it, and every edge sum of the level
    graph is the corresponding edge sum of the level-0 edge list `es0` (for symmetric `f` when undirected: an undirected
    edge is stored in one orientation only) -/
structure AggInv (es0 : List Edge) (n : Nat) (lv : Level) (k : Nat) (B : Nat → Nat) : Prop where
  blk : ∀ z, z < n → B z < k ∧ z ∈ LF.mem lv (B z)
  agg : ∀ f : Nat → Nat → Rat, (lv.g.specs.directed = false → ∀ u v, f u v = f v u) →
      wsum lv.g.allEdges f = wsum es0 (fun u v => f (B u) (B v))
  nonan : NoNaN lv.g.allEdges

theorem mem_part_iff {lv : Level} {n k : Nat} (hg : LF.GoodLevel lv n k) {st : LState} (hs : LF.SInv lv k st)
    {B : Nat → Nat} (hblk : ∀ z, z < n → B z < k ∧ z ∈ LF.mem lv (B z)) (z : Nat) (hz : z < n) (c : Nat) :
    z ∈ (st.part[c]?).getD [] ↔ LT.asg st (B z) = c := by
  obtain ⟨hb1, hb2⟩ := hblk z hz
  rw [hs.part_iff]
  constructor
  · rintro ⟨x, hx, hzx⟩
    have hxk := (hs.n2c_lt x c hx).1
    have : x = B z := hg.mem_disj x (B z) z hxk hb1 hzx hb2
    subst this
    simp [LT.asg, hx]
  · intro ha
    obtain ⟨c', hc'⟩ := hs.n2c_total (B z) hb1
    have : c' = c := by simpa [LT.asg, hc'] using ha
    subst this
    exact ⟨B z, hc', hb2⟩

/-- **the modularity (on the level-0 edge list) of the partition of original nodes a state describes is the
    modularity of its assignment on the level graph** -/
theorem Qlist_part {es0 : List Edge} {n : Nat} (hes0 : ∀ e ∈ es0, e.u < n ∧ e.v < n)
    {lv : Level} {k : Nat} (hg : LF.GoodLevel lv n k) {B : Nat → Nat} (hagg : AggInv es0 n lv k B)
    {st : LState} (hs : LF.SInv lv k st) (m res : Rat) :
    Qlist lv.g.specs.directed es0 m res st.part = Qasg lv.g.specs.directed lv.g.allEdges k m res (LT.asg st) := by
  rw [Qlist_range, hs.part_len]
  unfold Qasg
  apply Finset.sum_congr rfl
  intro c _
  have hmem := fun z hz => mem_part_iff hg hs hagg.blk z hz c
  have hL : wsum es0 (inL ((st.part[c]?).getD [])) = wsum lv.g.allEdges (indL (LT.asg st) c) := by
    rw [hagg.agg _ (fun _ => indL_symm _ _)]
    apply wsum_congr
    intro e he
    unfold inL indL
    exact if_congr (and_congr (hmem _ (hes0 e he).1) (hmem _ (hes0 e he).2)) rfl rfl
  unfold T
  rw [hL]
  cases hd : lv.g.specs.directed
  · -- undirected: only the symmetric sum `O + I` transfers
    have hD : wsum es0 (inO ((st.part[c]?).getD [])) + wsum es0 (inI ((st.part[c]?).getD []))
        = wsum lv.g.allEdges (indO (LT.asg st) c) + wsum lv.g.allEdges (indI (LT.asg st) c) := by
      rw [← wsum_add, ← wsum_add]
      have := hagg.agg (indD (LT.asg st) c) (fun _ => indD_symm _ _)
      unfold indD at this
      rw [this]
      apply wsum_congr
      intro e he
      unfold inO inI indO indI
      rw [if_congr (hmem _ (hes0 e he).1) rfl rfl, if_congr (hmem _ (hes0 e he).2) rfl rfl]
    unfold term
    simp only [Bool.false_eq_true, if_false]
    rw [hD]
  · have hnosym : lv.g.specs.directed = false → ∀ (f : Nat → Nat → Rat) u v, f u v = f v u := by
      intro h; rw [hd] at h; cases h
    have hO : wsum es0 (inO ((st.part[c]?).getD [])) = wsum lv.g.allEdges (indO (LT.asg st) c) := by
      rw [hagg.agg _ (fun h => hnosym h _)]
      apply wsum_congr
      intro e he
      unfold inO indO
      exact if_congr (hmem _ (hes0 e he).1) rfl rfl
    have hI : wsum es0 (inI ((st.part[c]?).getD [])) = wsum lv.g.allEdges (indI (LT.asg st) c) := by
      rw [hagg.agg _ (fun h => hnosym h _)]
      apply wsum_congr
      intro e he
      unfold inI indI
      exact if_congr (hmem _ (hes0 e he).2) rfl rfl
    rw [hO, hI]

/-! ### the local-moving loop never decreases the potential -/

theorem Q_le {Φ : (Nat → Nat) → Rat} {k : Nat} {st st' : LState} (h : LT.Q Φ k st st') :
    Φ (LT.asg st) ≤ Φ (LT.asg st') := by
  rcases h with ⟨_, h⟩ | ⟨_, h⟩
  · rw [h]
  · rcases h with h | ⟨h, _⟩
    · exact le_of_lt h
    · exact le_of_eq h

theorem sweeps_phi {lv : Level} {n k : Nat} (hg : LF.GoodLevel lv n k) (hwf : lv.g.wf = true)
    (hmulti : lv.g.specs.multi = false) {m res : Rat} (hm : 0 < m) (hres : 0 ≤ res)
    {deg0 in0 out0 : List (Nat × Rat)}
    (hnn : ∀ x, 0 ≤ LT.dgOf deg0 x ∧ 0 ≤ LT.dgOf in0 x ∧ 0 ≤ LT.dgOf out0 x) (order : List Nat) (fuel : Nat) :
    ∀ (st st' : LState), LF.SInv lv k st → LT.TInv lv k deg0 in0 out0 st →
      sweeps lv m res order fuel st = .ok (some st') →
      LF.SInv lv k st' ∧ LT.Phi lv k m res deg0 in0 out0 (LT.asg st) ≤ LT.Phi lv k m res deg0 in0 out0 (LT.asg st') := by
  induction fuel with
  | zero => intro st st' _ _ h; simp [LouvainFull.sweeps] at h
  | succ fuel ih =>
    intro st st' hs ht h
    unfold LouvainFull.sweeps at h
    simp only [bind, Outcome.bind] at h
    split at h
    next x st1 h1 =>
      have hs0 : LF.SInv lv k { st with moves := 0 } :=
        ⟨hs.part_len, hs.inner_len, hs.n2c_total, hs.n2c_lt, hs.inner_iff, hs.inner_nodup, hs.part_iff, hs.part_nodup⟩
      have ht0 : LT.TInv lv k deg0 in0 out0 { st with moves := 0 } :=
        ⟨ht.deg_eq, ht.in_eq, ht.out_eq, ht.stotU, ht.stotD⟩
      have hs1 : LF.SInv lv k st1 := LF.SInv.pass hg order _ st1 hs0 h1
      obtain ⟨ht1, hq⟩ := LT.pass_step hg hwf hmulti hm hres hnn order _ st1 hs0 ht0 h1
      have hle : LT.Phi lv k m res deg0 in0 out0 (LT.asg st) ≤ LT.Phi lv k m res deg0 in0 out0 (LT.asg st1) :=
        Q_le (st := { st with moves := 0 }) hq
      by_cases hmv : st1.moves > 0
      · rw [if_pos hmv] at h
        obtain ⟨h2, h3⟩ := ih st1 st' hs1 ht1 h
        exact ⟨h2, le_trans hle h3⟩
      · rw [if_neg hmv] at h
        cases h
        exact ⟨hs1, hle⟩
    all_goals (exact absurd h (by simp))

/-- **one call of `compute_one_level` never decreases the modularity measured on the level-0 edge list**: the partition
    it returns is at least as good as the partition it was handed (the member blocks of the level graph's nodes) -/
theorem level_mono {es0 : List Edge} {n : Nat} (hes0 : ∀ e ∈ es0, e.u < n ∧ e.v < n)
    {lv : Level} {k : Nat} (hg : LF.GoodLevel lv n k) (hwf : lv.g.wf = true) (hmulti : lv.g.specs.multi = false)
    (hw : LF.EdgesNN lv.g) {B : Nat → Nat} (hagg : AggInv es0 n lv k B)
    {partition : List (List Nat)} (hin : LF.InputOK lv k partition)
    {m res : Rat} (hm : 0 < m) (hres : 0 ≤ res) {perm : List Nat} {fuel : Nat}
    {p i : List (List Nat)} {imp : Bool}
    (h : computeOneLevel lv m res partition perm fuel = .ok (some (p, i, imp))) :
    Qlist lv.g.specs.directed es0 m res partition ≤ Qlist lv.g.specs.directed es0 m res p := by
  have hnames : ∀ x, x < k → x ∈ lv.g.names := fun x hx => (hg.names_iff x).2 hx
  obtain ⟨di, hdi, _, hU, hD, hnn⟩ := LT.degreeInformation_spec lv.g hwf k hnames hw
  unfold computeOneLevel at h
  simp only [bind, Outcome.bind] at h
  rw [LF.sortNat_eq_range hg.names_nodup hg.names_iff, hin.len, hdi] at h
  simp only at h
  split at h
  next y ost hsw =>
    cases ost with
    | none => simp at h
    | some st =>
      simp only at h
      by_cases hr : st.risky = true
      · rw [if_pos hr] at h; simp at h
      · rw [if_neg hr] at h
        simp only [Outcome.ok.injEq, Option.some.injEq, Prod.mk.injEq] at h
        obtain ⟨rfl, _, _⟩ := h
        have hs0 : LF.SInv lv k (LT.initState partition k di) := LF.SInv.init hin di
        have ht0 := LT.TInv_init lv partition k di hU hD
        obtain ⟨hs1, hle⟩ := sweeps_phi hg hwf hmulti hm hres hnn _ fuel (LT.initState partition k di) st hs0 ht0 hsw
        have e0 := Qlist_part hes0 hg hagg hs0 m res
        have e1 := Qlist_part hes0 hg hagg hs1 m res
        rw [← Phi_eq_Qasg hg hwf hagg.nonan m res _ (LT.asg_lt hs0) di hdi] at e0
        rw [← Phi_eq_Qasg hg hwf hagg.nonan m res _ (LT.asg_lt hs1) di hdi] at e1
        rw [Qlist_filter, e1]
        have : (LT.initState partition k di).part = partition := rfl
        rw [this] at e0
        rw [e0]
        exact hle
  all_goals (exact absurd h (by simp))

end LM
end Graphrs
