/-
  Prop-level characterisation of `Store.nodesOk` and its preservation by `add_node`.
-/
import GraphrsModel.Lemmas.AList
namespace Graphrs
namespace Store

/-- Prop-level form of `nodesOk`. -/
structure NodesInv (s : Store) : Prop where
  names_nodup : s.names.Nodup
  map_nodup : (s.nodesMap.map (·.1)).Nodup
  rev_nodup : (s.nodesMapRev.map (·.1)).Nodup
  map_iff : ∀ x i, alookup s.nodesMap x = some i ↔ s.names[i]? = some x
  rev_eq : ∀ i, alookup s.nodesMapRev i = s.nodesVec[i]?
  succ_len : s.succVec.length = s.nodesVec.length
  pred_len : s.predVec.length = s.nodesVec.length
  not_poisoned : s.poisoned = none

theorem names_length (s : Store) : s.names.length = s.nodesVec.length := by simp [names]

theorem names_getElem? (s : Store) (i : Nat) : s.names[i]? = (s.nodesVec[i]?).map (·.name) := by
  simp [names]

theorem nodesOk_iff (s : Store) : s.nodesOk = true ↔ NodesInv s := by
  constructor
  · intro h
    simp only [nodesOk, Bool.and_eq_true, decide_eq_true_eq, AL.keysNodup_iff,
      List.all_eq_true, beq_iff_eq, Option.isNone_iff_eq_none] at h
    obtain ⟨⟨⟨⟨⟨⟨⟨⟨⟨h1, h2⟩, h3⟩, h4⟩, h5⟩, h6⟩, h7⟩, h8⟩, h9⟩, h10⟩ := h
    have hrev : ∀ i, alookup s.nodesMapRev i = s.nodesVec[i]? := by
      intro i
      by_cases hi : i < s.nodesVec.length
      · exact h7 i (by simpa using hi)
      · cases hl : alookup s.nodesMapRev i with
        | none => simp [List.getElem?_eq_none (Nat.le_of_not_lt hi)]
        | some v => exact (h6 _ (AL.lookup_mem hl)).symm
    refine ⟨h1, h2, h3, ?_, hrev, h8, h9, h10⟩
    intro x i
    constructor
    · intro hl
      exact h4 _ (AL.lookup_mem hl)
    · intro hn
      exact h5 (x, i) (List.mem_zipIdx_iff_getElem?.mpr hn)
  · intro h
    simp only [nodesOk, Bool.and_eq_true, decide_eq_true_eq, AL.keysNodup_iff,
      List.all_eq_true, beq_iff_eq, Option.isNone_iff_eq_none]
    refine ⟨⟨⟨⟨⟨⟨⟨⟨⟨h.names_nodup, h.map_nodup⟩, h.rev_nodup⟩, ?_⟩, ?_⟩, ?_⟩, ?_⟩, h.succ_len⟩,
      h.pred_len⟩, h.not_poisoned⟩
    · intro kv hkv
      exact (h.map_iff kv.1 kv.2).mp (AL.mem_lookup h.map_nodup hkv)
    · intro p hp
      exact (h.map_iff p.1 p.2).mpr (List.mem_zipIdx_iff_getElem?.mp hp)
    · intro kv hkv
      rw [← h.rev_eq]
      exact AL.mem_lookup h.rev_nodup hkv
    · intro i _
      exact h.rev_eq i

namespace NodesInv
variable {s : Store}

theorem lookup_lt (h : NodesInv s) {x i : Nat} (hl : alookup s.nodesMap x = some i) :
    i < s.nodesVec.length := by
  have := (h.map_iff x i).mp hl
  have h2 : i < s.names.length := by
    rcases Nat.lt_or_ge i s.names.length with h3 | h3
    · exact h3
    · rw [List.getElem?_eq_none h3] at this; cases this
  simpa [names] using h2

theorem mem_names_iff (h : NodesInv s) (x : Nat) :
    x ∈ s.names ↔ ∃ i, alookup s.nodesMap x = some i := by
  rw [List.mem_iff_getElem?]
  constructor
  · rintro ⟨i, hi⟩; exact ⟨i, (h.map_iff x i).mpr hi⟩
  · rintro ⟨i, hi⟩; exact ⟨i, (h.map_iff x i).mp hi⟩

theorem acontains_iff (h : NodesInv s) (x : Nat) :
    acontains s.nodesMap x = true ↔ x ∈ s.names := by
  rw [h.mem_names_iff, acontains, Option.isSome_iff_exists]

theorem lookup_none_iff (h : NodesInv s) (x : Nat) :
    alookup s.nodesMap x = none ↔ x ∉ s.names := by
  rw [h.mem_names_iff]
  cases alookup s.nodesMap x <;> simp

/-- indexes are injective on names -/
theorem idx_inj (h : NodesInv s) {x y i : Nat} (hx : alookup s.nodesMap x = some i)
    (hy : alookup s.nodesMap y = some i) : x = y := by
  have h1 := (h.map_iff x i).mp hx
  have h2 := (h.map_iff y i).mp hy
  rw [h1] at h2
  exact Option.some.inj h2

end NodesInv

/-! ### `add_node` -/

theorem poison_specs (s : Store) (m : String) : (s.poison m).specs = s.specs := by
  unfold poison; split <;> rfl

theorem addNode_specs (s : Store) (n : Node) : (s.addNode n).specs = s.specs := by
  unfold addNode
  split
  · split <;> simp [poison_specs]
  · rfl

/-- explicit form of `addNode` on an existing name (under the invariant) -/
theorem addNode_existing {s : Store} (h : NodesInv s) (n : Node) {i : Nat}
    (hl : alookup s.nodesMap n.name = some i) :
    s.addNode n = { s with nodesVec := s.nodesVec.set i n, nodesMapRev := ainsert s.nodesMapRev i n } := by
  unfold addNode
  simp only [hl, h.lookup_lt hl, if_true]

/-- explicit form of `addNode` on a new name (under the invariant) -/
theorem addNode_new {s : Store} (h : NodesInv s) (n : Node)
    (hl : alookup s.nodesMap n.name = none) :
    s.addNode n = { s with
      nodesMap := ainsert s.nodesMap n.name s.nodesVec.length
      nodesMapRev := ainsert s.nodesMapRev s.nodesVec.length n
      nodesVec := s.nodesVec ++ [n]
      succMap := ainsert s.succMap s.nodesVec.length []
      predMap := ainsert s.predMap s.nodesVec.length []
      succVec := s.succVec ++ [[]]
      predVec := s.predVec ++ [[]] } := by
  unfold addNode
  have : acontains s.nodesMapRev s.nodesVec.length = false := by
    simp [acontains, h.rev_eq]
  simp only [hl, this]
  rfl

theorem addNode_existing_names {s : Store} (h : NodesInv s) (n : Node) {i : Nat}
    (hl : alookup s.nodesMap n.name = some i) : (s.addNode n).names = s.names := by
  rw [addNode_existing h n hl]
  have h1 := (h.map_iff _ _).mp hl
  simp only [names, List.map_set] at h1 ⊢
  apply List.ext_getElem?
  intro j
  rw [List.getElem?_set]
  split
  · rename_i hij
    subst hij
    split
    · exact h1.symm
    · rename_i hlt
      simp at hlt
      rw [List.getElem?_eq_none (by simpa using hlt)]
  · rfl

theorem addNode_nodesInv {s : Store} (h : NodesInv s) (n : Node) : NodesInv (s.addNode n) := by
  cases hl : alookup s.nodesMap n.name with
  | some i =>
    have hnames := addNode_existing_names h n hl
    have hi := h.lookup_lt hl
    refine ⟨by rw [hnames]; exact h.names_nodup, ?_, ?_, ?_, ?_, ?_, ?_, ?_⟩
    · rw [addNode_existing h n hl]; exact h.map_nodup
    · rw [addNode_existing h n hl]; exact AL.nodup_insert h.rev_nodup _ _
    · rw [hnames]; rw [addNode_existing h n hl]; exact h.map_iff
    · rw [addNode_existing h n hl]
      intro j
      simp only [AL.lookup_insert, List.getElem?_set, h.rev_eq]
      split
      · rename_i hij; subst hij; simp
      · rfl
    · rw [addNode_existing h n hl]; simpa using h.succ_len
    · rw [addNode_existing h n hl]; simpa using h.pred_len
    · rw [addNode_existing h n hl]; exact h.not_poisoned
  | none =>
    have hnot : n.name ∉ s.names := (h.lookup_none_iff _).mp hl
    rw [addNode_new h n hl]
    refine ⟨?_, AL.nodup_insert h.map_nodup _ _, AL.nodup_insert h.rev_nodup _ _, ?_, ?_, ?_, ?_, h.not_poisoned⟩
    · simp only [names, List.map_append, List.map_cons, List.map_nil]
      rw [List.nodup_append]
      refine ⟨h.names_nodup, by simp, ?_⟩
      intro a ha b hb
      simp at hb
      subst hb
      intro e
      subst e
      exact hnot ha
    · intro x i
      simp only [AL.lookup_insert, names, List.map_append, List.map_cons, List.map_nil]
      have hlen : (s.nodesVec.map (·.name)).length = s.nodesVec.length := by simp
      rw [List.getElem?_append]
      by_cases hx : n.name = x
      · subst hx
        simp only [if_true, hlen]
        constructor
        · intro e
          have e' : s.nodesVec.length = i := Option.some.inj e
          subst e'
          simp
        · intro e
          split at e
          · exact absurd (List.mem_iff_getElem?.mpr ⟨i, e⟩) hnot
          · rename_i hge
            by_cases h0 : i - s.nodesVec.length = 0
            · congr 1; omega
            · have : ([n.name] : List Nat)[i - s.nodesVec.length]? = none := by
                apply List.getElem?_eq_none; simp; omega
              rw [this] at e; cases e
      · simp only [hx, if_false, hlen]
        rw [h.map_iff]
        simp only [names]
        split
        · rfl
        · rename_i hge
          have hge' : s.nodesVec.length ≤ i := Nat.le_of_not_lt hge
          rw [List.getElem?_eq_none (by simpa using hge')]
          constructor
          · intro e; cases e
          · intro e
            by_cases h0 : i - s.nodesVec.length = 0
            · rw [h0] at e
              simp at e
              exact absurd e hx
            · have : ([n.name] : List Nat)[i - s.nodesVec.length]? = none := by
                apply List.getElem?_eq_none; simp; omega
              rw [this] at e; cases e
    · intro j
      simp only [AL.lookup_insert, h.rev_eq]
      rw [List.getElem?_append]
      split
      · rename_i hj; subst hj; simp
      · rename_i hj
        split
        · rfl
        · rename_i hge
          have hge' : s.nodesVec.length ≤ j := Nat.le_of_not_lt hge
          rw [List.getElem?_eq_none hge']
          symm
          apply List.getElem?_eq_none
          simp; omega
    · simp [h.succ_len]
    · simp [h.pred_len]

end Store
end Graphrs
