/-
  Helper lemmas for C04: association lists, relaxation invariants, walks.
-/
import GraphrsModel.Spec.PathCheck
namespace Graphrs

theorem alookup_ainsert {κ ν} [DecidableEq κ] (m : List (κ × ν)) (k k' : κ) (v : ν) :
    alookup (ainsert m k v) k' = if k = k' then some v else alookup m k' := by
  induction m with
  | nil => simp [ainsert, alookup]
  | cons p m ih =>
    obtain ⟨a, b⟩ := p
    simp only [ainsert]
    by_cases h : a = k
    · subst h
      by_cases h2 : a = k' <;> simp [alookup, h2]
    · simp only [h, if_false, alookup, ih]
      by_cases h2 : a = k'
      · subst h2
        have : ¬ k = a := fun e => h e.symm
        simp [this]
      · simp [h2]

theorem alookup_mem {κ ν} [DecidableEq κ] (m : List (κ × ν)) (k : κ) (v : ν)
    (h : alookup m k = some v) : (k, v) ∈ m := by
  induction m with
  | nil => simp [alookup] at h
  | cons p m ih =>
    obtain ⟨a, b⟩ := p
    simp only [alookup] at h
    by_cases h2 : a = k
    · subst h2
      simp at h
      subst h
      simp
    · simp only [h2, if_false] at h
      exact List.mem_cons_of_mem _ (ih h)

/-- one relaxation step -/
def relaxStep (d : List (Nat × Int)) (arc : Nat × Nat × Int) : List (Nat × Int) :=
  match alookup d arc.1 with
  | none => d
  | some du =>
    let cand := du + arc.2.2
    match alookup d arc.2.1 with
    | none => ainsert d arc.2.1 cand
    | some dv => if cand < dv then ainsert d arc.2.1 cand else d

theorem relaxRound_eq (arcs : Arcs) (d : List (Nat × Int)) :
    Arcs.relaxRound arcs d = arcs.foldl relaxStep d := rfl

/-- every label is a walk cost -/
def Witnessed (arcs : Arcs) (s : Nat) (d : List (Nat × Int)) : Prop :=
  ∀ v x, alookup d v = some x → Walk arcs s v x

def SrcOk (s : Nat) (d : List (Nat × Int)) : Prop :=
  ∃ x, alookup d s = some x ∧ x ≤ 0

theorem relaxStep_witnessed (arcs : Arcs) (s : Nat) (d : List (Nat × Int))
    (arc : Nat × Nat × Int) (ha : arc ∈ arcs) (hd : Witnessed arcs s d) :
    Witnessed arcs s (relaxStep d arc) := by
  obtain ⟨u, v, w⟩ := arc
  unfold relaxStep
  simp only
  cases hu : alookup d u with
  | none => simpa using hd
  | some du =>
    have hwu : Walk arcs s u du := hd u du hu
    have hnew : Witnessed arcs s (ainsert d v (du + w)) := by
      intro v' x hx
      rw [alookup_ainsert] at hx
      by_cases e : v = v'
      · subst e
        simp at hx
        subst hx
        exact Walk.snoc hwu ha
      · simp only [e, if_false] at hx
        exact hd v' x hx
    cases hv : alookup d v with
    | none => simpa using hnew
    | some dv =>
      simp only
      by_cases hlt : du + w < dv
      · simpa [hlt] using hnew
      · simpa [hlt] using hd

theorem relaxStep_srcOk (s : Nat) (d : List (Nat × Int))
    (arc : Nat × Nat × Int) (hd : SrcOk s d) : SrcOk s (relaxStep d arc) := by
  obtain ⟨u, v, w⟩ := arc
  obtain ⟨x0, hx0, hle⟩ := hd
  unfold relaxStep
  simp only
  cases hu : alookup d u with
  | none => exact ⟨x0, hx0, hle⟩
  | some du =>
    cases hv : alookup d v with
    | none =>
      simp only
      refine ⟨x0, ?_, hle⟩
      rw [alookup_ainsert]
      have : ¬ v = s := by
        intro e; subst e; rw [hv] at hx0; cases hx0
      simp [this, hx0]
    | some dv =>
      simp only
      by_cases hlt : du + w < dv
      · simp only [hlt, if_true]
        by_cases e : v = s
        · subst e
          rw [hv] at hx0
          cases hx0
          refine ⟨du + w, ?_, by omega⟩
          rw [alookup_ainsert]; simp
        · refine ⟨x0, ?_, hle⟩
          rw [alookup_ainsert]; simp [e, hx0]
      · simp only [hlt, if_false]
        exact ⟨x0, hx0, hle⟩

theorem foldl_relaxStep_witnessed (arcs : Arcs) (s : Nat) (l : Arcs)
    (hl : ∀ a ∈ l, a ∈ arcs) (d : List (Nat × Int)) (hd : Witnessed arcs s d) :
    Witnessed arcs s (l.foldl relaxStep d) := by
  induction l generalizing d with
  | nil => simpa using hd
  | cons a l ih =>
    simp only [List.foldl_cons]
    exact ih (fun b hb => hl b (List.mem_cons_of_mem _ hb)) _
      (relaxStep_witnessed arcs s d a (hl a (List.mem_cons_self ..)) hd)

theorem foldl_relaxStep_srcOk (s : Nat) (l : Arcs) (d : List (Nat × Int)) (hd : SrcOk s d) :
    SrcOk s (l.foldl relaxStep d) := by
  induction l generalizing d with
  | nil => simpa using hd
  | cons a l ih =>
    simp only [List.foldl_cons]
    exact ih _ (relaxStep_srcOk s d a hd)

theorem foldl_const_inv {α β} (P : α → Prop) (f : α → α) (hf : ∀ a, P a → P (f a))
    (l : List β) (a : α) (ha : P a) : P (l.foldl (fun d _ => f d) a) := by
  induction l generalizing a with
  | nil => simpa using ha
  | cons b l ih => simp only [List.foldl_cons]; exact ih _ (hf a ha)

theorem distFrom_witnessed (arcs : Arcs) (rounds s : Nat) :
    Witnessed arcs s (Arcs.distFrom arcs rounds s) := by
  unfold Arcs.distFrom
  apply foldl_const_inv (Witnessed arcs s)
  · intro d hd
    rw [relaxRound_eq]
    exact foldl_relaxStep_witnessed arcs s arcs (fun _ h => h) d hd
  · intro v x hx
    simp only [alookup] at hx
    by_cases e : s = v
    · subst e; simp at hx; subst hx; exact Walk.nil _
    · simp [e] at hx

theorem distFrom_srcOk (arcs : Arcs) (rounds s : Nat) :
    SrcOk s (Arcs.distFrom arcs rounds s) := by
  unfold Arcs.distFrom
  apply foldl_const_inv (SrcOk s)
  · intro d hd
    rw [relaxRound_eq]
    exact foldl_relaxStep_srcOk s arcs d hd
  · exact ⟨0, by simp [alookup], Int.le_refl 0⟩

theorem isClosed_arc (arcs : Arcs) (d : List (Nat × Int)) (hc : isClosed arcs d = true)
    (u v : Nat) (w : Int) (ha : (u, v, w) ∈ arcs) (du : Int) (hu : alookup d u = some du) :
    ∃ dv, alookup d v = some dv ∧ dv ≤ du + w := by
  unfold isClosed at hc
  rw [List.all_eq_true] at hc
  have := hc _ ha
  simp only [hu] at this
  cases hv : alookup d v with
  | none => simp [hv] at this
  | some dv =>
    simp only [hv, decide_eq_true_eq] at this
    exact ⟨dv, rfl, this⟩

/-- prepend an arc to a walk -/
theorem Walk.cons' {arcs : Arcs} {x y b : Nat} {w c : Int} (ha : (x, y, w) ∈ arcs)
    (hw : Walk arcs y b c) : Walk arcs x b (c + w) := by
  induction hw with
  | nil =>
    have := Walk.snoc (Walk.nil (arcs := arcs) x) ha
    simpa using this
  | snoc hw' ha' ih =>
    rename_i u v c' w'
    have := Walk.snoc ih ha'
    have e : c' + w' + w = c' + w + w' := by omega
    rw [e]; exact this

theorem foldl_min_mem (cs : List Int) (c : Int) :
    cs.foldl (fun m z => if z < m then z else m) c ∈ c :: cs := by
  induction cs generalizing c with
  | nil => simp
  | cons z cs ih =>
    simp only [List.foldl_cons]
    have := ih (if z < c then z else c)
    by_cases h : z < c
    · simp only [h, if_true] at this ⊢
      simp only [List.mem_cons] at this ⊢
      rcases this with h1 | h1
      · exact Or.inr (Or.inl h1)
      · exact Or.inr (Or.inr h1)
    · simp only [h, if_false] at this ⊢
      simp only [List.mem_cons] at this ⊢
      rcases this with h1 | h1
      · exact Or.inl h1
      · exact Or.inr (Or.inr h1)

end Graphrs
