/-
  Helpers for the model-level theorem about `bfs_equal_size_partitions` (Props/C10EqualSize.lean).

  On top of the index-range invariant `NP.EqInv` of Lemmas/EqualSize.lean a second invariant is carried through
  the two loops: the placed indexes are pairwise different, an index is placed iff its `visited` flag is set,
  and no part is longer than the cap.  The fuel of both loops is proved sufficient: every round of the outer
  loop places at least one index (so `n + 1` rounds are enough), and the inner loop never stops for lack of fuel
  (its measure is the queue length plus the out-degrees of the unvisited indexes).
-/
import GraphrsModel.Lemmas.EqualSize
import Mathlib.Data.List.Nodup
import Mathlib.Data.List.Perm.Basic
import Mathlib.Data.List.Range
namespace Graphrs
namespace EqSz
open Store NP

/-! ### lists -/

theorem flatten_set_append_perm {α} (parts : List (List α)) (j : Nat) (p : List α) (c : α)
    (h : parts[j]? = some p) : (parts.set j (p ++ [c])).flatten.Perm (c :: parts.flatten) := by
  induction parts generalizing j with
  | nil => simp at h
  | cons q qs ih =>
    cases j with
    | zero =>
      simp only [List.getElem?_cons_zero, Option.some.injEq] at h
      subst h
      simp only [List.set_cons_zero, List.flatten_cons, List.append_assoc, List.singleton_append]
      exact List.perm_middle
    | succ j =>
      simp only [List.getElem?_cons_succ] at h
      simp only [List.set_cons_succ, List.flatten_cons]
      exact ((ih j h).append_left q).trans List.perm_middle

/-- the second loop invariant -/
structure EqInv2 (M : Nat) (parts : List (List Nat)) (visited : List Bool) : Prop where
  nodup : parts.flatten.Nodup
  mem_iff : ∀ i, i ∈ parts.flatten ↔ visited[i]? = some true
  sizes : ∀ p ∈ parts, p.length ≤ M

theorem eqInv2_init (n k M : Nat) : EqInv2 M (List.replicate k []) (List.replicate n false) := by
  have hfl : (List.replicate k ([] : List Nat)).flatten = [] := by
    rw [List.flatten_eq_nil_iff]; intro l hl; exact List.eq_of_mem_replicate hl
  refine ⟨by rw [hfl]; exact List.nodup_nil, ?_, ?_⟩
  · intro i
    rw [hfl]
    constructor
    · intro h; cases h
    · intro h
      have := List.mem_of_getElem? h
      cases List.eq_of_mem_replicate this
  · intro p hp; rw [List.eq_of_mem_replicate hp]; exact Nat.zero_le _

theorem eqInv2_step {M : Nat} {parts : List (List Nat)} {visited : List Bool} {part cur : Nat} {p : List Nat}
    (h : EqInv2 M parts visited) (hp : parts[part]? = some p) (hlt : p.length < M)
    (hv : visited[cur]? = some false) :
    EqInv2 M (parts.set part (p ++ [cur])) (visited.set cur true) := by
  have hperm := flatten_set_append_perm parts part p cur hp
  have hcur : cur ∉ parts.flatten := by
    intro hm
    have := (h.mem_iff cur).mp hm
    rw [hv] at this; cases this
  have hcl : cur < visited.length := getElem?_lt hv
  refine ⟨?_, ?_, ?_⟩
  · rw [hperm.nodup_iff]
    exact List.nodup_cons.mpr ⟨hcur, h.nodup⟩
  · intro i
    rw [hperm.mem_iff, List.mem_cons]
    by_cases hi : i = cur
    · subst hi
      simp [hcl]
    · rw [List.getElem?_set_ne (Ne.symm hi), ← h.mem_iff i]
      simp [hi]
  · intro q hq
    rcases List.mem_or_eq_of_mem_set hq with hq | rfl
    · exact h.sizes q hq
    · simp only [List.length_append, List.length_singleton]; omega

/-! ### the inner loop -/

/-- partial correctness of the inner loop for the second invariant, and progress: when the fuel exceeds the
    queue length and some queued index is unvisited, at least one index is placed -/
theorem eqInner_post (s : Store) (M : Nat) :
    ∀ (fuel : Nat) (parts : List (List Nat)) (visited : List Bool) (count : Nat) (queue : List Nat) (part : Nat)
      (st' : EqState),
    eqInner s M fuel ⟨parts, visited, count, queue, part⟩ = some st' →
    EqInv2 M parts visited → (parts[part]?.getD []).length < M →
    EqInv2 M st'.parts st'.visited ∧ count ≤ st'.count ∧
      (queue.length < fuel → (∃ q ∈ queue, visited[q]? = some false) → count < st'.count) := by
  intro fuel
  induction fuel with
  | zero =>
    intro parts visited count queue part st' h hi hlt
    simp only [eqInner, Option.some.injEq] at h
    subst h
    exact ⟨hi, Nat.le_refl _, fun hf => absurd hf (Nat.not_lt_zero _)⟩
  | succ fuel ih =>
    intro parts visited count queue part st' h hi hlt
    cases queue with
    | nil =>
      simp only [eqInner, Option.some.injEq] at h
      subst h
      refine ⟨hi, Nat.le_refl _, ?_⟩
      rintro _ ⟨q, hq, _⟩
      cases hq
    | cons cur rest =>
      simp only [eqInner] at h
      cases hv : visited[cur]? with
      | none => rw [hv] at h; cases h
      | some b =>
        rw [hv] at h
        cases b with
        | true =>
          simp only at h
          obtain ⟨a, b, c⟩ := ih _ _ _ _ _ _ h hi hlt
          refine ⟨a, b, ?_⟩
          rintro hf ⟨q, hq, hqv⟩
          apply c (by simp only [List.length_cons] at hf; omega)
          rcases List.mem_cons.mp hq with rfl | hq
          · rw [hv] at hqv; cases hqv
          · exact ⟨q, hq, hqv⟩
        | false =>
          simp only at h
          cases hp : parts[part]? with
          | none => rw [hp] at h; cases h
          | some p =>
            rw [hp] at h hlt
            simp only [Option.getD_some] at hlt
            simp only at h
            have hi' := eqInv2_step hi hp hlt hv
            by_cases hfull : ((p ++ [cur]).length == M) = true
            · rw [if_pos hfull] at h
              simp only [Option.some.injEq] at h
              subst h
              exact ⟨hi', Nat.le_succ _, fun _ _ => Nat.lt_succ_self _⟩
            · rw [if_neg hfull] at h
              cases hr : s.succVec[cur]? with
              | none => rw [hr] at h; cases h
              | some row =>
                rw [hr] at h
                simp only at h
                have hpl : part < parts.length := getElem?_lt hp
                obtain ⟨a, b, _⟩ := ih _ _ _ _ _ _ h hi' (by
                  simp only [List.getElem?_set_self hpl, Option.getD_some]
                  simp only [List.length_append, List.length_singleton, beq_iff_eq] at hfull ⊢
                  omega)
                exact ⟨a, by omega, fun _ _ => by omega⟩

/-! ### the inner fuel: the loop never stops for lack of fuel -/

/-- total out-degree (row length) of the unvisited indexes -/
def unvisW : List (List Adj) → List Bool → Nat
  | r :: rs, b :: bs => (if b then 0 else r.length) + unvisW rs bs
  | _, _ => 0

theorem sumNat_cons (a : Nat) (l : List Nat) : sumNat (a :: l) = a + sumNat l := by
  unfold sumNat
  rw [List.foldl_cons]
  have : ∀ (l : List Nat) (x : Nat), l.foldl (· + ·) x = x + l.foldl (· + ·) 0 := by
    intro l
    induction l with
    | nil => intro x; simp
    | cons y ys ih => intro x; rw [List.foldl_cons, List.foldl_cons, ih (x + y), ih (0 + y)]; omega
  rw [this l (0 + a)]; omega

theorem unvisW_le (rows : List (List Adj)) (vis : List Bool) : unvisW rows vis ≤ sumNat (rows.map List.length) := by
  induction rows generalizing vis with
  | nil => simp [unvisW]
  | cons r rs ih =>
    cases vis with
    | nil => simp [unvisW]
    | cons b bs =>
      simp only [unvisW, List.map_cons, sumNat_cons]
      have := ih bs
      split <;> omega

theorem unvisW_set (rows : List (List Adj)) (vis : List Bool) (i : Nat) (row : List Adj)
    (hr : rows[i]? = some row) (hv : vis[i]? = some false) :
    unvisW rows (vis.set i true) + row.length = unvisW rows vis := by
  induction rows generalizing vis i with
  | nil => simp at hr
  | cons r rs ih =>
    cases vis with
    | nil => simp at hv
    | cons b bs =>
      cases i with
      | zero =>
        simp only [List.getElem?_cons_zero, Option.some.injEq] at hr hv
        subst hr; subst hv
        simp [unvisW]; omega
      | succ i =>
        simp only [List.getElem?_cons_succ] at hr hv
        simp only [List.set_cons_succ, unvisW]
        have := ih bs i hr hv
        omega

/-- what "the `while !queue.is_empty()` loop has really ended" means: the queue is empty or the `break` was taken -/
def InnerDone (M : Nat) (st : EqState) : Prop :=
  st.queue = [] ∨ st.parts[st.part]?.map List.length = some M

/-- with fuel above `queue.length + unvisW`, the inner loop ends by itself -/
theorem eqInner_done (s : Store) (M : Nat) :
    ∀ (fuel : Nat) (parts : List (List Nat)) (visited : List Bool) (count : Nat) (queue : List Nat) (part : Nat)
      (st' : EqState),
    eqInner s M fuel ⟨parts, visited, count, queue, part⟩ = some st' →
    queue.length + unvisW s.succVec visited < fuel → InnerDone M st' := by
  intro fuel
  induction fuel with
  | zero =>
    intro parts visited count queue part st' _ hf
    exact absurd hf (Nat.not_lt_zero _)
  | succ fuel ih =>
    intro parts visited count queue part st' h hf
    cases queue with
    | nil =>
      simp only [eqInner, Option.some.injEq] at h
      subst h
      exact Or.inl rfl
    | cons cur rest =>
      simp only [eqInner] at h
      cases hv : visited[cur]? with
      | none => rw [hv] at h; cases h
      | some b =>
        rw [hv] at h
        cases b with
        | true =>
          simp only at h
          exact ih _ _ _ _ _ _ h (by simp only [List.length_cons] at hf; omega)
        | false =>
          simp only at h
          cases hp : parts[part]? with
          | none => rw [hp] at h; cases h
          | some p =>
            rw [hp] at h
            simp only at h
            have hpl : part < parts.length := getElem?_lt hp
            by_cases hfull : ((p ++ [cur]).length == M) = true
            · rw [if_pos hfull] at h
              simp only [Option.some.injEq] at h
              subst h
              right
              simp only [List.getElem?_set_self hpl, Option.map_some]
              simpa using hfull
            · rw [if_neg hfull] at h
              cases hr : s.succVec[cur]? with
              | none => rw [hr] at h; cases h
              | some row =>
                rw [hr] at h
                simp only at h
                apply ih _ _ _ _ _ _ h
                have := unvisW_set s.succVec visited cur row hr hv
                simp only [List.length_cons, List.length_append, List.length_map] at hf ⊢
                omega

/-- the fuel the outer loop hands to the inner loop is always enough -/
theorem eqInner_fuel_sufficient (s : Store) (M : Nat) (st st' : EqState)
    (h : eqInner s M (st.queue.length + s.adjTotal + 2) st = some st') : InnerDone M st' := by
  obtain ⟨parts, visited, count, queue, part⟩ := st
  apply eqInner_done s M _ _ _ _ _ _ _ h
  have := unvisW_le s.succVec visited
  simp only [adjTotal]
  omega

/-! ### the outer loop -/

/-- total correctness of the outer loop: with `n < count + fuel` it ends with every index placed -/
theorem eqOuter_full (s : Store) (n k M : Nat) (hM : 0 < M) (hnk : n < k * M) (hsl : s.succVec.length = n)
    (hrow : ∀ (i : Nat) (row : List Adj), s.succVec[i]? = some row → ∀ a ∈ row, a.1 < n) :
    ∀ (fuel : Nat) (parts : List (List Nat)) (visited : List Bool) (count : Nat) (queue : List Nat) (part : Nat),
    EqInv n k M parts visited count part → EqInv2 M parts visited →
    (parts[part]?.getD []).length < M → (∀ q ∈ queue, q < n) → n < count + fuel →
    ∃ st', eqOuter s n M fuel ⟨parts, visited, count, queue, part⟩ = some st' ∧
      EqInv n k M st'.parts st'.visited st'.count st'.part ∧ EqInv2 M st'.parts st'.visited ∧ n ≤ st'.count := by
  intro fuel
  induction fuel with
  | zero =>
    intro parts visited count queue part h h2 hlt hq hf
    exact ⟨_, rfl, h, h2, by simp only [Nat.add_zero] at hf; exact Nat.le_of_lt hf⟩
  | succ fuel ih =>
    intro parts visited count queue part h h2 hlt hq hf
    simp only [eqOuter]
    by_cases hc : count ≥ n
    · rw [if_pos hc]; exact ⟨_, rfl, h, h2, hc⟩
    · rw [if_neg hc]
      cases hfd : (List.range n).find? (fun i => !(visited[i]?.getD true)) with
      | none =>
        exfalso
        rw [List.find?_eq_none] at hfd
        have : visited.count true = visited.length := by
          apply count_true_eq_length
          intro i hi
          have := hfd i (by rw [List.mem_range, ← h.vlen]; exact hi)
          simpa using this
        rw [← h.vis, h.vlen] at this
        omega
      | some node =>
        simp only
        have hnode : node < n := List.mem_range.mp (List.mem_of_find?_eq_some hfd)
        have hnv : visited[node]? = some false := by
          have hp := List.find?_some hfd
          have hlt' : node < visited.length := by rw [h.vlen]; exact hnode
          rw [List.getElem?_eq_getElem hlt'] at hp ⊢
          simpa using hp
        obtain ⟨st', hst', h', hle, hq'⟩ := eqInner_inv s n k M hsl hrow ((queue ++ [node]).length + s.adjTotal + 2)
          parts visited count (queue ++ [node]) part h hlt (by
            intro q hqm
            rcases List.mem_append.mp hqm with hqm | hqm
            · exact hq q hqm
            · simp at hqm; subst hqm; exact hnode)
        obtain ⟨h2', _, hprog⟩ := eqInner_post s M _ _ _ _ _ _ _ hst' h2 hlt
        have hcount : count < st'.count :=
          hprog (by omega) ⟨node, List.mem_append_right _ (List.mem_singleton_self _), hnv⟩
        rw [hst']
        simp only
        have hpl : st'.part < st'.parts.length := by rw [h'.plen]; exact h'.part_lt
        have hp : st'.parts[st'.part]? = some st'.parts[st'.part] := List.getElem?_eq_getElem hpl
        rw [hp] at hle ⊢
        simp only [Option.getD_some] at hle
        by_cases hfull : st'.parts[st'.part].length = M
        · have hcnt := h'.cnt
          rw [hp] at hcnt
          simp only [Option.getD_some] at hcnt
          have hcn : st'.count ≤ n := by
            rw [h'.vis, ← h'.vlen]; exact List.count_le_length
          have hlt' : st'.part + 1 < k := by
            have e : st'.count = (st'.part + 1) * M := by rw [hcnt, hfull, Nat.add_mul]; simp
            have : (st'.part + 1) * M < k * M := by omega
            exact Nat.lt_of_mul_lt_mul_right this
          have hnext := h'.later (st'.part + 1) (by omega) hlt'
          simp only [Option.map_some, hfull, beq_self_eq_true, if_true]
          apply ih
          · refine ⟨h'.plen, h'.vlen, hlt', ?_, ?_, h'.vis, h'.bound⟩
            · intro j hj hjk; exact h'.later j (by omega) hjk
            · rw [hnext, hcnt, hfull, Nat.add_mul]; simp
          · exact h2'
          · rw [hnext]; simpa using hM
          · intro q hqm; cases hqm
          · omega
        · have hne : (some st'.parts[st'.part].length == some M) = false := by simpa using hfull
          simp only [Option.map_some, hne, Bool.false_eq_true, if_false]
          apply ih _ _ _ _ _ h' h2'
          · rw [hp]; simp only [Option.getD_some]; omega
          · exact hq'
          · omega

/-- the final state: the flattened parts are a permutation of `0 .. n-1` -/
theorem final_perm {n k M : Nat} {parts : List (List Nat)} {visited : List Bool} {count part : Nat}
    (h : EqInv n k M parts visited count part) (h2 : EqInv2 M parts visited) (hc : n ≤ count) :
    parts.flatten.Perm (List.range n) := by
  rw [List.perm_ext_iff_of_nodup h2.nodup List.nodup_range]
  intro i
  rw [List.mem_range]
  constructor
  · intro hi
    obtain ⟨p, hp, hip⟩ := List.mem_flatten.mp hi
    exact h.bound p hp i hip
  · intro hi
    rw [h2.mem_iff]
    have hcl : visited.count true = visited.length := by
      have h1 : visited.count true ≤ visited.length := List.count_le_length
      have h3 := h.vis
      have h4 := h.vlen
      omega
    rw [List.count_eq_length] at hcl
    have hlt : i < visited.length := by rw [h.vlen]; exact hi
    rw [List.getElem?_eq_getElem hlt]
    rw [← hcl visited[i] (List.getElem_mem hlt)]

/-! ### the conversion of indexes to names -/

/-- the name of the node at position `i` -/
def nameAt (s : Store) (i : Nat) : Nat := s.names[i]?.getD 0

theorem bind_ok {α β} (a : α) (f : α → Outcome β) : Outcome.bind (.ok a) f = f a := rfl

theorem names_fold (s : Store) (hn : NodesInv s) (part : List Nat) (hp : ∀ i ∈ part, i < s.nodesVec.length) :
    ∀ l0 : List Nat,
    part.foldl (fun a i => Outcome.bind a (fun l =>
        Outcome.bind (Outcome.ofOption "bfs_equal_size_partitions: get_node_by_index().unwrap()" (s.getNodeByIndex i))
          (fun nd => Outcome.ok (l ++ [nd.name])))) (.ok l0) = .ok (l0 ++ part.map (nameAt s)) := by
  induction part with
  | nil => intro l0; simp
  | cons i rest ih =>
    intro l0
    have hi : i < s.nodesVec.length := hp i (List.mem_cons_self ..)
    have hg : s.getNodeByIndex i = some s.nodesVec[i] := by
      simp [getNodeByIndex, hn.rev_eq, hi]
    have hna : nameAt s i = s.nodesVec[i].name := by
      simp [nameAt, names, hi]
    rw [List.foldl_cons, bind_ok, hg]
    show List.foldl _ (Outcome.ok (l0 ++ [s.nodesVec[i].name])) rest = _
    rw [ih (fun j hj => hp j (List.mem_cons_of_mem _ hj))]
    simp [hna]

theorem parts_fold (s : Store) (hn : NodesInv s) (parts : List (List Nat))
    (hp : ∀ p ∈ parts, ∀ i ∈ p, i < s.nodesVec.length) :
    ∀ out0 : List (List Nat),
    parts.foldl (fun acc part => Outcome.bind acc (fun out =>
      Outcome.bind (part.foldl (fun a i => Outcome.bind a (fun l =>
        Outcome.bind (Outcome.ofOption "bfs_equal_size_partitions: get_node_by_index().unwrap()" (s.getNodeByIndex i))
          (fun nd => Outcome.ok (l ++ [nd.name])))) (.ok []))
        (fun names => Outcome.ok (out ++ [names])))) (.ok out0)
      = .ok (out0 ++ parts.map (fun p => p.map (nameAt s))) := by
  induction parts with
  | nil => intro out0; simp
  | cons p rest ih =>
    intro out0
    rw [List.foldl_cons]
    rw [bind_ok]
    rw [names_fold s hn p (hp p (List.mem_cons_self ..)) []]
    simp only [List.nil_append, bind_ok]
    rw [ih (fun q hq => hp q (List.mem_cons_of_mem _ hq))]
    simp

theorem map_nameAt_range (s : Store) : (List.range s.nodesVec.length).map (nameAt s) = s.names := by
  apply List.ext_getElem
  · simp [names]
  · intro i h1 h2
    simp only [List.length_map, List.length_range] at h1
    simp [nameAt, names, h1]

end EqSz
end Graphrs

