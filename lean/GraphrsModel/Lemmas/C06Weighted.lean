/-
  A graph built (`new_from_nodes_and_edges`) from edges that all carry a weight has only weighted entries in
  `successors_vec` - under every GraphSpecs record.  Needed for the weighted closeness model on directed graphs, which
  runs on `reverse()` (a rebuilt graph): the coupling invariant `Store.wf` alone does not exclude a NaN entry hidden
  behind a weighted one (see the counterexample in Props/C06Model.lean).
-/
import GraphrsModel.Lemmas.C03Edge
namespace Graphrs
namespace C06W
open Store

/-- every entry of the traversal lists carries a weight -/
def AllW (vec : List (List Adj)) : Prop := ∀ row ∈ vec, ∀ a ∈ row, ∃ c, a.2 = some c

theorem AllW.set {vec : List (List Adj)} (h : AllW vec) (u : Nat) (row : List Adj)
    (hrow : ∀ a ∈ row, ∃ c, a.2 = some c) : AllW (vec.set u row) := by
  intro r hr a ha
  rcases List.mem_or_eq_of_mem_set hr with h1 | h1
  · exact h r h1 a ha
  · subst h1; exact hrow a ha

theorem poison_succVec (s : Store) (site : String) : (s.poison site).succVec = s.succVec := by
  unfold Store.poison
  split <;> rfl

theorem addNode_allW (s : Store) (n : Node) (h : AllW s.succVec) : AllW (s.addNode n).succVec := by
  unfold Store.addNode
  split
  · simp only
    split
    · exact h
    · rw [poison_succVec]; exact h
  · simp only
    intro r hr a ha
    rw [List.mem_append] at hr
    rcases hr with hr | hr
    · exact h r hr a ha
    · simp at hr; subst hr; simp at ha

theorem adjUpdate_allW (vec vec' : List (List Adj)) (u v : Nat) (w : W) (upd : AdjUpd) (c : Int) (hw : w = some c)
    (h : AllW vec) (hu : adjUpdate vec u v w upd = some vec') : AllW vec' := by
  unfold adjUpdate at hu
  cases hr : vec[u]? with
  | none => rw [hr] at hu; simp at hu
  | some row =>
    rw [hr] at hu
    simp only at hu
    have hrow : ∀ a ∈ row, ∃ c, a.2 = some c := h row (List.mem_of_getElem? hr)
    cases upd with
    | push =>
      simp only [Option.some.injEq] at hu
      subst hu
      apply h.set
      intro a ha
      rw [List.mem_append] at ha
      rcases ha with ha | ha
      · exact hrow a ha
      · simp at ha; subst ha; exact ⟨c, hw⟩
    | keepMin =>
      simp only at hu
      cases hf : row.findIdx? (fun a => a.1 == v) with
      | none => rw [hf] at hu; simp at hu
      | some i =>
        rw [hf] at hu
        simp only at hu
        cases hi : row[i]? with
        | none => rw [hi] at hu; simp at hu
        | some a0 =>
          rw [hi] at hu
          simp only at hu
          by_cases hlt : W.lt w a0.2 = true
          · rw [if_pos hlt] at hu
            simp only [Option.some.injEq] at hu
            subst hu
            apply h.set
            intro a ha
            rcases List.mem_or_eq_of_mem_set ha with h1 | h1
            · exact hrow a h1
            · subst h1; exact ⟨c, hw⟩
          · rw [if_neg hlt] at hu
            simp only [Option.some.injEq] at hu
            subst hu
            exact h
    | overwrite =>
      simp only [Option.some.injEq] at hu
      subst hu
      apply h.set
      intro a ha
      rw [List.mem_map] at ha
      obtain ⟨b, hb, e⟩ := ha
      by_cases hbv : (b.1 == v) = true
      · rw [if_pos hbv] at e
        subst e
        exact ⟨c, hw⟩
      · rw [if_neg hbv] at e
        subst e
        exact hrow b hb
    | untouched =>
      simp only [Option.some.injEq] at hu
      subst hu
      exact h

theorem adjSucc_allW (s : Store) (u v : Nat) (w : W) (upd : AdjUpd) (c : Int) (hw : w = some c)
    (h : AllW s.succVec) : AllW (s.adjSucc u v w upd).succVec := by
  unfold Store.adjSucc
  cases hu : adjUpdate s.succVec u v w upd with
  | none => simp only; rw [poison_succVec]; exact h
  | some vec => exact adjUpdate_allW _ _ u v w upd c hw h hu

theorem adjPred_succVec (s : Store) (u v : Nat) (w : W) (upd : AdjUpd) :
    (s.adjPred u v w upd).succVec = s.succVec := by
  unfold Store.adjPred
  split
  · rfl
  · exact poison_succVec _ _

theorem adjStage_allW (sp : Specs) (s : Store) (e : Edge) (ui vi ou ov : Nat) (upd : AdjUpd) (c : Int)
    (hw : e.w = some c) (h : AllW s.succVec) : AllW (C03.adjStage sp s e ui vi ou ov upd).succVec := by
  unfold C03.adjStage
  simp only
  split
  · rw [adjPred_succVec]
    exact adjSucc_allW _ ou ov e.w upd c hw h
  · apply adjSucc_allW _ ov ou e.w upd c hw
    exact adjSucc_allW _ ou ov e.w upd c hw h

theorem edgeStage_succVec (sp : Specs) (s : Store) (o : Edge) (ou ov : Nat) :
    (C03.edgeStage sp s o ou ov).succVec = s.succVec := by
  unfold C03.edgeStage
  split
  · rfl
  · split
    · rfl
    · split <;> rfl

theorem ite_addNode_allW (p : Prop) [Decidable p] (s : Store) (n : Node) (h : AllW s.succVec) :
    AllW (if p then s.addNode n else s).succVec := by
  by_cases hp : p
  · rw [if_pos hp]; exact addNode_allW s n h
  · rw [if_neg hp]; exact h

theorem edgeNodes_allW (s : Store) (e : Edge) (h : AllW s.succVec) : AllW (C03.edgeNodes s e).succVec := by
  unfold C03.edgeNodes
  exact ite_addNode_allW _ _ _ (ite_addNode_allW _ _ _ h)

theorem edgeTail_allW (sp : Specs) (s : Store) (e : Edge) (ui vi : Nat) (c : Int) (hw : e.w = some c)
    (h : AllW s.succVec) : AllW (C03.edgeTail sp s e ui vi).1.succVec := by
  unfold C03.edgeTail
  simp only
  split
  · exact h
  · simp only
    rw [edgeStage_succVec]
    exact adjStage_allW sp s e ui vi _ _ _ c hw h

theorem addEdge_allW (s : Store) (e : Edge) (c : Int) (hw : e.w = some c) (h : AllW s.succVec) :
    AllW (s.addEdge e).1.succVec := by
  rw [C03.addEdge_eq]
  split
  · split <;> exact h
  · split
    · exact h
    · have h2 := edgeNodes_allW s e h
      split
      · exact edgeTail_allW _ _ e _ _ c hw h2
      · simp only
        rw [poison_succVec]
        exact h2

theorem addEdges_allW (es : List Edge) : ∀ (s : Store), (∀ e ∈ es, ∃ c, e.w = some c) → AllW s.succVec →
    AllW (s.addEdges es).1.succVec := by
  induction es with
  | nil => intro s _ h; exact h
  | cons e es ih =>
    intro s hes h
    obtain ⟨c, hc⟩ := hes e (List.mem_cons_self ..)
    have h1 := addEdge_allW s e c hc h
    unfold Store.addEdges
    cases hr : s.addEdge e with
    | mk s' r =>
      rw [hr] at h1
      cases r with
      | none => exact ih s' (fun e' he' => hes e' (List.mem_cons_of_mem _ he')) h1
      | some k => exact h1

theorem addNodes_allW (ns : List Node) : ∀ (s : Store), AllW s.succVec → AllW (s.addNodes ns).succVec := by
  induction ns with
  | nil => intro s h; exact h
  | cons n ns ih =>
    intro s h
    have := ih (s.addNode n) (addNode_allW s n h)
    simpa [Store.addNodes, List.foldl_cons] using this

/-- **a graph built from weighted edges has only weighted traversal entries** -/
theorem newFrom_allW (sp : Specs) (ns : List Node) (es : List Edge) (t : Store)
    (hes : ∀ e ∈ es, ∃ c, e.w = some c) (ht : Store.newFrom sp ns es = .ok t) : AllW t.succVec := by
  unfold Store.newFrom at ht
  have h0 : AllW (Store.new sp).succVec := by intro r hr; simp [Store.new] at hr
  have h1 := addEdges_allW es _ hes (addNodes_allW ns _ h0)
  cases hr : ((Store.new sp).addNodes ns).addEdges es with
  | mk s' r =>
    rw [hr] at ht h1
    cases r with
    | none => simp only [Outcome.ok.injEq] at ht; subst ht; exact h1
    | some k => simp at ht

/-! ## histories that only add weighted edges -/

/-- the call adds no edge without a weight -/
def opWeighted : Op → Prop
  | .addNode _ => True
  | .addNodes _ => True
  | .addEdge e => ∃ c, e.w = some c
  | .addEdgeTuple _ _ => False
  | .addEdges es => ∀ e ∈ es, ∃ c, e.w = some c
  | .addEdgeTuples es => es = []
  | .newFrom _ es => ∀ e ∈ es, ∃ c, e.w = some c

theorem step_allW (s : Store) (op : Op) (hop : opWeighted op) (h : AllW s.succVec) : AllW (s.step op).1.succVec := by
  cases op with
  | addNode n => exact addNode_allW s n h
  | addNodes ns => exact addNodes_allW ns s h
  | addEdge e => obtain ⟨c, hc⟩ := hop; exact addEdge_allW s e c hc h
  | addEdgeTuple u v => exact absurd hop (by simp [opWeighted])
  | addEdges es => exact addEdges_allW es s hop h
  | addEdgeTuples es =>
    simp only [opWeighted] at hop
    subst hop
    exact h
  | newFrom ns es =>
    simp only [Store.step]
    cases hr : Store.newFrom s.specs ns es with
    | ok t => exact newFrom_allW _ ns es t hop hr
    | err k => exact h
    | panic site => simp only; rw [poison_succVec]; exact h

theorem run_allW (sp : Specs) (ops : List Op) (hops : ∀ op ∈ ops, opWeighted op) :
    AllW (Store.run sp ops).1.succVec := by
  have key : ∀ (F : Store × List (Option ErrKind) → Op → Store × List (Option ErrKind))
      (_ : ∀ acc op, (F acc op).1 = (acc.1.step op).1) (l : List Op) (acc : Store × List (Option ErrKind)),
      (∀ op ∈ l, opWeighted op) → AllW acc.1.succVec → AllW (l.foldl F acc).1.succVec := by
    intro F hF l
    induction l with
    | nil => intro acc _ h; exact h
    | cons op l ih =>
      intro acc hl h
      rw [List.foldl_cons]
      apply ih _ (fun o ho => hl o (List.mem_cons_of_mem _ ho))
      rw [hF]
      exact step_allW acc.1 op (hl op (List.mem_cons_self ..)) h
  unfold Store.run
  exact key _ (by intro acc op; rfl) ops _ hops (by intro r hr; simp [Store.new] at hr)

end C06W
end Graphrs
