/-
  Lemmas for Props/C13Termination.lean, part 2 (no store): what the candidate scan `updateBest` guarantees, and
  the counting measure on assignments that strictly decreases with every move.
-/
import GraphrsModel.Lemmas.LouvainTermAlg
import GraphrsModel.Lemmas.LouvainGraphs
import Mathlib.Data.List.Nodup
import Mathlib.Data.List.Perm.Basic
namespace Graphrs
open LouvainFull
namespace LT

/-! ### the candidate scan -/

theorem mem_insertSortedP {α} (le : α → α → Bool) (x y : α) (l : List α) :
    y ∈ insertSorted le x l ↔ y = x ∨ y ∈ l := by
  induction l with
  | nil => simp [insertSorted]
  | cons a l ih =>
    unfold insertSorted
    split
    · simp
    · simp only [List.mem_cons, ih]
      constructor
      · rintro (h | h | h)
        · exact .inr (.inl h)
        · exact .inl h
        · exact .inr (.inr h)
      · rintro (h | h | h)
        · exact .inr (.inl h)
        · exact .inl h
        · exact .inr (.inr h)

theorem sorted_insertKey (x : Nat × Rat) (l : List (Nat × Rat)) (h : l.Pairwise (fun a b => a.1 ≤ b.1)) :
    (insertSorted (fun a b : Nat × Rat => decide (a.1 ≤ b.1)) x l).Pairwise (fun a b => a.1 ≤ b.1) := by
  induction l with
  | nil => simp [insertSorted]
  | cons a l ih =>
    rw [List.pairwise_cons] at h
    unfold insertSorted
    split
    · rename_i hle
      simp only [decide_eq_true_eq] at hle
      rw [List.pairwise_cons]
      refine ⟨?_, List.pairwise_cons.2 h⟩
      intro b hb
      rcases List.mem_cons.1 hb with rfl | hb
      · exact hle
      · exact Nat.le_trans hle (h.1 b hb)
    · rename_i hle
      simp only [decide_eq_true_eq] at hle
      rw [List.pairwise_cons]
      refine ⟨?_, ih h.2⟩
      intro b hb
      rcases (mem_insertSortedP _ _ _ _).1 hb with rfl | hb
      · omega
      · exact h.1 b hb

theorem sorted_isortKey (l : List (Nat × Rat)) :
    (isort (fun a b : Nat × Rat => decide (a.1 ≤ b.1)) l).Pairwise (fun a b => a.1 ≤ b.1) := by
  induction l with
  | nil => simp [isort]
  | cons a l ih =>
    have : isort (fun a b : Nat × Rat => decide (a.1 ≤ b.1)) (a :: l)
        = insertSorted (fun a b : Nat × Rat => decide (a.1 ≤ b.1)) a (isort (fun a b : Nat × Rat => decide (a.1 ≤ b.1)) l) := rfl
    rw [this]
    exact sorted_insertKey a _ ih

theorem strict_isortKey (l : List (Nat × Rat)) (hnd : (l.map (·.1)).Nodup) :
    (isort (fun a b : Nat × Rat => decide (a.1 ≤ b.1)) l).Pairwise (fun a b => a.1 < b.1) := by
  have hp := LF.isort_perm (fun a b : Nat × Rat => decide (a.1 ≤ b.1)) l
  have hnd' : ((isort (fun a b : Nat × Rat => decide (a.1 ≤ b.1)) l).map (·.1)).Nodup :=
    (List.Perm.nodup_iff (hp.map _)).2 hnd
  have h2 : (isort (fun a b : Nat × Rat => decide (a.1 ≤ b.1)) l).Pairwise (fun a b => a.1 ≠ b.1) := by
    rw [List.Nodup, List.pairwise_map] at hnd'
    exact hnd'
  exact ((sorted_isortKey l).and h2).imp (fun h => Nat.lt_of_le_of_ne h.1 h.2)

theorem scan_spec (gain : Nat → Rat → Rat) (l : List (Nat × Rat)) (hs : l.Pairwise (fun x y => x.1 < y.1)) :
    ∀ b0 : Nat × Rat,
      b0.2 ≤ (l.foldl (fun b c => if gain c.1 c.2 > b.2 then (c.1, gain c.1 c.2) else b) b0).2 ∧
      (∀ x ∈ l, gain x.1 x.2 ≤ (l.foldl (fun b c => if gain c.1 c.2 > b.2 then (c.1, gain c.1 c.2) else b) b0).2) ∧
      ((l.foldl (fun b c => if gain c.1 c.2 > b.2 then (c.1, gain c.1 c.2) else b) b0) = b0 ∨
        ∃ x ∈ l, (l.foldl (fun b c => if gain c.1 c.2 > b.2 then (c.1, gain c.1 c.2) else b) b0) = (x.1, gain x.1 x.2) ∧
          b0.2 < gain x.1 x.2 ∧ ∀ y ∈ l, y.1 < x.1 → gain y.1 y.2 < gain x.1 x.2) := by
  induction l with
  | nil => intro b0; simp
  | cons x l ih =>
    intro b0
    rw [List.pairwise_cons] at hs
    rw [List.foldl_cons]
    obtain ⟨i1, i2, i3⟩ := ih hs.2 (if gain x.1 x.2 > b0.2 then (x.1, gain x.1 x.2) else b0)
    have hb1 : b0.2 ≤ (if gain x.1 x.2 > b0.2 then (x.1, gain x.1 x.2) else b0).2 ∧
        gain x.1 x.2 ≤ (if gain x.1 x.2 > b0.2 then (x.1, gain x.1 x.2) else b0).2 := by
      by_cases hg : gain x.1 x.2 > b0.2
      · rw [if_pos hg]; exact ⟨le_of_lt hg, le_refl _⟩
      · rw [if_neg hg]; exact ⟨le_refl _, not_lt.1 hg⟩
    refine ⟨le_trans hb1.1 i1, ?_, ?_⟩
    · intro y hy
      rcases List.mem_cons.1 hy with rfl | hy
      · exact le_trans hb1.2 i1
      · exact i2 y hy
    · rcases i3 with h | ⟨z, hz, hr, hlt, hall⟩
      · rw [h]
        by_cases hg : gain x.1 x.2 > b0.2
        · rw [if_pos hg]
          right
          refine ⟨x, by simp, rfl, hg, ?_⟩
          intro y hy hyx
          rcases List.mem_cons.1 hy with rfl | hy
          · exact absurd hyx (lt_irrefl _)
          · exact absurd (hs.1 y hy) (by omega)
        · rw [if_neg hg]; left; rfl
      · right
        refine ⟨z, List.mem_cons_of_mem _ hz, hr, lt_of_le_of_lt hb1.1 hlt, ?_⟩
        intro y hy hyz
        rcases List.mem_cons.1 hy with rfl | hy
        · exact lt_of_le_of_lt hb1.2 hlt
        · exact hall y hy hyz

/-- the scan either keeps the current community or returns a candidate whose gain is positive, at least the gain of
    every candidate, and strictly larger than the gain of every candidate with a smaller community id -/
theorem updateBest_spec (gain : Nat → Rat → Rat) (cands : List (Nat × Rat)) (hnd : (cands.map (·.1)).Nodup) (cur : Nat) :
    (Louvain.updateBest gain cands (cur, 0)).1 = cur ∨
    ∃ wt, ((Louvain.updateBest gain cands (cur, 0)).1, wt) ∈ cands ∧
      0 < gain (Louvain.updateBest gain cands (cur, 0)).1 wt ∧
      ∀ y ∈ cands, gain y.1 y.2 ≤ gain (Louvain.updateBest gain cands (cur, 0)).1 wt ∧
        (y.1 < (Louvain.updateBest gain cands (cur, 0)).1 → gain y.1 y.2 < gain (Louvain.updateBest gain cands (cur, 0)).1 wt) := by
  unfold Louvain.updateBest
  obtain ⟨_, h2, h3⟩ := scan_spec gain _ (strict_isortKey cands hnd) (cur, 0)
  rcases h3 with h | ⟨x, hx, hr, hlt, hall⟩
  · left; rw [h]
  · right
    rw [hr]
    have hxc : x ∈ cands := (C02.mem_isort _ x cands).1 hx
    refine ⟨x.2, hxc, hlt, ?_⟩
    intro y hy
    have hy' := (C02.mem_isort (fun a b : Nat × Rat => decide (a.1 ≤ b.1)) y cands).2 hy
    refine ⟨?_, hall y hy'⟩
    have := h2 y hy'
    rw [hr] at this
    exact this

/-! ### the measure -/

/-- a function on `Fin k` as an assignment on `Nat` -/
def extF (k : Nat) (f : Fin k → Fin k) : Nat → Nat := fun x => if h : x < k then (f ⟨x, h⟩).1 else 0

/-- sum of the community ids: ties in the potential are broken towards smaller ids -/
def idsum (k : Nat) (a : Nat → Nat) : Nat := ∑ x ∈ Finset.range k, a x

theorem idsum_congr {k : Nat} {a b : Nat → Nat} (h : ∀ x, x < k → a x = b x) : idsum k a = idsum k b := by
  unfold idsum
  exact Finset.sum_congr rfl (fun x hx => h x (Finset.mem_range.1 hx))

theorem idsum_update_lt (k : Nat) (a : Nat → Nat) (u b : Nat) (hu : u < k) (hb : b < a u) :
    idsum k (Function.update a u b) < idsum k a := by
  unfold idsum
  have hmem : u ∈ Finset.range k := Finset.mem_range.2 hu
  rw [← Finset.add_sum_erase _ _ hmem, ← Finset.add_sum_erase (Finset.range k) a hmem]
  have : ∑ x ∈ (Finset.range k).erase u, Function.update a u b x = ∑ x ∈ (Finset.range k).erase u, a x := by
    apply Finset.sum_congr rfl
    intro x hx
    rw [Function.update_of_ne (Finset.ne_of_mem_erase hx)]
  rw [this, Function.update_self]
  omega

/-- `a'` is better than `a`: larger potential, or the same potential and a smaller id sum -/
def Better (Φ : (Nat → Nat) → Rat) (k : Nat) (a' a : Nat → Nat) : Prop :=
  Φ a < Φ a' ∨ (Φ a = Φ a' ∧ idsum k a' < idsum k a)

theorem Better.trans {Φ : (Nat → Nat) → Rat} {k : Nat} {a b c : Nat → Nat} (h1 : Better Φ k a b) (h2 : Better Φ k b c) :
    Better Φ k a c := by
  unfold Better at *
  rcases h1 with h1 | ⟨h1, h1'⟩ <;> rcases h2 with h2 | ⟨h2, h2'⟩
  · left; exact lt_trans h2 h1
  · left; rw [h2]; exact h1
  · left; rw [← h1]; exact h2
  · right; exact ⟨h2.trans h1, lt_trans h1' h2'⟩

instance (Φ : (Nat → Nat) → Rat) (k : Nat) (a' a : Nat → Nat) : Decidable (Better Φ k a' a) := by
  unfold Better; infer_instance

/-- the number of assignments `{0..k-1} → {0..k-1}` that are better than `a` -/
def mu (Φ : (Nat → Nat) → Rat) (k : Nat) (a : Nat → Nat) : Nat :=
  (Finset.univ.filter fun f : Fin k → Fin k => Better Φ k (extF k f) a).card

theorem mu_le (Φ : (Nat → Nat) → Rat) (k : Nat) (a : Nat → Nat) : mu Φ k a ≤ k ^ k := by
  unfold mu
  refine le_trans (Finset.card_filter_le _ _) ?_
  rw [Finset.card_univ, Fintype.card_fun, Fintype.card_fin]

theorem mu_lt {Φ : (Nat → Nat) → Rat} {k : Nat} {a a' : Nat → Nat}
    (hΦ : ∀ a b : Nat → Nat, (∀ x, x < k → a x = b x) → Φ a = Φ b)
    (ha' : ∀ x, x < k → a' x < k) (hb : Better Φ k a' a) : mu Φ k a' < mu Φ k a := by
  unfold mu
  apply Finset.card_lt_card
  refine ⟨?_, ?_⟩
  · intro f hf
    rw [Finset.mem_filter] at hf ⊢
    exact ⟨hf.1, hf.2.trans hb⟩
  · intro hsub
    let f' : Fin k → Fin k := fun x => ⟨a' x.1, ha' x.1 x.2⟩
    have hagree : ∀ x, x < k → extF k f' x = a' x := by
      intro x hx
      simp [extF, hx, f']
    have h1 : Φ (extF k f') = Φ a' := hΦ _ _ hagree
    have h2 : idsum k (extF k f') = idsum k a' := idsum_congr hagree
    have hmem : f' ∈ Finset.univ.filter fun f : Fin k → Fin k => Better Φ k (extF k f) a := by
      rw [Finset.mem_filter]
      refine ⟨Finset.mem_univ _, ?_⟩
      unfold Better at hb ⊢
      rw [h1, h2]; exact hb
    have := hsub hmem
    rw [Finset.mem_filter] at this
    unfold Better at this
    rw [h1, h2] at this
    rcases this.2 with h | ⟨_, h⟩
    · exact lt_irrefl _ h
    · exact lt_irrefl _ h

end LT
end Graphrs
