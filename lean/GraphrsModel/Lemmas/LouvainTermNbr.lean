/-
  Lemmas for Props/C13Termination.lean, part 3: on a well-formed single-edge store the candidate map
  `neighborWeights` holds, for every community, the total weight of the stored edges between `u` and the
  other nodes of that community (both directions on a directed graph).
-/
import GraphrsModel.Lemmas.LouvainTermAlg
import GraphrsModel.Lemmas.LouvainNoPanic
import GraphrsModel.Lemmas.C12WAux
namespace Graphrs
open LouvainFull C02
namespace LT

/-! ### the accumulation loop -/

/-- the edge a successful `get_edge` returned -/
def eOf : Outcome Edge → Edge
  | .ok e => e
  | _ => default

theorem addAll_gen (u : Nat) (n2c : List (Nat × Nat)) (edgeOf : Nat → Outcome Edge)
    (F : Outcome (List (Nat × Rat)) → Nat → Outcome (List (Nat × Rat)))
    (hF' : ∀ o x b, F o x = .ok b → ∃ a, o = .ok a)
    (hF : ∀ m v b, F (.ok m) v = .ok b → (v = u ∧ b = m) ∨
      (v ≠ u ∧ ∃ e c, edgeOf v = .ok e ∧ alookup n2c v = some c ∧ b = ainsert m c ((alookup m c).getD 0 + ratW e.w)))
    (vs : List Nat) :
    ∀ (acc r : List (Nat × Rat)), vs.foldl F (.ok acc) = .ok r →
      ∀ c, (alookup r c).getD 0 = (alookup acc c).getD 0 +
        (vs.map fun v => if v ≠ u ∧ alookup n2c v = some c then ratW (eOf (edgeOf v)).w else 0).sum := by
  induction vs with
  | nil =>
    intro acc r h c
    simp only [List.foldl_nil] at h
    cases h
    simp
  | cons v vs ih =>
    intro acc r h c
    rw [List.foldl_cons] at h
    obtain ⟨b, hb⟩ := LF.foldl_ok_source F hF' vs _ _ h
    rw [hb] at h
    rw [ih b r h c, List.map_cons, List.sum_cons]
    rcases hF acc v b hb with ⟨hv, rfl⟩ | ⟨hv, e, c', he, hc', rfl⟩
    · rw [if_neg (fun hh => hh.1 hv)]
      ring
    · rw [AL.lookup_insert, he]
      by_cases hcc : c' = c
      · subst hcc
        rw [if_pos rfl, if_pos ⟨hv, hc'⟩]
        simp only [Option.getD_some, eOf]
        ring
      · rw [if_neg hcc, if_neg (fun hh => hcc (by rw [hc'] at hh; exact Option.some.inj hh.2))]
        ring

/-! ### sums over the neighbour list against sums over the edge list -/

theorem sum_filter_ite {α : Type} (l : List α) (p : α → Bool) (g : α → Rat) :
    ((l.filter p).map g).sum = (l.map fun x => if p x = true then g x else 0).sum := by
  induction l with
  | nil => simp
  | cons a l ih =>
    by_cases h : p a = true
    · simp only [List.filter_cons, h, if_true, List.map_cons, List.sum_cons, ih]
    · simp only [List.filter_cons, h, if_false, List.map_cons, List.sum_cons, ih, Bool.false_eq_true]
      ring

theorem sum_over_nbrs (es' : List Edge) (f : Edge → Nat) (N : List Nat) (hN : N.Nodup) (E : Nat → Edge)
    (hf : ∀ e ∈ es', f e ∈ N) (hE : ∀ v ∈ N, es'.filter (fun e => f e == v) = [E v]) (g : Edge → Rat) :
    (N.map fun v => g (E v)).sum = (es'.map g).sum := by
  rw [← C12W.sum_by_key es' f g N hN hf]
  congr 1
  apply List.map_congr_left
  intro v hv
  rw [hE v hv]
  simp

/-! ### store facts -/

/-- on a single-edge store, the stored edges between two names are at most one, and `get_edge` returns it
    (as `getEdge_between` of Props/C18Model.lean) -/
theorem getEdge_between' (s : Store) (h : s.wf = true) (hm : s.specs.multi = false) (x y : Nat)
    (hxy : s.hasEdge x y = true) : ∃ e, s.getEdge x y = .ok e ∧ s.abs.between s.specs.directed x y = [e] := by
  have hn := nodesP_of s (C09M.wf_parts s h).1
  have he := edgesP_of s (C09M.wf_parts s h).2.1
  have hnames := hasEdge_names he hxy
  have hu := (hasNode_mem hn x).2 hnames.1
  have hv := (hasNode_mem hn y).2 hnames.2
  have hge := C02_getEdge s h hm x y hu hv
  have hb := between_eq he x y
  have hs := (he.hasEdge_iff x y).1 hxy
  cases hl : alookup s.edges (nameKey s.specs.directed x y) with
  | none => simp [hl] at hs
  | some l =>
    have hkv := alookup_mem _ _ _ hl
    have hsingle := he.single _ hkv
    simp only [hm, Bool.false_eq_true, false_or] at hsingle
    rw [hl] at hb
    simp only [Option.getD_some] at hb
    match l, hsingle with
    | [e], _ =>
      refine ⟨e, ?_, hb⟩
      rw [hge, hb]

/-- the general shape: `N` lists each neighbour once, `pr v` is the pair handed to `get_edge`, `P` selects the stored
    edges the loop ranges over and `f` gives the neighbour of such an edge -/
theorem nbr_sum (s : Store) (h : s.wf = true) (hm : s.specs.multi = false) (N : List Nat) (hN : N.Nodup)
    (pr : Nat → Nat × Nat) (P : Edge → Bool) (f : Edge → Nat)
    (hmem : ∀ v ∈ N, s.hasEdge (pr v).1 (pr v).2 = true)
    (hfilt : ∀ v ∈ N, (s.allEdges.filter P).filter (fun e => f e == v) = s.abs.between s.specs.directed (pr v).1 (pr v).2)
    (hf : ∀ e ∈ s.allEdges.filter P, f e ∈ N) (g : Edge → Rat) :
    (N.map fun v => g (eOf (s.getEdge (pr v).1 (pr v).2))).sum = ((s.allEdges.filter P).map g).sum := by
  apply sum_over_nbrs (s.allEdges.filter P) f N hN (fun v => eOf (s.getEdge (pr v).1 (pr v).2)) hf
  intro v hv
  obtain ⟨e, he1, he2⟩ := getEdge_between' s h hm _ _ (hmem v hv)
  rw [hfilt v hv, he2, he1]
  rfl

theorem succ_nodup (s : Store) (h : s.wf = true) (u : Nat) : ((alookup s.succ u).getD []).Nodup := by
  have ha := (adjOk_iff s).1 (C09M.wf_parts s h).2.2.1
  exact setOf_nodup s.succ u (fun kv hkv => (ha.succOk kv hkv).1)

theorem pred_nodup (s : Store) (h : s.wf = true) (u : Nat) : ((alookup s.pred u).getD []).Nodup := by
  have ha := (adjOk_iff s).1 (C09M.wf_parts s h).2.2.1
  exact setOf_nodup s.pred u (fun kv hkv => (ha.predOk kv hkv).1)

theorem mem_succ_iff (s : Store) (h : s.wf = true) (u v : Nat) :
    v ∈ (alookup s.succ u).getD [] ↔ s.hasEdge u v = true := by
  have he := edgesP_of s (C09M.wf_parts s h).2.1
  have ha := (adjOk_iff s).1 (C09M.wf_parts s h).2.2.1
  exact ha.mem_succ he u v

theorem mem_pred_iff (s : Store) (h : s.wf = true) (u v : Nat) :
    v ∈ (alookup s.pred u).getD [] ↔ (s.specs.directed = true ∧ s.hasEdge v u = true) := by
  have he := edgesP_of s (C09M.wf_parts s h).2.1
  have ha := (adjOk_iff s).1 (C09M.wf_parts s h).2.2.1
  exact ha.mem_pred he u v

theorem hasEdge_of_mem (s : Store) (e : Edge) (he : e ∈ s.allEdges) : s.hasEdge e.u e.v = true := by
  rw [hasEdge_iff]
  exact ⟨e, he, by simp [joins]⟩

theorem hasEdge_symm (s : Store) (hd : s.specs.directed = false) (x y : Nat) (h : s.hasEdge x y = true) :
    s.hasEdge y x = true := by
  rw [hasEdge_iff] at h ⊢
  obtain ⟨e, he, hj⟩ := h
  refine ⟨e, he, ?_⟩
  simp only [joins, hd, Bool.not_false, Bool.true_and, Bool.or_eq_true, Bool.and_eq_true, beq_iff_eq] at hj ⊢
  tauto

/-- undirected: the successor loop ranges over the touching edges -/
theorem succ_sum_undirected (s : Store) (h : s.wf = true) (hm : s.specs.multi = false) (hd : s.specs.directed = false)
    (u : Nat) (g : Edge → Rat) :
    (((alookup s.succ u).getD []).map fun v => g (eOf (s.getEdge u v))).sum
      = ((s.allEdges.filter fun e => e.u == u || e.v == u).map g).sum := by
  refine nbr_sum s h hm _ (succ_nodup s h u) (fun v => (u, v)) (fun e => e.u == u || e.v == u)
    (fun e => if e.u == u then e.v else e.u) ?_ ?_ ?_ g
  · intro v hv
    exact (mem_succ_iff s h u v).1 hv
  · intro v _
    rw [List.filter_filter]
    unfold Abs.between Store.abs
    apply List.filter_congr
    intro e _
    rw [Bool.eq_iff_iff]
    simp only [Abs.sameKey, hd, Bool.not_false, Bool.true_and, Bool.and_eq_true, Bool.or_eq_true, beq_iff_eq]
    split <;> omega
  · intro e he
    rw [List.mem_filter] at he
    rw [mem_succ_iff s h]
    have h0 := hasEdge_of_mem s e he.1
    by_cases h1 : e.u = u
    · simp only [h1, beq_self_eq_true, if_true]
      rw [← h1]; exact h0
    · have h2 : e.v = u := by simpa [h1] using he.2
      have : (e.u == u) = false := by simpa using h1
      simp only [this, Bool.false_eq_true, if_false]
      rw [← h2]
      exact hasEdge_symm s hd _ _ h0

/-- directed: the successor loop ranges over the out-edges -/
theorem succ_sum_directed (s : Store) (h : s.wf = true) (hm : s.specs.multi = false) (hd : s.specs.directed = true)
    (u : Nat) (g : Edge → Rat) :
    (((alookup s.succ u).getD []).map fun v => g (eOf (s.getEdge u v))).sum
      = ((s.allEdges.filter fun e => e.u == u).map g).sum := by
  refine nbr_sum s h hm _ (succ_nodup s h u) (fun v => (u, v)) (fun e => e.u == u) (fun e => e.v) ?_ ?_ ?_ g
  · intro v hv
    exact (mem_succ_iff s h u v).1 hv
  · intro v _
    rw [List.filter_filter]
    unfold Abs.between Store.abs
    apply List.filter_congr
    intro e _
    simp only [Abs.sameKey, hd, Bool.not_true, Bool.false_and, Bool.or_false]
    exact Bool.and_comm _ _
  · intro e he
    rw [List.mem_filter] at he
    rw [mem_succ_iff s h]
    have h0 := hasEdge_of_mem s e he.1
    have h1 : e.u = u := by simpa using he.2
    rw [← h1]; exact h0

/-- directed: the predecessor loop ranges over the in-edges -/
theorem pred_sum_directed (s : Store) (h : s.wf = true) (hm : s.specs.multi = false) (hd : s.specs.directed = true)
    (u : Nat) (g : Edge → Rat) :
    (((alookup s.pred u).getD []).map fun v => g (eOf (s.getEdge v u))).sum
      = ((s.allEdges.filter fun e => e.v == u).map g).sum := by
  refine nbr_sum s h hm _ (pred_nodup s h u) (fun v => (v, u)) (fun e => e.v == u) (fun e => e.u) ?_ ?_ ?_ g
  · intro v hv
    exact ((mem_pred_iff s h u v).1 hv).2
  · intro v _
    rw [List.filter_filter]
    unfold Abs.between Store.abs
    apply List.filter_congr
    intro e _
    simp only [Abs.sameKey, hd, Bool.not_true, Bool.false_and, Bool.or_false]
  · intro e he
    rw [List.mem_filter] at he
    rw [mem_pred_iff s h]
    have h0 := hasEdge_of_mem s e he.1
    have h1 : e.v = u := by simpa using he.2
    rw [← h1]; exact ⟨hd, h0⟩

/-! ### the candidate map -/

theorem edge_names (s : Store) (h : s.wf = true) (e : Edge) (he : e ∈ s.allEdges) : e.u ∈ s.names ∧ e.v ∈ s.names :=
  (edgesP_of s (C09M.wf_parts s h).2.1).edge_names he

/-- **the candidate map is the weight from `u` to each community** -/
theorem neighborWeights_wto (g : Store) (h : g.wf = true) (hm : g.specs.multi = false) (u : Nat)
    (n2c : List (Nat × Nat)) (hn : LF.TotalOn n2c g.names) {w2c : List (Nat × Rat)}
    (hw : neighborWeights g u n2c = .ok w2c) (c : Nat) :
    (alookup w2c c).getD 0 = wto g.allEdges (fun x => (alookup n2c x).getD 0) u c := by
  have hlk : ∀ v ∈ g.names, (alookup n2c v = some c ↔ (alookup n2c v).getD 0 = c) := by
    intro v hv
    obtain ⟨d, hd⟩ := hn v hv
    rw [hd]; simp
  unfold neighborWeights at hw
  simp only [bind, Outcome.bind] at hw
  split at hw
  next x m hm1 =>
    have h1 := addAll_gen u n2c (fun v => g.getEdge u v) _ ?_ ?_ _ [] m hm1 c
    rotate_left
    · intro o x b hb
      cases o with
      | ok a => exact ⟨a, rfl⟩
      | err k => simp at hb
      | panic k => simp at hb
    · intro m v b hb
      dsimp only at hb
      by_cases huv : (u == v) = true
      · rw [if_pos huv] at hb; cases hb
        exact Or.inl ⟨(by simpa using huv : u = v).symm, rfl⟩
      · rw [if_neg huv] at hb
        have hvu : v ≠ u := fun e => huv (by simp [e])
        split at hb
        next e he =>
          cases hc : alookup n2c v with
          | none => simp [hc, Outcome.ofOption] at hb
          | some c' =>
            simp only [hc, Outcome.ofOption] at hb
            cases hb
            refine Or.inr ⟨hvu, e, c', ?_, rfl, rfl⟩
            cases hge : g.getEdge u v with
            | ok e' => rw [hge] at he; simp only [Outcome.unwrap] at he; cases he; rfl
            | err k => rw [hge] at he; simp [Outcome.unwrap] at he
            | panic k => rw [hge] at he; simp [Outcome.unwrap] at he
        all_goals (exact absurd hb (by simp))
    simp only [alookup, Option.getD_none, zero_add] at h1
    by_cases hd : g.specs.directed = true
    · rw [if_pos hd] at hw
      have h2 := addAll_gen u n2c (fun v => g.getEdge v u) _ ?_ ?_ _ m w2c hw c
      rotate_left
      · intro o x b hb
        cases o with
        | ok a => exact ⟨a, rfl⟩
        | err k => simp at hb
        | panic k => simp at hb
      · intro m v b hb
        dsimp only at hb
        by_cases huv : (u == v) = true
        · rw [if_pos huv] at hb; cases hb
          exact Or.inl ⟨(by simpa using huv : u = v).symm, rfl⟩
        · rw [if_neg huv] at hb
          have hvu : v ≠ u := fun e => huv (by simp [e])
          split at hb
          next e he =>
            cases hc : alookup n2c v with
            | none => simp [hc, Outcome.ofOption] at hb
            | some c' =>
              simp only [hc, Outcome.ofOption] at hb
              cases hb
              refine Or.inr ⟨hvu, e, c', ?_, rfl, rfl⟩
              cases hge : g.getEdge v u with
              | ok e' => rw [hge] at he; simp only [Outcome.unwrap] at he; cases he; rfl
              | err k => rw [hge] at he; simp [Outcome.unwrap] at he
              | panic k => rw [hge] at he; simp [Outcome.unwrap] at he
          all_goals (exact absurd hb (by simp))
      rw [h2, h1]
      -- both sums as sums over the edge list
      have e1 : (((alookup g.succ u).getD []).map fun v =>
            if v ≠ u ∧ alookup n2c v = some c then ratW (eOf (g.getEdge u v)).w else 0).sum
          = ((g.allEdges.filter fun e => e.u == u).map fun e =>
              if e.v ≠ u ∧ alookup n2c e.v = some c then ratW e.w else 0).sum := by
        rw [← succ_sum_directed g h hm hd u]
        congr 1
        apply List.map_congr_left
        intro v hv
        obtain ⟨e, he1, he2⟩ := getEdge_between' g h hm u v ((mem_succ_iff g h u v).1 hv)
        have hmem : e ∈ g.abs.between g.specs.directed u v := by rw [he2]; simp
        simp only [Abs.between, List.mem_filter, Abs.sameKey, hd, Bool.not_true, Bool.false_and, Bool.or_false,
          Bool.and_eq_true, beq_iff_eq] at hmem
        rw [he1]
        simp only [eOf, hmem.2.2]
      have e2 : (((alookup g.pred u).getD []).map fun v =>
            if v ≠ u ∧ alookup n2c v = some c then ratW (eOf (g.getEdge v u)).w else 0).sum
          = ((g.allEdges.filter fun e => e.v == u).map fun e =>
              if e.u ≠ u ∧ alookup n2c e.u = some c then ratW e.w else 0).sum := by
        rw [← pred_sum_directed g h hm hd u]
        congr 1
        apply List.map_congr_left
        intro v hv
        obtain ⟨e, he1, he2⟩ := getEdge_between' g h hm v u ((mem_pred_iff g h u v).1 hv).2
        have hmem : e ∈ g.abs.between g.specs.directed v u := by rw [he2]; simp
        simp only [Abs.between, List.mem_filter, Abs.sameKey, hd, Bool.not_true, Bool.false_and, Bool.or_false,
          Bool.and_eq_true, beq_iff_eq] at hmem
        rw [he1]
        simp only [eOf, hmem.2.1]
      rw [e1, e2, sum_filter_ite, sum_filter_ite, ← C12W.sum_map_add]
      unfold wto
      congr 1
      apply List.map_congr_left
      intro e he
      have hnm := edge_names g h e he
      simp only [beq_iff_eq]
      by_cases h1 : e.u = u <;> by_cases h2 : e.v = u <;>
        simp [h1, h2, hlk e.v hnm.2, hlk e.u hnm.1]
    · rw [if_neg hd] at hw
      cases hw
      have hd' : g.specs.directed = false := by simpa using hd
      rw [h1]
      have e1 : (((alookup g.succ u).getD []).map fun v =>
            if v ≠ u ∧ alookup n2c v = some c then ratW (eOf (g.getEdge u v)).w else 0).sum
          = ((g.allEdges.filter fun e => e.u == u || e.v == u).map fun e =>
              if (if e.u == u then e.v else e.u) ≠ u ∧ alookup n2c (if e.u == u then e.v else e.u) = some c
              then ratW e.w else 0).sum := by
        rw [← succ_sum_undirected g h hm hd' u]
        congr 1
        apply List.map_congr_left
        intro v hv
        obtain ⟨e, he1, he2⟩ := getEdge_between' g h hm u v ((mem_succ_iff g h u v).1 hv)
        have hmem : e ∈ g.abs.between g.specs.directed u v := by rw [he2]; simp
        simp only [Abs.between, List.mem_filter, Abs.sameKey, hd', Bool.not_false, Bool.true_and, Bool.or_eq_true,
          Bool.and_eq_true, beq_iff_eq] at hmem
        rw [he1]
        have hfe : (if (e.u == u) = true then e.v else e.u) = v := by
          simp only [beq_iff_eq]
          split <;> omega
        change (if v ≠ u ∧ alookup n2c v = some c then ratW e.w else 0)
          = (if (if (e.u == u) = true then e.v else e.u) ≠ u ∧ alookup n2c (if (e.u == u) = true then e.v else e.u) = some c
             then ratW e.w else 0)
        rw [hfe]
      rw [e1, sum_filter_ite]
      unfold wto
      congr 1
      apply List.map_congr_left
      intro e he
      have hnm := edge_names g h e he
      simp only [beq_iff_eq, Bool.or_eq_true]
      by_cases h1 : e.u = u <;> by_cases h2 : e.v = u <;>
        simp [h1, h2, hlk e.v hnm.2, hlk e.u hnm.1]
  all_goals (exact absurd hw (by simp))

end LT
end Graphrs
