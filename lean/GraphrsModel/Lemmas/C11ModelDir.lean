/-
  Directed unweighted clustering: `get_directed_triangles_and_degrees` against the Fagiolo sums of Spec/Cluster.lean.
-/
import GraphrsModel.Lemmas.C11ModelTri
namespace Graphrs
namespace C11M
open C02 C11aux

/-! ### indicator sums over a duplicate-free universe -/

def ind (l : List Nat) (j : Nat) : Nat := if j ∈ l then 1 else 0

theorem sum_map_ind_filter (ns L : List Nat) (f : Nat → Nat) :
    (ns.map fun j => ind L j * f j).sum = ((ns.filter (· ∈ L)).map f).sum := by
  induction ns with
  | nil => rfl
  | cons a ns ih =>
    by_cases h : a ∈ L
    · simp [ind, h] at ih ⊢; exact ih
    · simp [ind, h] at ih ⊢; exact ih

/-- a sum over a duplicate-free sub-list is the indicator-weighted sum over the universe -/
theorem sum_ind (ns L : List Nat) (hns : ns.Nodup) (hL : L.Nodup) (hsub : ∀ x ∈ L, x ∈ ns) (f : Nat → Nat) :
    (L.map f).sum = (ns.map fun j => ind L j * f j).sum := by
  rw [sum_map_ind_filter]
  apply List.Perm.sum_eq
  apply List.Perm.map
  apply perm_of_nodup_mem hL (hns.filter _)
  intro x
  simp only [List.mem_filter, decide_eq_true_eq]
  exact ⟨fun h => ⟨hsub x h, h⟩, fun h => h.2⟩

theorem length_ind (ns L : List Nat) (hns : ns.Nodup) (hL : L.Nodup) (hsub : ∀ x ∈ L, x ∈ ns) :
    L.length = (ns.map fun j => ind L j).sum := by
  have := sum_ind ns L hns hL hsub (fun _ => 1)
  simpa using this

theorem ind_sinter (L1 L2 : List Nat) (k : Nat) : ind (sinter L1 L2) k = ind L1 k * ind L2 k := by
  unfold ind sinter
  by_cases h1 : k ∈ L1 <;> by_cases h2 : k ∈ L2 <;> simp [h1, h2]

theorem sinter_length_ind (ns L1 L2 : List Nat) (hns : ns.Nodup) (h1 : L1.Nodup) (hsub : ∀ x ∈ L1, x ∈ ns) :
    (sinter L1 L2).length = (ns.map fun k => ind L1 k * ind L2 k).sum := by
  rw [length_ind ns (sinter L1 L2) hns (h1.filter _) (fun x hx => hsub x (List.mem_filter.1 hx).1)]
  simp only [ind_sinter]

theorem sum_flatMap' {α} (l : List α) (f : α → List Nat) : (l.flatMap f).sum = (l.map fun x => (f x).sum).sum := by
  induction l with
  | nil => rfl
  | cons a l ih => simp [List.flatMap_cons, List.sum_append, ih]

theorem sum_map_add' {α : Type} (l : List α) (f g : α → Nat) :
    (l.map fun x => f x + g x).sum = (l.map f).sum + (l.map g).sum := C09M.sum_map_add_nat l f g

/-! ### model-side predecessor / successor lists -/

def pm (s : Store) (x : Nat) : List Nat :=
  match s.getPredecessorNodes x with
  | .ok l => l.map (·.name)
  | _ => []
def sm (s : Store) (x : Nat) : List Nat :=
  match s.getSuccessorNodes x with
  | .ok l => l.map (·.name)
  | _ => []
def mP (s : Store) (x : Nat) : List Nat := (dedup (pm s x)).filter (· != x)
def mS (s : Store) (x : Nat) : List Nat := (dedup (sm s x)).filter (· != x)

theorem mem_succOf (a : Abs) (x y : Nat) : y ∈ a.succOf x ↔ ∃ e ∈ a.edges, e.u = x ∧ e.v = y := by
  simp [Abs.succOf, C11aux.mem_dedup, and_assoc]
theorem mem_predOf (a : Abs) (x y : Nat) : y ∈ a.predOf x ↔ ∃ e ∈ a.edges, e.v = x ∧ e.u = y := by
  simp [Abs.predOf, C11aux.mem_dedup, and_assoc]
theorem mem_predOf_iff (a : Abs) (x y : Nat) : y ∈ a.predOf x ↔ x ∈ a.succOf y := by
  rw [mem_predOf, mem_succOf]
  constructor
  · rintro ⟨e, he, h1, h2⟩; exact ⟨e, he, h2, h1⟩
  · rintro ⟨e, he, h1, h2⟩; exact ⟨e, he, h2, h1⟩

theorem abs_succ_true (a : Abs) (x y : Nat) : y ∈ a.succ true x ↔ y ∈ a.succOf x := by
  simp [Abs.succ, Abs.succOf, C11aux.mem_dedup]
theorem abs_pred_true (a : Abs) (x y : Nat) : y ∈ a.pred true x ↔ y ∈ a.predOf x := by
  simp [Abs.pred, Abs.predOf, C11aux.mem_dedup]

theorem succOf_names (s : Store) (h : s.wf = true) (x y : Nat) (hy : y ∈ s.abs.succOf x) : y ∈ s.names := by
  have he := edgesP_of s (wf_parts s h).2.1
  obtain ⟨e, hmem, _, h2⟩ := (mem_succOf _ _ _).1 hy
  exact h2 ▸ (he.edge_names hmem).2
theorem predOf_names (s : Store) (h : s.wf = true) (x y : Nat) (hy : y ∈ s.abs.predOf x) : y ∈ s.names := by
  have he := edgesP_of s (wf_parts s h).2.1
  obtain ⟨e, hmem, _, h2⟩ := (mem_predOf _ _ _).1 hy
  exact h2 ▸ (he.edge_names hmem).1

theorem adjWithout_pred (s : Store) (h : s.wf = true) (hd : s.specs.directed = true) (x : Nat) (hx : s.hasNode x = true) :
    s.adjWithout x true = .ok (mP s x) := by
  have ⟨l, hl, _, _⟩ := C02_predecessorNodes s h hd x hx
  unfold Store.adjWithout mP pm
  simp only [if_true, hl]
  rfl
theorem adjWithout_succ (s : Store) (h : s.wf = true) (hd : s.specs.directed = true) (x : Nat) (hx : s.hasNode x = true) :
    s.adjWithout x false = .ok (mS s x) := by
  have ⟨l, hl, _, _⟩ := C02_successorNodes s h hd x hx
  unfold Store.adjWithout mS sm
  simp only [Bool.false_eq_true, if_false, hl]
  rfl

theorem mem_mP (s : Store) (h : s.wf = true) (hd : s.specs.directed = true) (x : Nat) (hx : s.hasNode x = true) (y : Nat) :
    y ∈ mP s x ↔ y ≠ x ∧ y ∈ s.abs.predOf x := by
  have ⟨l, hl, hm, _⟩ := C02_predecessorNodes s h hd x hx
  have e : pm s x = l.map (·.name) := by simp [pm, hl]
  simp only [mP, List.mem_filter, C11aux.mem_dedup, e, hm, abs_pred_true, bne_iff_ne, ne_eq]
  tauto
theorem mem_mS (s : Store) (h : s.wf = true) (hd : s.specs.directed = true) (x : Nat) (hx : s.hasNode x = true) (y : Nat) :
    y ∈ mS s x ↔ y ≠ x ∧ y ∈ s.abs.succOf x := by
  have ⟨l, hl, hm, _⟩ := C02_successorNodes s h hd x hx
  have e : sm s x = l.map (·.name) := by simp [sm, hl]
  simp only [mS, List.mem_filter, C11aux.mem_dedup, e, hm, abs_succ_true, bne_iff_ne, ne_eq]
  tauto

theorem mP_nodup (s : Store) (x : Nat) : (mP s x).Nodup := (C11aux.nodup_dedup _).filter _
theorem mS_nodup (s : Store) (x : Nat) : (mS s x).Nodup := (C11aux.nodup_dedup _).filter _

theorem mP_names (s : Store) (h : s.wf = true) (hd : s.specs.directed = true) (x : Nat) (hx : s.hasNode x = true) (y : Nat)
    (hy : y ∈ mP s x) : y ∈ s.names := predOf_names s h x y ((mem_mP s h hd x hx y).1 hy).2
theorem mS_names (s : Store) (h : s.wf = true) (hd : s.specs.directed = true) (x : Nat) (hx : s.hasNode x = true) (y : Nat)
    (hy : y ∈ mS s x) : y ∈ s.names := succOf_names s h x y ((mem_mS s h hd x hx y).1 hy).2

/-- `arc` through the model's lists -/
theorem arc_out (s : Store) (h : s.wf = true) (hd : s.specs.directed = true) (i : Nat) (hi : s.hasNode i = true) (j : Nat) :
    s.abs.arc i j = ind (mS s i) j := by
  unfold Abs.arc ind
  have := mem_mS s h hd i hi j
  by_cases hm : j ∈ mS s i
  · have := this.1 hm
    have hne : i ≠ j := fun e => this.1 e.symm
    simp [hm, hne, this.2]
  · rw [if_neg hm]
    have : ¬ (i ≠ j ∧ j ∈ s.abs.succOf i) := fun hh => hm (this.2 ⟨fun e => hh.1 e.symm, hh.2⟩)
    simp only [Bool.and_eq_true, bne_iff_ne, ne_eq, List.contains_iff_mem]
    rw [if_neg this]
theorem arc_in (s : Store) (h : s.wf = true) (hd : s.specs.directed = true) (i : Nat) (hi : s.hasNode i = true) (j : Nat) :
    s.abs.arc j i = ind (mP s i) j := by
  unfold Abs.arc ind
  have := mem_mP s h hd i hi j
  rw [mem_predOf_iff] at this
  by_cases hm : j ∈ mP s i
  · have := this.1 hm
    simp [hm, this.1, this.2]
  · rw [if_neg hm]
    have : ¬ (j ≠ i ∧ i ∈ s.abs.succOf j) := fun hh => hm (this.2 hh)
    simp only [Bool.and_eq_true, bne_iff_ne, ne_eq, List.contains_iff_mem]
    rw [if_neg this]

theorem sym_eq (s : Store) (h : s.wf = true) (hd : s.specs.directed = true) (i : Nat) (hi : s.hasNode i = true) (j : Nat) :
    s.abs.sym i j = ind (mS s i) j + ind (mP s i) j := by
  unfold Abs.sym
  rw [arc_out s h hd i hi, arc_in s h hd i hi]
theorem sym_comm (a : Abs) (i j : Nat) : a.sym i j = a.sym j i := by unfold Abs.sym; omega


/-! ### the model in closed form -/

def gj (s : Store) (i j : Nat) : Nat :=
  (sinter (mP s i) (mP s j)).length + (sinter (mP s i) (mS s j)).length
    + (sinter (mS s i) (mP s j)).length + (sinter (mS s i) (mS s j)).length

def triM (s : Store) (i : Nat) : Nat :=
  (mP s i ++ mS s i).foldl (fun t j => t + (sinter (mP s i) (mP s j)).length + (sinter (mP s i) (mS s j)).length
    + (sinter (mS s i) (mP s j)).length + (sinter (mS s i) (mS s j)).length) 0

def dtadOf (s : Store) (i : Nat) : Store.DTAD :=
  ⟨i, (mP s i).length + (mS s i).length, (sinter (mP s i) (mS s i)).length, triM s i⟩

theorem triM_eq_sum (s : Store) (i : Nat) : triM s i = ((mP s i ++ mS s i).map (gj s i)).sum := by
  unfold triM
  generalize mP s i ++ mS s i = l
  have : ∀ t0 : Nat, l.foldl (fun t j => t + (sinter (mP s i) (mP s j)).length + (sinter (mP s i) (mS s j)).length
      + (sinter (mS s i) (mP s j)).length + (sinter (mS s i) (mS s j)).length) t0 = t0 + (l.map (gj s i)).sum := by
    induction l with
    | nil => intro t0; simp
    | cons a l ih => intro t0; rw [List.foldl_cons, ih]; simp only [List.map_cons, List.sum_cons, gj]; omega
  rw [this]; simp

theorem directed_ok (s : Store) (h : s.wf = true) (hd : s.specs.directed = true) (names : Option (List Nat))
    (hn : ∀ x ∈ names.getD s.getAllNodeNames, s.hasNode x = true) :
    s.directedTrianglesAndDegrees names = .ok ((names.getD s.getAllNodeNames).map (dtadOf s)) := by
  rcases names with _ | l <;>
  simp only [Option.getD_none, Option.getD_some] at hn ⊢ <;>
  unfold Store.directedTrianglesAndDegrees <;>
  simp only [bind, Outcome.bind] <;>
  rw [foldl_ok_map _ (dtadOf s)]
  all_goals first | (simp; done) | skip
  all_goals
    intro acc i hi
    have hi' := hn i hi
    simp only [adjWithout_pred s h hd i hi', adjWithout_succ s h hd i hi']
    rw [foldl_ok_gen _ (fun t j => t + (sinter (mP s i) (mP s j)).length + (sinter (mP s i) (mS s j)).length
      + (sinter (mS s i) (mP s j)).length + (sinter (mS s i) (mS s j)).length)]
    · rfl
    · intro t j hj
      have hj' : s.hasNode j = true := by
        rw [hasNode_mem' s h]
        rcases List.mem_append.1 hj with hj | hj
        · exact mP_names s h hd i hi' j hj
        · exact mS_names s h hd i hi' j hj
      simp only [adjWithout_pred s h hd j hj', adjWithout_succ s h hd j hj']

/-! ### the sums -/

theorem gj_eq (s : Store) (h : s.wf = true) (hd : s.specs.directed = true) (i j : Nat)
    (hi : s.hasNode i = true) (hj : s.hasNode j = true) :
    gj s i j = (s.names.map fun k => s.abs.sym j k * s.abs.sym k i).sum := by
  have hns := names_nodup s h
  unfold gj
  rw [sinter_length_ind s.names (mP s i) (mP s j) hns (mP_nodup s i) (mP_names s h hd i hi),
    sinter_length_ind s.names (mP s i) (mS s j) hns (mP_nodup s i) (mP_names s h hd i hi),
    sinter_length_ind s.names (mS s i) (mP s j) hns (mS_nodup s i) (mS_names s h hd i hi),
    sinter_length_ind s.names (mS s i) (mS s j) hns (mS_nodup s i) (mS_names s h hd i hi),
    ← sum_map_add', ← sum_map_add', ← sum_map_add']
  congr 1
  apply List.map_congr_left
  intro k _
  rw [sym_eq s h hd j hj k, sym_comm s.abs k i, sym_eq s h hd i hi k]
  ring

theorem tri_eq (s : Store) (h : s.wf = true) (hd : s.specs.directed = true) (i : Nat) (hi : s.hasNode i = true) :
    triM s i = sumNat (s.names.flatMap fun j => s.names.map fun k => s.abs.sym i j * s.abs.sym j k * s.abs.sym k i) := by
  have hns := names_nodup s h
  rw [C09M.sumNat_eq_sum, sum_flatMap', triM_eq_sum, List.map_append, List.sum_append,
    sum_ind s.names (mP s i) hns (mP_nodup s i) (mP_names s h hd i hi),
    sum_ind s.names (mS s i) hns (mS_nodup s i) (mS_names s h hd i hi), ← sum_map_add']
  congr 1
  apply List.map_congr_left
  intro j hj
  have hj' := (hasNode_mem' s h j).2 hj
  have : (s.names.map fun k => s.abs.sym i j * s.abs.sym j k * s.abs.sym k i)
      = s.names.map fun k => s.abs.sym i j * (s.abs.sym j k * s.abs.sym k i) := by
    apply List.map_congr_left
    intro k _
    ring
  rw [this, sum_map_mul_left_nat, ← gj_eq s h hd i j hi hj', sym_eq s h hd i hi j]
  ring

theorem total_eq (s : Store) (h : s.wf = true) (hd : s.specs.directed = true) (i : Nat) (hi : s.hasNode i = true) :
    (mP s i).length + (mS s i).length = sumNat (s.names.map fun j => s.abs.sym i j) := by
  have hns := names_nodup s h
  rw [C09M.sumNat_eq_sum, length_ind s.names (mP s i) hns (mP_nodup s i) (mP_names s h hd i hi),
    length_ind s.names (mS s i) hns (mS_nodup s i) (mS_names s h hd i hi), ← sum_map_add']
  congr 1
  apply List.map_congr_left
  intro j _
  rw [sym_eq s h hd i hi j]
  ring

theorem recip_eq (s : Store) (h : s.wf = true) (hd : s.specs.directed = true) (i : Nat) (hi : s.hasNode i = true) :
    (sinter (mP s i) (mS s i)).length = sumNat (s.names.map fun j => s.abs.arc i j * s.abs.arc j i) := by
  have hns := names_nodup s h
  rw [C09M.sumNat_eq_sum, sinter_length_ind s.names (mP s i) (mS s i) hns (mP_nodup s i) (mP_names s h hd i hi)]
  congr 1
  apply List.map_congr_left
  intro j _
  rw [arc_out s h hd i hi, arc_in s h hd i hi]
  ring

end C11M
end Graphrs
