/-
  Helper lemmas for Props/C12Weighted.lean: `W.add` / `Option Rat` sums as commutative monoid folds
  (append, permutation, characterisation as "all defined, then the plain sum"), and the
  double-counting identities over `Rat`.
-/
import GraphrsModel.Lemmas.C09ModelAux
namespace Graphrs
namespace C12W

/-! ### folds of a monoid operation -/

theorem foldl_op {β : Type} (f : β → β → β) (z : β) (hassoc : ∀ a b c, f (f a b) c = f a (f b c))
    (hz : ∀ a, f z a = a) (hz' : ∀ a, f a z = a) (l : List β) (a : β) :
    l.foldl f a = f a (l.foldl f z) := by
  induction l generalizing a with
  | nil => simp [hz']
  | cons b l ih =>
    rw [List.foldl_cons, List.foldl_cons, ih (f a b), hz, ih b, hassoc]

/-! ### `W.add` -/

theorem W_add_zero (w : W) : W.add w (some 0) = w := by
  cases w <;> simp [W.add]

theorem W_zero_add (w : W) : W.add (some 0) w = w := by
  cases w <;> simp [W.add]

theorem W_add_assoc (a b c : W) : W.add (W.add a b) c = W.add a (W.add b c) := by
  cases a <;> cases b <;> cases c <;> simp [W.add, Int.add_assoc]

theorem W_add_comm (a b : W) : W.add a b = W.add b a := by
  cases a <;> cases b <;> simp [W.add, Int.add_comm]

theorem W_add_none (a : W) : W.add a none = none := by
  cases a <;> rfl

theorem sumW_eq_foldl (es : List Edge) : Abs.sumW es = (es.map (·.w)).foldl W.add (some 0) := by
  simp [Abs.sumW, List.foldl_map]

theorem store_sumW_eq (es : List Edge) : Store.sumW es = Abs.sumW es := rfl

theorem sumW_nil : Abs.sumW [] = some 0 := rfl

theorem sumW_cons (e : Edge) (es : List Edge) : Abs.sumW (e :: es) = W.add e.w (Abs.sumW es) := by
  simp only [sumW_eq_foldl, List.map_cons, List.foldl_cons]
  rw [foldl_op W.add (some 0) W_add_assoc W_zero_add W_add_zero, W_zero_add]

theorem sumW_append (l1 l2 : List Edge) : Abs.sumW (l1 ++ l2) = W.add (Abs.sumW l1) (Abs.sumW l2) := by
  simp only [sumW_eq_foldl, List.map_append, List.foldl_append]
  rw [foldl_op W.add (some 0) W_add_assoc W_zero_add W_add_zero]

theorem sumW_perm {l1 l2 : List Edge} (p : l1.Perm l2) : Abs.sumW l1 = Abs.sumW l2 := by
  induction p with
  | nil => rfl
  | cons e _ ih => rw [sumW_cons, sumW_cons, ih]
  | swap a b l =>
    rw [sumW_cons, sumW_cons, sumW_cons, sumW_cons, ← W_add_assoc, ← W_add_assoc, W_add_comm b.w a.w]
  | trans _ _ ih1 ih2 => rw [ih1, ih2]

/-! ### sums of `Option Rat` -/

def oadd : Option Rat → Option Rat → Option Rat
  | some a, some b => some (a + b)
  | _, _ => none

theorem sumOpt_eq_foldl (l : List (Option Rat)) : Store.sumOpt l = l.foldl oadd (some 0) := by
  unfold Store.sumOpt
  congr 1

theorem oadd_zero (w : Option Rat) : oadd w (some 0) = w := by
  cases w <;> simp [oadd]

theorem oadd_zero' (w : Option Rat) : oadd (some 0) w = w := by
  cases w <;> simp [oadd]

theorem oadd_assoc (a b c : Option Rat) : oadd (oadd a b) c = oadd a (oadd b c) := by
  cases a <;> cases b <;> cases c <;> simp [oadd, add_assoc]

theorem oadd_comm (a b : Option Rat) : oadd a b = oadd b a := by
  cases a <;> cases b <;> simp [oadd, add_comm]

theorem oadd_none (a : Option Rat) : oadd a none = none := by
  cases a <;> rfl

theorem sumOpt_nil : Store.sumOpt [] = some 0 := rfl

theorem sumOpt_cons (a : Option Rat) (l : List (Option Rat)) : Store.sumOpt (a :: l) = oadd a (Store.sumOpt l) := by
  simp only [sumOpt_eq_foldl, List.foldl_cons]
  rw [foldl_op oadd (some 0) oadd_assoc oadd_zero' oadd_zero, oadd_zero']

theorem sumOpt_append (l1 l2 : List (Option Rat)) :
    Store.sumOpt (l1 ++ l2) = oadd (Store.sumOpt l1) (Store.sumOpt l2) := by
  simp only [sumOpt_eq_foldl, List.foldl_append]
  rw [foldl_op oadd (some 0) oadd_assoc oadd_zero' oadd_zero]

theorem sumOpt_perm {l1 l2 : List (Option Rat)} (p : l1.Perm l2) : Store.sumOpt l1 = Store.sumOpt l2 := by
  induction p with
  | nil => rfl
  | cons e _ ih => rw [sumOpt_cons, sumOpt_cons, ih]
  | swap a b l =>
    rw [sumOpt_cons, sumOpt_cons, sumOpt_cons, sumOpt_cons, ← oadd_assoc, ← oadd_assoc, oadd_comm b a]
  | trans _ _ ih1 ih2 => rw [ih1, ih2]

/-- a sum with an undefined term is undefined -/
theorem sumOpt_none_of_mem (l : List (Option Rat)) (h : none ∈ l) : Store.sumOpt l = none := by
  induction l with
  | nil => simp at h
  | cons a l ih =>
    rw [sumOpt_cons]
    rcases List.mem_cons.mp h with h | h
    · rw [← h]; rfl
    · rw [ih h, oadd_none]

/-- a sum of defined terms is the plain sum -/
theorem sumOpt_map_some {α : Type} (l : List α) (k : α → Rat) :
    Store.sumOpt (l.map fun x => some (k x)) = some ((l.map k).sum) := by
  induction l with
  | nil => rfl
  | cons a l ih => rw [List.map_cons, sumOpt_cons, ih]; rfl

theorem sumOpt_map_congr_some {α : Type} (l : List α) (g : α → Option Rat) (k : α → Rat)
    (h : ∀ x ∈ l, g x = some (k x)) : Store.sumOpt (l.map g) = some ((l.map k).sum) := by
  rw [← sumOpt_map_some]
  congr 1
  exact List.map_congr_left h

theorem sumOpt_all_none {α : Type} (l : List α) (hne : l ≠ []) :
    Store.sumOpt (l.map fun _ => (none : Option Rat)) = none := by
  cases l with
  | nil => exact absurd rfl hne
  | cons a l => exact sumOpt_none_of_mem _ (by simp)

/-! ### weights as rationals -/

theorem wRat_add (a b : W) : Store.wRat (W.add a b) = oadd (Store.wRat a) (Store.wRat b) := by
  cases a <;> cases b <;> simp [W.add, Store.wRat, oadd]

theorem wOf_true (e : Edge) : Abs.wOf true e = Store.wRat e.w := by
  cases h : e.w <;> simp [Abs.wOf, Store.wRat, h]

/-- the weight sum of the store, cast to `Option Rat`, is the sum of the cast weights -/
theorem wRat_sumW (es : List Edge) : Store.wRat (Abs.sumW es) = Store.sumOpt (es.map (Abs.wOf true)) := by
  induction es with
  | nil => rfl
  | cons e es ih => rw [sumW_cons, wRat_add, List.map_cons, sumOpt_cons, ih, wOf_true]

theorem sumOpt_wRat (es : List Edge) :
    Store.sumOpt (es.map fun e => Store.wRat e.w) = Store.sumOpt (es.map (Abs.wOf true)) := by
  congr 1

/-! ### double counting over `Rat` -/

theorem sum_by_set_cons (es : List Edge) (f : Edge → Nat) (g : Edge → Rat) (a : Nat) (c : List Nat) (ha : a ∉ c) :
    ((es.filter fun e => (a :: c).contains (f e)).map g).sum
      = ((es.filter fun e => f e == a).map g).sum + ((es.filter fun e => c.contains (f e)).map g).sum := by
  induction es with
  | nil => simp
  | cons e es ihe =>
    by_cases h1 : f e = a
    · have : c.contains a = false := by simpa using ha
      simp only [List.filter_cons, h1, beq_self_eq_true, if_true, List.map_cons, List.sum_cons, List.contains_cons,
        Bool.true_or, this, Bool.false_eq_true, if_false] at ihe ⊢
      rw [ihe, add_assoc]
    · have hb : (f e == a) = false := by simp [h1]
      simp only [List.filter_cons, hb, Bool.false_eq_true, if_false, List.contains_cons, Bool.false_or] at ihe ⊢
      by_cases h2 : c.contains (f e) = true
      · simp only [h2, if_true, List.map_cons, List.sum_cons]
        rw [ihe]; ring
      · simp only [h2]; exact ihe

theorem sum_by_set (es : List Edge) (f : Edge → Nat) (g : Edge → Rat) (c : List Nat) (hc : c.Nodup) :
    (c.map fun x => ((es.filter fun e => f e == x).map g).sum).sum
      = ((es.filter fun e => c.contains (f e)).map g).sum := by
  induction c with
  | nil => simp
  | cons a c ih =>
    have hnd := List.nodup_cons.mp hc
    rw [sum_by_set_cons es f g a c hnd.1, List.map_cons, List.sum_cons, ih hnd.2]

theorem sum_by_key (es : List Edge) (f : Edge → Nat) (g : Edge → Rat) (c : List Nat) (hc : c.Nodup)
    (hf : ∀ e ∈ es, f e ∈ c) :
    (c.map fun x => ((es.filter fun e => f e == x).map g).sum).sum = (es.map g).sum := by
  rw [sum_by_set es f g c hc]
  congr 2
  rw [List.filter_eq_self]
  intro e he
  simpa using hf e he

theorem sum_map_add {α : Type} (l : List α) (f g : α → Rat) :
    (l.map fun x => f x + g x).sum = (l.map f).sum + (l.map g).sum := by
  induction l with
  | nil => simp
  | cons a l ih => simp only [List.map_cons, List.sum_cons, ih]; ring

set_option linter.unusedSimpArgs false in
/-- pointwise: touching + loops = in + out -/
theorem touching_split (es : List Edge) (x : Nat) (g : Edge → Rat) :
    ((es.filter fun e => e.u == x || e.v == x).map g).sum + ((es.filter fun e => e.u == x && e.v == x).map g).sum
      = ((es.filter fun e => e.v == x).map g).sum + ((es.filter fun e => e.u == x).map g).sum := by
  induction es with
  | nil => simp
  | cons e es ih =>
    by_cases h1 : (e.u == x) = true <;> by_cases h2 : (e.v == x) = true <;>
      simp only [List.filter_cons, h1, h2, Bool.or_self, Bool.and_self, Bool.or_true, Bool.true_or, Bool.or_false,
        Bool.and_true, Bool.and_false, Bool.false_and, Bool.true_and, Bool.false_or,
        if_true, Bool.false_eq_true, if_false, List.map_cons, List.sum_cons] <;> linarith

end C12W
end Graphrs
