/-
  C05 (Brandes): on every store built through the mutation API a row of `successors_vec` lists every neighbour other
  than the node itself at most once (`add_edge` pushes a new entry only when no edge between the two nodes is stored;
  the other update modes keep the listed positions).  This is the hypothesis the BFS path count needs and that the
  coupling invariant `Store.wf` does not state.
-/
import GraphrsModel.Lemmas.C03Final
namespace Graphrs
namespace Bc
open C03

/-- every row lists every position other than its own at most once -/
def RowsNdV (vec : List (List Adj)) : Prop :=
  ∀ v : Nat, (((vec[v]?.getD []).map (fun a => a.1)).filter (fun j => j != v)).Nodup

def RowsNd (s : Store) : Prop := RowsNdV s.succVec

theorem rowsNdV_nil : RowsNdV [] := by
  intro v; simp

theorem rowsNdV_append_nil {vec : List (List Adj)} (h : RowsNdV vec) : RowsNdV (vec ++ [[]]) := by
  intro v
  by_cases hv : v < vec.length
  · rw [List.getElem?_append_left hv]; exact h v
  · have : (vec ++ [[]])[v]?.getD [] = [] := by
      rcases Nat.lt_or_ge v (vec.length + 1) with h1 | h1
      · have : v = vec.length := by omega
        subst this; simp
      · rw [List.getElem?_eq_none (by simp; omega)]; rfl
    rw [this]; simp

theorem rowsNdV_set {vec : List (List Adj)} (h : RowsNdV vec) (u : Nat) (row : List Adj)
    (hrow : ((row.map (fun a => a.1)).filter (fun j => j != u)).Nodup) : RowsNdV (vec.set u row) := by
  intro v
  by_cases e : u = v
  · subst e
    by_cases hu : u < vec.length
    · simp only [List.getElem?_set_self hu, Option.getD_some]; exact hrow
    · rw [List.getElem?_eq_none (by simp; omega)]; simp
  · rw [List.getElem?_set_ne e]; exact h v

/-- `add_to_adjacency_vec` keeps the rows duplicate-free, provided a pushed position is new in its row -/
theorem adjUpdate_rowsNdV (vec : List (List Adj)) (u v : Nat) (w : W) (upd : AdjUpd) (h : RowsNdV vec)
    (hpush : upd = .push → v = u ∨ ∀ a ∈ vec[u]?.getD [], a.1 ≠ v) :
    RowsNdV ((adjUpdate vec u v w upd).getD vec) := by
  unfold adjUpdate
  cases hrow : vec[u]? with
  | none => exact h
  | some row =>
    have hr := h u
    rw [hrow] at hr
    simp only [Option.getD_some] at hr
    cases upd with
    | push =>
      simp only [Option.getD_some]
      apply rowsNdV_set h
      rw [List.map_append, List.filter_append]
      rcases hpush rfl with e | e
      · subst e; simpa using hr
      · rw [hrow] at e
        simp only [Option.getD_some] at e
        by_cases hvu : v = u
        · subst hvu; simpa using hr
        · have : ((([(v, w)] : List Adj).map (fun a => a.1)).filter (fun j => j != u)) = [v] := by simp [hvu]
          rw [this, List.nodup_append]
          refine ⟨hr, by simp, ?_⟩
          intro x hx y hy
          simp at hy; subst hy
          rw [List.mem_filter, List.mem_map] at hx
          obtain ⟨⟨a, ha, rfl⟩, _⟩ := hx
          exact e a ha
    | keepMin =>
      simp only
      cases hi : row.findIdx? (fun a => a.1 == v) with
      | none => exact h
      | some i =>
        simp only
        cases ha : row[i]? with
        | none => exact h
        | some a =>
          simp only
          split
          · simp only [Option.getD_some]
            apply rowsNdV_set h
            have hai : a.1 = v := by
              have := List.findIdx?_eq_some_iff_getElem.1 hi
              obtain ⟨hlt, hp, _⟩ := this
              have : row[i] = a := by
                have h2 := List.getElem?_eq_getElem hlt
                rw [ha] at h2; exact (Option.some.inj h2).symm
              rw [this] at hp
              simpa using hp
            have : (row.set i (v, w)).map (fun a => a.1) = row.map (fun a => a.1) := by
              rw [List.map_set]
              apply List.ext_getElem?
              intro k
              by_cases hk : i = k
              · subst hk
                by_cases hlt : i < row.length
                · have h2 := List.getElem?_eq_getElem hlt
                  rw [ha] at h2
                  have h3 : row[i] = a := (Option.some.inj h2).symm
                  simp [hlt, h3, hai]
                · simp [hlt]
              · rw [List.getElem?_set_ne hk]
            rw [this]; exact hr
          · exact h
    | overwrite =>
      simp only [Option.getD_some]
      apply rowsNdV_set h
      have : (row.map (fun a => if a.1 == v then (a.1, w) else a)).map (fun a => a.1) = row.map (fun a => a.1) := by
        rw [List.map_map]
        apply List.map_congr_left
        intro a _
        simp only [Function.comp]
        split <;> rfl
      rw [this]; exact hr
    | untouched => exact h

theorem adjUpdate_getElem_ne (vec : List (List Adj)) (u v k : Nat) (w : W) (upd : AdjUpd) (hk : u ≠ k) :
    ((adjUpdate vec u v w upd).getD vec)[k]? = vec[k]? := by
  unfold adjUpdate
  cases hrow : vec[u]? with
  | none => rfl
  | some row =>
    cases upd with
    | push => simp only [Option.getD_some]; rw [List.getElem?_set_ne hk]
    | keepMin =>
      simp only
      cases row.findIdx? (fun a => a.1 == v) with
      | none => rfl
      | some i =>
        simp only
        cases row[i]? with
        | none => rfl
        | some a =>
          simp only
          split
          · simp only [Option.getD_some]; rw [List.getElem?_set_ne hk]
          · rfl
    | overwrite => simp only [Option.getD_some]; rw [List.getElem?_set_ne hk]
    | untouched => rfl

/-! ### the stages of `add_edge` -/

theorem poison_succVec (s : Store) (site : String) : (s.poison site).succVec = s.succVec := by
  unfold Store.poison; split <;> rfl

theorem adjSucc_succVec (s : Store) (u v : Nat) (w : W) (upd : AdjUpd) :
    (s.adjSucc u v w upd).succVec = (adjUpdate s.succVec u v w upd).getD s.succVec := by
  unfold Store.adjSucc
  cases adjUpdate s.succVec u v w upd with
  | none => exact poison_succVec _ _
  | some vec => rfl

theorem adjPred_succVec (s : Store) (u v : Nat) (w : W) (upd : AdjUpd) :
    (s.adjPred u v w upd).succVec = s.succVec := by
  unfold Store.adjPred
  cases adjUpdate s.predVec u v w upd with
  | none => exact poison_succVec _ _
  | some vec => rfl

theorem adjStage_succVec (sp : Specs) (s : Store) (e : Edge) (ui vi ou ov : Nat) (upd : AdjUpd) :
    (adjStage sp s e ui vi ou ov upd).succVec =
      if sp.directed then (adjUpdate s.succVec ou ov e.w upd).getD s.succVec
      else (adjUpdate ((adjUpdate s.succVec ou ov e.w upd).getD s.succVec) ov ou e.w upd).getD
        ((adjUpdate s.succVec ou ov e.w upd).getD s.succVec) := by
  unfold adjStage
  cases sp.directed
  · simp only [Bool.false_eq_true, if_false]
    rw [adjSucc_succVec]
    show (adjUpdate (Store.adjSucc _ ou ov e.w upd).succVec ov ou e.w upd).getD (Store.adjSucc _ ou ov e.w upd).succVec = _
    rw [adjSucc_succVec]
  · simp only [if_true]
    rw [adjPred_succVec]
    show (Store.adjSucc _ ou ov e.w upd).succVec = _
    rw [adjSucc_succVec]

theorem edgeStage_succVec (sp : Specs) (s : Store) (o : Edge) (ou ov : Nat) :
    (edgeStage sp s o ou ov).succVec = s.succVec := by
  unfold edgeStage
  split
  · rfl
  · split
    · rfl
    · split <;> rfl

theorem addNode_rowsNd (s : Store) (nd : Node) (h : RowsNd s) : RowsNd (s.addNode nd) := by
  unfold RowsNd Store.addNode
  split
  · split
    · exact h
    · show RowsNdV (s.poison _).succVec
      rw [poison_succVec]; exact h
  · exact rowsNdV_append_nil h

theorem edgeNodes_rowsNd (s : Store) (e : Edge) (h : RowsNd s) : RowsNd (edgeNodes s e) := by
  unfold edgeNodes
  simp only
  split
  · split
    · exact addNode_rowsNd _ _ (addNode_rowsNd _ _ h)
    · exact addNode_rowsNd _ _ h
  · split
    · exact addNode_rowsNd _ _ h
    · exact h

/-- no entry for `j` in row `i` when no edge is stored between the two nodes -/
theorem no_entry_of_unbound {s : Store} (hp : Pre s) {i j x y : Nat} (hx : s.names[i]? = some x) (hy : s.names[j]? = some y)
    (hnone : alookup s.edges (nameKey s.specs.directed x y) = none) :
    ∀ a ∈ s.succVec[i]?.getD [], a.1 ≠ j := by
  have hv := hp.vS.val i j x y hx hy
  have : fS s.edges s.specs.directed x y = none := by
    unfold fS wbC
    rw [hnone]; rfl
  rw [this] at hv
  unfold rowMin at hv
  rw [minW_eq_none] at hv
  intro a ha e
  exact (wts_ne_nil_iff _ j).2 ⟨a, ha, e⟩ hv

theorem nameKey_false_symm (x y : Nat) : nameKey false x y = nameKey false y x := by
  unfold nameKey
  by_cases h1 : x > y <;> by_cases h2 : y > x <;> simp [h1, h2]
  · omega
  · have : x = y := by omega
    subst this; exact ⟨rfl, rfl⟩

theorem edgeTail_rowsNd (s : Store) (e : Edge) (ui vi : Nat) (hp : Pre s) (hr : RowsNd s)
    (hui : alookup s.nodesMap e.u = some ui) (hvi : alookup s.nodesMap e.v = some vi) :
    RowsNd (edgeTail s.specs s e ui vi).1 := by
  rw [edgeTail_fst]
  split
  · exact hr
  · unfold RowsNd
    rw [edgeStage_succVec, adjStage_succVec]
    have hxu : s.names[ui]? = some e.u := (hp.nm _ _).1 hui
    have hxv : s.names[vi]? = some e.v := (hp.nm _ _).1 hvi
    have hlk : s.edgesByIdx ui vi = alookup s.edges (nameKey s.specs.directed e.u e.v) := by
      rw [edgesByIdx_eq]; exact hp.l2 ui vi e.u e.v hxu hxv
    -- a push means no edge is stored between the endpoints
    have hnone : updOf (s.edgesByIdx ui vi).isSome s.specs = .push →
        alookup s.edges (nameKey s.specs.directed e.u e.v) = none := by
      intro hu
      have := updOf_push _ _ hu
      rw [hlk] at this
      cases hl : alookup s.edges (nameKey s.specs.directed e.u e.v) with
      | none => rfl
      | some l => rw [hl] at this; cases this
    cases hd : s.specs.directed with
    | true =>
      simp only [if_true]
      have hkey : idxKey true ui vi = (ui, vi) := by simp [idxKey]
      rw [hkey]
      apply adjUpdate_rowsNdV _ _ _ _ _ hr
      intro hu
      right
      rw [hd] at hnone
      have hn := hnone hu
      rw [← hd] at hn
      exact no_entry_of_unbound hp hxu hxv hn
    | false =>
      simp only [Bool.false_eq_true, if_false]
      rw [hd] at hnone
      -- the positions under which the edge is stored, and their names
      have hou : ∃ x0 y0, s.names[(idxKey false ui vi).1]? = some x0 ∧
          s.names[(idxKey false ui vi).2]? = some y0 ∧
          nameKey false x0 y0 = nameKey false e.u e.v := by
        unfold idxKey
        by_cases hgt : ui > vi
        · simp only [Bool.not_false, Bool.true_and, hgt, decide_true, if_true]
          exact ⟨e.v, e.u, hxv, hxu, nameKey_false_symm _ _⟩
        · simp only [Bool.not_false, Bool.true_and, hgt, decide_false, Bool.false_eq_true, if_false]
          exact ⟨e.u, e.v, hxu, hxv, rfl⟩
      obtain ⟨x0, y0, hx0, hy0, hk0⟩ := hou
      have h1 : RowsNdV ((adjUpdate s.succVec (idxKey false ui vi).1 (idxKey false ui vi).2 e.w
          (updOf (s.edgesByIdx ui vi).isSome s.specs)).getD s.succVec) := by
        apply adjUpdate_rowsNdV _ _ _ _ _ hr
        intro hu
        right
        have hn := hnone hu
        rw [← hk0, ← hd] at hn
        exact no_entry_of_unbound hp hx0 hy0 hn
      apply adjUpdate_rowsNdV _ _ _ _ _ h1
      intro hu
      by_cases hsame : (idxKey false ui vi).1 = (idxKey false ui vi).2
      · exact Or.inl hsame
      · right
        rw [adjUpdate_getElem_ne _ _ _ _ _ _ hsame]
        have hn := hnone hu
        rw [← hk0, nameKey_false_symm, ← hd] at hn
        exact no_entry_of_unbound hp hy0 hx0 hn

/-- **`add_edge` keeps the rows duplicate-free** -/
theorem addEdge_rowsNd (s : Store) (e : Edge) (hp : Pre s) (hr : RowsNd s) : RowsNd (s.addEdge e).1 := by
  rw [addEdge_eq]
  by_cases c1 : (!s.specs.selfLoops && e.u == e.v) = true
  · rw [if_pos c1]
    cases s.specs.slFalse <;> exact hr
  · rw [if_neg c1]
    by_cases c2 : (s.specs.missing == Missing.error &&
        (!acontains s.nodesMap e.u || !acontains s.nodesMap e.v)) = true
    · rw [if_pos c2]; exact hr
    · rw [if_neg c2]
      have hp2 := pre_edgeNodes s e hp
      have hs2 := specs_edgeNodes s e
      have hr2 := edgeNodes_rowsNd s e hr
      cases hu : alookup (edgeNodes s e).nodesMap e.u with
      | none =>
        show RowsNdV (Store.poison _ _).succVec
        rw [poison_succVec]; exact hr2
      | some ui =>
        cases hv : alookup (edgeNodes s e).nodesMap e.v with
        | none =>
          show RowsNdV (Store.poison _ _).succVec
          rw [poison_succVec]; exact hr2
        | some vi =>
          simp only
          rw [← hs2]
          exact edgeTail_rowsNd _ e ui vi hp2 hr2 hu hv

end Bc
end Graphrs
