/-
  Lemmas for Props/C13Monotone.lean, part 2: on a level graph without NaN weights the degree maps of
  `get_degree_information` are the edge sums `degE / inE / outE`, and the potential `LT.Phi` of the termination
  proof is the modularity-of-an-assignment `LM.Qasg` of the level graph's edge list.
-/
import GraphrsModel.Lemmas.LouvainMonoSum
import GraphrsModel.Lemmas.LouvainTermInit
namespace Graphrs
open LouvainFull
namespace LM

/-- no stored weight is NaN -/
def NoNaN (es : List Edge) : Prop := ∀ e ∈ es, e.w ≠ none

theorem ratW_add_some (a b : Int) : ratW (W.add (some a) (some b)) = ratW (some a) + ratW (some b) := by
  simp [W.add, ratW]

theorem sumW_some (l : List Edge) (h : NoNaN l) :
    ∃ z : Int, Abs.sumW l = some z ∧ (z : Rat) = (l.map fun e => ratW e.w).sum := by
  induction l with
  | nil => exact ⟨0, rfl, by simp⟩
  | cons e l ih =>
    obtain ⟨z, hz, hz'⟩ := ih (fun e' he' => h e' (List.mem_cons_of_mem _ he'))
    cases hw : e.w with
    | none => exact absurd hw (h e List.mem_cons_self)
    | some x =>
      refine ⟨x + z, ?_, ?_⟩
      · rw [C12W.sumW_cons, hz, hw]; rfl
      · rw [List.map_cons, List.sum_cons, ← hz', hw]
        simp only [ratW]
        push_cast
        ring

theorem ratW_sumW (l : List Edge) (h : NoNaN l) : ratW (Abs.sumW l) = (l.map fun e => ratW e.w).sum := by
  obtain ⟨z, hz, hz'⟩ := sumW_some l h
  rw [hz, ← hz']
  rfl

theorem ratW_add_sumW (l1 l2 : List Edge) (h1 : NoNaN l1) (h2 : NoNaN l2) :
    ratW (W.add (Abs.sumW l1) (Abs.sumW l2)) = (l1.map fun e => ratW e.w).sum + (l2.map fun e => ratW e.w).sum := by
  obtain ⟨z1, hz1, hz1'⟩ := sumW_some l1 h1
  obtain ⟨z2, hz2, hz2'⟩ := sumW_some l2 h2
  rw [hz1, hz2, ratW_add_some, ← hz1', ← hz2']
  rfl

theorem NoNaN.filter {l : List Edge} (h : NoNaN l) (p : Edge → Bool) : NoNaN (l.filter p) :=
  fun e he => h e (List.mem_of_mem_filter he)

/-- a filtered weight sum as a `wsum` -/
theorem filter_sum_wsum (es : List Edge) (p : Edge → Bool) (P : Nat → Nat → Prop) [∀ u v, Decidable (P u v)]
    (hp : ∀ e, p e = true ↔ P e.u e.v) :
    ((es.filter p).map fun e => ratW e.w).sum = wsum es (fun u v => if P u v then 1 else 0) := by
  rw [LT.sum_filter_ite]
  unfold wsum
  congr 1
  apply List.map_congr_left
  intro e _
  show (if p e = true then ratW e.w else 0) = ratW e.w * (if P e.u e.v then 1 else 0)
  by_cases h : P e.u e.v
  · rw [if_pos ((hp e).2 h), if_pos h]; ring
  · rw [if_neg (fun hc => h ((hp e).1 hc)), if_neg h]; ring

theorem outSum_eq (es : List Edge) (x : Nat) :
    ((es.filter (·.u == x)).map fun e => ratW e.w).sum = outE es x := by
  unfold outE
  exact filter_sum_wsum es _ (fun u _ => u = x) (fun e => by simp)

theorem inSum_eq (es : List Edge) (x : Nat) :
    ((es.filter (·.v == x)).map fun e => ratW e.w).sum = inE es x := by
  unfold inE
  exact filter_sum_wsum es _ (fun _ v => v = x) (fun e => by simp)

/-- the undirected weighted degree of the abstract graph is `degE` -/
theorem ratW_weightedDegree_undir (a : Abs) (h : NoNaN a.edges) (x : Nat) :
    ratW (a.weightedDegree false x) = degE a.edges x := by
  simp only [Abs.weightedDegree, Bool.false_eq_true, if_false, Abs.touching]
  rw [ratW_add_sumW _ _ (h.filter _) (h.filter _), C12W.touching_split, degE_eq, inSum_eq, outSum_eq]
  ring

theorem ratW_in (a : Abs) (h : NoNaN a.edges) (x : Nat) : ratW (Abs.sumW (a.inEdges x)) = inE a.edges x := by
  unfold Abs.inEdges
  rw [ratW_sumW _ (h.filter _), inSum_eq]

theorem ratW_out (a : Abs) (h : NoNaN a.edges) (x : Nat) : ratW (Abs.sumW (a.outEdges x)) = outE a.edges x := by
  unfold Abs.outEdges
  rw [ratW_sumW _ (h.filter _), outSum_eq]

theorem dgOf_degList (g : Store) (f : Nat → W) (x : Nat) (hx : x ∈ g.names) :
    LT.dgOf (LT.degList g f) x = ratW (f x) := by
  unfold LT.dgOf LT.degList
  rw [LF.alookup_map_snd, C09M.alookup_map_self, if_pos hx]
  rfl

/-- **the potential of a level is the modularity of the assignment on the level graph's edge list** -/
theorem Phi_eq_Qasg {lv : Level} {n k : Nat} (hg : LF.GoodLevel lv n k) (hwf : lv.g.wf = true)
    (hnan : NoNaN lv.g.allEdges) (m res : Rat) (a : Nat → Nat) (ha : ∀ x, x < k → a x < k)
    (di : DegInfo) (hdi : degreeInformation lv.g k = .ok di) :
    LT.Phi lv k m res di.deg di.inDeg di.outDeg a = Qasg lv.g.specs.directed lv.g.allEdges k m res a := by
  have hnames : ∀ x, x < k → x ∈ lv.g.names := fun x hx => (hg.names_iff x).2 hx
  have hes := LT.edges_lt hg hwf
  have hnan' : NoNaN lv.g.abs.edges := hnan
  obtain ⟨hU, hD⟩ := C13_Phi_is_sum_of_terms hg hwf m res di.deg di.inDeg di.outDeg a ha
  cases hd : lv.g.specs.directed
  · rw [hU hd]
    unfold Qasg
    apply Finset.sum_congr rfl
    intro c _
    have hdi' : di = LT.diUndir lv.g k := by
      have := LT.degreeInformation_undir lv.g hwf k hnames hd
      rw [hdi] at this
      cases this
      rfl
    have hdeg : ∀ x, x < k → LT.dgOf di.deg x = degE lv.g.allEdges x := by
      intro x hx
      rw [hdi']
      simp only [LT.diUndir]
      rw [dgOf_degList _ _ _ (hnames x hx), hd]
      exact ratW_weightedDegree_undir lv.g.abs hnan' x
    rw [csum_congr_fun a hdeg c, csum_degE _ k hes, Lc_eq_wsum]
    unfold term indD
    rw [wsum_add]
    simp
  · rw [hD hd]
    unfold Qasg
    apply Finset.sum_congr rfl
    intro c _
    have hdi' : di = LT.diDir lv.g k := by
      have := LT.degreeInformation_dir lv.g hwf k hnames hd
      rw [hdi] at this
      cases this
      rfl
    have hin : ∀ x, x < k → LT.dgOf di.inDeg x = inE lv.g.allEdges x := by
      intro x hx
      rw [hdi']
      simp only [LT.diDir]
      rw [dgOf_degList _ _ _ (hnames x hx)]
      exact ratW_in lv.g.abs hnan' x
    have hout : ∀ x, x < k → LT.dgOf di.outDeg x = outE lv.g.allEdges x := by
      intro x hx
      rw [hdi']
      simp only [LT.diDir]
      rw [dgOf_degList _ _ _ (hnames x hx)]
      exact ratW_out lv.g.abs hnan' x
    rw [csum_congr_fun a hin c, csum_congr_fun a hout c, csum_inE _ k hes, csum_outE _ k hes, Lc_eq_wsum]
    unfold term
    simp

end LM
end Graphrs
