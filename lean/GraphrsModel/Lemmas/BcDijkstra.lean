/-
  The weighted single-source stage of betweenness.rs (`dijkstra`: a fringe ordered by distance only, lazy deletion,
  `seen` / `D` arrays, `sigma` reset on a strictly shorter path): its loop invariant and what the stage delivers
  (`SsOut` with `κ = 2`: the stage leaves `sigma[source] = 2`, every `sigma` is twice the number of shortest paths).
-/
import GraphrsModel.Lemmas.BcBridge
namespace Graphrs
namespace Bc

/-- the cost the weighted stage reads off an adjacency entry (`NaN` reads as 0) -/
def djCost (a : Adj) : Int := a.2.getD 0

/-! ## `popMinDist` -/

theorem foldl_minDist_mem (xs : List CNode) (x : CNode) :
    xs.foldl (fun b y => if y.1 < b.1 then y else b) x ∈ x :: xs := by
  induction xs generalizing x with
  | nil => simp
  | cons y ys ih =>
    simp only [List.foldl_cons]
    have := ih (if y.1 < x.1 then y else x)
    by_cases h : y.1 < x.1
    · simp only [h, if_true] at this ⊢
      simp only [List.mem_cons] at this ⊢
      rcases this with h1 | h1
      · exact Or.inr (Or.inl h1)
      · exact Or.inr (Or.inr h1)
    · simp only [h, if_false] at this ⊢
      simp only [List.mem_cons] at this ⊢
      rcases this with h1 | h1
      · exact Or.inl h1
      · exact Or.inr (Or.inr h1)

theorem foldl_minDist_le (xs : List CNode) (x : CNode) :
    ∀ z ∈ x :: xs, (xs.foldl (fun b y => if y.1 < b.1 then y else b) x).1 ≤ z.1 := by
  induction xs generalizing x with
  | nil => intro z hz; simp at hz; subst hz; simp
  | cons y ys ih =>
    simp only [List.foldl_cons]
    intro z hz
    have h0 := ih (if y.1 < x.1 then y else x) _ (List.mem_cons_self ..)
    have h1 : (if y.1 < x.1 then y else x).1 ≤ x.1 ∧ (if y.1 < x.1 then y else x).1 ≤ y.1 := by
      split <;> omega
    simp only [List.mem_cons] at hz
    rcases hz with e | e | e
    · subst e; omega
    · subst e; omega
    · exact ih _ z (List.mem_cons_of_mem _ e)

theorem popMinDist_none {fr : List CNode} (h : popMinDist fr = none) : fr = [] := by
  cases fr with
  | nil => rfl
  | cons x xs => simp [popMinDist] at h

theorem popMinDist_some {fr : List CNode} {b : CNode} {rest : List CNode} (h : popMinDist fr = some (b, rest)) :
    b ∈ fr ∧ rest = fr.erase b ∧ ∀ y ∈ fr, b.1 ≤ y.1 := by
  cases fr with
  | nil => simp [popMinDist] at h
  | cons x xs =>
    simp only [popMinDist, Option.some.injEq, Prod.mk.injEq] at h
    obtain ⟨h1, h2⟩ := h
    subst h1
    exact ⟨foldl_minDist_mem xs x, h2.symm, foldl_minDist_le xs x⟩

/-! ## one relaxation -/

/-- the body of the `for adj in successors` loop of `dijkstra` -/
def djRelax (v : Nat) (dist : Int) (st : BState) (adj : Adj) : BState :=
  let w := adj.1
  let cost : Int := adj.2.getD 0
  let vw := dist + cost
  let seenW := st.seen[w]?.join
  if (st.D[w]?.join).isNone && (match seenW with | none => true | some sw => vw < sw) then
    { st with seen := st.seen.set w (some vw), fringe := st.fringe ++ [(vw, v, w)],
              sigma := st.sigma.set w 0, P := st.P.set w [v] }
  else if seenW == some vw then
    { st with sigma := st.sigma.set w (getD0 st.sigma w + getD0 st.sigma v),
              P := st.P.set w ((st.P[w]?.getD []) ++ [v]) }
  else st

theorem bcDijkstraLoop_succ (adjOf : Nat → List Adj) (fuel : Nat) (st : BState) :
    bcDijkstraLoop adjOf (fuel + 1) st =
      match popMinDist st.fringe with
      | none => st
      | some ((dist, pred, v), rest) =>
        if ((st.D[v]?.join).isSome) = true then bcDijkstraLoop adjOf fuel { st with fringe := rest }
        else bcDijkstraLoop adjOf fuel ((adjOf v).foldl (djRelax v dist)
          { st with fringe := rest, sigma := st.sigma.set v (getD0 st.sigma v + getD0 st.sigma pred),
                    S := st.S ++ [v], D := st.D.set v (some dist) }) := by
  rfl

/-- first visit or strictly shorter: the entry is pushed, `sigma` and `P` restart -/
theorem djRelax_push (v : Nat) (dist : Int) (st : BState) (a : Adj) (hD : lk st.D a.1 = none)
    (hs : lk st.seen a.1 = none ∨ ∃ sw, lk st.seen a.1 = some sw ∧ dist + djCost a < sw) :
    djRelax v dist st a =
      { st with seen := st.seen.set a.1 (some (dist + djCost a)), fringe := st.fringe ++ [(dist + djCost a, v, a.1)],
                sigma := st.sigma.set a.1 0, P := st.P.set a.1 [v] } := by
  simp only [lk, djCost] at hD hs ⊢
  simp only [djRelax]
  rcases hs with hs | ⟨sw, hs, hlt⟩
  · simp [hD, hs]
  · simp [hD, hs, hlt]

theorem djRelax_cond_false (dist : Int) (st : BState) (a : Adj)
    (hnp : lk st.D a.1 ≠ none ∨ ∃ sw, lk st.seen a.1 = some sw ∧ ¬ dist + djCost a < sw) :
    ((st.D[a.1]?.join).isNone && (match st.seen[a.1]?.join with
      | none => true
      | some sw => decide (dist + a.2.getD 0 < sw))) = false := by
  simp only [lk, djCost] at hnp
  rcases hnp with h | ⟨sw, h1, h2⟩
  · cases hd : st.D[a.1]?.join with
    | none => exact absurd hd h
    | some d => simp
  · simp [h1, h2]

/-- another path of the same length -/
theorem djRelax_equal (v : Nat) (dist : Int) (st : BState) (a : Adj)
    (hnp : lk st.D a.1 ≠ none ∨ ∃ sw, lk st.seen a.1 = some sw ∧ ¬ dist + djCost a < sw)
    (hs : lk st.seen a.1 = some (dist + djCost a)) :
    djRelax v dist st a =
      { st with sigma := st.sigma.set a.1 (getD0 st.sigma a.1 + getD0 st.sigma v),
                P := st.P.set a.1 (gP st.P a.1 ++ [v]) } := by
  have h1 := djRelax_cond_false dist st a hnp
  simp only [lk, djCost] at hs
  simp only [djRelax, gP]
  rw [h1]
  simp [hs]

/-- nothing to do -/
theorem djRelax_skip (v : Nat) (dist : Int) (st : BState) (a : Adj)
    (hnp : lk st.D a.1 ≠ none ∨ ∃ sw, lk st.seen a.1 = some sw ∧ ¬ dist + djCost a < sw)
    (hs : lk st.seen a.1 ≠ some (dist + djCost a)) :
    djRelax v dist st a = st := by
  have h1 := djRelax_cond_false dist st a hnp
  simp only [lk, djCost] at hs
  have h2 : (st.seen[a.1]?.join == some (dist + a.2.getD 0)) = false := by simpa using hs
  simp only [djRelax]
  rw [h1, h2]
  simp

/-! ## the invariant -/

/-- the invariant of `dijkstra` once the source has been popped: `S` the settled nodes in pop order, `h` the distance popped last,
    `Dn u a` the adjacency entries already relaxed -/
structure DInv (adjOf : Nat → List Adj) (n source : Nat) (A : Arcs) (Dn : Nat → Adj → Prop) (h : Int)
    (S : List Nat) (D seen : List (Option Int)) (sigma : List Rat) (P : List (List Nat)) (fr : List CNode) : Prop where
  lenD : D.length = n
  lenSeen : seen.length = n
  lenS : sigma.length = n
  lenP : P.length = n
  nd : S.Nodup
  disc : ∀ x, lk D x ≠ none ↔ x ∈ S
  srcD : lk D source = some 0
  dEx : ∀ x d, lk D x = some d → IsDist A source x d
  seenD : ∀ x d, lk D x = some d → lk seen x = some d
  seenW : ∀ x sx, lk seen x = some sx → Walk A source x sx
  ord : S.Pairwise (fun x y => dOf D x ≤ dOf D y)
  hi : ∀ x ∈ S, dOf D x ≤ h
  frLo : ∀ e ∈ fr, h ≤ e.1
  frSeen : ∀ e ∈ fr, ∃ sw, lk seen e.2.2 = some sw ∧ sw ≤ e.1
  liveEx : ∀ w sw, lk D w = none → lk seen w = some sw → ∃ p, (sw, p, w) ∈ fr
  liveOk : ∀ d' p w, (d', p, w) ∈ fr → lk D w = none → lk seen w = some d' →
    p ∈ S ∧ getD0 sigma w + getD0 sigma p = ((gP P w).map (getD0 sigma)).sum
  dnS : ∀ u a, Dn u a → u ∈ S ∧ a ∈ adjOf u
  clo : ∀ u a, Dn u a → ∃ sw, lk seen a.1 = some sw ∧ sw ≤ dOf D u + djCost a
  pIn : ∀ w u, u ∈ gP P w → ∃ a, Dn u a ∧ a.1 = w ∧ lk seen w = some (dOf D u + djCost a)
  pAll : ∀ u a, Dn u a → lk seen a.1 = some (dOf D u + djCost a) → u ∈ gP P a.1
  pNd : ∀ w, (gP P w).Nodup
  sig : ∀ w ∈ S, getD0 sigma w = (if w = source then 2 else 0) + ((gP P w).map (getD0 sigma)).sum
  sPos : ∀ w ∈ S, 0 < getD0 sigma w
  sNonneg : ∀ w, 0 ≤ getD0 sigma w
  sigU : ∀ w, lk seen w = none → getD0 sigma w = 0

section inv
variable {adjOf : Nat → List Adj} {n source : Nat} {A : Arcs}

theorem DInv.congrDn {Dn Dn' : Nat → Adj → Prop} {h : Int} {S : List Nat} {D seen : List (Option Int)} {sigma : List Rat}
    {P : List (List Nat)} {fr : List CNode} (hiff : ∀ u a, Dn u a ↔ Dn' u a)
    (inv : DInv adjOf n source A Dn h S D seen sigma P fr) : DInv adjOf n source A Dn' h S D seen sigma P fr := by
  have : Dn = Dn' := funext fun u => funext fun a => propext (hiff u a)
  rw [← this]; exact inv

theorem DInv.lk_of_mem {Dn : Nat → Adj → Prop} {h : Int} {S : List Nat} {D seen : List (Option Int)} {sigma : List Rat}
    {P : List (List Nat)} {fr : List CNode} (inv : DInv adjOf n source A Dn h S D seen sigma P fr) {x : Nat} (hx : x ∈ S) :
    lk D x = some (dOf D x) := by
  have := (inv.disc x).2 hx
  cases hl : lk D x with
  | none => exact absurd hl this
  | some d => simp [dOf, hl]

theorem DInv.lt_n {Dn : Nat → Adj → Prop} {h : Int} {S : List Nat} {D seen : List (Option Int)} {sigma : List Rat}
    {P : List (List Nat)} {fr : List CNode} (inv : DInv adjOf n source A Dn h S D seen sigma P fr) {x : Nat} (hx : x ∈ S) :
    x < n := by
  rw [← inv.lenD]; exact lk_lt_of_some (inv.lk_of_mem hx)

/-- the predecessors recorded for any node are settled -/
theorem DInv.P_settled {Dn : Nat → Adj → Prop} {h : Int} {S : List Nat} {D seen : List (Option Int)} {sigma : List Rat}
    {P : List (List Nat)} {fr : List CNode} (inv : DInv adjOf n source A Dn h S D seen sigma P fr) {w u : Nat}
    (hu : u ∈ gP P w) : u ∈ S := by
  obtain ⟨a, ha, _, _⟩ := inv.pIn w u hu
  exact (inv.dnS u a ha).1

section step
variable {S : List Nat} {v : Nat} {pre : List Adj} {D seen : List (Option Int)} {sigma : List Rat} {P : List (List Nat)}
  {fr : List CNode}

/-- case "first visit or strictly shorter" -/
theorem DInv.step_push (hA : ArcsOfC adjOf n djCost A)
    (inv : DInv adjOf n source A (rowDn adjOf S v pre) (dOf D v) (S ++ [v]) D seen sigma P fr)
    (a : Adj) (ha : a ∈ adjOf v) (han : a.1 < n) (hc : 0 < djCost a) (hD : lk D a.1 = none)
    (hs : lk seen a.1 = none ∨ ∃ sw, lk seen a.1 = some sw ∧ dOf D v + djCost a < sw) :
    DInv adjOf n source A (rowDn adjOf S v (pre ++ [a])) (dOf D v) (S ++ [v]) D
      (seen.set a.1 (some (dOf D v + djCost a))) (sigma.set a.1 0) (P.set a.1 [v])
      (fr ++ [(dOf D v + djCost a, v, a.1)]) := by
  have hvS : v ∈ S ++ [v] := by simp
  have hvn : v < n := inv.lt_n hvS
  have hlkv : lk D v = some (dOf D v) := inv.lk_of_mem hvS
  have hwS : a.1 ∉ S ++ [v] := fun hin => (inv.disc a.1).2 hin hD
  have hne_S : ∀ x, x ∈ S ++ [v] → a.1 ≠ x := fun x hx e => hwS (e ▸ hx)
  have hwv : a.1 ≠ v := hne_S v hvS
  have hold : ∀ sw, lk seen a.1 = some sw → dOf D v + djCost a < sw := by
    intro sw hsw
    rcases hs with h | ⟨sw', h1, h2⟩
    · rw [h] at hsw; cases hsw
    · rw [h1] at hsw; cases hsw; exact h2
  have hSlen : a.1 < seen.length := by rw [inv.lenSeen]; exact han
  have hsglen : a.1 < sigma.length := by rw [inv.lenS]; exact han
  have hPlen : a.1 < P.length := by rw [inv.lenP]; exact han
  have hgP_self : gP (P.set a.1 [v]) a.1 = [v] := gP_set_self _ _ _ hPlen
  have hsig_of_S : ∀ x, x ∈ S ++ [v] → getD0 (sigma.set a.1 0) x = getD0 sigma x :=
    fun x hx => getD0_set_ne _ _ _ _ (hne_S x hx)
  have hsum : ∀ w', (gP P w').map (getD0 (sigma.set a.1 0)) = (gP P w').map (getD0 sigma) := by
    intro w'
    apply List.map_congr_left
    intro u hu
    exact hsig_of_S u (inv.P_settled hu)
  -- old entries for `w` are strictly worse than the new label
  have hfr_w : ∀ e ∈ fr, e.2.2 = a.1 → dOf D v + djCost a < e.1 := by
    intro e he hew
    obtain ⟨sw, h1, h2⟩ := inv.frSeen e he
    rw [hew] at h1
    have := hold sw h1
    omega
  refine
    { lenD := inv.lenD
      lenSeen := by rw [List.length_set]; exact inv.lenSeen
      lenS := by rw [List.length_set]; exact inv.lenS
      lenP := by rw [List.length_set]; exact inv.lenP
      nd := inv.nd, disc := inv.disc, srcD := inv.srcD, dEx := inv.dEx
      seenD := ?_, seenW := ?_, ord := inv.ord, hi := inv.hi, frLo := ?_, frSeen := ?_, liveEx := ?_, liveOk := ?_
      dnS := ?_, clo := ?_, pIn := ?_, pAll := ?_, pNd := ?_, sig := ?_, sPos := ?_, sNonneg := ?_, sigU := ?_ }
  · -- seenD
    intro x d hx
    have hxS : x ∈ S ++ [v] := (inv.disc x).1 (by rw [hx]; simp)
    rw [lk_set_ne _ _ _ _ (hne_S x hxS)]
    exact inv.seenD x d hx
  · -- seenW
    intro x sx hx
    by_cases e : a.1 = x
    · subst e
      rw [lk_set_self _ _ _ hSlen] at hx
      cases hx
      exact Walk.snoc (inv.dEx v _ hlkv).1 ((hA v a.1 (djCost a)).2 ⟨hvn, a, ha, rfl, rfl⟩)
    · rw [lk_set_ne _ _ _ _ e] at hx
      exact inv.seenW x sx hx
  · -- frLo
    intro e he
    rcases List.mem_append.1 he with he | he
    · exact inv.frLo e he
    · simp at he; subst he; simp only; omega
  · -- frSeen
    intro e he
    rcases List.mem_append.1 he with he | he
    · by_cases hew : e.2.2 = a.1
      · rw [hew, lk_set_self _ _ _ hSlen]
        exact ⟨_, rfl, Int.le_of_lt (hfr_w e he hew)⟩
      · rw [lk_set_ne _ _ _ _ (fun h => hew h.symm)]
        exact inv.frSeen e he
    · simp at he; subst he
      simp only
      rw [lk_set_self _ _ _ hSlen]
      exact ⟨_, rfl, Int.le_refl _⟩
  · -- liveEx
    intro w sw hDw hsw
    by_cases e : a.1 = w
    · subst e
      rw [lk_set_self _ _ _ hSlen] at hsw
      cases hsw
      exact ⟨v, by simp⟩
    · rw [lk_set_ne _ _ _ _ e] at hsw
      obtain ⟨p, hp⟩ := inv.liveEx w sw hDw hsw
      exact ⟨p, List.mem_append_left _ hp⟩
  · -- liveOk
    intro d' p w he hDw hsw
    rcases List.mem_append.1 he with he | he
    · by_cases e : a.1 = w
      · subst e
        rw [lk_set_self _ _ _ hSlen] at hsw
        cases hsw
        have := hfr_w _ he rfl
        simp only at this
        omega
      · rw [lk_set_ne _ _ _ _ e] at hsw
        obtain ⟨h1, h2⟩ := inv.liveOk d' p w he hDw hsw
        refine ⟨h1, ?_⟩
        rw [getD0_set_ne _ _ _ _ e, hsig_of_S p h1, gP_set_ne _ _ _ _ e, hsum w]
        exact h2
    · simp at he
      obtain ⟨rfl, rfl, rfl⟩ := he
      refine ⟨hvS, ?_⟩
      rw [hgP_self, getD0_set_self _ _ _ hsglen]
      simp
  · -- dnS
    intro u b hdn
    rcases rowDn_snoc hdn with h1 | ⟨h1, h2⟩
    · exact inv.dnS u b h1
    · subst h1; subst h2; exact ⟨hvS, ha⟩
  · -- clo
    intro u b hdn
    rcases rowDn_snoc hdn with h1 | ⟨h1, h2⟩
    · obtain ⟨sw, e1, e2⟩ := inv.clo u b h1
      by_cases e : a.1 = b.1
      · rw [← e, lk_set_self _ _ _ hSlen]
        rw [← e] at e1
        have := hold sw e1
        exact ⟨_, rfl, by omega⟩
      · rw [lk_set_ne _ _ _ _ e]
        exact ⟨sw, e1, e2⟩
    · subst h1; subst h2
      rw [lk_set_self _ _ _ hSlen]
      exact ⟨_, rfl, Int.le_refl _⟩
  · -- pIn
    intro w u hu
    by_cases e : a.1 = w
    · subst e
      rw [hgP_self] at hu
      simp at hu; subst hu
      exact ⟨a, Or.inr ⟨rfl, by simp⟩, rfl, lk_set_self _ _ _ hSlen⟩
    · rw [gP_set_ne _ _ _ _ e] at hu
      obtain ⟨b, hb, hb1, hb2⟩ := inv.pIn w u hu
      exact ⟨b, rowDn_mono hb, hb1, by rw [lk_set_ne _ _ _ _ e]; exact hb2⟩
  · -- pAll
    intro u b hdn hl
    rcases rowDn_snoc hdn with h1 | ⟨h1, h2⟩
    · by_cases e : a.1 = b.1
      · exfalso
        rw [← e, lk_set_self _ _ _ hSlen] at hl
        obtain ⟨sw, e1, e2⟩ := inv.clo u b h1
        rw [← e] at e1
        have := hold sw e1
        have : dOf D v + djCost a = dOf D u + djCost b := by simpa using hl
        omega
      · rw [lk_set_ne _ _ _ _ e] at hl
        rw [gP_set_ne _ _ _ _ e]
        exact inv.pAll u b h1 hl
    · subst h1; subst h2
      rw [hgP_self]; simp
  · -- pNd
    intro w
    by_cases e : a.1 = w
    · subst e; rw [hgP_self]; simp
    · rw [gP_set_ne _ _ _ _ e]; exact inv.pNd w
  · -- sig
    intro w hw
    have e := hne_S w hw
    rw [getD0_set_ne _ _ _ _ e, gP_set_ne _ _ _ _ e, hsum w]
    exact inv.sig w hw
  · -- sPos
    intro w hw
    rw [hsig_of_S w hw]; exact inv.sPos w hw
  · -- sNonneg
    intro w
    by_cases e : a.1 = w
    · subst e; rw [getD0_set_self _ _ _ hsglen]
    · rw [getD0_set_ne _ _ _ _ e]; exact inv.sNonneg w
  · -- sigU
    intro w hw
    by_cases e : a.1 = w
    · subst e; rw [getD0_set_self _ _ _ hsglen]
    · rw [lk_set_ne _ _ _ _ e] at hw
      rw [getD0_set_ne _ _ _ _ e]; exact inv.sigU w hw

/-- a settled node's label is not larger than the level -/
theorem DInv.settled_seen_le (inv : DInv adjOf n source A (rowDn adjOf S v pre) (dOf D v) (S ++ [v]) D seen sigma P fr)
    {w : Nat} (hw : lk D w ≠ none) : ∃ sw, lk seen w = some sw ∧ sw ≤ dOf D v := by
  have hwS := (inv.disc w).1 hw
  have hl := inv.lk_of_mem hwS
  exact ⟨dOf D w, inv.seenD w _ hl, inv.hi w hwS⟩

/-- case "another path of the same length" -/
theorem DInv.step_equal
    (inv : DInv adjOf n source A (rowDn adjOf S v pre) (dOf D v) (S ++ [v]) D seen sigma P fr)
    (a : Adj) (ha : a ∈ adjOf v) (hc : 0 < djCost a) (hfresh : a.1 ≠ v → ∀ b ∈ pre, b.1 ≠ a.1)
    (hs : lk seen a.1 = some (dOf D v + djCost a)) :
    DInv adjOf n source A (rowDn adjOf S v (pre ++ [a])) (dOf D v) (S ++ [v]) D seen
      (sigma.set a.1 (getD0 sigma a.1 + getD0 sigma v)) (P.set a.1 (gP P a.1 ++ [v])) fr := by
  have hvS : v ∈ S ++ [v] := by simp
  have hlkv : lk D v = some (dOf D v) := inv.lk_of_mem hvS
  -- `w` is not settled: a settled label does not exceed the level
  have hD : lk D a.1 = none := by
    cases hl : lk D a.1 with
    | none => rfl
    | some d =>
      exfalso
      obtain ⟨sw, h1, h2⟩ := inv.settled_seen_le (w := a.1) (by rw [hl]; simp)
      rw [hs] at h1; cases h1; omega
  have hwS : a.1 ∉ S ++ [v] := fun hin => (inv.disc a.1).2 hin hD
  have hne_S : ∀ x, x ∈ S ++ [v] → a.1 ≠ x := fun x hx e => hwS (e ▸ hx)
  have hwv : a.1 ≠ v := hne_S v hvS
  have han : a.1 < n := by rw [← inv.lenSeen]; exact lk_lt_of_some hs
  have hsglen : a.1 < sigma.length := by rw [inv.lenS]; exact han
  have hPlen : a.1 < P.length := by rw [inv.lenP]; exact han
  have hsig_of_S : ∀ x, x ∈ S ++ [v] → getD0 (sigma.set a.1 (getD0 sigma a.1 + getD0 sigma v)) x = getD0 sigma x :=
    fun x hx => getD0_set_ne _ _ _ _ (hne_S x hx)
  have hsum : ∀ w', (gP P w').map (getD0 (sigma.set a.1 (getD0 sigma a.1 + getD0 sigma v))) = (gP P w').map (getD0 sigma) := by
    intro w'
    apply List.map_congr_left
    intro u hu
    exact hsig_of_S u (inv.P_settled hu)
  have hvnot : v ∉ gP P a.1 := by
    intro hin
    obtain ⟨b, hb, hb1, _⟩ := inv.pIn a.1 v hin
    rcases hb with ⟨h1, _⟩ | ⟨_, h2⟩
    · have := inv.nd
      rw [List.nodup_append] at this
      exact this.2.2 v h1 v (by simp) rfl
    · exact hfresh hwv b h2 hb1
  refine
    { lenD := inv.lenD, lenSeen := inv.lenSeen
      lenS := by rw [List.length_set]; exact inv.lenS
      lenP := by rw [List.length_set]; exact inv.lenP
      nd := inv.nd, disc := inv.disc, srcD := inv.srcD, dEx := inv.dEx
      seenD := inv.seenD, seenW := inv.seenW, ord := inv.ord, hi := inv.hi, frLo := inv.frLo, frSeen := inv.frSeen
      liveEx := inv.liveEx, liveOk := ?_
      dnS := ?_, clo := ?_, pIn := ?_, pAll := ?_, pNd := ?_, sig := ?_, sPos := ?_, sNonneg := ?_, sigU := ?_ }
  · -- liveOk
    intro d' p w he hDw hsw
    obtain ⟨h1, h2⟩ := inv.liveOk d' p w he hDw hsw
    refine ⟨h1, ?_⟩
    by_cases e : a.1 = w
    · subst e
      rw [getD0_set_self _ _ _ hsglen, hsig_of_S p h1, gP_set_self _ _ _ hPlen, List.map_append, List.sum_append, hsum a.1]
      simp only [List.map_cons, List.map_nil, List.sum_cons, List.sum_nil, hsig_of_S v hvS]
      rw [← h2]; ring
    · rw [getD0_set_ne _ _ _ _ e, hsig_of_S p h1, gP_set_ne _ _ _ _ e, hsum w]
      exact h2
  · -- dnS
    intro u b hdn
    rcases rowDn_snoc hdn with h1 | ⟨h1, h2⟩
    · exact inv.dnS u b h1
    · subst h1; subst h2; exact ⟨hvS, ha⟩
  · -- clo
    intro u b hdn
    rcases rowDn_snoc hdn with h1 | ⟨h1, h2⟩
    · exact inv.clo u b h1
    · subst h1; subst h2
      exact ⟨_, hs, Int.le_refl _⟩
  · -- pIn
    intro w u hu
    by_cases e : a.1 = w
    · subst e
      rw [gP_set_self _ _ _ hPlen, List.mem_append] at hu
      rcases hu with hu | hu
      · obtain ⟨b, hb, hb1, hb2⟩ := inv.pIn a.1 u hu
        exact ⟨b, rowDn_mono hb, hb1, hb2⟩
      · simp at hu; subst hu
        exact ⟨a, Or.inr ⟨rfl, by simp⟩, rfl, hs⟩
    · rw [gP_set_ne _ _ _ _ e] at hu
      obtain ⟨b, hb, hb1, hb2⟩ := inv.pIn w u hu
      exact ⟨b, rowDn_mono hb, hb1, hb2⟩
  · -- pAll
    intro u b hdn hl
    rcases rowDn_snoc hdn with h1 | ⟨h1, h2⟩
    · have := inv.pAll u b h1 hl
      by_cases e : a.1 = b.1
      · rw [← e, gP_set_self _ _ _ hPlen]; rw [← e] at this; exact List.mem_append_left _ this
      · rw [gP_set_ne _ _ _ _ e]; exact this
    · subst h1; subst h2
      rw [gP_set_self _ _ _ hPlen]; simp
  · -- pNd
    intro w
    by_cases e : a.1 = w
    · subst e
      rw [gP_set_self _ _ _ hPlen, List.nodup_append]
      refine ⟨inv.pNd a.1, by simp, ?_⟩
      intro x hx y hy
      simp at hy; subst hy
      exact fun e => hvnot (e ▸ hx)
    · rw [gP_set_ne _ _ _ _ e]; exact inv.pNd w
  · -- sig
    intro w hw
    have e := hne_S w hw
    rw [getD0_set_ne _ _ _ _ e, gP_set_ne _ _ _ _ e, hsum w]
    exact inv.sig w hw
  · -- sPos
    intro w hw
    rw [hsig_of_S w hw]; exact inv.sPos w hw
  · -- sNonneg
    intro w
    by_cases e : a.1 = w
    · subst e
      rw [getD0_set_self _ _ _ hsglen]
      have h1 := inv.sNonneg a.1
      have h2 := inv.sNonneg v
      linarith
    · rw [getD0_set_ne _ _ _ _ e]; exact inv.sNonneg w
  · -- sigU
    intro w hw
    have e : a.1 ≠ w := by intro e; subst e; rw [hs] at hw; cases hw
    rw [getD0_set_ne _ _ _ _ e]; exact inv.sigU w hw

/-- case "not a shortest-path arc (so far)" -/
theorem DInv.step_skip
    (inv : DInv adjOf n source A (rowDn adjOf S v pre) (dOf D v) (S ++ [v]) D seen sigma P fr)
    (a : Adj) (ha : a ∈ adjOf v) (hc : 0 < djCost a)
    (hnp : lk D a.1 ≠ none ∨ ∃ sw, lk seen a.1 = some sw ∧ ¬ dOf D v + djCost a < sw)
    (hs : lk seen a.1 ≠ some (dOf D v + djCost a)) :
    DInv adjOf n source A (rowDn adjOf S v (pre ++ [a])) (dOf D v) (S ++ [v]) D seen sigma P fr := by
  have hvS : v ∈ S ++ [v] := by simp
  refine
    { lenD := inv.lenD, lenSeen := inv.lenSeen, lenS := inv.lenS, lenP := inv.lenP
      nd := inv.nd, disc := inv.disc, srcD := inv.srcD, dEx := inv.dEx
      seenD := inv.seenD, seenW := inv.seenW, ord := inv.ord, hi := inv.hi, frLo := inv.frLo, frSeen := inv.frSeen
      liveEx := inv.liveEx, liveOk := inv.liveOk
      dnS := ?_, clo := ?_, pIn := ?_, pAll := ?_, pNd := inv.pNd, sig := inv.sig, sPos := inv.sPos
      sNonneg := inv.sNonneg, sigU := inv.sigU }
  · intro u b hdn
    rcases rowDn_snoc hdn with h1 | ⟨h1, h2⟩
    · exact inv.dnS u b h1
    · subst h1; subst h2; exact ⟨hvS, ha⟩
  · intro u b hdn
    rcases rowDn_snoc hdn with h1 | ⟨h1, h2⟩
    · exact inv.clo u b h1
    · subst h1; subst h2
      rcases hnp with h | ⟨sw, h1, h2⟩
      · obtain ⟨sw, e1, e2⟩ := inv.settled_seen_le h
        exact ⟨sw, e1, by omega⟩
      · exact ⟨sw, h1, by omega⟩
  · intro w u hu
    obtain ⟨b, hb, hb1, hb2⟩ := inv.pIn w u hu
    exact ⟨b, rowDn_mono hb, hb1, hb2⟩
  · intro u b hdn hl
    rcases rowDn_snoc hdn with h1 | ⟨h1, h2⟩
    · exact inv.pAll u b h1 hl
    · subst h1; subst h2
      exact absurd hl hs

end step


/-- one iteration of the `for adj in successors` loop preserves the invariant -/
theorem DInv.relax (hA : ArcsOfC adjOf n djCost A) {S : List Nat} {v : Nat} {pre : List Adj} (st : BState)
    (hS : st.S = S ++ [v])
    (inv : DInv adjOf n source A (rowDn adjOf S v pre) (dOf st.D v) (S ++ [v]) st.D st.seen st.sigma st.P st.fringe)
    (a : Adj) (ha : a ∈ adjOf v) (han : a.1 < n) (hc : 0 < djCost a) (hfresh : a.1 ≠ v → ∀ b ∈ pre, b.1 ≠ a.1) :
    (djRelax v (dOf st.D v) st a).S = S ++ [v] ∧ (djRelax v (dOf st.D v) st a).D = st.D ∧
    DInv adjOf n source A (rowDn adjOf S v (pre ++ [a])) (dOf st.D v) (S ++ [v]) (djRelax v (dOf st.D v) st a).D
      (djRelax v (dOf st.D v) st a).seen (djRelax v (dOf st.D v) st a).sigma (djRelax v (dOf st.D v) st a).P
      (djRelax v (dOf st.D v) st a).fringe ∧
    (djRelax v (dOf st.D v) st a).fringe.length ≤ st.fringe.length + 1 := by
  by_cases hpush : lk st.D a.1 = none ∧
      (lk st.seen a.1 = none ∨ ∃ sw, lk st.seen a.1 = some sw ∧ dOf st.D v + djCost a < sw)
  · rw [djRelax_push v _ st a hpush.1 hpush.2]
    exact ⟨hS, rfl, inv.step_push hA a ha han hc hpush.1 hpush.2, by simp⟩
  · have hnp : lk st.D a.1 ≠ none ∨ ∃ sw, lk st.seen a.1 = some sw ∧ ¬ dOf st.D v + djCost a < sw := by
      by_cases hD : lk st.D a.1 = none
      · right
        cases hsn : lk st.seen a.1 with
        | none => exact absurd ⟨hD, Or.inl hsn⟩ hpush
        | some sw => exact ⟨sw, rfl, fun hlt => hpush ⟨hD, Or.inr ⟨sw, hsn, hlt⟩⟩⟩
      · exact Or.inl hD
    by_cases hs : lk st.seen a.1 = some (dOf st.D v + djCost a)
    · rw [djRelax_equal v _ st a hnp hs]
      exact ⟨hS, rfl, inv.step_equal a ha hc hfresh hs, by simp⟩
    · rw [djRelax_skip v _ st a hnp hs]
      exact ⟨hS, rfl, inv.step_skip a ha hc hnp hs, by simp⟩

/-- the whole `for adj in successors` loop -/
theorem DInv.row (hA : ArcsOfC adjOf n djCost A) {S : List Nat} {v : Nat}
    (hidx : ∀ a ∈ adjOf v, a.1 < n) (hpos : ∀ a ∈ adjOf v, 0 < djCost a)
    (hnd : (((adjOf v).map (fun a => a.1)).filter (fun j => j != v)).Nodup) :
    ∀ (rest pre : List Adj) (st : BState), adjOf v = pre ++ rest → st.S = S ++ [v] →
      DInv adjOf n source A (rowDn adjOf S v pre) (dOf st.D v) (S ++ [v]) st.D st.seen st.sigma st.P st.fringe →
      (rest.foldl (djRelax v (dOf st.D v)) st).S = S ++ [v] ∧ (rest.foldl (djRelax v (dOf st.D v)) st).D = st.D ∧
      DInv adjOf n source A (rowDn adjOf S v (adjOf v)) (dOf st.D v) (S ++ [v]) (rest.foldl (djRelax v (dOf st.D v)) st).D
        (rest.foldl (djRelax v (dOf st.D v)) st).seen (rest.foldl (djRelax v (dOf st.D v)) st).sigma
        (rest.foldl (djRelax v (dOf st.D v)) st).P (rest.foldl (djRelax v (dOf st.D v)) st).fringe ∧
      (rest.foldl (djRelax v (dOf st.D v)) st).fringe.length ≤ st.fringe.length + rest.length := by
  intro rest
  induction rest with
  | nil =>
    intro pre st hsplit hS inv
    rw [List.append_nil] at hsplit
    rw [hsplit]
    exact ⟨hS, rfl, inv, by simp⟩
  | cons a rest ih =>
    intro pre st hsplit hS inv
    have ha : a ∈ adjOf v := by rw [hsplit]; simp
    obtain ⟨h1, h2, h3, h4⟩ := inv.relax hA st hS a ha (hidx a ha) (hpos a ha)
      (fun hav => fresh_of_nodup (by rw [← hsplit]; exact hnd) hav)
    rw [List.foldl_cons]
    have h3' : DInv adjOf n source A (rowDn adjOf S v (pre ++ [a])) (dOf (djRelax v (dOf st.D v) st a).D v) (S ++ [v])
        (djRelax v (dOf st.D v) st a).D (djRelax v (dOf st.D v) st a).seen (djRelax v (dOf st.D v) st a).sigma
        (djRelax v (dOf st.D v) st a).P (djRelax v (dOf st.D v) st a).fringe := by
      rw [h2] at h3 ⊢; exact h3
    obtain ⟨g1, g2, g3, g4⟩ := ih (pre ++ [a]) (djRelax v (dOf st.D v) st a) (by rw [hsplit]; simp) h1 h3'
    rw [h2] at g1 g2 g3 g4
    refine ⟨g1, g2, g3, ?_⟩
    simp only [List.length_cons]; omega

/-! ## the outer loop -/

/-- every walk from the source ends in a settled node with a label below its cost, or is undercut by a fringe entry -/
theorem DInv.lower (hA : ArcsOfC adjOf n djCost A) (hpos : PosArcs A)
    {h : Int} {S : List Nat} {D seen : List (Option Int)} {sigma : List Rat} {P : List (List Nat)} {fr : List CNode}
    (inv : DInv adjOf n source A (mainDn adjOf S) h S D seen sigma P fr) :
    ∀ x c, Walk A source x c → (∃ d, lk D x = some d ∧ d ≤ c) ∨ (∃ e ∈ fr, e.1 ≤ c) := by
  intro x c hw
  induction hw with
  | nil => exact Or.inl ⟨0, inv.srcD, Int.le_refl _⟩
  | snoc hw' harc ih =>
    rename_i u x c' w
    have hwpos : 0 < w := hpos _ harc
    obtain ⟨_, a, ha, hax, hcost⟩ := (hA u x w).1 harc
    rcases ih with ⟨du, hdu, hle⟩ | ⟨e, he, hle⟩
    · have huS : u ∈ S := (inv.disc u).1 (by rw [hdu]; simp)
      obtain ⟨sw, h1, h2⟩ := inv.clo u a ⟨huS, ha⟩
      rw [hax] at h1
      rw [dOf_of_lk hdu, hcost] at h2
      cases hl : lk D x with
      | some d =>
        have := inv.seenD x d hl
        rw [h1] at this; cases this
        exact Or.inl ⟨sw, rfl, by omega⟩
      | none =>
        obtain ⟨p, hp⟩ := inv.liveEx x sw hl h1
        exact Or.inr ⟨_, hp, by simp only; omega⟩
    · exact Or.inr ⟨e, he, by omega⟩

/-- popping an entry of a settled node changes nothing -/
theorem DInv.pop_stale {Dn : Nat → Adj → Prop} {h : Int} {S : List Nat} {D seen : List (Option Int)} {sigma : List Rat}
    {P : List (List Nat)} {fr : List CNode} (inv : DInv adjOf n source A Dn h S D seen sigma P fr)
    (b : CNode) (hD : lk D b.2.2 ≠ none) : DInv adjOf n source A Dn h S D seen sigma P (fr.erase b) := by
  refine
    { lenD := inv.lenD, lenSeen := inv.lenSeen, lenS := inv.lenS, lenP := inv.lenP
      nd := inv.nd, disc := inv.disc, srcD := inv.srcD, dEx := inv.dEx
      seenD := inv.seenD, seenW := inv.seenW, ord := inv.ord, hi := inv.hi
      frLo := fun e he => inv.frLo e (List.mem_of_mem_erase he)
      frSeen := fun e he => inv.frSeen e (List.mem_of_mem_erase he)
      liveEx := ?_
      liveOk := fun d' p w he => inv.liveOk d' p w (List.mem_of_mem_erase he)
      dnS := inv.dnS, clo := inv.clo, pIn := inv.pIn, pAll := inv.pAll, pNd := inv.pNd, sig := inv.sig, sPos := inv.sPos
      sNonneg := inv.sNonneg, sigU := inv.sigU }
  intro w sw hDw hsw
  obtain ⟨p, hp⟩ := inv.liveEx w sw hDw hsw
  refine ⟨p, (List.mem_erase_of_ne ?_).2 hp⟩
  intro e
  apply hD
  rw [← e]; exact hDw

/-- popping the minimum entry of an unsettled node settles it at its exact distance -/
theorem DInv.pop_fresh (hA : ArcsOfC adjOf n djCost A) (hpos : PosArcs A)
    {h : Int} {S : List Nat} {D seen : List (Option Int)} {sigma : List Rat} {P : List (List Nat)} {fr : List CNode}
    (inv : DInv adjOf n source A (mainDn adjOf S) h S D seen sigma P fr)
    (dist : Int) (pred v : Nat) (hb : (dist, pred, v) ∈ fr) (hmin : ∀ y ∈ fr, dist ≤ y.1) (hD : lk D v = none) :
    v < n ∧
    DInv adjOf n source A (rowDn adjOf S v []) dist (S ++ [v]) (D.set v (some dist)) seen
      (sigma.set v (getD0 sigma v + getD0 sigma pred)) P (fr.erase (dist, pred, v)) := by
  -- the popped distance is the label of `v`
  obtain ⟨sw, hsw, hle⟩ := inv.frSeen _ hb
  simp only at hsw hle
  obtain ⟨p, hp⟩ := inv.liveEx v sw hD hsw
  have hds : dist = sw := by have := hmin _ hp; simp only at this; omega
  subst hds
  obtain ⟨hpredS, hsigv⟩ := inv.liveOk dist pred v hb hD hsw
  have hvn : v < n := by rw [← inv.lenSeen]; exact lk_lt_of_some hsw
  have hvS : v ∉ S := fun hin => (inv.disc v).2 hin hD
  have hne_S : ∀ x, x ∈ S → v ≠ x := fun x hx e => hvS (e ▸ hx)
  have hDlen : v < D.length := by rw [inv.lenD]; exact hvn
  have hsglen : v < sigma.length := by rw [inv.lenS]; exact hvn
  -- exactness
  have hexact : IsDist A source v dist := by
    refine ⟨inv.seenW v dist hsw, fun c hc => ?_⟩
    rcases inv.lower hA hpos v c hc with ⟨d, hd, _⟩ | ⟨e, he, hle'⟩
    · rw [hD] at hd; cases hd
    · have := hmin e he; omega
  have hvsrc : v ≠ source := by intro e; rw [e, inv.srcD] at hD; cases hD
  have hlk : ∀ x, x ≠ v → lk (D.set v (some dist)) x = lk D x := fun x hx => lk_set_ne _ _ _ _ (fun e => hx e.symm)
  have hdOf : ∀ x, x ∈ S → dOf (D.set v (some dist)) x = dOf D x := fun x hx => dOf_set_ne _ _ _ _ (hne_S x hx)
  have hdv : dOf (D.set v (some dist)) v = dist := dOf_of_lk (lk_set_self _ _ _ hDlen)
  have hsig_of_S : ∀ x, x ∈ S → getD0 (sigma.set v (getD0 sigma v + getD0 sigma pred)) x = getD0 sigma x :=
    fun x hx => getD0_set_ne _ _ _ _ (hne_S x hx)
  have hsum : ∀ w', (gP P w').map (getD0 (sigma.set v (getD0 sigma v + getD0 sigma pred))) = (gP P w').map (getD0 sigma) := by
    intro w'
    apply List.map_congr_left
    intro u hu
    exact hsig_of_S u (inv.P_settled hu)
  have hhdist : h ≤ dist := inv.frLo _ hb
  refine ⟨hvn, ?_⟩
  refine
    { lenD := by rw [List.length_set]; exact inv.lenD
      lenSeen := inv.lenSeen
      lenS := by rw [List.length_set]; exact inv.lenS
      lenP := inv.lenP
      nd := ?_, disc := ?_, srcD := ?_, dEx := ?_, seenD := ?_, seenW := inv.seenW, ord := ?_, hi := ?_
      frLo := fun e he => hmin e (List.mem_of_mem_erase he)
      frSeen := fun e he => inv.frSeen e (List.mem_of_mem_erase he)
      liveEx := ?_, liveOk := ?_, dnS := ?_, clo := ?_, pIn := ?_, pAll := ?_, pNd := inv.pNd
      sig := ?_, sPos := ?_, sNonneg := ?_, sigU := ?_ }
  · -- nd
    rw [List.nodup_append]
    refine ⟨inv.nd, by simp, ?_⟩
    intro x hx y hy
    simp at hy; subst hy
    exact fun e => hvS (e ▸ hx)
  · -- disc
    intro x
    rw [List.mem_append]
    by_cases e : x = v
    · subst e; rw [lk_set_self _ _ _ hDlen]; simp
    · rw [hlk x e, inv.disc x]
      constructor
      · exact Or.inl
      · rintro (h1 | h1)
        · exact h1
        · simp at h1; exact absurd h1 e
  · rw [hlk source (fun e => hvsrc e.symm)]; exact inv.srcD
  · -- dEx
    intro x d hx
    by_cases e : x = v
    · subst e
      rw [lk_set_self _ _ _ hDlen] at hx; cases hx; exact hexact
    · rw [hlk x e] at hx; exact inv.dEx x d hx
  · -- seenD
    intro x d hx
    by_cases e : x = v
    · subst e
      rw [lk_set_self _ _ _ hDlen] at hx; cases hx; exact hsw
    · rw [hlk x e] at hx; exact inv.seenD x d hx
  · -- ord
    rw [List.pairwise_append]
    refine ⟨?_, by simp, ?_⟩
    · refine inv.ord.imp_of_mem ?_
      intro x y hx hy hxy
      rw [hdOf x hx, hdOf y hy]; exact hxy
    · intro x hx y hy
      simp at hy; subst hy
      rw [hdOf x hx, hdv]
      have := inv.hi x hx
      omega
  · -- hi
    intro x hx
    rcases List.mem_append.1 hx with hx | hx
    · rw [hdOf x hx]; have := inv.hi x hx; omega
    · simp at hx; subst hx; rw [hdv]
  · -- liveEx
    intro w sw' hDw hsw'
    have hwv : w ≠ v := by intro e; subst e; rw [lk_set_self _ _ _ hDlen] at hDw; cases hDw
    rw [hlk w hwv] at hDw
    obtain ⟨p', hp'⟩ := inv.liveEx w sw' hDw hsw'
    refine ⟨p', (List.mem_erase_of_ne ?_).2 hp'⟩
    intro e
    have : w = v := by injection e with _ e2; injection e2
    exact hwv this
  · -- liveOk
    intro d' p' w he hDw hsw'
    have hwv : w ≠ v := by intro e; subst e; rw [lk_set_self _ _ _ hDlen] at hDw; cases hDw
    rw [hlk w hwv] at hDw
    obtain ⟨h1, h2⟩ := inv.liveOk d' p' w (List.mem_of_mem_erase he) hDw hsw'
    refine ⟨List.mem_append_left _ h1, ?_⟩
    rw [getD0_set_ne _ _ _ _ (fun e => hwv e.symm), hsig_of_S p' h1, hsum w]
    exact h2
  · -- dnS
    rintro u a (⟨h1, h2⟩ | ⟨_, h2⟩)
    · exact ⟨List.mem_append_left _ h1, h2⟩
    · cases h2
  · -- clo
    rintro u a (⟨h1, h2⟩ | ⟨_, h2⟩)
    · rw [hdOf u h1]; exact inv.clo u a ⟨h1, h2⟩
    · cases h2
  · -- pIn
    intro w u hu
    obtain ⟨a, ha, h1, h2⟩ := inv.pIn w u hu
    exact ⟨a, Or.inl ha, h1, by rw [hdOf u ha.1]; exact h2⟩
  · -- pAll
    rintro u a (⟨h1, h2⟩ | ⟨_, h2⟩) hl
    · rw [hdOf u h1] at hl; exact inv.pAll u a ⟨h1, h2⟩ hl
    · cases h2
  · -- sig
    intro w hw
    rcases List.mem_append.1 hw with hw | hw
    · rw [hsig_of_S w hw, hsum w]; exact inv.sig w hw
    · simp at hw; subst hw
      rw [getD0_set_self _ _ _ hsglen, hsum w, if_neg hvsrc, zero_add]
      exact hsigv
  · -- sPos
    intro w hw
    rcases List.mem_append.1 hw with hw | hw
    · rw [hsig_of_S w hw]; exact inv.sPos w hw
    · simp at hw; subst hw
      rw [getD0_set_self _ _ _ hsglen]
      have h1 := inv.sNonneg w
      have h2 := inv.sPos pred hpredS
      linarith
  · -- sNonneg
    intro w
    by_cases e : v = w
    · subst e
      rw [getD0_set_self _ _ _ hsglen]
      have h1 := inv.sNonneg v
      have h2 := inv.sNonneg pred
      linarith
    · rw [getD0_set_ne _ _ _ _ e]; exact inv.sNonneg w
  · -- sigU
    intro w hw
    have e : v ≠ w := by intro e; subst e; rw [hsw] at hw; cases hw
    rw [getD0_set_ne _ _ _ _ e]; exact inv.sigU w hw

theorem DInv.end_row {h : Int} {S : List Nat} {v : Nat} {D seen : List (Option Int)} {sigma : List Rat} {P : List (List Nat)}
    {fr : List CNode} (inv : DInv adjOf n source A (rowDn adjOf S v (adjOf v)) h (S ++ [v]) D seen sigma P fr) :
    DInv adjOf n source A (mainDn adjOf (S ++ [v])) h (S ++ [v]) D seen sigma P fr := by
  refine inv.congrDn ?_
  intro u a
  constructor
  · rintro (⟨h1, h2⟩ | ⟨h1, h2⟩)
    · exact ⟨List.mem_append_left _ h1, h2⟩
    · subst h1; exact ⟨by simp, h2⟩
  · rintro ⟨h1, h2⟩
    rcases List.mem_append.1 h1 with h1 | h1
    · exact Or.inl ⟨h1, h2⟩
    · simp at h1; subst h1; exact Or.inr ⟨rfl, h2⟩

/-! ### fuel -/

/-- the adjacency entries of the nodes not settled yet -/
def pendN (adjOf : Nat → List Adj) (n : Nat) (D : List (Option Int)) : Nat :=
  ((List.range n).map fun u => if lk D u = none then (adjOf u).length else 0).sum

theorem sum_update_zero (L : List Nat) (hL : L.Nodup) (v : Nat) (hv : v ∈ L) (f g : Nat → Nat)
    (hg : ∀ u, u ≠ v → g u = f u) (hgv : g v = 0) : (L.map g).sum + f v = (L.map f).sum := by
  induction L with
  | nil => cases hv
  | cons a L ih =>
    rw [List.nodup_cons] at hL
    simp only [List.map_cons, List.sum_cons]
    by_cases e : a = v
    · subst e
      have : L.map g = L.map f := List.map_congr_left (fun u hu => hg u (fun e => hL.1 (e ▸ hu)))
      rw [hgv, this]; omega
    · have hvL : v ∈ L := by
        rcases List.mem_cons.1 hv with h | h
        · exact absurd h.symm e
        · exact h
      have := ih hL.2 hvL
      rw [hg a e]; omega

theorem pendN_set (adjOf : Nat → List Adj) (n : Nat) (D : List (Option Int)) (v : Nat) (d : Int) (hv : v < n)
    (hlen : D.length = n) (hD : lk D v = none) :
    pendN adjOf n (D.set v (some d)) + (adjOf v).length = pendN adjOf n D := by
  unfold pendN
  have := sum_update_zero (List.range n) List.nodup_range v (List.mem_range.2 hv)
    (fun u => if lk D u = none then (adjOf u).length else 0)
    (fun u => if lk (D.set v (some d)) u = none then (adjOf u).length else 0)
    (by intro u hu; show (if lk (D.set v (some d)) u = none then _ else _) = _; rw [lk_set_ne _ _ _ _ (fun e => hu e.symm)])
    (by show (if lk (D.set v (some d)) v = none then _ else _) = _; rw [lk_set_self _ _ _ (by rw [hlen]; exact hv)]; simp)
  simp only [hD, if_true] at this
  exact this

/-- **the Dijkstra loop**: with enough fuel it stops with an empty fringe, the invariant holding -/
theorem dijkstraLoop_inv (hA : ArcsOfC adjOf n djCost A) (hposA : PosArcs A)
    (hidx : ∀ v, v < n → ∀ a ∈ adjOf v, a.1 < n) (hpos : ∀ v, v < n → ∀ a ∈ adjOf v, 0 < djCost a)
    (hnd : ∀ v, v < n → (((adjOf v).map (fun a => a.1)).filter (fun j => j != v)).Nodup) :
    ∀ (fuel : Nat) (st : BState) (h : Int),
      DInv adjOf n source A (mainDn adjOf st.S) h st.S st.D st.seen st.sigma st.P st.fringe →
      st.fringe.length + pendN adjOf n st.D + 1 ≤ fuel →
      ∃ h', DInv adjOf n source A (mainDn adjOf (bcDijkstraLoop adjOf fuel st).S) h' (bcDijkstraLoop adjOf fuel st).S
          (bcDijkstraLoop adjOf fuel st).D (bcDijkstraLoop adjOf fuel st).seen (bcDijkstraLoop adjOf fuel st).sigma
          (bcDijkstraLoop adjOf fuel st).P (bcDijkstraLoop adjOf fuel st).fringe ∧
        (bcDijkstraLoop adjOf fuel st).fringe = [] := by
  intro fuel
  induction fuel with
  | zero => intro st h _ hf; omega
  | succ fuel ih =>
    intro st h inv hf
    rw [bcDijkstraLoop_succ]
    cases hp : popMinDist st.fringe with
    | none => exact ⟨h, inv, popMinDist_none hp⟩
    | some br =>
      obtain ⟨⟨dist, pred, v⟩, rest⟩ := br
      obtain ⟨hb, hrest, hmin⟩ := popMinDist_some hp
      have hlenrest : rest.length + 1 = st.fringe.length := by
        rw [hrest, List.length_erase_of_mem hb]
        have : 0 < st.fringe.length := List.length_pos_of_mem hb
        omega
      simp only
      by_cases hset : ((st.D[v]?.join).isSome) = true
      · rw [if_pos hset]
        have hD : lk st.D v ≠ none := by
          unfold lk
          cases hj : st.D[v]?.join with
          | none => rw [hj] at hset; cases hset
          | some d => simp
        have inv1 := inv.pop_stale (dist, pred, v) hD
        rw [← hrest] at inv1
        exact ih { st with fringe := rest } h inv1 (by simp only; omega)
      · rw [if_neg hset]
        have hD : lk st.D v = none := by
          unfold lk
          cases hj : st.D[v]?.join with
          | none => rfl
          | some d => rw [hj] at hset; exact absurd rfl hset
        obtain ⟨hvn, inv1⟩ := inv.pop_fresh hA hposA dist pred v hb hmin hD
        rw [← hrest] at inv1
        have hDlen : v < st.D.length := by rw [inv.lenD]; exact hvn
        have hdv : dOf (st.D.set v (some dist)) v = dist := dOf_of_lk (lk_set_self _ _ _ hDlen)
        -- the row of `v`
        have hrow := DInv.row (source := source) hA (S := st.S) (v := v) (hidx v hvn) (hpos v hvn) (hnd v hvn) (adjOf v) []
          { st with fringe := rest, sigma := st.sigma.set v (getD0 st.sigma v + getD0 st.sigma pred),
                    S := st.S ++ [v], D := st.D.set v (some dist) } rfl rfl (by simp only; rw [hdv]; exact inv1)
        simp only [hdv] at hrow
        obtain ⟨g1, g2, g3, g4⟩ := hrow
        have g3' := g3.end_row
        refine ih _ dist (by rw [g1]; exact g3') ?_
        rw [g2]
        have hp2 := pendN_set adjOf n st.D v dist hvn inv.lenD hD
        have g4' : (List.foldl (djRelax v dist)
            { st with fringe := rest, sigma := st.sigma.set v (getD0 st.sigma v + getD0 st.sigma pred),
                      S := st.S ++ [v], D := st.D.set v (some dist) } (adjOf v)).fringe.length ≤ rest.length + (adjOf v).length := g4
        have hp2' : pendN adjOf n (st.D.set v (some dist)) + (adjOf v).length = pendN adjOf n st.D := hp2
        show _ + pendN adjOf n (st.D.set v (some dist)) + 1 ≤ fuel
        omega

/-! ### the first iteration and the result -/

theorem bcDijkstraLoop_first (adjOf : Nat → List Adj) (fuel n source : Nat) :
    bcDijkstraLoop adjOf (fuel + 1)
      { D := List.replicate n none, seen := (List.replicate n none).set source (some 0),
        sigma := (List.replicate n (0 : Rat)).set source 1, P := List.replicate n [], S := [],
        fringe := [(0, source, source)] } =
    bcDijkstraLoop adjOf fuel ((adjOf source).foldl (djRelax source 0)
      { D := (List.replicate n none).set source (some 0), seen := (List.replicate n none).set source (some 0),
        sigma := ((List.replicate n (0 : Rat)).set source 1).set source
          (getD0 ((List.replicate n (0 : Rat)).set source 1) source + getD0 ((List.replicate n (0 : Rat)).set source 1) source),
        P := List.replicate n [], S := [source], fringe := [] }) := by
  rw [bcDijkstraLoop_succ]
  have hp : popMinDist [((0 : Int), source, source)] = some ((0, source, source), []) := by
    simp [popMinDist]
  simp only [hp]
  have : ((List.replicate n (none : Option Int))[source]?.join).isSome = false := by
    have := lk_replicate_none n source
    unfold lk at this
    rw [this]; rfl
  simp only [this, Bool.false_eq_true, if_false, List.nil_append]

/-- the state after the source has been popped satisfies the invariant -/
theorem DInv.init (adjOf : Nat → List Adj) (n source : Nat) (A : Arcs) (hposA : PosArcs A) (hsrc : source < n) :
    DInv adjOf n source A (rowDn adjOf [] source []) 0 ([] ++ [source])
      ((List.replicate n (none : Option Int)).set source (some 0)) ((List.replicate n (none : Option Int)).set source (some 0))
      (((List.replicate n (0 : Rat)).set source 1).set source
        (getD0 ((List.replicate n (0 : Rat)).set source 1) source + getD0 ((List.replicate n (0 : Rat)).set source 1) source))
      (List.replicate n []) [] := by
  have hlk : ∀ x, lk ((List.replicate n (none : Option Int)).set source (some 0)) x = if x = source then some 0 else none := by
    intro x
    by_cases e : x = source
    · subst e; rw [lk_set_self _ _ _ (by simpa using hsrc)]; simp
    · rw [lk_set_ne _ _ _ _ (fun e' => e e'.symm), lk_replicate_none]; simp [e]
  have hgP : ∀ w, gP (List.replicate n ([] : List Nat)) w = [] := by
    intro w
    unfold gP
    by_cases hw : w < n
    · simp [hw]
    · simp [List.getElem?_eq_none (by simpa using Nat.le_of_not_lt hw : (List.replicate n ([] : List Nat)).length ≤ w)]
  have h1 : getD0 ((List.replicate n (0 : Rat)).set source 1) source = 1 := getD0_set_self _ _ _ (by simpa using hsrc)
  have hsg : ∀ w, getD0 (((List.replicate n (0 : Rat)).set source 1).set source
      (getD0 ((List.replicate n (0 : Rat)).set source 1) source + getD0 ((List.replicate n (0 : Rat)).set source 1) source)) w =
      if w = source then 2 else 0 := by
    intro w
    rw [h1]
    by_cases e : w = source
    · subst e; rw [getD0_set_self _ _ _ (by simpa using hsrc)]; norm_num
    · rw [getD0_set_ne _ _ _ _ (fun e' => e e'.symm), getD0_set_ne _ _ _ _ (fun e' => e e'.symm)]
      simp only [if_neg e]
      unfold getD0
      by_cases hw : w < n
      · simp [hw]
      · simp [List.getElem?_eq_none (by simpa using Nat.le_of_not_lt hw : (List.replicate n (0 : Rat)).length ≤ w)]
  refine
    { lenD := by simp, lenSeen := by simp, lenS := by simp, lenP := by simp, nd := by simp
      disc := ?_, srcD := by rw [hlk]; simp, dEx := ?_, seenD := fun x d hx => hx, seenW := ?_
      ord := by simp
      hi := ?_
      frLo := by intro e he; cases he
      frSeen := by intro e he; cases he
      liveEx := ?_
      liveOk := by intro d' p w he; cases he
      dnS := by rintro u a (⟨h1, _⟩ | ⟨_, h2⟩); cases h1; cases h2
      clo := by rintro u a (⟨h1, _⟩ | ⟨_, h2⟩); cases h1; cases h2
      pIn := by intro w u hu; rw [hgP] at hu; cases hu
      pAll := by rintro u a (⟨h1, _⟩ | ⟨_, h2⟩); cases h1; cases h2
      pNd := by intro w; rw [hgP]; exact List.nodup_nil
      sig := ?_, sPos := ?_, sNonneg := ?_, sigU := ?_ }
  · intro x
    rw [hlk]
    by_cases e : x = source <;> simp [e]
  · intro x d hx
    rw [hlk] at hx
    by_cases e : x = source
    · subst e; simp at hx; subst hx; exact isDist_source_pos hposA _
    · simp [e] at hx
  · intro x d hx
    rw [hlk] at hx
    by_cases e : x = source
    · subst e; simp at hx; subst hx; exact Walk.nil _
    · simp [e] at hx
  · intro x hx
    simp at hx; subst hx
    simp [dOf, hlk]
  · intro w sw hD hs
    rw [hlk] at hD hs
    by_cases e : w = source
    · simp [e] at hD
    · simp [e] at hs
  · intro w hw
    simp at hw; subst hw
    rw [hsg, hgP]; simp
  · intro w hw
    simp at hw; subst hw
    rw [hsg]; simp
  · intro w
    rw [hsg]; split <;> norm_num
  · intro w hw
    rw [hlk] at hw
    by_cases e : w = source
    · simp [e] at hw
    · rw [hsg, if_neg e]

/-- from the final invariant (empty fringe) to the facts the later stages use -/
theorem DInv.final (hA : ArcsOfC adjOf n djCost A) (hposA : PosArcs A) {h : Int} {S : List Nat} {D seen : List (Option Int)}
    {sigma : List Rat} {P : List (List Nat)}
    (inv : DInv adjOf n source A (mainDn adjOf S) h S D seen sigma P []) :
    SsOut adjOf n source djCost 2 A D ⟨S, P, sigma, source⟩ := by
  have hlow := inv.lower hA hposA
  have hsettled : ∀ w sw, lk seen w = some sw → lk D w ≠ none := by
    intro w sw hsw hD
    obtain ⟨p, hp⟩ := inv.liveEx w sw hD hsw
    cases hp
  have hsrcS : source ∈ S := (inv.disc source).1 (by rw [inv.srcD]; simp)
  refine
    { arcs := hA, posA := hposA, κpos := by norm_num, rsrc := rfl, lenS := inv.lenS, lenP := inv.lenP, nd := inv.nd
      lt := fun x hx => inv.lt_n hx
      srcIn := hsrcS
      memD := fun x => (inv.disc x).symm
      dist := ?_, ord := inv.ord, pMem := ?_, pNd := inv.pNd, sig := ?_, sPos := inv.sPos }
  · intro x d
    constructor
    · exact inv.dEx x d
    · intro hd
      rcases hlow x d hd.1 with ⟨d', hd', hle⟩ | ⟨e, he, _⟩
      · have := isDist_unique (inv.dEx x d' hd') hd
        rw [← this]; exact hd'
      · cases he
  · intro w u
    constructor
    · intro hu
      obtain ⟨a, ⟨h1, h2⟩, h3, h4⟩ := inv.pIn w u hu
      refine ⟨h1, a, h2, h3, ?_⟩
      have hDw := hsettled w _ h4
      cases hl : lk D w with
      | none => exact absurd hl hDw
      | some d =>
        have := inv.seenD w d hl
        rw [h4] at this; cases this; rfl
    · rintro ⟨h1, a, h2, h3, h4⟩
      subst h3
      exact inv.pAll u a ⟨h1, h2⟩ (inv.seenD _ _ h4)
  · intro w hw
    by_cases hwS : w ∈ S
    · exact inv.sig w hwS
    · have hD : lk D w = none := by
        cases hl : lk D w with
        | none => rfl
        | some d => exact absurd ((inv.disc w).1 (by rw [hl]; simp)) hwS
      have hsn : lk seen w = none := by
        cases hl : lk seen w with
        | none => rfl
        | some sw => exact absurd hD (hsettled w sw hl)
      have hP : gP P w = [] := by
        cases hg : gP P w with
        | nil => rfl
        | cons u l =>
          obtain ⟨a, _, _, h4⟩ := inv.pIn w u (by rw [hg]; exact List.mem_cons_self ..)
          rw [hsn] at h4; cases h4
      have hne : w ≠ source := fun e => hwS (e ▸ hsrcS)
      rw [inv.sigU w hsn, hP]; simp [hne]

/-- **the weighted single-source stage** delivers `SsOut` with `κ = 2` -/
theorem bcDijkstra_out (hA : ArcsOfC adjOf n djCost A) (hsrc : source < n)
    (hidx : ∀ v, v < n → ∀ a ∈ adjOf v, a.1 < n) (hpos : ∀ v, v < n → ∀ a ∈ adjOf v, 0 < djCost a)
    (hnd : ∀ v, v < n → (((adjOf v).map (fun a => a.1)).filter (fun j => j != v)).Nodup)
    (total : Nat) (htot : pendN adjOf n (List.replicate n none) ≤ total) :
    ∃ D, SsOut adjOf n source djCost 2 A D (bcDijkstra adjOf n total source) := by
  have hposA : PosArcs A := by
    rintro ⟨u, w, c⟩ ha
    obtain ⟨hu, a, haa, _, hc⟩ := (hA u w c).1 ha
    simp only
    rw [← hc]; exact hpos u hu a haa
  have h0 := DInv.init adjOf n source A hposA hsrc
  have hd0 : dOf ((List.replicate n (none : Option Int)).set source (some 0)) source = 0 :=
    dOf_of_lk (lk_set_self _ _ _ (by simpa using hsrc))
  have hrow := DInv.row (source := source) hA (S := []) (v := source) (hidx source hsrc) (hpos source hsrc) (hnd source hsrc)
    (adjOf source) []
    { D := (List.replicate n none).set source (some 0), seen := (List.replicate n none).set source (some 0),
      sigma := ((List.replicate n (0 : Rat)).set source 1).set source
        (getD0 ((List.replicate n (0 : Rat)).set source 1) source + getD0 ((List.replicate n (0 : Rat)).set source 1) source),
      P := List.replicate n [], S := [source], fringe := [] } rfl rfl (by simp only; rw [hd0]; exact h0)
  simp only [hd0] at hrow
  obtain ⟨g1, g2, g3, g4⟩ := hrow
  have g3' := g3.end_row
  have hp2 := pendN_set adjOf n (List.replicate n none) source 0 hsrc (by simp) (lk_replicate_none n source)
  obtain ⟨h', inv, hfr⟩ := dijkstraLoop_inv hA hposA hidx hpos hnd (total + 1) _ 0 (by rw [g1]; exact g3') (by
    rw [g2]; simp only [List.length_nil] at g4; omega)
  have hres : bcDijkstra adjOf n total source =
      ⟨(bcDijkstraLoop adjOf (total + 2) _).S, (bcDijkstraLoop adjOf (total + 2) _).P,
        (bcDijkstraLoop adjOf (total + 2) _).sigma, source⟩ := rfl
  rw [hres, bcDijkstraLoop_first]
  rw [hfr] at inv
  exact ⟨_, inv.final hA hposA⟩

end inv

end Bc
end Graphrs
