/-
  Lemmas for Props/C13TerminationFull.lean: a level of the local-moving loop that reports `improvement = true` returns
  strictly fewer communities than the level graph has nodes.

  A node only ever moves into the community of one of its neighbours (a key of `weights2com`), that is into a
  non-empty community: an empty community stays empty.  The first move of a level leaves the singleton community of
  the moved node empty.  Hence as soon as `improvement` is set some community id is unused, and the list of
  non-empty communities handed to `generate_graph` is shorter than the list of nodes.
-/
import GraphrsModel.Lemmas.LouvainFullDefs
import GraphrsModel.Lemmas.LouvainSweep
namespace Graphrs
open LouvainFull
namespace LF

/-- `improvement = false`: nobody has moved, every node is in its own community; `improvement = true`: some
    community id `< k` is unused -/
structure JInv (k : Nat) (st : LState) : Prop where
  ident : st.improvement = false → ∀ x c, alookup st.node2com x = some c → c = x
  empty : st.improvement = true → ∃ c, c < k ∧ ∀ x, alookup st.node2com x ≠ some c

theorem JInv.visit {lv : Level} {k : Nat} {st st' : LState} {m res : Rat} {u : Nat}
    (hs : SInv lv k st) (hj : JInv k st) (hv : LouvainFull.visit lv m res st u = .ok st') : JInv k st' := by
  obtain ⟨cur, w2c, best, hcur, hw, hbest, -, -, -, -, -, -, hcase⟩ := visit_ok hv
  rcases hcase with ⟨hne, hst⟩ | ⟨-, hst⟩
  · have himp : st'.improvement = true := by rw [hst]; rfl
    have hn2c : st'.node2com = ainsert st.node2com u best := by rw [hst]; rfl
    have hbk : best ∈ w2c.map (·.1) := by
      rcases hbest with h1 | h1
      · exact absurd h1 hne
      · exact h1
    obtain ⟨v, hv2⟩ := neighborWeights_keys hw best hbk
    refine ⟨fun h => (by rw [himp] at h; cases h), fun _ => ?_⟩
    by_cases hi : st.improvement = true
    · obtain ⟨c, hc, hempty⟩ := hj.empty hi
      refine ⟨c, hc, ?_⟩
      intro x hx
      rw [hn2c, AL.lookup_insert] at hx
      by_cases hux : u = x
      · rw [if_pos hux] at hx
        cases hx
        exact hempty v hv2
      · rw [if_neg hux] at hx
        exact hempty x hx
    · have hi' : st.improvement = false := by simpa using hi
      have hcu : cur = u := hj.ident hi' u cur hcur
      refine ⟨u, (hs.n2c_lt u cur hcur).1, ?_⟩
      intro x hx
      rw [hn2c, AL.lookup_insert] at hx
      by_cases hux : u = x
      · rw [if_pos hux] at hx
        cases hx
        exact hne hcu.symm
      · rw [if_neg hux] at hx
        exact hux (hj.ident hi' x u hx)
  · have himp : st'.improvement = st.improvement := by rw [hst]
    have hn2c : st'.node2com = st.node2com := by rw [hst]
    exact ⟨fun h => (by rw [hn2c]; exact hj.ident (by rw [← himp]; exact h)),
      fun h => (by rw [hn2c]; exact hj.empty (by rw [← himp]; exact h))⟩

theorem JInv.pass {lv : Level} {n k : Nat} {m res : Rat} (hg : GoodLevel lv n k) (order : List Nat) (st st' : LState)
    (hs : SInv lv k st) (hj : JInv k st)
    (hf : order.foldl (fun acc u => do let s ← acc; LouvainFull.visit lv m res s u) (.ok st) = .ok st') :
    SInv lv k st' ∧ JInv k st' := by
  refine foldl_ok_inv (fun a => SInv lv k a ∧ JInv k a) _ ?_ order ?_ st st' hf ⟨hs, hj⟩
  · intro o x b hb
    cases o with
    | ok a => exact ⟨a, rfl⟩
    | err e => simp [bind, Outcome.bind] at hb
    | panic e => simp [bind, Outcome.bind] at hb
  · intro a x b _ hb ha
    exact ⟨ha.1.visit hg hb, ha.2.visit ha.1 hb⟩

theorem JInv.sweeps {lv : Level} {n k : Nat} {m res : Rat} (hg : GoodLevel lv n k) (order : List Nat) (fuel : Nat) :
    ∀ (st st' : LState), SInv lv k st → JInv k st → LouvainFull.sweeps lv m res order fuel st = .ok (some st') →
      SInv lv k st' ∧ JInv k st' := by
  induction fuel with
  | zero => intro st st' _ _ h; simp [LouvainFull.sweeps] at h
  | succ fuel ih =>
    intro st st' hs hj h
    unfold LouvainFull.sweeps at h
    simp only [bind, Outcome.bind] at h
    split at h
    next x st1 h1 =>
      have hs0 : SInv lv k { st with moves := 0 } :=
        ⟨hs.part_len, hs.inner_len, hs.n2c_total, hs.n2c_lt, hs.inner_iff, hs.inner_nodup, hs.part_iff, hs.part_nodup⟩
      have hj0 : JInv k { st with moves := 0 } := ⟨hj.ident, hj.empty⟩
      obtain ⟨hs1, hj1⟩ := JInv.pass hg order _ st1 hs0 hj0 h1
      by_cases hm : st1.moves > 0
      · rw [if_pos hm] at h
        exact ih st1 st' hs1 hj1 h
      · rw [if_neg hm] at h
        cases h
        exact ⟨hs1, hj1⟩
    all_goals (exact absurd h (by simp))

theorem JInv.init (k : Nat) (partition : List (List Nat)) (di : DegInfo) :
    JInv k { part := partition, inner := (List.range k).map fun n => [n],
             node2com := (List.range k).map fun n => (n, n), di := di, improvement := false, moves := 0 } := by
  refine ⟨fun _ x c hx => ?_, fun h => (by cases h)⟩
  simp only at hx
  rw [C09M.alookup_map_self] at hx
  split at hx
  · cases hx; rfl
  · cases hx

/-- the non-empty communities of a state in which some community id is unused are fewer than the nodes -/
theorem SInv.filter_lt {lv : Level} {k : Nat} {st : LState} (hs : SInv lv k st) (hj : JInv k st)
    (hi : st.improvement = true) : (st.inner.filter (!·.isEmpty)).length < k := by
  obtain ⟨c, hc, hempty⟩ := hj.empty hi
  have hcl : c < st.inner.length := by rw [hs.inner_len]; exact hc
  have hnil : st.inner[c] = [] := by
    rw [List.eq_nil_iff_forall_not_mem]
    intro x hx
    rw [getElem_eq_getD _ c hcl] at hx
    exact hempty x ((hs.inner_iff c x).1 hx)
  have := List.length_filter_lt_length_iff_exists (p := fun (l : List Nat) => !l.isEmpty) (l := st.inner)
  rw [hs.inner_len] at this
  rw [this]
  exact ⟨st.inner[c], List.getElem_mem hcl, by rw [hnil]; simp⟩

theorem SInv.filter_le {lv : Level} {k : Nat} {st : LState} (hs : SInv lv k st) :
    (st.inner.filter (!·.isEmpty)).length ≤ k := by
  have := List.length_filter_le (fun (l : List Nat) => !l.isEmpty) st.inner
  rw [hs.inner_len] at this
  exact this

/-- **a level that reports an improvement returns fewer communities than it has nodes** -/
theorem computeOneLevelW_count {lv : Level} {n k : Nat} (hg : GoodLevel lv n k) {partition : List (List Nat)}
    (hin : InputOK lv k partition) {m res : Rat} {perm : List Nat} {fuel : Nat}
    {p i : List (List Nat)} {imp : Bool}
    (h : computeOneLevelW lv m res partition perm fuel = .ok (.ok (p, i, imp))) :
    i.length ≤ k ∧ (imp = true → i.length < k) := by
  unfold computeOneLevelW at h
  simp only [bind, Outcome.bind] at h
  rw [sortNat_eq_range hg.names_nodup hg.names_iff] at h
  split at h
  next x di hdi =>
    split at h
    next y ost hsw =>
      cases ost with
      | none => simp at h
      | some st =>
        simp only at h
        by_cases hr : st.risky = true
        · rw [if_pos hr] at h; simp at h
        · rw [if_neg hr] at h
          simp only [Outcome.ok.injEq, Except.ok.injEq, Prod.mk.injEq] at h
          obtain ⟨_, rfl, rfl⟩ := h
          obtain ⟨hs, hj⟩ := JInv.sweeps hg _ fuel _ st (SInv.init hin di) (JInv.init k partition di) hsw
          exact ⟨hs.filter_le, fun hi => hs.filter_lt hj hi⟩
    all_goals (exact absurd h (by simp))
  all_goals (exact absurd h (by simp))

/-- the same for the function of the model -/
theorem computeOneLevel_count {lv : Level} {n k : Nat} (hg : GoodLevel lv n k) {partition : List (List Nat)}
    (hin : InputOK lv k partition) {m res : Rat} {perm : List Nat} {fuel : Nat}
    {p i : List (List Nat)} {imp : Bool}
    (h : computeOneLevel lv m res partition perm fuel = .ok (some (p, i, imp))) :
    i.length ≤ k ∧ (imp = true → i.length < k) := by
  rw [computeOneLevel_erase] at h
  cases hc : computeOneLevelW lv m res partition perm fuel with
  | err e => rw [hc] at h; cases h
  | panic e => rw [hc] at h; cases h
  | ok r =>
    rw [hc] at h
    cases r with
    | error s => cases h
    | ok r =>
      simp only [Outcome.map', Except.toOption, Outcome.ok.injEq, Option.some.injEq] at h
      subst h
      exact computeOneLevelW_count hg hin hc

/-- a result of `computeOneLevelW` is a result of `computeOneLevel` -/
theorem computeOneLevel_of_W {lv : Level} {m res : Rat} {partition : List (List Nat)} {perm : List Nat} {fuel : Nat}
    {r : List (List Nat) × List (List Nat) × Bool}
    (h : computeOneLevelW lv m res partition perm fuel = .ok (.ok r)) :
    computeOneLevel lv m res partition perm fuel = .ok (some r) := by
  rw [computeOneLevel_erase, h]; rfl

end LF
end Graphrs
