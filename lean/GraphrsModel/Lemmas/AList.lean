/-
  Association-list algebra for the C01 proofs (alookup / ainsert / amodify / keysNodup).
  Names live in `Graphrs.AL` to avoid clashes with Lemmas/C04Aux.lean.
-/
import GraphrsModel.Spec.Inv
namespace Graphrs
namespace AL

variable {κ ν : Type} [DecidableEq κ]

theorem lookup_insert (m : List (κ × ν)) (k k' : κ) (v : ν) :
    alookup (ainsert m k v) k' = if k = k' then some v else alookup m k' := by
  induction m with
  | nil => simp [ainsert, alookup]
  | cons p m ih =>
    obtain ⟨a, b⟩ := p
    simp only [ainsert]
    by_cases h : a = k
    · subst h
      by_cases h2 : a = k' <;> simp [alookup, h2]
    · simp only [h, if_false, alookup, ih]
      by_cases h2 : a = k'
      · subst h2
        have : ¬ k = a := fun e => h e.symm
        simp [this]
      · simp [h2]

theorem lookup_mem {m : List (κ × ν)} {k : κ} {v : ν}
    (h : alookup m k = some v) : (k, v) ∈ m := by
  induction m with
  | nil => simp [alookup] at h
  | cons p m ih =>
    obtain ⟨a, b⟩ := p
    simp only [alookup] at h
    by_cases h2 : a = k
    · subst h2
      simp at h
      subst h
      simp
    · simp only [h2, if_false] at h
      exact List.mem_cons_of_mem _ (ih h)

theorem lookup_none_iff (m : List (κ × ν)) (k : κ) :
    alookup m k = none ↔ k ∉ m.map (·.1) := by
  induction m with
  | nil => simp [alookup]
  | cons p m ih =>
    obtain ⟨a, b⟩ := p
    by_cases h : a = k
    · simp [alookup, h]
    · have h' : ¬ k = a := fun e => h e.symm
      simp [alookup, h, h', ih]

theorem lookup_isSome_iff (m : List (κ × ν)) (k : κ) :
    (alookup m k).isSome = true ↔ k ∈ m.map (·.1) := by
  have := lookup_none_iff m k
  cases h : alookup m k with
  | none => simp [h] at this ⊢; exact this
  | some v =>
    simp [h] at this ⊢
    exact this

theorem mem_lookup {m : List (κ × ν)} (hn : (m.map (·.1)).Nodup) {k : κ} {v : ν}
    (h : (k, v) ∈ m) : alookup m k = some v := by
  induction m with
  | nil => simp at h
  | cons p m ih =>
    obtain ⟨a, b⟩ := p
    simp only [List.map_cons, List.nodup_cons] at hn
    simp only [List.mem_cons, Prod.mk.injEq] at h
    rcases h with ⟨rfl, rfl⟩ | h
    · simp [alookup]
    · have : a ≠ k := by
        intro e; subst e
        exact hn.1 (List.mem_map.mpr ⟨(a, v), h, rfl⟩)
      simp [alookup, this, ih hn.2 h]

theorem mem_iff_lookup {m : List (κ × ν)} (hn : (m.map (·.1)).Nodup) (k : κ) (v : ν) :
    (k, v) ∈ m ↔ alookup m k = some v := ⟨mem_lookup hn, lookup_mem⟩

/-- `List.all` over a key-nodup association list, phrased with `alookup`. -/
theorem all_iff {m : List (κ × ν)} (hn : (m.map (·.1)).Nodup) (p : κ × ν → Bool) :
    m.all p = true ↔ ∀ k v, alookup m k = some v → p (k, v) = true := by
  rw [List.all_eq_true]
  constructor
  · intro h k v hl
    exact h _ (lookup_mem hl)
  · intro h kv hkv
    obtain ⟨k, v⟩ := kv
    exact h k v (mem_lookup hn hkv)

theorem keys_insert (m : List (κ × ν)) (k : κ) (v : ν) :
    (ainsert m k v).map (·.1) =
      if (alookup m k).isSome then m.map (·.1) else m.map (·.1) ++ [k] := by
  induction m with
  | nil => simp [ainsert, alookup]
  | cons p m ih =>
    obtain ⟨a, b⟩ := p
    by_cases h : a = k
    · simp [ainsert, alookup, h]
    · simp only [ainsert, h, if_false, alookup, List.map_cons, ih]
      split <;> simp

theorem nodup_insert {m : List (κ × ν)} (hn : (m.map (·.1)).Nodup) (k : κ) (v : ν) :
    ((ainsert m k v).map (·.1)).Nodup := by
  rw [keys_insert]
  split
  · exact hn
  · rename_i h
    have : alookup m k = none := by
      cases h2 : alookup m k with
      | none => rfl
      | some _ => simp [h2] at h
    have hk := (lookup_none_iff m k).mp this
    rw [List.nodup_append]
    refine ⟨hn, by simp, ?_⟩
    intro a ha b hb
    simp at hb
    subst hb
    intro e
    subst e
    exact hk ha

theorem lookup_modify (m : List (κ × ν)) (k k' : κ) (d : ν) (f : ν → ν) :
    alookup (amodify m k d f) k' =
      if k = k' then some (f ((alookup m k).getD d)) else alookup m k' := by
  simp [amodify, lookup_insert]

theorem nodup_modify {m : List (κ × ν)} (hn : (m.map (·.1)).Nodup) (k : κ) (d : ν) (f : ν → ν) :
    ((amodify m k d f).map (·.1)).Nodup := nodup_insert hn _ _

theorem keysNodup_iff (m : List (κ × ν)) : keysNodup m = true ↔ (m.map (·.1)).Nodup := by
  simp [keysNodup]

/-- flattening a keyed store and filtering by key gives back the list stored under the key -/
theorem flatMap_filter {ε : Type} [BEq κ] [LawfulBEq κ] (key : ε → κ) (m : List (κ × List ε))
    (hn : (m.map (·.1)).Nodup) (hk : ∀ kv ∈ m, ∀ e ∈ kv.2, key e = kv.1) (k : κ) :
    (m.flatMap (·.2)).filter (fun e => key e == k) = (alookup m k).getD [] := by
  induction m with
  | nil => simp [alookup]
  | cons p m ih =>
    obtain ⟨a, l⟩ := p
    simp only [List.map_cons, List.nodup_cons] at hn
    have ih' := ih hn.2 (fun kv h => hk kv (List.mem_cons_of_mem _ h))
    have hl : ∀ e ∈ l, key e = a := hk (a, l) (by simp)
    simp only [List.flatMap_cons, List.filter_append, ih', alookup]
    by_cases h : a = k
    · subst h
      have h1 : l.filter (fun e => key e == a) = l := by
        rw [List.filter_eq_self]
        intro e he
        simp [hl e he]
      have h2 : alookup m a = none := (lookup_none_iff m a).mpr hn.1
      simp [h1, h2]
    · have h1 : l.filter (fun e => key e == k) = [] := by
        rw [List.filter_eq_nil_iff]
        intro e he
        simp [hl e he, h]
      simp [h1, h]

omit [DecidableEq κ] in
theorem mem_flatMap_iff {ε : Type} (m : List (κ × List ε)) (e : ε) :
    e ∈ m.flatMap (·.2) ↔ ∃ k l, (k, l) ∈ m ∧ e ∈ l := by
  simp [List.mem_flatMap]

end AL
end Graphrs
