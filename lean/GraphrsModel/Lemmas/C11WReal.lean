/-
  The real instance of the scalar record `CScalar` (Model/Cluster.lean) and the arithmetic facts about it that
  Props/C11Weighted.lean needs: the real cube root is multiplicative, sums are `List.sum`, `fmaxG` is `max`.
-/
import GraphrsModel.Model.Cluster
import GraphrsModel.Spec.Cluster
import Mathlib.Analysis.SpecialFunctions.Pow.Real
import Mathlib.Data.Sign.Basic
import Mathlib.Tactic.Ring
import Mathlib.Tactic.Linarith
import Mathlib.Tactic.Positivity
namespace Graphrs
namespace C11W

/-! ## the real cube root -/

/-- the (odd) real cube root: `sign x * |x| ^ (1/3)`, what `f64::cbrt` rounds -/
noncomputable def rcbrt (x : ℝ) : ℝ := (SignType.sign x : ℝ) * |x| ^ ((1 : ℝ) / 3)

theorem rcbrt_of_nonneg {x : ℝ} (hx : 0 ≤ x) : rcbrt x = x ^ ((1 : ℝ) / 3) := by
  unfold rcbrt
  rcases hx.eq_or_lt with h | h
  · subst h; simp
  · rw [sign_pos h, abs_of_pos h]; simp

theorem rcbrt_neg (x : ℝ) : rcbrt (-x) = - rcbrt x := by
  unfold rcbrt
  rw [Left.sign_neg, abs_neg]
  simp

/-- the cube root is multiplicative (on all of ℝ) -/
theorem rcbrt_mul (x y : ℝ) : rcbrt (x * y) = rcbrt x * rcbrt y := by
  unfold rcbrt
  rw [sign_mul, abs_mul, Real.mul_rpow (abs_nonneg x) (abs_nonneg y)]
  push_cast
  ring

/-- it is a cube root -/
theorem rcbrt_pow_three (x : ℝ) : rcbrt x ^ 3 = x := by
  have h3 : ∀ y : ℝ, 0 ≤ y → (y ^ ((1 : ℝ) / 3)) ^ 3 = y := by
    intro y hy
    have := Real.rpow_inv_natCast_pow hy (n := 3) (by norm_num)
    simpa using this
  rcases lt_trichotomy x 0 with h | h | h
  · have hx : x = -(-x) := by ring
    rw [hx, rcbrt_neg, rcbrt_of_nonneg (by linarith)]
    have := h3 (-x) (by linarith)
    calc (-(-x) ^ ((1 : ℝ) / 3)) ^ 3 = -(((-x) ^ ((1 : ℝ) / 3)) ^ 3) := by ring
      _ = -(-x) := by rw [this]
  · subst h; rw [rcbrt_of_nonneg le_rfl]; exact h3 0 le_rfl
  · rw [rcbrt_of_nonneg h.le]; exact h3 x h.le

theorem rcbrt_nonneg {x : ℝ} (hx : 0 ≤ x) : 0 ≤ rcbrt x := by
  rw [rcbrt_of_nonneg hx]; exact Real.rpow_nonneg hx _

theorem rcbrt_le_one {x : ℝ} (hx : 0 ≤ x) (h1 : x ≤ 1) : rcbrt x ≤ 1 := by
  rw [rcbrt_of_nonneg hx]; exact Real.rpow_le_one hx h1 (by norm_num)

/-! ## the real instance -/

/-- Exact real arithmetic.  `nan` (the value of a missing weight) has no real counterpart; the theorems assume that every
    edge carries a weight, so it is never consulted; it is set to `0`. -/
noncomputable def realCScalar : CScalar ℝ where
  zero := 0
  one := 1
  two := 2
  nan := 0
  add := (· + ·)
  sub := (· - ·)
  mul := (· * ·)
  div := (· / ·)
  cbrt := rcbrt
  abs := fun a => |a|
  lt := fun a b => decide (a < b)
  isZero := fun a => decide (a = 0)
  isNaN := fun _ => false
  ofNat := fun n => (n : ℝ)
  ofInt := fun z => (z : ℝ)

noncomputable abbrev R := realCScalar

theorem foldl_add_real (l : List ℝ) (a : ℝ) : l.foldl (fun x y => x + y) a = a + l.sum := by
  induction l generalizing a with
  | nil => simp
  | cons b l ih => rw [List.foldl_cons, ih, List.sum_cons]; ring

theorem csumG_real (l : List ℝ) : Store.csumG R l = l.sum := by
  show l.foldl (fun x y => x + y) 0 = _
  rw [foldl_add_real]; ring

theorem ssumG_real (l : List ℝ) : Abs.ssumG R l = l.sum := by
  show l.foldl (fun x y => x + y) 0 = _
  rw [foldl_add_real]; ring

theorem fmaxG_real (a b : ℝ) : Store.fmaxG R a b = max a b := by
  show (if decide (b < a) = true then a else if decide (a < b) = true then b else if false = true then b else a) = _
  simp only [decide_eq_true_eq, Bool.false_eq_true, if_false]
  by_cases h1 : b < a
  · rw [if_pos h1, max_eq_left h1.le]
  · rw [if_neg h1]
    by_cases h2 : a < b
    · rw [if_pos h2, max_eq_right h2.le]
    · rw [if_neg h2]
      have : a = b := le_antisymm (not_lt.1 h1) (not_lt.1 h2)
      rw [this, max_self]

theorem foldl_max_cast (ws : List Int) (w : Int) :
    (ws.map fun z : Int => (z : ℝ)).foldl (Store.fmaxG R) (w : ℝ) = ((ws.foldl max w : Int) : ℝ) := by
  induction ws generalizing w with
  | nil => rfl
  | cons a ws ih =>
    rw [List.map_cons, List.foldl_cons, List.foldl_cons, fmaxG_real, ← Int.cast_max, ih]

theorem le_foldl_max (ws : List Int) (w : Int) : w ≤ ws.foldl max w ∧ ∀ x ∈ ws, x ≤ ws.foldl max w := by
  induction ws generalizing w with
  | nil => simp
  | cons a ws ih =>
    rw [List.foldl_cons]
    have := ih (max w a)
    refine ⟨le_trans (le_max_left w a) this.1, ?_⟩
    intro x hx
    rcases List.mem_cons.1 hx with rfl | hx
    · exact le_trans (le_max_right w x) this.1
    · exact this.2 x hx

/-! ## sums over lists of reals -/

theorem sum_map_add_real {α : Type} (l : List α) (f g : α → ℝ) :
    (l.map fun x => f x + g x).sum = (l.map f).sum + (l.map g).sum := by
  induction l with
  | nil => simp
  | cons a l ih => simp only [List.map_cons, List.sum_cons, ih]; ring

theorem sum_map_mul_left_real {α : Type} (c : ℝ) (f : α → ℝ) (l : List α) :
    (l.map fun x => c * f x).sum = c * (l.map f).sum := by
  induction l with
  | nil => simp
  | cons a l ih => simp only [List.map_cons, List.sum_cons, ih]; ring

theorem sum_flatMap_real {α : Type} (l : List α) (f : α → List ℝ) :
    (l.flatMap f).sum = (l.map fun x => (f x).sum).sum := by
  induction l with
  | nil => rfl
  | cons a l ih => simp [List.flatMap_cons, List.sum_append, ih]

/-- a sum over a filtered list is the indicator-weighted sum -/
theorem sum_filter_real {α : Type} (l : List α) (p : α → Bool) (f : α → ℝ) :
    ((l.filter p).map f).sum = (l.map fun x => if p x then f x else 0).sum := by
  induction l with
  | nil => rfl
  | cons a l ih =>
    by_cases h : p a = true
    · simp [h, ih]
    · simp [h, ih]

theorem sum_map_nonneg_real {α : Type} (l : List α) (f : α → ℝ) (h : ∀ x ∈ l, 0 ≤ f x) : 0 ≤ (l.map f).sum := by
  induction l with
  | nil => simp
  | cons a l ih =>
    simp only [List.map_cons, List.sum_cons]
    have := h a (by simp)
    have := ih (fun x hx => h x (by simp [hx]))
    linarith

theorem sum_map_le_real {α : Type} (l : List α) (f g : α → ℝ) (h : ∀ x ∈ l, f x ≤ g x) :
    (l.map f).sum ≤ (l.map g).sum := by
  induction l with
  | nil => simp
  | cons a l ih =>
    simp only [List.map_cons, List.sum_cons]
    have := h a (by simp)
    have := ih (fun x hx => h x (by simp [hx]))
    linarith

theorem sum_map_const_real {α : Type} (l : List α) (c : ℝ) : (l.map fun _ => c).sum = l.length * c := by
  induction l with
  | nil => simp
  | cons a l ih => simp only [List.map_cons, List.sum_cons, ih, List.length_cons]; push_cast; ring

end C11W
end Graphrs
