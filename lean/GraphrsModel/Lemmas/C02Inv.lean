/-
  Helper lemmas for C02: Prop-level reading of the Bool-valued invariant clauses.
-/
import GraphrsModel.Spec.Inv
import GraphrsModel.Lemmas.C02Assoc
namespace Graphrs
namespace C02
open Store

/-! ### node clause -/

structure NodesP (s : Store) : Prop where
  namesNodup : s.names.Nodup
  link : ∀ x i, alookup s.nodesMap x = some i ↔ s.names[i]? = some x
  rev : ∀ i, alookup s.nodesMapRev i = s.nodesVec[i]?
  succVecLen : s.succVec.length = s.nodesVec.length
  predVecLen : s.predVec.length = s.nodesVec.length
  notPoisoned : s.poisoned = none

theorem names_length (s : Store) : s.names.length = s.nodesVec.length := by simp [Store.names]

theorem names_getElem? (s : Store) (i : Nat) : s.names[i]? = (s.nodesVec[i]?).map (·.name) := by
  simp [Store.names]

theorem nodesP_of (s : Store) (h : s.nodesOk = true) : NodesP s := by
  simp only [Store.nodesOk, keysNodup, Bool.and_eq_true, List.all_eq_true, decide_eq_true_eq,
    beq_iff_eq] at h
  obtain ⟨⟨⟨⟨⟨⟨⟨⟨⟨h1, h2⟩, h3⟩, h4⟩, h5⟩, h6⟩, h7⟩, h8⟩, h9⟩, h10⟩ := h
  refine ⟨h1, ?_, ?_, h8, h9, by simpa using h10⟩
  · intro x i
    constructor
    · intro hx
      exact h4 (x, i) (alookup_mem _ _ _ hx)
    · intro hx
      exact h5 (x, i) (List.mem_zipIdx_iff_getElem?.2 hx)
  · intro i
    by_cases hi : i < s.nodesVec.length
    · exact h7 i (List.mem_range.2 hi)
    · cases hl : alookup s.nodesMapRev i with
      | none => simp [List.getElem?_eq_none (Nat.le_of_not_lt hi)]
      | some nd => exact (h6 (i, nd) (alookup_mem _ _ _ hl)).symm

theorem NodesP.mem_names {s : Store} (hn : NodesP s) (x : Nat) :
    x ∈ s.names ↔ ∃ i, alookup s.nodesMap x = some i := by
  rw [List.mem_iff_getElem?]
  constructor
  · rintro ⟨i, hi⟩; exact ⟨i, (hn.link x i).2 hi⟩
  · rintro ⟨i, hi⟩; exact ⟨i, (hn.link x i).1 hi⟩

theorem NodesP.idx_lt {s : Store} (hn : NodesP s) {x i : Nat} (h : alookup s.nodesMap x = some i) :
    i < s.nodesVec.length := by
  have := (hn.link x i).1 h
  rw [← names_length]
  exact (List.getElem?_eq_some_iff.1 this).1

theorem NodesP.idx_inj {s : Store} (hn : NodesP s) {x i j : Nat} (h1 : s.names[i]? = some x)
    (h2 : s.names[j]? = some x) : i = j := by
  have a := (hn.link x i).2 h1
  have b := (hn.link x j).2 h2
  rw [a] at b
  exact Option.some.inj b

/-! ### edge clause -/

structure EdgesP (s : Store) : Prop where
  keys : (s.edges.map (·.1)).Nodup
  mapKeys : (s.edgesMap.map (·.1)).Nodup
  ne : ∀ kv ∈ s.edges, kv.2 ≠ []
  own : ∀ kv ∈ s.edges, ∀ e ∈ kv.2, (e.u, e.v) = kv.1
  canon : ∀ kv ∈ s.edges, s.specs.directed = true ∨ kv.1.1 ≤ kv.1.2
  inNames : ∀ kv ∈ s.edges, kv.1.1 ∈ s.names ∧ kv.1.2 ∈ s.names
  single : ∀ kv ∈ s.edges, s.specs.multi = true ∨ kv.2.length = 1
  toMap : ∀ kv ∈ s.edges, ∃ i j, alookup s.nodesMap kv.1.1 = some i ∧ alookup s.nodesMap kv.1.2 = some j ∧
    alookup s.edgesMap (idxKey s.specs.directed i j) = some kv.2
  ofMap : ∀ kv ∈ s.edgesMap, ∃ x y, s.names[kv.1.1]? = some x ∧ s.names[kv.1.2]? = some y ∧
    alookup s.edges (nameKey s.specs.directed x y) = some kv.2

theorem edgesP_of (s : Store) (h : s.edgesOk = true) : EdgesP s := by
  simp only [Store.edgesOk, keysNodup, Bool.and_eq_true, List.all_eq_true, decide_eq_true_eq,
    beq_iff_eq, Bool.or_eq_true, List.contains_iff_mem] at h
  obtain ⟨⟨⟨h1, h2⟩, h3⟩, h4⟩ := h
  refine ⟨h1, h2, ?_, ?_, ?_, ?_, ?_, ?_, ?_⟩
  · intro kv hkv
    have := (h3 kv hkv).1.1.1.1.1.1.1
    intro e; simp [e] at this
  · intro kv hkv; exact (h3 kv hkv).1.1.1.1.1.1.2
  · intro kv hkv; exact (h3 kv hkv).1.1.1.1.1.2
  · intro kv hkv; exact ⟨(h3 kv hkv).1.1.1.1.2, (h3 kv hkv).1.1.1.2⟩
  · intro kv hkv; exact (h3 kv hkv).1.1.2
  · intro kv hkv
    have := (h3 kv hkv).2
    split at this
    · rename_i i j hi hj
      exact ⟨i, j, hi, hj, by simpa using this⟩
    · simp at this
  · intro kv hkv
    have := (h4 kv hkv).2
    split at this
    · rename_i x y hx hy
      exact ⟨x, y, hx, hy, by simpa using this⟩
    · simp at this

theorem nameKey_symm (x y : Nat) : nameKey false x y = nameKey false y x := by
  unfold nameKey
  by_cases h1 : x > y <;> by_cases h2 : y > x <;> simp [h1, h2]
  · omega
  · have : x = y := by omega
    subst this; exact ⟨rfl, rfl⟩

theorem idxKey_eq_nameKey (d : Bool) (x y : Nat) : idxKey d x y = nameKey d x y := rfl

theorem nameKey_true (x y : Nat) : nameKey true x y = (x, y) := by simp [nameKey]

theorem nameKey_cases (d : Bool) (x y : Nat) :
    nameKey d x y = (x, y) ∨ (d = false ∧ nameKey d x y = (y, x)) := by
  unfold nameKey
  split
  · rename_i h
    right
    simp at h
    exact ⟨h.1, rfl⟩
  · exact .inl rfl

/-- does the stored edge `e` join `x` to `y`? (the test inside `hasEdge`) -/
def joins (d : Bool) (e : Edge) (x y : Nat) : Bool :=
  (e.u == x && e.v == y) || (!d && e.u == y && e.v == x)

theorem hasEdge_iff (s : Store) (x y : Nat) :
    s.hasEdge x y = true ↔ ∃ e ∈ s.allEdges, joins s.specs.directed e x y = true := by
  simp [Store.hasEdge, joins]

theorem mem_allEdges (s : Store) (e : Edge) : e ∈ s.allEdges ↔ ∃ kv ∈ s.edges, e ∈ kv.2 := by
  simp [Store.allEdges]

/-- an edge that joins `x` to `y` and is stored in canonical orientation sits under `nameKey` -/
theorem joins_key (d : Bool) (e : Edge) (x y : Nat) (hc : d = true ∨ e.u ≤ e.v) :
    joins d e x y = true ↔ (e.u, e.v) = nameKey d x y := by
  cases d with
  | true => simp [joins, nameKey]
  | false =>
    have hc : e.u ≤ e.v := by simpa using hc
    simp only [joins, nameKey, Bool.not_false, Bool.true_and, Bool.or_eq_true, Bool.and_eq_true,
      beq_iff_eq, decide_eq_true_eq]
    by_cases hxy : x > y
    · simp only [hxy, if_true, Prod.mk.injEq]
      constructor
      · rintro (⟨a, b⟩ | ⟨a, b⟩)
        · omega
        · exact ⟨a, b⟩
      · intro h; exact .inr h
    · simp only [hxy, if_false, Prod.mk.injEq]
      constructor
      · rintro (⟨a, b⟩ | ⟨a, b⟩)
        · exact ⟨a, b⟩
        · omega
      · intro h; exact .inl h

theorem EdgesP.hasEdge_iff {s : Store} (he : EdgesP s) (x y : Nat) :
    s.hasEdge x y = true ↔ (alookup s.edges (nameKey s.specs.directed x y)).isSome = true := by
  rw [C02.hasEdge_iff]
  constructor
  · rintro ⟨e, hmem, hj⟩
    obtain ⟨kv, hkv, hel⟩ := (mem_allEdges s e).1 hmem
    have hown := he.own kv hkv e hel
    have hc : s.specs.directed = true ∨ e.u ≤ e.v := by
      have := he.canon kv hkv
      rw [← hown] at this
      exact this
    have hk := (joins_key _ e x y hc).1 hj
    rw [← hk, hown]
    obtain ⟨k, l⟩ := kv
    rw [mem_alookup _ k l he.keys hkv]
    rfl
  · intro h
    cases hl : alookup s.edges (nameKey s.specs.directed x y) with
    | none => simp [hl] at h
    | some l =>
      have hkv := alookup_mem _ _ _ hl
      have hne := he.ne _ hkv
      cases l with
      | nil => exact absurd rfl hne
      | cons e l =>
        have hown := he.own _ hkv e List.mem_cons_self
        simp only at hown
        refine ⟨e, (mem_allEdges s e).2 ⟨_, hkv, List.mem_cons_self⟩, ?_⟩
        have hc : s.specs.directed = true ∨ e.u ≤ e.v := by
          have := he.canon _ hkv
          simp only at this
          rw [← hown] at this
          exact this
        exact (joins_key _ e x y hc).2 hown

/-- the position-keyed store and the name-keyed store hold the same list for a pair of nodes -/
theorem edgesMap_eq_edges {s : Store} (hn : NodesP s) (he : EdgesP s) {u v ui vi : Nat}
    (hu : alookup s.nodesMap u = some ui) (hv : alookup s.nodesMap v = some vi) :
    alookup s.edgesMap (idxKey s.specs.directed ui vi) = alookup s.edges (nameKey s.specs.directed u v) := by
  have hun := (hn.link u ui).1 hu
  have hvn := (hn.link v vi).1 hv
  cases hl : alookup s.edges (nameKey s.specs.directed u v) with
  | some l =>
    obtain ⟨i, j, hi, hj, hm⟩ := he.toMap _ (alookup_mem _ _ _ hl)
    simp only at hi hj hm
    rcases nameKey_cases s.specs.directed u v with hk | ⟨hd, hk⟩
    · rw [hk] at hi hj
      simp only at hi hj
      rw [hu] at hi; rw [hv] at hj
      cases hi; cases hj
      exact hm
    · rw [hk] at hi hj
      simp only at hi hj
      rw [hv] at hi; rw [hu] at hj
      cases hi; cases hj
      rw [hd] at hm ⊢
      rw [idxKey_eq_nameKey, nameKey_symm, ← idxKey_eq_nameKey]
      exact hm
  | none =>
    cases hm : alookup s.edgesMap (idxKey s.specs.directed ui vi) with
    | none => rfl
    | some l =>
      exfalso
      obtain ⟨x, y, hx, hy, hxy⟩ := he.ofMap _ (alookup_mem _ _ _ hm)
      simp only at hx hy hxy
      rcases nameKey_cases s.specs.directed ui vi with hk | ⟨hd, hk⟩
      · rw [idxKey_eq_nameKey, hk] at hx hy
        simp only at hx hy
        rw [hun] at hx; rw [hvn] at hy
        cases hx; cases hy
        rw [hl] at hxy; cases hxy
      · rw [idxKey_eq_nameKey, hk] at hx hy
        simp only at hx hy
        rw [hvn] at hx; rw [hun] at hy
        cases hx; cases hy
        rw [hd, nameKey_symm, ← hd, hl] at hxy; cases hxy

end C02
end Graphrs
