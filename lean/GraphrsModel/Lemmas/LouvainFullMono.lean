/-
  Lemmas for Props/C13TerminationFull.lean: more fuel never changes a result that was not caused by the fuel.
-/
import GraphrsModel.Lemmas.LouvainFullDefs
namespace Graphrs
open LouvainFull
namespace LF

/-- the result is not one of the two fuel stops -/
def NotFuel {α : Type} (r : Outcome (Except Stop α)) : Prop :=
  r ≠ .ok (.error .sweepFuel) ∧ r ≠ .ok (.error .levelFuel)

/-- a result of `sweeps` other than "fuel exhausted" is the result for every larger fuel -/
theorem sweeps_mono_gen (lv : Level) (m res : Rat) (order : List Nat) :
    ∀ (F F' : Nat) (st : LState), F ≤ F' → sweeps lv m res order F st ≠ .ok none →
      sweeps lv m res order F' st = sweeps lv m res order F st := by
  intro F
  induction F with
  | zero => intro F' st _ h; exact absurd rfl h
  | succ F ih =>
    intro F' st hle h
    obtain ⟨G, rfl⟩ : ∃ G, F' = G + 1 := ⟨F' - 1, by omega⟩
    unfold sweeps at h ⊢
    simp only [bind, Outcome.bind] at h ⊢
    generalize List.foldl _ _ order = o at h ⊢
    cases o with
    | err k => rfl
    | panic k => rfl
    | ok st1 =>
      simp only at h ⊢
      by_cases hmv : st1.moves > 0
      · simp only [if_pos hmv] at h ⊢
        exact ih G st1 (by omega) h
      · simp only [if_neg hmv]

/-- **monotonicity of `sweeps`** -/
theorem sweeps_mono {lv : Level} {m res : Rat} {order : List Nat} {F F' : Nat} {st st' : LState} (hle : F ≤ F')
    (h : sweeps lv m res order F st = .ok (some st')) : sweeps lv m res order F' st = .ok (some st') := by
  rw [sweeps_mono_gen lv m res order F F' st hle (by rw [h]; simp), h]

theorem computeOneLevelW_mono {lv : Level} {m res : Rat} {partition : List (List Nat)} {perm : List Nat} {F F' : Nat}
    (hle : F ≤ F') (h : computeOneLevelW lv m res partition perm F ≠ .ok (.error .sweepFuel)) :
    computeOneLevelW lv m res partition perm F' = computeOneLevelW lv m res partition perm F := by
  unfold computeOneLevelW at h ⊢
  simp only [bind, Outcome.bind] at h ⊢
  cases hdi : degreeInformation lv.g partition.length with
  | err k => rfl
  | panic k => rfl
  | ok di =>
    simp only [hdi] at h ⊢
    rw [sweeps_mono_gen lv m res _ F F' _ hle]
    intro hc
    rw [hc] at h
    exact h rfl

/-- **monotonicity of `computeOneLevel`** -/
theorem computeOneLevel_mono {lv : Level} {m res : Rat} {partition : List (List Nat)} {perm : List Nat} {F F' : Nat}
    {r : List (List Nat) × List (List Nat) × Bool} (hle : F ≤ F')
    (h : computeOneLevel lv m res partition perm F = .ok (some r)) :
    computeOneLevel lv m res partition perm F' = .ok (some r) := by
  rw [computeOneLevel_erase] at h ⊢
  have hne : computeOneLevelW lv m res partition perm F ≠ .ok (.error .sweepFuel) := by
    intro hc; rw [hc] at h; cases h
  rw [computeOneLevelW_mono hle hne, h]

theorem levelLoopW_mono (weighted : Bool) (res threshold m : Rat) (perms : List (List Nat)) (F1 F1' : Nat)
    (h1 : F1 ≤ F1') :
    ∀ (F2 F2' : Nat) (lv : Level) (partition inner : List (List Nat)) (improvement : Bool) (modularity : Rat)
      (acc : List (List (List Nat))), F2 ≤ F2' →
    NotFuel (levelLoopW weighted res threshold m perms F1 F2 lv partition inner improvement modularity acc) →
    levelLoopW weighted res threshold m perms F1' F2' lv partition inner improvement modularity acc =
      levelLoopW weighted res threshold m perms F1 F2 lv partition inner improvement modularity acc := by
  intro F2
  induction F2 with
  | zero => intro F2' lv partition inner improvement modularity acc _ h; exact absurd rfl h.2
  | succ F2 ih =>
    intro F2' lv partition inner improvement modularity acc hle h
    obtain ⟨G, rfl⟩ : ∃ G, F2' = G + 1 := ⟨F2' - 1, by omega⟩
    unfold levelLoopW at h ⊢
    by_cases himp : improvement = true
    · simp only [himp, Bool.not_true, Bool.false_eq_true, if_false, bind, Outcome.bind] at h ⊢
      generalize (lv.g.modularity inner weighted res).unwrap "louvain_partitions: modularity().unwrap()" = om at h ⊢
      cases om with
      | err k => rfl
      | panic k => rfl
      | ok omod =>
        cases omod with
        | none => rfl
        | some newMod =>
          simp only at h ⊢
          by_cases hth : newMod - modularity ≤ threshold
          · simp only [hth, if_true]
          · simp only [hth, if_false] at h ⊢
            generalize generateGraph lv inner = og at h ⊢
            cases og with
            | err k => rfl
            | panic k => rfl
            | ok lv' =>
              simp only at h ⊢
              have hne : computeOneLevelW lv' m res partition (perms[lv'.g.numNodes]?.getD []) F1 ≠
                  .ok (.error .sweepFuel) := by
                intro hc
                rw [hc] at h
                exact h.1 rfl
              rw [computeOneLevelW_mono h1 hne]
              cases hcol : computeOneLevelW lv' m res partition (perms[lv'.g.numNodes]?.getD []) F1 with
              | err k => rfl
              | panic k => rfl
              | ok r =>
                rw [hcol] at h
                cases r with
                | error s => rfl
                | ok r =>
                  obtain ⟨p, i, imp⟩ := r
                  simp only at h ⊢
                  exact ih G lv' p i imp newMod _ (by omega) h
    · have himp' : improvement = false := by simpa using himp
      simp only [himp', Bool.not_false, if_true]

/-- **monotonicity of `levelLoop`** (in both fuels) -/
theorem levelLoop_mono {weighted : Bool} {res threshold m : Rat} {perms : List (List Nat)} {F1 F1' F2 F2' : Nat}
    (h1 : F1 ≤ F1') (h2 : F2 ≤ F2') {lv : Level} {partition inner : List (List Nat)} {improvement : Bool}
    {modularity : Rat} {acc levels : List (List (List Nat))}
    (h : levelLoop weighted res threshold m perms F1 F2 lv partition inner improvement modularity acc = .ok (some levels)) :
    levelLoop weighted res threshold m perms F1' F2' lv partition inner improvement modularity acc = .ok (some levels) := by
  rw [levelLoop_erase] at h ⊢
  have hne : NotFuel (levelLoopW weighted res threshold m perms F1 F2 lv partition inner improvement modularity acc) := by
    constructor <;> (intro hc; rw [hc] at h; cases h)
  rw [levelLoopW_mono weighted res threshold m perms F1 F1' h1 F2 F2' lv partition inner improvement modularity acc h2 hne, h]

theorem lpTailW_mono {F1 F1' F2 F2' : Nat} (h1 : F1 ≤ F1') (h2 : F2 ≤ F2') (lv : Level) (weighted : Bool)
    (res threshold : Rat) (perms : List (List Nat))
    (h : NotFuel (lpTailW F1 F2 lv weighted res threshold perms)) :
    lpTailW F1' F2' lv weighted res threshold perms = lpTailW F1 F2 lv weighted res threshold perms := by
  unfold lpTailW at h ⊢
  simp only [bind, Outcome.bind] at h ⊢
  generalize (lv.g.modularity ((List.range lv.g.numNodes).map fun i => [i]) weighted res).unwrap
      "louvain_partitions: modularity().unwrap()" = om at h ⊢
  cases om with
  | err k => rfl
  | panic k => rfl
  | ok omod =>
    cases omod with
    | none => rfl
    | some mod0 =>
      simp only at h ⊢
      have hne : computeOneLevelW lv (mOf lv weighted) res ((List.range lv.g.numNodes).map fun i => [i])
          (perms[lv.g.numNodes]?.getD []) F1 ≠ .ok (.error .sweepFuel) := by
        intro hc
        rw [hc] at h
        exact h.1 rfl
      rw [computeOneLevelW_mono h1 hne]
      cases hcol : computeOneLevelW lv (mOf lv weighted) res ((List.range lv.g.numNodes).map fun i => [i])
          (perms[lv.g.numNodes]?.getD []) F1 with
      | err k => rfl
      | panic k => rfl
      | ok r =>
        rw [hcol] at h
        cases r with
        | error s => rfl
        | ok r =>
          obtain ⟨p, i, imp⟩ := r
          simp only at h ⊢
          exact levelLoopW_mono weighted res threshold _ perms F1 F1' h1 F2 F2' lv p i true mod0 [] h2 h

/-- a result of `louvainPartitionsW` that is not a fuel stop is the result for all larger fuels -/
theorem louvainPartitionsW_mono {F1 F1' F2 F2' : Nat} (h1 : F1 ≤ F1') (h2 : F2 ≤ F2') (s : Store) (weighted : Bool)
    (res threshold : Rat) (perms : List (List Nat))
    (h : NotFuel (louvainPartitionsW F1 F2 s weighted res threshold perms)) :
    louvainPartitionsW F1' F2' s weighted res threshold perms = louvainPartitionsW F1 F2 s weighted res threshold perms := by
  unfold louvainPartitionsW at h ⊢
  simp only [bind, Outcome.bind] at h ⊢
  cases hc : convertGraph s weighted with
  | err k => rfl
  | panic k => rfl
  | ok lv =>
    rw [hc] at h
    exact lpTailW_mono h1 h2 lv weighted res threshold perms h

/-- **monotonicity of `louvainPartitionsF`**: a list of levels obtained with some fuels is obtained with all larger fuels -/
theorem louvainPartitionsF_mono {F1 F1' F2 F2' : Nat} (h1 : F1 ≤ F1') (h2 : F2 ≤ F2') {s : Store} {weighted : Bool}
    {res threshold : Rat} {perms : List (List Nat)} {levels : List (List (List Nat))}
    (h : louvainPartitionsF F1 F2 s weighted res threshold perms = .ok (some levels)) :
    louvainPartitionsF F1' F2' s weighted res threshold perms = .ok (some levels) := by
  rw [louvainPartitionsF_erase] at h ⊢
  have hne : NotFuel (louvainPartitionsW F1 F2 s weighted res threshold perms) := by
    constructor <;> (intro hc; rw [hc] at h; cases h)
  rw [louvainPartitionsW_mono h1 h2 s weighted res threshold perms hne, h]

end LF
end Graphrs
