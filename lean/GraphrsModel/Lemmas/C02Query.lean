/-
  Helper lemmas for C02: the read API against the abstract graph.
-/
import GraphrsModel.Lemmas.C02Inv
namespace Graphrs
namespace C02
open Store

/-! ### node lookups -/

theorem find?_of_names (l : List Node) (x i : Nat) (hn : (l.map (·.name)).Nodup)
    (hi : (l.map (·.name))[i]? = some x) : l.find? (·.name == x) = l[i]? := by
  induction l generalizing i with
  | nil => simp at hi
  | cons a l ih =>
    simp only [List.map_cons, List.nodup_cons] at hn
    cases i with
    | zero =>
      simp only [List.map_cons, List.getElem?_cons_zero, Option.some.injEq] at hi
      simp [hi]
    | succ i =>
      simp only [List.map_cons, List.getElem?_cons_succ] at hi
      have : a.name ≠ x := by
        intro e
        exact hn.1 (e ▸ List.mem_of_getElem? hi)
      have hb : (a.name == x) = false := by simp [this]
      simp only [List.find?_cons, hb, List.getElem?_cons_succ]
      exact ih i hn.2 hi

theorem findIdx_of_names (l : List Node) (x i : Nat) (hn : (l.map (·.name)).Nodup)
    (hi : (l.map (·.name))[i]? = some x) : l.findIdx (·.name == x) = i := by
  induction l generalizing i with
  | nil => simp at hi
  | cons a l ih =>
    simp only [List.map_cons, List.nodup_cons] at hn
    cases i with
    | zero =>
      simp only [List.map_cons, List.getElem?_cons_zero, Option.some.injEq] at hi
      simp [List.findIdx_cons, hi]
    | succ i =>
      simp only [List.map_cons, List.getElem?_cons_succ] at hi
      have : a.name ≠ x := by
        intro e
        exact hn.1 (e ▸ List.mem_of_getElem? hi)
      have hb : (a.name == x) = false := by simp [this]
      simp [List.findIdx_cons, hb, ih i hn.2 hi]

theorem getNode_eq {s : Store} (hn : NodesP s) (x : Nat) : s.getNode x = s.abs.getNode x := by
  unfold Store.getNode Store.getNodeByIndex Abs.getNode Store.abs
  simp only
  cases h : alookup s.nodesMap x with
  | some i =>
    simp only [hn.rev]
    exact (find?_of_names _ x i hn.namesNodup ((hn.link x i).1 h)).symm
  | none =>
    symm
    rw [List.find?_eq_none]
    intro nd hnd hx
    have : x ∈ s.names := by
      simp only [beq_iff_eq] at hx
      exact hx ▸ List.mem_map_of_mem hnd
    obtain ⟨i, hi⟩ := (hn.mem_names x).1 this
    rw [h] at hi; cases hi

theorem hasNode_iff {s : Store} (hn : NodesP s) (x : Nat) :
    s.hasNode x = true ↔ ∃ i, alookup s.nodesMap x = some i := by
  unfold Store.hasNode Store.getNode Store.getNodeByIndex
  cases h : alookup s.nodesMap x with
  | none => simp
  | some i =>
    simp only [hn.rev]
    have := hn.idx_lt h
    simp [this]

theorem hasNode_mem {s : Store} (hn : NodesP s) (x : Nat) : s.hasNode x = true ↔ x ∈ s.names := by
  rw [hasNode_iff hn, hn.mem_names]

/-! ### the edge list under a key -/

theorem filter_key (m : List ((Nat × Nat) × List Edge)) (k : Nat × Nat)
    (hk : (m.map (·.1)).Nodup) (hown : ∀ kv ∈ m, ∀ e ∈ kv.2, (e.u, e.v) = kv.1) :
    (m.flatMap (·.2)).filter (fun e => (e.u, e.v) == k) = (alookup m k).getD [] := by
  induction m with
  | nil => simp [alookup]
  | cons p m ih =>
    obtain ⟨k', l⟩ := p
    simp only [List.map_cons, List.nodup_cons] at hk
    have ih' := ih hk.2 (fun kv hkv => hown kv (List.mem_cons_of_mem _ hkv))
    have hl : ∀ e ∈ l, (e.u, e.v) = k' := hown (k', l) List.mem_cons_self
    simp only [List.flatMap_cons, List.filter_append, ih']
    by_cases hkk : k' = k
    · subst hkk
      have hnone : alookup m k' = none := (alookup_none m k').2 hk.1
      have : l.filter (fun e => (e.u, e.v) == k') = l := by
        rw [List.filter_eq_self]
        intro e he
        simp [hl e he]
      simp [alookup, hnone, this]
    · have : l.filter (fun e => (e.u, e.v) == k) = [] := by
        rw [List.filter_eq_nil_iff]
        intro e he
        simp [hl e he, hkk]
      simp [alookup, hkk, this]

theorem sameKey_eq_joins (d : Bool) (e : Edge) (x y : Nat) : Abs.sameKey d e x y = joins d e x y := rfl

theorem EdgesP.canon_edge {s : Store} (he : EdgesP s) {e : Edge} (hmem : e ∈ s.allEdges) :
    s.specs.directed = true ∨ e.u ≤ e.v := by
  obtain ⟨kv, hkv, hel⟩ := (mem_allEdges s e).1 hmem
  have hown := he.own kv hkv e hel
  have := he.canon kv hkv
  rw [← hown] at this
  exact this

theorem EdgesP.edge_names {s : Store} (he : EdgesP s) {e : Edge} (hmem : e ∈ s.allEdges) :
    e.u ∈ s.names ∧ e.v ∈ s.names := by
  obtain ⟨kv, hkv, hel⟩ := (mem_allEdges s e).1 hmem
  have hown := he.own kv hkv e hel
  have := he.inNames kv hkv
  rw [← hown] at this
  exact this

theorem between_eq {s : Store} (he : EdgesP s) (u v : Nat) :
    s.abs.between s.specs.directed u v = (alookup s.edges (nameKey s.specs.directed u v)).getD [] := by
  unfold Abs.between Store.abs
  simp only
  rw [← filter_key s.edges _ he.keys he.own]
  apply List.filter_congr
  intro e hmem
  rw [sameKey_eq_joins]
  have := joins_key s.specs.directed e u v (he.canon_edge hmem)
  rw [Bool.eq_iff_iff, this]
  simp

theorem alookup_edges_ne {s : Store} (he : EdgesP s) (k : Nat × Nat) (l : List Edge)
    (h : alookup s.edges k = some l) : l ≠ [] := he.ne _ (alookup_mem _ _ _ h)

/-- `edgesByIdx` at the positions of two names is the `between` list of the abstract graph -/
theorem edgesByIdx_eq {s : Store} (hn : NodesP s) (he : EdgesP s) {u v ui vi : Nat}
    (hu : alookup s.nodesMap u = some ui) (hv : alookup s.nodesMap v = some vi) :
    (s.edgesByIdx ui vi = none ∧ s.abs.between s.specs.directed u v = []) ∨
    (∃ e l, s.edgesByIdx ui vi = some (e :: l) ∧ s.abs.between s.specs.directed u v = e :: l) := by
  have h1 : s.edgesByIdx ui vi = alookup s.edgesMap (idxKey s.specs.directed ui vi) := rfl
  rw [h1, edgesMap_eq_edges hn he hu hv, between_eq he]
  cases hl : alookup s.edges (nameKey s.specs.directed u v) with
  | none => exact .inl ⟨rfl, rfl⟩
  | some l =>
    cases l with
    | nil => exact absurd rfl (alookup_edges_ne he _ _ hl)
    | cons e l => exact .inr ⟨e, l, rfl, rfl⟩

end C02
end Graphrs
