/-
  Directed weighted clustering: `get_all_directed_triangles` (real instance) in closed form and against the Fagiolo sum
  `Σ_j Σ_k s(v,j) s(j,k) s(k,v)` of Spec/Cluster.lean (`weightedFagioloAtG`).
-/
import GraphrsModel.Lemmas.C11WUndir
namespace Graphrs
namespace C11W
open C02 C11aux C11M

/-! ### real indicator sums over a duplicate-free universe -/

noncomputable def indR (l : List Nat) (j : Nat) : ℝ := if j ∈ l then 1 else 0

theorem indR_eq_ind (l : List Nat) (j : Nat) : indR l j = ((ind l j : Nat) : ℝ) := by
  unfold indR ind
  split <;> simp

theorem sum_indR (ns L : List Nat) (hns : ns.Nodup) (hL : L.Nodup) (hsub : ∀ x ∈ L, x ∈ ns) (f : Nat → ℝ) :
    (L.map f).sum = (ns.map fun j => indR L j * f j).sum := by
  have e : (ns.map fun j => indR L j * f j) = ns.map fun j => if decide (j ∈ L) = true then f j else 0 := by
    apply List.map_congr_left
    intro j _
    unfold indR
    by_cases h : j ∈ L <;> simp [h]
  rw [e, ← sum_filter_real]
  apply List.Perm.sum_eq
  apply List.Perm.map
  apply perm_of_nodup_mem hL (hns.filter _)
  intro x
  simp only [List.mem_filter, decide_eq_true_eq]
  exact ⟨fun h => ⟨hsub x h, h⟩, fun h => h.2⟩

theorem sum_sinter_indR (ns L1 L2 : List Nat) (hns : ns.Nodup) (h1 : L1.Nodup) (hsub : ∀ x ∈ L1, x ∈ ns) (f : Nat → ℝ) :
    ((sinter L1 L2).map f).sum = (ns.map fun k => indR L1 k * indR L2 k * f k).sum := by
  unfold sinter
  rw [sum_filter_real, sum_indR ns L1 hns h1 hsub]
  apply congrArg
  apply List.map_congr_left
  intro k _
  unfold indR
  by_cases h : k ∈ L2 <;> simp [h]

theorem foldl_add_map {α : Type} (l : List α) (f : α → ℝ) (t0 : ℝ) :
    l.foldl (fun t j => t + f j) t0 = t0 + (l.map f).sum := by
  induction l generalizing t0 with
  | nil => simp
  | cons a l ih => rw [List.foldl_cons, ih, List.map_cons, List.sum_cons]; ring

/-! ### the definition's entries -/

/-- `ŵ^(1/3)` of the directed arc `u → w` -/
noncomputable def cR (a : Abs) (u w : Nat) : ℝ := rcbrt (wR a true u w)

/-- the symmetrised entry `s(u,w) = [u→w] ŵ_uw^(1/3) + [w→u] ŵ_wu^(1/3)` of the definition -/
noncomputable def sR (a : Abs) (u w : Nat) : ℝ :=
  (if a.arc u w == 1 then cR a u w else 0) + (if a.arc w u == 1 then cR a w u else 0)

theorem ind_beq_one (L : List Nat) (j : Nat) (x y : ℝ) : (if (ind L j == 1) = true then x else y) = indR L j * x + (1 - indR L j) * y := by
  unfold ind indR
  by_cases h : j ∈ L <;> simp [h]

/-- `s(i, j)` through the model's lists at `i` -/
theorem sR_left (s : Store) (h : s.wf = true) (hd : s.specs.directed = true) (i : Nat) (hi : s.hasNode i = true) (j : Nat) :
    sR s.abs i j = indR (mS s i) j * cR s.abs i j + indR (mP s i) j * cR s.abs j i := by
  unfold sR
  rw [arc_out s h hd i hi, arc_in s h hd i hi, ind_beq_one, ind_beq_one]
  ring

/-- `s(k, i)` through the model's lists at `i` -/
theorem sR_right (s : Store) (h : s.wf = true) (hd : s.specs.directed = true) (i : Nat) (hi : s.hasNode i = true) (k : Nat) :
    sR s.abs k i = indR (mP s i) k * cR s.abs k i + indR (mS s i) k * cR s.abs i k := by
  unfold sR
  rw [arc_out s h hd i hi, arc_in s h hd i hi, ind_beq_one, ind_beq_one]
  ring

/-! ### the model in closed form -/

noncomputable def wt (s : Store) (u v : Nat) : ℝ := s.normWG R (s.maxWeightG R) u v

/-- the four intersection sums of one iteration of `get_all_directed_triangles` (`ab` is the weight of the arc
    between `i` and `j` the iteration runs over) -/
noncomputable def quad (s : Store) (i j : Nat) (ab : ℝ) : ℝ :=
  Store.csumG R ((sinter (mP s i) (mP s j)).map fun k => rcbrt (ab * wt s k i * wt s k j)) +
  Store.csumG R ((sinter (mP s i) (mS s j)).map fun k => rcbrt (ab * wt s k i * wt s j k)) +
  Store.csumG R ((sinter (mS s i) (mP s j)).map fun k => rcbrt (ab * wt s i k * wt s k j)) +
  Store.csumG R ((sinter (mS s i) (mS s j)).map fun k => rcbrt (ab * wt s i k * wt s j k))

theorem allDir_pred_ok (s : Store) (h : s.wf = true) (hd : s.specs.directed = true) (i : Nat) (hi : s.hasNode i = true) :
    s.allDirectedTrianglesG R (s.maxWeightG R) i (mP s i) (mS s i) true
      = .ok (((mP s i).map fun j => quad s i j (wt s j i)).sum) := by
  unfold Store.allDirectedTrianglesG
  show List.foldl _ _ (mP s i) = _
  rw [foldl_ok_gen _ (fun t j => t + quad s i j (wt s j i))]
  · rw [foldl_add_map]
    show Outcome.ok ((0 : ℝ) + _) = _
    rw [zero_add]
  · intro t j hj
    have hj' : s.hasNode j = true := (hasNode_mem' s h j).2 (mP_names s h hd i hi j hj)
    simp only [adjWithout_pred s h hd j hj', adjWithout_succ s h hd j hj', bind, Outcome.bind]
    rfl

theorem allDir_succ_ok (s : Store) (h : s.wf = true) (hd : s.specs.directed = true) (i : Nat) (hi : s.hasNode i = true) :
    s.allDirectedTrianglesG R (s.maxWeightG R) i (mP s i) (mS s i) false
      = .ok (((mS s i).map fun j => quad s i j (wt s i j)).sum) := by
  unfold Store.allDirectedTrianglesG
  show List.foldl _ _ (mS s i) = _
  rw [foldl_ok_gen _ (fun t j => t + quad s i j (wt s i j))]
  · rw [foldl_add_map]
    show Outcome.ok ((0 : ℝ) + _) = _
    rw [zero_add]
  · intro t j hj
    have hj' : s.hasNode j = true := (hasNode_mem' s h j).2 (mS_names s h hd i hi j hj)
    simp only [adjWithout_pred s h hd j hj', adjWithout_succ s h hd j hj', bind, Outcome.bind]
    rfl

/-! ### weights along arcs -/

theorem wt_succ (s : Store) (h : s.wf = true) (hd : s.specs.directed = true) (hm : s.specs.multi = false)
    (hw : PosW s.abs) (i : Nat) (hi : s.hasNode i = true) (k : Nat) (hk : k ∈ mS s i) :
    wt s i k = wR s.abs true i k := by
  have hk' := ((mem_mS s h hd i hi k).1 hk).2
  obtain ⟨e, he, h1, h2⟩ := (mem_succOf _ _ _).1 hk'
  have := normW_eq s h hm hw i k (by
    rw [hd]; exact between_ne_nil_of_edge _ _ _ _ e he (by simp [Abs.sameKey, h1, h2]))
  rw [hd] at this
  exact this

theorem wt_pred (s : Store) (h : s.wf = true) (hd : s.specs.directed = true) (hm : s.specs.multi = false)
    (hw : PosW s.abs) (i : Nat) (hi : s.hasNode i = true) (k : Nat) (hk : k ∈ mP s i) :
    wt s k i = wR s.abs true k i := by
  have hk' := ((mem_mP s h hd i hi k).1 hk).2
  obtain ⟨e, he, h1, h2⟩ := (mem_predOf _ _ _).1 hk'
  have := normW_eq s h hm hw k i (by
    rw [hd]; exact between_ne_nil_of_edge _ _ _ _ e he (by simp [Abs.sameKey, h1, h2]))
  rw [hd] at this
  exact this

/-- `Σ_k s(j,k) s(k,i)` -/
noncomputable def Q (s : Store) (i j : Nat) : ℝ := (s.names.map fun k => sR s.abs j k * sR s.abs k i).sum

/-- one iteration: the four intersection sums are `ŵ_ab^(1/3) · Σ_k s(j,k) s(k,i)` -/
theorem quad_eq (s : Store) (h : s.wf = true) (hd : s.specs.directed = true) (hm : s.specs.multi = false)
    (hw : PosW s.abs) (i j : Nat) (hi : s.hasNode i = true) (hj : s.hasNode j = true) (x : ℝ) :
    quad s i j x = rcbrt x * Q s i j := by
  have hns := names_nodup s h
  unfold quad Q
  have e1 : ((sinter (mP s i) (mP s j)).map fun k => rcbrt (x * wt s k i * wt s k j))
      = (sinter (mP s i) (mP s j)).map fun k => rcbrt x * (cR s.abs k i * cR s.abs k j) := by
    apply List.map_congr_left
    intro k hk
    have hk1 := (List.mem_filter.1 hk).1
    have hk2 : k ∈ mP s j := by simpa [sinter] using (List.mem_filter.1 hk).2
    rw [wt_pred s h hd hm hw i hi k hk1, wt_pred s h hd hm hw j hj k hk2, rcbrt_mul, rcbrt_mul]
    unfold cR; ring
  have e2 : ((sinter (mP s i) (mS s j)).map fun k => rcbrt (x * wt s k i * wt s j k))
      = (sinter (mP s i) (mS s j)).map fun k => rcbrt x * (cR s.abs k i * cR s.abs j k) := by
    apply List.map_congr_left
    intro k hk
    have hk1 := (List.mem_filter.1 hk).1
    have hk2 : k ∈ mS s j := by simpa [sinter] using (List.mem_filter.1 hk).2
    rw [wt_pred s h hd hm hw i hi k hk1, wt_succ s h hd hm hw j hj k hk2, rcbrt_mul, rcbrt_mul]
    unfold cR; ring
  have e3 : ((sinter (mS s i) (mP s j)).map fun k => rcbrt (x * wt s i k * wt s k j))
      = (sinter (mS s i) (mP s j)).map fun k => rcbrt x * (cR s.abs i k * cR s.abs k j) := by
    apply List.map_congr_left
    intro k hk
    have hk1 := (List.mem_filter.1 hk).1
    have hk2 : k ∈ mP s j := by simpa [sinter] using (List.mem_filter.1 hk).2
    rw [wt_succ s h hd hm hw i hi k hk1, wt_pred s h hd hm hw j hj k hk2, rcbrt_mul, rcbrt_mul]
    unfold cR; ring
  have e4 : ((sinter (mS s i) (mS s j)).map fun k => rcbrt (x * wt s i k * wt s j k))
      = (sinter (mS s i) (mS s j)).map fun k => rcbrt x * (cR s.abs i k * cR s.abs j k) := by
    apply List.map_congr_left
    intro k hk
    have hk1 := (List.mem_filter.1 hk).1
    have hk2 : k ∈ mS s j := by simpa [sinter] using (List.mem_filter.1 hk).2
    rw [wt_succ s h hd hm hw i hi k hk1, wt_succ s h hd hm hw j hj k hk2, rcbrt_mul, rcbrt_mul]
    unfold cR; ring
  rw [e1, e2, e3, e4, csumG_real, csumG_real, csumG_real, csumG_real,
    sum_sinter_indR s.names (mP s i) (mP s j) hns (mP_nodup s i) (mP_names s h hd i hi),
    sum_sinter_indR s.names (mP s i) (mS s j) hns (mP_nodup s i) (mP_names s h hd i hi),
    sum_sinter_indR s.names (mS s i) (mP s j) hns (mS_nodup s i) (mS_names s h hd i hi),
    sum_sinter_indR s.names (mS s i) (mS s j) hns (mS_nodup s i) (mS_names s h hd i hi),
    ← sum_map_add_real, ← sum_map_add_real, ← sum_map_add_real, ← sum_map_mul_left_real]
  congr 1
  apply List.map_congr_left
  intro k _
  rw [sR_left s h hd j hj k, sR_right s h hd i hi k]
  ring

/-- the two loops of the model add up to the Fagiolo triple sum at `i` -/
theorem dir_total (s : Store) (h : s.wf = true) (hd : s.specs.directed = true) (hm : s.specs.multi = false)
    (hw : PosW s.abs) (i : Nat) (hi : s.hasNode i = true) :
    ((mP s i).map fun j => quad s i j (wt s j i)).sum + ((mS s i).map fun j => quad s i j (wt s i j)).sum
      = (s.names.flatMap fun j => s.names.map fun k => sR s.abs i j * sR s.abs j k * sR s.abs k i).sum := by
  have hns := names_nodup s h
  have e1 : ((mP s i).map fun j => quad s i j (wt s j i)) = (mP s i).map fun j => cR s.abs j i * Q s i j := by
    apply List.map_congr_left
    intro j hj
    have hj' : s.hasNode j = true := (hasNode_mem' s h j).2 (mP_names s h hd i hi j hj)
    rw [quad_eq s h hd hm hw i j hi hj', wt_pred s h hd hm hw i hi j hj]
    rfl
  have e2 : ((mS s i).map fun j => quad s i j (wt s i j)) = (mS s i).map fun j => cR s.abs i j * Q s i j := by
    apply List.map_congr_left
    intro j hj
    have hj' : s.hasNode j = true := (hasNode_mem' s h j).2 (mS_names s h hd i hi j hj)
    rw [quad_eq s h hd hm hw i j hi hj', wt_succ s h hd hm hw i hi j hj]
    rfl
  rw [e1, e2, sum_indR s.names (mP s i) hns (mP_nodup s i) (mP_names s h hd i hi),
    sum_indR s.names (mS s i) hns (mS_nodup s i) (mS_names s h hd i hi), ← sum_map_add_real, sum_flatMap_real]
  congr 1
  apply List.map_congr_left
  intro j _
  have : (s.names.map fun k => sR s.abs i j * sR s.abs j k * sR s.abs k i)
      = s.names.map fun k => sR s.abs i j * (sR s.abs j k * sR s.abs k i) := by
    apply List.map_congr_left
    intro k _
    ring
  rw [this, sum_map_mul_left_real, sR_left s h hd i hi j]
  unfold Q
  ring

end C11W
end Graphrs
