/-
  The index arcs `Store.idxArcs` of a reachable store against the abstract name arcs: simulation, non-negativity,
  `Store.vecWf`; transfer of `walkCost` along the simulation; the run of `Store.runOne`.
-/
import GraphrsModel.Props.C04Model
import GraphrsModel.Props.C03Rows
import GraphrsModel.Lemmas.C06Transfer
import GraphrsModel.Lemmas.C08Names
namespace Graphrs
namespace C08A
open C06T

/-! ## the store -/

theorem nodesP (s : Store) (h : s.wf = true) : C02.NodesP s := C02.nodesP_of s (C09M.wf_parts s h).1

theorem vecWf_of_wf (s : Store) (h : s.wf = true) : s.vecWf := by
  refine ⟨(nodesP s h).succVecLen, ?_⟩
  intro row hrow a ha
  obtain ⟨i, hi⟩ := List.mem_iff_getElem?.1 hrow
  exact C03_indexes_in_range s h i a (Or.inl (by rw [hi]; exact ha))

theorem mem_idxArcs (s : Store) (weighted : Bool) (u x : Nat) (w : Int) :
    (u, x, w) ∈ s.idxArcs weighted ↔ (u, x, w) ∈ rowArcs weighted u (s.succVec[u]?.getD []) :=
  ⟨(idxArcs_rowsOk s weighted).sub u x w, (idxArcs_rowsOk s weighted).sup u _⟩

theorem lt_of_row_mem (s : Store) (h : s.wf = true) (u : Nat) (a : Adj) (ha : a ∈ s.succVec[u]?.getD []) :
    u < s.nodesVec.length := by
  rw [← (nodesP s h).succVecLen]
  cases hr : s.succVec[u]? with
  | none => rw [hr] at ha; simp at ha
  | some row => exact (List.getElem?_eq_some_iff.1 hr).1

theorem mem_rowArcs_false (v : Nat) (row : List Adj) (u x : Nat) (w : Int) :
    (u, x, w) ∈ rowArcs false v row ↔ (u = v ∧ w = 1 ∧ ∃ a ∈ row, a.1 = x) := by
  unfold rowArcs
  simp only [Bool.false_eq_true, if_false, Option.map_some, List.mem_filterMap, Option.some.injEq, Prod.mk.injEq]
  constructor
  · rintro ⟨a, ha, e1, e2, e3⟩
    exact ⟨e1.symm, e3.symm, a, ha, e2⟩
  · rintro ⟨e1, e3, a, ha, e2⟩
    exact ⟨a, ha, e1.symm, e2, e3.symm⟩

theorem mem_idxArcs_false (s : Store) (h : s.wf = true) (u x : Nat) (w : Int) :
    (u, x, w) ∈ s.idxArcs false ↔ (u < s.nodesVec.length ∧ w = 1 ∧ ∃ a ∈ s.succVec[u]?.getD [], a.1 = x) := by
  rw [mem_idxArcs, mem_rowArcs_false]
  constructor
  · rintro ⟨_, hw, a, ha, e⟩
    exact ⟨lt_of_row_mem s h u a ha, hw, a, ha, e⟩
  · rintro ⟨_, hw, a, ha, e⟩
    exact ⟨rfl, hw, a, ha, e⟩

theorem mem_idxArcs_true (s : Store) (h : s.wf = true) (u x : Nat) (w : Int) :
    (u, x, w) ∈ s.idxArcs true ↔ (u < s.nodesVec.length ∧ (x, some w) ∈ s.succVec[u]?.getD []) := by
  rw [mem_idxArcs, mem_rowArcs_true]
  constructor
  · rintro ⟨_, ha⟩
    exact ⟨lt_of_row_mem s h u _ ha, ha⟩
  · rintro ⟨_, ha⟩
    exact ⟨rfl, ha⟩

/-- **index arcs and abstract arcs simulate each other** on a store with the coupling and the entry-level invariant -/
theorem store_sim (s : Store) (h : s.wf = true) (hent : s.entOk = true) (weighted : Bool)
    (hc : weighted = true → ∀ e ∈ s.allEdges, ∃ c, e.w = some c ∧ 0 ≤ c) :
    ArcSim s.names (s.idxArcs weighted) (s.abs.arcs s.specs.directed weighted) := by
  cases weighted with
  | false => exact store_sim_unit s h _ (mem_idxArcs_false s h)
  | true =>
    have hall : ∀ e ∈ s.allEdges, ∃ c, e.w = some c := by
      intro e he
      obtain ⟨c, hc1, _⟩ := hc rfl e he
      exact ⟨c, hc1⟩
    exact store_sim_weighted s h _ (mem_idxArcs_true s h) (C03_entries_weighted s hent hall).1 hall

theorem abs_arcs_nonneg (s : Store) (weighted : Bool)
    (hc : weighted = true → ∀ e ∈ s.allEdges, ∃ c, e.w = some c ∧ 0 ≤ c) :
    ∀ a ∈ s.abs.arcs s.specs.directed weighted, 0 ≤ a.2.2 := by
  intro a ha
  obtain ⟨x, y, c⟩ := a
  rw [mem_abs_arcs] at ha
  obtain ⟨e, he, hce, _⟩ := ha
  cases weighted with
  | false =>
    simp only [Bool.false_eq_true, if_false, Option.some.injEq] at hce
    simp only
    omega
  | true =>
    simp only [if_true] at hce
    obtain ⟨c2, hc2, hpos⟩ := hc rfl e he
    rw [hce] at hc2
    cases hc2
    exact hpos

theorem idxArcs_nonneg (s : Store) (h : s.wf = true) (hent : s.entOk = true) (weighted : Bool)
    (hc : weighted = true → ∀ e ∈ s.allEdges, ∃ c, e.w = some c ∧ 0 ≤ c) :
    ∀ a ∈ s.idxArcs weighted, 0 ≤ a.2.2 := by
  intro a ha
  obtain ⟨i, j, c⟩ := a
  obtain ⟨x, y, c', _, _, hle, harc⟩ := (store_sim s h hent weighted hc).d1 i j c ha
  have := abs_arcs_nonneg s weighted hc _ harc
  simp only at this ⊢
  omega

/-! ## names of positions -/

theorem isIdx_of_names (s : Store) (h : s.wf = true) {i x : Nat} (hi : s.names[i]? = some x) :
    isIdx s i ∧ nameD s i = x := by
  unfold isIdx nameD
  rw [C02_getNodeByIndex s h i]
  show (∃ nd, s.nodesVec[i]? = some nd) ∧ ((s.nodesVec[i]?).map (·.name)).getD 0 = x
  rw [C02.names_getElem?] at hi
  cases hv : s.nodesVec[i]? with
  | none => rw [hv] at hi; simp at hi
  | some nd =>
    rw [hv] at hi
    simp only [Option.map_some, Option.some.injEq] at hi
    exact ⟨⟨nd, rfl⟩, by simpa using hi⟩

theorem names_of_lt (s : Store) {i : Nat} (hi : i < s.nodesVec.length) : s.names[i]? = some (s.names[i]'(by rw [C02.names_length]; exact hi)) :=
  List.getElem?_eq_getElem _

/-- an existing node has a position -/
theorem index_of_hasNode (s : Store) (h : s.wf = true) (x : Nat) (hx : s.hasNode x = true) :
    ∃ i, s.getNodeIndex x = .ok i ∧ s.names[i]? = some x ∧ i < s.nodesVec.length := by
  have hn := nodesP s h
  have hm := (C02.hasNode_mem hn x).1 hx
  obtain ⟨i, hi⟩ := (hn.mem_names x).1 hm
  refine ⟨i, by simp [Store.getNodeIndex, hi], (hn.link x i).1 hi, hn.idx_lt hi⟩

/-! ## `walkCost` along the simulation -/

theorem minArc_some {A : Arcs} {x y : Nat} {m : Int} (h : minArc A x y = some m) :
    (x, y, m) ∈ A ∧ ∀ w, (x, y, w) ∈ A → m ≤ w := by
  have hex : ∃ w, (x, y, w) ∈ A := by
    unfold minArc at h
    cases hcs : (A.filter fun a => a.1 == x && a.2.1 == y).map (·.2.2) with
    | nil => rw [hcs] at h; simp at h
    | cons c cs =>
      have : c ∈ (A.filter fun a => a.1 == x && a.2.1 == y).map (·.2.2) := by rw [hcs]; exact List.mem_cons_self ..
      rw [List.mem_map] at this
      obtain ⟨⟨a1, a2, a3⟩, ha, _⟩ := this
      rw [List.mem_filter] at ha
      obtain ⟨ha1, ha2⟩ := ha
      simp only [Bool.and_eq_true, beq_iff_eq] at ha2
      obtain ⟨e1, e2⟩ := ha2
      subst e1 e2
      exact ⟨a3, ha1⟩
  obtain ⟨w0, hw0⟩ := hex
  obtain ⟨m', hm', hmem, _⟩ := minArc_spec hw0
  rw [h] at hm'
  cases hm'
  refine ⟨hmem, fun w hw => ?_⟩
  obtain ⟨m'', hm'', _, hle⟩ := minArc_spec hw
  rw [h] at hm''
  cases hm''
  exact hle

/-- the cheapest index arc between two positions costs what the cheapest name arc between the two names costs -/
theorem sim_minArc {names : List Nat} {IA NA : Arcs} (hn : names.Nodup) (S : ArcSim names IA NA) {i j : Nat} {b : Int}
    (h : minArc IA i j = some b) :
    ∃ x y, names[i]? = some x ∧ names[j]? = some y ∧ Graphrs.minArc NA x y = some b := by
  obtain ⟨hmem, hmin⟩ := minArc_some h
  obtain ⟨x, y, c', hx, hy, hle, harc⟩ := S.d1 i j b hmem
  obtain ⟨m, hm, hmemN, hmle⟩ := minArc_spec harc
  obtain ⟨i2, j2, c'', hi2, hj2, hle2, harc2⟩ := S.d2 x y m hmemN
  have e1 : i2 = i := C03.names_inj hn hi2 hx
  have e2 : j2 = j := C03.names_inj hn hj2 hy
  subst e1 e2
  have := hmin c'' harc2
  have e : m = b := by omega
  subst e
  exact ⟨x, y, hx, hy, hm⟩

/-- **a path by positions that is a walk of cost `d` over the index arcs is, renamed, a walk of cost `d` over the name arcs** -/
theorem sim_walkCost {names : List Nat} {IA NA : Arcs} (hn : names.Nodup) (S : ArcSim names IA NA) :
    ∀ (p : List Nat) (d : Int), Arcs.walkCost IA p = some d → (∀ i, p.head? = some i → ∃ x, names[i]? = some x) →
      ∃ p' : List Nat, p.map (fun i => names[i]?) = p'.map some ∧ Arcs.walkCost NA p' = some d := by
  intro p
  induction p with
  | nil => intro d h; simp [Arcs.walkCost] at h
  | cons i rest ih =>
    intro d h hhead
    cases rest with
    | nil =>
      obtain ⟨x, hx⟩ := hhead i rfl
      simp only [Arcs.walkCost, Option.some.injEq] at h
      subst h
      exact ⟨[x], by simp [hx], by simp [Arcs.walkCost]⟩
    | cons j rest =>
      rw [walkCost_cons_cons] at h
      cases hb : Graphrs.minArc IA i j with
      | none => rw [hb] at h; simp at h
      | some b =>
        rw [hb] at h
        simp only [Option.map_eq_some_iff] at h
        obtain ⟨d', hd', e⟩ := h
        subst e
        obtain ⟨x, y, hx, hy, hm⟩ := sim_minArc hn S hb
        obtain ⟨p', hp', hw'⟩ := ih d' hd' (fun k hk => by
          simp only [List.head?_cons, Option.some.injEq] at hk
          subst hk; exact ⟨y, hy⟩)
        cases p' with
        | nil => simp at hp'
        | cons y' rest' =>
          simp only [List.map_cons, List.cons.injEq] at hp'
          obtain ⟨e1, e2⟩ := hp'
          rw [hy] at e1
          cases e1
          refine ⟨x :: y :: rest', ?_, ?_⟩
          · simp only [List.map_cons, hx, hy, e2]
          · rw [walkCost_cons_cons, hm, hw']
            rfl

/-! ## one search by position -/

/-- `Store.runOne` (the fast path or the full algorithm) under the hypotheses of C04 -/
theorem runOne_run (s : Store) (weighted : Bool) (si : Nat) (ti tgt : Option Nat) (cutoff2 : Option Int)
    (firstOnly withPaths : Bool) (hwf : s.vecWf) (hsrc : si < s.nodesVec.length)
    (hnn : ∀ a ∈ s.idxArcs weighted, 0 ≤ a.2.2) :
    ∃ (dist : List (Option Int)) (paths : List (List (List Nat))),
      s.runOne weighted si ti tgt cutoff2 firstOnly withPaths = .ok (spInfos dist paths withPaths) ∧
      (∀ v d, lk dist v = some d → Walk (s.idxArcs weighted) si v d) ∧
      (withPaths = true → ∀ v d, lk dist v = some d → ∀ p ∈ paths[v]?.getD [], PathOk (s.idxArcs weighted) si v p d) ∧
      (ti = none → cutoff2 = none → ∀ t d, lk dist t = some d ↔ IsDist (s.idxArcs weighted) si t d) := by
  have hA : ArcsWf (s.idxArcs weighted) s.numberOfNodes := idxArcs_wf s weighted hwf hnn
  unfold Store.runOne
  by_cases hb : canUseBasic tgt cutoff2 firstOnly withPaths = true
  · rw [if_pos hb]
    simp only [canUseBasic, Bool.and_eq_true, Bool.not_eq_true', Option.isNone_iff_eq_none] at hb
    obtain ⟨⟨⟨_, hcut⟩, _⟩, hwp⟩ := hb
    subst hcut hwp
    have hsrc' : ¬ si ≥ s.numberOfNodes := by show ¬ si ≥ s.nodesVec.length; omega
    have hloop := basicLoop_inv (src := si) s.succVec hA (idxArcs_rowsOk s weighted) (s.totalAdj + 2)
      { dist := List.replicate s.numberOfNodes none,
        seen := (List.replicate s.numberOfNodes none).set si (some 0),
        fringe := [(0, 0, si)], count := 0, paths := [] }
      (Inv.init _ _ _ _ hsrc)
      (by simp only [pendFrom_replicate, Store.totalAdj, List.length_cons, List.length_nil]; omega)
    obtain ⟨I, hfr⟩ := hloop
    rw [hfr] at I
    refine ⟨_, [], ?_, I.distWalk, ?_, ?_⟩
    · unfold Store.dijkstraBasic
      simp only [if_neg hsrc']
    · intro h; cases h
    · intro _ _ t d
      rw [I.final_exact hA rfl t d]
      simp [overCutoff]
  · rw [if_neg hb]
    obtain ⟨st, pend, e, I, hfin, hP⟩ := dijkstra_run s weighted si ti cutoff2 firstOnly withPaths hwf hsrc hnn
    refine ⟨st.dist, st.paths, e, I.distWalk, ?_, ?_⟩
    · intro hp v d hd p hpm
      obtain ⟨k, hk, hok⟩ := hP hp v p hpm
      have := I.distSeen v d hd
      rw [hk] at this
      cases this
      exact hok
    · intro h1 h2 t d
      subst h1 h2
      obtain ⟨e1, e2⟩ := hfin rfl
      subst e1
      rw [e2] at I
      rw [I.final_exact hA rfl t d]
      simp [overCutoff]

private theorem keys_aux (g : Nat → Int → SPInfo) : ∀ (l : List (Option Int)) (k : Nat),
    (((l.zipIdx k).filterMap fun p => match p.1 with | none => none | some d => some (p.2, g p.2 d)).map (·.1)).Nodup ∧
    ∀ x ∈ ((l.zipIdx k).filterMap fun p => match p.1 with | none => none | some d => some (p.2, g p.2 d)).map (·.1), k ≤ x := by
  intro l
  induction l with
  | nil => intro k; simp
  | cons a l ih =>
    intro k
    obtain ⟨h1, h2⟩ := ih (k + 1)
    rw [List.zipIdx_cons]
    cases a with
    | none =>
      rw [List.filterMap_cons_none (by rfl)]
      exact ⟨h1, fun x hx => by have := h2 x hx; omega⟩
    | some d =>
      rw [List.filterMap_cons_some (b := (k, g k d)) (by rfl)]
      simp only [List.map_cons, List.nodup_cons, List.mem_cons]
      refine ⟨⟨fun hk => ?_, h1⟩, ?_⟩
      · have := h2 k hk; omega
      · intro x hx
        rcases hx with e | hx
        · omega
        · have := h2 x hx; omega

/-- the result vector lists every position at most once -/
theorem spInfos_keys_nodup (dist : List (Option Int)) (paths : List (List (List Nat))) (wp : Bool) :
    ((spInfos dist paths wp).map (·.1)).Nodup :=
  (keys_aux (fun i d => ⟨d, if wp then paths[i]?.getD [] else []⟩) dist 0).1

end C08A
end Graphrs
