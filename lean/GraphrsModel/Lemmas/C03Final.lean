/-
  Store-level assembly: `add_edge` re-establishes the traversal-list invariant.
-/
import GraphrsModel.Lemmas.C03Main
namespace Graphrs
namespace C03
open Store

/-- the part of `Pre` that `vecOk` reads -/
def PreVC (names : List Nat) (E : EMap) (dir : Bool) (sv : AVec) (sm : SMap) (pv : AVec) (pm : SMap) :
    Prop :=
  VecInv names sv (fS E dir) ∧ SetInv names sm (fun x y => (fS E dir x y).isSome) ∧
  VecInv names pv (fP E dir) ∧ SetInv names pm (fun x y => (fP E dir x y).isSome)

def PreV (s : Store) : Prop :=
  PreVC s.names s.edges s.specs.directed s.succVec s.succMap s.predVec s.predMap

theorem preV_of_pre (s : Store) (h : Pre s) : PreV s := ⟨h.vS, h.sS, h.vP, h.sP⟩

theorem vecOk_of_preV (s : Store) (hp : PreV s) : s.vecOk = true := by
  obtain ⟨vS, sS, vP, sP⟩ := hp
  rw [vecOk_eq, Bool.and_eq_true]
  constructor
  · exact rowsOkB_of _ _ _ _ _ _ (names_length s).symm vS sS (fun _ _ _ => rfl)
  · refine rowsOkB_of _ _ _ _ _ _ (names_length s).symm vP sP ?_
    intro x y hs
    unfold fP at hs ⊢
    cases hd : s.specs.directed with
    | true => simp [weightsBetween_eq, hd]
    | false => rw [hd] at hs; simp at hs

theorem preV_poison (s : Store) (site : String) (h : PreV s) : PreV (s.poison site) := by
  unfold Store.poison
  split
  · exact h
  · exact h

theorem pre_poison (s : Store) (site : String) (h : Pre s) : Pre (s.poison site) := by
  unfold Store.poison
  split
  · exact h
  · exact h

/-! ## node creation inside `add_edge` -/

theorem addNode_specs (s : Store) (n : Node) : (s.addNode n).specs = s.specs := by
  unfold Store.addNode
  split
  · simp only
    split
    · rfl
    · unfold Store.poison; split <;> rfl
  · rfl

theorem specs_edgeNodes (s : Store) (e : Edge) : (edgeNodes s e).specs = s.specs := by
  unfold edgeNodes
  simp only
  split <;> split <;> simp [addNode_specs]

theorem pre_edgeNodes (s : Store) (e : Edge) (h : Pre s) : Pre (edgeNodes s e) := by
  unfold edgeNodes
  simp only
  split <;> split <;> first | exact h | exact pre_addNode _ _ h | exact pre_addNode _ _ (pre_addNode _ _ h)

/-! ## the edge-store stage -/

theorem preV_edgeStage (sp : Specs) (s : Store) (o : Edge) (ou ov : Nat) (already : Bool)
    (hisNone : (s.edgesByIdx ou ov).isNone = !already)
    (h : PreVC s.names (newEdges sp s.edges already o (o.u, o.v)) s.specs.directed
      s.succVec s.succMap s.predVec s.predMap) :
    PreV (edgeStage sp s o ou ov) := by
  unfold edgeStage
  unfold newEdges at h
  rw [hisNone]
  by_cases hm : sp.multi = true
  · simp only [hm, if_true] at h ⊢
    exact h
  · simp only [hm] at h ⊢
    by_cases ha : (!already) = true
    · simp only [ha, if_true] at h ⊢
      exact h
    · simp only [ha] at h ⊢
      by_cases hk : (sp.dedupe == Dedupe.keepLast) = true
      · simp only [hk, if_true] at h ⊢
        exact h
      · simp only [hk] at h ⊢
        exact h

/-! ## the adjacency stage -/

theorem adjStage_dir (sp : Specs) (s : Store) (e : Edge) (ui vi ou ov : Nat) (upd : AdjUpd)
    (sv1 pv1 : AVec) (hd : sp.directed = true)
    (h1 : adjUpdate s.succVec ou ov e.w upd = some sv1)
    (h2 : adjUpdate s.predVec ov ou e.w upd = some pv1) :
    adjStage sp s e ui vi ou ov upd =
      { s with
        succ := amodify s.succ e.u [] (sinsert · e.v)
        succMap := amodify s.succMap ui [] (sinsert · vi)
        succVec := sv1
        pred := amodify s.pred e.v [] (sinsert · e.u)
        predMap := amodify s.predMap vi [] (sinsert · ui)
        predVec := pv1 } := by
  unfold adjStage Store.adjSucc Store.adjPred
  simp only [hd, h1, h2, if_true]

theorem adjStage_undir (sp : Specs) (s : Store) (e : Edge) (ui vi ou ov : Nat) (upd : AdjUpd)
    (sv1 sv2 : AVec) (hd : sp.directed = false)
    (h1 : adjUpdate s.succVec ou ov e.w upd = some sv1)
    (h2 : adjUpdate sv1 ov ou e.w upd = some sv2) :
    adjStage sp s e ui vi ou ov upd =
      { s with
        succ := amodify (amodify s.succ e.u [] (sinsert · e.v)) e.v [] (sinsert · e.u)
        succMap := amodify (amodify s.succMap ui [] (sinsert · vi)) vi [] (sinsert · ui)
        succVec := sv2 } := by
  unfold adjStage Store.adjSucc
  simp only [hd, h1, h2, Bool.false_eq_true, if_false]

theorem ordered_w (e : Edge) : e.ordered.w = e.w := by
  unfold Edge.ordered Edge.reversed; split <;> rfl

theorem ordered_key (e : Edge) : (e.ordered.u, e.ordered.v) = nameKey false e.u e.v := by
  unfold Edge.ordered Edge.reversed nameKey
  by_cases h : e.u > e.v <;> simp [h]

theorem idxKey_idem (dir : Bool) (i j : Nat) :
    idxKey dir (idxKey dir i j).1 (idxKey dir i j).2 = idxKey dir i j := by
  unfold idxKey
  cases dir
  · by_cases h : i > j
    · have : ¬ j > i := by omega
      simp [h, this]
    · simp [h]
  · simp

theorem edgeTail_fst (sp : Specs) (s : Store) (e : Edge) (ui vi : Nat) :
    (edgeTail sp s e ui vi).1 =
      if (sp.dedupe == .error && !sp.multi && (s.edgesByIdx ui vi).isSome) = true then s
      else
        edgeStage sp
          (adjStage sp s e ui vi (idxKey sp.directed ui vi).1 (idxKey sp.directed ui vi).2
            (updOf (s.edgesByIdx ui vi).isSome sp))
          (if sp.directed then e else e.ordered)
          (idxKey sp.directed ui vi).1 (idxKey sp.directed ui vi).2 := by
  unfold edgeTail
  simp only
  split <;> rfl

theorem edgesByIdx_eq (s : Store) (u v : Nat) :
    s.edgesByIdx u v = alookup s.edgesMap (idxKey s.specs.directed u v) := rfl

theorem preV_edgeTail (s : Store) (e : Edge) (ui vi : Nat) (h : Pre s)
    (hui : alookup s.nodesMap e.u = some ui) (hvi : alookup s.nodesMap e.v = some vi) :
    PreV (edgeTail s.specs s e ui vi).1 := by
  rw [edgeTail_fst]
  split
  · exact preV_of_pre s h
  · have hxu : s.names[ui]? = some e.u := (h.nm _ _).1 hui
    have hxv : s.names[vi]? = some e.v := (h.nm _ _).1 hvi
    have hlk : s.edgesByIdx ui vi = alookup s.edges (nameKey s.specs.directed e.u e.v) := by
      rw [edgesByIdx_eq]; exact h.l2 ui vi e.u e.v hxu hxv
    cases hd : s.specs.directed with
    | true =>
      have hP : PreC s.names s.nodesMap s.edges s.edgesMap true s.succVec s.succMap s.predVec
          s.predMap := by
        have := h; unfold Pre at this; rw [hd] at this; exact this
      have hkey : idxKey true ui vi = (ui, vi) := by simp [idxKey]
      rw [hkey]
      simp only [if_true]
      rw [hd, nameKey_dir] at hlk
      obtain ⟨sv1, pv1, h1, h2, hV⟩ := main_dir hP hxu hxv s.specs e (s.edgesByIdx ui vi).isSome
        (by rw [hlk]) _ rfl
      rw [adjStage_dir _ _ _ _ _ _ _ _ sv1 pv1 hd h1 h2]
      apply preV_edgeStage _ _ _ _ _ (s.edgesByIdx ui vi).isSome
      · show (alookup s.edgesMap (idxKey s.specs.directed ui vi)).isNone = _
        rw [← edgesByIdx_eq]
        cases s.edgesByIdx ui vi <;> rfl
      · show PreVC s.names _ s.specs.directed sv1 _ pv1 _
        rw [hd]
        exact hV
    | false =>
      have hP : PreC s.names s.nodesMap s.edges s.edgesMap false s.succVec s.succMap s.predVec
          s.predMap := by
        have := h; unfold Pre at this; rw [hd] at this; exact this
      simp only [Bool.false_eq_true, if_false]
      rw [hd] at hlk
      have hou : ∃ x0 y0, s.names[(idxKey false ui vi).1]? = some x0 ∧
          s.names[(idxKey false ui vi).2]? = some y0 ∧
          ((x0 = e.u ∧ y0 = e.v) ∨ (x0 = e.v ∧ y0 = e.u)) := by
        unfold idxKey
        by_cases hgt : ui > vi
        · simp only [Bool.not_false, Bool.true_and, hgt, decide_true, if_true]
          exact ⟨e.v, e.u, hxv, hxu, Or.inr ⟨rfl, rfl⟩⟩
        · simp only [Bool.not_false, Bool.true_and, hgt, decide_false, Bool.false_eq_true, if_false]
          exact ⟨e.u, e.v, hxu, hxv, Or.inl ⟨rfl, rfl⟩⟩
      obtain ⟨x0, y0, hx0, hy0, hxy⟩ := hou
      have hw : e.ordered.w = e.w := ordered_w e
      obtain ⟨sv1, sv2, h1, h2, hV⟩ := main_undir hP hxu hxv hx0 hy0 hxy s.specs e.ordered
        (s.edgesByIdx ui vi).isSome (by rw [hlk]) _ rfl
      rw [hw] at h1 h2
      rw [adjStage_undir _ _ _ _ _ _ _ _ sv1 sv2 hd h1 h2]
      apply preV_edgeStage _ _ _ _ _ (s.edgesByIdx ui vi).isSome
      · show (alookup s.edgesMap (idxKey s.specs.directed _ _)).isNone = _
        rw [hd, idxKey_idem, ← hd, ← edgesByIdx_eq]
        cases s.edgesByIdx ui vi <;> rfl
      · show PreVC s.names _ s.specs.directed sv2 _ s.predVec s.predMap
        rw [hd, ordered_key]
        exact hV

/-- `add_edge` re-establishes the traversal-list invariant -/
theorem preV_addEdge (s : Store) (e : Edge) (hp : Pre s) : PreV (s.addEdge e).1 := by
  rw [addEdge_eq]
  by_cases c1 : (!s.specs.selfLoops && e.u == e.v) = true
  · rw [if_pos c1]
    cases s.specs.slFalse <;> exact preV_of_pre s hp
  · rw [if_neg c1]
    by_cases c2 : (s.specs.missing == Missing.error &&
        (!acontains s.nodesMap e.u || !acontains s.nodesMap e.v)) = true
    · rw [if_pos c2]; exact preV_of_pre s hp
    · rw [if_neg c2]
      have hp2 := pre_edgeNodes s e hp
      have hs2 := specs_edgeNodes s e
      cases hu : alookup (edgeNodes s e).nodesMap e.u with
      | none => exact preV_poison _ _ (preV_of_pre _ hp2)
      | some ui =>
        cases hv : alookup (edgeNodes s e).nodesMap e.v with
        | none => exact preV_poison _ _ (preV_of_pre _ hp2)
        | some vi =>
          simp only
          rw [← hs2]
          exact preV_edgeTail _ e ui vi hp2 hu hv

end C03
end Graphrs
