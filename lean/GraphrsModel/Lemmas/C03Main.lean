/-
  The edge-store side of `add_edge` (what happens to the minimum stored weight of every pair)
  and the component-level preservation lemmas for directed and undirected graphs.
-/
import GraphrsModel.Lemmas.C03Edge
namespace Graphrs
namespace C03
open Store

/-- the new `edges` map, as a function of the old one -/
def newEdges (sp : Specs) (E : EMap) (already : Bool) (o : Edge) (key : Nat × Nat) : EMap :=
  if sp.multi then amodify E key [] (· ++ [o])
  else if !already then ainsert E key [o]
  else if sp.dedupe == .keepLast then ainsert E key [o]
  else E

theorem alookup_newEdges_ne (sp : Specs) (E : EMap) (already : Bool) (o : Edge) (key k : Nat × Nat)
    (hk : k ≠ key) : alookup (newEdges sp E already o key) k = alookup E k := by
  have : ¬ key = k := fun e => hk e.symm
  unfold newEdges
  split
  · rw [alookup_amodify, if_neg this]
  · split
    · rw [alookup_ainsert, if_neg this]
    · split
      · rw [alookup_ainsert, if_neg this]
      · rfl

theorem updOf_false (sp : Specs) : updOf false sp = .push := rfl

theorem updOf_true_multi (sp : Specs) (h : sp.multi = true) : updOf true sp = .keepMin := by
  unfold updOf; simp [h]

theorem updOf_true_single (sp : Specs) (h : sp.multi = false) :
    updOf true sp = if sp.dedupe == .keepLast then .overwrite else .untouched := by
  unfold updOf; simp [h]

theorem updOf_keepMin (a : Bool) (sp : Specs) (h : updOf a sp = .keepMin) : a = true := by
  cases a
  · rw [updOf_false] at h; cases h
  · rfl

theorem updOf_push (a : Bool) (sp : Specs) (h : updOf a sp = .push) : a = false := by
  cases a
  · rfl
  · cases hm : sp.multi
    · rw [updOf_true_single _ hm] at h
      split at h <;> cases h
    · rw [updOf_true_multi _ hm] at h; cases h

theorem eff_updOf_isSome (a : Bool) (sp : Specs) (w : W) (m : Option W) (h : m.isSome = a) :
    (eff (updOf a sp) w m).isSome = true := by
  rw [eff_isSome]
  cases a
  · simp [updOf_false]
  · simp [h]

/-- the minimum stored weight of every pair after the edge store was updated -/
theorem fS_new (sp : Specs) (E : EMap) (dir : Bool) (o : Edge) (key : Nat × Nat) (already : Bool)
    (hne : ∀ k l, alookup E k = some l → l ≠ []) (hal : already = (alookup E key).isSome)
    (x y : Nat) :
    fS (newEdges sp E already o key) dir x y =
      if nameKey dir x y = key then eff (updOf already sp) o.w (fS E dir x y) else fS E dir x y := by
  by_cases hk : nameKey dir x y = key
  · simp only [hk, if_true]
    unfold fS wbC
    rw [hk]
    cases hold : alookup E key with
    | none =>
      rw [hold] at hal
      simp only [Option.isSome_none] at hal
      subst hal
      rw [updOf_false]
      unfold newEdges
      split
      · rw [alookup_amodify, if_pos rfl, hold]
        simp [eff, mpush, Abs.minW]
      · simp only [Bool.not_false, if_true]
        rw [alookup_ainsert, if_pos rfl]
        simp [eff, mpush, Abs.minW]
    | some l =>
      rw [hold] at hal
      simp only [Option.isSome_some] at hal
      subst hal
      have hl := hne _ _ hold
      obtain ⟨a, t, rfl⟩ : ∃ a t, l = a :: t := by
        cases l with
        | nil => exact absurd rfl hl
        | cons a t => exact ⟨a, t, rfl⟩
      cases hm : sp.multi with
      | true =>
        rw [updOf_true_multi _ hm]
        unfold newEdges
        simp only [hm, if_true]
        rw [alookup_amodify, if_pos rfl, hold]
        simp only [Option.getD_some, List.map_append, List.map_cons, List.map_nil]
        show Abs.minW ((a.w :: List.map (fun x => x.w) t) ++ [o.w]) = _
        rw [minW_append_single]
        simp [eff, mpush, minW_cons]
      | false =>
        rw [updOf_true_single _ hm]
        unfold newEdges
        by_cases hkl : (sp.dedupe == Dedupe.keepLast) = true
        · simp only [hm, hkl, Bool.not_true, Bool.false_eq_true, ↓reduceIte]
          rw [alookup_ainsert, if_pos rfl]
          simp [eff, Abs.minW]
        · simp only [hm, hkl, Bool.not_true, Bool.false_eq_true, ↓reduceIte]
          simp [eff, hold]
  · simp only [hk, if_false]
    unfold fS wbC
    rw [alookup_newEdges_ne _ _ _ _ _ _ hk]

theorem fS_symm (E : EMap) (x y : Nat) : fS E false x y = fS E false y x := by
  unfold fS wbC; rw [nameKey_symm]

theorem fP_true (E : EMap) (x y : Nat) : fP E true x y = fS E true y x := by
  unfold fP fS; simp

theorem fP_false (E : EMap) (x y : Nat) : fP E false x y = none := by
  unfold fP; simp

/-! ## directed graphs -/

theorem main_dir {names : List Nat} {nm : List (Nat × Nat)} {E EM : EMap} {sv : AVec} {sm : SMap}
    {pv : AVec} {pm : SMap} (h : PreC names nm E EM true sv sm pv pm)
    {ui vi xu xv : Nat} (hxu : names[ui]? = some xu) (hxv : names[vi]? = some xv)
    (sp : Specs) (o : Edge) (already : Bool) (hal : already = (alookup E (xu, xv)).isSome)
    (E' : EMap) (hE' : E' = newEdges sp E already o (xu, xv)) :
    ∃ sv1 pv1, adjUpdate sv ui vi o.w (updOf already sp) = some sv1 ∧
      adjUpdate pv vi ui o.w (updOf already sp) = some pv1 ∧
      VecInv names sv1 (fS E' true) ∧
      SetInv names (amodify sm ui [] (sinsert · vi)) (fun x y => (fS E' true x y).isSome) ∧
      VecInv names pv1 (fP E' true) ∧
      SetInv names (amodify pm vi [] (sinsert · ui)) (fun x y => (fP E' true x y).isSome) := by
  have hne : ∀ k l, alookup E k = some l → l ≠ [] := fun k l hl => (h.ebE k l hl).2.2
  have hnew : ∀ x y, fS E' true x y =
      if x = xu ∧ y = xv then eff (updOf already sp) o.w (fS E true x y) else fS E true x y := by
    intro x y
    rw [hE', fS_new sp E true o (xu, xv) already hne hal x y, nameKey_dir]
    simp only [Prod.mk.injEq]
  have hsome : (fS E true xu xv).isSome = already := by
    rw [fS_isSome _ _ _ _ hne, nameKey_dir, hal]
  have hk : updOf already sp = .keepMin → (fS E true xu xv).isSome = true := by
    intro hu; rw [hsome]; exact updOf_keepMin _ _ hu
  have hnewS : ∀ x y, (fS E' true x y).isSome =
      ((fS E true x y).isSome || (x == xu && y == xv)) := by
    intro x y
    rw [hnew x y]
    by_cases hxy : x = xu ∧ y = xv
    · obtain ⟨rfl, rfl⟩ := hxy
      simp [eff_updOf_isSome _ _ _ _ hsome]
    · simp only [hxy, if_false]
      have : (x == xu && y == xv) = false := by
        rw [Bool.eq_false_iff]; simpa using hxy
      simp [this]
  obtain ⟨sv1, hsv1, hV1⟩ := h.vS.update h.nodup hxu hxv o.w (updOf already sp) hk (fS E' true) hnew
  have hkP : updOf already sp = .keepMin → (fP E true xv xu).isSome = true := by
    intro hu; rw [fP_true]; exact hk hu
  have hnewP : ∀ x y, fP E' true x y =
      if x = xv ∧ y = xu then eff (updOf already sp) o.w (fP E true x y) else fP E true x y := by
    intro x y
    rw [fP_true, fP_true, hnew y x]
    by_cases hxy : x = xv ∧ y = xu
    · simp [hxy]
    · have : ¬ (y = xu ∧ x = xv) := fun e => hxy ⟨e.2, e.1⟩
      simp [hxy, this]
  obtain ⟨pv1, hpv1, hP1⟩ := h.vP.update h.nodup hxv hxu o.w (updOf already sp) hkP (fP E' true) hnewP
  refine ⟨sv1, pv1, hsv1, hpv1, hV1, ?_, hP1, ?_⟩
  · exact h.sS.update h.nodup hxu hxv _ hnewS
  · refine h.sP.update h.nodup hxv hxu _ ?_
    intro x y
    simp only [fP_true]
    rw [hnewS y x, Bool.and_comm]

/-! ## undirected graphs -/

theorem main_undir {names : List Nat} {nm : List (Nat × Nat)} {E EM : EMap} {sv : AVec} {sm : SMap}
    {pv : AVec} {pm : SMap} (h : PreC names nm E EM false sv sm pv pm)
    {ui vi ou ov xu xv x0 y0 : Nat} (hxu : names[ui]? = some xu) (hxv : names[vi]? = some xv)
    (hou : names[ou]? = some x0) (hov : names[ov]? = some y0)
    (hxy : (x0 = xu ∧ y0 = xv) ∨ (x0 = xv ∧ y0 = xu))
    (sp : Specs) (o : Edge) (already : Bool)
    (hal : already = (alookup E (nameKey false xu xv)).isSome)
    (E' : EMap) (hE' : E' = newEdges sp E already o (nameKey false xu xv)) :
    ∃ sv1 sv2, adjUpdate sv ou ov o.w (updOf already sp) = some sv1 ∧
      adjUpdate sv1 ov ou o.w (updOf already sp) = some sv2 ∧
      VecInv names sv2 (fS E' false) ∧
      SetInv names (amodify (amodify sm ui [] (sinsert · vi)) vi [] (sinsert · ui))
        (fun x y => (fS E' false x y).isSome) ∧
      VecInv names pv (fP E' false) ∧
      SetInv names pm (fun x y => (fP E' false x y).isSome) := by
  have hne : ∀ k l, alookup E k = some l → l ≠ [] := fun k l hl => (h.ebE k l hl).2.2
  have hkey : nameKey false xu xv = nameKey false x0 y0 := by
    rcases hxy with ⟨rfl, rfl⟩ | ⟨rfl, rfl⟩
    · rfl
    · exact nameKey_symm _ _
  have hnew : ∀ x y, fS E' false x y =
      if (x = x0 ∧ y = y0) ∨ (x = y0 ∧ y = x0) then
        eff (updOf already sp) o.w (fS E false x y) else fS E false x y := by
    intro x y
    rw [hE', fS_new sp E false o _ already hne hal x y]
    have e : (nameKey false x y = nameKey false xu xv) ↔ ((x = x0 ∧ y = y0) ∨ (x = y0 ∧ y = x0)) := by
      rw [hkey, nameKey_eq_iff]; simp
    simp only [e]
  have hsome : (fS E false x0 y0).isSome = already := by
    rw [fS_isSome _ _ _ _ hne, ← hkey, hal]
  have hk : updOf already sp = .keepMin → (fS E false x0 y0).isSome = true := by
    intro hu; rw [hsome]; exact updOf_keepMin _ _ hu
  -- first row update
  obtain ⟨sv1, hsv1, hV1⟩ := h.vS.update h.nodup hou hov o.w (updOf already sp) hk
    (fun x y => if x = x0 ∧ y = y0 then eff (updOf already sp) o.w (fS E false x y)
      else fS E false x y) (fun _ _ => rfl)
  -- second row update
  have hk2 : updOf already sp = .keepMin →
      ((fun x y => if x = x0 ∧ y = y0 then eff (updOf already sp) o.w (fS E false x y)
        else fS E false x y) y0 x0).isSome = true := by
    intro hu
    simp only
    split
    · apply eff_updOf_isSome
      rw [fS_symm]; exact hsome
    · rw [fS_symm]; exact hk hu
  have hf2 : ∀ x y, fS E' false x y =
      if x = y0 ∧ y = x0 then
        eff (updOf already sp) o.w
          ((fun x y => if x = x0 ∧ y = y0 then eff (updOf already sp) o.w (fS E false x y)
            else fS E false x y) x y)
      else (fun x y => if x = x0 ∧ y = y0 then eff (updOf already sp) o.w (fS E false x y)
            else fS E false x y) x y := by
    intro x y
    rw [hnew x y]
    simp only
    by_cases c1 : x = x0 ∧ y = y0 <;> by_cases c2 : x = y0 ∧ y = x0
    · rw [if_pos (Or.inl c1), if_pos c2, if_pos c1, eff_idem]
      intro hp
      have ha := updOf_push _ _ hp
      rw [ha] at hsome
      rw [c1.1, c1.2]
      cases hf : fS E false x0 y0 with
      | none => rfl
      | some v => rw [hf] at hsome; cases hsome
    · rw [if_pos (Or.inl c1), if_neg c2, if_pos c1]
    · rw [if_pos (Or.inr c2), if_pos c2, if_neg c1]
    · have c3 : ¬ ((x = x0 ∧ y = y0) ∨ (x = y0 ∧ y = x0)) := by
        rintro (hc | hc)
        · exact c1 hc
        · exact c2 hc
      rw [if_neg c3, if_neg c2, if_neg c1]
  obtain ⟨sv2, hsv2, hV2⟩ := hV1.update h.nodup hov hou o.w (updOf already sp) hk2 (fS E' false) hf2
  refine ⟨sv1, sv2, hsv1, hsv2, hV2, ?_, ?_, ?_⟩
  · have hS1 := h.sS.update h.nodup hxu hxv
      (fun x y => ((fS E false x y).isSome || (x == xu && y == xv))) (fun _ _ => rfl)
    refine hS1.update h.nodup hxv hxu _ ?_
    intro x y
    rw [hnew x y]
    by_cases c : (x = x0 ∧ y = y0) ∨ (x = y0 ∧ y = x0)
    · simp only [c, if_true]
      have hx0 : (fS E false x y).isSome = already := by
        rcases c with ⟨rfl, rfl⟩ | ⟨rfl, rfl⟩
        · exact hsome
        · rw [fS_symm]; exact hsome
      rw [eff_updOf_isSome _ _ _ _ hx0]
      have : (x == xu && y == xv) = true ∨ (x == xv && y == xu) = true := by
        rcases hxy with ⟨rfl, rfl⟩ | ⟨rfl, rfl⟩ <;> rcases c with ⟨rfl, rfl⟩ | ⟨rfl, rfl⟩ <;> simp
      rcases this with t | t <;> simp [t]
    · simp only [c, if_false]
      have t1 : (x == xu && y == xv) = false := by
        rw [Bool.eq_false_iff]
        intro hc
        simp only [Bool.and_eq_true, beq_iff_eq] at hc
        apply c
        rcases hxy with ⟨rfl, rfl⟩ | ⟨rfl, rfl⟩
        · exact Or.inl hc
        · exact Or.inr hc
      have t2 : (x == xv && y == xu) = false := by
        rw [Bool.eq_false_iff]
        intro hc
        simp only [Bool.and_eq_true, beq_iff_eq] at hc
        apply c
        rcases hxy with ⟨rfl, rfl⟩ | ⟨rfl, rfl⟩
        · exact Or.inr hc
        · exact Or.inl hc
      simp [t1, t2]
  · exact h.vP.congr (fun x y => by rw [fP_false, fP_false])
  · exact h.sP.congr (fun x y => by rw [fP_false, fP_false])

end C03
end Graphrs
