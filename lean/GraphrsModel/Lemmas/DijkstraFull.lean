/-
  `dijkstraLoop` (the loop of `dijkstra`) never raises `ContradictoryPaths` on non-negative costs, preserves
  the invariant and terminates within the fuel bound.
-/
import GraphrsModel.Lemmas.DijkstraBasic
namespace Graphrs

/-- the state after a strict improvement of `seen[u]` -/
def pushLt (withPaths : Bool) (v u : Nat) (vu : Int) (st : DState) : DState :=
  { dist := st.dist, seen := st.seen.set u (some vu), fringe := (vu, st.count + 1, u) :: st.fringe,
    count := st.count + 1,
    paths := if withPaths then st.paths.set u ((st.paths[v]?.getD []).map (· ++ [u])) else st.paths }

/-- the state after a tie -/
def pushEq (withPaths : Bool) (v u : Nat) (vu : Int) (st : DState) : DState :=
  { dist := st.dist, seen := st.seen, fringe := (vu, st.count + 1, u) :: st.fringe,
    count := st.count + 1,
    paths := if withPaths then st.paths.set u ((st.paths[u]?.getD []) ++ (st.paths[v]?.getD []).map (· ++ [u]))
             else st.paths }

section relax
variable {weighted : Bool} {cut : Option Int} {firstOnly withPaths : Bool} {v : Nat} {d : Int} {st : DState}
  {u : Nat} {w : W}

theorem relaxFull_none (hc : (if weighted then w else some 1) = none) :
    relaxFull weighted cut firstOnly withPaths v d st (u, w) = .ok st := by
  unfold relaxFull
  simp only [hc]

theorem relaxFull_over {c : Int} (hc : (if weighted then w else some 1) = some c)
    (ho : overCutoff cut (d + c) = true) :
    relaxFull weighted cut firstOnly withPaths v d st (u, w) = .ok st := by
  unfold relaxFull
  simp only [hc, ho, if_true]

theorem relaxFull_final {c du : Int} (hc : (if weighted then w else some 1) = some c)
    (ho : overCutoff cut (d + c) = false) (hd : lk st.dist u = some du) (hle : du ≤ d + c) :
    relaxFull weighted cut firstOnly withPaths v d st (u, w) = .ok st := by
  unfold relaxFull
  unfold lk at hd
  have : ¬ d + c < du := by omega
  simp [hc, ho, hd, this]

theorem relaxFull_lt {c : Int} (hc : (if weighted then w else some 1) = some c)
    (ho : overCutoff cut (d + c) = false) (hd : lk st.dist u = none)
    (h : ∀ su, lk st.seen u = some su → d + c < su) :
    relaxFull weighted cut firstOnly withPaths v d st (u, w) = .ok (pushLt withPaths v u (d + c) st) := by
  unfold relaxFull pushLt
  unfold lk at hd h
  simp only [hc, ho, hd]
  cases hs : st.seen[u]?.join with
  | none => cases withPaths <;> simp
  | some su => cases withPaths <;> simp [h su hs]

theorem relaxFull_eq {c : Int} (hc : (if weighted then w else some 1) = some c)
    (ho : overCutoff cut (d + c) = false) (hd : lk st.dist u = none)
    (h : lk st.seen u = some (d + c)) (hf : firstOnly = false) :
    relaxFull weighted cut firstOnly withPaths v d st (u, w) = .ok (pushEq withPaths v u (d + c) st) := by
  unfold relaxFull pushEq
  unfold lk at hd h
  subst hf
  simp only [hc, ho, hd, h]
  cases withPaths <;> simp

theorem relaxFull_skip {c su : Int} (hc : (if weighted then w else some 1) = some c)
    (ho : overCutoff cut (d + c) = false) (hd : lk st.dist u = none)
    (h : lk st.seen u = some su) (hle : su ≤ d + c) (hf : firstOnly = true ∨ su < d + c) :
    relaxFull weighted cut firstOnly withPaths v d st (u, w) = .ok st := by
  unfold relaxFull
  unfold lk at hd h
  have h1 : ¬ d + c < su := by omega
  simp only [hc, ho, hd, h]
  rcases hf with hf | hf
  · subst hf; simp [h1]
  · have h2 : ¬ su = d + c := by omega
    simp [h1, h2]

end relax

/-- the possible outcomes of one relaxation under the row invariant -/
theorem relaxFull_cases {A : Arcs} {src n : Nat} {weighted : Bool} {cut : Option Int} {firstOnly withPaths : Bool}
    {v : Nat} {d : Int} (hA : ArcsWf A n) (st : DState) (u : Nat) (w : W) (row : List Adj)
    (R : RowInv A src n cut v d (rowArcs weighted v ((u, w) :: row)) st.dist st.seen st.fringe) :
    ((if weighted then w else some 1) = none ∧
        relaxFull weighted cut firstOnly withPaths v d st (u, w) = .ok st) ∨
    ∃ c, (if weighted then w else some 1) = some c ∧
      ((ArcOk cut st.seen d u c ∧ relaxFull weighted cut firstOnly withPaths v d st (u, w) = .ok st) ∨
       (overCutoff cut (d + c) = false ∧ lk st.dist u = none ∧ (∀ su, lk st.seen u = some su → d + c < su) ∧
          relaxFull weighted cut firstOnly withPaths v d st (u, w) = .ok (pushLt withPaths v u (d + c) st)) ∨
       (overCutoff cut (d + c) = false ∧ lk st.dist u = none ∧ lk st.seen u = some (d + c) ∧ firstOnly = false ∧
          relaxFull weighted cut firstOnly withPaths v d st (u, w) = .ok (pushEq withPaths v u (d + c) st))) := by
  cases hcost : (if weighted then w else some 1) with
  | none => exact Or.inl ⟨rfl, relaxFull_none hcost⟩
  | some c =>
    refine Or.inr ⟨c, rfl, ?_⟩
    rw [rowArcs_cons_some (by simpa using hcost)] at R
    cases ho : overCutoff cut (d + c) with
    | true => exact Or.inl ⟨Or.inl ho, relaxFull_over hcost ho⟩
    | false =>
      cases hd : lk st.dist u with
      | some du =>
        obtain ⟨h1, h2⟩ := R.final_ok hA du hd
        exact Or.inl ⟨h2, relaxFull_final hcost ho hd h1⟩
      | none =>
        by_cases hlt : ∀ su, lk st.seen u = some su → d + c < su
        · exact Or.inr (Or.inl ⟨rfl, rfl, hlt, relaxFull_lt hcost ho hd hlt⟩)
        · have : ∃ su, lk st.seen u = some su ∧ su ≤ d + c := by
            cases hs : lk st.seen u with
            | none => exact absurd (fun su h => by rw [hs] at h; cases h) hlt
            | some su =>
              refine ⟨su, rfl, ?_⟩
              by_cases hle : su ≤ d + c
              · exact hle
              · exact absurd (fun su' h => by rw [hs] at h; cases h; omega) hlt
          obtain ⟨su, hs, hle⟩ := this
          by_cases heq : su = d + c ∧ firstOnly = false
          · obtain ⟨e1, e2⟩ := heq
            subst e1
            exact Or.inr (Or.inr ⟨rfl, rfl, hs, e2, relaxFull_eq hcost ho hd hs e2⟩)
          · refine Or.inl ⟨Or.inr ⟨su, hs, hle⟩, relaxFull_skip hcost ho hd hs hle ?_⟩
            cases firstOnly with
            | true => exact Or.inl rfl
            | false => exact Or.inr (by have : ¬ su = d + c := fun e => heq ⟨e, rfl⟩; omega)

theorem relaxFull_row {A : Arcs} {src n : Nat} {weighted : Bool} {cut : Option Int} {firstOnly withPaths : Bool}
    {v : Nat} {d : Int} (hA : ArcsWf A n) (st : DState) (a : Adj) (row : List Adj)
    (R : RowInv A src n cut v d (rowArcs weighted v (a :: row)) st.dist st.seen st.fringe) :
    ∃ st', relaxFull weighted cut firstOnly withPaths v d st a = .ok st' ∧
      RowInv A src n cut v d (rowArcs weighted v row) st'.dist st'.seen st'.fringe ∧
      st'.dist = st.dist ∧ st'.fringe.length ≤ st.fringe.length + 1 := by
  obtain ⟨u, w⟩ := a
  rcases relaxFull_cases (firstOnly := firstOnly) (withPaths := withPaths) hA st u w row R with
    ⟨hc, h⟩ | ⟨c, hc, ⟨hok, h⟩ | ⟨ho, hd, hlt, h⟩ | ⟨ho, hd, hs, hf, h⟩⟩
  · rw [rowArcs_cons_none (by simpa using hc)] at R
    exact ⟨st, h, R, rfl, by omega⟩
  · rw [rowArcs_cons_some (by simpa using hc)] at R
    exact ⟨st, h, R.skip hok, rfl, by omega⟩
  · rw [rowArcs_cons_some (by simpa using hc)] at R
    have harc : (v, u, c) ∈ A := R.pendA _ (List.mem_cons_self ..)
    have hun : u < st.seen.length := by rw [R.lseen]; exact (hA _ harc).1
    refine ⟨_, h, ?_, rfl, by simp [pushLt]⟩
    exact R.push hA ho (fun su h => by have := hlt su h; omega) _ (by simp [R.lseen])
      (lk_set_self _ _ _ hun) (fun x hx => lk_set_ne _ _ _ _ (fun e => hx e.symm)) _
  · rw [rowArcs_cons_some (by simpa using hc)] at R
    refine ⟨_, h, ?_, rfl, by simp [pushEq]⟩
    exact R.push hA ho (fun su' h => by rw [hs] at h; cases h; omega) _ R.lseen hs (fun x _ => rfl) _

theorem full_fold {A : Arcs} {src n : Nat} {weighted : Bool} {cut : Option Int} {firstOnly withPaths : Bool}
    {v : Nat} {d : Int} (hA : ArcsWf A n) (row : List Adj) : ∀ (st : DState),
    RowInv A src n cut v d (rowArcs weighted v row) st.dist st.seen st.fringe →
    ∃ st', foldExcept (relaxFull weighted cut firstOnly withPaths v d) st row = .ok st' ∧
      RowInv A src n cut v d [] st'.dist st'.seen st'.fringe ∧
      st'.dist = st.dist ∧ st'.fringe.length ≤ st.fringe.length + row.length := by
  induction row with
  | nil => intro st R; exact ⟨st, rfl, R, rfl, by simp⟩
  | cons a row ih =>
    intro st R
    obtain ⟨st1, e1, R1, h1, h2⟩ := relaxFull_row (firstOnly := firstOnly) (withPaths := withPaths) hA st a row R
    obtain ⟨st2, e2, R2, h3, h4⟩ := ih st1 R1
    refine ⟨st2, ?_, R2, by rw [h3, h1], by simp only [List.length_cons]; omega⟩
    simp only [foldExcept, e1]
    exact e2

theorem dijkstraLoop_inv {A : Arcs} {src n : Nat} {weighted : Bool} {cut : Option Int} {firstOnly withPaths : Bool}
    {target : Option Nat} (rows : List (List Adj)) (hA : ArcsWf A n)
    (hrows : RowsOk A weighted rows) : ∀ (fuel : Nat) (st : DState),
    Inv A src n cut [] st.dist st.seen st.fringe →
    st.fringe.length + pendFrom rows 0 st.dist < fuel →
    ∃ st' pend, dijkstraLoop (fun v => rows[v]?.getD []) weighted target cut firstOnly withPaths fuel st = .ok st' ∧
      Inv A src n cut pend st'.dist st'.seen st'.fringe ∧ (target = none → pend = [] ∧ st'.fringe = []) := by
  intro fuel
  induction fuel with
  | zero => intro st _ h; omega
  | succ fuel ih =>
    intro st I hm
    unfold dijkstraLoop
    cases hp : popFringe st.fringe with
    | none =>
      have := popFringe_none hp
      exact ⟨st, [], rfl, I, fun _ => ⟨rfl, this⟩⟩
    | some res =>
      obtain ⟨⟨d, cnt, v⟩, rest⟩ := res
      obtain ⟨hmem, hrest, hmin⟩ := popFringe_some hp
      have hlen : rest.length + 1 = st.fringe.length := by
        rw [hrest, List.length_erase_of_mem hmem]
        have : 0 < st.fringe.length := List.length_pos_of_mem hmem
        omega
      simp only
      cases hd : st.dist[v]?.join with
      | some dv =>
        have hd' : lk st.dist v = some dv := hd
        simp only [Option.isSome_some, if_true]
        apply ih
        · simp only; rw [hrest]; exact I.pop_stale (d, cnt, v) dv hd'
        · simp only; omega
      | none =>
        have hd' : lk st.dist v = none := hd
        simp only [Option.isSome_none, Bool.false_eq_true, if_false]
        have R := I.pop_fresh d cnt v hmem hmin hd' (rowArcs weighted v (rows[v]?.getD []))
          (hrows.sub v) (fun a ha => rowArcs_src a ha) (hrows.sup v)
        rw [← hrest] at R
        by_cases ht : target = some v
        · subst ht
          simp only [beq_self_eq_true, if_true]
          exact ⟨_, _, rfl, R.toInv, fun h => by cases h⟩
        · have : (target == some v) = false := by simpa using ht
          simp only [this, Bool.false_eq_true, if_false]
          obtain ⟨st2, e2, R2, h3, h4⟩ := full_fold (firstOnly := firstOnly) (withPaths := withPaths) hA
            (rows[v]?.getD []) { st with fringe := rest, dist := st.dist.set v (some d) } R
          simp only [e2]
          apply ih
          · exact R2.done
          · rw [h3]
            have hvn : v < st.dist.length := by rw [I.ldist]; exact I.frLt _ hmem
            have := pendFrom_set rows 0 v st.dist d (Nat.zero_le _) hd' hvn
            simp only [Nat.sub_zero] at this
            simp only at h4 ⊢
            omega

end Graphrs
