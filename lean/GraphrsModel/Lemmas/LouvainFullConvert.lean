/-
  Lemmas for Props/C13TerminationFull.lean: the edges of the graph `convert_graph` builds.
  Up to the order, they are the edges of the input (after `to_single_edges` on a multigraph and after
  `set_all_edge_weights(1.0)` in unweighted mode) with the endpoints renamed; hence
    * no negative weight appears (`convertGraph_edgesNN`),
    * in weighted mode the total weight `m` is the total weight of the input (`convertGraph_sizeWeighted`),
    * in unweighted mode `m` is the number of edges (of distinct edge keys on a multigraph), positive when the
      input has an edge (`convertGraph_sizeUnweighted_pos`).
-/
import GraphrsModel.Lemmas.LouvainFullWeights
import GraphrsModel.Lemmas.LouvainGraphs
namespace Graphrs
open LouvainFull
namespace LF

/-! ### `to_single_edges`, abstractly -/

/-- the sum of the weights `f k` over a list of keys -/
def gsum (ks : List (Nat × Nat)) (f : Nat × Nat → W) : W :=
  Abs.sumW (ks.map fun k => (⟨k.1, k.2, f k, none⟩ : Edge))

theorem gsum_cons (k : Nat × Nat) (ks : List (Nat × Nat)) (f : Nat × Nat → W) :
    gsum (k :: ks) f = W.add (f k) (gsum ks f) := by
  unfold gsum
  rw [List.map_cons, C12W.sumW_cons]

theorem gsum_congr {ks : List (Nat × Nat)} {f g : Nat × Nat → W} (h : ∀ k ∈ ks, f k = g k) : gsum ks f = gsum ks g := by
  induction ks with
  | nil => rfl
  | cons k ks ih =>
    rw [gsum_cons, gsum_cons, h k (by simp), ih (fun k' hk' => h k' (by simp [hk']))]

theorem gsum_bump (ks : List (Nat × Nat)) (hnd : ks.Nodup) (k0 : Nat × Nat) (hk0 : k0 ∈ ks) (x : W) (f : Nat × Nat → W) :
    gsum ks (fun k => if k0 = k then W.add x (f k) else f k) = W.add x (gsum ks f) := by
  induction ks with
  | nil => cases hk0
  | cons k ks ih =>
    rw [List.nodup_cons] at hnd
    rw [gsum_cons, gsum_cons]
    by_cases hk : k0 = k
    · subst hk
      rw [if_pos rfl, C12W.W_add_assoc]
      congr 1
      congr 1
      apply gsum_congr
      intro k' hk'
      rw [if_neg]
      intro e; subst e; exact hnd.1 hk'
    · rw [if_neg hk]
      have hk0' : k0 ∈ ks := by
        rcases List.mem_cons.1 hk0 with h | h
        · exact absurd h hk
        · exact h
      rw [ih hnd.2 hk0', ← C12W.W_add_assoc, ← C12W.W_add_assoc, C12W.W_add_comm (f k) x]

/-- grouping the edges by key and summing each group does not change the total weight -/
theorem gsum_groups (es : List Edge) (ks : List (Nat × Nat)) (hnd : ks.Nodup) (hks : ∀ e ∈ es, (e.u, e.v) ∈ ks) :
    gsum ks (fun k => Abs.sumW (es.filter fun e => e.u == k.1 && e.v == k.2)) = Abs.sumW es := by
  induction es with
  | nil =>
    have : ∀ ks : List (Nat × Nat), gsum ks (fun _ => Abs.sumW []) = some 0 := by
      intro ks
      induction ks with
      | nil => rfl
      | cons k ks ih => rw [gsum_cons, ih]; rfl
    exact this ks
  | cons e es ih =>
    rw [C12W.sumW_cons, ← ih (fun e' he' => hks e' (by simp [he'])),
      ← gsum_bump ks hnd (e.u, e.v) (hks e (by simp)) e.w]
    apply gsum_congr
    intro k _
    by_cases hk : (e.u, e.v) = k
    · rw [if_pos hk]
      subst hk
      rw [List.filter_cons_of_pos (by simp), C12W.sumW_cons]
    · rw [if_neg hk]
      rw [List.filter_cons_of_neg]
      simp only [Bool.and_eq_true, beq_iff_eq, not_and]
      intro h1 h2
      exact hk (Prod.ext h1 h2)

theorem toSingle_sumW (a : Abs) : Abs.sumW a.toSingle.edges = Abs.sumW a.edges := by
  unfold Abs.toSingle Abs.keys
  exact gsum_groups a.edges _ (C02.nodup_dedup _) (fun e he => (C02.mem_dedup _ _).2 (List.mem_map.2 ⟨e, he, rfl⟩))

theorem toSingle_wnn (a : Abs) (h : ∀ e ∈ a.edges, LT.WNN e.w) : ∀ e ∈ a.toSingle.edges, LT.WNN e.w := by
  intro e he
  unfold Abs.toSingle at he
  simp only [List.mem_map] at he
  obtain ⟨k, _, rfl⟩ := he
  exact LT.WNN_sumW _ (fun e' he' => h e' (List.mem_of_mem_filter he'))

theorem toSingle_ne_nil (a : Abs) (h : a.edges ≠ []) : a.toSingle.edges ≠ [] := by
  obtain ⟨e, he⟩ := List.exists_mem_of_ne_nil _ h
  have : (e.u, e.v) ∈ a.keys := (C02.mem_dedup _ _).2 (List.mem_map.2 ⟨e, he, rfl⟩)
  unfold Abs.toSingle
  simp only [ne_eq, List.map_eq_nil_iff]
  intro hc
  rw [hc] at this
  cases this

/-! ### `convert_graph` (`convert_core` / `cgTail_ok` of Lemmas/LouvainGraphs.lean, keeping the edge list) -/

theorem convert_core_abs (s2 : Store) (h2 : s2.wf = true) (hm : s2.specs.multi = false) (sorted : List Nat)
    (hsorted : sorted = sortNat s2.names) :
    ∃ g, Store.newFrom s2.specs (s2.nodesVec.map (fun n => (⟨rk sorted n.name, none⟩ : Node)))
        (s2.allEdges.map (fun e => (⟨rk sorted e.u, rk sorted e.v, e.w, none⟩ : Edge))) = .ok g ∧
      AbsEq g.abs ⟨s2.nodesVec.map (fun n => (⟨rk sorted n.name, none⟩ : Node)),
        s2.allEdges.map (fun e => (⟨rk sorted e.u, rk sorted e.v, e.w, none⟩ : Edge))⟩ := by
  obtain ⟨hn, he⟩ := Store.wf_inv h2
  have hnd := hn.names_nodup
  have hmemS : ∀ x, x ∈ s2.names → x ∈ sorted := fun x hx => by
    rw [hsorted]; exact (C02.mem_sortNat x _).2 hx
  have hsrt : sorted.Pairwise (· ≤ ·) := by rw [hsorted]; exact C02.sorted_sortNat _
  have hnames : (s2.nodesVec.map (fun n => (⟨rk sorted n.name, none⟩ : Node))).map (·.name)
      = s2.names.map (rk sorted) := by
    simp [Store.names, List.map_map, Function.comp_def]
  have hndn : ((s2.nodesVec.map (fun n => (⟨rk sorted n.name, none⟩ : Node))).map (·.name)).Nodup := by
    rw [hnames, hsorted]; exact rk_names_nodup hnd
  have hmemn : ∀ x, x ∈ s2.names →
      rk sorted x ∈ (s2.nodesVec.map (fun n => (⟨rk sorted n.name, none⟩ : Node))).map (·.name) := by
    intro x hx
    rw [hnames]
    exact List.mem_map.mpr ⟨x, hx, rfl⟩
  have hab := Abs.addEdges_valid s2.specs (s2.nodesVec.map (fun n => (⟨rk sorted n.name, none⟩ : Node)))
    (s2.allEdges.map (fun e => (⟨rk sorted e.u, rk sorted e.v, e.w, none⟩ : Edge))) []
    (fun e hm' => by
      obtain ⟨e0, h0, rfl⟩ := List.mem_map.mp hm'
      have hv := Store.allEdges_valid he h0
      exact ⟨hmemn _ hv.1, hmemn _ hv.2.1⟩)
    (fun e hm' => by
      obtain ⟨e0, h0, rfl⟩ := List.mem_map.mp hm'
      have hv := Store.allEdges_valid he h0
      rcases hv.2.2.1 with h' | h'
      · exact Or.inl h'
      · exact Or.inr (fun hc => h' (rk_inj (hmemS _ hv.1) (hmemS _ hv.2.1) hc)))
    (fun e hm' => by
      obtain ⟨e0, h0, rfl⟩ := List.mem_map.mp (by simpa using hm')
      have hv := Store.allEdges_valid he h0
      rcases hv.2.2.2 with h' | h'
      · exact Or.inl h'
      · exact Or.inr (rk_mono hsrt (hmemS _ hv.1) (hmemS _ hv.2.1) h'))
    (by
      right
      rw [List.nil_append, List.pairwise_map]
      refine List.Pairwise.imp_of_mem ?_ (Store.allEdges_keys_distinct he hm)
      intro a b ha hb hab hc
      apply hab
      have hva := Store.allEdges_valid he ha
      have hvb := Store.allEdges_valid he hb
      simp only [Prod.mk.injEq] at hc ⊢
      exact ⟨rk_inj (hmemS _ hva.1) (hmemS _ hvb.1) hc.1, rk_inj (hmemS _ hva.2.1) (hmemS _ hvb.2.1) hc.2⟩)
  rw [← Abs.addNodes_empty _ hndn] at hab
  obtain ⟨t, h1, _, _, h4⟩ := newFrom_sim Core_rest_preserved _ _ _ _ hab
  exact ⟨t, h1, by simpa using h4⟩

theorem cgTail_edges (s2 : Store) (w2 : s2.wf = true) (m2 : s2.specs.multi = false) (sorted : List Nat)
    (hsorted : sorted = sortNat s2.names) (lv : Level) (h : cgTail sorted s2 = .ok lv) :
    lv.g.allEdges.Perm (s2.allEdges.map (fun e => (⟨rk sorted e.u, rk sorted e.v, e.w, none⟩ : Edge))) := by
  obtain ⟨g, hg, habs⟩ := convert_core_abs s2 w2 m2 sorted hsorted
  obtain ⟨_, he2⟩ := Store.wf_inv w2
  have hrank : ∀ x, x ∈ s2.names → sorted.findIdx (· == x) < sorted.length := fun x hx =>
    rk_lt (by rw [hsorted]; exact (C02.mem_sortNat x _).2 hx)
  unfold cgTail at h
  rw [foldl_ok_map _ (fun n => (⟨rk sorted n.name, none⟩ : Node)) s2.getAllNodes ?_ [], bind_ok] at h
  · rw [foldl_ok_map _ (fun e => (⟨rk sorted e.u, rk sorted e.v, e.w, none⟩ : Edge)) s2.allEdges ?_ [], bind_ok] at h
    · simp only [List.nil_append, Store.getAllNodes, hg, Outcome.unwrap, bind_ok] at h
      cases h
      exact C09M.absEq_edges_perm habs
    · intro acc e he
      have hv := Store.allEdges_valid he2 he
      simp only [if_pos (hrank _ hv.1), if_pos (hrank _ hv.2.1), bind_ok]
      rfl
  · intro acc n hn'
    have : n.name ∈ s2.names := List.mem_map.mpr ⟨n, hn', rfl⟩
    simp only [if_pos (hrank _ this), bind_ok]
    rfl

/-- the edges of the converted graph -/
theorem convertGraph_edges (s : Store) (h : s.wf = true) (weighted : Bool) (lv : Level)
    (hc : convertGraph s weighted = .ok lv) :
    ∃ (E1 E2 : List Edge) (f : Edge → Edge),
      (if s.specs.multi = true then E1.Perm s.abs.toSingle.edges else E1 = s.allEdges) ∧
      (if weighted = true then E2 = E1 else E2.Perm (E1.map fun e => { e with w := some 1 })) ∧
      (∀ e, (f e).w = e.w) ∧ lv.g.allEdges.Perm (E2.map f) := by
  have hs1 : ∃ s1, (if s.specs.multi = true then s.toSingleEdges.unwrap "convert_graph: to_single_edges().unwrap()" else .ok s) = .ok s1 ∧
      s1.wf = true ∧ s1.specs.multi = false ∧ s1.nodesVec = s.nodesVec ∧
      (if s.specs.multi = true then s1.allEdges.Perm s.abs.toSingle.edges else s1.allEdges = s.allEdges) := by
    by_cases hm : s.specs.multi = true
    · obtain ⟨t, h1, h2, h3, h4⟩ := Core_toSingle s h hm
      refine ⟨t, ?_, h2, by rw [h3], h4.1, ?_⟩
      · rw [if_pos hm, h1]; rfl
      · rw [if_pos hm]; exact C09M.absEq_edges_perm h4
    · refine ⟨s, by rw [if_neg hm], h, by simpa using hm, rfl, by rw [if_neg hm]⟩
  obtain ⟨s1, e1, w1, m1, n1, p1⟩ := hs1
  have hs2 : ∃ s2, (if (!weighted) = true then s1.setAllEdgeWeights (some 1) else .ok s1) = .ok s2 ∧
      s2.wf = true ∧ s2.specs.multi = false ∧ s2.nodesVec = s.nodesVec ∧
      (if weighted = true then s2.allEdges = s1.allEdges
        else s2.allEdges.Perm (s1.allEdges.map fun e => { e with w := some 1 })) := by
    by_cases hw : (!weighted) = true
    · have hw' : weighted = false := by simpa using hw
      obtain ⟨t, h1, h2, h3, h4⟩ := Core_setWeights s1 w1 (some 1)
      refine ⟨t, ?_, h2, by rw [h3]; exact m1, h4.1.trans n1, ?_⟩
      · rw [if_pos hw, h1]
      · rw [hw', if_neg (by simp)]; exact C09M.absEq_edges_perm h4
    · have hw' : weighted = true := by simpa using hw
      exact ⟨s1, by rw [if_neg hw], w1, m1, n1, by rw [if_pos hw']⟩
  obtain ⟨s2, e2, w2, m2, n2, p2⟩ := hs2
  have hnames : s2.names = s.getAllNodeNames := by simp [Store.names, Store.getAllNodeNames, n2]
  rw [convertGraph_eq, e1, bind_ok, e2, bind_ok] at hc
  have hp := cgTail_edges s2 w2 m2 (sortNat s.getAllNodeNames) (by rw [hnames]) lv hc
  exact ⟨s1.allEdges, s2.allEdges,
    fun e => (⟨rk (sortNat s.getAllNodeNames) e.u, rk (sortNat s.getAllNodeNames) e.v, e.w, none⟩ : Edge),
    p1, p2, fun _ => rfl, hp⟩

/-! ### consequences -/

theorem sumW_map_w (l : List Edge) (f : Edge → Edge) (hf : ∀ e, (f e).w = e.w) : Abs.sumW (l.map f) = Abs.sumW l := by
  induction l with
  | nil => rfl
  | cons e l ih => rw [List.map_cons, C12W.sumW_cons, C12W.sumW_cons, ih, hf]

/-- **no negative weight in the converted graph** (in unweighted mode every weight is 1) -/
theorem convertGraph_edgesNN (s : Store) (h : s.wf = true) (weighted : Bool) (lv : Level)
    (hc : convertGraph s weighted = .ok lv) (hnn : weighted = true → EdgesNN s) : EdgesNN lv.g := by
  obtain ⟨E1, E2, f, h1, h2, hf, hp⟩ := convertGraph_edges s h weighted lv hc
  intro e he
  obtain ⟨e2, he2, rfl⟩ := List.mem_map.1 (hp.mem_iff.1 he)
  rw [hf]
  by_cases hw : weighted = true
  · rw [if_pos hw] at h2
    subst h2
    by_cases hm : s.specs.multi = true
    · rw [if_pos hm] at h1
      exact toSingle_wnn s.abs (hnn hw) e2 (h1.mem_iff.1 he2)
    · rw [if_neg hm] at h1
      subst h1
      exact hnn hw e2 he2
  · rw [if_neg hw] at h2
    obtain ⟨e1, _, rfl⟩ := List.mem_map.1 (h2.mem_iff.1 he2)
    intro x hx
    cases hx
    decide

/-- **weighted mode: `m` is the total weight of the input** -/
theorem convertGraph_sizeWeighted (s : Store) (h : s.wf = true) (lv : Level)
    (hc : convertGraph s true = .ok lv) : lv.g.sizeWeighted = s.sizeWeighted := by
  obtain ⟨E1, E2, f, h1, h2, hf, hp⟩ := convertGraph_edges s h true lv hc
  rw [if_pos rfl] at h2
  subst h2
  show Abs.sumW lv.g.allEdges = Abs.sumW s.allEdges
  rw [C12W.sumW_perm hp, sumW_map_w _ f hf]
  by_cases hm : s.specs.multi = true
  · rw [if_pos hm] at h1
    rw [C12W.sumW_perm h1, toSingle_sumW]
    rfl
  · rw [if_neg hm] at h1
    rw [h1]

/-- **unweighted mode: `m` is the number of edges of the converted graph, positive when the input has an edge**
    (and equal to the number of edges of the input when this is not a multigraph) -/
theorem convertGraph_sizeUnweighted (s : Store) (h : s.wf = true) (lv : Level)
    (hc : convertGraph s false = .ok lv) :
    (0 < s.sizeUnweighted → 0 < lv.g.sizeUnweighted) ∧
    (s.specs.multi = false → lv.g.sizeUnweighted = s.sizeUnweighted) := by
  obtain ⟨E1, E2, f, h1, h2, hf, hp⟩ := convertGraph_edges s h false lv hc
  rw [if_neg (by simp)] at h2
  have hlen : lv.g.sizeUnweighted = E1.length := by
    show lv.g.allEdges.length = _
    rw [hp.length_eq, List.length_map, h2.length_eq, List.length_map]
  constructor
  · intro hpos
    rw [hlen]
    have hne : s.allEdges ≠ [] := by
      intro hc'
      unfold Store.sizeUnweighted at hpos
      rw [hc'] at hpos
      cases hpos
    by_cases hm : s.specs.multi = true
    · rw [if_pos hm] at h1
      rw [h1.length_eq]
      exact List.length_pos_of_ne_nil (toSingle_ne_nil s.abs hne)
    · rw [if_neg hm] at h1
      rw [h1]
      exact List.length_pos_of_ne_nil hne
  · intro hm
    rw [hlen, if_neg (by rw [hm]; simp)] at *
    rw [h1]
    rfl

end LF
end Graphrs
