/-
  `specs` is never changed by a mutation (no invariant needed).
-/
import GraphrsModel.Lemmas.AddEdge
namespace Graphrs
namespace Store

theorem adjSucc_specs (s : Store) (u v : Nat) (w : W) (upd : AdjUpd) : (s.adjSucc u v w upd).specs = s.specs := by
  unfold adjSucc
  split
  · rfl
  · exact poison_specs _ _

theorem adjPred_specs (s : Store) (u v : Nat) (w : W) (upd : AdjUpd) : (s.adjPred u v w upd).specs = s.specs := by
  unfold adjPred
  split
  · rfl
  · exact poison_specs _ _

theorem adjPhase_specs (sp : Specs) (s : Store) (e : Edge) (ui vi ou ov : Nat) (upd : AdjUpd) :
    (adjPhase sp s e ui vi ou ov upd).specs = s.specs := by
  unfold adjPhase
  simp only
  split
  · rw [adjPred_specs]; simp only; rw [adjSucc_specs]
  · rw [adjSucc_specs]; simp only; rw [adjSucc_specs]

theorem edgePhase_specs (sp : Specs) (s : Store) (o : Edge) (ou ov : Nat) :
    (edgePhase sp s o ou ov).specs = s.specs := by
  unfold edgePhase
  split
  · rfl
  · split
    · rfl
    · split <;> rfl

theorem addEdge_specs (s : Store) (e : Edge) : (s.addEdge e).1.specs = s.specs := by
  rw [addEdge_eq]
  split
  · split <;> rfl
  · split
    · rfl
    · simp only
      split
      · split
        · simp only [ensure_specs]
        · simp only [edgePhase_specs, adjPhase_specs, ensure_specs]
      · simp only [poison_specs, ensure_specs]

theorem addEdges_specs (s : Store) (es : List Edge) : (s.addEdges es).1.specs = s.specs := by
  induction es generalizing s with
  | nil => rfl
  | cons e es ih =>
    have h := addEdge_specs s e
    unfold addEdges
    cases hr : s.addEdge e with
    | mk s' r =>
      rw [hr] at h
      cases r with
      | none => simp only; rw [ih]; exact h
      | some k => exact h

theorem addNodes_specs (s : Store) (ns : List Node) : (s.addNodes ns).specs = s.specs := by
  unfold addNodes
  induction ns generalizing s with
  | nil => rfl
  | cons n ns ih => rw [List.foldl_cons, ih, addNode_specs]

theorem step_specs (s : Store) (op : Op) : (s.step op).1.specs = s.specs := by
  cases op with
  | addNode n => exact addNode_specs s n
  | addNodes ns => exact addNodes_specs s ns
  | addEdge e => exact addEdge_specs s e
  | addEdgeTuple u v => exact addEdge_specs s _
  | addEdges es => exact addEdges_specs s es
  | addEdgeTuples es => exact addEdges_specs s _
  | newFrom ns es =>
    have h := addEdges_specs ((Store.new s.specs).addNodes ns) es
    rw [addNodes_specs] at h
    simp only [step, newFrom]
    cases hr : ((Store.new s.specs).addNodes ns).addEdges es with
    | mk s' r =>
      rw [hr] at h
      cases r with
      | none => exact h
      | some k => rfl

end Store
end Graphrs
