/-
  Weights for Props/C11Weighted.lean: the model's `get_max_weight` / `get_normalized_edge_weight` (real instance) against
  `Abs.maxWG` / `Abs.weightOfG` of Spec/Cluster.lean, and the bounds `0 ≤ ŵ ≤ 1` of the normalised weights.
-/
import GraphrsModel.Lemmas.C11WReal
import GraphrsModel.Props.C18Model
namespace Graphrs
namespace C11W
open C02

/-- every edge carries a (strictly) positive weight -/
def PosW (a : Abs) : Prop := ∀ e ∈ a.edges, ∃ c : Int, e.w = some c ∧ 0 < c

/-- the normalised weight `ŵ_uv` of the definition, as a real number -/
noncomputable def wR (a : Abs) (dir : Bool) (u v : Nat) : ℝ := a.weightOfG R dir u v / a.maxWG R

/-! ### the maximum -/

theorem map_wToG (l : List Edge) (hl : ∀ e ∈ l, ∃ c : Int, e.w = some c) :
    l.map (fun e => Store.wToG R e.w) = (l.filterMap fun e => e.w).map fun z : Int => (z : ℝ) := by
  induction l with
  | nil => rfl
  | cons e l ih =>
    obtain ⟨c, hc⟩ := hl e (by simp)
    rw [List.map_cons, List.filterMap_cons, hc, ih (fun e he => hl e (by simp [he]))]
    rfl

theorem maxWeight_eq (s : Store) (hw : PosW s.abs) : s.maxWeightG R = s.abs.maxWG R := by
  unfold Store.maxWeightG Abs.maxWG
  rw [map_wToG s.allEdges (fun e he => let ⟨c, hc, _⟩ := hw e he; ⟨c, hc⟩)]
  show _ = match s.allEdges.filterMap (fun e => e.w) with
    | [] => (1 : ℝ)
    | w :: ws => ((ws.foldl max w : Int) : ℝ)
  cases s.allEdges.filterMap (fun e => e.w) with
  | nil => rfl
  | cons w ws => exact foldl_max_cast ws w

theorem mem_weights (a : Abs) (hw : PosW a) (c : Int) (hc : c ∈ a.edges.filterMap fun e => e.w) : 0 < c := by
  obtain ⟨e, he, hec⟩ := List.mem_filterMap.1 hc
  obtain ⟨c', h1, h2⟩ := hw e he
  rw [h1] at hec
  cases hec
  exact h2

theorem maxW_pos (a : Abs) (hw : PosW a) : 0 < a.maxWG R := by
  unfold Abs.maxWG
  have hm := mem_weights a hw
  revert hm
  cases a.edges.filterMap (fun e => e.w) with
  | nil => intro _; exact one_pos
  | cons w ws =>
    intro hm
    show (0 : ℝ) < ((ws.foldl max w : Int) : ℝ)
    have h0 := hm w (by simp)
    have h1 := (le_foldl_max ws w).1
    exact_mod_cast lt_of_lt_of_le h0 h1

/-- a stored weight is positive and at most the maximum -/
theorem weight_le_max (a : Abs) (hw : PosW a) (e : Edge) (he : e ∈ a.edges) (c : Int) (hc : e.w = some c) :
    (0 : ℝ) < (c : ℝ) ∧ (c : ℝ) ≤ a.maxWG R := by
  have hmem : c ∈ a.edges.filterMap fun e => e.w := List.mem_filterMap.2 ⟨e, he, hc⟩
  have hpos := mem_weights a hw c hmem
  refine ⟨by exact_mod_cast hpos, ?_⟩
  unfold Abs.maxWG
  revert hmem
  cases a.edges.filterMap (fun e => e.w) with
  | nil => intro hmem; cases hmem
  | cons w ws =>
    intro hmem
    show (c : ℝ) ≤ ((ws.foldl max w : Int) : ℝ)
    have := le_foldl_max ws w
    rcases List.mem_cons.1 hmem with rfl | h
    · exact_mod_cast this.1
    · exact_mod_cast this.2 c h

/-! ### `weightOf` -/

theorem weightOfG_of_find (a : Abs) (dir : Bool) (u v : Nat) (e : Edge) (c : Int)
    (hf : a.edges.find? (fun e => Abs.sameKey dir e u v) = some e) (hc : e.w = some c) :
    a.weightOfG R dir u v = (c : ℝ) := by
  unfold Abs.weightOfG
  rw [hf]
  obtain ⟨eu, ev, ew, ea⟩ := e
  simp only at hc
  subst hc
  rfl

theorem weightOfG_none (a : Abs) (dir : Bool) (u v : Nat)
    (hf : a.edges.find? (fun e => Abs.sameKey dir e u v) = none) : a.weightOfG R dir u v = 0 := by
  unfold Abs.weightOfG
  rw [hf]
  rfl

theorem wR_bounds (a : Abs) (hw : PosW a) (dir : Bool) (u v : Nat) : 0 ≤ wR a dir u v ∧ wR a dir u v ≤ 1 := by
  have hM := maxW_pos a hw
  unfold wR
  cases hf : a.edges.find? (fun e => Abs.sameKey dir e u v) with
  | none =>
    rw [weightOfG_none a dir u v hf]
    simp
  | some e =>
    have he : e ∈ a.edges := List.mem_of_find?_eq_some hf
    obtain ⟨c, hc, _⟩ := hw e he
    rw [weightOfG_of_find a dir u v e c hf hc]
    have := weight_le_max a hw e he c hc
    exact ⟨div_nonneg this.1.le hM.le, (div_le_one hM).2 this.2⟩

theorem sameKey_false_symm (e : Edge) (u v : Nat) : Abs.sameKey false e u v = Abs.sameKey false e v u := by
  simp only [Abs.sameKey, Bool.not_false, Bool.true_and]
  exact Bool.or_comm _ _

theorem wR_symm (a : Abs) (u v : Nat) : wR a false u v = wR a false v u := by
  unfold wR Abs.weightOfG
  simp only [sameKey_false_symm]

/-! ### `get_normalized_edge_weight` -/

/-- wherever a stored edge joins `u` and `v`, the model's normalised weight is the definition's -/
theorem normW_eq (s : Store) (h : s.wf = true) (hm : s.specs.multi = false) (hw : PosW s.abs) (u v : Nat)
    (hb : s.abs.between s.specs.directed u v ≠ []) :
    s.normWG R (s.maxWeightG R) u v = wR s.abs s.specs.directed u v := by
  rcases getEdge_between s h hm u v with ⟨_, e, hge, hbe⟩ | ⟨_, hnil⟩
  · have hf : s.abs.edges.find? (fun e => Abs.sameKey s.specs.directed e u v) = some e := by
      have : (s.abs.edges.filter fun e => Abs.sameKey s.specs.directed e u v).head? = some e := by
        have hbe' : s.abs.edges.filter (fun e => Abs.sameKey s.specs.directed e u v) = [e] := hbe
        rw [hbe']; rfl
      rwa [List.head?_filter] at this
    have he : e ∈ s.abs.edges := List.mem_of_find?_eq_some hf
    obtain ⟨c, hc, _⟩ := hw e he
    unfold Store.normWG wR
    rw [hge, weightOfG_of_find s.abs _ u v e c hf hc, maxWeight_eq s hw]
    show Store.wToG R e.w / _ = _
    rw [hc]
    rfl
  · exact absurd hnil hb

theorem between_ne_nil_of_edge (a : Abs) (dir : Bool) (u v : Nat) (e : Edge) (he : e ∈ a.edges)
    (hk : Abs.sameKey dir e u v = true) : a.between dir u v ≠ [] := by
  intro hnil
  have : e ∈ a.between dir u v := List.mem_filter.2 ⟨he, hk⟩
  rw [hnil] at this
  cases this

end C11W
end Graphrs
