/-
  Helper lemmas for C02: Prop-level reading of the adjacency-set clause `adjOk`.
-/
import GraphrsModel.Lemmas.C02Query
namespace Graphrs
namespace C02
open Store

structure AdjP (s : Store) : Prop where
  kSucc : (s.succ.map (·.1)).Nodup
  kPred : (s.pred.map (·.1)).Nodup
  kSuccMap : (s.succMap.map (·.1)).Nodup
  kPredMap : (s.predMap.map (·.1)).Nodup
  succOk : ∀ kv ∈ s.succ, kv.2.Nodup ∧ kv.1 ∈ s.names ∧ ∀ y ∈ kv.2, y ∈ s.names
  predOk : ∀ kv ∈ s.pred, kv.2.Nodup ∧ kv.1 ∈ s.names ∧ ∀ y ∈ kv.2, y ∈ s.names
  succMapOk : ∀ kv ∈ s.succMap, kv.2.Nodup ∧ kv.1 < s.nodesVec.length ∧ ∀ j ∈ kv.2, j < s.nodesVec.length
  predMapOk : ∀ kv ∈ s.predMap, kv.2.Nodup ∧ kv.1 < s.nodesVec.length ∧ ∀ j ∈ kv.2, j < s.nodesVec.length
  total : ∀ i, i < s.nodesVec.length → acontains s.succMap i = true ∧ acontains s.predMap i = true
  edge : ∀ x ∈ s.names, ∀ y ∈ s.names,
    (y ∈ setOf s.succ x ↔ s.hasEdge x y = true) ∧
    (y ∈ setOf s.pred x ↔ (s.specs.directed = true ∧ s.hasEdge y x = true))
  idx : ∀ x i y j, s.names[i]? = some x → s.names[j]? = some y →
    (j ∈ setOf s.succMap i ↔ y ∈ setOf s.succ x) ∧ (j ∈ setOf s.predMap i ↔ y ∈ setOf s.pred x)

theorem adjOk_iff (s : Store) : s.adjOk = true ↔ AdjP s := by
  simp only [Store.adjOk, keysNodup, Bool.and_eq_true, List.all_eq_true, decide_eq_true_eq,
    beq_iff_eq, List.contains_iff_mem, List.mem_range]
  constructor
  · rintro ⟨⟨⟨⟨⟨⟨⟨⟨⟨⟨h1, h2⟩, h3⟩, h4⟩, h5⟩, h6⟩, h7⟩, h8⟩, h9⟩, h10⟩, h11⟩
    refine ⟨h1, h2, h3, h4, ?_, ?_, ?_, ?_, h9, ?_, ?_⟩
    · intro kv hkv; exact ⟨(h5 kv hkv).1.1, (h5 kv hkv).1.2, (h5 kv hkv).2⟩
    · intro kv hkv; exact ⟨(h6 kv hkv).1.1, (h6 kv hkv).1.2, (h6 kv hkv).2⟩
    · intro kv hkv; exact ⟨(h7 kv hkv).1.1, (h7 kv hkv).1.2, (h7 kv hkv).2⟩
    · intro kv hkv; exact ⟨(h8 kv hkv).1.1, (h8 kv hkv).1.2, (h8 kv hkv).2⟩
    · intro x hx y hy
      obtain ⟨a, b⟩ := h10 x hx y hy
      rw [Bool.eq_iff_iff, List.contains_iff_mem] at a b
      refine ⟨a, ?_⟩
      rw [b, Bool.and_eq_true]
    · intro x i y j hx hy
      obtain ⟨a, b⟩ := h11 (x, i) (List.mem_zipIdx_iff_getElem?.2 hx) (y, j) (List.mem_zipIdx_iff_getElem?.2 hy)
      rw [Bool.eq_iff_iff, List.contains_iff_mem, List.contains_iff_mem] at a b
      exact ⟨a, b⟩
  · intro h
    refine ⟨⟨⟨⟨⟨⟨⟨⟨⟨⟨h.kSucc, h.kPred⟩, h.kSuccMap⟩, h.kPredMap⟩, ?_⟩, ?_⟩, ?_⟩, ?_⟩, h.total⟩, ?_⟩, ?_⟩
    · intro kv hkv; exact ⟨⟨(h.succOk kv hkv).1, (h.succOk kv hkv).2.1⟩, (h.succOk kv hkv).2.2⟩
    · intro kv hkv; exact ⟨⟨(h.predOk kv hkv).1, (h.predOk kv hkv).2.1⟩, (h.predOk kv hkv).2.2⟩
    · intro kv hkv; exact ⟨⟨(h.succMapOk kv hkv).1, (h.succMapOk kv hkv).2.1⟩, (h.succMapOk kv hkv).2.2⟩
    · intro kv hkv; exact ⟨⟨(h.predMapOk kv hkv).1, (h.predMapOk kv hkv).2.1⟩, (h.predMapOk kv hkv).2.2⟩
    · intro x hx y hy
      obtain ⟨a, b⟩ := h.edge x hx y hy
      constructor
      · rw [Bool.eq_iff_iff, List.contains_iff_mem]; exact a
      · rw [Bool.eq_iff_iff, List.contains_iff_mem, Bool.and_eq_true]; exact b
    · intro p hp q hq
      obtain ⟨a, b⟩ := h.idx p.1 p.2 q.1 q.2 (List.mem_zipIdx_iff_getElem?.1 hp) (List.mem_zipIdx_iff_getElem?.1 hq)
      rw [Bool.eq_iff_iff, List.contains_iff_mem, List.contains_iff_mem,
        Bool.eq_iff_iff, List.contains_iff_mem, List.contains_iff_mem]
      exact ⟨a, b⟩

/-! ### consequences -/

theorem setOf_mem {κ : Type} [DecidableEq κ] (m : List (κ × List Nat)) (k : κ) (y : Nat) (h : y ∈ setOf m k) :
    ∃ l, (k, l) ∈ m ∧ y ∈ l ∧ alookup m k = some l := by
  unfold setOf at h
  cases hl : alookup m k with
  | none => simp [hl] at h
  | some l =>
    rw [hl] at h
    exact ⟨l, alookup_mem _ _ _ hl, h, rfl⟩

theorem hasEdge_names {s : Store} (he : EdgesP s) {x y : Nat} (h : s.hasEdge x y = true) :
    x ∈ s.names ∧ y ∈ s.names := by
  obtain ⟨e, hmem, hj⟩ := (hasEdge_iff s x y).1 h
  have := he.edge_names hmem
  simp only [joins, Bool.or_eq_true, Bool.and_eq_true, beq_iff_eq] at hj
  rcases hj with ⟨a, b⟩ | ⟨⟨_, a⟩, b⟩
  · exact ⟨a ▸ this.1, b ▸ this.2⟩
  · exact ⟨b ▸ this.2, a ▸ this.1⟩

/-- the name-keyed successor sets are the `hasEdge` relation, for arbitrary names -/
theorem AdjP.mem_succ {s : Store} (ha : AdjP s) (he : EdgesP s) (x y : Nat) :
    y ∈ setOf s.succ x ↔ s.hasEdge x y = true := by
  constructor
  · intro h
    obtain ⟨l, hl, hy, _⟩ := setOf_mem _ _ _ h
    have := ha.succOk _ hl
    exact ((ha.edge x this.2.1 y (this.2.2 y hy)).1).1 h
  · intro h
    have := hasEdge_names he h
    exact ((ha.edge x this.1 y this.2).1).2 h

theorem AdjP.mem_pred {s : Store} (ha : AdjP s) (he : EdgesP s) (x y : Nat) :
    y ∈ setOf s.pred x ↔ (s.specs.directed = true ∧ s.hasEdge y x = true) := by
  constructor
  · intro h
    obtain ⟨l, hl, hy, _⟩ := setOf_mem _ _ _ h
    have := ha.predOk _ hl
    exact ((ha.edge x this.2.1 y (this.2.2 y hy)).2).1 h
  · intro h
    have := hasEdge_names he h.2
    exact ((ha.edge x this.2 y this.1).2).2 h

theorem AdjP.succMap_lt {s : Store} (ha : AdjP s) {i j : Nat} (h : j ∈ setOf s.succMap i) :
    i < s.nodesVec.length ∧ j < s.nodesVec.length := by
  obtain ⟨l, hl, hy, _⟩ := setOf_mem _ _ _ h
  have := ha.succMapOk _ hl
  exact ⟨this.2.1, this.2.2 j hy⟩

theorem AdjP.predMap_lt {s : Store} (ha : AdjP s) {i j : Nat} (h : j ∈ setOf s.predMap i) :
    i < s.nodesVec.length ∧ j < s.nodesVec.length := by
  obtain ⟨l, hl, hy, _⟩ := setOf_mem _ _ _ h
  have := ha.predMapOk _ hl
  exact ⟨this.2.1, this.2.2 j hy⟩

theorem setOf_nodup {κ : Type} [DecidableEq κ] (m : List (κ × List Nat)) (k : κ)
    (h : ∀ kv ∈ m, kv.2.Nodup) : (setOf m k).Nodup := by
  unfold setOf
  cases hl : alookup m k with
  | none => simp
  | some l => exact h _ (alookup_mem _ _ _ hl)

end C02
end Graphrs
