/-
  Undirected weighted clustering: `get_weighted_triangles_and_degrees` (real instance) in closed form and against the
  sum over ordered pairs of adjacent neighbours of Spec/Cluster.lean (`weightedClusteringAtG`).
-/
import GraphrsModel.Lemmas.C11WWeights
import GraphrsModel.Props.C11Model
namespace Graphrs
namespace C11W
open C02 C11aux C11M

/-! ### generic list facts -/

theorem ainsert_same {ν : Type} (g : Nat → ν) (acc : List Nat) (a : Nat) (ha : a ∈ acc) :
    ainsert (acc.map fun n => (n, g n)) a (g a) = acc.map fun n => (n, g n) := by
  induction acc with
  | nil => cases ha
  | cons b acc ih =>
    by_cases hb : b = a
    · subst hb; simp [ainsert]
    · have : a ∈ acc := by
        rcases List.mem_cons.1 ha with h | h
        · exact absurd h.symm hb
        · exact h
      simp only [List.map_cons, ainsert, hb, if_false, ih this]

theorem foldl_ainsert_dedup {ν : Type} (g : Nat → ν) (l acc : List Nat) :
    l.foldl (fun m n => ainsert m n (g n)) (acc.map fun n => (n, g n))
      = (l.foldl sinsert acc).map fun n => (n, g n) := by
  induction l generalizing acc with
  | nil => rfl
  | cons a l ih =>
    rw [List.foldl_cons, List.foldl_cons, ← ih]
    congr 1
    by_cases ha : a ∈ acc
    · rw [ainsert_same g acc a ha]; simp [sinsert, ha]
    · rw [C09M.ainsert_fresh _ a _ (by simpa [List.map_map, Function.comp_def] using ha)]
      simp [sinsert, ha]

theorem sum_eq_zero_real {α : Type} (l : List α) (f : α → ℝ) (h : ∀ x ∈ l, f x = 0) : (l.map f).sum = 0 := by
  induction l with
  | nil => rfl
  | cons a l ih =>
    simp only [List.map_cons, List.sum_cons, h a (by simp), ih (fun x hx => h x (by simp [hx]))]
    ring

/-- the ordered double sum of a symmetric function vanishing on the diagonal is twice the sum over unordered pairs -/
theorem dsum_pairs (G : Nat → Nat → ℝ) (hs : ∀ a b, G a b = G b a) (h0 : ∀ a, G a a = 0) (L : List Nat) :
    (L.map fun u => (L.map fun w => G u w).sum).sum = 2 * ((Abs.pairs L).map fun p => G p.1 p.2).sum := by
  induction L with
  | nil => simp [Abs.pairs]
  | cons a L ih =>
    simp only [List.map_cons, List.sum_cons, Abs.pairs, List.map_append, List.sum_append, List.map_map,
      Function.comp_def, h0 a]
    rw [sum_map_add_real, ih]
    have : (L.map fun u => G u a).sum = (L.map fun w => G a w).sum := by
      congr 1
      apply List.map_congr_left
      intro u _
      exact hs u a
    rw [this]
    ring

theorem dsum_perm (G : Nat → Nat → ℝ) {L1 L2 : List Nat} (hp : L1.Perm L2) :
    (L1.map fun u => (L1.map fun w => G u w).sum).sum = (L2.map fun u => (L2.map fun w => G u w).sum).sum := by
  have e : (L1.map fun u => (L1.map fun w => G u w).sum) = (L1.map fun u => (L2.map fun w => G u w).sum) := by
    apply List.map_congr_left
    intro u _
    exact (hp.map _).sum_eq
  rw [e]
  exact (hp.map _).sum_eq

/-! ### `get_neighbors_of_nodes` for an arbitrary request -/

theorem neighborsOfNodes_req (s : Store) (h : s.wf = true) (hd : s.specs.directed = false) (names : Option (List Nat))
    (hn : ∀ x ∈ requestedU s names, s.hasNode x = true) :
    s.neighborsOfNodes names = .ok ((dedup (requestedU s names)).map fun n => (n, nm s n)) := by
  unfold Store.neighborsOfNodes
  show List.foldl _ _ (requestedU s names) = _
  rw [foldl_ok_gen _ (fun m n => ainsert m n (nm s n))]
  · have := foldl_ainsert_dedup (nm s) (requestedU s names) []
    simp only [List.map_nil] at this
    rw [this]
    rfl
  · intro acc x hx
    have hx' := hn x hx
    simp [bind, Outcome.bind, namesOf_nbr s h hd x hx', Outcome.unwrap, dedup_nm s h hd x hx']

/-! ### the inner loop of `get_weighted_triangles_and_degrees_for_node` -/

/-- the definition's term for the ordered pair `(u, k)` of neighbours of `n` -/
noncomputable def T (a : Abs) (n u k : Nat) : ℝ :=
  rcbrt (wR a false n u) * rcbrt (wR a false u k) * rcbrt (wR a false k n)

/-- ... restricted to adjacent pairs -/
noncomputable def G (a : Abs) (n u k : Nat) : ℝ := if a.adjacent u k then T a n u k else 0

/-- one step of the loop over the neighbours `u` of `n`; the state is (`seen`, running total) -/
noncomputable def innerStep (s : Store) (n : Nat) (st : List Nat × ℝ) (u : Nat) : List Nat × ℝ :=
  (sinsert st.1 u, st.2 + Store.csumG R ((sinter (mN s n) (sdiff (dedup (nm s u)) (sinsert st.1 u))).map fun k =>
    rcbrt (s.normWG R (s.maxWeightG R) n u * s.normWG R (s.maxWeightG R) u k * s.normWG R (s.maxWeightG R) k n)))

theorem between_of_N (s : Store) (x y : Nat) (hy : y ∈ s.abs.N x) : s.abs.between false x y ≠ [] := by
  have := ((C11_mem_N _ _ _).1 hy).1
  rw [C11_mem_bothOf] at this
  rcases this with ⟨e, he, h1, h2⟩ | ⟨e, he, h1, h2⟩
  · exact between_ne_nil_of_edge _ _ _ _ e he (by simp [Abs.sameKey, h1, h2])
  · exact between_ne_nil_of_edge _ _ _ _ e he (by simp [Abs.sameKey, h1, h2])

/-- on a triangle the model's term is the definition's: the cube root of the product is the product of the cube roots -/
theorem term_eq (s : Store) (h : s.wf = true) (hd : s.specs.directed = false) (hm : s.specs.multi = false)
    (hw : PosW s.abs) (n u k : Nat) (h1 : u ∈ s.abs.N n) (h2 : k ∈ s.abs.N u) (h3 : n ∈ s.abs.N k) :
    rcbrt (s.normWG R (s.maxWeightG R) n u * s.normWG R (s.maxWeightG R) u k * s.normWG R (s.maxWeightG R) k n)
      = T s.abs n u k := by
  have e1 := normW_eq s h hm hw n u (by rw [hd]; exact between_of_N s n u h1)
  have e2 := normW_eq s h hm hw u k (by rw [hd]; exact between_of_N s u k h2)
  have e3 := normW_eq s h hm hw k n (by rw [hd]; exact between_of_N s k n h3)
  rw [hd] at e1 e2 e3
  rw [e1, e2, e3, rcbrt_mul, rcbrt_mul]
  rfl

theorem G_symm (a : Abs) (n u k : Nat) : G a n u k = G a n k u := by
  unfold G T
  rw [C11_adjacent_symm a u k, wR_symm a n u, wR_symm a u k, wR_symm a k n]
  split <;> ring

theorem G_diag (a : Abs) (n u : Nat) : G a n u u = 0 := by
  unfold G
  rw [C11_adjacent_irrefl]
  rfl

theorem inner_fold (s : Store) (h : s.wf = true) (hd : s.specs.directed = false) (hm : s.specs.multi = false)
    (hw : PosW s.abs) (n : Nat) (hn : s.hasNode n = true) (rest pre : List Nat) (tot0 : ℝ)
    (hL : mN s n = pre ++ rest) :
    rest.foldl (innerStep s n) (pre, tot0)
      = (mN s n, tot0 + ((Abs.pairs rest).map fun p => G s.abs n p.1 p.2).sum) := by
  induction rest generalizing pre tot0 with
  | nil => simp [Abs.pairs, hL]
  | cons u post ih =>
    have hnd := mN_nodup s h hd n hn
    rw [hL] at hnd
    have hu_mem : u ∈ mN s n := by rw [hL]; simp
    have hu_node := mN_hasNode s h hd n hn u hu_mem
    have hu_pre : u ∉ pre := by
      intro hc
      exact (List.nodup_append.1 hnd).2.2 u hc u (by simp) rfl
    have hsi : sinsert pre u = pre ++ [u] := by simp [sinsert, hu_pre]
    have hstep : innerStep s n (pre, tot0) u = (pre ++ [u], tot0 + (post.map fun k => G s.abs n u k).sum) := by
      unfold innerStep
      simp only [hsi]
      congr 2
      rw [csumG_real]
      unfold sinter
      rw [sum_filter_real, hL, List.map_append, List.sum_append, List.map_cons, List.sum_cons]
      have z1 : (pre.map fun x => if decide (x ∈ sdiff (dedup (nm s u)) (pre ++ [u])) = true
          then rcbrt (s.normWG R (s.maxWeightG R) n u * s.normWG R (s.maxWeightG R) u x * s.normWG R (s.maxWeightG R) x n)
          else 0).sum = 0 := by
        apply sum_eq_zero_real
        intro x hx
        have : x ∉ sdiff (dedup (nm s u)) (pre ++ [u]) := by
          simp [sdiff, hx]
        simp [this]
      have z2 : u ∉ sdiff (dedup (nm s u)) (pre ++ [u]) := by simp [sdiff]
      rw [z1]
      simp only [z2, decide_false, Bool.false_eq_true, if_false, zero_add]
      congr 1
      apply List.map_congr_left
      intro k hk
      have hk_mem : k ∈ mN s n := by rw [hL]; simp [hk]
      have hk_ne : k ≠ u := by
        intro e
        subst e
        have := (List.nodup_append.1 hnd).2.1
        exact (List.nodup_cons.1 this).1 hk
      have hk_pre : k ∉ pre := by
        intro hc
        exact (List.nodup_append.1 hnd).2.2 k hc k (by simp [hk]) rfl
      have hiff : k ∈ sdiff (dedup (nm s u)) (pre ++ [u]) ↔ s.abs.adjacent u k = true := by
        rw [adjacent_iff, ← mem_mN s h hd u hu_node]
        simp [sdiff, mN, C11aux.mem_dedup, hk_pre, hk_ne]
      unfold G
      by_cases hadj : s.abs.adjacent u k = true
      · rw [if_pos (by simpa using hiff.2 hadj), if_pos hadj]
        have h1 := (mem_mN s h hd n hn u).1 hu_mem
        have h2 := (adjacent_iff s.abs u k).1 hadj
        have h3 := (C11_N_symm s.abs k n).1 ((mem_mN s h hd n hn k).1 hk_mem)
        exact term_eq s h hd hm hw n u k h1 h2 h3
      · rw [if_neg (by simpa using fun hc => hadj (hiff.1 hc)), if_neg hadj]
    rw [List.foldl_cons, hstep, ih (pre ++ [u]) _ (by rw [hL]; simp)]
    congr 1
    simp only [Abs.pairs, List.map_append, List.sum_append, List.map_map, Function.comp_def]
    ring

/-- the total the loop returns -/
theorem inner_total (s : Store) (h : s.wf = true) (hd : s.specs.directed = false) (hm : s.specs.multi = false)
    (hw : PosW s.abs) (n : Nat) (hn : s.hasNode n = true) :
    ((mN s n).foldl (innerStep s n) ([], 0)).2 * 2
      = ((s.abs.N n).map fun u => ((s.abs.N n).map fun w => G s.abs n u w).sum).sum := by
  rw [inner_fold s h hd hm hw n hn (mN s n) [] 0 (by simp)]
  rw [← dsum_perm (G s.abs n) (mN_perm s h hd n hn), dsum_pairs (G s.abs n) (G_symm s.abs n) (G_diag s.abs n)]
  simp only [zero_add]
  ring

/-! ### `get_weighted_triangles_and_degrees` in closed form -/

noncomputable def wtdOf (s : Store) (n : Nat) : Nat × Nat × ℝ :=
  (n, (mN s n).length, ((mN s n).foldl (innerStep s n) ([], 0)).2 * 2)

theorem wtd_ok (s : Store) (h : s.wf = true) (hd : s.specs.directed = false) (names : Option (List Nat))
    (hn : ∀ x ∈ requestedU s names, s.hasNode x = true) :
    s.weightedTrianglesAndDegreesG R names = .ok ((dedup (requestedU s names)).map (wtdOf s)) := by
  unfold Store.weightedTrianglesAndDegreesG
  rw [neighborsOfNodes_req s h hd names hn]
  simp only [bind, Outcome.bind]
  rw [List.foldl_map, foldl_ok_map _ (wtdOf s)]
  · simp
  · intro acc n hnmem
    have hn' := hn n ((C11aux.mem_dedup _ _).1 hnmem)
    show Outcome.bind (List.foldl _ _ (mN s n)) _ = _
    rw [foldl_ok_gen _ (innerStep s n)]
    · rfl
    · intro st u hu
      obtain ⟨seen, tot⟩ := st
      have hu' := mN_hasNode s h hd n hn' u hu
      simp only [namesOf_nbr s h hd u hu', Outcome.unwrap]
      rfl

/-! ### bounds -/

theorem G_bounds (a : Abs) (hw : PosW a) (n u k : Nat) :
    0 ≤ G a n u k ∧ G a n u k ≤ if a.adjacent u k then 1 else 0 := by
  unfold G
  split
  · unfold T
    have b1 := wR_bounds a hw false n u
    have b2 := wR_bounds a hw false u k
    have b3 := wR_bounds a hw false k n
    have c1 := rcbrt_nonneg b1.1
    have c2 := rcbrt_nonneg b2.1
    have c3 := rcbrt_nonneg b3.1
    have d1 := rcbrt_le_one b1.1 b1.2
    have d2 := rcbrt_le_one b2.1 b2.2
    have d3 := rcbrt_le_one b3.1 b3.2
    constructor
    · positivity
    · have e1 : rcbrt (wR a false n u) * rcbrt (wR a false u k) ≤ 1 := mul_le_one₀ d1 c2 d2
      exact mul_le_one₀ e1 c3 d3
  · exact ⟨le_rfl, le_rfl⟩

theorem ind_sum_le (l : List Nat) (p : Nat → Bool) (x : Nat) (hx : x ∈ l) (hp : p x = false) :
    (l.map fun w => if p w then (1 : ℝ) else 0).sum ≤ (l.length : ℝ) - 1 := by
  have hall : ∀ l : List Nat, (l.map fun w => if p w then (1 : ℝ) else 0).sum ≤ (l.length : ℝ) := by
    intro l
    induction l with
    | nil => simp
    | cons a l ih =>
      simp only [List.map_cons, List.sum_cons, List.length_cons]
      push_cast
      have : (if p a then (1 : ℝ) else 0) ≤ 1 := by split <;> norm_num
      linarith
  induction l with
  | nil => cases hx
  | cons a l ih =>
    simp only [List.map_cons, List.sum_cons, List.length_cons]
    push_cast
    rcases List.mem_cons.1 hx with rfl | hx'
    · rw [hp]
      have := hall l
      simp only [Bool.false_eq_true, if_false]
      linarith
    · have := ih hx'
      have : (if p a then (1 : ℝ) else 0) ≤ 1 := by split <;> norm_num
      linarith

/-- the weighted triangle sum at `v` lies between 0 and `d (d - 1)` -/
theorem dsum_bounds (a : Abs) (hw : PosW a) (v : Nat) :
    0 ≤ ((a.N v).map fun u => ((a.N v).map fun w => G a v u w).sum).sum ∧
    ((a.N v).map fun u => ((a.N v).map fun w => G a v u w).sum).sum
      ≤ ((a.N v).length : ℝ) * (((a.N v).length : ℝ) - 1) := by
  constructor
  · apply sum_map_nonneg_real
    intro u _
    apply sum_map_nonneg_real
    intro w _
    exact (G_bounds a hw v u w).1
  · rw [← sum_map_const_real (a.N v) (((a.N v).length : ℝ) - 1)]
    apply sum_map_le_real
    intro u hu
    refine le_trans (sum_map_le_real _ _ (fun w => if a.adjacent u w then (1 : ℝ) else 0)
      (fun w _ => (G_bounds a hw v u w).2)) ?_
    exact ind_sum_le (a.N v) (fun w => a.adjacent u w) u hu (C11_adjacent_irrefl a u)

end C11W
end Graphrs
