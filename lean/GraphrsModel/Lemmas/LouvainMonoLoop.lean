/-
  Lemmas for Props/C13Monotone.lean, part 5: the level loop.  Along `levelLoop` the modularity `LM.Qlist` (measured on
  the edge list of the level-0 graph, with the `m` the loop was given) of the partitions appended to the result never
  decreases, and the first one is at least as good as the partition `compute_one_level` started from.
-/
import GraphrsModel.Lemmas.LouvainMonoAgg
import GraphrsModel.Lemmas.LouvainFullLoop
import Mathlib.Data.List.Chain
namespace Graphrs
open LouvainFull
namespace LM

theorem levelLoop_mono (weighted : Bool) (res threshold m : Rat) (perms : List (List Nat)) (sweepFuel n : Nat)
    (es0 : List Edge) (dir : Bool) (hes0 : ∀ e ∈ es0, e.u < n ∧ e.v < n) (hm : 0 < m) (hres : 0 ≤ res)
    (pre : List (List (List Nat))) :
    ∀ (fuel : Nat) (lv : Level) (k : Nat) (partition inner : List (List Nat)) (improvement : Bool) (modularity : Rat)
      (acc levels : List (List (List Nat))) (B : Nat → Nat),
    LF.GoodLevel lv n k → lv.g.wf = true → lv.g.specs.multi = false → LF.EdgesNN lv.g → LF.PI lv k partition inner →
    AggInv es0 n lv k B → lv.g.specs.directed = dir →
    List.IsChain (fun a b => Qlist dir es0 m res a ≤ Qlist dir es0 m res b) (pre ++ acc) →
    (∀ x ∈ (pre ++ acc).getLast?, Qlist dir es0 m res x ≤ Qlist dir es0 m res partition) →
    levelLoop weighted res threshold m perms sweepFuel fuel lv partition inner improvement modularity acc = .ok (some levels) →
    List.IsChain (fun a b => Qlist dir es0 m res a ≤ Qlist dir es0 m res b) (pre ++ levels) := by
  intro fuel
  induction fuel with
  | zero => intro lv k partition inner improvement modularity acc levels B _ _ _ _ _ _ _ _ _ h; simp [levelLoop] at h
  | succ fuel ih =>
    intro lv k partition inner improvement modularity acc levels B hg hwf hmulti hnn hpi hagg hdir hchain hlast h
    unfold levelLoop at h
    by_cases himp : improvement = true
    · simp only [himp, Bool.not_true, Bool.false_eq_true, if_false, bind, Outcome.bind] at h
      have hchain' : List.IsChain (fun a b => Qlist dir es0 m res a ≤ Qlist dir es0 m res b)
          (pre ++ (acc ++ [partition])) := by
        rw [← List.append_assoc, List.isChain_append]
        refine ⟨hchain, by simp, ?_⟩
        intro x hx y hy
        simp only [List.head?_cons, Option.mem_def, Option.some.injEq] at hy
        subst hy
        exact hlast x hx
      split at h
      next x omod hmod =>
        cases omod with
        | none => simp at h
        | some newMod =>
          simp only at h
          by_cases hth : newMod - modularity ≤ threshold
          · rw [if_pos hth] at h
            simp only [Outcome.ok.injEq, Option.some.injEq] at h
            subst h
            exact hchain'
          · rw [if_neg hth] at h
            split at h
            next y lv' hgen =>
              obtain ⟨hwf', hm', _, hg', hmem'⟩ := LF.generateGraph_good lv n k hg hwf inner hpi.inner_part lv' hgen
              rw [hmulti] at hm'
              have hin' : LF.InputOK lv' inner.length partition := hpi.inputOK hmem'
              have hnn' : LF.EdgesNN lv'.g := LF.generateGraph_edgesNN lv inner lv' hnn hgen
              obtain ⟨hdir', B', hagg'⟩ := agg_step hg hwf hmulti hagg hpi.inner_part hgen
              have hdir'' : lv'.g.specs.directed = dir := hdir'.trans hdir
              split at h
              next z ores hcol =>
                cases ores with
                | none => simp at h
                | some r =>
                  obtain ⟨p, i, imp⟩ := r
                  simp only at h
                  obtain ⟨hpi', _⟩ := LF.computeOneLevel_post hg' hin' hcol
                  have hle := level_mono hes0 hg' hwf' hm' hnn' hagg' hin' hm hres hcol
                  rw [hdir''] at hle
                  refine ih lv' inner.length p i imp newMod (acc ++ [partition]) levels B' hg' hwf' hm' hnn' hpi' hagg'
                    hdir'' hchain' ?_ h
                  intro x hx
                  rw [← List.append_assoc, List.getLast?_append] at hx
                  simp only [List.getLast?_singleton, Option.some_or, Option.mem_def, Option.some.injEq] at hx
                  subst hx
                  exact hle
              all_goals (exact absurd h (by simp))
            all_goals (exact absurd h (by simp))
      all_goals (exact absurd h (by simp))
    · simp only [himp, Bool.not_false, if_true] at h
      simp only [Outcome.ok.injEq, Option.some.injEq] at h
      subst h
      exact hchain

/-- `louvainPartitions` after `convert_graph`: the chain starts with the all-singletons partition -/
theorem lpTailF_mono (lv : Level) (n : Nat) (hg : LF.GoodLevel lv n n) (hwf : lv.g.wf = true)
    (hmulti : lv.g.specs.multi = false) (hnum : lv.g.numNodes = n) (hmem : ∀ x, LF.mem lv x = [x]) (hnn : LF.EdgesNN lv.g)
    (hnan : NoNaN lv.g.allEdges)
    (weighted : Bool) (res threshold : Rat) (perms : List (List Nat)) (hm : 0 < mOf lv weighted) (hres : 0 ≤ res)
    (F1 F2 : Nat) (levels : List (List (List Nat)))
    (h : lpTailF F1 F2 lv weighted res threshold perms = .ok (some levels)) :
    List.IsChain (fun a b => Qlist lv.g.specs.directed lv.g.allEdges (mOf lv weighted) res a
        ≤ Qlist lv.g.specs.directed lv.g.allEdges (mOf lv weighted) res b)
      (((List.range n).map fun i => [i]) :: levels) := by
  have hin : LF.InputOK lv n ((List.range n).map fun i => [i]) := by
    refine ⟨by simp, ?_, ?_⟩
    · intro i hi; rw [LF.getD_map_range, if_pos hi]; simp
    · intro i z hi; rw [LF.getD_map_range, if_pos hi, hmem]
  have hes0 := LT.edges_lt hg hwf
  have hagg : AggInv lv.g.allEdges n lv n id := by
    refine ⟨?_, ?_, hnan⟩
    · intro z hz
      simp only [id]
      exact ⟨hz, by rw [hmem]; simp⟩
    · intro f _
      rfl
  unfold lpTailF at h
  simp only [bind, Outcome.bind, hnum] at h
  split at h
  next x omod hmod =>
    cases omod with
    | none => simp at h
    | some mod0 =>
      simp only at h
      split at h
      next z ores hcol =>
        cases ores with
        | none => simp at h
        | some r =>
          obtain ⟨p, i, imp⟩ := r
          simp only at h
          obtain ⟨hpi, _⟩ := LF.computeOneLevel_post hg hin hcol
          have hle := level_mono hes0 hg hwf hmulti hnn hagg hin hm hres hcol
          have := levelLoop_mono weighted res threshold (mOf lv weighted) perms F1 n lv.g.allEdges lv.g.specs.directed
            hes0 hm hres [(List.range n).map fun i => [i]] F2 lv n p i true mod0 [] levels id hg hwf hmulti hnn hpi hagg rfl
            (by simp) (by intro x hx; simp at hx; subst hx; exact hle) h
          exact this
      all_goals (exact absurd h (by simp))
  all_goals (exact absurd h (by simp))

end LM
end Graphrs
