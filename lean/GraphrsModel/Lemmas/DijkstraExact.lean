/-
  Two more invariants of `dijkstraLoop`, for every target / cutoff and non-negative costs:
  * every finalised distance is exact at all times (also when the loop stops early at the target);
  * with `first_only = true` every node that has been seen stores exactly one path.
-/
import GraphrsModel.Lemmas.DijkstraComplete
namespace Graphrs

/-- at a row boundary every walk within the cutoff ends in a finalised node with a label below its cost, or is
    bounded below by a fringe entry -/
theorem Inv.lower_bound {A : Arcs} {src n : Nat} {cut : Option Int} {dist seen : List (Option Int)} {fr : List FNode}
    (hA : ArcsWf A n) (I : Inv A src n cut [] dist seen fr) :
    ∀ t c, Walk A src t c → overCutoff cut c = false →
      (∃ x, lk dist t = some x ∧ x ≤ c) ∨ ∃ e ∈ fr, e.1 ≤ c := by
  have hcov : ∀ x k c, lk seen x = some k → k ≤ c → (∃ y, lk dist x = some y ∧ y ≤ c) ∨ ∃ e ∈ fr, e.1 ≤ c := by
    intro x k c hk hle
    cases hd : lk dist x with
    | none =>
      obtain ⟨cnt, hm⟩ := I.cover x k hd hk
      exact Or.inr ⟨_, hm, hle⟩
    | some dx =>
      have := I.distSeen x dx hd
      rw [hk] at this; cases this
      exact Or.inl ⟨k, rfl, hle⟩
  intro t c hw
  induction hw with
  | nil =>
    intro _
    obtain ⟨k, hk, hle⟩ := I.srcOk
    exact hcov _ k 0 hk hle
  | snoc hw' ha ih =>
    rename_i u x c' w
    intro hc
    have hw0 : 0 ≤ w := (hA _ ha).2
    rcases ih (overCutoff_mono hc (by omega)) with ⟨du, hdu, hle⟩ | ⟨e, he, hle⟩
    · rcases I.closed u du hdu x w ha with h | h | ⟨k, hk, hle2⟩
      · simp at h
      · have := overCutoff_mono hc (by omega : du + w ≤ c' + w)
        rw [this] at h; cases h
      · exact hcov x k _ hk (by omega)
    · exact Or.inr ⟨e, he, by omega⟩

/-- finalised distances are exact; below a negative cutoff nothing is ever pushed -/
def EInv (A : Arcs) (src : Nat) (cut : Option Int) (st : DState) : Prop :=
  (∀ v d, lk st.dist v = some d → IsDist A src v d) ∧ (overCutoff cut 0 = true → ∀ e ∈ st.fringe, e.1 ≤ 0)

theorem dijkstraLoop_exact {A : Arcs} {src n : Nat} {weighted : Bool} {cut : Option Int} {firstOnly withPaths : Bool}
    {target : Option Nat} (rows : List (List Adj)) (hA : ArcsWf A n) (hrows : RowsOk A weighted rows)
    (fuel : Nat) (st st' : DState)
    (I : Inv A src n cut [] st.dist st.seen st.fringe) (E : EInv A src cut st)
    (h : dijkstraLoop (fun v => rows[v]?.getD []) weighted target cut firstOnly withPaths fuel st = .ok st') :
    EInv A src cut st' := by
  have hnn : ∀ a ∈ A, 0 ≤ a.2.2 := fun a ha => (hA a ha).2
  have := dijkstraLoop_generic (A := A) (src := src) (n := n) (weighted := weighted) (cut := cut) (firstOnly := firstOnly)
    (withPaths := withPaths) (target := target) rows hA hrows
    (fun st => EInv A src cut st) (fun _ _ _ st => EInv A src cut st)
    (fun st b J => ⟨J.1, fun h0 e he => J.2 h0 e (List.mem_of_mem_erase he)⟩)
    ?_ ?_ (fun v d st _ J => J) fuel st st' I E h
  · rcases this with h | ⟨_, _, _, h⟩
    · exact h
    · exact h
  · intro st d cnt v I J hmem hmin hv
    refine ⟨?_, fun h0 e he => J.2 h0 e (List.mem_of_mem_erase he)⟩
    intro v' dv' hd
    simp only at hd
    by_cases e : v = v'
    · subst e
      rw [lk_set_self _ _ _ (by rw [I.ldist]; exact I.frLt _ hmem)] at hd
      cases hd
      refine ⟨I.frWalk _ hmem, fun c hw => ?_⟩
      cases hc : overCutoff cut c with
      | false =>
        rcases I.lower_bound hA v c hw hc with ⟨x, hx, _⟩ | ⟨e, he, hle⟩
        · rw [hv] at hx; cases hx
        · have := hmin e he; omega
      | true =>
        cases h0 : overCutoff cut 0 with
        | false =>
          have h1 := I.frCut h0 _ hmem
          simp only at h1
          by_cases hle : d ≤ c
          · exact hle
          · have := overCutoff_mono h1 (by omega : c ≤ d)
            rw [hc] at this; cases this
        | true =>
          have h1 := J.2 h0 _ hmem
          have h2 := Walk.nonneg hnn hw
          simp only at h1
          omega
    · rw [lk_set_ne _ _ _ _ e] at hd
      exact J.1 v' dv' hd
  · intro v d st st' a row R J e
    obtain ⟨u, w⟩ := a
    have hd0 : 0 ≤ d := Walk.nonneg hnn (R.distWalk v d R.hv)
    have hpush : ∀ c, (v, u, c) ∈ A → overCutoff cut (d + c) = false → ∀ (k : Nat),
        overCutoff cut 0 = true → ∀ e ∈ (d + c, k, u) :: st.fringe, e.1 ≤ 0 := by
      intro c harc ho k h0
      have hc0 : 0 ≤ c := (hA _ harc).2
      have := overCutoff_mono ho (by omega : (0 : Int) ≤ d + c)
      rw [h0] at this; cases this
    rcases relaxFull_cases (firstOnly := firstOnly) (withPaths := withPaths) hA st u w row R with
      ⟨hc, h⟩ | ⟨c, hc, ⟨hok, h⟩ | ⟨ho, hd, hlt, h⟩ | ⟨ho, hd, hs, hf, h⟩⟩
    · rw [h] at e; cases e; exact J
    · rw [h] at e; cases e; exact J
    · rw [h] at e; cases e
      rw [rowArcs_cons_some (by simpa using hc)] at R
      exact ⟨J.1, hpush c (R.pendA _ (List.mem_cons_self ..)) ho _⟩
    · rw [h] at e; cases e
      rw [rowArcs_cons_some (by simpa using hc)] at R
      exact ⟨J.1, hpush c (R.pendA _ (List.mem_cons_self ..)) ho _⟩

/-! ## `first_only = true`: one path per seen node -/

def FInv (n : Nat) (st : DState) : Prop :=
  st.paths.length = n ∧ ∀ u k, lk st.seen u = some k → ∃ p, pth st.paths u = [p]

theorem dijkstraLoop_first {A : Arcs} {src n : Nat} {weighted : Bool} {cut : Option Int}
    {target : Option Nat} (rows : List (List Adj)) (hA : ArcsWf A n) (hrows : RowsOk A weighted rows)
    (fuel : Nat) (st st' : DState)
    (I : Inv A src n cut [] st.dist st.seen st.fringe) (F : FInv n st)
    (h : dijkstraLoop (fun v => rows[v]?.getD []) weighted target cut true true fuel st = .ok st') :
    FInv n st' := by
  have := dijkstraLoop_generic (A := A) (src := src) (n := n) (weighted := weighted) (cut := cut) (firstOnly := true)
    (withPaths := true) (target := target) rows hA hrows
    (fun st => FInv n st) (fun _ _ _ st => FInv n st)
    (fun st b J => J) (fun st d cnt v _ J _ _ _ => J) ?_ (fun v d st _ J => J) fuel st st' I F h
  · rcases this with h | ⟨_, _, _, h⟩
    · exact h
    · exact h
  · intro v d st st' a row R J e
    obtain ⟨u, w⟩ := a
    rcases relaxFull_cases (firstOnly := true) (withPaths := true) hA st u w row R with
      ⟨hc, h⟩ | ⟨c, hc, ⟨hok, h⟩ | ⟨ho, hd, hlt, h⟩ | ⟨ho, hd, hs, hf, h⟩⟩
    · rw [h] at e; cases e; exact J
    · rw [h] at e; cases e; exact J
    · rw [h] at e; cases e
      rw [rowArcs_cons_some (by simpa using hc)] at R
      have harc : (v, u, c) ∈ A := R.pendA _ (List.mem_cons_self ..)
      have hun : u < n := (hA _ harc).1
      obtain ⟨pv, hpv⟩ := J.2 v d (R.distSeen v d R.hv)
      simp only [FInv, pushLt, if_true]
      refine ⟨by simp [J.1], ?_⟩
      intro x k hk
      by_cases hx : u = x
      · subst hx
        rw [pth_set_self _ (by rw [J.1]; exact hun)]
        change ∃ p, List.map (fun x => x ++ [u]) (pth st.paths v) = [p]
        rw [hpv]
        exact ⟨pv ++ [u], rfl⟩
      · rw [pth_set_ne _ hx]
        rw [lk_set_ne _ _ _ _ hx] at hk
        exact J.2 x k hk
    · cases hf

end Graphrs
