/-
  The level-synchronous BFS of closeness.rs (`ccLevels`, Model/Centrality.lean) computes exactly the hop
  distances: loop invariant, fuel bound, exactness at every exit (empty level / all nodes seen).
-/
import GraphrsModel.Model.Centrality
import GraphrsModel.Spec.Walk
import Mathlib.Data.List.Perm.Subperm
namespace Graphrs
namespace C06L

/-! ## list-set helpers -/

theorem mem_sinsert {α} [DecidableEq α] (s : List α) (x y : α) : y ∈ sinsert s x ↔ y ∈ s ∨ y = x := by
  unfold sinsert
  by_cases h : x ∈ s
  · rw [if_pos h]
    constructor
    · exact Or.inl
    · rintro (h' | rfl)
      · exact h'
      · exact h
  · rw [if_neg h]; simp

theorem mem_foldl_sinsert_map {α β} [DecidableEq α] (f : β → α) (l : List β) (acc : List α) (y : α) :
    y ∈ l.foldl (fun nx a => sinsert nx (f a)) acc ↔ y ∈ acc ∨ ∃ a ∈ l, f a = y := by
  induction l generalizing acc with
  | nil => simp
  | cons x xs ih =>
    rw [List.foldl_cons, ih, mem_sinsert]
    constructor
    · rintro ((h | h) | ⟨a, ha, e⟩)
      · exact Or.inl h
      · exact Or.inr ⟨x, List.mem_cons_self .., h.symm⟩
      · exact Or.inr ⟨a, List.mem_cons_of_mem _ ha, e⟩
    · rintro (h | ⟨a, ha, e⟩)
      · exact Or.inl (Or.inl h)
      · rw [List.mem_cons] at ha
        rcases ha with rfl | ha
        · exact Or.inl (Or.inr e.symm)
        · exact Or.inr ⟨a, ha, e⟩

/-- a duplicate-free list of `n` numbers below `n` lists every number below `n` -/
theorem nodup_lt_length_le {l : List Nat} {n : Nat} (hnd : l.Nodup) (hlt : ∀ v ∈ l, v < n) : l.length ≤ n := by
  have hs : l.Subperm (List.range n) := hnd.subperm (fun x hx => List.mem_range.2 (hlt x hx))
  simpa using hs.length_le

theorem nodup_lt_full {l : List Nat} {n : Nat} (hnd : l.Nodup) (hlt : ∀ v ∈ l, v < n) (hlen : l.length = n) :
    ∀ x, x < n → x ∈ l := by
  have hs : l.Subperm (List.range n) := hnd.subperm (fun x hx => List.mem_range.2 (hlt x hx))
  have hp : l.Perm (List.range n) := hs.perm_of_length_le (by simp [hlen])
  intro x hx
  exact hp.mem_iff.2 (List.mem_range.2 hx)

/-! ## the loop, with named pieces -/

def lvlStep (lvl : Int) (acc : List Nat × List Nat × List (Nat × Int)) (v : Nat) :
    List Nat × List Nat × List (Nat × Int) :=
  if acc.1.contains v then acc else (acc.1 ++ [v], acc.2.1 ++ [v], acc.2.2 ++ [(v, lvl)])

def nextOf (adjOf : Nat → List Adj) (found : List Nat) : List Nat :=
  found.foldl (fun nx v => (adjOf v).foldl (fun nx a => sinsert nx a.1) nx) []

theorem ccLevels_succ (adjOf : Nat → List Adj) (n fuel : Nat) (level seen : List Nat) (lvl : Int)
    (res : List (Nat × Int)) :
    ccLevels adjOf n (fuel + 1) level seen lvl res =
      if level.isEmpty then res
      else
        if (level.foldl (lvlStep lvl) (seen, [], res)).1.length == n then (level.foldl (lvlStep lvl) (seen, [], res)).2.2
        else ccLevels adjOf n fuel (nextOf adjOf (level.foldl (lvlStep lvl) (seen, [], res)).2.1)
          (level.foldl (lvlStep lvl) (seen, [], res)).1 (lvl + 1) (level.foldl (lvlStep lvl) (seen, [], res)).2.2 := by
  rw [ccLevels]
  rfl

theorem lvl_fold (lvl : Int) (level : List Nat) : ∀ (seen found : List Nat) (res : List (Nat × Int)),
    ∃ fnd, level.foldl (lvlStep lvl) (seen, found, res) = (seen ++ fnd, found ++ fnd, res ++ fnd.map (fun v => (v, lvl))) ∧
      (∀ v ∈ fnd, v ∈ level ∧ v ∉ seen) ∧ fnd.Nodup ∧ (∀ v ∈ level, v ∈ seen ∨ v ∈ fnd) := by
  induction level with
  | nil => intro seen found res; exact ⟨[], by simp, by simp, List.nodup_nil, by simp⟩
  | cons v l ih =>
    intro seen found res
    rw [List.foldl_cons]
    by_cases hc : seen.contains v = true
    · have hv : v ∈ seen := by simpa using hc
      have e : lvlStep lvl (seen, found, res) v = (seen, found, res) := by simp [lvlStep, hv]
      rw [e]
      obtain ⟨fnd, h1, h2, h3, h4⟩ := ih seen found res
      refine ⟨fnd, h1, ?_, h3, ?_⟩
      · intro x hx; exact ⟨List.mem_cons_of_mem _ (h2 x hx).1, (h2 x hx).2⟩
      · intro x hx
        rw [List.mem_cons] at hx
        rcases hx with rfl | hx
        · left; exact hv
        · exact h4 x hx
    · have hv : v ∉ seen := by simpa using hc
      have e : lvlStep lvl (seen, found, res) v = (seen ++ [v], found ++ [v], res ++ [(v, lvl)]) := by
        simp [lvlStep, hv]
      rw [e]
      obtain ⟨fnd, h1, h2, h3, h4⟩ := ih (seen ++ [v]) (found ++ [v]) (res ++ [(v, lvl)])
      refine ⟨v :: fnd, ?_, ?_, ?_, ?_⟩
      · rw [h1]; simp
      · intro x hx
        rw [List.mem_cons] at hx
        rcases hx with rfl | hx
        · exact ⟨List.mem_cons_self .., hv⟩
        · have := h2 x hx
          exact ⟨List.mem_cons_of_mem _ this.1, fun hs => this.2 (List.mem_append_left _ hs)⟩
      · rw [List.nodup_cons]
        exact ⟨fun hm => (h2 v hm).2 (by simp), h3⟩
      · intro x hx
        rw [List.mem_cons] at hx
        rcases hx with rfl | hx
        · right; exact List.mem_cons_self ..
        · rcases h4 x hx with h | h
          · rw [List.mem_append, List.mem_singleton] at h
            rcases h with h | rfl
            · left; exact h
            · right; exact List.mem_cons_self ..
          · right; exact List.mem_cons_of_mem _ h

theorem mem_nextOf (adjOf : Nat → List Adj) (found : List Nat) (x : Nat) :
    x ∈ nextOf adjOf found ↔ ∃ v ∈ found, ∃ a ∈ adjOf v, a.1 = x := by
  have key : ∀ (acc : List Nat),
      x ∈ found.foldl (fun nx v => (adjOf v).foldl (fun nx a => sinsert nx a.1) nx) acc ↔
        x ∈ acc ∨ ∃ v ∈ found, ∃ a ∈ adjOf v, a.1 = x := by
    induction found with
    | nil => intro acc; simp
    | cons v l ih =>
      intro acc
      rw [List.foldl_cons, ih, mem_foldl_sinsert_map]
      constructor
      · rintro ((h | h) | ⟨u, hu, h⟩)
        · exact Or.inl h
        · exact Or.inr ⟨v, List.mem_cons_self .., h⟩
        · exact Or.inr ⟨u, List.mem_cons_of_mem _ hu, h⟩
      · rintro (h | ⟨u, hu, h⟩)
        · exact Or.inl (Or.inl h)
        · rw [List.mem_cons] at hu
          rcases hu with rfl | hu
          · exact Or.inl (Or.inr h)
          · exact Or.inr ⟨u, hu, h⟩
  unfold nextOf
  rw [key]
  simp

/-! ## the invariant -/

structure LInv (A : Arcs) (n src : Nat) (k : Int) (level seen : List Nat) (res : List (Nat × Int)) : Prop where
  seenEq : seen = res.map (·.1)
  nd : seen.Nodup
  lt : ∀ v ∈ seen, v < n
  resWalk : ∀ v d, (v, d) ∈ res → Walk A src v d ∧ d < k
  lvlWalk : ∀ v ∈ level, Walk A src v k ∧ v < n
  closed : ∀ u du, (u, du) ∈ res → ∀ x w, (u, x, w) ∈ A →
    (∃ dx, (x, dx) ∈ res ∧ dx ≤ du + w) ∨ (du + 1 = k ∧ x ∈ level)
  srcOk : (∃ x, (src, x) ∈ res ∧ x ≤ 0) ∨ (k = 0 ∧ src ∈ level)

/-- what every exit of the loop establishes -/
structure LFin (A : Arcs) (src : Nat) (res : List (Nat × Int)) : Prop where
  nd : (res.map (·.1)).Nodup
  resWalk : ∀ v d, (v, d) ∈ res → Walk A src v d
  closed : ∀ u du, (u, du) ∈ res → ∀ x w, (u, x, w) ∈ A → ∃ dx, (x, dx) ∈ res ∧ dx ≤ du + w
  srcOk : ∃ x, (src, x) ∈ res ∧ x ≤ 0

theorem LFin.lower {A : Arcs} {src : Nat} {res : List (Nat × Int)} (F : LFin A src res) :
    ∀ t c, Walk A src t c → ∃ x, (t, x) ∈ res ∧ x ≤ c := by
  intro t c hw
  induction hw with
  | nil => exact F.srcOk
  | snoc hw' ha ih =>
    obtain ⟨du, hdu, hle⟩ := ih
    obtain ⟨dx, hdx, hle2⟩ := F.closed _ du hdu _ _ ha
    exact ⟨dx, hdx, by omega⟩

theorem nodup_keys_unique {res : List (Nat × Int)} (hnd : (res.map (·.1)).Nodup) {v : Nat} {a b : Int}
    (ha : (v, a) ∈ res) (hb : (v, b) ∈ res) : a = b := by
  induction res with
  | nil => simp at ha
  | cons p l ih =>
    rw [List.map_cons, List.nodup_cons] at hnd
    rw [List.mem_cons] at ha hb
    rcases ha with ha | ha <;> rcases hb with hb | hb
    · rw [← ha] at hb; simpa using hb.symm
    · exfalso; apply hnd.1; rw [← ha]; exact List.mem_map_of_mem (f := (·.1)) hb
    · exfalso; apply hnd.1; rw [← hb]; exact List.mem_map_of_mem (f := (·.1)) ha
    · exact ih hnd.2 ha hb

theorem LFin.exact {A : Arcs} {src : Nat} {res : List (Nat × Int)} (F : LFin A src res) (v : Nat) (d : Int) :
    (v, d) ∈ res ↔ IsDist A src v d := by
  constructor
  · intro h
    refine ⟨F.resWalk v d h, fun c hw => ?_⟩
    obtain ⟨x, hx, hle⟩ := F.lower v c hw
    have := nodup_keys_unique F.nd h hx
    omega
  · rintro ⟨hw, hmin⟩
    obtain ⟨x, hx, hle⟩ := F.lower v d hw
    have := hmin x (F.resWalk v x hx)
    have e : x = d := by omega
    rw [← e]; exact hx

/-! ## the loop establishes `LFin` -/

theorem ccLevels_fin {A : Arcs} {adjOf : Nat → List Adj} {n src : Nat}
    (hA : ∀ u x w, (u, x, w) ∈ A ↔ (u < n ∧ w = 1 ∧ ∃ a ∈ adjOf u, a.1 = x))
    (hidx : ∀ v, v < n → ∀ a ∈ adjOf v, a.1 < n) :
    ∀ (fuel : Nat) (level seen : List Nat) (k : Int) (res : List (Nat × Int)),
      LInv A n src k level seen res →
      ((level = [] ∧ 1 ≤ fuel) ∨ (seen.length < n ∧ n + 1 ≤ fuel + seen.length)) →
      LFin A src (ccLevels adjOf n fuel level seen k res) := by
  intro fuel
  induction fuel with
  | zero => intro level seen k res _ hf; omega
  | succ f ih =>
    intro level seen k res I hf
    rw [ccLevels_succ]
    by_cases hl : level = []
    · subst hl
      simp only [List.isEmpty_nil, if_true]
      refine ⟨by rw [← I.seenEq]; exact I.nd, fun v d h => (I.resWalk v d h).1, ?_, ?_⟩
      · intro u du hu x w ha
        rcases I.closed u du hu x w ha with h | ⟨_, h⟩
        · exact h
        · simp at h
      · rcases I.srcOk with h | ⟨_, h⟩
        · exact h
        · simp at h
    · have hne : level.isEmpty = false := by cases level with | nil => exact absurd rfl hl | cons _ _ => rfl
      rw [hne]
      simp only [Bool.false_eq_true, if_false]
      have hf2 : seen.length < n ∧ n + 1 ≤ (f + 1) + seen.length := by
        rcases hf with ⟨h, _⟩ | h
        · exact absurd h hl
        · exact h
      obtain ⟨fnd, hfold, hfnd, hfnd_nd, hcov⟩ := lvl_fold k level seen [] res
      rw [hfold]
      simp only [List.nil_append]
      -- facts on the new state
      have hres' : ∀ v d, (v, d) ∈ res ++ fnd.map (fun v => (v, k)) → Walk A src v d ∧ d ≤ k ∧ v < n := by
        intro v d h
        rw [List.mem_append] at h
        rcases h with h | h
        · have := I.resWalk v d h
          refine ⟨this.1, by omega, I.lt v ?_⟩
          rw [I.seenEq]; exact List.mem_map_of_mem (f := (·.1)) h
        · rw [List.mem_map] at h
          obtain ⟨x, hx, e⟩ := h
          simp only [Prod.mk.injEq] at e
          obtain ⟨e1, e2⟩ := e
          subst e1 e2
          have := I.lvlWalk x (hfnd x hx).1
          exact ⟨this.1, Int.le_refl _, this.2⟩
      have hseen' : seen ++ fnd = (res ++ fnd.map (fun v => (v, k))).map (·.1) := by
        rw [List.map_append, ← I.seenEq, List.map_map]
        congr 1
        simp [Function.comp_def]
      have hnd' : (seen ++ fnd).Nodup := by
        rw [List.nodup_append]
        refine ⟨I.nd, hfnd_nd, ?_⟩
        intro a ha b hb hab
        subst hab
        exact (hfnd a hb).2 ha
      have hlt' : ∀ v ∈ seen ++ fnd, v < n := by
        intro v hv
        rw [List.mem_append] at hv
        rcases hv with hv | hv
        · exact I.lt v hv
        · exact (I.lvlWalk v (hfnd v hv).1).2
      have hin : ∀ x, x ∈ seen ++ fnd → ∃ dx, (x, dx) ∈ res ++ fnd.map (fun v => (v, k)) ∧ dx ≤ k := by
        intro x hx
        rw [hseen', List.mem_map] at hx
        obtain ⟨⟨y, dy⟩, hy, e⟩ := hx
        simp only at e
        subst e
        exact ⟨dy, hy, (hres' y dy hy).2.1⟩
      have hclosed' : ∀ u du, (u, du) ∈ res ++ fnd.map (fun v => (v, k)) → ∀ x w, (u, x, w) ∈ A →
          (∃ dx, (x, dx) ∈ res ++ fnd.map (fun v => (v, k)) ∧ dx ≤ du + w) ∨ (du = k ∧ x ∈ nextOf adjOf fnd) := by
        intro u du hu x w ha
        have hw1 : w = 1 := ((hA u x w).1 ha).2.1
        rw [List.mem_append] at hu
        rcases hu with hu | hu
        · rcases I.closed u du hu x w ha with ⟨dx, hdx, hle⟩ | ⟨hk, hx⟩
          · exact Or.inl ⟨dx, List.mem_append_left _ hdx, hle⟩
          · left
            have : x ∈ seen ++ fnd := by
              rw [List.mem_append]; exact hcov x hx
            obtain ⟨dx, hdx, hle⟩ := hin x this
            exact ⟨dx, hdx, by omega⟩
        · rw [List.mem_map] at hu
          obtain ⟨y, hy, e⟩ := hu
          simp only [Prod.mk.injEq] at e
          obtain ⟨e1, e2⟩ := e
          subst e1 e2
          right
          refine ⟨rfl, (mem_nextOf adjOf fnd x).2 ⟨y, hy, ((hA y x w).1 ha).2.2⟩⟩
      have hsrc' : ∃ x, (src, x) ∈ res ++ fnd.map (fun v => (v, k)) ∧ x ≤ 0 := by
        rcases I.srcOk with ⟨x, hx, hle⟩ | ⟨hk, hs⟩
        · exact ⟨x, List.mem_append_left _ hx, hle⟩
        · have : src ∈ seen ++ fnd := by rw [List.mem_append]; exact hcov src hs
          obtain ⟨dx, hdx, hle⟩ := hin src this
          exact ⟨dx, hdx, by omega⟩
      by_cases hfull : ((seen ++ fnd).length == n) = true
      · rw [if_pos hfull]
        have hlen : (seen ++ fnd).length = n := by simpa using hfull
        refine ⟨by rw [← hseen']; exact hnd', fun v d h => (hres' v d h).1, ?_, hsrc'⟩
        intro u du hu x w ha
        rcases hclosed' u du hu x w ha with h | ⟨hk, hx⟩
        · exact h
        · have hw1 : w = 1 := ((hA u x w).1 ha).2.1
          obtain ⟨v, hv, a, haa, e⟩ := (mem_nextOf adjOf fnd x).1 hx
          have hvn : v < n := (I.lvlWalk v (hfnd v hv).1).2
          have hxn : x < n := by rw [← e]; exact hidx v hvn a haa
          obtain ⟨dx, hdx, hle⟩ := hin x (nodup_lt_full hnd' hlt' hlen x hxn)
          exact ⟨dx, hdx, by omega⟩
      · rw [if_neg hfull]
        have hlen : (seen ++ fnd).length ≠ n := by simpa using hfull
        have hlen_le := nodup_lt_length_le hnd' hlt'
        apply ih
        · refine ⟨hseen', hnd', hlt', ?_, ?_, ?_, Or.inl hsrc'⟩
          · intro v d h
            have := hres' v d h
            exact ⟨this.1, by omega⟩
          · intro x hx
            obtain ⟨v, hv, a, haa, e⟩ := (mem_nextOf adjOf fnd x).1 hx
            have hv' := I.lvlWalk v (hfnd v hv).1
            have harc : (v, x, (1 : Int)) ∈ A := (hA v x 1).2 ⟨hv'.2, rfl, a, haa, e⟩
            refine ⟨Walk.snoc hv'.1 harc, ?_⟩
            rw [← e]; exact hidx v hv'.2 a haa
          · intro u du hu x w ha
            rcases hclosed' u du hu x w ha with h | ⟨hk, hx⟩
            · exact Or.inl h
            · exact Or.inr ⟨by omega, hx⟩
        · cases fnd with
          | nil =>
            left
            refine ⟨rfl, ?_⟩
            simp only [List.append_nil] at hlen_le
            omega
          | cons y ys =>
            right
            simp only [List.length_append, List.length_cons] at hlen hlen_le ⊢
            omega

theorem LInv.init (A : Arcs) (n src : Nat) (hsrc : src < n) : LInv A n src 0 [src] [] [] where
  seenEq := rfl
  nd := List.nodup_nil
  lt := by simp
  resWalk := by simp
  lvlWalk := by
    intro v hv
    rw [List.mem_singleton] at hv
    subst hv
    exact ⟨Walk.nil _, hsrc⟩
  closed := by simp
  srcOk := Or.inr ⟨rfl, by simp⟩

/-- **exactness of `ccLevels`** over any arc list that lists exactly the entries of the traversal lists, at cost 1 -/
theorem ccLevels_exact {A : Arcs} {adjOf : Nat → List Adj} {n src : Nat}
    (hA : ∀ u x w, (u, x, w) ∈ A ↔ (u < n ∧ w = 1 ∧ ∃ a ∈ adjOf u, a.1 = x))
    (hidx : ∀ v, v < n → ∀ a ∈ adjOf v, a.1 < n) (hsrc : src < n) :
    ((ccLevels adjOf n (n + 1) [src] [] 0 []).map (·.1)).Nodup ∧
      ∀ v d, (v, d) ∈ ccLevels adjOf n (n + 1) [src] [] 0 [] ↔ IsDist A src v d := by
  have F := ccLevels_fin hA hidx (n + 1) [src] [] 0 [] (LInv.init A n src hsrc)
    (Or.inr ⟨by simp only [List.length_nil]; omega, by simp⟩)
  exact ⟨F.nd, F.exact⟩

end C06L
end Graphrs
