/-
  Completeness of the path lists of `dijkstra` (strictly positive costs, no cutoff, `first_only = false`):
  the closure invariant "for a finalised `v'` and a tight arc `v' → u` (`dist v' + m = seen u`) every stored path of `v'`
  extended by `u` is stored for `u`", and from it: at termination every shortest path is stored.
-/
import GraphrsModel.Lemmas.DijkstraGeneric
import GraphrsModel.Props.C04
namespace Graphrs

/-- the stored path list of `u` -/
abbrev pth (paths : List (List (List Nat))) (u : Nat) : List (List Nat) := paths[u]?.getD []

theorem pth_set_self {paths : List (List (List Nat))} {u : Nat} (x : List (List Nat)) (h : u < paths.length) :
    pth (paths.set u x) u = x := by
  simp [pth, h]

theorem pth_set_ne {paths : List (List (List Nat))} {u y : Nat} (x : List (List Nat)) (h : u ≠ y) :
    pth (paths.set u x) y = pth paths y := by
  simp [pth, List.getElem?_set_ne h]

/-- a strictly cheaper parallel arc into `u` is still pending: the list of `u` is provisional -/
def Tmp (v : Nat) (d : Int) (pend : Arcs) (seen : List (Option Int)) (u : Nat) : Prop :=
  ∃ k c', lk seen u = some k ∧ (v, u, c') ∈ pend ∧ d + c' < k

theorem Tmp.nil {v : Nat} {d : Int} {seen : List (Option Int)} {u : Nat} : ¬ Tmp v d [] seen u := by
  rintro ⟨_, _, _, h, _⟩; simp at h

/-- dropping the head arc `(v, u, c)` keeps `Tmp x` unless the head was the witness -/
theorem Tmp.tail {v : Nat} {d : Int} {pend : Arcs} {seen : List (Option Int)} {u x : Nat} {c : Int}
    (h : Tmp v d ((v, u, c) :: pend) seen x) (hu : x = u → ∀ k, lk seen u = some k → k ≤ d + c) :
    Tmp v d pend seen x := by
  obtain ⟨k, c', hk, hm, hlt⟩ := h
  simp only [List.mem_cons, Prod.mk.injEq] at hm
  rcases hm with ⟨_, e2, e3⟩ | hm
  · subst e2 e3
    have := hu rfl k hk
    omega
  · exact ⟨k, c', hk, hm, hlt⟩

theorem Tmp.other {v : Nat} {d : Int} {pend : Arcs} {seen seen' : List (Option Int)} {u x : Nat} {c : Int}
    (h : Tmp v d ((v, u, c) :: pend) seen x) (hx : x ≠ u) (hs : lk seen' x = lk seen x) :
    Tmp v d pend seen' x := by
  obtain ⟨k, c', hk, hm, hlt⟩ := h
  simp only [List.mem_cons, Prod.mk.injEq] at hm
  rcases hm with ⟨_, e2, _⟩ | hm
  · exact absurd e2 hx
  · exact ⟨k, c', by rw [hs]; exact hk, hm, hlt⟩

/-- inside the row of `v` -/
structure CInv (A : Arcs) (src n v : Nat) (d : Int) (pend : Arcs) (dist seen : List (Option Int))
    (paths : List (List (List Nat))) : Prop where
  plen : paths.length = n
  src0 : [src] ∈ pth paths src
  clos : ∀ v' dv' u m, lk dist v' = some dv' → (v', u, m) ∈ A → lk seen u = some (dv' + m) →
    (v', u, m) ∈ pend ∨ Tmp v d pend seen u ∨ ∀ q ∈ pth paths v', q ++ [u] ∈ pth paths u

/-- at row boundaries -/
structure CInvB (A : Arcs) (src n : Nat) (dist seen : List (Option Int)) (paths : List (List (List Nat))) : Prop where
  plen : paths.length = n
  src0 : [src] ∈ pth paths src
  clos : ∀ v' dv' u m, lk dist v' = some dv' → (v', u, m) ∈ A → lk seen u = some (dv' + m) →
    ∀ q ∈ pth paths v', q ++ [u] ∈ pth paths u

theorem CInvB.init (A : Arcs) (src n : Nat) (hsrc : src < n) (seen : List (Option Int)) :
    CInvB A src n (List.replicate n none) seen ((List.replicate n []).set src [[src]]) where
  plen := by simp
  src0 := by rw [pth_set_self _ (by simpa using hsrc)]; simp
  clos := by intro v' dv' u m h; rw [lk_replicate_none] at h; cases h

theorem CInvB.enter {A : Arcs} {src n : Nat} {dist seen : List (Option Int)} {paths : List (List (List Nat))}
    (C : CInvB A src n dist seen paths) (v : Nat) (d : Int) (pend : Arcs)
    (hp1 : ∀ x w, (v, x, w) ∈ A → (v, x, w) ∈ pend) :
    CInv A src n v d pend (dist.set v (some d)) seen paths where
  plen := C.plen
  src0 := C.src0
  clos := by
    intro v' dv' u m hd ha hs
    by_cases e : v = v'
    · subst e; exact Or.inl (hp1 u m ha)
    · rw [lk_set_ne _ _ _ _ e] at hd
      exact Or.inr (Or.inr (C.clos v' dv' u m hd ha hs))

theorem CInv.exit {A : Arcs} {src n v : Nat} {d : Int} {dist seen : List (Option Int)} {paths : List (List (List Nat))}
    (C : CInv A src n v d [] dist seen paths) : CInvB A src n dist seen paths where
  plen := C.plen
  src0 := C.src0
  clos := by
    intro v' dv' u m hd ha hs
    rcases C.clos v' dv' u m hd ha hs with h | h | h
    · simp at h
    · exact absurd h Tmp.nil
    · exact h

/-- an entry that changes nothing: `seen[u] < d + c` -/
theorem CInv.skip {A : Arcs} {src n v : Nat} {d : Int} {pend : Arcs} {dist seen : List (Option Int)}
    {paths : List (List (List Nat))} {u : Nat} {c su : Int}
    (C : CInv A src n v d ((v, u, c) :: pend) dist seen paths) (hv : lk dist v = some d)
    (hs : lk seen u = some su) (hlt : su < d + c) :
    CInv A src n v d pend dist seen paths where
  plen := C.plen
  src0 := C.src0
  clos := by
    intro v' dv' u' m hd ha hs'
    rcases C.clos v' dv' u' m hd ha hs' with h | h | h
    · simp only [List.mem_cons, Prod.mk.injEq] at h
      rcases h with ⟨e1, e2, e3⟩ | h
      · subst e1 e2 e3
        rw [hv] at hd; cases hd
        rw [hs] at hs'; cases hs'
        omega
      · exact Or.inl h
    · refine Or.inr (Or.inl (h.tail ?_))
      intro _ k hk
      rw [hs] at hk; cases hk; omega
    · exact Or.inr (Or.inr h)

theorem CInv.push_lt {A : Arcs} {src n v : Nat} {d : Int} {pend : Arcs} {st : DState} {u : Nat} {c : Int}
    (hA : ArcsWf A n)
    (R : RowInv A src n none v d ((v, u, c) :: pend) st.dist st.seen st.fringe)
    (C : CInv A src n v d ((v, u, c) :: pend) st.dist st.seen st.paths)
    (hd : lk st.dist u = none) (hlt : ∀ su, lk st.seen u = some su → d + c < su) :
    CInv A src n v d pend (pushLt true v u (d + c) st).dist (pushLt true v u (d + c) st).seen
      (pushLt true v u (d + c) st).paths := by
  have harc : (v, u, c) ∈ A := R.pendA _ (List.mem_cons_self ..)
  have hun : u < n := (hA _ harc).1
  have hc0 : 0 ≤ c := (hA _ harc).2
  have hd0 : 0 ≤ d := Walk.nonneg (fun a ha => (hA a ha).2) (R.distWalk v d R.hv)
  have hvu : v ≠ u := by intro e; subst e; rw [R.hv] at hd; cases hd
  have hfin : ∀ v' dv', lk st.dist v' = some dv' → u ≠ v' := by
    intro v' dv' h e; subst e; rw [hd] at h; cases h
  have hsu : lk (st.seen.set u (some (d + c))) u = some (d + c) := lk_set_self _ _ _ (by rw [R.lseen]; exact hun)
  simp only [pushLt, if_true]
  refine ⟨by simp [C.plen], ?_, ?_⟩
  · have : u ≠ src := by
      intro e; subst e
      obtain ⟨k, hk, hle⟩ := R.srcOk
      have := hlt k hk
      omega
    rw [pth_set_ne _ this]; exact C.src0
  · intro v' dv' u' m hd' ha hs'
    by_cases hu : u' = u
    · subst hu
      rw [hsu] at hs'
      have hs'' : d + c = dv' + m := Option.some.inj hs'
      by_cases hv : v' = v
      · subst hv
        rw [R.hv] at hd'; cases hd'
        refine Or.inr (Or.inr ?_)
        intro q hq
        rw [pth_set_ne _ (fun e => hvu e.symm)] at hq
        rw [pth_set_self _ (by rw [C.plen]; exact hun)]
        exact List.mem_map.2 ⟨q, hq, rfl⟩
      · exfalso
        rcases R.closed v' dv' hd' u' m ha with h | h | ⟨k, hk, hle⟩
        · exact hv (R.pendSrc _ h)
        · cases h
        · have := hlt k hk
          omega
    · have hseen : lk (st.seen.set u (some (d + c))) u' = lk st.seen u' := lk_set_ne _ _ _ _ (fun e => hu e.symm)
      rw [hseen] at hs'
      rcases C.clos v' dv' u' m hd' ha hs' with h | h | h
      · simp only [List.mem_cons, Prod.mk.injEq] at h
        rcases h with ⟨_, e2, _⟩ | h
        · exact absurd e2 hu
        · exact Or.inl h
      · exact Or.inr (Or.inl (h.other hu hseen))
      · refine Or.inr (Or.inr ?_)
        intro q hq
        rw [pth_set_ne _ (hfin v' dv' hd')] at hq
        rw [pth_set_ne _ (fun e => hu e.symm)]
        exact h q hq

theorem CInv.push_eq {A : Arcs} {src n v : Nat} {d : Int} {pend : Arcs} {st : DState} {u : Nat} {c : Int}
    (hA : ArcsWf A n)
    (R : RowInv A src n none v d ((v, u, c) :: pend) st.dist st.seen st.fringe)
    (C : CInv A src n v d ((v, u, c) :: pend) st.dist st.seen st.paths)
    (hd : lk st.dist u = none) (hs : lk st.seen u = some (d + c)) :
    CInv A src n v d pend (pushEq true v u (d + c) st).dist (pushEq true v u (d + c) st).seen
      (pushEq true v u (d + c) st).paths := by
  have harc : (v, u, c) ∈ A := R.pendA _ (List.mem_cons_self ..)
  have hun : u < n := (hA _ harc).1
  have hvu : v ≠ u := by intro e; subst e; rw [R.hv] at hd; cases hd
  have hfin : ∀ v' dv', lk st.dist v' = some dv' → u ≠ v' := by
    intro v' dv' h e; subst e; rw [hd] at h; cases h
  have hup : u < st.paths.length := by rw [C.plen]; exact hun
  have hmono : ∀ x, ∀ p ∈ pth st.paths x,
      p ∈ pth (st.paths.set u (pth st.paths u ++ (pth st.paths v).map (· ++ [u]))) x := by
    intro x p hp
    by_cases e : u = x
    · subst e; rw [pth_set_self _ hup]; exact List.mem_append_left _ hp
    · rw [pth_set_ne _ e]; exact hp
  simp only [pushEq, if_true]
  refine ⟨by simp [C.plen], hmono _ _ C.src0, ?_⟩
  intro v' dv' u' m hd' ha hs'
  have hnew : ∀ q ∈ pth (st.paths.set u (pth st.paths u ++ (pth st.paths v).map (· ++ [u]))) v,
      q ++ [u] ∈ pth (st.paths.set u (pth st.paths u ++ (pth st.paths v).map (· ++ [u]))) u := by
    intro q hq
    rw [pth_set_ne _ (fun e => hvu e.symm)] at hq
    rw [pth_set_self _ hup]
    exact List.mem_append_right _ (List.mem_map.2 ⟨q, hq, rfl⟩)
  rcases C.clos v' dv' u' m hd' ha hs' with h | h | h
  · simp only [List.mem_cons, Prod.mk.injEq] at h
    rcases h with ⟨e1, e2, e3⟩ | h
    · subst e1 e2 e3
      exact Or.inr (Or.inr hnew)
    · exact Or.inl h
  · refine Or.inr (Or.inl (h.tail ?_))
    intro _ k hk
    rw [hs] at hk; cases hk; omega
  · refine Or.inr (Or.inr ?_)
    intro q hq
    rw [pth_set_ne _ (hfin v' dv' hd')] at hq
    exact hmono _ _ (h q hq)

/-- the closure invariant is preserved by the loop -/
theorem dijkstraLoop_complete {A : Arcs} {src n : Nat} {weighted : Bool}
    (rows : List (List Adj)) (hA : ArcsWf A n) (hpos : ∀ a ∈ A, 0 < a.2.2)
    (hrows : RowsOk A weighted rows) (fuel : Nat) (st st' : DState)
    (I : Inv A src n none [] st.dist st.seen st.fringe)
    (C : CInvB A src n st.dist st.seen st.paths)
    (h : dijkstraLoop (fun v => rows[v]?.getD []) weighted none none false true fuel st = .ok st') :
    CInvB A src n st'.dist st'.seen st'.paths := by
  have := dijkstraLoop_generic (A := A) (src := src) (n := n) (weighted := weighted) (cut := none) (firstOnly := false)
    (withPaths := true) (target := none) rows hA hrows
    (fun st => CInvB A src n st.dist st.seen st.paths)
    (fun v d pend st => CInv A src n v d pend st.dist st.seen st.paths)
    (fun st b J => J)
    (fun st d cnt v _ J _ _ _ => J.enter v d _ (hrows.sub v))
    ?_
    (fun v d st _ J => J.exit)
    fuel st st' I C h
  · rcases this with h | ⟨_, _, h, _⟩
    · exact h
    · cases h
  · intro v d st st' a row R J e
    obtain ⟨u, w⟩ := a
    rcases relaxFull_cases_pos (withPaths := true) hpos st u w row R with
      ⟨hc, h⟩ | ⟨c, hc, ⟨su, hs, hlt, h⟩ | ⟨hd, hlt, h⟩ | ⟨hd, hs, h⟩⟩
    · rw [h] at e; cases e
      rw [rowArcs_cons_none (by simpa using hc)] at J
      exact J
    · rw [h] at e; cases e
      rw [rowArcs_cons_some (by simpa using hc)] at J
      exact J.skip R.hv hs hlt
    · rw [h] at e; cases e
      rw [rowArcs_cons_some (by simpa using hc)] at J R
      exact J.push_lt hA R hd hlt
    · rw [h] at e; cases e
      rw [rowArcs_cons_some (by simpa using hc)] at J R
      exact J.push_eq hA R hd hs

/-! ## at termination every shortest path is stored -/

theorem minArc_mem {A : Arcs} {x y : Nat} {m : Int} (h : minArc A x y = some m) : (x, y, m) ∈ A := by
  unfold minArc at h
  cases hcs : (A.filter fun a => a.1 == x && a.2.1 == y).map (·.2.2) with
  | nil => rw [hcs] at h; cases h
  | cons c cs' =>
    rw [hcs] at h
    simp only [Option.some.injEq] at h
    have hm := foldl_min_mem cs' c
    rw [h, ← hcs, List.mem_map] at hm
    obtain ⟨⟨a1, a2, a3⟩, ha, he⟩ := hm
    rw [List.mem_filter] at ha
    obtain ⟨ha1, ha2⟩ := ha
    simp only [Bool.and_eq_true, beq_iff_eq] at ha2
    obtain ⟨e1, e2⟩ := ha2
    simp only at he
    subst e1 e2 he
    exact ha1

theorem walkCost_walk' {A : Arcs} {p : List Nat} {a b : Nat} {c : Int} (h : Arcs.walkCost A p = some c)
    (ha : p.head? = some a) (hb : p.getLast? = some b) : Walk A a b c := by
  obtain ⟨a', b', ha', hb', hw⟩ := C04_walkCost_walk A p c h
  rw [ha] at ha'; rw [hb] at hb'
  cases ha'; cases hb'
  exact hw

theorem complete_final {A : Arcs} {src n : Nat} {dist seen : List (Option Int)} {paths : List (List (List Nat))}
    (hA : ArcsWf A n) (I : Inv A src n none [] dist seen []) (C : CInvB A src n dist seen paths) :
    ∀ (k : Nat) (p : List Nat), p.length = k → ∀ (t : Nat) (d : Int), p.head? = some src → p.getLast? = some t →
      Arcs.walkCost A p = some d → IsDist A src t d → p ∈ pth paths t := by
  have hex := fun t d => I.final_exact hA rfl t d
  have hdist : ∀ t d, IsDist A src t d → lk dist t = some d := fun t d h => (hex t d).2 ⟨h, rfl⟩
  intro k
  induction k with
  | zero =>
    intro p hk t d hh
    cases p with
    | nil => simp at hh
    | cons x xs => simp at hk
  | succ k ih =>
    intro p hk t d hh hl hc hd
    rcases List.eq_nil_or_concat p with e | ⟨q, u, e⟩
    · subst e; simp at hh
    · rw [List.concat_eq_append] at e
      subst e
      have hut : u = t := by simpa using hl
      subst hut
      cases hq : q.getLast? with
      | none =>
        have : q = [] := List.getLast?_eq_none_iff.1 hq
        subst this
        simp at hh
        subst hh
        exact C.src0
      | some v =>
        have hqne : q ≠ [] := by intro e; subst e; simp at hq
        have hqh : q.head? = some src := by
          cases q with
          | nil => exact absurd rfl hqne
          | cons a q' => simpa using hh
        rw [walkCost_append_last A u q v hq] at hc
        cases hx : Arcs.walkCost A q with
        | none => rw [hx] at hc; simp at hc
        | some x =>
          cases hm : minArc A v u with
          | none => rw [hx, hm] at hc; simp at hc
          | some b =>
            rw [hx, hm] at hc
            simp only [Option.bind_some, Option.map_some, Option.some.injEq] at hc
            have harc := minArc_mem hm
            have hwq : Walk A src v x := walkCost_walk' hx hqh hq
            obtain ⟨dv, hdv, hle⟩ := I.final_lower hA v x hwq rfl
            have hdv' := (hex v dv).1 hdv
            have h1 := hd.2 _ (Walk.snoc hdv'.1.1 harc)
            have exv : dv = x := by omega
            subst exv
            have hqk : q.length = k := by simp at hk; omega
            have hqm := ih q hqk v dv hqh hq hx hdv'.1
            exact C.clos v dv u b hdv harc (by rw [I.distSeen u d (hdist u d hd), hc]) q hqm

end Graphrs
