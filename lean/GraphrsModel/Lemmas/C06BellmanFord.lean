/-
  The Bellman-Ford bound behind `Arcs.distFrom` (Spec/Paths.lean): with non-negative costs and all arc endpoints
  among `n` distinct nodes, `n` rounds of (in-place) relaxation from a source among them yield exactly the
  shortest-walk distances.  `ccSpec` / `bcSpec` run `distFrom arcs n s` without testing `isClosed`; this is the
  justification.

  Proof: (1) after `k` rounds every label is at most the cost of every walk with at most `k` arcs; (2) every label is
  the cost of a walk; (3) every walk can be replaced by a walk with fewer than `n` arcs that is not more expensive
  (cut at the last visit of the source and recurse on the graph without the source).
-/
import GraphrsModel.Spec.Walk
import GraphrsModel.Lemmas.C04Aux
import GraphrsModel.Lemmas.DijkstraInv
namespace Graphrs
namespace C06B

/-! ## walks with a hop count -/

inductive WalkK (arcs : Arcs) : Nat → Nat → Int → Nat → Prop
  | nil (s : Nat) : WalkK arcs s s 0 0
  | snoc {s u v : Nat} {c w : Int} {k : Nat} : WalkK arcs s u c k → (u, v, w) ∈ arcs → WalkK arcs s v (c + w) (k + 1)

theorem WalkK.toWalk {arcs : Arcs} {s t : Nat} {c : Int} {k : Nat} (h : WalkK arcs s t c k) : Walk arcs s t c := by
  induction h with
  | nil => exact Walk.nil _
  | snoc _ ha ih => exact Walk.snoc ih ha

theorem WalkK.mono {arcs arcs' : Arcs} (hsub : ∀ a ∈ arcs, a ∈ arcs') {s t : Nat} {c : Int} {k : Nat}
    (h : WalkK arcs s t c k) : WalkK arcs' s t c k := by
  induction h with
  | nil => exact WalkK.nil _
  | snoc _ ha ih => exact WalkK.snoc ih (hsub _ ha)

/-- prepend an arc -/
theorem WalkK.cons {arcs : Arcs} {x y b : Nat} {w c : Int} {k : Nat} (ha : (x, y, w) ∈ arcs)
    (hw : WalkK arcs y b c k) : WalkK arcs x b (c + w) (k + 1) := by
  induction hw with
  | nil =>
    have := WalkK.snoc (WalkK.nil (arcs := arcs) x) ha
    simpa using this
  | snoc hw' ha' ih =>
    rename_i u v c' w' k'
    have := WalkK.snoc ih ha'
    have e : c' + w' + w = c' + w + w' := by omega
    rw [e]; exact this

/-! ## cutting a walk at the last visit of its source -/

/-- the arcs that do not touch `s` -/
def avoid (arcs : Arcs) (s : Nat) : Arcs := arcs.filter fun a => a.1 != s && a.2.1 != s

theorem mem_avoid (arcs : Arcs) (s : Nat) (a : Nat × Nat × Int) :
    a ∈ avoid arcs s ↔ a ∈ arcs ∧ a.1 ≠ s ∧ a.2.1 ≠ s := by
  simp [avoid]

theorem split_last {arcs : Arcs} (hnn : ∀ a ∈ arcs, 0 ≤ a.2.2) {s t : Nat} {c : Int} (h : Walk arcs s t c) :
    t = s ∨ ∃ y w c', y ≠ s ∧ (s, y, w) ∈ arcs ∧ Walk (avoid arcs s) y t c' ∧ w + c' ≤ c := by
  induction h with
  | nil => exact Or.inl rfl
  | snoc hw' ha ih =>
    rename_i u v c w
    by_cases hv : v = s
    · exact Or.inl hv
    · right
      by_cases hu : u = s
      · subst hu
        have h0 := Walk.nonneg hnn hw'
        exact ⟨v, w, 0, hv, ha, Walk.nil _, by omega⟩
      · rcases ih with e | ⟨y, w0, c', hy, harc, hwalk, hle⟩
        · exact absurd e hu
        · refine ⟨y, w0, c' + w, hy, harc, Walk.snoc hwalk ?_, by omega⟩
          rw [mem_avoid]
          exact ⟨ha, hu, hv⟩

/-- **every walk can be replaced by one with fewer than `|V|` arcs that costs no more** -/
theorem short_walk : ∀ (m : Nat) (V : List Nat) (arcs : Arcs) (s t : Nat) (c : Int),
    V.length = m → V.Nodup → s ∈ V → (∀ a ∈ arcs, a.1 ∈ V ∧ a.2.1 ∈ V) → (∀ a ∈ arcs, 0 ≤ a.2.2) →
    Walk arcs s t c → ∃ k c', k + 1 ≤ m ∧ c' ≤ c ∧ WalkK arcs s t c' k := by
  intro m
  induction m with
  | zero =>
    intro V arcs s t c hlen _ hs
    have : V = [] := List.eq_nil_of_length_eq_zero hlen
    subst this
    simp at hs
  | succ m ih =>
    intro V arcs s t c hlen hnd hs hend hnn hw
    rcases split_last hnn hw with e | ⟨y, w, c', hy, harc, hwalk, hle⟩
    · subst e
      exact ⟨0, 0, by omega, Walk.nonneg hnn hw, WalkK.nil _⟩
    · have hyV : y ∈ V := (hend _ harc).2
      have hlen' : (V.erase s).length = m := by
        rw [List.length_erase_of_mem hs, hlen]; rfl
      have hend' : ∀ a ∈ avoid arcs s, a.1 ∈ V.erase s ∧ a.2.1 ∈ V.erase s := by
        intro a ha
        rw [mem_avoid] at ha
        exact ⟨(List.mem_erase_of_ne ha.2.1).2 (hend a ha.1).1, (List.mem_erase_of_ne ha.2.2).2 (hend a ha.1).2⟩
      have hnn' : ∀ a ∈ avoid arcs s, 0 ≤ a.2.2 := fun a ha => hnn a ((mem_avoid arcs s a).1 ha).1
      obtain ⟨k, c'', hk, hc, hwk⟩ := ih (V.erase s) (avoid arcs s) y t c' hlen' (hnd.erase s)
        ((List.mem_erase_of_ne hy).2 hyV) hend' hnn' hwalk
      have hwk' : WalkK arcs y t c'' k := hwk.mono (fun a ha => ((mem_avoid arcs s a).1 ha).1)
      exact ⟨k + 1, c'' + w, by omega, by omega, WalkK.cons harc hwk'⟩

/-! ## relaxation never increases a label and satisfies the arcs it processes -/

theorem relaxStep_mono (d : List (Nat × Int)) (arc : Nat × Nat × Int) (t : Nat) (x : Int)
    (h : alookup d t = some x) : ∃ x', alookup (relaxStep d arc) t = some x' ∧ x' ≤ x := by
  obtain ⟨u, v, w⟩ := arc
  unfold relaxStep
  simp only
  cases hu : alookup d u with
  | none => exact ⟨x, h, Int.le_refl _⟩
  | some du =>
    cases hv : alookup d v with
    | none =>
      simp only
      refine ⟨x, ?_, Int.le_refl _⟩
      rw [alookup_ainsert]
      have : ¬ v = t := by intro e; subst e; rw [hv] at h; cases h
      simp [this, h]
    | some dv =>
      simp only
      by_cases hlt : du + w < dv
      · simp only [hlt, if_true]
        by_cases e : v = t
        · subst e
          rw [hv] at h
          cases h
          exact ⟨du + w, by rw [alookup_ainsert]; simp, by omega⟩
        · exact ⟨x, by rw [alookup_ainsert]; simp [e, h], Int.le_refl _⟩
      · simp only [hlt, if_false]
        exact ⟨x, h, Int.le_refl _⟩

theorem foldl_relaxStep_mono (l : Arcs) : ∀ (d : List (Nat × Int)) (t : Nat) (x : Int),
    alookup d t = some x → ∃ x', alookup (l.foldl relaxStep d) t = some x' ∧ x' ≤ x := by
  induction l with
  | nil => intro d t x h; exact ⟨x, h, Int.le_refl _⟩
  | cons a l ih =>
    intro d t x h
    obtain ⟨x1, h1, hle1⟩ := relaxStep_mono d a t x h
    obtain ⟨x2, h2, hle2⟩ := ih _ t x1 h1
    exact ⟨x2, by simpa using h2, by omega⟩

theorem relaxStep_relax (d : List (Nat × Int)) (u v : Nat) (w du : Int) (hu : alookup d u = some du) :
    ∃ x, alookup (relaxStep d (u, v, w)) v = some x ∧ x ≤ du + w := by
  unfold relaxStep
  simp only [hu]
  cases hv : alookup d v with
  | none =>
    simp only
    exact ⟨du + w, by rw [alookup_ainsert]; simp, Int.le_refl _⟩
  | some dv =>
    simp only
    by_cases hlt : du + w < dv
    · simp only [hlt, if_true]
      exact ⟨du + w, by rw [alookup_ainsert]; simp, Int.le_refl _⟩
    · simp only [hlt, if_false]
      exact ⟨dv, hv, by omega⟩

theorem foldl_relaxStep_relax (l : Arcs) : ∀ (d : List (Nat × Int)) (u v : Nat) (w du : Int),
    (u, v, w) ∈ l → alookup d u = some du →
    ∃ x, alookup (l.foldl relaxStep d) v = some x ∧ x ≤ du + w := by
  induction l with
  | nil => intro d u v w du h; simp at h
  | cons a l ih =>
    intro d u v w du h hu
    rw [List.foldl_cons]
    rw [List.mem_cons] at h
    rcases h with h | h
    · subst h
      obtain ⟨x, hx, hle⟩ := relaxStep_relax d u v w du hu
      obtain ⟨x', hx', hle'⟩ := foldl_relaxStep_mono l _ v x hx
      exact ⟨x', hx', by omega⟩
    · obtain ⟨du', hdu', hle⟩ := relaxStep_mono d a u du hu
      obtain ⟨x, hx, hle'⟩ := ih _ u v w du' h hdu'
      exact ⟨x, hx, by omega⟩

/-! ## the rounds -/

theorem distFrom_zero (arcs : Arcs) (s : Nat) : Arcs.distFrom arcs 0 s = [(s, 0)] := rfl

theorem distFrom_succ (arcs : Arcs) (k s : Nat) :
    Arcs.distFrom arcs (k + 1) s = arcs.foldl relaxStep (Arcs.distFrom arcs k s) := by
  unfold Arcs.distFrom
  rw [List.range_succ, List.foldl_append]
  rfl

/-- after `k` rounds every label is at most the cost of every walk with at most `k` arcs -/
theorem distFrom_le_walkK (arcs : Arcs) (s : Nat) : ∀ (k j t : Nat) (c : Int), j ≤ k → WalkK arcs s t c j →
    ∃ x, alookup (Arcs.distFrom arcs k s) t = some x ∧ x ≤ c := by
  intro k
  induction k with
  | zero =>
    intro j t c hj hw
    have : j = 0 := by omega
    subst this
    cases hw
    exact ⟨0, by simp [distFrom_zero, alookup], Int.le_refl _⟩
  | succ k ih =>
    intro j t c hj hw
    rw [distFrom_succ]
    by_cases hjk : j ≤ k
    · obtain ⟨x, hx, hle⟩ := ih j t c hjk hw
      obtain ⟨x', hx', hle'⟩ := foldl_relaxStep_mono arcs _ t x hx
      exact ⟨x', hx', by omega⟩
    · have : j = k + 1 := by omega
      subst this
      cases hw with
      | snoc hw' ha =>
        rename_i u c0 w
        obtain ⟨du, hdu, hle⟩ := ih k u c0 (Nat.le_refl _) hw'
        obtain ⟨x, hx, hle'⟩ := foldl_relaxStep_relax arcs _ u t w du ha hdu
        exact ⟨x, hx, by omega⟩

/-- **`|V|` rounds of relaxation compute exactly the shortest distances** (non-negative costs, all arc endpoints and
    the source among the duplicate-free list `V`) -/
theorem distFrom_exact (V : List Nat) (arcs : Arcs) (s : Nat) (hnd : V.Nodup) (hs : s ∈ V)
    (hend : ∀ a ∈ arcs, a.1 ∈ V ∧ a.2.1 ∈ V) (hnn : ∀ a ∈ arcs, 0 ≤ a.2.2) (t : Nat) (d : Int) :
    alookup (Arcs.distFrom arcs V.length s) t = some d ↔ IsDist arcs s t d := by
  have hlow : ∀ c, Walk arcs s t c → ∃ x, alookup (Arcs.distFrom arcs V.length s) t = some x ∧ x ≤ c := by
    intro c hw
    obtain ⟨k, c', hk, hc, hwk⟩ := short_walk V.length V arcs s t c rfl hnd hs hend hnn hw
    obtain ⟨x, hx, hle⟩ := distFrom_le_walkK arcs s V.length k t c' (by omega) hwk
    exact ⟨x, hx, by omega⟩
  have hwit := distFrom_witnessed arcs V.length s
  constructor
  · intro h
    refine ⟨hwit t d h, fun c hw => ?_⟩
    obtain ⟨x, hx, hle⟩ := hlow c hw
    rw [h] at hx
    cases hx
    exact hle
  · rintro ⟨hw, hmin⟩
    obtain ⟨x, hx, hle⟩ := hlow d hw
    have := hmin x (hwit t x hx)
    have e : x = d := by omega
    rw [← e]; exact hx

/-- in particular the labelling is closed under relaxation (what `isClosed` tests at run time) -/
theorem distFrom_closed (V : List Nat) (arcs : Arcs) (s : Nat) (hnd : V.Nodup) (hs : s ∈ V)
    (hend : ∀ a ∈ arcs, a.1 ∈ V ∧ a.2.1 ∈ V) (hnn : ∀ a ∈ arcs, 0 ≤ a.2.2) :
    isClosed arcs (Arcs.distFrom arcs V.length s) = true := by
  unfold isClosed
  rw [List.all_eq_true]
  intro a ha
  obtain ⟨u, v, w⟩ := a
  simp only
  cases hu : alookup (Arcs.distFrom arcs V.length s) u with
  | none => rfl
  | some du =>
    simp only
    have hdu := (distFrom_exact V arcs s hnd hs hend hnn u du).1 hu
    have hwv : Walk arcs s v (du + w) := Walk.snoc hdu.1 ha
    obtain ⟨k, c', hk, hc, hwk⟩ := short_walk V.length V arcs s v (du + w) rfl hnd hs hend hnn hwv
    obtain ⟨x, hx, hle⟩ := distFrom_le_walkK arcs s V.length k v c' (by omega) hwk
    rw [hx]
    simp only [decide_eq_true_eq]
    omega

end C06B
end Graphrs
