/-
  Lemmas for Props/C13Model.lean, part 2: the two graph constructions of the step-level Louvain model.
  `convert_graph` (names -> ranks among the sorted names) and `generate_graph` (one super-node per
  inner community) never panic on a well-formed store / good level and yield good levels.
-/
import GraphrsModel.Props.Core
import GraphrsModel.Props.C12
import GraphrsModel.Lemmas.C09ModelAux
import GraphrsModel.Lemmas.LouvainDefs
import GraphrsModel.Lemmas.LouvainVisit
import Mathlib.Data.List.Nodup
import Mathlib.Data.List.Perm.Basic
namespace Graphrs
open LouvainFull
namespace LF

/-! ### generic `Outcome` folds -/

theorem foldl_ok_map {α β : Type} (F : Outcome (List β) → α → Outcome (List β)) (g : α → β) (l : List α)
    (hF : ∀ acc x, x ∈ l → F (.ok acc) x = .ok (acc ++ [g x])) (acc : List β) :
    l.foldl F (.ok acc) = .ok (acc ++ l.map g) := by
  induction l generalizing acc with
  | nil => simp
  | cons x l ih =>
    rw [List.foldl_cons, hF acc x List.mem_cons_self,
      ih (fun a y hy => hF a y (List.mem_cons_of_mem _ hy))]
    simp

theorem foldl_ok_exists {α β : Type} (P : α → Prop) (F : Outcome α → β → Outcome α) (l : List β)
    (hF : ∀ a x, x ∈ l → P a → ∃ b, F (.ok a) x = .ok b ∧ P b) (a0 : α) (h0 : P a0) :
    ∃ r, l.foldl F (.ok a0) = .ok r ∧ P r := by
  induction l generalizing a0 with
  | nil => exact ⟨a0, rfl, h0⟩
  | cons x l ih =>
    obtain ⟨b, hb, hPb⟩ := hF a0 x List.mem_cons_self h0
    rw [List.foldl_cons, hb]
    exact ih (fun a y hy => hF a y (List.mem_cons_of_mem _ hy)) b hPb

/-! ### sorting and ranks -/

theorem insertSorted_perm {α} (le : α → α → Bool) (x : α) (l : List α) :
    (insertSorted le x l).Perm (x :: l) := by
  induction l with
  | nil => exact List.Perm.refl _
  | cons y ys ih =>
    unfold insertSorted
    by_cases h : le x y = true
    · simp [h]
    · simp only [h]
      exact (List.Perm.cons y ih).trans (List.Perm.swap x y ys)

theorem isort_perm {α} (le : α → α → Bool) (l : List α) : (isort le l).Perm l := by
  induction l with
  | nil => exact List.Perm.refl _
  | cons x xs ih =>
    show (insertSorted le x (isort le xs)).Perm (x :: xs)
    exact (insertSorted_perm le x _).trans (List.Perm.cons x ih)

theorem sortNat_perm (l : List Nat) : (sortNat l).Perm l := isort_perm _ l

/-- the rank of `x` in `l` -/
def rk (l : List Nat) (x : Nat) : Nat := l.findIdx (· == x)

theorem rk_lt {l : List Nat} {x : Nat} (h : x ∈ l) : rk l x < l.length :=
  List.findIdx_lt_length_of_exists ⟨x, h, by simp⟩

theorem rk_get {l : List Nat} {x : Nat} (h : x ∈ l) : l[rk l x]'(rk_lt h) = x :=
  List.getElem_idxOf (x := x) (xs := l) (rk_lt h)

theorem rk_of_get {l : List Nat} (hnd : l.Nodup) (i : Nat) (hi : i < l.length) : rk l l[i] = i :=
  hnd.idxOf_getElem i hi

theorem rk_inj {l : List Nat} {x y : Nat} (hx : x ∈ l) (hy : y ∈ l) (h : rk l x = rk l y) : x = y := by
  have h1 := rk_get hx
  have h2 := rk_get hy
  simp only [h] at h1
  exact h1.symm.trans h2

theorem rk_mono {l : List Nat} (hs : l.Pairwise (· ≤ ·)) {x y : Nat} (hx : x ∈ l) (hy : y ∈ l)
    (h : x ≤ y) : rk l x ≤ rk l y := by
  by_contra hc
  have hlt : rk l y < rk l x := Nat.lt_of_not_le hc
  have := List.pairwise_iff_getElem.mp hs (rk l y) (rk l x) (rk_lt hy) (rk_lt hx) hlt
  rw [rk_get hx, rk_get hy] at this
  have hxy : x = y := Nat.le_antisymm h this
  subst hxy
  exact Nat.lt_irrefl _ hlt

theorem names_eq (s : Store) : s.names = s.getAllNodeNames := rfl

theorem rk_names_nodup {l : List Nat} (hnd : l.Nodup) : (l.map (rk (sortNat l))).Nodup := by
  refine List.Nodup.map_on ?_ hnd
  intro x hx y hy h
  exact rk_inj ((C02.mem_sortNat x l).2 hx) ((C02.mem_sortNat y l).2 hy) h

theorem rk_names_iff {l : List Nat} (hnd : l.Nodup) (x : Nat) : x ∈ l.map (rk (sortNat l)) ↔ x < l.length := by
  have hp := sortNat_perm l
  have hlen : (sortNat l).length = l.length := hp.length_eq
  constructor
  · intro h
    obtain ⟨y, hy, rfl⟩ := List.mem_map.mp h
    rw [← hlen]
    exact rk_lt ((C02.mem_sortNat y l).2 hy)
  · intro h
    have hx : x < (sortNat l).length := by rw [hlen]; exact h
    refine List.mem_map.mpr ⟨(sortNat l)[x], ?_, rk_of_get (hp.nodup_iff.mpr hnd) x hx⟩
    exact (C02.mem_sortNat _ l).1 (List.getElem_mem hx)

theorem convert_core (s2 : Store) (h2 : s2.wf = true) (hm : s2.specs.multi = false) (sorted : List Nat)
    (hsorted : sorted = sortNat s2.names) :
    ∃ g, Store.newFrom s2.specs (s2.nodesVec.map (fun n => (⟨rk sorted n.name, none⟩ : Node)))
        (s2.allEdges.map (fun e => (⟨rk sorted e.u, rk sorted e.v, e.w, none⟩ : Edge))) = .ok g ∧
      g.wf = true ∧ g.specs = s2.specs ∧
      g.nodesVec = s2.nodesVec.map (fun n => (⟨rk sorted n.name, none⟩ : Node)) := by
  obtain ⟨hn, he⟩ := Store.wf_inv h2
  have hnd := hn.names_nodup
  have hmemS : ∀ x, x ∈ s2.names → x ∈ sorted := fun x hx => by
    rw [hsorted]; exact (C02.mem_sortNat x _).2 hx
  have hsrt : sorted.Pairwise (· ≤ ·) := by rw [hsorted]; exact C02.sorted_sortNat _
  have hnames : (s2.nodesVec.map (fun n => (⟨rk sorted n.name, none⟩ : Node))).map (·.name)
      = s2.names.map (rk sorted) := by
    simp [Store.names, List.map_map, Function.comp_def]
  have hndn : ((s2.nodesVec.map (fun n => (⟨rk sorted n.name, none⟩ : Node))).map (·.name)).Nodup := by
    rw [hnames, hsorted]; exact rk_names_nodup hnd
  have hmemn : ∀ x, x ∈ s2.names →
      rk sorted x ∈ (s2.nodesVec.map (fun n => (⟨rk sorted n.name, none⟩ : Node))).map (·.name) := by
    intro x hx
    rw [hnames]
    exact List.mem_map.mpr ⟨x, hx, rfl⟩
  have hab := Abs.addEdges_valid s2.specs (s2.nodesVec.map (fun n => (⟨rk sorted n.name, none⟩ : Node)))
    (s2.allEdges.map (fun e => (⟨rk sorted e.u, rk sorted e.v, e.w, none⟩ : Edge))) []
    (fun e hm' => by
      obtain ⟨e0, h0, rfl⟩ := List.mem_map.mp hm'
      have hv := Store.allEdges_valid he h0
      exact ⟨hmemn _ hv.1, hmemn _ hv.2.1⟩)
    (fun e hm' => by
      obtain ⟨e0, h0, rfl⟩ := List.mem_map.mp hm'
      have hv := Store.allEdges_valid he h0
      rcases hv.2.2.1 with h' | h'
      · exact Or.inl h'
      · exact Or.inr (fun hc => h' (rk_inj (hmemS _ hv.1) (hmemS _ hv.2.1) hc)))
    (fun e hm' => by
      obtain ⟨e0, h0, rfl⟩ := List.mem_map.mp (by simpa using hm')
      have hv := Store.allEdges_valid he h0
      rcases hv.2.2.2 with h' | h'
      · exact Or.inl h'
      · exact Or.inr (rk_mono hsrt (hmemS _ hv.1) (hmemS _ hv.2.1) h'))
    (by
      right
      rw [List.nil_append, List.pairwise_map]
      refine List.Pairwise.imp_of_mem ?_ (Store.allEdges_keys_distinct he hm)
      intro a b ha hb hab hc
      apply hab
      have hva := Store.allEdges_valid he ha
      have hvb := Store.allEdges_valid he hb
      simp only [Prod.mk.injEq] at hc ⊢
      exact ⟨rk_inj (hmemS _ hva.1) (hmemS _ hvb.1) hc.1, rk_inj (hmemS _ hva.2.1) (hmemS _ hvb.2.1) hc.2⟩)
  rw [← Abs.addNodes_empty _ hndn] at hab
  obtain ⟨t, h1, h2', h3, h4⟩ := newFrom_sim Core_rest_preserved _ _ _ _ hab
  exact ⟨t, h1, h2', h3, h4.1⟩

theorem bind_ok {α β} (a : α) (f : α → Outcome β) : Outcome.bind (.ok a) f = f a := rfl

/-- the part of `convert_graph` after the two preparatory conversions -/
def cgTail (sorted : List Nat) (s2 : Store) : Outcome Level :=
  (s2.getAllNodes.foldl (fun (acc : Outcome (List Node)) n => acc.bind fun l =>
      (if sorted.findIdx (· == n.name) < sorted.length then Outcome.ok (sorted.findIdx (· == n.name))
        else Outcome.panic "convert_graph: node_map.get().unwrap()").bind fun r =>
      Outcome.ok (l ++ [(⟨r, none⟩ : Node)])) (Outcome.ok [])).bind fun nodes =>
  (s2.allEdges.foldl (fun (acc : Outcome (List Edge)) e => acc.bind fun l =>
      (if sorted.findIdx (· == e.u) < sorted.length then Outcome.ok (sorted.findIdx (· == e.u))
        else Outcome.panic "convert_graph: node_map.get().unwrap()").bind fun u =>
      (if sorted.findIdx (· == e.v) < sorted.length then Outcome.ok (sorted.findIdx (· == e.v))
        else Outcome.panic "convert_graph: node_map.get().unwrap()").bind fun v =>
      Outcome.ok (l ++ [(⟨u, v, e.w, none⟩ : Edge)])) (Outcome.ok [])).bind fun edges =>
  ((Store.newFrom s2.specs nodes edges).unwrap "convert_graph: unwrap").bind fun g =>
  Outcome.ok { g := g, members := nodes.map fun n => (n.name, [n.name]) }

theorem convertGraph_eq (s : Store) (weighted : Bool) :
    convertGraph s weighted =
      Outcome.bind (if s.specs.multi = true then s.toSingleEdges.unwrap "convert_graph: to_single_edges().unwrap()" else .ok s)
        (fun s1 => Outcome.bind (if (!weighted) = true then s1.setAllEdgeWeights (some 1) else .ok s1)
          (fun s2 => cgTail (sortNat s.getAllNodeNames) s2)) := by
  unfold convertGraph cgTail
  simp only [bind]
  by_cases hm : s.specs.multi = true <;> by_cases hw : (!weighted) = true <;>
    simp only [hm, hw, Bool.false_eq_true, ↓reduceIte, bind_ok]

theorem cgTail_ok (s2 : Store) (w2 : s2.wf = true) (m2 : s2.specs.multi = false) (sorted : List Nat)
    (hsorted : sorted = sortNat s2.names) :
    ∃ g, cgTail sorted s2 = .ok ⟨g, (s2.names.map (rk sorted)).map fun x => (x, [x])⟩ ∧
      g.wf = true ∧ g.specs = s2.specs ∧ g.getAllNodeNames = s2.names.map (rk sorted) := by
  obtain ⟨g, hg, gwf, gsp, gnv⟩ := convert_core s2 w2 m2 sorted hsorted
  obtain ⟨_, he2⟩ := Store.wf_inv w2
  have hrank : ∀ x, x ∈ s2.names → sorted.findIdx (· == x) < sorted.length := fun x hx =>
    rk_lt (by rw [hsorted]; exact (C02.mem_sortNat x _).2 hx)
  refine ⟨g, ?_, gwf, gsp, ?_⟩
  · unfold cgTail
    rw [foldl_ok_map _ (fun n => (⟨rk sorted n.name, none⟩ : Node)) s2.getAllNodes ?_ [], bind_ok]
    · rw [foldl_ok_map _ (fun e => (⟨rk sorted e.u, rk sorted e.v, e.w, none⟩ : Edge)) s2.allEdges ?_ [], bind_ok]
      · simp only [List.nil_append, Store.getAllNodes, hg, Outcome.unwrap, bind_ok, Store.names, List.map_map,
          Function.comp_def]
      · intro acc e he
        have hv := Store.allEdges_valid he2 he
        simp only [if_pos (hrank _ hv.1), if_pos (hrank _ hv.2.1), bind_ok]
        rfl
    · intro acc n hn'
      have : n.name ∈ s2.names := List.mem_map.mpr ⟨n, hn', rfl⟩
      simp only [if_pos (hrank _ this), bind_ok]
      rfl
  · simp only [Store.getAllNodeNames, gnv, Store.names, List.map_map, Function.comp_def]

theorem convertGraph_spec (s : Store) (h : s.wf = true) (weighted : Bool) :
    ∃ lv, convertGraph s weighted = .ok lv ∧
      lv.g.wf = true ∧ lv.g.specs.multi = false ∧ lv.g.numNodes = s.numNodes ∧
      GoodLevel lv s.numNodes s.numNodes ∧ (∀ x, mem lv x = [x]) := by
  -- s1
  have hs1 : ∃ s1, (if s.specs.multi = true then s.toSingleEdges.unwrap "convert_graph: to_single_edges().unwrap()" else .ok s) = .ok s1 ∧
      s1.wf = true ∧ s1.specs.multi = false ∧ s1.nodesVec = s.nodesVec := by
    by_cases hm : s.specs.multi = true
    · obtain ⟨t, h1, h2, h3, h4⟩ := Core_toSingle s h hm
      refine ⟨t, ?_, h2, by rw [h3], h4.1⟩
      rw [if_pos hm, h1]; rfl
    · refine ⟨s, by rw [if_neg hm], h, by simpa using hm, rfl⟩
  obtain ⟨s1, e1, w1, m1, n1⟩ := hs1
  have hs2 : ∃ s2, (if (!weighted) = true then s1.setAllEdgeWeights (some 1) else .ok s1) = .ok s2 ∧
      s2.wf = true ∧ s2.specs.multi = false ∧ s2.nodesVec = s.nodesVec := by
    by_cases hw : (!weighted) = true
    · obtain ⟨t, h1, h2, h3, h4⟩ := Core_setWeights s1 w1 (some 1)
      refine ⟨t, ?_, h2, by rw [h3]; exact m1, h4.1.trans n1⟩
      rw [if_pos hw, h1]
    · exact ⟨s1, by rw [if_neg hw], w1, m1, n1⟩
  obtain ⟨s2, e2, w2, m2, n2⟩ := hs2
  have hnames : s2.names = s.getAllNodeNames := by simp [Store.names, Store.getAllNodeNames, n2]
  obtain ⟨g, hg, gwf, gsp, gnm⟩ := cgTail_ok s2 w2 m2 (sortNat s.getAllNodeNames) (by rw [hnames])
  obtain ⟨hn, _⟩ := Store.wf_inv h
  have hnd : s.getAllNodeNames.Nodup := hn.names_nodup
  rw [hnames] at hg gnm
  have hlen : s.getAllNodeNames.length = s.numNodes := by simp [Store.getAllNodeNames, Store.numNodes]
  have hmem : ∀ x, mem ⟨g, (s.getAllNodeNames.map (rk (sortNat s.getAllNodeNames))).map fun x => (x, [x])⟩ x = [x] := by
    intro x
    unfold mem
    simp only
    rw [C09M.alookup_map_self]
    split <;> rfl
  have hcg : convertGraph s weighted = .ok ⟨g, (s.getAllNodeNames.map (rk (sortNat s.getAllNodeNames))).map fun x => (x, [x])⟩ := by
    rw [convertGraph_eq, e1, bind_ok, e2, bind_ok, hg]
  refine ⟨_, hcg, gwf, by rw [gsp]; exact m2, ?_, ?_, hmem⟩
  · show g.numNodes = s.numNodes
    have : g.getAllNodeNames.length = g.numNodes := by simp [Store.getAllNodeNames, Store.numNodes]
    rw [← this, gnm, List.length_map, hlen]
  · refine ⟨?_, ?_, ?_, ?_, ?_, ?_⟩
    · show g.getAllNodeNames.Nodup
      rw [gnm]; exact rk_names_nodup hnd
    · intro x
      show x ∈ g.getAllNodeNames ↔ _
      rw [gnm, rk_names_iff hnd, hlen]
    · intro x _; rw [hmem]; simp
    · intro x _; rw [hmem]; simp
    · intro x y z _ _ hx hy
      rw [hmem] at hx hy
      simp only [List.mem_singleton] at hx hy
      rw [← hx, ← hy]
    · intro z
      constructor
      · intro hz; exact ⟨z, hz, by rw [hmem]; simp⟩
      · rintro ⟨x, hx, hz⟩
        rw [hmem] at hz
        simp only [List.mem_singleton] at hz
        rw [hz]; exact hx

/-- 1 -/
theorem convertGraph_good (s : Store) (h : s.wf = true) (weighted : Bool) (lv : Level)
    (hc : convertGraph s weighted = .ok lv) :
    lv.g.wf = true ∧ lv.g.specs.multi = false ∧ lv.g.numNodes = s.numNodes ∧
    GoodLevel lv s.numNodes s.numNodes ∧ (∀ x, mem lv x = [x]) := by
  obtain ⟨lv0, h0, hp⟩ := convertGraph_spec s h weighted
  rw [hc] at h0
  cases h0
  exact hp

/-- 3 -/
theorem convertGraph_no_panic (s : Store) (h : s.wf = true) (weighted : Bool) :
    ∃ lv, convertGraph s weighted = .ok lv := by
  obtain ⟨lv0, h0, _⟩ := convertGraph_spec s h weighted
  exact ⟨lv0, h0⟩

/-! ### `node2com` of `generate_graph` -/

theorem lookup_fold_ainsert (c : List Nat) (j : Nat) (m : List (Nat × Nat)) (y : Nat) :
    alookup (c.foldl (fun m x => ainsert m x j) m) y = if y ∈ c then some j else alookup m y := by
  induction c generalizing m with
  | nil => simp
  | cons x c ih =>
    rw [List.foldl_cons, ih, AL.lookup_insert]
    by_cases h1 : y ∈ c
    · simp [h1]
    · by_cases h2 : x = y
      · subst h2; simp
      · have : ¬ y = x := fun e => h2 e.symm
        simp [h1, h2, this]

theorem n2c_bound (l : List (List Nat × Nat)) (m : List (Nat × Nat)) (y : Nat)
    (h : (∃ p ∈ l, y ∈ p.1) ∨ (alookup m y).isSome = true) :
    (alookup (l.foldl (fun m p => p.1.foldl (fun m x => ainsert m x p.2) m) m) y).isSome = true := by
  induction l generalizing m with
  | nil =>
    rcases h with ⟨p, hp, _⟩ | h
    · cases hp
    · exact h
  | cons q l ih =>
    rw [List.foldl_cons]
    apply ih
    rcases h with ⟨p, hp, hy⟩ | h
    · rcases List.mem_cons.mp hp with rfl | hp'
      · right; rw [lookup_fold_ainsert, if_pos hy]; rfl
      · exact Or.inl ⟨p, hp', hy⟩
    · right
      rw [lookup_fold_ainsert]
      split
      · rfl
      · exact h

theorem n2c_val (l : List (List Nat × Nat)) (m : List (Nat × Nat)) (y j : Nat)
    (h : alookup (l.foldl (fun m p => p.1.foldl (fun m x => ainsert m x p.2) m) m) y = some j) :
    alookup m y = some j ∨ ∃ p ∈ l, p.2 = j := by
  induction l generalizing m with
  | nil => exact Or.inl h
  | cons q l ih =>
    rw [List.foldl_cons] at h
    rcases ih _ h with h1 | ⟨p, hp, hj⟩
    · rw [lookup_fold_ainsert] at h1
      split at h1
      · right; exact ⟨q, List.mem_cons_self, by injection h1⟩
      · exact Or.inl h1
    · exact Or.inr ⟨p, List.mem_cons_of_mem _ hp, hj⟩

/-! ### `members` of `generate_graph` -/

theorem lookup_zipIdx_map {ν : Type} (h : List Nat → ν) (l : List (List Nat)) (k j : Nat) :
    alookup ((l.zipIdx k).map fun p => (p.2, h p.1)) j = if j < k then none else (l[j - k]?).map h := by
  induction l generalizing k with
  | nil => simp [alookup]
  | cons c l ih =>
    rw [List.zipIdx_cons, List.map_cons]
    simp only [alookup]
    by_cases hk : k = j
    · subst hk; simp
    · rw [if_neg hk, ih]
      by_cases hlt : j < k
      · have : j < k + 1 := by omega
        simp [hlt, this]
      · have h1 : ¬ j < k + 1 := by omega
        have h2 : j - k = (j - (k + 1)) + 1 := by omega
        rw [if_neg hlt, if_neg h1, h2, List.getElem?_cons_succ]

theorem mem_fold_sunion (f : Nat → List Nat) (c : List Nat) (acc : List Nat) (z : Nat) :
    z ∈ c.foldl (fun acc x => sunion acc (f x)) acc ↔ z ∈ acc ∨ ∃ x ∈ c, z ∈ f x := by
  induction c generalizing acc with
  | nil => simp
  | cons x c ih =>
    rw [List.foldl_cons, ih]
    unfold sunion
    rw [mem_foldl_sinsert]
    constructor
    · rintro ((h | h) | ⟨y, hy, hz⟩)
      · exact Or.inl h
      · exact Or.inr ⟨x, List.mem_cons_self, h⟩
      · exact Or.inr ⟨y, List.mem_cons_of_mem _ hy, hz⟩
    · rintro (h | ⟨y, hy, hz⟩)
      · exact Or.inl (Or.inl h)
      · rcases List.mem_cons.mp hy with rfl | hy'
        · exact Or.inl (Or.inr hz)
        · exact Or.inr ⟨y, hy', hz⟩

theorem nodup_fold_sunion (f : Nat → List Nat) (c : List Nat) (acc : List Nat) (h : acc.Nodup) :
    (c.foldl (fun acc x => sunion acc (f x)) acc).Nodup := by
  induction c generalizing acc with
  | nil => exact h
  | cons x c ih =>
    rw [List.foldl_cons]
    exact ih _ (nodup_foldl_sinsert _ _ h)

/-! ### partitions of a range -/

theorem flat_index_unique (l : List (List Nat)) (hnd : (l.flatMap id).Nodup) {i j x : Nat}
    (hi : x ∈ (l[i]?).getD []) (hj : x ∈ (l[j]?).getD []) : i = j := by
  have hil := lt_length_of_mem_getD hi
  have hjl := lt_length_of_mem_getD hj
  rw [List.getElem?_eq_getElem hil] at hi
  rw [List.getElem?_eq_getElem hjl] at hj
  simp only [Option.getD_some] at hi hj
  have hp := (List.nodup_flatMap.mp hnd).2
  have hp' := List.pairwise_iff_getElem.mp hp
  rcases Nat.lt_trichotomy i j with h | h | h
  · exact absurd hj (by
      have := hp' i j hil hjl h
      simp only [Function.onFun, id] at this
      exact fun hc => this hi hc)
  · exact h
  · exact absurd hi (by
      have := hp' j i hjl hil h
      simp only [Function.onFun, id] at this
      exact fun hc => this hj hc)

theorem mem_flat_iff (l : List (List Nat)) (x : Nat) :
    x ∈ l.flatMap id ↔ ∃ j, j < l.length ∧ x ∈ (l[j]?).getD [] := by
  rw [List.mem_flatMap]
  constructor
  · rintro ⟨c, hc, hx⟩
    obtain ⟨j, hj, rfl⟩ := List.getElem_of_mem hc
    exact ⟨j, hj, by rw [List.getElem?_eq_getElem hj]; exact hx⟩
  · rintro ⟨j, hj, hx⟩
    rw [List.getElem?_eq_getElem hj] at hx
    exact ⟨l[j], List.getElem_mem hj, hx⟩

/-! ### abstract `add_edge` between existing nodes -/

theorem abs_addEdge_present (sp : Specs) (a : Abs) (e : Edge) (hsl : sp.selfLoops = true) (hd : sp.dedupe = .keepLast)
    (hu : a.hasNode e.u = true) (hv : a.hasNode e.v = true) :
    (Abs.addEdge sp a e).2 = none ∧ (Abs.addEdge sp a e).1.nodes = a.nodes := by
  unfold Abs.addEdge
  simp only [hsl, hu, hv, hd, Bool.not_true, Bool.false_and, Bool.false_eq_true, if_false, if_true,
    Bool.or_self, Bool.and_false]
  split <;> simp

/-- the `members` map `generate_graph` builds -/
def ggMembers (lv : Level) (inner : List (List Nat)) : List (Nat × List Nat) :=
  inner.zipIdx.map fun p => (p.2, p.1.foldl (fun acc x => sunion acc ((alookup lv.members x).getD [x])) [])

theorem mem_ggMembers (lv : Level) (inner : List (List Nat)) (g : Store) (j : Nat) (hj : j < inner.length) :
    mem ⟨g, ggMembers lv inner⟩ j = (inner[j]).foldl (fun acc x => sunion acc (mem lv x)) [] := by
  unfold mem ggMembers
  simp only
  rw [lookup_zipIdx_map]
  simp [List.getElem?_eq_getElem hj]

theorem gg_props (lv : Level) (n k : Nat) (hg : GoodLevel lv n k) (inner : List (List Nat)) (hin : PartOfRange k inner)
    (g : Store) (hnames : g.getAllNodeNames = List.range inner.length) :
    GoodLevel ⟨g, ggMembers lv inner⟩ n inner.length ∧
    ∀ j z, j < inner.length → (z ∈ mem ⟨g, ggMembers lv inner⟩ j ↔ ∃ x ∈ (inner[j]?).getD [], z ∈ mem lv x) := by
  obtain ⟨hne, hnd, hcov⟩ := hin
  have hmem : ∀ j z, j < inner.length →
      (z ∈ mem ⟨g, ggMembers lv inner⟩ j ↔ ∃ x ∈ (inner[j]?).getD [], z ∈ mem lv x) := by
    intro j z hj
    rw [mem_ggMembers lv inner g j hj, mem_fold_sunion, List.getElem?_eq_getElem hj]
    simp
  have hltk : ∀ (j x : Nat), x ∈ (inner[j]?).getD [] → x < k := by
    intro j x hx
    exact (hcov x).1 ((mem_flat_iff inner x).2 ⟨j, lt_length_of_mem_getD hx, hx⟩)
  refine ⟨⟨?_, ?_, ?_, ?_, ?_, ?_⟩, hmem⟩
  · show g.getAllNodeNames.Nodup
    rw [hnames]; exact List.nodup_range
  · intro x
    show x ∈ g.getAllNodeNames ↔ _
    rw [hnames, List.mem_range]
  · intro j hj
    rw [mem_ggMembers lv inner g j hj]
    exact nodup_fold_sunion _ _ _ List.nodup_nil
  · intro j hj
    have hc : inner[j] ≠ [] := hne _ (List.getElem_mem hj)
    obtain ⟨x, hx⟩ := List.exists_mem_of_ne_nil _ hc
    have hx' : x ∈ (inner[j]?).getD [] := by rw [List.getElem?_eq_getElem hj]; exact hx
    have hxk := hltk j x hx'
    obtain ⟨z, hz⟩ := List.exists_mem_of_ne_nil _ (hg.mem_ne x hxk)
    have := (hmem j z hj).2 ⟨x, hx', hz⟩
    exact List.ne_nil_of_mem this
  · intro i j z hi hj hzi hzj
    obtain ⟨x, hx, hzx⟩ := (hmem i z hi).1 hzi
    obtain ⟨y, hy, hzy⟩ := (hmem j z hj).1 hzj
    have hxy : x = y := hg.mem_disj x y z (hltk i x hx) (hltk j y hy) hzx hzy
    subst hxy
    exact flat_index_unique inner hnd hx hy
  · intro z
    rw [hg.mem_cover z]
    constructor
    · rintro ⟨x, hx, hz⟩
      obtain ⟨j, hj, hxj⟩ := (mem_flat_iff inner x).1 ((hcov x).2 hx)
      exact ⟨j, hj, (hmem j z hj).2 ⟨x, hxj, hz⟩⟩
    · rintro ⟨j, hj, hz⟩
      obtain ⟨x, hx, hzx⟩ := (hmem j z hj).1 hz
      exact ⟨x, hltk j x hx, hzx⟩

/-! ### the graph part -/

theorem g0_ok (sp : Specs) (L : Nat) :
    ((List.range L).foldl (fun g i => g.addNode ⟨i, none⟩) (Store.new sp)).wf = true ∧
    ((List.range L).foldl (fun g i => g.addNode ⟨i, none⟩) (Store.new sp)).specs = sp ∧
    ((List.range L).foldl (fun g i => g.addNode ⟨i, none⟩) (Store.new sp)).nodesVec =
      (List.range L).map fun i => (⟨i, none⟩ : Node) := by
  have e : (List.range L).foldl (fun g i => g.addNode ⟨i, none⟩) (Store.new sp) =
      (Store.new sp).addNodes ((List.range L).map fun i => (⟨i, none⟩ : Node)) := by
    simp [Store.addNodes, List.foldl_map]
  rw [e]
  have s1 := C01_step_sim (Store.new sp) {} (.addNodes ((List.range L).map fun i => (⟨i, none⟩ : Node)))
    Core_rest_preserved (C01_new_wf sp) ⟨rfl, fun _ => rfl⟩
  have hnd : (((List.range L).map fun i => (⟨i, none⟩ : Node)).map (·.name)).Nodup := by
    simp [List.map_map, Function.comp_def, List.nodup_range]
  have e1 : AbsEq ((Store.new sp).addNodes ((List.range L).map fun i => (⟨i, none⟩ : Node))).abs
      (({} : Abs).addNodes ((List.range L).map fun i => (⟨i, none⟩ : Node))) := s1.2.2
  rw [Abs.addNodes_empty _ hnd] at e1
  exact ⟨s1.2.1, Store.addNodes_specs _ _, e1.1⟩

theorem addEdge_present (g : Store) (hwf : g.wf = true) (hsl : g.specs.selfLoops = true)
    (hd : g.specs.dedupe = .keepLast) (e : Edge) (hu : e.u ∈ g.names) (hv : e.v ∈ g.names) :
    (g.addEdge e).2 = none ∧ (g.addEdge e).1.wf = true ∧ (g.addEdge e).1.specs = g.specs ∧
      (g.addEdge e).1.nodesVec = g.nodesVec := by
  have hr := C01_addEdge_refines g e g.abs hwf ⟨rfl, fun _ => rfl⟩
  have ha := abs_addEdge_present g.specs g.abs e hsl hd
    ((Abs.hasNode_iff _ _).2 hu) ((Abs.hasNode_iff _ _).2 hv)
  exact ⟨hr.1.trans ha.1, Core_addEdge_wf g e hwf, Store.addEdge_specs g e, hr.2.1.trans ha.2⟩

theorem bind_fold_exists {α β γ : Type} (P : α → Prop) (F : Outcome α → β → Outcome α) (l : List β) (K : α → γ)
    (a0 : α) (h0 : P a0) (hF : ∀ a x, x ∈ l → P a → ∃ b, F (.ok a) x = .ok b ∧ P b)
    (Q : γ → Prop) (hQ : ∀ a, P a → Q (K a)) :
    ∃ r, Outcome.bind (l.foldl F (.ok a0)) (fun a => .ok (K a)) = .ok r ∧ Q r := by
  obtain ⟨r, hr, hP⟩ := foldl_ok_exists P F l hF a0 h0
  exact ⟨K r, by rw [hr]; rfl, hQ r hP⟩

theorem generateGraph_spec (lv : Level) (n k : Nat) (hg : GoodLevel lv n k) (hwf : lv.g.wf = true)
    (inner : List (List Nat)) (hin : PartOfRange k inner) :
    ∃ lv', generateGraph lv inner = .ok lv' ∧
      lv'.g.wf = true ∧ lv'.g.specs.multi = lv.g.specs.multi ∧ lv'.g.numNodes = inner.length ∧
      GoodLevel lv' n inner.length ∧
      ∀ j z, j < inner.length → (z ∈ mem lv' j ↔ ∃ x ∈ (inner[j]?).getD [], z ∈ mem lv x) := by
  obtain ⟨_, he⟩ := Store.wf_inv hwf
  obtain ⟨w0, sp0, nv0⟩ := g0_ok { lv.g.specs with selfLoops := true, dedupe := .keepLast } inner.length
  have hall : (inner.all fun part => part.all fun x => (lv.g.getNode x).isSome) = true := by
    rw [List.all_eq_true]
    intro part hpart
    rw [List.all_eq_true]
    intro x hx
    have hxn : x ∈ lv.g.names := (hg.names_iff x).2 ((hin.2.2 x).1 (List.mem_flatMap.2 ⟨part, hpart, hx⟩))
    exact (C02.hasNode_mem (C02.nodesP_of lv.g (C09M.wf_parts lv.g hwf).1) x).2 hxn
  unfold generateGraph
  simp only [bind]
  rw [if_pos hall, bind_ok]
  refine bind_fold_exists
    (fun g : Store => g.wf = true ∧ g.specs = { lv.g.specs with selfLoops := true, dedupe := .keepLast } ∧
      g.nodesVec = (List.range inner.length).map fun i => (⟨i, none⟩ : Node))
    _ _ _ _ ⟨w0, sp0, nv0⟩ ?_ _ ?_
  · intro g e hmem hP
    obtain ⟨gw, gs, gn⟩ := hP
    have hv := Store.allEdges_valid he hmem
    have hbound : ∀ x, x ∈ lv.g.names → ∃ c,
        alookup (List.foldl (fun m p => List.foldl (fun m x => ainsert m x p.2) m p.1) [] inner.zipIdx) x = some c ∧
        c ∈ g.names := by
      intro x hx
      have hxk : x < k := (hg.names_iff x).1 hx
      have hfl : x ∈ inner.flatMap id := (hin.2.2 x).2 hxk
      obtain ⟨c, hc, hxc⟩ := List.mem_flatMap.mp hfl
      obtain ⟨j, hj, rfl⟩ := List.getElem_of_mem hc
      have hb := n2c_bound inner.zipIdx [] x (Or.inl ⟨(inner[j], j), by
        rw [List.mem_zipIdx_iff_getElem?]; simp [List.getElem?_eq_getElem hj], hxc⟩)
      obtain ⟨c, hc⟩ := Option.isSome_iff_exists.mp hb
      refine ⟨c, hc, ?_⟩
      rcases n2c_val inner.zipIdx [] x c hc with h1 | ⟨p, hp, hpc⟩
      · simp [alookup] at h1
      · have := List.mem_zipIdx' (x := p.1) (i := p.2) hp
        simp only [Store.names, gn, List.map_map, Function.comp_def, List.map_id', List.mem_range]
        rw [← hpc]; exact this.1
    obtain ⟨c1, hc1, hm1⟩ := hbound _ hv.1
    obtain ⟨c2, hc2, hm2⟩ := hbound _ hv.2.1
    simp only [bind_ok, hc1, hc2, Outcome.ofOption]
    have hsl : g.specs.selfLoops = true := by rw [gs]
    have hdd : g.specs.dedupe = .keepLast := by rw [gs]
    have H := fun w => addEdge_present g gw hsl hdd ⟨c1, c2, w, none⟩ hm1 hm2
    split
    next g' heq =>
      have h1 := (congrArg Prod.fst heq).symm
      simp only at h1
      subst h1
      exact ⟨_, rfl, (H _).2.1, (H _).2.2.1.trans gs, (H _).2.2.2.trans gn⟩
    next g' k' heq =>
      have h1 := (congrArg Prod.snd heq).symm
      simp only at h1
      rw [(H _).1] at h1
      cases h1
  · intro g hP
    obtain ⟨gw, gs, gn⟩ := hP
    have hnames : g.getAllNodeNames = List.range inner.length := by
      simp [Store.getAllNodeNames, gn, List.map_map, Function.comp_def]
    obtain ⟨h1, h2⟩ := gg_props lv n k hg inner hin g hnames
    refine ⟨gw, by rw [gs], ?_, h1, h2⟩
    simp [Store.numNodes, gn]

/-- 2 -/
theorem generateGraph_good (lv : Level) (n k : Nat) (hg : GoodLevel lv n k) (hwf : lv.g.wf = true)
    (inner : List (List Nat)) (hin : PartOfRange k inner) (lv' : Level) (h : generateGraph lv inner = .ok lv') :
    lv'.g.wf = true ∧ lv'.g.specs.multi = lv.g.specs.multi ∧ lv'.g.numNodes = inner.length ∧
    GoodLevel lv' n inner.length ∧
    ∀ j z, j < inner.length → (z ∈ mem lv' j ↔ ∃ x ∈ (inner[j]?).getD [], z ∈ mem lv x) := by
  obtain ⟨lv0, h0, hp⟩ := generateGraph_spec lv n k hg hwf inner hin
  rw [h] at h0
  cases h0
  exact hp

/-- 4 -/
theorem generateGraph_no_panic (lv : Level) (n k : Nat) (hg : GoodLevel lv n k) (hwf : lv.g.wf = true)
    (inner : List (List Nat)) (hin : PartOfRange k inner) : ∃ lv', generateGraph lv inner = .ok lv' := by
  obtain ⟨lv0, h0, _⟩ := generateGraph_spec lv n k hg hwf inner hin
  exact ⟨lv0, h0⟩

end LF
end Graphrs
