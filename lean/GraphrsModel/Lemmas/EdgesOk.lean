/-
  Prop-level characterisation of `Store.edgesOk`, key algebra, and preservation lemmas.
-/
import GraphrsModel.Lemmas.NodesOk
namespace Graphrs


theorem nameKey_symm (x y : Nat) : nameKey false x y = nameKey false y x := by
  simp only [nameKey]; grind

theorem idxKey_symm (x y : Nat) : idxKey false x y = idxKey false y x := by
  simp only [idxKey]; grind

theorem nameKey_eq_idxKey : nameKey = idxKey := rfl

theorem idxKey_cases (dir : Bool) (i j : Nat) :
    (idxKey dir i j = (i, j) ∧ (dir = true ∨ i ≤ j)) ∨ (idxKey dir i j = (j, i) ∧ dir = false ∧ j < i) := by
  cases dir <;> simp [idxKey] <;> grind

theorem idxKey_canon (dir : Bool) (k : Nat × Nat) (h : dir = true ∨ k.1 ≤ k.2) : idxKey dir k.1 k.2 = k := by
  cases dir <;> simp [idxKey] <;> grind

/-- the key correspondence: under an injective partial map `f` (name ↦ index) equal index keys
    mean equal name keys -/
theorem key_inj (dir : Bool) {x y u v i j ui vi : Nat}
    (hinj : (i = ui → x = u) ∧ (i = vi → x = v) ∧ (j = ui → y = u) ∧ (j = vi → y = v))
    (h : idxKey dir i j = idxKey dir ui vi) : nameKey dir x y = nameKey dir u v := by
  cases dir <;> simp [idxKey, nameKey] at * <;> grind

namespace Store

def EdgeEntry (s : Store) (k : Nat × Nat) (l : List Edge) : Prop :=
  l ≠ [] ∧ (∀ e ∈ l, (e.u, e.v) = k) ∧ (s.specs.directed = true ∨ k.1 ≤ k.2) ∧
  k.1 ∈ s.names ∧ k.2 ∈ s.names ∧ (s.specs.multi = true ∨ l.length = 1) ∧
  (s.specs.selfLoops = true ∨ k.1 ≠ k.2) ∧
  ∃ i j, alookup s.nodesMap k.1 = some i ∧ alookup s.nodesMap k.2 = some j ∧
    alookup s.edgesMap (idxKey s.specs.directed i j) = some l

def EmapEntry (s : Store) (k : Nat × Nat) (l : List Edge) : Prop :=
  k.1 < s.nodesVec.length ∧ k.2 < s.nodesVec.length ∧ (s.specs.directed = true ∨ k.1 ≤ k.2) ∧
  ∃ x y, s.names[k.1]? = some x ∧ s.names[k.2]? = some y ∧
    alookup s.edges (nameKey s.specs.directed x y) = some l

structure EdgesInv (s : Store) : Prop where
  edges_nodup : (s.edges.map (·.1)).Nodup
  emap_nodup : (s.edgesMap.map (·.1)).Nodup
  edges_ok : ∀ k l, alookup s.edges k = some l → EdgeEntry s k l
  emap_ok : ∀ k l, alookup s.edgesMap k = some l → EmapEntry s k l

theorem edgesOk_iff (s : Store) : s.edgesOk = true ↔ EdgesInv s := by
  simp only [edgesOk, Bool.and_eq_true, AL.keysNodup_iff]
  constructor
  · rintro ⟨⟨⟨h1, h2⟩, h3⟩, h4⟩
    rw [AL.all_iff h1] at h3
    rw [AL.all_iff h2] at h4
    refine ⟨h1, h2, ?_, ?_⟩
    · intro k l hl
      have := h3 k l hl
      simp only [Bool.and_eq_true, Bool.or_eq_true, Bool.not_eq_true', List.isEmpty_eq_false_iff,
        List.all_eq_true, beq_iff_eq, decide_eq_true_eq, List.contains_iff_mem, bne_iff_ne] at this
      obtain ⟨⟨⟨⟨⟨⟨⟨a1, a2⟩, a3⟩, a4⟩, a5⟩, a6⟩, a7⟩, a8⟩ := this
      refine ⟨a1, a2, a3, a4, a5, a6, a7, ?_⟩
      cases e1 : alookup s.nodesMap k.1 <;> cases e2 : alookup s.nodesMap k.2 <;> simp [e1, e2] at a8
      exact ⟨_, _, rfl, rfl, a8⟩
    · intro k l hl
      have := h4 k l hl
      simp only [Bool.and_eq_true, Bool.or_eq_true, decide_eq_true_eq] at this
      obtain ⟨⟨⟨a1, a2⟩, a3⟩, a4⟩ := this
      refine ⟨a1, a2, a3, ?_⟩
      cases e1 : s.names[k.1]? <;> cases e2 : s.names[k.2]? <;> simp [e1, e2] at a4
      exact ⟨_, _, rfl, rfl, a4⟩
  · intro h
    refine ⟨⟨⟨h.edges_nodup, h.emap_nodup⟩, ?_⟩, ?_⟩
    · rw [AL.all_iff h.edges_nodup]
      intro k l hl
      obtain ⟨a1, a2, a3, a4, a5, a6, a7, i, j, e1, e2, a8⟩ := h.edges_ok k l hl
      simp only [Bool.and_eq_true, Bool.or_eq_true, Bool.not_eq_true', List.isEmpty_eq_false_iff,
        List.all_eq_true, beq_iff_eq, decide_eq_true_eq, List.contains_iff_mem, bne_iff_ne]
      refine ⟨⟨⟨⟨⟨⟨⟨a1, a2⟩, a3⟩, a4⟩, a5⟩, a6⟩, a7⟩, ?_⟩
      simp [e1, e2, a8]
    · rw [AL.all_iff h.emap_nodup]
      intro k l hl
      obtain ⟨a1, a2, a3, x, y, e1, e2, a4⟩ := h.emap_ok k l hl
      simp only [Bool.and_eq_true, Bool.or_eq_true, decide_eq_true_eq]
      refine ⟨⟨⟨a1, a2⟩, a3⟩, ?_⟩
      simp [e1, e2, a4]

/-! ### frame lemmas for `add_node` -/

theorem addNode_edges (s : Store) (n : Node) : (s.addNode n).edges = s.edges := by
  unfold addNode poison
  split
  · split <;> (try split) <;> rfl
  · rfl

theorem addNode_edgesMap (s : Store) (n : Node) : (s.addNode n).edgesMap = s.edgesMap := by
  unfold addNode poison
  split
  · split <;> (try split) <;> rfl
  · rfl

theorem addNode_names_mono {s : Store} (h : NodesInv s) (n : Node) {i y : Nat}
    (hy : s.names[i]? = some y) : (s.addNode n).names[i]? = some y := by
  cases hl : alookup s.nodesMap n.name with
  | some j => rw [addNode_existing_names h n hl]; exact hy
  | none =>
    rw [addNode_new h n hl]
    simp only [names, List.map_append] at hy ⊢
    rw [List.getElem?_append_left]
    · exact hy
    · rcases Nat.lt_or_ge i (s.nodesVec.map (·.name)).length with h3 | h3
      · exact h3
      · rw [List.getElem?_eq_none h3] at hy; cases hy

/-- `EdgesInv` survives any change that keeps specs / edges / edgesMap and only extends the node table -/
theorem EdgesInv.mono {s s' : Store} (hs : NodesInv s) (hs' : NodesInv s')
    (hsp : s'.specs = s.specs) (he : s'.edges = s.edges) (hem : s'.edgesMap = s.edgesMap)
    (hn : ∀ (i y : Nat), s.names[i]? = some y → s'.names[i]? = some y) (h : EdgesInv s) : EdgesInv s' := by
  have hm : ∀ y i, alookup s.nodesMap y = some i → alookup s'.nodesMap y = some i := by
    intro y i hl
    exact (hs'.map_iff y i).mpr (hn i y ((hs.map_iff y i).mp hl))
  have hmem : ∀ y, y ∈ s.names → y ∈ s'.names := by
    intro y hy
    obtain ⟨i, hi⟩ := List.mem_iff_getElem?.mp hy
    exact List.mem_iff_getElem?.mpr ⟨i, hn i y hi⟩
  refine ⟨by rw [he]; exact h.edges_nodup, by rw [hem]; exact h.emap_nodup, ?_, ?_⟩
  · intro k l hl
    rw [he] at hl
    obtain ⟨a1, a2, a3, a4, a5, a6, a7, i, j, e1, e2, a8⟩ := h.edges_ok k l hl
    refine ⟨a1, a2, by rw [hsp]; exact a3, hmem _ a4, hmem _ a5, by rw [hsp]; exact a6,
      by rw [hsp]; exact a7, i, j, hm _ _ e1, hm _ _ e2, by rw [hsp, hem]; exact a8⟩
  · intro k l hl
    rw [hem] at hl
    obtain ⟨a1, a2, a3, x, y, e1, e2, a4⟩ := h.emap_ok k l hl
    have lt_of : ∀ i z, s'.names[i]? = some z → i < s'.nodesVec.length := by
      intro i z hz
      rcases Nat.lt_or_ge i s'.names.length with h3 | h3
      · simpa [names] using h3
      · rw [List.getElem?_eq_none h3] at hz; cases hz
    refine ⟨lt_of _ _ (hn _ _ e1), lt_of _ _ (hn _ _ e2), by rw [hsp]; exact a3, x, y, hn _ _ e1, hn _ _ e2,
      by rw [hsp, he]; exact a4⟩

theorem addNode_edgesInv {s : Store} (hs : NodesInv s) (h : EdgesInv s) (n : Node) :
    EdgesInv (s.addNode n) :=
  EdgesInv.mono hs (addNode_nodesInv hs n) (addNode_specs s n) (addNode_edges s n) (addNode_edgesMap s n)
    (fun _ _ hy => addNode_names_mono hs n hy) h

end Store
end Graphrs
