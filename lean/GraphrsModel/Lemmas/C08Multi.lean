/-
  `multi_source` and `all_pairs` as folds of one search per source (inversion of a successful run), and the symmetry of
  walks over symmetric arc lists.
-/
import GraphrsModel.Lemmas.C08Single
namespace Graphrs
namespace C08A
open C06T C08F

theorem walk_symm {A : Arcs} (hA : ∀ x y c, (x, y, c) ∈ A → (y, x, c) ∈ A) {s t : Nat} {c : Int} (hw : Walk A s t c) :
    Walk A t s c := by
  induction hw with
  | nil => exact Walk.nil _
  | snoc hw' ha ih => exact Walk.cons' (hA _ _ _ ha) ih

theorem isDist_symm {A : Arcs} (hA : ∀ x y c, (x, y, c) ∈ A → (y, x, c) ∈ A) (x y : Nat) (d : Int) :
    IsDist A x y d → IsDist A y x d := by
  rintro ⟨hw, hmin⟩
  exact ⟨walk_symm hA hw, fun c hc => hmin c (walk_symm hA hc)⟩

theorem abs_arcs_symm (a : Abs) (weighted : Bool) (x y : Nat) (c : Int) (h : (x, y, c) ∈ a.arcs false weighted) :
    (y, x, c) ∈ a.arcs false weighted := by
  rw [mem_abs_arcs] at h ⊢
  obtain ⟨e, he, hc, hk⟩ := h
  refine ⟨e, he, hc, ?_⟩
  rcases hk with ⟨e1, e2⟩ | ⟨_, e1, e2⟩
  · exact Or.inr ⟨rfl, e1, e2⟩
  · exact Or.inl ⟨e1, e2⟩


def msH (s : Store) (weighted : Bool) (target : Option Nat) (cutoff2 : Option Int) (firstOnly withPaths : Bool)
    (out : List (Nat × List (Nat × SPInfo))) (src : Nat) : Outcome (List (Nat × List (Nat × SPInfo))) :=
  ((s.singleSource weighted src target cutoff2 firstOnly withPaths)).bind fun r =>
    .ok (ainsert out src r)

theorem msH_ok (s : Store) (weighted : Bool) (target : Option Nat) (cutoff2 : Option Int) (firstOnly withPaths : Bool)
    (out out' : List (Nat × List (Nat × SPInfo))) (src : Nat)
    (h : msH s weighted target cutoff2 firstOnly withPaths out src = .ok out') :
    ∃ r, s.singleSource weighted src target cutoff2 firstOnly withPaths = .ok r ∧ out' = ainsert out src r := by
  unfold msH at h
  cases hs : s.singleSource weighted src target cutoff2 firstOnly withPaths with
  | ok r =>
    rw [hs] at h
    simp only [Outcome.unwrap, Outcome.bind, Outcome.ok.injEq] at h
    exact ⟨r, rfl, h.symm⟩
  | err k => rw [hs] at h; simp only [Outcome.unwrap, Outcome.bind] at h; cases h
  | panic m => rw [hs] at h; simp only [Outcome.unwrap, Outcome.bind] at h; cases h

theorem multiSource_inv (s : Store) (weighted : Bool) (sources : List Nat) (target : Option Nat)
    (cutoff2 : Option Int) (firstOnly withPaths : Bool) (ms : List (Nat × List (Nat × SPInfo)))
    (hms : s.multiSource weighted sources target cutoff2 firstOnly withPaths = .ok ms) :
    foldRel (msH s weighted target cutoff2 firstOnly withPaths) [] sources ms := by
  unfold Store.multiSource at hms
  by_cases h1 : (!s.hasNodes sources) = true
  · rw [if_pos h1] at hms; cases hms
  · rw [if_neg h1] at hms
    cases target with
    | none =>
      rw [← foldl_ok_iff]
      exact hms
    | some t =>
      simp only at hms
      by_cases h2 : (!s.hasNode t) = true
      · rw [if_pos h2] at hms; cases hms
      · rw [if_neg h2] at hms
        rw [← foldl_ok_iff]
        exact hms


def apH (s : Store) (weighted : Bool) (cutoff2 : Option Int) (firstOnly withPaths : Bool)
    (out : List (Nat × List (Nat × SPInfo))) (i : Nat) : Outcome (List (Nat × List (Nat × SPInfo))) :=
  ((s.runOne weighted i none none cutoff2 firstOnly withPaths)).bind fun r =>
    (Outcome.ofOption "all_pairs: get_node_by_index().unwrap()" (s.getNodeByIndex i)).bind fun src =>
      (s.spToNames r).bind fun named => .ok (ainsert out src.name named)

theorem apH_ok (s : Store) (weighted : Bool) (cutoff2 : Option Int) (firstOnly withPaths : Bool)
    (out out' : List (Nat × List (Nat × SPInfo))) (i : Nat)
    (h : apH s weighted cutoff2 firstOnly withPaths out i = .ok out') :
    ∃ named, (isIdx s i ∧ ∃ r, s.runOne weighted i none none cutoff2 firstOnly withPaths = .ok r ∧ s.spToNames r = .ok named) ∧
      out' = ainsert out (nameD s i) named := by
  unfold apH at h
  cases hr : s.runOne weighted i none none cutoff2 firstOnly withPaths with
  | err k => rw [hr] at h; simp only [Outcome.unwrap, Outcome.bind] at h; cases h
  | panic m => rw [hr] at h; simp only [Outcome.unwrap, Outcome.bind] at h; cases h
  | ok r =>
    rw [hr] at h
    cases hg : s.getNodeByIndex i with
    | none => rw [hg] at h; simp only [Outcome.unwrap, Outcome.bind, Outcome.ofOption] at h; cases h
    | some nd =>
      rw [hg] at h
      simp only [Outcome.unwrap, Outcome.bind, Outcome.ofOption] at h
      cases hc : s.spToNames r with
      | err k => rw [hc] at h; cases h
      | panic m => rw [hc] at h; cases h
      | ok named =>
        rw [hc] at h
        simp only [Outcome.ok.injEq] at h
        refine ⟨named, ⟨⟨nd, hg⟩, r, rfl, hc⟩, ?_⟩
        rw [← h]
        simp [nameD, hg]

theorem allPairs_inv (s : Store) (weighted : Bool) (cutoff2 : Option Int) (firstOnly withPaths : Bool)
    (ap : List (Nat × List (Nat × SPInfo))) (hap : s.allPairs weighted none cutoff2 firstOnly withPaths = .ok ap) :
    foldRel (apH s weighted cutoff2 firstOnly withPaths) [] (List.range s.numberOfNodes) ap := by
  rw [← foldl_ok_iff]
  unfold Store.allPairs at hap
  cases weighted with
  | false => exact hap
  | true =>
    simp only [if_true] at hap
    cases he : s.ensureWeighted with
    | ok u => rw [he] at hap; exact hap
    | err k => rw [he] at hap; cases hap
    | panic m => rw [he] at hap; cases hap


end C08A
end Graphrs
