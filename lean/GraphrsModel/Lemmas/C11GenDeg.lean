/-
  Lemmas for Props/C11GenDeg.lean: the histogram `Store.countMap` (sort, then count runs into a map) against the
  histogram of the definition `Abs.generalizedDegreeAt` (`dedup`, then count occurrences).
-/
import GraphrsModel.Lemmas.C11ModelTri
namespace Graphrs
namespace C11G
open C02 C11aux C11M

/-! ### association lists with pairwise distinct keys -/

theorem alookup_of_mem {ν : Type} (m : List (Nat × ν)) (h : (m.map (·.1)).Nodup) (p : Nat × ν) (hp : p ∈ m) :
    alookup m p.1 = some p.2 := by
  induction m with
  | nil => cases hp
  | cons q m ih =>
    obtain ⟨a, b⟩ := q
    rw [List.map_cons, List.nodup_cons] at h
    rcases List.mem_cons.1 hp with rfl | hp
    · simp [alookup]
    · have hne : a ≠ p.1 := by
        intro e
        exact h.1 (List.mem_map.2 ⟨p, hp, e.symm⟩)
      simp only [alookup, hne, if_false]
      exact ih h.2 hp

theorem mem_of_alookup {ν : Type} (m : List (Nat × ν)) (k : Nat) (v : ν) (h : alookup m k = some v) : (k, v) ∈ m := by
  induction m with
  | nil => simp [alookup] at h
  | cons q m ih =>
    obtain ⟨a, b⟩ := q
    by_cases e : a = k
    · subst e
      simp only [alookup, if_true, Option.some.injEq] at h
      subst h
      exact List.mem_cons_self
    · simp only [alookup, e, if_false] at h
      exact List.mem_cons_of_mem _ (ih h)

/-- two association lists with pairwise distinct keys and the same bindings are permutations of each other -/
theorem perm_of_alookup {ν : Type} (m1 m2 : List (Nat × ν)) (h1 : (m1.map (·.1)).Nodup) (h2 : (m2.map (·.1)).Nodup)
    (h : ∀ k, alookup m1 k = alookup m2 k) : m1.Perm m2 := by
  apply perm_of_nodup_mem (List.Nodup.of_map _ h1) (List.Nodup.of_map _ h2)
  intro p
  constructor
  · intro hp
    have := alookup_of_mem m1 h1 p hp
    rw [h] at this
    exact mem_of_alookup m2 p.1 p.2 this
  · intro hp
    have := alookup_of_mem m2 h2 p hp
    rw [← h] at this
    exact mem_of_alookup m1 p.1 p.2 this

/-! ### sorting by key -/

def keyLe (a b : Nat × Nat) : Bool := decide (a.1 ≤ b.1)

theorem insertSorted_perm {α} (le : α → α → Bool) (x : α) (l : List α) :
    (insertSorted le x l).Perm (x :: l) := by
  induction l with
  | nil => exact List.Perm.refl _
  | cons y ys ih =>
    unfold insertSorted
    by_cases h : le x y = true
    · simp [h]
    · simp only [h]
      exact (List.Perm.cons y ih).trans (List.Perm.swap x y ys)

theorem isort_perm {α} (le : α → α → Bool) (l : List α) : (isort le l).Perm l := by
  induction l with
  | nil => exact List.Perm.refl _
  | cons x xs ih =>
    show (insertSorted le x (isort le xs)).Perm (x :: xs)
    exact (insertSorted_perm le x _).trans (List.Perm.cons x ih)

theorem insertSorted_key (x : Nat × Nat) (l : List (Nat × Nat)) (hl : l.Pairwise (fun a b => a.1 ≤ b.1)) :
    (insertSorted keyLe x l).Pairwise (fun a b => a.1 ≤ b.1) := by
  induction l with
  | nil => simp [insertSorted]
  | cons y ys ih =>
    unfold insertSorted
    rw [List.pairwise_cons] at hl
    by_cases h : keyLe x y = true
    · rw [if_pos h, List.pairwise_cons]
      refine ⟨?_, List.pairwise_cons.mpr hl⟩
      simp only [keyLe, decide_eq_true_eq] at h
      intro z hz
      rcases List.mem_cons.mp hz with rfl | hz
      · exact h
      · exact Nat.le_trans h (hl.1 z hz)
    · rw [if_neg h, List.pairwise_cons]
      refine ⟨?_, ih hl.2⟩
      simp only [keyLe, decide_eq_true_eq] at h
      intro z hz
      have hz' := (insertSorted_perm keyLe x ys).subset hz
      rcases List.mem_cons.mp hz' with rfl | hz'
      · omega
      · exact hl.1 z hz'

theorem isort_key (l : List (Nat × Nat)) : (isort keyLe l).Pairwise (fun a b => a.1 ≤ b.1) := by
  induction l with
  | nil => exact List.Pairwise.nil
  | cons x xs ih =>
    show (insertSorted keyLe x (isort keyLe xs)).Pairwise _
    exact insertSorted_key x _ ih

/-- a list whose keys increase strictly is the key-sorted form of each of its permutations -/
theorem eq_isort_of_perm (g l : List (Nat × Nat)) (hg : (g.map (·.1)).Pairwise (· < ·)) (hp : g.Perm l) :
    g = isort keyLe l := by
  have hg' : g.Pairwise (fun a b => a.1 < b.1) := List.pairwise_map.1 hg
  have hgn : (g.map (·.1)).Nodup := hg.imp (fun h => Nat.ne_of_lt h)
  have hp' : g.Perm (isort keyLe l) := hp.trans (isort_perm keyLe l).symm
  refine List.Perm.eq_of_pairwise (le := fun a b : Nat × Nat => a.1 ≤ b.1) ?_
    (hg'.imp (fun h => Nat.le_of_lt h)) (isort_key l) hp'
  intro a b ha hb hab hba
  have hb' : b ∈ g := hp'.symm.subset hb
  have e : a.1 = b.1 := Nat.le_antisymm hab hba
  have h1 := alookup_of_mem g hgn a ha
  have h2 := alookup_of_mem g hgn b hb'
  rw [e, h2] at h1
  exact Prod.ext e (Option.some.inj h1).symm

/-! ### the histogram fold -/

/-- one step of `countMap` -/
def hstep (m : List (Nat × Nat)) (k : Nat) : List (Nat × Nat) := ainsert m k ((alookup m k).getD 0 + 1)

theorem countMap_eq (l : List Nat) : Store.countMap l = (sortNat l).foldl hstep [] := rfl

theorem alookup_hist (l : List Nat) (m0 : List (Nat × Nat)) (k : Nat) :
    alookup (l.foldl hstep m0) k
      = if l.count k = 0 then alookup m0 k else some ((alookup m0 k).getD 0 + l.count k) := by
  induction l generalizing m0 with
  | nil => simp
  | cons a l ih =>
    rw [List.foldl_cons, ih]
    unfold hstep
    rw [alookup_ainsert]
    by_cases e : a = k
    · subst e
      simp only [if_true, List.count_cons_self, Option.getD_some]
      by_cases hc : List.count a l = 0
      · simp [hc]
      · simp only [hc, if_false, Nat.add_eq_zero_iff, Nat.one_ne_zero, and_false, Option.some.injEq]
        omega
    · have hc : List.count k (a :: l) = List.count k l := by
        exact List.count_cons_of_ne e
      simp only [e, if_false, hc]

theorem keys_hstep (m : List (Nat × Nat)) (k : Nat) :
    (hstep m k).map (·.1) = if k ∈ m.map (·.1) then m.map (·.1) else m.map (·.1) ++ [k] := keys_ainsert m k _

/-- over a sorted list the histogram map is built in increasing key order -/
theorem keys_hist_sorted (l : List Nat) (hl : l.Pairwise (· ≤ ·)) (m0 : List (Nat × Nat))
    (h0 : (m0.map (·.1)).Pairwise (· < ·)) (hb : ∀ k ∈ m0.map (·.1), ∀ x ∈ l, k ≤ x) :
    ((l.foldl hstep m0).map (·.1)).Pairwise (· < ·) := by
  induction l generalizing m0 with
  | nil => simpa using h0
  | cons a l ih =>
    rw [List.pairwise_cons] at hl
    rw [List.foldl_cons]
    apply ih hl.2
    · rw [keys_hstep]
      by_cases hm : a ∈ m0.map (·.1)
      · rw [if_pos hm]; exact h0
      · rw [if_neg hm, List.pairwise_append]
        refine ⟨h0, List.pairwise_singleton _ _, ?_⟩
        intro k hk b hb'
        rw [List.mem_singleton] at hb'
        subst hb'
        have := hb k hk b List.mem_cons_self
        have hne : k ≠ b := fun e => hm (e ▸ hk)
        omega
    · intro k hk x hx
      rw [keys_hstep] at hk
      by_cases hm : a ∈ m0.map (·.1)
      · rw [if_pos hm] at hk
        exact hb k hk x (List.mem_cons_of_mem _ hx)
      · rw [if_neg hm, List.mem_append, List.mem_singleton] at hk
        rcases hk with hk | rfl
        · exact hb k hk x (List.mem_cons_of_mem _ hx)
        · exact hl.1 x hx

/-- the keys of `countMap` increase strictly -/
theorem countMap_keys_sorted (l : List Nat) : ((Store.countMap l).map (·.1)).Pairwise (· < ·) := by
  rw [countMap_eq]
  exact keys_hist_sorted _ (sorted_sortNat l) [] List.Pairwise.nil (by simp)

theorem countMap_keys_nodup (l : List Nat) : ((Store.countMap l).map (·.1)).Nodup :=
  (countMap_keys_sorted l).imp (fun h => Nat.ne_of_lt h)

/-- `countMap l` binds exactly the values occurring in `l`, each to its number of occurrences -/
theorem alookup_countMap (l : List Nat) (k : Nat) :
    alookup (Store.countMap l) k = if k ∈ l then some (l.count k) else none := by
  rw [countMap_eq, alookup_hist, (sortNat_perm' l).count_eq]
  by_cases hk : k ∈ l
  · have : List.count k l ≠ 0 := by
      have := List.count_pos_iff.2 hk
      omega
    simp [hk, this, alookup]
  · simp [hk, List.count_eq_zero_of_not_mem hk, alookup]
where
  sortNat_perm' (l : List Nat) : (sortNat l).Perm l := isort_perm _ l

/-- the histogram of the definition -/
def specHist (c : List Nat) : List (Nat × Nat) := (dedup c).map fun k => (k, (c.filter (· == k)).length)

theorem specHist_keys (c : List Nat) : (specHist c).map (·.1) = dedup c := by
  simp [specHist, List.map_map, Function.comp_def]

theorem alookup_specHist (c : List Nat) (k : Nat) :
    alookup (specHist c) k = if k ∈ c then some (c.count k) else none := by
  unfold specHist
  rw [C09M.alookup_map_self]
  simp only [C11aux.mem_dedup]
  by_cases hk : k ∈ c
  · simp only [hk, if_true, Option.some.injEq]
    rw [List.count_eq_countP, List.countP_eq_length_filter]
  · simp [hk]

/-- **the model's histogram against the definition's**: same bindings, a permutation, and precisely the key-sorted form -/
theorem countMap_specHist (c c' : List Nat) (hp : c.Perm c') :
    (∀ t, alookup (Store.countMap c) t = alookup (specHist c') t) ∧
    (Store.countMap c).Perm (specHist c') ∧
    Store.countMap c = isort keyLe (specHist c') := by
  have h1 : ∀ t, alookup (Store.countMap c) t = alookup (specHist c') t := by
    intro t
    rw [alookup_countMap, alookup_specHist, hp.count_eq]
    simp only [hp.mem_iff]
  have h2 : (Store.countMap c).Perm (specHist c') := by
    apply perm_of_alookup _ _ (countMap_keys_nodup c) _ h1
    rw [specHist_keys]
    exact nodup_dedup c'
  exact ⟨h1, h2, eq_isort_of_perm _ _ (countMap_keys_sorted c) h2⟩

/-! ### the per-node histogram of `get_triangles_and_degrees` -/

theorem generalizedDegreeAt_eq (a : Abs) (v : Nat) :
    a.generalizedDegreeAt v = specHist ((a.N v).map fun w => ((a.N v).filter fun k => a.adjacent w k).length) := rfl

theorem counts_perm (s : Store) (h : s.wf = true) (hd : s.specs.directed = false) (v : Nat) (hv : s.hasNode v = true) :
    (counts s v).Perm ((s.abs.N v).map fun w => ((s.abs.N v).filter fun k => s.abs.adjacent w k).length) := by
  unfold counts
  have e : (mN s v).map (fun w => (sinter (mN s w) (mN s v)).length)
      = (mN s v).map (fun w => ((s.abs.N v).filter fun k => s.abs.adjacent w k).length) := by
    apply List.map_congr_left
    intro w hw
    exact count_eq s h hd v hv w (mN_hasNode s h hd v hv w hw)
  rw [e]
  exact (mN_perm s h hd v hv).map _

theorem tad_gdeg (s : Store) (h : s.wf = true) (hd : s.specs.directed = false) (v : Nat) (hv : s.hasNode v = true) :
    (∀ t, alookup (tadOf s v).gdeg t = alookup (s.abs.generalizedDegreeAt v) t) ∧
    ((tadOf s v).gdeg).Perm (s.abs.generalizedDegreeAt v) ∧
    (tadOf s v).gdeg = isort keyLe (s.abs.generalizedDegreeAt v) := by
  rw [generalizedDegreeAt_eq]
  exact countMap_specHist _ _ (counts_perm s h hd v hv)

end C11G
end Graphrs
