/-
  `add_node` preserves the Prop-level invariant `Pre`.
-/
import GraphrsModel.Lemmas.C03Pre
namespace Graphrs
namespace C03
open Store

theorem vecOk_of_pre (s : Store) (hp : Pre s) : s.vecOk = true := by
  rw [vecOk_eq, Bool.and_eq_true]
  constructor
  · exact rowsOkB_of _ _ _ _ _ _ (names_length s).symm hp.vS hp.sS (fun _ _ _ => rfl)
  · refine rowsOkB_of _ _ _ _ _ _ (names_length s).symm hp.vP hp.sP ?_
    intro x y hs
    unfold fP at hs ⊢
    cases hd : s.specs.directed with
    | true => simp [weightsBetween_eq, hd]
    | false => rw [hd] at hs; simp at hs

theorem wts_eq_nil (row : List Adj) (j : Nat) (h : ∀ a ∈ row, a.1 ≠ j) : wts row j = [] := by
  cases hw : wts row j with
  | nil => rfl
  | cons a t =>
    have : wts row j ≠ [] := by rw [hw]; simp
    obtain ⟨b, hb, hj⟩ := (wts_ne_nil_iff row j).1 this
    exact absurd hj (h b hb)

theorem rowMin_append_lt (vec : AVec) (r : List Adj) (i j : Nat) (hi : i < vec.length) :
    rowMin (vec ++ [r]) i j = rowMin vec i j := by
  unfold rowMin
  rw [List.getElem?_append_left hi]

theorem rowMin_append_nil_ge (vec : AVec) (i j : Nat) (hi : vec.length ≤ i) :
    rowMin (vec ++ [[]]) i j = none := by
  unfold rowMin
  rw [List.getElem?_append_right hi]
  cases h : i - vec.length with
  | zero => rfl
  | succ k => rfl

theorem getElem?_append_single {α} (l : List α) (a x : α) (i : Nat)
    (h : (l ++ [a])[i]? = some x) : (i < l.length ∧ l[i]? = some x) ∨ (i = l.length ∧ x = a) := by
  rcases Nat.lt_or_ge i l.length with hi | hi
  · rw [List.getElem?_append_left hi] at h
    exact Or.inl ⟨hi, h⟩
  · rw [List.getElem?_append_right hi] at h
    cases hk : i - l.length with
    | zero =>
      rw [hk] at h
      simp at h
      exact Or.inr ⟨by omega, h.symm⟩
    | succ k => rw [hk] at h; simp at h

theorem VecInv.addNode {names : List Nat} {vec : AVec} {f : Nat → Nat → Option W}
    (h : VecInv names vec f) (name : Nat)
    (h1 : ∀ y, f name y = none) (h2 : ∀ x, f x name = none) :
    VecInv (names ++ [name]) (vec ++ [[]]) f := by
  refine ⟨by simp [h.len], ?_, ?_⟩
  · intro i row hrow a ha
    rcases getElem?_append_single _ _ _ _ hrow with ⟨_, hr⟩ | ⟨_, hr⟩
    · have := h.bnd i row hr a ha
      simp only [List.length_append, List.length_singleton]; omega
    · subst hr; simp at ha
  · intro i j x y hx hy
    rcases getElem?_append_single _ _ _ _ hx with ⟨hi, hx'⟩ | ⟨hi, hx'⟩
    · rw [rowMin_append_lt _ _ _ _ (by rw [h.len]; exact hi)]
      rcases getElem?_append_single _ _ _ _ hy with ⟨hj, hy'⟩ | ⟨hj, hy'⟩
      · exact h.val i j x y hx' hy'
      · subst hy'
        rw [h2]
        have hi' : i < vec.length := by rw [h.len]; exact hi
        have hrow : vec[i]? = some vec[i] := List.getElem?_eq_getElem hi'
        unfold rowMin
        rw [hrow]
        simp only [Option.getD_some]
        rw [wts_eq_nil]; rfl
        intro a ha
        have := h.bnd i _ hrow a ha
        omega
    · subst hx'
      rw [h1, rowMin_append_nil_ge]
      rw [h.len]; omega

theorem setOf_ainsert (sets : SMap) (n i : Nat) (l : List Nat) :
    setOf (ainsert sets n l) i = if n = i then l else setOf sets i := by
  unfold setOf
  rw [alookup_ainsert]
  split <;> rfl

theorem SetInv.addNode {names : List Nat} {sets : SMap} {g : Nat → Nat → Bool}
    (h : SetInv names sets g) (name : Nat)
    (h1 : ∀ y, g name y = false) (h2 : ∀ x, g x name = false) :
    SetInv (names ++ [name]) (ainsert sets names.length []) g := by
  refine ⟨?_, ?_⟩
  · intro i l hl j hj
    rw [alookup_ainsert] at hl
    split at hl
    · cases hl; simp at hj
    · have := h.bnd i l hl j hj
      simp only [List.length_append, List.length_singleton]; omega
  · intro i j x y hx hy
    rw [setOf_ainsert]
    rcases getElem?_append_single _ _ _ _ hx with ⟨hi, hx'⟩ | ⟨hi, hx'⟩
    · have : ¬ names.length = i := by omega
      simp only [this, if_false]
      rcases getElem?_append_single _ _ _ _ hy with ⟨hj, hy'⟩ | ⟨hj, hy'⟩
      · exact h.mem i j x y hx' hy'
      · subst hy'
        rw [h2]
        unfold setOf
        cases hl : alookup sets i with
        | none => simp
        | some l =>
          simp only [Option.getD_some]
          rw [Bool.eq_false_iff]
          intro hc
          have := h.bnd i l hl j (by simpa using hc)
          omega
    · subst hx'
      simp [hi, h1]

theorem preC_addNode {names : List Nat} {nodesMap : List (Nat × Nat)} {edges edgesMap : EMap}
    {dir : Bool} {sv : AVec} {sm : SMap} {pv : AVec} {pm : SMap}
    (h : PreC names nodesMap edges edgesMap dir sv sm pv pm) (name : Nat)
    (hnew : alookup nodesMap name = none) :
    PreC (names ++ [name]) (ainsert nodesMap name names.length) edges edgesMap dir
      (sv ++ [[]]) (ainsert sm names.length []) (pv ++ [[]]) (ainsert pm names.length []) := by
  have hnot : name ∉ names := by
    intro hm
    obtain ⟨i, hi⟩ := List.mem_iff_getElem?.1 hm
    rw [(h.nm name i).2 hi] at hnew; cases hnew
  have hE : ∀ x y, (x = name ∨ y = name) → alookup edges (nameKey dir x y) = none := by
    intro x y hxy
    cases hl : alookup edges (nameKey dir x y) with
    | none => rfl
    | some l =>
      exfalso
      obtain ⟨a, b, _⟩ := h.ebE _ _ hl
      rcases nameKey_cases dir x y with hk | ⟨_, hk⟩ <;> rw [hk] at a b <;> simp only at a b
      · rcases hxy with e | e <;> subst e <;> contradiction
      · rcases hxy with e | e <;> subst e <;> contradiction
  have hfS : ∀ x y, (x = name ∨ y = name) → fS edges dir x y = none := by
    intro x y hxy
    unfold fS wbC
    rw [hE x y hxy]; rfl
  have hfP : ∀ x y, (x = name ∨ y = name) → fP edges dir x y = none := by
    intro x y hxy
    unfold fP
    split
    · exact hfS y x hxy.symm
    · rfl
  refine ⟨?_, ?_, ?_, ?_, ?_, ?_, ?_, ?_, ?_⟩
  · rw [List.nodup_append]
    refine ⟨h.nodup, by simp, ?_⟩
    intro a ha b hb
    simp only [List.mem_singleton] at hb
    subst hb
    intro e; subst e; exact hnot ha
  · intro x i
    rw [alookup_ainsert]
    by_cases hx : name = x
    · subst hx
      simp only [if_true]
      constructor
      · intro e; cases e; simp
      · intro hi
        rcases getElem?_append_single _ _ _ _ hi with ⟨_, hi'⟩ | ⟨hi', _⟩
        · exact absurd (List.mem_of_getElem? hi') hnot
        · rw [hi']
    · simp only [hx, if_false]
      rw [h.nm x i]
      constructor
      · intro hi
        rw [List.getElem?_append_left (lt_of_getElem? hi)]; exact hi
      · intro hi
        rcases getElem?_append_single _ _ _ _ hi with ⟨_, hi'⟩ | ⟨_, hi'⟩
        · exact hi'
        · exact absurd hi'.symm hx
  · intro k l hl
    have := h.ebM k l hl
    simp only [List.length_append, List.length_singleton]; omega
  · intro k l hl
    obtain ⟨a, b, c⟩ := h.ebE k l hl
    exact ⟨List.mem_append_left _ a, List.mem_append_left _ b, c⟩
  · intro i j x y hx hy
    rcases getElem?_append_single _ _ _ _ hx with ⟨hi, hx'⟩ | ⟨hi, hx'⟩
    · rcases getElem?_append_single _ _ _ _ hy with ⟨hj, hy'⟩ | ⟨hj, hy'⟩
      · exact h.l2 i j x y hx' hy'
      · rw [hE x y (Or.inr hy')]
        cases hl : alookup edgesMap (idxKey dir i j) with
        | none => rfl
        | some l =>
          exfalso
          have := h.ebM _ _ hl
          rcases nameKey_cases dir i j with hk | ⟨_, hk⟩ <;>
            rw [idxKey_eq_nameKey, hk] at this <;> simp only at this <;> omega
    · rw [hE x y (Or.inl hx')]
      cases hl : alookup edgesMap (idxKey dir i j) with
      | none => rfl
      | some l =>
        exfalso
        have := h.ebM _ _ hl
        rcases nameKey_cases dir i j with hk | ⟨_, hk⟩ <;>
          rw [idxKey_eq_nameKey, hk] at this <;> simp only at this <;> omega
  · exact h.vS.addNode name (fun y => hfS name y (Or.inl rfl)) (fun x => hfS x name (Or.inr rfl))
  · refine h.sS.addNode name (fun y => ?_) (fun x => ?_)
    · simp [hfS name y (Or.inl rfl)]
    · simp [hfS x name (Or.inr rfl)]
  · exact h.vP.addNode name (fun y => hfP name y (Or.inl rfl)) (fun x => hfP x name (Or.inr rfl))
  · refine h.sP.addNode name (fun y => ?_) (fun x => ?_)
    · simp [hfP name y (Or.inl rfl)]
    · simp [hfP x name (Or.inr rfl)]

theorem pre_addNode (s : Store) (node : Node) (h : Pre s) : Pre (s.addNode node) := by
  unfold Store.addNode
  cases hl : alookup s.nodesMap node.name with
  | some i =>
    simp only
    have hi : s.names[i]? = some node.name := (h.nm _ _).1 hl
    have hnames : ((s.nodesVec.set i node).map (·.name)) = s.names := by
      unfold Store.names at hi ⊢
      rw [List.map_set]
      exact set_self _ _ _ hi
    unfold Pre
    by_cases hlt : i < s.nodesVec.length
    · simp only [hlt, if_true, Store.names, hnames]
      exact h
    · simp only [hlt, if_false]
      unfold Store.poison
      split
      · simp only [Store.names, hnames]; exact h
      · simp only [Store.names, hnames]; exact h
  | none =>
    simp only
    have := preC_addNode h node.name hl
    unfold Pre
    simp only [Store.names, List.map_append, List.map_cons, List.map_nil]
    simp only [Store.names, List.length_map] at this
    exact this

end C03
end Graphrs
