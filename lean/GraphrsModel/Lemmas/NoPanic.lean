/-
  Prop-level consequences of the coupling invariant used by the no-panic theorems (C20).
-/
import GraphrsModel.Lemmas.Refine
namespace Graphrs

/-! ### outcomes -/

theorem Outcome.isPanic_of_ok {α} {x : Outcome α} {a : α} (h : x = .ok a) : x.isPanic = false := by
  subst h; rfl

theorem Outcome.isPanic_of_err {α} {x : Outcome α} {k : ErrKind} (h : x = .err k) : x.isPanic = false := by
  subst h; rfl

/-- a fold whose step returns `ok` on every element of the list returns `ok` -/
theorem Outcome.foldl_ok {α β} (l : List α) (P : α → Prop) (step : β → α → Outcome β) (b : β)
    (hl : ∀ a ∈ l, P a) (hs : ∀ b a, P a → ∃ b', step b a = .ok b') :
    ∃ b', l.foldl (fun acc a => Outcome.bind acc (fun x => step x a)) (.ok b) = .ok b' := by
  induction l generalizing b with
  | nil => exact ⟨b, rfl⟩
  | cons a l ih =>
    obtain ⟨b', hb'⟩ := hs b a (hl a (by simp))
    simp only [List.foldl_cons, Outcome.bind, hb']
    exact ih b' (fun a ha => hl a (List.mem_cons_of_mem _ ha))

namespace NP
open Store

theorem wf_parts' {s : Store} (h : s.wf = true) :
    s.NodesInv ∧ s.EdgesInv ∧ s.adjOk = true ∧ s.vecOk = true := by
  simp only [Store.wf, Bool.and_eq_true] at h
  exact ⟨(Store.nodesOk_iff s).mp h.1.1.1, (Store.edgesOk_iff s).mp h.1.1.2, h.1.2, h.2⟩

/-- what `adjOk` says, in `Prop` -/
structure AdjFacts (s : Store) : Prop where
  succ_mem : ∀ x l, alookup s.succ x = some l → x ∈ s.names ∧ ∀ y ∈ l, y ∈ s.names
  pred_mem : ∀ x l, alookup s.pred x = some l → x ∈ s.names ∧ ∀ y ∈ l, y ∈ s.names
  succMap_lt : ∀ i l, alookup s.succMap i = some l → i < s.nodesVec.length ∧ ∀ j ∈ l, j < s.nodesVec.length
  predMap_lt : ∀ i l, alookup s.predMap i = some l → i < s.nodesVec.length ∧ ∀ j ∈ l, j < s.nodesVec.length
  succ_iff : ∀ x ∈ s.names, ∀ y ∈ s.names, (y ∈ setOf s.succ x ↔ s.hasEdge x y = true)
  pred_iff : ∀ x ∈ s.names, ∀ y ∈ s.names, (y ∈ setOf s.pred x ↔ (s.specs.directed = true ∧ s.hasEdge y x = true))

theorem adjFacts {s : Store} (hadj : s.adjOk = true) : AdjFacts s := by
  simp only [adjOk, Bool.and_eq_true, List.all_eq_true, decide_eq_true_eq, List.contains_iff_mem,
    beq_iff_eq] at hadj
  obtain ⟨⟨⟨⟨⟨⟨⟨_, h1⟩, h2⟩, h3⟩, h4⟩, _⟩, h5⟩, _⟩ := hadj
  refine ⟨?_, ?_, ?_, ?_, ?_, ?_⟩
  · intro x l hl
    have := h1 _ (AL.lookup_mem hl)
    exact ⟨this.1.2, this.2⟩
  · intro x l hl
    have := h2 _ (AL.lookup_mem hl)
    exact ⟨this.1.2, this.2⟩
  · intro x l hl
    have := h3 _ (AL.lookup_mem hl)
    exact ⟨this.1.2, this.2⟩
  · intro x l hl
    have := h4 _ (AL.lookup_mem hl)
    exact ⟨this.1.2, this.2⟩
  · intro x hx y hy
    have := (h5 x hx y hy).1
    rw [← this]
    simp
  · intro x hx y hy
    have := (h5 x hx y hy).2
    rw [← Bool.and_eq_true, ← this]
    simp

/-- what `vecOk` says about the range of the listed indexes -/
theorem vec_lt {s : Store} (hvec : s.vecOk = true) :
    (∀ (i : Nat) (row : List Adj), s.succVec[i]? = some row → ∀ a ∈ row, a.1 < s.nodesVec.length) ∧
    (∀ (i : Nat) (row : List Adj), s.predVec[i]? = some row → ∀ a ∈ row, a.1 < s.nodesVec.length) := by
  simp only [vecOk, Bool.and_eq_true, List.all_eq_true, decide_eq_true_eq] at hvec
  obtain ⟨hS, hP⟩ := hvec
  constructor
  · intro i row hrow a ha
    exact (hS (row, i) (List.mem_zipIdx_iff_getElem?.mpr hrow)).1 a ha
  · intro i row hrow a ha
    exact (hP (row, i) (List.mem_zipIdx_iff_getElem?.mpr hrow)).1 a ha


theorem flatEdges_ok (s : Store) (site : String) (keys : List (Nat × Nat))
    (h : ∀ k ∈ keys, (alookup s.edges k).isSome = true) : ∃ l, s.flatEdges site keys = .ok l := by
  unfold flatEdges
  exact Outcome.foldl_ok keys (fun k => (alookup s.edges k).isSome = true)
    (fun l k => match alookup s.edges k with | some es => .ok (l ++ es) | none => .panic site) [] h
    (by
      intro b a ha
      obtain ⟨es, hes⟩ := Option.isSome_iff_exists.mp ha
      exact ⟨b ++ es, by simp [hes]⟩)

theorem nodesByIndexes_ok {s : Store} (hn : NodesInv s) (site : String) (idxs : List Nat)
    (h : ∀ i ∈ idxs, i < s.nodesVec.length) : ∃ l, s.nodesByIndexes site idxs = .ok l := by
  unfold nodesByIndexes
  exact Outcome.foldl_ok idxs (fun i => i < s.nodesVec.length)
    (fun l i => match s.getNodeByIndex i with | some n => .ok (l ++ [n]) | none => .panic site) [] h
    (by
      intro b a ha
      have : s.getNodeByIndex a = some s.nodesVec[a] := by
        simp [getNodeByIndex, hn.rev_eq, ha]
      exact ⟨b ++ [s.nodesVec[a]], by simp [this]⟩)

theorem forAllNodes_ok {α} (s : Store) (site : String) (f : Nat → Option α)
    (h : ∀ n ∈ s.nodesVec, (f n.name).isSome = true) : ∃ l, s.forAllNodes site f = .ok l := by
  unfold forAllNodes
  exact Outcome.foldl_ok s.nodesVec (fun n => (f n.name).isSome = true)
    (fun l n => match f n.name with | some d => .ok (ainsert l n.name d) | none => .panic site) [] h
    (by
      intro b a ha
      obtain ⟨d, hd⟩ := Option.isSome_iff_exists.mp ha
      exact ⟨ainsert b a.name d, by simp [hd]⟩)



theorem hasEdge_lookup {s : Store} (he : EdgesInv s) {x y : Nat} (h : s.hasEdge x y = true) :
    (alookup s.edges (nameKey s.specs.directed x y)).isSome = true :=
  (exists_sameKey_iff he x y).mp ((hasEdge_iff s x y).mp h)

theorem hasNode_iff {s : Store} (hn : NodesInv s) (x : Nat) : s.hasNode x = true ↔ x ∈ s.names := by
  unfold hasNode getNode
  constructor
  · intro h
    cases hl : alookup s.nodesMap x with
    | none => simp [hl] at h
    | some i => exact (hn.mem_names_iff x).mpr ⟨i, hl⟩
  · intro h
    obtain ⟨i, hi⟩ := (hn.mem_names_iff x).mp h
    have := hn.lookup_lt hi
    simp [hi, getNodeByIndex, hn.rev_eq, this]

theorem getNode_isNone {s : Store} (hn : NodesInv s) {x : Nat} (hx : x ∈ s.names) : (s.getNode x).isNone = false := by
  have := (hasNode_iff hn x).mpr hx
  unfold hasNode at this
  cases h : s.getNode x <;> simp [h] at this ⊢

theorem setOf_getD {κ} [DecidableEq κ] (m : List (κ × List Nat)) (k : κ) : (alookup m k).getD [] = setOf m k := rfl

theorem getEdgesForNode_ok {s : Store} (hn : NodesInv s) (he : EdgesInv s) (hadj : s.adjOk = true) {x : Nat}
    (hx : x ∈ s.names) : ∃ l, s.getEdgesForNode x = .ok l := by
  have A := adjFacts hadj
  unfold getEdgesForNode
  rw [if_neg (by simp [getNode_isNone hn hx])]
  obtain ⟨pe, hpe⟩ := flatEdges_ok s "get_edges_for_node: edges.get(pred).unwrap()"
    (((alookup s.pred x).getD []).map fun p => (p, x)) (by
      intro k hk
      obtain ⟨p, hp, rfl⟩ := List.mem_map.mp hk
      have hpn : p ∈ s.names := by
        cases hl : alookup s.pred x with
        | none => simp [hl] at hp
        | some l => rw [hl] at hp; exact (A.pred_mem x l hl).2 p hp
      obtain ⟨hd, hE⟩ := (A.pred_iff x hx p hpn).mp hp
      have := hasEdge_lookup he hE
      simpa [nameKey, hd] using this)
  obtain ⟨se, hse⟩ := flatEdges_ok s "get_edges_for_node: edges.get(succ).unwrap()"
    (((alookup s.succ x).getD []).map fun q => if !s.specs.directed && x > q then (q, x) else (x, q)) (by
      intro k hk
      obtain ⟨q, hq, rfl⟩ := List.mem_map.mp hk
      have hqn : q ∈ s.names := by
        cases hl : alookup s.succ x with
        | none => simp [hl] at hq
        | some l => rw [hl] at hq; exact (A.succ_mem x l hl).2 q hq
      have hE := (A.succ_iff x hx q hqn).mp hq
      exact hasEdge_lookup he hE)
  exact ⟨pe ++ se, by simp only [hpe, hse]; rfl⟩

theorem getInEdgesForNode_ok {s : Store} (hn : NodesInv s) (he : EdgesInv s) (hadj : s.adjOk = true) {x : Nat}
    (hx : x ∈ s.names) (hd : s.specs.directed = true) : ∃ l, s.getInEdgesForNode x = .ok l := by
  have A := adjFacts hadj
  unfold getInEdgesForNode
  rw [if_neg (by simp [hd]), if_neg (by simp [getNode_isNone hn hx])]
  apply flatEdges_ok
  intro k hk
  obtain ⟨p, hp, rfl⟩ := List.mem_map.mp hk
  have hpn : p ∈ s.names := by
    cases hl : alookup s.pred x with
    | none => simp [hl] at hp
    | some l => rw [hl] at hp; exact (A.pred_mem x l hl).2 p hp
  obtain ⟨hd, hE⟩ := (A.pred_iff x hx p hpn).mp hp
  have := hasEdge_lookup he hE
  simpa [nameKey, hd] using this

theorem getOutEdgesForNode_ok {s : Store} (hn : NodesInv s) (he : EdgesInv s) (hadj : s.adjOk = true) {x : Nat}
    (hx : x ∈ s.names) (hd : s.specs.directed = true) : ∃ l, s.getOutEdgesForNode x = .ok l := by
  have A := adjFacts hadj
  unfold getOutEdgesForNode
  rw [if_neg (by simp [hd]), if_neg (by simp [getNode_isNone hn hx])]
  apply flatEdges_ok
  intro k hk
  obtain ⟨q, hq, rfl⟩ := List.mem_map.mp hk
  have hqn : q ∈ s.names := by
    cases hl : alookup s.succ x with
    | none => simp [hl] at hq
    | some l => rw [hl] at hq; exact (A.succ_mem x l hl).2 q hq
  have hE := (A.succ_iff x hx q hqn).mp hq
  have := hasEdge_lookup he hE
  simpa [nameKey, hd] using this


theorem mem_insertSorted {α} (le : α → α → Bool) (x y : α) (l : List α) :
    y ∈ insertSorted le x l ↔ y = x ∨ y ∈ l := by
  induction l with
  | nil => simp [insertSorted]
  | cons z l ih =>
    simp only [insertSorted]
    split
    · simp
    · simp [ih]; grind

theorem mem_isort {α} (le : α → α → Bool) (y : α) (l : List α) : y ∈ isort le l ↔ y ∈ l := by
  induction l with
  | nil => simp [isort]
  | cons x l ih =>
    have : isort le (x :: l) = insertSorted le x (isort le l) := rfl
    rw [this, mem_insertSorted, ih]; simp

theorem mem_dedupConsecutive {y : Nat} {l : List Nat} (h : y ∈ dedupConsecutive l) : y ∈ l := by
  fun_induction dedupConsecutive l with
  | case1 => exact h
  | case2 x => exact h
  | case3 x rest ih => exact List.mem_cons_of_mem _ (ih h)
  | case4 x y' rest hne ih =>
    rcases List.mem_cons.mp h with h | h
    · subst h; simp
    · exact List.mem_cons_of_mem _ (ih h)

theorem getNodeIndex_unwrap {s : Store} {x i : Nat} (site : String) (h : alookup s.nodesMap x = some i) :
    (s.getNodeIndex x).unwrap site = .ok i := by
  simp [getNodeIndex, h, Outcome.unwrap]

theorem getAdjNodes_ok {s : Store} (hn : NodesInv s) (m : List (Nat × List Nat))
    (hm : ∀ i l, alookup m i = some l → ∀ j ∈ l, j < s.nodesVec.length) {x : Nat} (hx : x ∈ s.names) :
    ∃ l, s.getAdjNodes m x = .ok l := by
  obtain ⟨i, hi⟩ := (hn.mem_names_iff x).mp hx
  unfold getAdjNodes
  rw [if_neg (by simp [(hn.acontains_iff x).mpr hx]), getNodeIndex_unwrap _ hi]
  show ∃ l, (match alookup m i with | none => .ok [] | some set => s.nodesByIndexes _ set) = Outcome.ok l
  cases hl : alookup m i with
  | none => exact ⟨[], rfl⟩
  | some set => exact nodesByIndexes_ok hn _ set (hm i set hl)

theorem getAdjNodes_absent {s : Store} (hn : NodesInv s) (m : List (Nat × List Nat)) {x : Nat} (hx : x ∉ s.names) :
    s.getAdjNodes m x = .err .NodeNotFound := by
  unfold getAdjNodes
  have : acontains s.nodesMap x = false := by
    cases h : acontains s.nodesMap x with
    | false => rfl
    | true => exact absurd ((hn.acontains_iff x).mp h) hx
  simp [this]

theorem getNeighborNodes_ok {s : Store} (hn : NodesInv s) (hvec : s.vecOk = true) {x : Nat} (hx : x ∈ s.names) :
    ∃ l, s.getNeighborNodes x = .ok l := by
  obtain ⟨i, hi⟩ := (hn.mem_names_iff x).mp hx
  have hlt := hn.lookup_lt hi
  obtain ⟨vS, vP⟩ := vec_lt hvec
  unfold getNeighborNodes
  rw [if_neg (by simp [(hn.acontains_iff x).mpr hx]), getNodeIndex_unwrap _ hi]
  obtain ⟨p, hp⟩ : ∃ p, s.predVec[i]? = some p :=
    ⟨_, List.getElem?_eq_getElem (by rw [hn.pred_len]; exact hlt)⟩
  obtain ⟨q, hq⟩ : ∃ q, s.succVec[i]? = some q :=
    ⟨_, List.getElem?_eq_getElem (by rw [hn.succ_len]; exact hlt)⟩
  show ∃ l, (match s.predVec[i]?, s.succVec[i]? with
    | some p, some q => s.nodesByIndexes _ (dedupConsecutive (sortNat ((p ++ q).map (·.1))))
    | _, _ => .panic _) = Outcome.ok l
  rw [hp, hq]
  apply nodesByIndexes_ok hn
  intro j hj
  have hj := mem_dedupConsecutive hj
  rw [sortNat, mem_isort] at hj
  obtain ⟨a, ha, rfl⟩ := List.mem_map.mp hj
  rcases List.mem_append.mp ha with ha | ha
  · exact vP i _ hp a ha
  · exact vS i _ hq a ha

theorem getNeighborNodes_absent {s : Store} (hn : NodesInv s) {x : Nat} (hx : x ∉ s.names) :
    s.getNeighborNodes x = .err .NodeNotFound := by
  unfold getNeighborNodes
  have : acontains s.nodesMap x = false := by
    cases h : acontains s.nodesMap x with
    | false => rfl
    | true => exact absurd ((hn.acontains_iff x).mp h) hx
  simp [this]


theorem emap_ne_nil {s : Store} (he : EdgesInv s) {k : Nat × Nat} (h : alookup s.edgesMap k = some []) : False := by
  obtain ⟨_, _, _, x, y, _, _, a4⟩ := he.emap_ok k [] h
  exact (he.edges_ok _ _ a4).1 rfl

theorem getEdgesForNode_absent {s : Store} (hn : NodesInv s) {x : Nat} (hx : x ∉ s.names) :
    s.getEdgesForNode x = .err .NodeNotFound := by
  have : s.hasNode x = false := by
    cases h : s.hasNode x with
    | false => rfl
    | true => exact absurd ((hasNode_iff hn x).mp h) hx
  unfold Store.hasNode at this
  unfold Store.getEdgesForNode
  cases hg : s.getNode x with
  | none => simp
  | some _ => simp [hg] at this

theorem getNode_none {s : Store} (hn : NodesInv s) {x : Nat} (hx : x ∉ s.names) : (s.getNode x).isNone = true := by
  have : s.hasNode x = false := by
    cases h : s.hasNode x with
    | false => rfl
    | true => exact absurd ((hasNode_iff hn x).mp h) hx
  unfold Store.hasNode at this
  cases hg : s.getNode x with
  | none => rfl
  | some _ => simp [hg] at this

end NP
end Graphrs
