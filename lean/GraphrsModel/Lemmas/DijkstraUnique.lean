/-
  Every stored path list of `dijkstra` is duplicate-free, provided no two parallel arcs `v → u` (`v ≠ u`) share the
  *minimal* cost (strictly positive costs, no cutoff, `first_only = false`).
  Invariant: every stored path `q ++ [u]` of `u` is justified by a tight arc `(last q, u, m)` that is no longer pending.
-/
import GraphrsModel.Lemmas.DijkstraComplete
namespace Graphrs

/-- the stored path `p` of `u` is `[src]`, or an extension along a tight arc out of a finalised node whose copies
    have all been relaxed -/
def Just (A : Arcs) (src : Nat) (pend : Arcs) (dist seen : List (Option Int)) (u : Nat) (p : List Nat) : Prop :=
  (u = src ∧ p = [src]) ∨
  ∃ q v' dv' m, p = q ++ [u] ∧ q.getLast? = some v' ∧ lk dist v' = some dv' ∧ (v', u, m) ∈ A ∧
    lk seen u = some (dv' + m) ∧ (v', u, m) ∉ pend

theorem Just.mono {A : Arcs} {src : Nat} {pend pend' : Arcs} {dist dist' seen seen' : List (Option Int)} {u : Nat}
    {p : List Nat} (h : Just A src pend dist seen u p)
    (hd : ∀ x dx, lk dist x = some dx → lk dist' x = some dx ∧ ∀ m, (x, u, m) ∈ pend' → (x, u, m) ∈ pend)
    (hs : lk seen' u = lk seen u) : Just A src pend' dist' seen' u p := by
  rcases h with h | ⟨q, v', dv', m, h1, h2, h3, h4, h5, h6⟩
  · exact Or.inl h
  · obtain ⟨h7, h8⟩ := hd v' dv' h3
    exact Or.inr ⟨q, v', dv', m, h1, h2, h7, h4, by rw [hs]; exact h5, fun hm => h6 (h8 m hm)⟩

structure UInv (A : Arcs) (src n v : Nat) (d : Int) (pend : Arcs) (dist seen : List (Option Int))
    (paths : List (List (List Nat))) : Prop where
  plen : paths.length = n
  good : ∀ u, Tmp v d pend seen u ∨ ((pth paths u).Nodup ∧ ∀ p ∈ pth paths u, Just A src pend dist seen u p)
  cnt : ∀ x, pend.count x ≤ A.count x

structure UInvB (A : Arcs) (src n : Nat) (dist seen : List (Option Int)) (paths : List (List (List Nat))) : Prop where
  plen : paths.length = n
  good : ∀ u, (pth paths u).Nodup ∧ ∀ p ∈ pth paths u, Just A src [] dist seen u p

theorem pth_replicate (n u : Nat) : pth (List.replicate n ([] : List (List Nat))) u = [] := by
  unfold pth
  by_cases h : u < n
  · simp [h]
  · simp [h]

theorem UInvB.init (A : Arcs) (src n : Nat) (dist seen : List (Option Int)) :
    UInvB A src n dist seen ((List.replicate n []).set src [[src]]) where
  plen := by simp
  good := by
    intro u
    by_cases e : src = u
    · subst e
      by_cases hn : src < n
      · rw [pth_set_self _ (by simpa using hn)]
        refine ⟨by simp, ?_⟩
        intro p hp
        simp at hp; subst hp
        exact Or.inl ⟨rfl, rfl⟩
      · have : (List.replicate n ([] : List (List Nat))).set src [[src]] = List.replicate n [] := by
          apply List.set_eq_of_length_le; simp; omega
        rw [this, pth_replicate]
        exact ⟨List.nodup_nil, fun p hp => by simp at hp⟩
    · rw [pth_set_ne _ e, pth_replicate]
      exact ⟨List.nodup_nil, fun p hp => by simp at hp⟩

theorem UInvB.enter {A : Arcs} {src n : Nat} {dist seen : List (Option Int)} {paths : List (List (List Nat))}
    (U : UInvB A src n dist seen paths) (v : Nat) (d : Int) (pend : Arcs) (hv : lk dist v = none)
    (hp2 : ∀ a ∈ pend, a.1 = v) (hcnt : ∀ x, pend.count x ≤ A.count x) :
    UInv A src n v d pend (dist.set v (some d)) seen paths where
  plen := U.plen
  cnt := hcnt
  good := by
    intro u
    obtain ⟨h1, h2⟩ := U.good u
    refine Or.inr ⟨h1, fun p hp => (h2 p hp).mono ?_ rfl⟩
    intro x dx hx
    have hne : v ≠ x := by intro e; subst e; rw [hv] at hx; cases hx
    refine ⟨by rw [lk_set_ne _ _ _ _ hne]; exact hx, fun m hm => ?_⟩
    exact absurd (hp2 _ hm).symm hne

theorem UInv.exit {A : Arcs} {src n v : Nat} {d : Int} {dist seen : List (Option Int)} {paths : List (List (List Nat))}
    (U : UInv A src n v d [] dist seen paths) : UInvB A src n dist seen paths where
  plen := U.plen
  good := by
    intro u
    rcases U.good u with h | h
    · exact absurd h Tmp.nil
    · exact h

theorem UInv.skip {A : Arcs} {src n v : Nat} {d : Int} {pend : Arcs} {dist seen : List (Option Int)}
    {paths : List (List (List Nat))} {u : Nat} {c su : Int}
    (U : UInv A src n v d ((v, u, c) :: pend) dist seen paths)
    (hs : lk seen u = some su) (hlt : su < d + c) :
    UInv A src n v d pend dist seen paths where
  plen := U.plen
  cnt := fun x => Nat.le_trans List.count_le_count_cons (U.cnt x)
  good := by
    intro x
    rcases U.good x with h | ⟨h1, h2⟩
    · refine Or.inl (h.tail ?_)
      intro _ k hk
      rw [hs] at hk; cases hk; omega
    · exact Or.inr ⟨h1, fun p hp => (h2 p hp).mono (fun y dy hy => ⟨hy, fun m hm => List.mem_cons_of_mem _ hm⟩) rfl⟩

/-- at a push through the head arc `(v, u, c)`: either a strictly cheaper copy is still pending, or no further copy
    of the head arc is -/
theorem push_uniq {A : Arcs} {src n v : Nat} {d : Int} {pend : Arcs} {dist seen seen' : List (Option Int)}
    {fr : List FNode} {u : Nat} {c : Int}
    (hpar : ∀ v u m, v ≠ u → minArc A v u = some m → A.count (v, u, m) ≤ 1)
    (R : RowInv A src n none v d ((v, u, c) :: pend) dist seen fr)
    (hcnt : ∀ x, ((v, u, c) :: pend).count x ≤ A.count x)
    (hvu : v ≠ u) (hdec : ∀ su, lk seen u = some su → d + c ≤ su) (hs2 : lk seen' u = some (d + c)) :
    Tmp v d pend seen' u ∨ (v, u, c) ∉ pend := by
  have harc : (v, u, c) ∈ A := R.pendA _ (List.mem_cons_self ..)
  obtain ⟨m, hm1, hm2, hm3⟩ := minArc_spec harc
  by_cases e : m = c
  · subst e
    right
    have h1 := hcnt (v, u, m)
    have h2 := hpar v u m hvu hm1
    rw [List.count_cons_self] at h1
    have : pend.count (v, u, m) = 0 := by omega
    exact List.count_eq_zero.1 this
  · left
    rcases R.closed v d R.hv u m hm2 with h | h | ⟨k, hk, hle⟩
    · simp only [List.mem_cons, Prod.mk.injEq] at h
      rcases h with ⟨_, _, e3⟩ | h
      · exact absurd e3 e
      · exact ⟨d + c, m, hs2, h, by omega⟩
    · cases h
    · have := hdec k hk
      omega

theorem nodup_map_snoc {l : List (List Nat)} (h : l.Nodup) (u : Nat) : (l.map (· ++ [u])).Nodup :=
  List.Pairwise.map _ (fun _ _ hab e => hab (List.append_cancel_right e)) h

theorem UInv.push_lt {A : Arcs} {src n v : Nat} {d : Int} {pend : Arcs} {st : DState} {u : Nat} {c : Int}
    (hA : ArcsWf A n) (hpar : ∀ v u m, v ≠ u → minArc A v u = some m → A.count (v, u, m) ≤ 1)
    (R : RowInv A src n none v d ((v, u, c) :: pend) st.dist st.seen st.fringe)
    (P : PInv A src none v d ((v, u, c) :: pend) st.seen st.paths)
    (U : UInv A src n v d ((v, u, c) :: pend) st.dist st.seen st.paths)
    (hd : lk st.dist u = none) (hlt : ∀ su, lk st.seen u = some su → d + c < su) :
    UInv A src n v d pend (pushLt true v u (d + c) st).dist (pushLt true v u (d + c) st).seen
      (pushLt true v u (d + c) st).paths := by
  have harc : (v, u, c) ∈ A := R.pendA _ (List.mem_cons_self ..)
  have hun : u < n := (hA _ harc).1
  have hvu : v ≠ u := by intro e; subst e; rw [R.hv] at hd; cases hd
  have hsu : lk (st.seen.set u (some (d + c))) u = some (d + c) := lk_set_self _ _ _ (by rw [R.lseen]; exact hun)
  have hkey := push_uniq hpar R U.cnt hvu (fun su h => Int.le_of_lt (hlt su h)) hsu
  have hvgood : (pth st.paths v).Nodup := by
    rcases U.good v with ⟨k, c', hk, hm, hl⟩ | h
    · have := R.distSeen v d R.hv
      rw [hk] at this; cases this
      have := (hA _ (R.pendA _ hm)).2
      simp only at this
      omega
    · exact h.1
  simp only [pushLt, if_true]
  refine ⟨by simp [U.plen], ?_, fun x => Nat.le_trans List.count_le_count_cons (U.cnt x)⟩
  intro x
  by_cases hx : x = u
  · subst hx
    rcases hkey with ht | hn
    · exact Or.inl ht
    · right
      rw [pth_set_self _ (by rw [U.plen]; exact hun)]
      refine ⟨nodup_map_snoc hvgood _, ?_⟩
      intro p hp
      rw [List.mem_map] at hp
      obtain ⟨q, hq, e⟩ := hp
      subst e
      obtain ⟨_, _, _, ⟨_, hq2, _⟩, _⟩ := P v q hq
      exact Or.inr ⟨q, v, d, c, rfl, hq2, R.hv, harc, hsu, hn⟩
  · have hseen : lk (st.seen.set u (some (d + c))) x = lk st.seen x := lk_set_ne _ _ _ _ (fun e => hx e.symm)
    rw [pth_set_ne _ (fun e => hx e.symm)]
    rcases U.good x with h | ⟨h1, h2⟩
    · exact Or.inl (h.other hx hseen)
    · exact Or.inr ⟨h1, fun p hp => (h2 p hp).mono (fun y dy hy => ⟨hy, fun m hm => List.mem_cons_of_mem _ hm⟩) hseen⟩

theorem UInv.push_eq {A : Arcs} {src n v : Nat} {d : Int} {pend : Arcs} {st : DState} {u : Nat} {c : Int}
    (hA : ArcsWf A n) (hpar : ∀ v u m, v ≠ u → minArc A v u = some m → A.count (v, u, m) ≤ 1)
    (R : RowInv A src n none v d ((v, u, c) :: pend) st.dist st.seen st.fringe)
    (P : PInv A src none v d ((v, u, c) :: pend) st.seen st.paths)
    (U : UInv A src n v d ((v, u, c) :: pend) st.dist st.seen st.paths)
    (hd : lk st.dist u = none) (hs : lk st.seen u = some (d + c)) :
    UInv A src n v d pend (pushEq true v u (d + c) st).dist (pushEq true v u (d + c) st).seen
      (pushEq true v u (d + c) st).paths := by
  have harc : (v, u, c) ∈ A := R.pendA _ (List.mem_cons_self ..)
  have hun : u < n := (hA _ harc).1
  have hvu : v ≠ u := by intro e; subst e; rw [R.hv] at hd; cases hd
  have hkey := push_uniq hpar R U.cnt hvu (fun su h => by rw [hs] at h; cases h; exact Int.le_refl _) hs
  have hvgood : (pth st.paths v).Nodup := by
    rcases U.good v with ⟨k, c', hk, hm, hl⟩ | h
    · have := R.distSeen v d R.hv
      rw [hk] at this; cases this
      have := (hA _ (R.pendA _ hm)).2
      simp only at this
      omega
    · exact h.1
  have hlast : ∀ q ∈ pth st.paths v, q.getLast? = some v := by
    intro q hq
    obtain ⟨_, _, _, ⟨_, hq2, _⟩, _⟩ := P v q hq
    exact hq2
  simp only [pushEq, if_true]
  refine ⟨by simp [U.plen], ?_, fun x => Nat.le_trans List.count_le_count_cons (U.cnt x)⟩
  intro x
  by_cases hx : x = u
  · subst hx
    rcases U.good x with h | ⟨h1, h2⟩
    · refine Or.inl (h.tail ?_)
      intro _ k hk
      rw [hs] at hk; cases hk; exact Int.le_refl _
    · rcases hkey with ht | hn
      · exact Or.inl ht
      · right
        rw [pth_set_self _ (by rw [U.plen]; exact hun)]
        refine ⟨?_, ?_⟩
        · rw [List.nodup_append]
          refine ⟨h1, nodup_map_snoc hvgood _, ?_⟩
          intro a ha b hb e
          subst e
          rw [List.mem_map] at hb
          obtain ⟨q, hq, e⟩ := hb
          have hql := hlast q hq
          rcases h2 a ha with ⟨_, e2⟩ | ⟨q', v', dv', m, e1, e2, e3, e4, e5, e6⟩
          · rw [e2] at e
            have : q = [] := by
              cases q with
              | nil => rfl
              | cons y ys => cases ys <;> simp at e
            subst this
            simp at hql
          · rw [e1] at e
            have : q = q' := List.append_cancel_right e
            subst this
            rw [hql] at e2; cases e2
            rw [R.hv] at e3; cases e3
            rw [hs] at e5
            have : c = m := by have := Option.some.inj e5; omega
            subst this
            exact e6 (List.mem_cons_self ..)
        · intro p hp
          rw [List.mem_append] at hp
          rcases hp with hp | hp
          · exact (h2 p hp).mono (fun y dy hy => ⟨hy, fun m hm => List.mem_cons_of_mem _ hm⟩) rfl
          · rw [List.mem_map] at hp
            obtain ⟨q, hq, e⟩ := hp
            subst e
            exact Or.inr ⟨q, v, d, c, rfl, hlast q hq, R.hv, harc, hs, hn⟩
  · rw [pth_set_ne _ (fun e => hx e.symm)]
    rcases U.good x with h | ⟨h1, h2⟩
    · exact Or.inl (h.other hx rfl)
    · exact Or.inr ⟨h1, fun p hp => (h2 p hp).mono (fun y dy hy => ⟨hy, fun m hm => List.mem_cons_of_mem _ hm⟩) rfl⟩

/-- the uniqueness invariant is preserved by the loop -/
theorem dijkstraLoop_unique {A : Arcs} {src n : Nat} {weighted : Bool}
    (rows : List (List Adj)) (hA : ArcsWf A n) (hpos : ∀ a ∈ A, 0 < a.2.2)
    (hpar : ∀ v u m, v ≠ u → minArc A v u = some m → A.count (v, u, m) ≤ 1)
    (hrows : RowsOk A weighted rows)
    (hcnt : ∀ v x, (rowArcs weighted v (rows[v]?.getD [])).count x ≤ A.count x)
    (fuel : Nat) (st st' : DState)
    (I : Inv A src n none [] st.dist st.seen st.fringe)
    (P : PInvB A src st.seen st.paths)
    (U : UInvB A src n st.dist st.seen st.paths)
    (h : dijkstraLoop (fun v => rows[v]?.getD []) weighted none none false true fuel st = .ok st') :
    UInvB A src n st'.dist st'.seen st'.paths := by
  have := dijkstraLoop_generic (A := A) (src := src) (n := n) (weighted := weighted) (cut := none) (firstOnly := false)
    (withPaths := true) (target := none) rows hA hrows
    (fun st => PInvB A src st.seen st.paths ∧ UInvB A src n st.dist st.seen st.paths)
    (fun v d pend st => PInv A src none v d pend st.seen st.paths ∧ UInv A src n v d pend st.dist st.seen st.paths)
    (fun st b J => J)
    (fun st d cnt v _ J _ _ hv => ⟨J.1.toPInv, J.2.enter v d _ hv (fun a ha => rowArcs_src a ha) (hcnt v)⟩)
    ?_
    (fun v d st _ J => ⟨J.1.toPInvB, J.2.exit⟩)
    fuel st st' I ⟨P, U⟩ h
  · rcases this with h | ⟨_, _, h, _⟩
    · exact h.2
    · cases h
  · intro v d st st' a row R ⟨JP, J⟩ e
    obtain ⟨st1, e1, _, P1⟩ := relaxFull_row_paths (firstOnly := false) hA st a row R JP
    rw [e] at e1
    cases e1
    refine ⟨P1, ?_⟩
    obtain ⟨u, w⟩ := a
    rcases relaxFull_cases_pos (withPaths := true) hpos st u w row R with
      ⟨hc, h⟩ | ⟨c, hc, ⟨su, hs, hlt, h⟩ | ⟨hd, hlt, h⟩ | ⟨hd, hs, h⟩⟩
    · rw [h] at e; cases e
      rw [rowArcs_cons_none (by simpa using hc)] at J
      exact J
    · rw [h] at e; cases e
      rw [rowArcs_cons_some (by simpa using hc)] at J
      exact J.skip hs hlt
    · rw [h] at e; cases e
      rw [rowArcs_cons_some (by simpa using hc)] at J R JP
      exact J.push_lt hA hpar R JP hd hlt
    · rw [h] at e; cases e
      rw [rowArcs_cons_some (by simpa using hc)] at J R JP
      exact J.push_eq hA hpar R JP hd hs

end Graphrs
