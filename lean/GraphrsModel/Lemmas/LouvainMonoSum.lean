/-
  Lemmas for Props/C13Monotone.lean, part 1 (pure algebra over edge lists, no store):
  the weighted edge functional `wsum es f = Σ_e w_e · f(e.u, e.v)`, the per-community quantities of the
  modularity written with it, and the modularity of a list of communities `Qlist`.
-/
import GraphrsModel.Lemmas.LouvainTermAlg
import GraphrsModel.Props.C13Termination
namespace Graphrs
open LouvainFull
namespace LM

/-- `Σ_e w_e · f(e.u, e.v)` (a NaN weight counts 0; the users below exclude NaN) -/
def wsum (es : List Edge) (f : Nat → Nat → Rat) : Rat := (es.map fun e => ratW e.w * f e.u e.v).sum

theorem wsum_nil (f : Nat → Nat → Rat) : wsum [] f = 0 := rfl

theorem wsum_cons (e : Edge) (es : List Edge) (f : Nat → Nat → Rat) :
    wsum (e :: es) f = ratW e.w * f e.u e.v + wsum es f := by
  simp [wsum]

theorem wsum_append (l1 l2 : List Edge) (f : Nat → Nat → Rat) : wsum (l1 ++ l2) f = wsum l1 f + wsum l2 f := by
  simp [wsum]

theorem wsum_perm {l1 l2 : List Edge} (p : l1.Perm l2) (f : Nat → Nat → Rat) : wsum l1 f = wsum l2 f := by
  unfold wsum
  exact (p.map _).sum_eq

theorem wsum_congr {es : List Edge} {f g : Nat → Nat → Rat} (h : ∀ e ∈ es, f e.u e.v = g e.u e.v) :
    wsum es f = wsum es g := by
  unfold wsum
  congr 1
  apply List.map_congr_left
  intro e he
  rw [h e he]

theorem wsum_add (es : List Edge) (f g : Nat → Nat → Rat) :
    wsum es (fun u v => f u v + g u v) = wsum es f + wsum es g := by
  induction es with
  | nil => simp [wsum]
  | cons e es ih => rw [wsum_cons, wsum_cons, wsum_cons, ih]; ring

theorem wsum_zero (es : List Edge) : wsum es (fun _ _ => 0) = 0 := by
  induction es with
  | nil => rfl
  | cons e es ih => rw [wsum_cons, ih]; ring

theorem wsum_finset (es : List Edge) {ι : Type} (s : Finset ι) (f : ι → Nat → Nat → Rat) :
    wsum es (fun u v => ∑ i ∈ s, f i u v) = ∑ i ∈ s, wsum es (f i) := by
  induction es with
  | nil => simp [wsum]
  | cons e es ih =>
    simp only [wsum_cons]
    rw [ih, Finset.sum_add_distrib, Finset.mul_sum]

theorem wsum_ite_const (es : List Edge) (p : Prop) [Decidable p] (f : Nat → Nat → Rat) :
    wsum es (fun u v => if p then f u v else 0) = if p then wsum es f else 0 := by
  by_cases h : p
  · simp only [h, if_true]
  · simp only [h, if_false]; exact wsum_zero es

/-- the map of `(l.map g)` under `wsum` -/
theorem wsum_map (l : List Edge) (g : Edge → Edge) (f : Nat → Nat → Rat) :
    wsum (l.map g) f = (l.map fun e => ratW (g e).w * f (g e).u (g e).v).sum := by
  unfold wsum
  rw [List.map_map]
  rfl

/-! ### indicator functions -/

/-- both endpoints in community `c` of assignment `a` -/
def indL (a : Nat → Nat) (c : Nat) : Nat → Nat → Rat := fun u v => if a u = c ∧ a v = c then 1 else 0
/-- source in community `c` -/
def indO (a : Nat → Nat) (c : Nat) : Nat → Nat → Rat := fun u _ => if a u = c then 1 else 0
/-- target in community `c` -/
def indI (a : Nat → Nat) (c : Nat) : Nat → Nat → Rat := fun _ v => if a v = c then 1 else 0
/-- endpoints in community `c`, counted with multiplicity -/
def indD (a : Nat → Nat) (c : Nat) : Nat → Nat → Rat := fun u v => indO a c u v + indI a c u v

theorem indL_symm (a : Nat → Nat) (c u v : Nat) : indL a c u v = indL a c v u := by
  unfold indL
  exact if_congr and_comm rfl rfl

theorem indD_symm (a : Nat → Nat) (c u v : Nat) : indD a c u v = indD a c v u := by
  unfold indD indO indI
  ring

theorem Lc_eq_wsum (es : List Edge) (a : Nat → Nat) (c : Nat) : LT.Lc es a c = wsum es (indL a c) := by
  unfold LT.Lc wsum indL
  congr 1
  apply List.map_congr_left
  intro e _
  split <;> ring

/-! ### degrees as edge sums -/

/-- weighted degree of `x` (a self-loop counts twice) -/
def degE (es : List Edge) (x : Nat) : Rat := wsum es (fun u v => (if u = x then 1 else 0) + (if v = x then 1 else 0))
def outE (es : List Edge) (x : Nat) : Rat := wsum es (fun u _ => if u = x then 1 else 0)
def inE (es : List Edge) (x : Nat) : Rat := wsum es (fun _ v => if v = x then 1 else 0)

theorem sum_range_ite_eq (k : Nat) (a : Nat → Nat) (c u : Nat) (hu : u < k) :
    (∑ x ∈ Finset.range k, if a x = c then (if u = x then (1 : Rat) else 0) else 0) = if a u = c then 1 else 0 := by
  have : ∀ x ∈ Finset.range k, (if a x = c then (if u = x then (1 : Rat) else 0) else 0)
      = if u = x then (if a u = c then (1 : Rat) else 0) else 0 := by
    intro x _
    by_cases h : u = x
    · subst h; simp
    · simp [h]
  rw [Finset.sum_congr rfl this, Finset.sum_ite_eq (Finset.range k) u, if_pos (Finset.mem_range.2 hu)]

theorem csum_outE (es : List Edge) (k : Nat) (hes : ∀ e ∈ es, e.u < k ∧ e.v < k) (a : Nat → Nat) (c : Nat) :
    LT.csum k a (outE es) c = wsum es (indO a c) := by
  unfold LT.csum outE
  have h1 : ∀ x ∈ Finset.range k, (if a x = c then wsum es (fun u _ => if u = x then (1 : Rat) else 0) else 0)
      = wsum es (fun u _ => if a x = c then (if u = x then (1 : Rat) else 0) else 0) := by
    intro x _
    rw [wsum_ite_const]
  rw [Finset.sum_congr rfl h1, ← wsum_finset]
  apply wsum_congr
  intro e he
  exact sum_range_ite_eq k a c e.u (hes e he).1

theorem csum_inE (es : List Edge) (k : Nat) (hes : ∀ e ∈ es, e.u < k ∧ e.v < k) (a : Nat → Nat) (c : Nat) :
    LT.csum k a (inE es) c = wsum es (indI a c) := by
  unfold LT.csum inE
  have h1 : ∀ x ∈ Finset.range k, (if a x = c then wsum es (fun _ v => if v = x then (1 : Rat) else 0) else 0)
      = wsum es (fun _ v => if a x = c then (if v = x then (1 : Rat) else 0) else 0) := by
    intro x _
    rw [wsum_ite_const]
  rw [Finset.sum_congr rfl h1, ← wsum_finset]
  apply wsum_congr
  intro e he
  exact sum_range_ite_eq k a c e.v (hes e he).2

theorem degE_eq (es : List Edge) (x : Nat) : degE es x = outE es x + inE es x := by
  unfold degE outE inE
  rw [← wsum_add]

theorem csum_add (k : Nat) (a : Nat → Nat) (p q : Nat → Rat) (c : Nat) :
    LT.csum k a (fun x => p x + q x) c = LT.csum k a p c + LT.csum k a q c := by
  unfold LT.csum
  rw [← Finset.sum_add_distrib]
  apply Finset.sum_congr rfl
  intro x _
  split <;> ring

theorem csum_degE (es : List Edge) (k : Nat) (hes : ∀ e ∈ es, e.u < k ∧ e.v < k) (a : Nat → Nat) (c : Nat) :
    LT.csum k a (degE es) c = wsum es (indD a c) := by
  have : degE es = fun x => outE es x + inE es x := funext (degE_eq es)
  rw [this, csum_add, csum_outE es k hes, csum_inE es k hes]
  unfold indD
  rw [wsum_add]

theorem csum_congr_fun {k : Nat} (a : Nat → Nat) {p q : Nat → Rat} (h : ∀ x, x < k → p x = q x) (c : Nat) :
    LT.csum k a p c = LT.csum k a q c := by
  unfold LT.csum
  apply Finset.sum_congr rfl
  intro x hx
  rw [h x (Finset.mem_range.1 hx)]

/-! ### the modularity term of one community, as a function of three edge sums -/

/-- `L/m − γ·O·I/m²` (directed) resp. `L/m − γ·((O+I)/2m)²` (undirected) -/
def term (dir : Bool) (m res L O I : Rat) : Rat :=
  if dir then Louvain.termDirected m res L O I else Louvain.termUndirected m res L (O + I)

theorem term_zero (dir : Bool) (m res : Rat) : term dir m res 0 0 0 = 0 := by
  unfold term Louvain.termDirected Louvain.termUndirected
  split <;> simp

/-- membership indicators of a list of nodes -/
def inL (p : List Nat) : Nat → Nat → Rat := fun u v => if u ∈ p ∧ v ∈ p then 1 else 0
def inO (p : List Nat) : Nat → Nat → Rat := fun u _ => if u ∈ p then 1 else 0
def inI (p : List Nat) : Nat → Nat → Rat := fun _ v => if v ∈ p then 1 else 0

/-- the modularity term of the community `p` (a list of nodes) on the edge list `es` -/
def T (dir : Bool) (es : List Edge) (m res : Rat) (p : List Nat) : Rat :=
  term dir m res (wsum es (inL p)) (wsum es (inO p)) (wsum es (inI p))

theorem T_nil (dir : Bool) (es : List Edge) (m res : Rat) : T dir es m res [] = 0 := by
  unfold T inL inO inI
  simp only [List.not_mem_nil, false_and, if_false]
  rw [wsum_zero]
  exact term_zero dir m res

/-- the modularity of a list of communities: the sum of their terms -/
def Qlist (dir : Bool) (es : List Edge) (m res : Rat) (P : List (List Nat)) : Rat :=
  (P.map (T dir es m res)).sum

theorem Qlist_filter (dir : Bool) (es : List Edge) (m res : Rat) (P : List (List Nat)) :
    Qlist dir es m res (P.filter (!·.isEmpty)) = Qlist dir es m res P := by
  unfold Qlist
  induction P with
  | nil => rfl
  | cons p P ih =>
    cases p with
    | nil => simp only [List.filter_cons, List.isEmpty_nil, Bool.not_true, Bool.false_eq_true, if_false, List.map_cons,
        List.sum_cons, T_nil, zero_add]; exact ih
    | cons x xs => simp only [List.filter_cons, List.isEmpty_cons, Bool.not_false, if_true, List.map_cons, List.sum_cons, ih]

theorem sum_map_range {α : Type} (l : List α) (d : α) (f : α → Rat) :
    (l.map f).sum = ∑ i ∈ Finset.range l.length, f (l[i]?.getD d) := by
  induction l with
  | nil => simp
  | cons x l ih =>
    rw [List.map_cons, List.sum_cons, List.length_cons, Finset.sum_range_succ', ih]
    simp only [List.getElem?_cons_succ, List.getElem?_cons_zero, Option.getD_some]
    ring

theorem Qlist_range (dir : Bool) (es : List Edge) (m res : Rat) (P : List (List Nat)) :
    Qlist dir es m res P = ∑ c ∈ Finset.range P.length, T dir es m res (P[c]?.getD []) :=
  sum_map_range P [] _

/-- the modularity of the assignment `a` of the nodes of `es` to community ids `< k` -/
def Qasg (dir : Bool) (es : List Edge) (k : Nat) (m res : Rat) (a : Nat → Nat) : Rat :=
  ∑ c ∈ Finset.range k, term dir m res (wsum es (indL a c)) (wsum es (indO a c)) (wsum es (indI a c))

end LM
end Graphrs
