/-
  Stage 2 of C05 (Brandes): `accumulate` of betweenness.rs as an explicit recursion (`dlt`, `bcAdd`), and the
  dependency recursion  delta(v) = Σ_{w : v ∈ P(w)} sigma(v)/sigma(w) · (1 + delta(w))  it computes when `S` is
  ordered by level.
-/
import GraphrsModel.Model.Centrality
import GraphrsModel.Lemmas.BcSum
import Mathlib.Tactic.FieldSimp
namespace Graphrs
namespace Bc

/-- the dependency array after the nodes of `W` have been popped (head = popped last) -/
def dlt (P : Nat → List Nat) (σ : Nat → Rat) : List Nat → Nat → Rat
  | [], _ => 0
  | w :: W, v => dlt P σ W v + (if v ∈ P w then σ v * ((1 + dlt P σ W w) / σ w) else 0)

/-- what has been added to `bc` after the nodes of `W` have been popped -/
def bcAdd (P : Nat → List Nat) (σ : Nat → Rat) (source : Nat) : List Nat → Nat → Rat
  | [], _ => 0
  | w :: W, x => bcAdd P σ source W x + (if x = w ∧ w ≠ source then dlt P σ (w :: W) w else 0)

/-- the body of the `while let Some(w) = S.pop()` loop -/
def accStep (r : SSR) (acc : List Rat × List Rat) (w : Nat) : List Rat × List Rat :=
  let (bc, delta) := acc
  let coeff := (1 + getD0 delta w) / getD0 r.sigma w
  let delta := (r.P[w]?.getD []).foldl (fun delta v => delta.set v (getD0 delta v + getD0 r.sigma v * coeff)) delta
  let bc := if w != r.source then bc.set w (getD0 bc w + getD0 delta w) else bc
  (bc, delta)

theorem accumulate_eq (bc : List Rat) (r : SSR) :
    accumulate bc r = (r.S.reverse.foldl (accStep r) (bc, List.replicate bc.length (0 : Rat))).1 := by
  rfl

private theorem getD0_set_self' (l : List Rat) (w : Nat) (x : Rat) (h : w < l.length) : getD0 (l.set w x) w = x := by
  simp [getD0, h]

private theorem getD0_set_ne' (l : List Rat) (w w' : Nat) (x : Rat) (h : w ≠ w') : getD0 (l.set w x) w' = getD0 l w' := by
  simp [getD0, List.getElem?_set_ne h]

/-- the inner `for v in P[w]` loop -/
theorem inner_fold (g : Nat → Rat) : ∀ (L : List Nat) (delta : List Rat), L.Nodup → (∀ v ∈ L, v < delta.length) →
    (L.foldl (fun delta v => delta.set v (getD0 delta v + g v)) delta).length = delta.length ∧
    ∀ x, getD0 (L.foldl (fun delta v => delta.set v (getD0 delta v + g v)) delta) x =
      getD0 delta x + (if x ∈ L then g x else 0) := by
  intro L
  induction L with
  | nil => intro delta _ _; simp
  | cons a L ih =>
    intro delta hnd hlt
    rw [List.nodup_cons] at hnd
    rw [List.foldl_cons]
    have hlen : (delta.set a (getD0 delta a + g a)).length = delta.length := List.length_set ..
    obtain ⟨h1, h2⟩ := ih (delta.set a (getD0 delta a + g a)) hnd.2
      (fun v hv => by rw [hlen]; exact hlt v (List.mem_cons_of_mem _ hv))
    refine ⟨by rw [h1, hlen], fun x => ?_⟩
    rw [h2 x]
    by_cases e : a = x
    · subst e
      rw [getD0_set_self' _ _ _ (hlt a (List.mem_cons_self ..))]
      simp [hnd.1]
    · rw [getD0_set_ne' _ _ _ _ e]
      have : ¬ x = a := fun e' => e e'.symm
      simp [this]

section fold
variable (r : SSR) (n : Nat)

/-- one pop preserves "`delta` = `dlt W`, `bc` = `bc0 + bcAdd W`" -/
theorem accStep_inv (bc0 : List Rat) (W : List Nat) (bc delta : List Rat) (w : Nat)
    (hlb : bc.length = n) (hld : delta.length = n) (hwn : w < n)
    (hPnd : (r.P[w]?.getD []).Nodup) (hPlt : ∀ v ∈ r.P[w]?.getD [], v < n)
    (hd : ∀ x, x < n → getD0 delta x = dlt (fun w => r.P[w]?.getD []) (getD0 r.sigma) W x)
    (hb : ∀ x, x < n → getD0 bc x = getD0 bc0 x + bcAdd (fun w => r.P[w]?.getD []) (getD0 r.sigma) r.source W x) :
    (accStep r (bc, delta) w).1.length = n ∧ (accStep r (bc, delta) w).2.length = n ∧
    (∀ x, x < n → getD0 (accStep r (bc, delta) w).2 x = dlt (fun w => r.P[w]?.getD []) (getD0 r.sigma) (w :: W) x) ∧
    (∀ x, x < n → getD0 (accStep r (bc, delta) w).1 x =
      getD0 bc0 x + bcAdd (fun w => r.P[w]?.getD []) (getD0 r.sigma) r.source (w :: W) x) := by
  let g : Nat → Rat := fun v => getD0 r.sigma v * ((1 + getD0 delta w) / getD0 r.sigma w)
  let delta' := (r.P[w]?.getD []).foldl (fun d v => d.set v (getD0 d v + g v)) delta
  have hstep : accStep r (bc, delta) w =
      (if w != r.source then bc.set w (getD0 bc w + getD0 delta' w) else bc, delta') := rfl
  obtain ⟨h1, h2⟩ := inner_fold g (r.P[w]?.getD []) delta hPnd (fun v hv => by rw [hld]; exact hPlt v hv)
  have hdelta : ∀ x, x < n → getD0 delta' x = dlt (fun w => r.P[w]?.getD []) (getD0 r.sigma) (w :: W) x := by
    intro x hx
    have := h2 x
    rw [this, hd x hx]
    show _ + (if x ∈ r.P[w]?.getD [] then getD0 r.sigma x * ((1 + getD0 delta w) / getD0 r.sigma w) else 0) = _
    rw [hd w hwn]
    rfl
  rw [hstep]
  refine ⟨?_, ?_, ?_, ?_⟩
  · show (if w != r.source then bc.set w (getD0 bc w + getD0 delta' w) else bc).length = n
    split
    · rw [List.length_set]; exact hlb
    · exact hlb
  · show delta'.length = n
    rw [h1]; exact hld
  · intro x hx
    exact hdelta x hx
  · intro x hx
    show getD0 (if w != r.source then bc.set w (getD0 bc w + getD0 delta' w) else bc) x = _
    by_cases hs : w = r.source
    · have : (w != r.source) = false := by simp [hs]
      rw [this]
      simp only [Bool.false_eq_true, if_false]
      rw [hb x hx]
      simp [bcAdd, hs]
    · have : (w != r.source) = true := by simp [hs]
      rw [this]
      simp only [if_true]
      by_cases e : w = x
      · subst e
        rw [getD0_set_self' _ _ _ (by rw [hlb]; exact hwn), hb w hwn, hdelta w hwn]
        simp [bcAdd, hs]
        ring
      · rw [getD0_set_ne' _ _ _ _ e, hb x hx]
        have : ¬ x = w := fun e' => e e'.symm
        simp [bcAdd, this]

/-- the whole accumulation loop -/
theorem accFold_inv (bc0 : List Rat)
    (hPnd : ∀ w : Nat, (r.P[w]?.getD []).Nodup) (hPlt : ∀ w : Nat, ∀ v ∈ r.P[w]?.getD [], v < n) :
    ∀ (L W : List Nat) (bc delta : List Rat), (∀ w ∈ L, w < n) →
      bc.length = n → delta.length = n →
      (∀ x, x < n → getD0 delta x = dlt (fun w => r.P[w]?.getD []) (getD0 r.sigma) W x) →
      (∀ x, x < n → getD0 bc x = getD0 bc0 x + bcAdd (fun w => r.P[w]?.getD []) (getD0 r.sigma) r.source W x) →
      (L.foldl (accStep r) (bc, delta)).1.length = n ∧
      (∀ x, x < n → getD0 (L.foldl (accStep r) (bc, delta)).1 x =
        getD0 bc0 x + bcAdd (fun w => r.P[w]?.getD []) (getD0 r.sigma) r.source (L.reverse ++ W) x) := by
  intro L
  induction L with
  | nil => intro W bc delta _ hlb _ _ hb; exact ⟨hlb, by simpa using hb⟩
  | cons w L ih =>
    intro W bc delta hL hlb hld hd hb
    obtain ⟨a1, a2, a3, a4⟩ := accStep_inv r n bc0 W bc delta w hlb hld (hL w (List.mem_cons_self ..)) (hPnd w) (hPlt w) hd hb
    rw [List.foldl_cons]
    have := ih (w :: W) (accStep r (bc, delta) w).1 (accStep r (bc, delta) w).2
      (fun x hx => hL x (List.mem_cons_of_mem _ hx)) a1 a2 a3 a4
    rw [List.reverse_cons, List.append_assoc]
    exact this

/-- **`accumulate` as an explicit recursion** -/
theorem accumulate_bcAdd (bc : List Rat) (hlb : bc.length = n)
    (hPnd : ∀ w : Nat, (r.P[w]?.getD []).Nodup) (hPlt : ∀ w : Nat, ∀ v ∈ r.P[w]?.getD [], v < n) (hS : ∀ w ∈ r.S, w < n) :
    (accumulate bc r).length = n ∧
    ∀ x, x < n → getD0 (accumulate bc r) x =
      getD0 bc x + bcAdd (fun w => r.P[w]?.getD []) (getD0 r.sigma) r.source r.S x := by
  rw [accumulate_eq]
  have := accFold_inv r n bc hPnd hPlt r.S.reverse [] bc (List.replicate bc.length 0)
    (fun w hw => hS w (List.mem_reverse.1 hw)) hlb (by simp [hlb])
    (fun x hx => by simp [getD0, dlt, hlb, hx]) (fun x _ => by simp [bcAdd])
  simpa using this

end fold

/-! ## the recursion solved by `dlt` when `S` is ordered by level -/

section rec
variable (P : Nat → List Nat) (σ : Nat → Rat)

theorem dlt_prefix (v : Nat) : ∀ (A W : List Nat), (∀ a ∈ A, v ∉ P a) → dlt P σ (A ++ W) v = dlt P σ W v := by
  intro A
  induction A with
  | nil => intro W _; rfl
  | cons a A ih =>
    intro W h
    rw [List.cons_append, dlt, ih W (fun b hb => h b (List.mem_cons_of_mem _ hb))]
    simp [h a (List.mem_cons_self ..)]

variable {P σ}

/-- level structure of `S` and `P` -/
structure Leveled (P : Nat → List Nat) (S : List Nat) (lev : Nat → Int) : Prop where
  nd : S.Nodup
  ord : S.Pairwise (fun x y => lev x ≤ lev y)
  step : ∀ w, ∀ v ∈ P w, lev v < lev w
  sub : ∀ w, ∀ v ∈ P w, v ∈ S

theorem Leveled.not_mem_of_before {S : List Nat} {lev : Nat → Int} (hL : Leveled P S lev) {A W : List Nat} {w : Nat}
    (hS : S = A ++ w :: W) : ∀ a ∈ A ++ [w], w ∉ P a := by
  intro a ha hw
  have h1 := hL.step a w hw
  have hord := hL.ord
  rw [hS] at hord
  rcases List.mem_append.1 ha with ha | ha
  · have := (List.pairwise_append.1 hord).2.2 a ha w (List.mem_cons_self ..)
    omega
  · simp at ha; subst ha; omega

/-- the dependency of a popped node is final -/
theorem Leveled.dlt_final {S : List Nat} {lev : Nat → Int} (hL : Leveled P S lev) {A W : List Nat} {w : Nat}
    (hS : S = A ++ w :: W) : dlt P σ S w = dlt P σ W w := by
  have : S = (A ++ [w]) ++ W := by rw [hS]; simp
  rw [this]
  exact dlt_prefix P σ w (A ++ [w]) W (hL.not_mem_of_before hS)

theorem Leveled.dlt_suffix {S : List Nat} {lev : Nat → Int} (hL : Leveled P S lev) (v : Nat) :
    ∀ (W A : List Nat), S = A ++ W →
      dlt P σ W v = (W.map fun w => if v ∈ P w then σ v * ((1 + dlt P σ S w) / σ w) else 0).sum := by
  intro W
  induction W with
  | nil => intro A _; rfl
  | cons w W ih =>
    intro A hS
    rw [dlt, List.map_cons, List.sum_cons, ← ih (A ++ [w]) (by rw [hS]; simp), hL.dlt_final hS]
    ring

/-- **stage 2**: the recursion of Brandes' dependencies -/
theorem Leveled.dlt_rec {S : List Nat} {lev : Nat → Int} (hL : Leveled P S lev) (v : Nat) :
    dlt P σ S v = (S.map fun w => if v ∈ P w then σ v * ((1 + dlt P σ S w) / σ w) else 0).sum :=
  hL.dlt_suffix v S [] rfl

theorem Leveled.bcAdd_suffix {S : List Nat} {lev : Nat → Int} (hL : Leveled P S lev) (source x : Nat) :
    ∀ (W A : List Nat), S = A ++ W →
      bcAdd P σ source W x = if x ∈ W ∧ x ≠ source then dlt P σ S x else 0 := by
  intro W
  induction W with
  | nil => intro A _; simp [bcAdd]
  | cons w W ih =>
    intro A hS
    have hnd := hL.nd
    rw [hS] at hnd
    have hwW : w ∉ W := (List.nodup_cons.1 (List.nodup_append.1 hnd).2.1).1
    rw [bcAdd, ih (A ++ [w]) (by rw [hS]; simp)]
    have hfin : dlt P σ (w :: W) w = dlt P σ S w := by
      rw [hL.dlt_final hS, dlt]
      have := hL.not_mem_of_before hS w (by simp)
      simp [this]
    rw [hfin]
    by_cases e : x = w
    · subst e
      by_cases hs : x = source <;> simp [hwW, hs]
    · simp [e]

theorem Leveled.bcAdd_eq {S : List Nat} {lev : Nat → Int} (hL : Leveled P S lev) (source x : Nat) :
    bcAdd P σ source S x = if x ∈ S ∧ x ≠ source then dlt P σ S x else 0 :=
  hL.bcAdd_suffix source x S [] rfl

/-- the coefficients `c(w) = (1 + delta(w)) / sigma(w)` obey the accumulation recursion with weights `1/sigma` -/
theorem Leveled.coeff_rec {S : List Nat} {lev : Nat → Int} (hL : Leveled P S lev) (t : Nat) (hσ : σ t ≠ 0) :
    (1 + dlt P σ S t) / σ t = 1 / σ t + (S.map fun w => if t ∈ P w then (1 + dlt P σ S w) / σ w else 0).sum := by
  have h1 : (S.map fun w => if t ∈ P w then σ t * ((1 + dlt P σ S w) / σ w) else 0) =
      S.map fun w => σ t * (if t ∈ P w then (1 + dlt P σ S w) / σ w else 0) := by
    apply List.map_congr_left
    intro w _
    by_cases e : t ∈ P w <;> simp [e]
  conv => lhs; rw [hL.dlt_rec t, h1, sum_map_mul_left']
  field_simp

end rec

end Bc
end Graphrs
