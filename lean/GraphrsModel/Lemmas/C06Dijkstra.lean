/-
  The Dijkstra stage of betweenness.rs / closeness.rs (`bcDijkstraLoop`, Model/Centrality.lean): the `D` / `seen` /
  `fringe` components satisfy the lazy-deletion invariant `Inv` of Lemmas/DijkstraInv.lean, the loop ends with an
  empty fringe within the fuel bound, hence `D` holds exactly the shortest distances.
-/
import GraphrsModel.Model.Centrality
import GraphrsModel.Lemmas.DijkstraBasic
namespace Graphrs
namespace C06D

/-! ## `popMinDist` -/

theorem foldl_min_mem (xs : List CNode) (x : CNode) :
    xs.foldl (fun b y => if y.1 < b.1 then y else b) x ∈ x :: xs := by
  induction xs generalizing x with
  | nil => simp
  | cons y ys ih =>
    simp only [List.foldl_cons]
    have := ih (if y.1 < x.1 then y else x)
    by_cases h : y.1 < x.1
    · simp only [h, if_true] at this ⊢
      simp only [List.mem_cons] at this ⊢
      rcases this with h1 | h1
      · exact Or.inr (Or.inl h1)
      · exact Or.inr (Or.inr h1)
    · simp only [h] at this ⊢
      simp only [List.mem_cons] at this ⊢
      rcases this with h1 | h1
      · exact Or.inl h1
      · exact Or.inr (Or.inr h1)

theorem foldl_min_le (xs : List CNode) (x : CNode) :
    ∀ e ∈ x :: xs, (xs.foldl (fun b y => if y.1 < b.1 then y else b) x).1 ≤ e.1 := by
  induction xs generalizing x with
  | nil => intro e he; simp at he; subst he; simp
  | cons y ys ih =>
    simp only [List.foldl_cons]
    have := ih (if y.1 < x.1 then y else x)
    intro e he
    have h0 := this _ (List.mem_cons_self ..)
    by_cases h : y.1 < x.1
    · simp only [h, if_true] at this h0 ⊢
      simp only [List.mem_cons] at he
      rcases he with h1 | h1 | h1
      · subst h1; omega
      · subst h1; exact h0
      · exact this e (List.mem_cons_of_mem _ h1)
    · simp only [h, if_false] at this h0 ⊢
      simp only [List.mem_cons] at he
      rcases he with h1 | h1 | h1
      · subst h1; exact h0
      · subst h1; omega
      · exact this e (List.mem_cons_of_mem _ h1)

theorem popMinDist_none {fr : List CNode} (h : popMinDist fr = none) : fr = [] := by
  cases fr with
  | nil => rfl
  | cons x xs => simp [popMinDist] at h

theorem popMinDist_some {fr : List CNode} {b : CNode} {rest : List CNode}
    (h : popMinDist fr = some (b, rest)) :
    b ∈ fr ∧ rest = fr.erase b ∧ (∀ e ∈ fr, b.1 ≤ e.1) := by
  cases fr with
  | nil => simp [popMinDist] at h
  | cons x xs =>
    simp only [popMinDist, Option.some.injEq, Prod.mk.injEq] at h
    obtain ⟨h1, h2⟩ := h
    subst h1
    exact ⟨foldl_min_mem xs x, h2.symm, foldl_min_le xs x⟩

/-! ## the invariant only reads the fringe as a set -/

theorem Inv.of_mem_iff {A : Arcs} {src n : Nat} {cut : Option Int} {pend : Arcs} {dist seen : List (Option Int)}
    {fr fr' : List FNode} (I : Inv A src n cut pend dist seen fr) (h : ∀ e, e ∈ fr' ↔ e ∈ fr) :
    Inv A src n cut pend dist seen fr' where
  ldist := I.ldist
  lseen := I.lseen
  frLt := fun e he => I.frLt e ((h e).1 he)
  frWalk := fun e he => I.frWalk e ((h e).1 he)
  frCut := fun h0 e he => I.frCut h0 e ((h e).1 he)
  frSeen := fun e he => I.frSeen e ((h e).1 he)
  distWalk := I.distWalk
  distCut := I.distCut
  distSeen := I.distSeen
  mono := fun v d hd e he => I.mono v d hd e ((h e).1 he)
  cover := by
    intro v k hn hk
    obtain ⟨cnt, hm⟩ := I.cover v k hn hk
    exact ⟨cnt, (h _).2 hm⟩
  closed := I.closed
  srcOk := I.srcOk

theorem RowInv.of_mem_iff {A : Arcs} {src n : Nat} {cut : Option Int} {v : Nat} {d : Int} {pend : Arcs}
    {dist seen : List (Option Int)} {fr fr' : List FNode} (R : RowInv A src n cut v d pend dist seen fr)
    (h : ∀ e, e ∈ fr' ↔ e ∈ fr) : RowInv A src n cut v d pend dist seen fr' :=
  { toInv := Inv.of_mem_iff R.toInv h
    hv := R.hv
    hle := R.hle
    hfr := fun e he => R.hfr e ((h e).1 he)
    pendSrc := R.pendSrc
    pendA := R.pendA }

theorem inv_init (A : Arcs) (src n p : Nat) (hsrc : src < n) :
    Inv A src n none [] (List.replicate n none) ((List.replicate n none).set src (some 0)) [(0, p, src)] where
  ldist := by simp
  lseen := by simp
  frLt := by intro e he; simp at he; subst he; exact hsrc
  frWalk := by intro e he; simp at he; subst he; exact Walk.nil _
  frCut := by intro h e he; simp at he; subst he; exact h
  frSeen := by
    intro e he; simp at he; subst he
    exact ⟨0, lk_set_self _ _ _ (by simpa using hsrc), Int.le_refl 0⟩
  distWalk := by intro v d h; rw [lk_replicate_none] at h; cases h
  distCut := by intro _ v d h; rw [lk_replicate_none] at h; cases h
  distSeen := by intro v d h; rw [lk_replicate_none] at h; cases h
  mono := by intro v d h; rw [lk_replicate_none] at h; cases h
  cover := by
    intro v k _ hk
    by_cases e : src = v
    · subst e
      rw [lk_set_self _ _ _ (by simpa using hsrc)] at hk
      cases hk
      exact ⟨p, by simp⟩
    · rw [lk_set_ne _ _ _ _ e, lk_replicate_none] at hk; cases hk
  closed := by intro u du h; rw [lk_replicate_none] at h; cases h
  srcOk := ⟨0, lk_set_self _ _ _ (by simpa using hsrc), Int.le_refl 0⟩

/-! ## the loop, with named pieces -/

/-- the body of `for adj in graph.get_successor_nodes_by_index(&v)` -/
def bcRelax (v : Nat) (dist : Int) (st : BState) (adj : Adj) : BState :=
  if (st.D[adj.1]?.join).isNone && (match st.seen[adj.1]?.join with | none => true | some sw => dist + adj.2.getD 0 < sw) then
    { st with seen := st.seen.set adj.1 (some (dist + adj.2.getD 0)),
              fringe := st.fringe ++ [(dist + adj.2.getD 0, v, adj.1)],
              sigma := st.sigma.set adj.1 0, P := st.P.set adj.1 [v] }
  else if st.seen[adj.1]?.join == some (dist + adj.2.getD 0) then
    { st with sigma := st.sigma.set adj.1 (getD0 st.sigma adj.1 + getD0 st.sigma v),
              P := st.P.set adj.1 ((st.P[adj.1]?.getD []) ++ [v]) }
  else st

/-- the state after a fresh pop, before the row is relaxed -/
def bcSettle (st : BState) (rest : List CNode) (dist : Int) (pred v : Nat) : BState :=
  { st with fringe := rest, sigma := st.sigma.set v (getD0 st.sigma v + getD0 st.sigma pred),
            S := st.S ++ [v], D := st.D.set v (some dist) }

theorem loop_zero (adjOf : Nat → List Adj) (st : BState) : bcDijkstraLoop adjOf 0 st = st := by
  rw [bcDijkstraLoop]

theorem loop_none (adjOf : Nat → List Adj) (fuel : Nat) (st : BState) (h : popMinDist st.fringe = none) :
    bcDijkstraLoop adjOf (fuel + 1) st = st := by
  rw [bcDijkstraLoop]
  simp only [h]

theorem loop_stale (adjOf : Nat → List Adj) (fuel : Nat) (st : BState) (d : Int) (p v : Nat) (rest : List CNode)
    (h : popMinDist st.fringe = some ((d, p, v), rest)) (hd : (st.D[v]?.join).isSome = true) :
    bcDijkstraLoop adjOf (fuel + 1) st = bcDijkstraLoop adjOf fuel { st with fringe := rest } := by
  rw [bcDijkstraLoop]
  simp only [h, hd, if_true]

theorem loop_fresh (adjOf : Nat → List Adj) (fuel : Nat) (st : BState) (d : Int) (p v : Nat) (rest : List CNode)
    (h : popMinDist st.fringe = some ((d, p, v), rest)) (hd : (st.D[v]?.join).isSome = false) :
    bcDijkstraLoop adjOf (fuel + 1) st =
      bcDijkstraLoop adjOf fuel ((adjOf v).foldl (bcRelax v d) (bcSettle st rest d p v)) := by
  rw [bcDijkstraLoop]
  simp only [h, hd, Bool.false_eq_true, if_false]
  rfl

/-! ## one relaxation -/

theorem bcRelax_D (v : Nat) (d : Int) (st : BState) (a : Adj) : (bcRelax v d st a).D = st.D := by
  unfold bcRelax
  repeat' split
  all_goals rfl

theorem bcRelax_push {v : Nat} {d : Int} {st : BState} {u : Nat} {w : W} {c : Int} (hc : w = some c)
    (hD : lk st.D u = none) (hlt : ∀ su, lk st.seen u = some su → d + c < su) :
    (bcRelax v d st (u, w)).seen = st.seen.set u (some (d + c)) ∧
    (bcRelax v d st (u, w)).fringe = st.fringe ++ [(d + c, v, u)] := by
  subst hc
  unfold lk at hD hlt
  unfold bcRelax
  simp only [Option.getD_some]
  cases hs : st.seen[u]?.join with
  | none => simp [hD]
  | some su => simp [hD, hlt su hs]

theorem bcRelax_skip {v : Nat} {d : Int} {st : BState} {u : Nat} {w : W} {c : Int} (hc : w = some c)
    (h : (∃ du, lk st.D u = some du) ∨ (∃ su, lk st.seen u = some su ∧ su ≤ d + c)) :
    (bcRelax v d st (u, w)).seen = st.seen ∧ (bcRelax v d st (u, w)).fringe = st.fringe := by
  subst hc
  unfold lk at h
  unfold bcRelax
  simp only [Option.getD_some]
  rcases h with ⟨du, hdu⟩ | ⟨su, hsu, hle⟩
  · simp only [hdu, Option.isNone_some, Bool.false_and, Bool.false_eq_true, if_false]
    split <;> exact ⟨rfl, rfl⟩
  · have : ¬ d + c < su := by omega
    simp only [hsu, decide_eq_true_eq, Bool.and_eq_true, this, and_false, if_false]
    split <;> exact ⟨rfl, rfl⟩

theorem bcRelax_row {A : Arcs} {src n : Nat} {v : Nat} {d : Int} (hA : ArcsWf A n)
    (st : BState) (a : Adj) (row : List Adj) (hw : ∃ c, a.2 = some c)
    (R : RowInv A src n none v d (rowArcs true v (a :: row)) st.D st.seen st.fringe) :
    RowInv A src n none v d (rowArcs true v row) (bcRelax v d st a).D (bcRelax v d st a).seen (bcRelax v d st a).fringe ∧
      (bcRelax v d st a).fringe.length ≤ st.fringe.length + 1 := by
  obtain ⟨u, w⟩ := a
  obtain ⟨c, hc⟩ := hw
  simp only at hc
  rw [rowArcs_cons_some (c := c) (by simpa using hc)] at R
  rw [bcRelax_D]
  have harc : (v, u, c) ∈ A := R.pendA _ (List.mem_cons_self ..)
  have hun : u < st.seen.length := by rw [R.lseen]; exact (hA _ harc).1
  by_cases hpush : lk st.D u = none ∧ ∀ su, lk st.seen u = some su → d + c < su
  · obtain ⟨h1, h2⟩ := bcRelax_push (v := v) (d := d) hc hpush.1 hpush.2
    rw [h1, h2]
    refine ⟨?_, by simp⟩
    have P := R.push hA rfl (fun su h => by have := hpush.2 su h; omega) (st.seen.set u (some (d + c)))
      (by simp [R.lseen]) (lk_set_self _ _ _ hun) (fun x hx => lk_set_ne _ _ _ _ (fun e => hx e.symm)) v
    exact RowInv.of_mem_iff P (by intro e; simp [or_comm])
  · have hcases : (∃ du, lk st.D u = some du) ∨ (∃ su, lk st.seen u = some su ∧ su ≤ d + c) := by
      cases hD : lk st.D u with
      | some du => exact Or.inl ⟨du, rfl⟩
      | none =>
        right
        cases hs : lk st.seen u with
        | none => exact absurd ⟨hD, fun su h => by rw [hs] at h; cases h⟩ hpush
        | some su =>
          refine ⟨su, rfl, ?_⟩
          by_cases hle : su ≤ d + c
          · exact hle
          · exact absurd ⟨hD, fun su' h => by rw [hs] at h; cases h; omega⟩ hpush
    obtain ⟨h1, h2⟩ := bcRelax_skip (v := v) (d := d) hc hcases
    rw [h1, h2]
    refine ⟨?_, by omega⟩
    rcases hcases with ⟨du, hdu⟩ | ⟨su, hsu, hle⟩
    · exact R.skip (R.final_ok hA du hdu).2
    · exact R.skip (Or.inr ⟨su, hsu, hle⟩)

theorem bc_fold {A : Arcs} {src n : Nat} {v : Nat} {d : Int} (hA : ArcsWf A n)
    (row : List Adj) : ∀ (st : BState), (∀ a ∈ row, ∃ c, a.2 = some c) →
    RowInv A src n none v d (rowArcs true v row) st.D st.seen st.fringe →
    RowInv A src n none v d [] (row.foldl (bcRelax v d) st).D
        (row.foldl (bcRelax v d) st).seen (row.foldl (bcRelax v d) st).fringe ∧
      (row.foldl (bcRelax v d) st).D = st.D ∧
      (row.foldl (bcRelax v d) st).fringe.length ≤ st.fringe.length + row.length := by
  induction row with
  | nil => intro st _ R; exact ⟨R, rfl, by simp⟩
  | cons a row ih =>
    intro st hw R
    obtain ⟨R1, h2⟩ := bcRelax_row hA st a row (hw a (List.mem_cons_self ..)) R
    obtain ⟨R2, h3, h4⟩ := ih _ (fun b hb => hw b (List.mem_cons_of_mem _ hb)) R1
    simp only [List.foldl_cons, List.length_cons]
    exact ⟨R2, by rw [h3, bcRelax_D], by omega⟩

/-! ## the loop -/

theorem getElem?_range_map (adjOf : Nat → List Adj) (n v : Nat) (hv : v < n) :
    ((List.range n).map adjOf)[v]?.getD [] = adjOf v := by
  simp [hv]

theorem loop_inv {A : Arcs} {src n : Nat} {adjOf : Nat → List Adj} (hA : ArcsWf A n)
    (hsub : ∀ v x w, (v, x, w) ∈ A → (v, x, w) ∈ rowArcs true v (adjOf v))
    (hsup : ∀ v, v < n → ∀ a ∈ rowArcs true v (adjOf v), a ∈ A)
    (hwt : ∀ v, v < n → ∀ a ∈ adjOf v, ∃ c, a.2 = some c) :
    ∀ (fuel : Nat) (st : BState),
    Inv A src n none [] st.D st.seen st.fringe →
    st.fringe.length + pendFrom ((List.range n).map adjOf) 0 st.D < fuel →
    Inv A src n none [] (bcDijkstraLoop adjOf fuel st).D (bcDijkstraLoop adjOf fuel st).seen
      (bcDijkstraLoop adjOf fuel st).fringe ∧
    (bcDijkstraLoop adjOf fuel st).fringe = [] := by
  intro fuel
  induction fuel with
  | zero => intro st _ h; omega
  | succ fuel ih =>
    intro st I hm
    cases hp : popMinDist st.fringe with
    | none =>
      rw [loop_none _ _ _ hp]
      exact ⟨I, popMinDist_none hp⟩
    | some res =>
      obtain ⟨⟨d, p, v⟩, rest⟩ := res
      obtain ⟨hmem, hrest, hmin⟩ := popMinDist_some hp
      have hlen : rest.length + 1 = st.fringe.length := by
        rw [hrest, List.length_erase_of_mem hmem]
        have : 0 < st.fringe.length := List.length_pos_of_mem hmem
        omega
      cases hd : st.D[v]?.join with
      | some dv =>
        have hd' : lk st.D v = some dv := hd
        rw [loop_stale _ _ _ _ _ _ _ hp (by rw [hd]; rfl)]
        apply ih
        · simp only; rw [hrest]; exact I.pop_stale (d, p, v) dv hd'
        · simp only; omega
      | none =>
        have hd' : lk st.D v = none := hd
        rw [loop_fresh _ _ _ _ _ _ _ hp (by rw [hd]; rfl)]
        have hvn : v < n := I.frLt _ hmem
        have R := I.pop_fresh d p v hmem hmin hd' (rowArcs true v (adjOf v))
          (hsub v) (fun a ha => rowArcs_src a ha) (hsup v hvn)
        rw [← hrest] at R
        obtain ⟨R2, h3, h4⟩ := bc_fold hA (adjOf v) (bcSettle st rest d p v) (hwt v hvn) R
        apply ih
        · exact R2.done
        · rw [h3]
          have hvl : v < st.D.length := by rw [I.ldist]; exact hvn
          have := pendFrom_set ((List.range n).map adjOf) 0 v st.D d (Nat.zero_le _) hd' hvl
          simp only [Nat.sub_zero] at this
          rw [getElem?_range_map adjOf n v hvn] at this
          simp only [bcSettle] at h4 ⊢
          omega

/-! ## reading off the result -/

theorem mem_collect (D : List (Option Int)) (v : Nat) (d : Int) :
    (v, d) ∈ (D.zipIdx.filterMap fun p => p.1.map fun d => (p.2, d)) ↔ lk D v = some d := by
  rw [List.mem_filterMap]
  constructor
  · rintro ⟨⟨o, idx⟩, hm, he⟩
    rw [List.mem_zipIdx_iff_getElem?] at hm
    simp only at hm he
    cases o with
    | none => simp at he
    | some d' =>
      simp only [Option.map_some, Option.some.injEq, Prod.mk.injEq] at he
      obtain ⟨e1, e2⟩ := he
      subst e1 e2
      simp [lk, hm]
  · intro hd
    refine ⟨(some d, v), ?_, by simp⟩
    rw [List.mem_zipIdx_iff_getElem?]
    simp only
    unfold lk at hd
    cases h : D[v]? with
    | none => rw [h] at hd; simp at hd
    | some o => rw [h] at hd; simp at hd; rw [hd]

theorem collect_keys_sublist (l : List (Option Int × Nat)) :
    ((l.filterMap fun p => p.1.map fun d => (p.2, d)).map (·.1)).Sublist (l.map (·.2)) := by
  induction l with
  | nil => simp
  | cons p l ih =>
    obtain ⟨o, i⟩ := p
    cases o with
    | none => simpa using ih.cons i
    | some d => simpa using ih.cons_cons i

theorem collect_nodup (D : List (Option Int)) :
    ((D.zipIdx.filterMap fun p => p.1.map fun d => (p.2, d)).map (·.1)).Nodup := by
  refine (collect_keys_sublist D.zipIdx).nodup ?_
  rw [List.zipIdx_map_snd]
  exact List.nodup_range'

/-- **exactness of `ccWeighted`** over any arc list that lists exactly the entries of the traversal lists -/
theorem ccWeighted_exact {A : Arcs} {adjOf : Nat → List Adj} {n total src : Nat} (hA : ArcsWf A n)
    (hsub : ∀ v x w, (v, x, w) ∈ A → (v, x, w) ∈ rowArcs true v (adjOf v))
    (hsup : ∀ v, v < n → ∀ a ∈ rowArcs true v (adjOf v), a ∈ A)
    (hwt : ∀ v, v < n → ∀ a ∈ adjOf v, ∃ c, a.2 = some c)
    (hsrc : src < n) (htotal : sumNat ((List.range n).map fun v => (adjOf v).length) ≤ total) :
    ((ccWeighted adjOf n total src).map (·.1)).Nodup ∧
      ∀ v d, (v, d) ∈ ccWeighted adjOf n total src ↔ IsDist A src v d := by
  unfold ccWeighted
  refine ⟨collect_nodup _, fun v d => ?_⟩
  rw [mem_collect]
  have hloop := loop_inv (src := src) hA hsub hsup hwt (total + 2)
    { D := List.replicate n none, seen := (List.replicate n none).set src (some 0),
      sigma := (List.replicate n (0 : Rat)).set src 1, P := List.replicate n [], S := [],
      fringe := [(0, src, src)] }
    (inv_init A src n src hsrc)
    (by
      simp only [pendFrom_replicate, List.length_cons, List.length_nil, List.map_map]
      have : (List.length ∘ adjOf) = fun v => (adjOf v).length := rfl
      rw [this]
      omega)
  obtain ⟨I, hfr⟩ := hloop
  rw [hfr] at I
  rw [I.final_exact hA rfl v d]
  simp [overCutoff]

end C06D
end Graphrs
