/-
  Lemmas for Props/C13Termination.lean, part 6: the initial bookkeeping (`get_degree_information`) satisfies the
  invariant, and the weighted degrees of a graph with non-negative weights are non-negative.
-/
import GraphrsModel.Lemmas.LouvainTermStep
import GraphrsModel.Props.C12Weighted
namespace Graphrs
open LouvainFull
namespace LT

/-! ### non-negative weights -/

/-- a weight that is NaN or non-negative -/
def WNN (w : W) : Prop := ∀ x, w = some x → 0 ≤ x

theorem WNN_add {a b : W} (ha : WNN a) (hb : WNN b) : WNN (W.add a b) := by
  intro x hx
  cases a with
  | none => simp [W.add] at hx
  | some p =>
    cases b with
    | none => simp [W.add] at hx
    | some q =>
      simp only [W.add, Option.some.injEq] at hx
      have := ha p rfl
      have := hb q rfl
      omega

theorem ratW_nonneg {w : W} (h : WNN w) : 0 ≤ ratW w := by
  cases w with
  | none => simp [ratW]
  | some x =>
    simp only [ratW]
    exact_mod_cast h x rfl

theorem WNN_sumW (l : List Edge) (h : ∀ e ∈ l, WNN e.w) : WNN (Abs.sumW l) := by
  induction l with
  | nil => intro x hx; rw [C12W.sumW_nil] at hx; cases hx; exact le_refl _
  | cons e l ih =>
    rw [C12W.sumW_cons]
    exact WNN_add (h e (by simp)) (ih (fun e' he' => h e' (by simp [he'])))

theorem WNN_weightedDegree (dir : Bool) (a : Abs) (h : ∀ e ∈ a.edges, WNN e.w) (x : Nat) :
    WNN (a.weightedDegree dir x) := by
  unfold Abs.weightedDegree
  split
  · exact WNN_add (WNN_sumW _ (fun e he => h e (List.mem_of_mem_filter he)))
      (WNN_sumW _ (fun e he => h e (List.mem_of_mem_filter he)))
  · exact WNN_add (WNN_sumW _ (fun e he => h e (List.mem_of_mem_filter he)))
      (WNN_sumW _ (fun e he => h e (List.mem_of_mem_filter he)))

/-! ### the degree maps -/

private theorem hasNode_names' (s : Store) (h : s.wf = true) (x : Nat) : s.hasNode x = true ↔ x ∈ s.names :=
  C02.hasNode_mem (C02.nodesP_of s (C09M.wf_parts s h).1) x

theorem degMapW' (s : Store) (h : s.wf = true) :
    s.getWeightedDegreeForAllNodes = .ok (s.names.map fun x => (x, s.abs.weightedDegree s.specs.directed x)) := by
  obtain ⟨hn, _⟩ := Store.wf_inv h
  apply C09M.forAllNodes_ok s _ _ _ hn.names_nodup
  intro x hx
  rw [C09_model_weighted_degree s h x, (hasNode_names' s h x).2 hx]
  rfl

theorem outDegMapW' (s : Store) (h : s.wf = true) (hd : s.specs.directed = true) :
    s.getWeightedOutDegreeForAllNodes = .ok (s.names.map fun x => (x, Abs.sumW (s.abs.outEdges x))) := by
  obtain ⟨hn, _⟩ := Store.wf_inv h
  simp only [Store.getWeightedOutDegreeForAllNodes, hd, Bool.not_true, Bool.false_eq_true, if_false]
  apply C09M.forAllNodes_ok s _ _ _ hn.names_nodup
  intro x hx
  rw [(C09_model_weighted_in_out_degree s h x).2, hd, (hasNode_names' s h x).2 hx]
  rfl

theorem inDegMapW' (s : Store) (h : s.wf = true) (hd : s.specs.directed = true) :
    s.getWeightedInDegreeForAllNodes = .ok (s.names.map fun x => (x, Abs.sumW (s.abs.inEdges x))) := by
  obtain ⟨hn, _⟩ := Store.wf_inv h
  simp only [Store.getWeightedInDegreeForAllNodes, hd, Bool.not_true, Bool.false_eq_true, if_false]
  apply C09M.forAllNodes_ok s _ _ _ hn.names_nodup
  intro x hx
  rw [(C09_model_weighted_in_out_degree s h x).1, hd, (hasNode_names' s h x).2 hx]
  rfl

theorem dgOf_map_nonneg (names : List Nat) (f : Nat → W) (hf : ∀ x, WNN (f x)) (x : Nat) :
    0 ≤ dgOf ((names.map fun y => (y, f y)).map fun kv => (kv.1, ratW kv.2)) x := by
  unfold dgOf
  rw [LF.alookup_map_snd, C09M.alookup_map_self]
  split
  · simp only [Option.map_some, Option.getD_some]
    exact ratW_nonneg (hf x)
  · simp

theorem dgOf_nil (x : Nat) : dgOf [] x = 0 := rfl

theorem getR_map_range (k c : Nat) (f : Nat → Rat) (hc : c < k) : getR ((List.range k).map f) c = f c := by
  unfold getR
  simp [hc]

/-- the weighted degree map as rationals -/
def degList (g : Store) (f : Nat → W) : List (Nat × Rat) :=
  (g.names.map fun x => (x, f x)).map fun kv => (kv.1, ratW kv.2)

theorem degList_total (g : Store) (f : Nat → W) : LF.TotalOn (degList g f) g.names := by
  intro x hx
  unfold degList
  rw [LF.alookup_map_snd, C09M.alookup_map_self, if_pos hx]
  exact ⟨_, rfl⟩

theorem stot_fold (site : String) (D : List (Nat × Rat)) (k : Nat) (ht : ∀ i, i < k → ∃ d, alookup D i = some d) :
    (List.range k).foldl (fun (acc : Outcome (List Rat)) i => do
      let l ← acc
      let x ← Outcome.ofOption site (alookup D i)
      .ok (l ++ [x])) (.ok []) = .ok ((List.range k).map fun i => (alookup D i).getD 0) := by
  rw [LF.foldl_ok_map (g := fun i => (alookup D i).getD 0) (acc := [])]
  · simp
  · intro acc i hi
    obtain ⟨d, hd'⟩ := ht i (List.mem_range.1 hi)
    simp only [bind, Outcome.bind, hd', Outcome.ofOption, Option.getD_some]

/-- the initial bookkeeping of an undirected level -/
def diUndir (g : Store) (k : Nat) : DegInfo where
  deg := degList g (g.abs.weightedDegree g.specs.directed)
  stot := (List.range k).map fun i => (alookup (degList g (g.abs.weightedDegree g.specs.directed)) i).getD 0

/-- the initial bookkeeping of a directed level -/
def diDir (g : Store) (k : Nat) : DegInfo where
  inDeg := degList g (fun x => Abs.sumW (g.abs.inEdges x))
  outDeg := degList g (fun x => Abs.sumW (g.abs.outEdges x))
  stotIn := (List.range k).map fun i => (alookup (degList g (fun x => Abs.sumW (g.abs.inEdges x))) i).getD 0
  stotOut := (List.range k).map fun i => (alookup (degList g (fun x => Abs.sumW (g.abs.outEdges x))) i).getD 0

theorem degreeInformation_undir (g : Store) (h : g.wf = true) (k : Nat) (hnames : ∀ x, x < k → x ∈ g.names)
    (hd : g.specs.directed = false) : degreeInformation g k = .ok (diUndir g k) := by
  unfold degreeInformation
  rw [if_neg (by rw [hd]; simp)]
  simp only [degMap, degMapW' g h, Outcome.map', bind, Outcome.bind]
  have := stot_fold "get_degree_information: degrees.get(i).unwrap()" (degList g (g.abs.weightedDegree g.specs.directed)) k
    (fun i hi => degList_total g _ i (hnames i hi))
  simp only [bind, Outcome.bind, degList] at this
  rw [this]
  rfl

theorem degreeInformation_dir (g : Store) (h : g.wf = true) (k : Nat) (hnames : ∀ x, x < k → x ∈ g.names)
    (hd : g.specs.directed = true) : degreeInformation g k = .ok (diDir g k) := by
  unfold degreeInformation
  rw [if_pos hd]
  simp only [degMap, inDegMapW' g h hd, outDegMapW' g h hd, Outcome.map', Outcome.unwrap, bind, Outcome.bind]
  have h1 := stot_fold "get_degree_information: in_degrees.get(i).unwrap()" (degList g (fun x => Abs.sumW (g.abs.inEdges x))) k
    (fun i hi => degList_total g _ i (hnames i hi))
  have h2 := stot_fold "get_degree_information: out_degrees.get(i).unwrap()" (degList g (fun x => Abs.sumW (g.abs.outEdges x))) k
    (fun i hi => degList_total g _ i (hnames i hi))
  simp only [bind, Outcome.bind, degList] at h1 h2
  rw [h1]
  simp only
  rw [h2]
  rfl

/-- `get_degree_information`: no panic, the shape facts `DegOK`, the `stot*` vectors start as the degrees, and all
    degrees are non-negative when no stored weight is negative -/
theorem degreeInformation_spec (g : Store) (h : g.wf = true) (k : Nat) (hnames : ∀ x, x < k → x ∈ g.names)
    (hw : ∀ e ∈ g.allEdges, WNN e.w) :
    ∃ di, degreeInformation g k = .ok di ∧ LF.DegOK g k di ∧
      (g.specs.directed = false → ∀ c, c < k → getR di.stot c = dgOf di.deg c) ∧
      (g.specs.directed = true → ∀ c, c < k → getR di.stotIn c = dgOf di.inDeg c ∧ getR di.stotOut c = dgOf di.outDeg c) ∧
      (∀ x, 0 ≤ dgOf di.deg x ∧ 0 ≤ dgOf di.inDeg x ∧ 0 ≤ dgOf di.outDeg x) := by
  have hw' : ∀ e ∈ g.abs.edges, WNN e.w := hw
  by_cases hd : g.specs.directed = true
  · refine ⟨_, degreeInformation_dir g h k hnames hd, ⟨?_, ?_⟩, ?_, ?_, ?_⟩
    · intro _; exact ⟨degList_total g _, degList_total g _, by simp [diDir], by simp [diDir]⟩
    · intro hd'; rw [hd] at hd'; cases hd'
    · intro hd'; rw [hd] at hd'; cases hd'
    · intro _ c hc
      simp only [diDir]
      rw [getR_map_range k c _ hc, getR_map_range k c _ hc]
      exact ⟨rfl, rfl⟩
    · intro x
      exact ⟨le_refl _,
        dgOf_map_nonneg _ _ (fun y => WNN_sumW _ (fun e he => hw' e (List.mem_of_mem_filter he))) x,
        dgOf_map_nonneg _ _ (fun y => WNN_sumW _ (fun e he => hw' e (List.mem_of_mem_filter he))) x⟩
  · have hd' : g.specs.directed = false := by simpa using hd
    refine ⟨_, degreeInformation_undir g h k hnames hd', ⟨?_, ?_⟩, ?_, ?_, ?_⟩
    · intro hd''; exact absurd hd'' hd
    · intro _; exact ⟨degList_total g _, by simp [diUndir]⟩
    · intro _ c hc
      simp only [diUndir]
      rw [getR_map_range k c _ hc]
      rfl
    · intro hd''; exact absurd hd'' hd
    · intro x
      exact ⟨dgOf_map_nonneg _ _ (fun y => WNN_weightedDegree _ g.abs hw' y) x, le_refl _, le_refl _⟩

end LT
end Graphrs
