/-
  Square clustering: the model's fold over `pairsOf nbrs` against `Abs.squareAt`.
-/
import GraphrsModel.Lemmas.C11ModelTri
namespace Graphrs
namespace C11M
open C02 C11aux

/-- spec summands -/
def sqQ (a : Abs) (v : Nat) (p : Nat × Nat) : Int :=
  (((a.N p.1).filter fun k => (a.N p.2).contains k && k != v).length : Nat)
def sqD (a : Abs) (v : Nat) (p : Nat × Nat) : Int :=
  (((a.N p.1).length : Nat) - (1 + sqQ a v p + (if a.adjacent p.1 p.2 then 1 else 0)))
    + (((a.N p.2).length : Nat) - (1 + sqQ a v p + (if a.adjacent p.1 p.2 then 1 else 0))) + sqQ a v p

theorem squareAt_eq (a : Abs) (v : Nat) :
    a.squareAt v =
      if ((Abs.pairs (a.N v)).map (sqD a v)).sum > 0
      then ((((Abs.pairs (a.N v)).map (sqQ a v)).sum : Int) : Rat) / ((((Abs.pairs (a.N v)).map (sqD a v)).sum : Int) : Rat)
      else ((((Abs.pairs (a.N v)).map (sqQ a v)).sum : Int) : Rat) := by
  unfold Abs.squareAt
  simp only [sumInt_eq_sum, List.map_map]
  rfl

theorem sqQ_symm (a : Abs) (v : Nat) (u w : Nat) : sqQ a v (u, w) = sqQ a v (w, u) := by
  unfold sqQ
  simp only
  congr 1
  apply List.Perm.length_eq
  apply perm_of_nodup_mem ((C11_N_nodup a u).filter _) ((C11_N_nodup a w).filter _)
  intro x
  simp only [List.mem_filter, Bool.and_eq_true, List.contains_iff_mem, bne_iff_ne, ne_eq]
  tauto

theorem sqD_symm (a : Abs) (v : Nat) (u w : Nat) : sqD a v (u, w) = sqD a v (w, u) := by
  unfold sqD
  simp only
  rw [sqQ_symm a v u w, C11_adjacent_symm a u w]
  ring

theorem mem_pairs {α} (l : List α) (p : α × α) (hp : p ∈ Abs.pairs l) : p.1 ∈ l ∧ p.2 ∈ l := by
  induction l with
  | nil => cases hp
  | cons a l ih =>
    simp only [Abs.pairs, List.mem_append, List.mem_map] at hp
    rcases hp with ⟨y, hy, rfl⟩ | hp
    · exact ⟨by simp, by simp [hy]⟩
    · exact ⟨by simp [(ih hp).1], by simp [(ih hp).2]⟩

theorem foldl_pair_sum {α} (f g : α → Int) (l : List α) (c p : Int) :
    l.foldl (fun (a : Int × Int) x => (a.1 + f x, a.2 + g x)) (c, p) = (c + (l.map f).sum, p + (l.map g).sum) := by
  induction l generalizing c p with
  | nil => simp
  | cons a l ih => rw [List.foldl_cons, ih]; simp [add_assoc]

/-- model summands -/
def sqQM (s : Store) (v : Nat) (p : Nat × Nat) : Int :=
  (((sinter (mN s p.1) (mN s p.2)).filter (· != v)).length : Nat)
def sqDM (s : Store) (v : Nat) (p : Nat × Nat) : Int :=
  (((mN s p.1).length : Int) - (if (mN s p.1).contains p.2 then sqQM s v p + 2 else sqQM s v p + 1))
    + (((mN s p.2).length : Int) - (if (mN s p.1).contains p.2 then sqQM s v p + 2 else sqQM s v p + 1)) + sqQM s v p

theorem sqQM_eq (s : Store) (h : s.wf = true) (hd : s.specs.directed = false) (v u w : Nat)
    (hu : s.hasNode u = true) (hw : s.hasNode w = true) : sqQM s v (u, w) = sqQ s.abs v (u, w) := by
  unfold sqQM sqQ sinter
  simp only [List.filter_filter]
  congr 1
  apply filter_length_perm _ _ (mN_perm s h hd u hu)
  intro k _
  rw [Bool.eq_iff_iff]
  simp only [Bool.and_eq_true, decide_eq_true_eq, List.contains_iff_mem, mem_mN s h hd w hw]
  tauto

theorem sqDM_eq (s : Store) (h : s.wf = true) (hd : s.specs.directed = false) (v u w : Nat)
    (hu : s.hasNode u = true) (hw : s.hasNode w = true) : sqDM s v (u, w) = sqD s.abs v (u, w) := by
  unfold sqDM sqD
  simp only
  rw [sqQM_eq s h hd v u w hu hw, mN_length s h hd u hu, mN_length s h hd w hw]
  have hc : (mN s u).contains w = s.abs.adjacent u w := by
    rw [Bool.eq_iff_iff, adjacent_iff, List.contains_iff_mem, mem_mN s h hd u hu]
  rw [hc]
  cases s.abs.adjacent u w <;> simp <;> ring

theorem gSON (s : Store) (h : s.wf = true) (hd : s.specs.directed = false) (x : Nat) (hx : s.hasNode x = true) :
    Store.namesOf (s.getSuccessorsOrNeighbors x) = .ok (nm s x) := by
  have ⟨l, hl, e, _⟩ := nbr_ok s h hd x hx
  unfold Store.getSuccessorsOrNeighbors
  simp only [hd, Bool.false_eq_true, if_false]
  rw [hl, ← e]; rfl

theorem gnos_ok (s : Store) (h : s.wf = true) (hd : s.specs.directed = false) (x : Nat) (hx : s.hasNode x = true) :
    s.gnos x = .ok (mN s x) := by
  unfold Store.gnos
  rw [gSON s h hd x hx]
  simp only [bind, Outcome.bind, dedup_nm s h hd x hx]
  rfl

theorem squareCoefficient_ok (s : Store) (h : s.wf = true) (hd : s.specs.directed = false) (v : Nat) (hv : s.hasNode v = true) :
    s.squareCoefficient v = .ok (s.abs.squareAt v) := by
  unfold Store.squareCoefficient
  rw [gSON s h hd v hv]
  simp only [bind, Outcome.bind]
  have hmN : List.filter (fun x => x != v) (nm s v) = mN s v := rfl
  rw [hmN, foldl_ok_gen _ (fun (a : Int × Int) x => (a.1 + sqQM s v x, a.2 + sqDM s v x))]
  · rw [foldl_pair_sum, pairsOf_eq_pairs, squareAt_eq]
    have hQ : ((Abs.pairs (mN s v)).map (sqQM s v)).sum = ((Abs.pairs (s.abs.N v)).map (sqQ s.abs v)).sum := by
      have e : (Abs.pairs (mN s v)).map (sqQM s v) = (Abs.pairs (mN s v)).map (sqQ s.abs v) := by
        apply List.map_congr_left
        intro p hp
        have hm := mem_pairs _ p hp
        exact sqQM_eq s h hd v p.1 p.2 (mN_hasNode s h hd v hv _ hm.1) (mN_hasNode s h hd v hv _ hm.2)
      rw [e]
      exact sum_pairs_perm _ (sqQ_symm s.abs v) (mN_perm s h hd v hv)
    have hD : ((Abs.pairs (mN s v)).map (sqDM s v)).sum = ((Abs.pairs (s.abs.N v)).map (sqD s.abs v)).sum := by
      have e : (Abs.pairs (mN s v)).map (sqDM s v) = (Abs.pairs (mN s v)).map (sqD s.abs v) := by
        apply List.map_congr_left
        intro p hp
        have hm := mem_pairs _ p hp
        exact sqDM_eq s h hd v p.1 p.2 (mN_hasNode s h hd v hv _ hm.1) (mN_hasNode s h hd v hv _ hm.2)
      rw [e]
      exact sum_pairs_perm _ (sqD_symm s.abs v) (mN_perm s h hd v hv)
    simp only [hQ, hD, zero_add]
  · intro acc uw huw
    rw [pairsOf_eq_pairs] at huw
    have hm := mem_pairs _ uw huw
    rw [gnos_ok s h hd uw.1 (mN_hasNode s h hd v hv _ hm.1), gnos_ok s h hd uw.2 (mN_hasNode s h hd v hv _ hm.2)]
    rfl

end C11M
end Graphrs
