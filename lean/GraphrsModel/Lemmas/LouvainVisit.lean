/-
  Lemmas for Props/C13Model.lean, part 1: generic facts about `Outcome` folds, the candidate scan,
  the neighbour-community weights and the shape of the state after one `visit`.
-/
import GraphrsModel.Props.Core
import GraphrsModel.Model.LouvainFull
import GraphrsModel.Props.C12
namespace Graphrs
open LouvainFull
namespace LF

/-! ### generic facts about `Outcome` folds -/
theorem foldl_ok_source {α β : Type} (F : Outcome α → β → Outcome α)
    (hF : ∀ o x b, F o x = .ok b → ∃ a, o = .ok a) (l : List β) :
    ∀ (o : Outcome α) (r : α), l.foldl F o = .ok r → ∃ a, o = .ok a := by
  induction l with
  | nil => intro o r h; exact ⟨r, h⟩
  | cons x l ih =>
    intro o r h
    rw [List.foldl_cons] at h
    obtain ⟨b, hb⟩ := ih _ _ h
    exact hF o x b hb

theorem foldl_ok_inv {α β : Type} (P : α → Prop) (F : Outcome α → β → Outcome α)
    (hF' : ∀ o x b, F o x = .ok b → ∃ a, o = .ok a) (l : List β)
    (hF : ∀ a x b, x ∈ l → F (.ok a) x = .ok b → P a → P b) :
    ∀ (a0 r : α), l.foldl F (.ok a0) = .ok r → P a0 → P r := by
  induction l with
  | nil => intro a0 r h hp; simp only [List.foldl_nil] at h; cases h; exact hp
  | cons x l ih =>
    intro a0 r h hp
    rw [List.foldl_cons] at h
    obtain ⟨b, hb⟩ := foldl_ok_source F hF' l _ _ h
    rw [hb] at h
    exact ih (fun a y b' hy => hF a y b' (List.mem_cons_of_mem _ hy)) b r h (hF a0 x b (List.mem_cons_self) hb hp)

def KeysIn (n2c : List (Nat × Nat)) (m : List (Nat × Rat)) : Prop := ∀ c ∈ m.map (·.1), ∃ v, alookup n2c v = some c

/-- induction principle for the candidate map: it is built from `[]` by `ainsert`s under keys `node2com v` -/
theorem neighborWeights_ind {g : Store} {u : Nat} {n2c : List (Nat × Nat)} {w2c : List (Nat × Rat)}
    (P : List (Nat × Rat) → Prop) (h0 : P [])
    (hstep : ∀ m v c w, alookup n2c v = some c → P m → P (ainsert m c w))
    (h : neighborWeights g u n2c = .ok w2c) : P w2c := by
  have fold_ind : ∀ (F : Outcome (List (Nat × Rat)) → Nat → Outcome (List (Nat × Rat))),
      (∀ o x b, F o x = .ok b → ∃ a, o = .ok a) →
      (∀ m v b, F (.ok m) v = .ok b → b = m ∨ ∃ c w, alookup n2c v = some c ∧ b = ainsert m c w) →
      ∀ (vs : List Nat) (acc r : List (Nat × Rat)), vs.foldl F (.ok acc) = .ok r → P acc → P r := by
    intro F hF' hF vs acc r hr hacc
    refine foldl_ok_inv P F hF' vs ?_ acc r hr hacc
    intro a v b _ hb hP
    rcases hF a v b hb with rfl | ⟨c, w, hc, rfl⟩
    · exact hP
    · exact hstep a v c w hc hP
  unfold neighborWeights at h
  simp only [bind, Outcome.bind] at h
  split at h
  next x m hm =>
    have h1 : P m := by
      refine fold_ind _ ?_ ?_ _ [] m hm h0
      · intro o x b hb
        cases o with
        | ok a => exact ⟨a, rfl⟩
        | err k => simp at hb
        | panic k => simp at hb
      · intro m v b hb
        dsimp only at hb
        by_cases huv : (u == v) = true
        · rw [if_pos huv] at hb; cases hb; exact Or.inl rfl
        · rw [if_neg huv] at hb
          split at hb
          next e he =>
            cases hc : alookup n2c v with
            | none => simp [hc, Outcome.ofOption] at hb
            | some c =>
              simp only [hc, Outcome.ofOption] at hb
              cases hb
              exact Or.inr ⟨c, _, rfl, rfl⟩
          all_goals (exact absurd hb (by simp))
    by_cases hd : g.specs.directed = true
    · rw [if_pos hd] at h
      refine fold_ind _ ?_ ?_ _ m w2c h h1
      · intro o x b hb
        cases o with
        | ok a => exact ⟨a, rfl⟩
        | err k => simp at hb
        | panic k => simp at hb
      · intro m v b hb
        dsimp only at hb
        by_cases huv : (u == v) = true
        · rw [if_pos huv] at hb; cases hb; exact Or.inl rfl
        · rw [if_neg huv] at hb
          split at hb
          next e he =>
            cases hc : alookup n2c v with
            | none => simp [hc, Outcome.ofOption] at hb
            | some c =>
              simp only [hc, Outcome.ofOption] at hb
              cases hb
              exact Or.inr ⟨c, _, rfl, rfl⟩
          all_goals (exact absurd hb (by simp))
    · rw [if_neg hd] at h; cases h; exact h1
  all_goals (exact absurd h (by simp))

theorem neighborWeights_keys {g : Store} {u : Nat} {n2c : List (Nat × Nat)} {w2c : List (Nat × Rat)}
    (h : neighborWeights g u n2c = .ok w2c) : KeysIn n2c w2c := by
  refine neighborWeights_ind (KeysIn n2c) (by intro c hc; simp at hc) ?_ h
  intro m v c w hc hP c' hc'
  rw [AL.keys_insert] at hc'
  split at hc'
  · exact hP c' hc'
  · rw [List.mem_append] at hc'
    rcases hc' with h1 | h1
    · exact hP c' h1
    · simp only [List.mem_singleton] at h1; subst h1; exact ⟨v, hc⟩

/-- the candidate map has pairwise distinct keys (it is built with `ainsert`) -/
theorem neighborWeights_keys_nodup {g : Store} {u : Nat} {n2c : List (Nat × Nat)} {w2c : List (Nat × Rat)}
    (h : neighborWeights g u n2c = .ok w2c) : (w2c.map (·.1)).Nodup :=
  neighborWeights_ind (fun m => (m.map (·.1)).Nodup) (by simp) (fun m _ c w _ hP => AL.nodup_insert hP c w) h

theorem updateBest_fst (gain : Nat → Rat → Rat) (cands : List (Nat × Rat)) (best : Nat × Rat) :
    (Louvain.updateBest gain cands best).1 = best.1 ∨ (Louvain.updateBest gain cands best).1 ∈ cands.map (·.1) := by
  unfold Louvain.updateBest
  have key : ∀ (l : List (Nat × Rat)) (b : Nat × Rat),
      (l.foldl (fun b c => if gain c.1 c.2 > b.2 then (c.1, gain c.1 c.2) else b) b).1 = b.1 ∨
      (l.foldl (fun b c => if gain c.1 c.2 > b.2 then (c.1, gain c.1 c.2) else b) b).1 ∈ l.map (·.1) := by
    intro l
    induction l with
    | nil => intro b; left; rfl
    | cons c l ih =>
      intro b
      rw [List.foldl_cons]
      rcases ih (if gain c.1 c.2 > b.2 then (c.1, gain c.1 c.2) else b) with h | h
      · rw [h]
        by_cases hg : gain c.1 c.2 > b.2
        · rw [if_pos hg]; right; simp
        · rw [if_neg hg]; left; rfl
      · right; rw [List.map_cons]; exact List.mem_cons_of_mem _ h
  rcases key (isort (fun a b => decide (a.1 ≤ b.1)) cands) best with h | h
  · exact Or.inl h
  · right
    rw [List.mem_map] at h ⊢
    obtain ⟨p, hp, hp2⟩ := h
    exact ⟨p, (C02.mem_isort _ p cands).1 hp, hp2⟩

/-- the state after moving `u` from `cur` to `best` -/
def moved (lv : Level) (st : LState) (u cur best : Nat) (di : DegInfo) (r : Bool) : LState :=
  let com := (alookup lv.members u).getD [u]
  let part := st.part.set cur (sdiff (st.part[cur]?.getD []) com)
  let inner := st.inner.set cur ((st.inner[cur]?.getD []).filter (· != u))
  let part := part.set best (sunion (part[best]?.getD []) com)
  let inner := inner.set best (sinsert (inner[best]?.getD []) u)
  { part := part, inner := inner, node2com := ainsert st.node2com u best, di := di, improvement := true,
    moves := st.moves + 1, risky := r }

theorem visit_ok {lv : Level} {m res : Rat} {st st' : LState} {u : Nat}
    (hv : visit lv m res st u = .ok st') :
    ∃ cur w2c best, alookup st.node2com u = some cur ∧ neighborWeights lv.g u st.node2com = .ok w2c ∧
      (best = cur ∨ best ∈ w2c.map (·.1)) ∧
      st'.di.inDeg = st.di.inDeg ∧ st'.di.outDeg = st.di.outDeg ∧ st'.di.deg = st.di.deg ∧
      st'.di.stotIn.length = st.di.stotIn.length ∧ st'.di.stotOut.length = st.di.stotOut.length ∧
      st'.di.stot.length = st.di.stot.length ∧
      ((best ≠ cur ∧ st' = moved lv st u cur best st'.di st'.risky) ∨
       (best = cur ∧ st' = { st with di := st'.di, risky := st'.risky })) := by
  unfold visit visitWith at hv
  simp only [bind, Outcome.bind] at hv
  cases h1 : alookup st.node2com u with
  | none => simp [h1, Outcome.ofOption] at hv
  | some cur =>
    cases h2 : neighborWeights lv.g u st.node2com with
    | err k => simp [h1, h2, Outcome.ofOption] at hv
    | panic k => simp [h1, h2, Outcome.ofOption] at hv
    | ok w2c =>
      simp only [h1, h2, Outcome.ofOption] at hv
      split at hv
      next x trip hx =>
        split at hv
        next y _u1 hg1 =>
          split at hv
          next z _u2 hg2 =>
            generalize hb : (Louvain.updateBest _ w2c (cur, 0)).fst = best at hv
            have hbest : best = cur ∨ best ∈ w2c.map (·.1) := by rw [← hb]; exact updateBest_fst _ w2c (cur, 0)
            split at hv
            next w _u3 hg3 =>
              by_cases hne : (best != cur) = true
              · rw [if_pos hne] at hv
                split at hv
                next _ _ _ =>
                  split at hv
                  next _ _ _ =>
                    split at hv
                    next _ _ _ =>
                      split at hv
                      next _ _ _ =>
                        split at hv
                        next _ _ _ =>
                          injection hv with hv
                          subst hv
                          refine ⟨cur, w2c, best, rfl, rfl, hbest, ?_, ?_, ?_, ?_, ?_, ?_, Or.inl ⟨by simpa using hne, rfl⟩⟩
                          all_goals (dsimp only; split <;> simp [setR])
                        all_goals (exact absurd hv (by simp))
                      all_goals (exact absurd hv (by simp))
                    all_goals (exact absurd hv (by simp))
                  all_goals (exact absurd hv (by simp))
                all_goals (exact absurd hv (by simp))
              · rw [if_neg hne] at hv
                injection hv with hv
                subst hv
                refine ⟨cur, w2c, best, rfl, rfl, hbest, ?_, ?_, ?_, ?_, ?_, ?_, Or.inr ⟨by simpa using hne, rfl⟩⟩
                all_goals (dsimp only; split <;> simp [setR])
            all_goals (exact absurd hv (by simp))
          all_goals (exact absurd hv (by simp))
        all_goals (exact absurd hv (by simp))
      all_goals (exact absurd hv (by simp))

theorem getD_set {α} (l : List (List α)) (i j : Nat) (a : List α) :
    ((l.set i a)[j]?).getD [] = if i = j ∧ i < l.length then a else (l[j]?).getD [] := by
  rw [List.getElem?_set]
  by_cases h : i = j
  · subst h
    by_cases h2 : i < l.length
    · simp [h2]
    · simp [h2]
  · simp [h]

theorem lt_length_of_mem_getD {α} {l : List (List α)} {i : Nat} {x : α} (h : x ∈ (l[i]?).getD []) : i < l.length := by
  by_cases hi : i < l.length
  · exact hi
  · rw [List.getElem?_eq_none (Nat.le_of_not_lt hi)] at h
    simp at h

end LF
end Graphrs
