/-
  Association-list / list-set algebra used by the C03 proofs.
  Everything lives in the namespace `Graphrs.C03` so that it cannot clash with other lemma files.
-/
import GraphrsModel.Spec.Inv
namespace Graphrs
namespace C03

variable {κ ν : Type} [DecidableEq κ]

theorem alookup_ainsert (m : List (κ × ν)) (k k' : κ) (v : ν) :
    alookup (ainsert m k v) k' = if k = k' then some v else alookup m k' := by
  induction m with
  | nil => simp [ainsert, alookup]
  | cons p m ih =>
    obtain ⟨a, b⟩ := p
    simp only [ainsert]
    by_cases h : a = k
    · subst h
      by_cases h2 : a = k' <;> simp [alookup, h2]
    · simp only [h, if_false, alookup, ih]
      by_cases h2 : a = k'
      · subst h2
        have : ¬ k = a := fun e => h e.symm
        simp [this]
      · simp [h2]

theorem alookup_amodify (m : List (κ × ν)) (k k' : κ) (d : ν) (f : ν → ν) :
    alookup (amodify m k d f) k' =
      if k = k' then some (f ((alookup m k).getD d)) else alookup m k' := by
  simp [amodify, alookup_ainsert]

theorem mem_of_alookup (m : List (κ × ν)) (k : κ) (v : ν)
    (h : alookup m k = some v) : (k, v) ∈ m := by
  induction m with
  | nil => simp [alookup] at h
  | cons p m ih =>
    obtain ⟨a, b⟩ := p
    simp only [alookup] at h
    by_cases h2 : a = k
    · subst h2
      simp at h
      subst h
      simp
    · simp only [h2, if_false] at h
      exact List.mem_cons_of_mem _ (ih h)

theorem alookup_eq_none (m : List (κ × ν)) (k : κ) (h : k ∉ m.map (·.1)) :
    alookup m k = none := by
  induction m with
  | nil => simp [alookup]
  | cons p m ih =>
    obtain ⟨a, b⟩ := p
    simp only [List.map_cons, List.mem_cons, not_or] at h
    simp only [alookup]
    have : ¬ a = k := fun e => h.1 e.symm
    simp [this, ih h.2]

theorem alookup_of_mem (m : List (κ × ν)) (k : κ) (v : ν)
    (hn : (m.map (·.1)).Nodup) (h : (k, v) ∈ m) : alookup m k = some v := by
  induction m with
  | nil => simp at h
  | cons p m ih =>
    obtain ⟨a, b⟩ := p
    simp only [List.map_cons, List.nodup_cons] at hn
    simp only [alookup]
    rcases List.mem_cons.1 h with h | h
    · cases h; simp
    · have : ¬ a = k := by
        intro e; subst e
        exact hn.1 (List.mem_map.2 ⟨(a, v), h, rfl⟩)
      simp [this, ih hn.2 h]

theorem keysNodup_iff (m : List (κ × ν)) : keysNodup m = true ↔ (m.map (·.1)).Nodup := by
  simp [keysNodup]

theorem mem_sinsert {α} [DecidableEq α] (s : List α) (x y : α) :
    y ∈ sinsert s x ↔ y ∈ s ∨ y = x := by
  unfold sinsert
  by_cases h : x ∈ s
  · simp only [h, if_true]
    constructor
    · exact Or.inl
    · rintro (h' | h')
      · exact h'
      · subst h'; exact h
  · simp [h]

theorem contains_sinsert {α} [DecidableEq α] (s : List α) (x y : α) :
    (sinsert s x).contains y = (s.contains y || decide (y = x)) := by
  rw [Bool.eq_iff_iff]
  simp [mem_sinsert]

/-- the values of a map with distinct keys, each value list filed under its own key:
    filtering the flattened values by a key gives the list bound to that key -/
theorem filter_flatMap_key {ε : Type} (key : ε → κ) (m : List (κ × List ε))
    (hn : (m.map (·.1)).Nodup) (hk : ∀ kv ∈ m, ∀ e ∈ kv.2, key e = kv.1) (k : κ) :
    (m.flatMap (·.2)).filter (fun e => key e == k) = (alookup m k).getD [] := by
  induction m with
  | nil => simp [alookup]
  | cons p m ih =>
    obtain ⟨a, l⟩ := p
    simp only [List.map_cons, List.nodup_cons] at hn
    have hk' : ∀ kv ∈ m, ∀ e ∈ kv.2, key e = kv.1 :=
      fun kv h => hk kv (List.mem_cons_of_mem _ h)
    have hl : ∀ e ∈ l, key e = a := hk (a, l) (List.mem_cons_self ..)
    simp only [List.flatMap_cons, List.filter_append, alookup, ih hn.2 hk']
    by_cases h : a = k
    · subst h
      have h1 : l.filter (fun e => key e == a) = l := by
        apply List.filter_eq_self.2
        intro e he; simp [hl e he]
      have h2 : alookup m a = none := alookup_eq_none m a hn.1
      simp [h1, h2]
    · have h1 : l.filter (fun e => key e == k) = [] := by
        apply List.filter_eq_nil_iff.2
        intro e he; simp [hl e he, h]
      simp [h1, h]

end C03
end Graphrs
