/-
  Translation between the index-level arcs the closeness model traverses (entries of `successors_vec`) and the
  name-level arcs of the abstract graph (`Abs.arcs`), on a store that satisfies the coupling invariant; and the
  bookkeeping of `closeness_centrality` (the per-source fold, `get_node_centrality`) against `ccSpec`.
-/
import GraphrsModel.Props.Core
import GraphrsModel.Props.C06
import GraphrsModel.Lemmas.C09ModelAux
import GraphrsModel.Lemmas.C06BellmanFord
import GraphrsModel.Lemmas.C06Levels
import Mathlib.Data.List.Perm.Subperm
namespace Graphrs
namespace C06T

/-! ## walks and distances only read the arc list as a set -/

theorem Walk.mono {A B : Arcs} (h : ∀ a ∈ A, a ∈ B) {s t : Nat} {c : Int} (hw : Walk A s t c) : Walk B s t c := by
  induction hw with
  | nil => exact Walk.nil _
  | snoc _ ha ih => exact Walk.snoc ih (h _ ha)

theorem IsDist.congr {A B : Arcs} (h : ∀ a, a ∈ A ↔ a ∈ B) (s t : Nat) (d : Int) : IsDist A s t d ↔ IsDist B s t d := by
  unfold IsDist
  constructor
  · rintro ⟨hw, hmin⟩
    exact ⟨Walk.mono (fun a ha => (h a).1 ha) hw, fun c hc => hmin c (Walk.mono (fun a ha => (h a).2 ha) hc)⟩
  · rintro ⟨hw, hmin⟩
    exact ⟨Walk.mono (fun a ha => (h a).2 ha) hw, fun c hc => hmin c (Walk.mono (fun a ha => (h a).1 ha) hc)⟩

/-! ## membership in `Abs.arcs` -/

theorem mem_abs_arcs (a : Abs) (dir weighted : Bool) (x y : Nat) (c : Int) :
    (x, y, c) ∈ a.arcs dir weighted ↔
      ∃ e ∈ a.edges, (if weighted then e.w else some 1) = some c ∧
        ((e.u = x ∧ e.v = y) ∨ (dir = false ∧ e.u = y ∧ e.v = x)) := by
  unfold Abs.arcs
  rw [List.mem_flatMap]
  constructor
  · rintro ⟨e, he, hm⟩
    refine ⟨e, he, ?_⟩
    simp only at hm
    cases hc : (if weighted then e.w else some 1) with
    | none => rw [hc] at hm; simp at hm
    | some c' =>
      rw [hc] at hm
      simp only at hm
      cases dir with
      | true =>
        simp only [if_true, List.mem_singleton, Prod.mk.injEq] at hm
        obtain ⟨e1, e2, e3⟩ := hm
        subst e3
        exact ⟨rfl, Or.inl ⟨e1.symm, e2.symm⟩⟩
      | false =>
        simp only [Bool.false_eq_true, if_false, List.mem_cons, Prod.mk.injEq, List.not_mem_nil, or_false] at hm
        rcases hm with ⟨e1, e2, e3⟩ | ⟨e1, e2, e3⟩
        · subst e3; exact ⟨rfl, Or.inl ⟨e1.symm, e2.symm⟩⟩
        · subst e3; exact ⟨rfl, Or.inr ⟨rfl, e2.symm, e1.symm⟩⟩
  · rintro ⟨e, he, hc, hm⟩
    refine ⟨e, he, ?_⟩
    simp only
    rw [hc]
    simp only
    cases dir with
    | true =>
      rcases hm with ⟨e1, e2⟩ | ⟨hd, _⟩
      · simp [e1, e2]
      · cases hd
    | false =>
      rcases hm with ⟨e1, e2⟩ | ⟨_, e1, e2⟩
      · simp [e1, e2]
      · simp [e1, e2]

/-! ## simulation between index arcs and name arcs -/

/-- every index arc is dominated by a name arc between the same nodes and vice versa -/
structure ArcSim (names : List Nat) (IA NA : Arcs) : Prop where
  d1 : ∀ i j c, (i, j, c) ∈ IA → ∃ x y c', names[i]? = some x ∧ names[j]? = some y ∧ c' ≤ c ∧ (x, y, c') ∈ NA
  d2 : ∀ x y c, (x, y, c) ∈ NA → ∃ i j c', names[i]? = some x ∧ names[j]? = some y ∧ c' ≤ c ∧ (i, j, c') ∈ IA

theorem ArcSim.walk1 {names : List Nat} {IA NA : Arcs} (S : ArcSim names IA NA) {i j : Nat} {c : Int} {x : Nat}
    (hi : names[i]? = some x) (hw : Walk IA i j c) :
    ∃ y c', names[j]? = some y ∧ c' ≤ c ∧ Walk NA x y c' := by
  induction hw with
  | nil => exact ⟨x, 0, hi, Int.le_refl _, Walk.nil _⟩
  | snoc hw' ha ih =>
    rename_i u v c0 w
    obtain ⟨y, c', hy, hle, hwy⟩ := ih
    obtain ⟨x2, y2, w', hx2, hy2, hle2, harc⟩ := S.d1 _ _ _ ha
    rw [hy] at hx2
    cases hx2
    exact ⟨y2, c' + w', hy2, by omega, Walk.snoc hwy harc⟩

theorem ArcSim.walk2 {names : List Nat} {IA NA : Arcs} (hn : names.Nodup) (S : ArcSim names IA NA) {x y : Nat} {c : Int}
    {i : Nat} (hi : names[i]? = some x) (hw : Walk NA x y c) :
    ∃ j c', names[j]? = some y ∧ c' ≤ c ∧ Walk IA i j c' := by
  induction hw with
  | nil => exact ⟨i, 0, hi, Int.le_refl _, Walk.nil _⟩
  | snoc hw' ha ih =>
    rename_i u v c0 w
    obtain ⟨j, c', hj, hle, hwj⟩ := ih
    obtain ⟨i2, j2, w', hi2, hj2, hle2, harc⟩ := S.d2 _ _ _ ha
    have e : i2 = j := C03.names_inj hn hi2 hj
    subst e
    exact ⟨j2, c' + w', hj2, by omega, Walk.snoc hwj harc⟩

/-- **distances agree** -/
theorem ArcSim.isDist {names : List Nat} {IA NA : Arcs} (hn : names.Nodup) (S : ArcSim names IA NA) {i j x y : Nat}
    (hi : names[i]? = some x) (hj : names[j]? = some y) (d : Int) : IsDist IA i j d ↔ IsDist NA x y d := by
  constructor
  · rintro ⟨hw, hmin⟩
    obtain ⟨y1, d1, hy1, hle1, hw1⟩ := S.walk1 hi hw
    rw [hj] at hy1
    cases hy1
    obtain ⟨j2, d2, hj2, hle2, hw2⟩ := S.walk2 hn hi hw1
    have e : j2 = j := C03.names_inj hn hj2 hj
    subst e
    have := hmin d2 hw2
    have e1 : d1 = d := by omega
    subst e1
    refine ⟨hw1, fun c hc => ?_⟩
    obtain ⟨j3, d3, hj3, hle3, hw3⟩ := S.walk2 hn hi hc
    have e : j3 = j2 := C03.names_inj hn hj3 hj
    subst e
    have := hmin d3 hw3
    omega
  · rintro ⟨hw, hmin⟩
    obtain ⟨j1, d1, hj1, hle1, hw1⟩ := S.walk2 hn hi hw
    have e : j1 = j := C03.names_inj hn hj1 hj
    subst e
    obtain ⟨y2, d2, hy2, hle2, hw2⟩ := S.walk1 hi hw1
    rw [hj] at hy2
    cases hy2
    have := hmin d2 hw2
    have e1 : d1 = d := by omega
    subst e1
    refine ⟨hw1, fun c hc => ?_⟩
    obtain ⟨y3, d3, hy3, hle3, hw3⟩ := S.walk1 hi hc
    rw [hj] at hy3
    cases hy3
    have := hmin d3 hw3
    omega

/-- a node reached at index level is a node -/
theorem ArcSim.target {names : List Nat} {IA NA : Arcs} (S : ArcSim names IA NA) {i j : Nat} {c : Int} {x : Nat}
    (hi : names[i]? = some x) (hw : Walk IA i j c) : ∃ y : Nat, names[j]? = some y := by
  obtain ⟨y, _, hy, _, _⟩ := S.walk1 hi hw
  exact ⟨y, hy⟩

/-- a node reached at name level is a node -/
theorem ArcSim.target2 {names : List Nat} {IA NA : Arcs} (hn : names.Nodup) (S : ArcSim names IA NA) {x y : Nat} {c : Int}
    {i : Nat} (hi : names[i]? = some x) (hw : Walk NA x y c) : ∃ j : Nat, names[j]? = some y := by
  obtain ⟨j, _, hj, _, _⟩ := S.walk2 hn hi hw
  exact ⟨j, hj⟩

/-! ## the minimum of a list of non-NaN weights -/

theorem foldl_minW_spec (ws : List W) : ∀ (a : Int), (∀ w ∈ ws, ∃ c, w = some c) →
    ∃ m, ws.foldl (fun m x => if W.lt x m then x else m) (some a) = some m ∧ some m ∈ some a :: ws ∧
      ∀ c, some c ∈ some a :: ws → m ≤ c := by
  induction ws with
  | nil =>
    intro a _
    refine ⟨a, rfl, by simp, ?_⟩
    intro c hc
    simp at hc
    omega
  | cons w ws ih =>
    intro a hall
    obtain ⟨c, hc⟩ := hall w (List.mem_cons_self ..)
    subst hc
    rw [List.foldl_cons]
    have hall' : ∀ w ∈ ws, ∃ c, w = some c := fun w hw => hall w (List.mem_cons_of_mem _ hw)
    by_cases hlt : c < a
    · have e : (if W.lt (some c) (some a) then some c else some a) = some c := by simp [W.lt, hlt]
      rw [e]
      obtain ⟨m, hm, hmem, hle⟩ := ih c hall'
      refine ⟨m, hm, ?_, ?_⟩
      · rw [List.mem_cons] at hmem
        rcases hmem with h | h
        · rw [h]; simp
        · exact List.mem_cons_of_mem _ (List.mem_cons_of_mem _ h)
      · intro c' hc'
        simp only [List.mem_cons, Option.some.injEq] at hc'
        have hmc := hle c (by simp)
        rcases hc' with h | h | h
        · omega
        · omega
        · exact hle c' (List.mem_cons_of_mem _ h)
    · have e : (if W.lt (some c) (some a) then some c else some a) = some a := by simp [W.lt, hlt]
      rw [e]
      obtain ⟨m, hm, hmem, hle⟩ := ih a hall'
      refine ⟨m, hm, ?_, ?_⟩
      · rw [List.mem_cons] at hmem
        rcases hmem with h | h
        · rw [h]; simp
        · exact List.mem_cons_of_mem _ (List.mem_cons_of_mem _ h)
      · intro c' hc'
        simp only [List.mem_cons, Option.some.injEq] at hc'
        have hma := hle a (by simp)
        rcases hc' with h | h | h
        · omega
        · omega
        · exact hle c' (List.mem_cons_of_mem _ h)

theorem minW_spec (l : List W) (hall : ∀ w ∈ l, ∃ c, w = some c) (hne : l ≠ []) :
    ∃ m, Abs.minW l = some (some m) ∧ some m ∈ l ∧ ∀ c, some c ∈ l → m ≤ c := by
  cases l with
  | nil => exact absurd rfl hne
  | cons w ws =>
    obtain ⟨a, ha⟩ := hall w (List.mem_cons_self ..)
    subst ha
    obtain ⟨m, hm, hmem, hle⟩ := foldl_minW_spec ws a (fun w hw => hall w (List.mem_cons_of_mem _ hw))
    exact ⟨m, by simp [Abs.minW, hm], hmem, hle⟩

/-! ## reading the coupling invariant -/

theorem wf_names_nodup (g : Store) (h : g.wf = true) : g.names.Nodup :=
  C03.nodesOk_nodup g (C09M.wf_parts g h).1

theorem edge_endpoints (g : Store) (h : g.wf = true) (e : Edge) (he : e ∈ g.allEdges) :
    e.u ∈ g.names ∧ e.v ∈ g.names := by
  have eP := C03.edgesOk_read g (C09M.wf_parts g h).2.1
  obtain ⟨kv, hkv, hekv⟩ := (C03.mem_allEdges g e).1 he
  have hkey := eP.key kv hkv e hekv
  have hlk : alookup g.edges kv.1 = some kv.2 := C03.alookup_of_mem _ _ _ eP.nd hkv
  have := eP.inN _ _ hlk
  rw [← hkey] at this
  exact this

theorem hasEdge_iff_exists (g : Store) (x y : Nat) :
    g.hasEdge x y = true ↔ ∃ e ∈ g.allEdges, (e.u = x ∧ e.v = y) ∨ (g.specs.directed = false ∧ e.u = y ∧ e.v = x) := by
  simp only [Store.hasEdge, List.any_eq_true, Bool.or_eq_true, Bool.and_eq_true, beq_iff_eq, Bool.not_eq_true']
  constructor
  · rintro ⟨e, he, h⟩
    refine ⟨e, he, ?_⟩
    rcases h with h | ⟨⟨h1, h2⟩, h3⟩
    · exact Or.inl h
    · exact Or.inr ⟨h1, h2, h3⟩
  · rintro ⟨e, he, h⟩
    refine ⟨e, he, ?_⟩
    rcases h with h | ⟨h1, h2, h3⟩
    · exact Or.inl h
    · exact Or.inr ⟨⟨h1, h2⟩, h3⟩

theorem mem_between (g : Store) (x y : Nat) (e : Edge) :
    e ∈ g.abs.between g.specs.directed x y ↔
      e ∈ g.allEdges ∧ ((e.u = x ∧ e.v = y) ∨ (g.specs.directed = false ∧ e.u = y ∧ e.v = x)) := by
  simp only [Abs.between, Store.abs, List.mem_filter, Abs.sameKey, Bool.or_eq_true, Bool.and_eq_true, beq_iff_eq,
    Bool.not_eq_true']
  constructor
  · rintro ⟨he, h⟩
    refine ⟨he, ?_⟩
    rcases h with h | ⟨⟨h1, h2⟩, h3⟩
    · exact Or.inl h
    · exact Or.inr ⟨h1, h2, h3⟩
  · rintro ⟨he, h⟩
    refine ⟨he, ?_⟩
    rcases h with h | ⟨h1, h2, h3⟩
    · exact Or.inl h
    · exact Or.inr ⟨⟨h1, h2⟩, h3⟩

theorem getElem?_of_lt_names (g : Store) (i : Nat) (hi : i < g.nodesVec.length) : ∃ x, g.names[i]? = some x := by
  have : i < g.names.length := by rw [C03.names_length]; exact hi
  exact ⟨g.names[i], List.getElem?_eq_getElem this⟩

theorem lt_of_names (g : Store) {i x : Nat} (hi : g.names[i]? = some x) : i < g.nodesVec.length := by
  have := C03.lt_of_getElem? hi
  rwa [C03.names_length] at this

/-- hop-count mode: index arcs and name arcs correspond exactly -/
theorem store_sim_unit (g : Store) (h : g.wf = true) (IA : Arcs)
    (hIA : ∀ u x w, (u, x, w) ∈ IA ↔ (u < g.nodesVec.length ∧ w = 1 ∧ ∃ a ∈ g.succVec[u]?.getD [], a.1 = x)) :
    ArcSim g.names IA (g.abs.arcs g.specs.directed false) where
  d1 := by
    intro i j c hm
    obtain ⟨hi, hc, a, ha, haj⟩ := (hIA i j c).1 hm
    subst hc
    have hj : j < g.nodesVec.length := by rw [← haj]; exact C03_indexes_in_range g h i a (Or.inl ha)
    obtain ⟨x, hx⟩ := getElem?_of_lt_names g i hi
    obtain ⟨y, hy⟩ := getElem?_of_lt_names g j hj
    have hex : ∃ w, (j, w) ∈ (g.succVec[i]?).getD [] := ⟨a.2, by rw [← haj]; exact ha⟩
    have hhas := ((C03_successors_match_store g h i j x y hx hy).1).1 hex
    obtain ⟨e, he, hk⟩ := (hasEdge_iff_exists g x y).1 hhas
    refine ⟨x, y, 1, hx, hy, Int.le_refl _, ?_⟩
    rw [mem_abs_arcs]
    exact ⟨e, he, by simp, hk⟩
  d2 := by
    intro x y c hm
    rw [mem_abs_arcs] at hm
    obtain ⟨e, he, hc, hk⟩ := hm
    have he' : e ∈ g.allEdges := he
    simp only [Bool.false_eq_true, if_false, Option.some.injEq] at hc
    subst hc
    have hends := edge_endpoints g h e he'
    have hxy : x ∈ g.names ∧ y ∈ g.names := by
      rcases hk with ⟨e1, e2⟩ | ⟨_, e1, e2⟩
      · rw [← e1, ← e2]; exact hends
      · rw [← e1, ← e2]; exact ⟨hends.2, hends.1⟩
    obtain ⟨i, hi⟩ := List.mem_iff_getElem?.1 hxy.1
    obtain ⟨j, hj⟩ := List.mem_iff_getElem?.1 hxy.2
    have hhas : g.hasEdge x y = true := (hasEdge_iff_exists g x y).2 ⟨e, he', hk⟩
    obtain ⟨w, hw⟩ := ((C03_successors_match_store g h i j x y hi hj).1).2 hhas
    refine ⟨i, j, 1, hi, hj, Int.le_refl _, ?_⟩
    rw [hIA]
    exact ⟨lt_of_names g hi, rfl, (j, w), hw, rfl⟩

theorem row_mem_succVec (g : Store) (i : Nat) (a : Adj) (ha : a ∈ g.succVec[i]?.getD []) :
    ∃ row ∈ g.succVec, a ∈ row := by
  cases hr : g.succVec[i]? with
  | none => rw [hr] at ha; simp at ha
  | some row =>
    rw [hr] at ha
    exact ⟨row, List.mem_of_getElem? hr, ha⟩

/-- weighted mode, every traversal entry and every stored edge weighted: the cheapest entry for a pair of nodes is the
    cheapest stored edge between them -/
theorem store_sim_weighted (g : Store) (h : g.wf = true) (IA : Arcs)
    (hIA : ∀ u x w, (u, x, w) ∈ IA ↔ (u < g.nodesVec.length ∧ (x, some w) ∈ g.succVec[u]?.getD []))
    (hent : ∀ row ∈ g.succVec, ∀ a ∈ row, ∃ c, a.2 = some c)
    (hedge : ∀ e ∈ g.allEdges, ∃ c, e.w = some c) :
    ArcSim g.names IA (g.abs.arcs g.specs.directed true) where
  d1 := by
    intro i j c hm
    obtain ⟨hi, ha⟩ := (hIA i j c).1 hm
    have hj : j < g.nodesVec.length := C03_indexes_in_range g h i (j, some c) (Or.inl ha)
    obtain ⟨x, hx⟩ := getElem?_of_lt_names g i hi
    obtain ⟨y, hy⟩ := getElem?_of_lt_names g j hj
    have hex : ∃ w, (j, w) ∈ (g.succVec[i]?).getD [] := ⟨some c, ha⟩
    have hmin := (C03_successors_match_store g h i j x y hx hy).2 hex
    -- the entries for j
    have hmemW : some c ∈ (((g.succVec[i]?).getD []).filter (·.1 == j)).map (·.2) := by
      rw [List.mem_map]
      exact ⟨(j, some c), by simp [ha], rfl⟩
    have hallW : ∀ w ∈ (((g.succVec[i]?).getD []).filter (·.1 == j)).map (·.2), ∃ c, w = some c := by
      intro w hw
      rw [List.mem_map] at hw
      obtain ⟨a, ha', e⟩ := hw
      obtain ⟨row, hrow, har⟩ := row_mem_succVec g i a (List.mem_filter.1 ha').1
      rw [← e]; exact hent row hrow a har
    obtain ⟨m1, hm1, _, hle1⟩ := minW_spec _ hallW (List.ne_nil_of_mem hmemW)
    rw [hm1] at hmin
    have hallS : ∀ w ∈ (g.abs.between g.specs.directed x y).map (·.w), ∃ c, w = some c := by
      intro w hw
      rw [List.mem_map] at hw
      obtain ⟨e, he, e1⟩ := hw
      rw [← e1]; exact hedge e ((mem_between g x y e).1 he).1
    have hneS : (g.abs.between g.specs.directed x y).map (·.w) ≠ [] := by
      intro e; rw [e] at hmin; simp [Abs.minW] at hmin
    obtain ⟨m2, hm2, hmem2, _⟩ := minW_spec _ hallS hneS
    rw [hm2] at hmin
    simp only [Option.some.injEq] at hmin
    subst hmin
    rw [List.mem_map] at hmem2
    obtain ⟨e, he, hew⟩ := hmem2
    obtain ⟨he', hk⟩ := (mem_between g x y e).1 he
    refine ⟨x, y, m1, hx, hy, hle1 c hmemW, ?_⟩
    rw [mem_abs_arcs]
    exact ⟨e, he', by simpa using hew, hk⟩
  d2 := by
    intro x y c hm
    rw [mem_abs_arcs] at hm
    obtain ⟨e, he, hc, hk⟩ := hm
    have he' : e ∈ g.allEdges := he
    simp only [if_true] at hc
    have hends := edge_endpoints g h e he'
    have hxy : x ∈ g.names ∧ y ∈ g.names := by
      rcases hk with ⟨e1, e2⟩ | ⟨_, e1, e2⟩
      · rw [← e1, ← e2]; exact hends
      · rw [← e1, ← e2]; exact ⟨hends.2, hends.1⟩
    obtain ⟨i, hi⟩ := List.mem_iff_getElem?.1 hxy.1
    obtain ⟨j, hj⟩ := List.mem_iff_getElem?.1 hxy.2
    have hhas : g.hasEdge x y = true := (hasEdge_iff_exists g x y).2 ⟨e, he', hk⟩
    have hex := ((C03_successors_match_store g h i j x y hi hj).1).2 hhas
    have hmin := (C03_successors_match_store g h i j x y hi hj).2 hex
    have hmemS : some c ∈ (g.abs.between g.specs.directed x y).map (·.w) := by
      rw [List.mem_map]
      exact ⟨e, (mem_between g x y e).2 ⟨he', hk⟩, hc⟩
    have hallS : ∀ w ∈ (g.abs.between g.specs.directed x y).map (·.w), ∃ c, w = some c := by
      intro w hw
      rw [List.mem_map] at hw
      obtain ⟨e, he, e1⟩ := hw
      rw [← e1]; exact hedge e ((mem_between g x y e).1 he).1
    obtain ⟨m, hm, _, hle⟩ := minW_spec _ hallS (List.ne_nil_of_mem hmemS)
    rw [hm] at hmin
    have hallW : ∀ w ∈ (((g.succVec[i]?).getD []).filter (·.1 == j)).map (·.2), ∃ c, w = some c := by
      intro w hw
      rw [List.mem_map] at hw
      obtain ⟨a, ha', e⟩ := hw
      obtain ⟨row, hrow, har⟩ := row_mem_succVec g i a (List.mem_filter.1 ha').1
      rw [← e]; exact hent row hrow a har
    have hneW : (((g.succVec[i]?).getD []).filter (·.1 == j)).map (·.2) ≠ [] := by
      intro e; rw [e] at hmin; simp [Abs.minW] at hmin
    obtain ⟨m', hm', hmem', _⟩ := minW_spec _ hallW hneW
    rw [hm'] at hmin
    simp only [Option.some.injEq] at hmin
    subst hmin
    rw [List.mem_map] at hmem'
    obtain ⟨a, ha, haw⟩ := hmem'
    rw [List.mem_filter] at ha
    have haj : a.1 = j := by simpa using ha.2
    refine ⟨i, j, m', hi, hj, hle c hmemS, ?_⟩
    rw [hIA]
    refine ⟨lt_of_names g hi, ?_⟩
    have : a = (j, some m') := by rw [← haj, ← haw]
    rw [← this]; exact ha.1

end C06T
end Graphrs
