/-
  The two edge stores hold the same lists; inserting a list under corresponding keys keeps `EdgesInv`.
-/
import GraphrsModel.Lemmas.EdgesOk
namespace Graphrs
namespace Store

theorem emap_eq_edges {t : Store} (hn : NodesInv t) (he : EdgesInv t) {x y i j : Nat}
    (hx : alookup t.nodesMap x = some i) (hy : alookup t.nodesMap y = some j) :
    alookup t.edgesMap (idxKey t.specs.directed i j) = alookup t.edges (nameKey t.specs.directed x y) := by
  have hx' := (hn.map_iff x i).mp hx
  have hy' := (hn.map_iff y j).mp hy
  cases hA : alookup t.edgesMap (idxKey t.specs.directed i j) with
  | some l =>
    obtain ⟨_, _, _, x', y', e1, e2, a4⟩ := he.emap_ok _ _ hA
    rcases idxKey_cases t.specs.directed i j with ⟨hk, _⟩ | ⟨hk, hd, _⟩
    · rw [hk] at e1 e2
      simp only at e1 e2
      rw [hx'] at e1; rw [hy'] at e2
      cases e1; cases e2
      exact a4.symm
    · rw [hk] at e1 e2
      simp only at e1 e2
      rw [hy'] at e1; rw [hx'] at e2
      cases e1; cases e2
      rw [hd] at a4 ⊢
      rw [nameKey_symm]; exact a4.symm
  | none =>
    cases hB : alookup t.edges (nameKey t.specs.directed x y) with
    | none => rfl
    | some l =>
      exfalso
      obtain ⟨_, _, _, _, _, _, _, i', j', e1, e2, a8⟩ := he.edges_ok _ _ hB
      rcases idxKey_cases t.specs.directed x y with ⟨hk, _⟩ | ⟨hk, hd, _⟩
      · rw [show nameKey = idxKey from rfl, hk] at e1 e2
        simp only at e1 e2
        rw [hx] at e1; rw [hy] at e2
        cases e1; cases e2
        rw [hA] at a8; cases a8
      · rw [show nameKey = idxKey from rfl, hk] at e1 e2
        simp only at e1 e2
        rw [hy] at e1; rw [hx] at e2
        cases e1; cases e2
        rw [hd] at a8 hA
        rw [idxKey_symm, hA] at a8; cases a8

/-- a stored edge with the endpoints `u`, `v` exists iff the name key of `(u, v)` is bound -/
theorem exists_sameKey_iff {t : Store} (he : EdgesInv t) (u v : Nat) :
    (∃ e' ∈ t.allEdges, Abs.sameKey t.specs.directed e' u v = true) ↔
      (alookup t.edges (nameKey t.specs.directed u v)).isSome = true := by
  constructor
  · rintro ⟨e', hmem, hk⟩
    simp only [allEdges, List.mem_flatMap] at hmem
    obtain ⟨⟨k, l⟩, hkl, hel⟩ := hmem
    have hl := AL.mem_lookup he.edges_nodup hkl
    obtain ⟨_, a2, a3, _⟩ := he.edges_ok k l hl
    have hkey := a2 e' hel
    have : nameKey t.specs.directed u v = k := by
      rw [← hkey]
      rw [← hkey] at a3
      revert hk a3
      cases t.specs.directed <;> simp [Abs.sameKey, nameKey] <;> grind
    rw [this, hl]; rfl
  · intro h
    obtain ⟨l, hl⟩ := Option.isSome_iff_exists.mp h
    obtain ⟨a1, a2, _⟩ := he.edges_ok _ l hl
    obtain ⟨e', he'⟩ := List.exists_mem_of_ne_nil l a1
    refine ⟨e', ?_, ?_⟩
    · simp only [allEdges, List.mem_flatMap]
      exact ⟨(_, l), AL.lookup_mem hl, he'⟩
    · have := a2 e' he'
      revert this
      cases t.specs.directed <;> simp [Abs.sameKey, nameKey] <;> grind

/-- for a stored edge: same endpoints as `(u, v)` iff stored under the name key of `(u, v)` -/
theorem sameKey_iff_key {t : Store} (he : EdgesInv t) {e' : Edge} (hmem : e' ∈ t.allEdges) (u v : Nat) :
    Abs.sameKey t.specs.directed e' u v = true ↔ (e'.u, e'.v) = nameKey t.specs.directed u v := by
  simp only [allEdges, List.mem_flatMap] at hmem
  obtain ⟨⟨k, l⟩, hkl, hel⟩ := hmem
  have hl := AL.mem_lookup he.edges_nodup hkl
  obtain ⟨_, a2, a3, _⟩ := he.edges_ok k l hl
  have hkey := a2 e' hel
  rw [← hkey] at a3
  revert a3
  cases t.specs.directed <;> simp [Abs.sameKey, nameKey] <;> grind


theorem NodesInv.name_inj {s : Store} (h : NodesInv s) {a b z : Nat} (ha : s.names[a]? = some z)
    (hb : s.names[b]? = some z) : a = b := by
  have h1 := (h.map_iff z a).mpr ha
  have h2 := (h.map_iff z b).mpr hb
  rw [h1] at h2; exact Option.some.inj h2

theorem insert_edgesInv {t : Store} (hn : NodesInv t) (he : EdgesInv t) {u v ui vi : Nat} (L : List Edge)
    (hu : alookup t.nodesMap u = some ui) (hv : alookup t.nodesMap v = some vi)
    (hL1 : L ≠ []) (hL2 : ∀ e ∈ L, (e.u, e.v) = nameKey t.specs.directed u v)
    (hL3 : t.specs.multi = true ∨ L.length = 1) (hsl : t.specs.selfLoops = true ∨ u ≠ v) :
    EdgesInv { t with edges := ainsert t.edges (nameKey t.specs.directed u v) L,
                      edgesMap := ainsert t.edgesMap (idxKey t.specs.directed ui vi) L } := by
  have hu' := (hn.map_iff u ui).mp hu
  have hv' := (hn.map_iff v vi).mp hv
  have hum : u ∈ t.names := (hn.mem_names_iff u).mpr ⟨_, hu⟩
  have hvm : v ∈ t.names := (hn.mem_names_iff v).mpr ⟨_, hv⟩
  refine ⟨AL.nodup_insert he.edges_nodup _ _, AL.nodup_insert he.emap_nodup _ _, ?_, ?_⟩
  · intro k l hl
    simp only [AL.lookup_insert] at hl
    by_cases hK : nameKey t.specs.directed u v = k
    · rw [if_pos hK] at hl
      cases hl
      subst hK
      refine ⟨hL1, hL2, ?_, ?_, ?_, hL3, ?_, ?_⟩
      · show t.specs.directed = true ∨ _
        rcases idxKey_cases t.specs.directed u v with ⟨hk, h⟩ | ⟨hk, hd, h⟩ <;>
          rw [show nameKey = idxKey from rfl, hk] <;> simp <;> omega
      · show _ ∈ t.names
        rcases idxKey_cases t.specs.directed u v with ⟨hk, h⟩ | ⟨hk, hd, h⟩ <;>
          rw [show nameKey = idxKey from rfl, hk] <;> assumption
      · show _ ∈ t.names
        rcases idxKey_cases t.specs.directed u v with ⟨hk, h⟩ | ⟨hk, hd, h⟩ <;>
          rw [show nameKey = idxKey from rfl, hk] <;> assumption
      · show t.specs.selfLoops = true ∨ _
        rcases hsl with h | h
        · exact Or.inl h
        · right
          rcases idxKey_cases t.specs.directed u v with ⟨hk, _⟩ | ⟨hk, hd, _⟩ <;>
            rw [show nameKey = idxKey from rfl, hk] <;> simp <;> omega
      · show ∃ i j, alookup t.nodesMap _ = some i ∧ alookup t.nodesMap _ = some j ∧
          alookup (ainsert t.edgesMap (idxKey t.specs.directed ui vi) L) (idxKey t.specs.directed i j) = some L
        rcases idxKey_cases t.specs.directed u v with ⟨hk, _⟩ | ⟨hk, hd, _⟩
        · rw [show nameKey = idxKey from rfl, hk]
          exact ⟨ui, vi, hu, hv, by simp [AL.lookup_insert]⟩
        · rw [show nameKey = idxKey from rfl, hk]
          refine ⟨vi, ui, hv, hu, ?_⟩
          rw [hd, idxKey_symm]; simp [AL.lookup_insert]
    · rw [if_neg hK] at hl
      obtain ⟨a1, a2, a3, a4, a5, a6, a7, i, j, e1, e2, a8⟩ := he.edges_ok k l hl
      refine ⟨a1, a2, a3, a4, a5, a6, a7, i, j, e1, e2, ?_⟩
      show alookup (ainsert t.edgesMap (idxKey t.specs.directed ui vi) L) (idxKey t.specs.directed i j) = some l
      rw [AL.lookup_insert, if_neg]
      · exact a8
      · intro heq
        apply hK
        have := key_inj t.specs.directed (x := k.1) (y := k.2) (u := u) (v := v) (i := i) (j := j) (ui := ui) (vi := vi)
          ⟨fun e => hn.idx_inj e1 (e ▸ hu), fun e => hn.idx_inj e1 (e ▸ hv),
           fun e => hn.idx_inj e2 (e ▸ hu), fun e => hn.idx_inj e2 (e ▸ hv)⟩ heq.symm
        rw [← this]
        exact idxKey_canon _ k a3
  · intro k l hl
    simp only [AL.lookup_insert] at hl
    by_cases hK : idxKey t.specs.directed ui vi = k
    · rw [if_pos hK] at hl
      cases hl
      subst hK
      have hui := hn.lookup_lt hu
      have hvi := hn.lookup_lt hv
      refine ⟨?_, ?_, ?_, ?_⟩
      · show _ < t.nodesVec.length
        rcases idxKey_cases t.specs.directed ui vi with ⟨hk, h⟩ | ⟨hk, hd, h⟩ <;> rw [hk] <;> assumption
      · show _ < t.nodesVec.length
        rcases idxKey_cases t.specs.directed ui vi with ⟨hk, h⟩ | ⟨hk, hd, h⟩ <;> rw [hk] <;> assumption
      · show t.specs.directed = true ∨ _
        rcases idxKey_cases t.specs.directed ui vi with ⟨hk, h⟩ | ⟨hk, hd, h⟩ <;> rw [hk] <;> simp <;> omega
      · show ∃ x y, t.names[_]? = some x ∧ t.names[_]? = some y ∧
          alookup (ainsert t.edges (nameKey t.specs.directed u v) L) (nameKey t.specs.directed x y) = some L
        rcases idxKey_cases t.specs.directed ui vi with ⟨hk, _⟩ | ⟨hk, hd, _⟩
        · rw [hk]
          exact ⟨u, v, hu', hv', by simp [AL.lookup_insert]⟩
        · rw [hk]
          refine ⟨v, u, hv', hu', ?_⟩
          rw [hd, nameKey_symm]; simp [AL.lookup_insert]
    · rw [if_neg hK] at hl
      obtain ⟨a1, a2, a3, x, y, e1, e2, a4⟩ := he.emap_ok k l hl
      refine ⟨a1, a2, a3, x, y, e1, e2, ?_⟩
      show alookup (ainsert t.edges (nameKey t.specs.directed u v) L) (nameKey t.specs.directed x y) = some l
      rw [AL.lookup_insert, if_neg]
      · exact a4
      · intro heq
        apply hK
        have := key_inj t.specs.directed (x := k.1) (y := k.2) (u := ui) (v := vi) (i := x) (j := y) (ui := u) (vi := v)
          ⟨fun e => hn.name_inj e1 (e ▸ hu'), fun e => hn.name_inj e1 (e ▸ hv'),
           fun e => hn.name_inj e2 (e ▸ hu'), fun e => hn.name_inj e2 (e ▸ hv')⟩ heq.symm
        rw [show nameKey = idxKey from rfl] at this
        rw [← this]
        exact idxKey_canon _ k a3

end Store
end Graphrs
