/-
  The loop invariant of `bfs_equal_size_partitions` (C20): the part index stays in range, the search for an
  unvisited node succeeds while fewer than n nodes are placed, every placed index is a node position, and every
  queued index is a node position (so `visited[current]` and `successors_vec[current]` are in range).
-/
import GraphrsModel.Lemmas.NoPanic
import GraphrsModel.Model.Components
namespace Graphrs
namespace NP
open Store

structure EqInv (n k M : Nat) (parts : List (List Nat)) (visited : List Bool) (count part : Nat) : Prop where
  plen : parts.length = k
  vlen : visited.length = n
  part_lt : part < k
  later : ∀ j, part < j → j < k → parts[j]? = some []
  cnt : count = part * M + (parts[part]?.getD []).length
  vis : count = visited.count true
  bound : ∀ p ∈ parts, ∀ i ∈ p, i < n

theorem count_set_true {l : List Bool} {i : Nat} (h : l[i]? = some false) :
    (l.set i true).count true = l.count true + 1 := by
  have hlt : i < l.length := getElem?_lt h
  have hi : l[i] = false := by
    rw [List.getElem?_eq_getElem hlt] at h; exact Option.some.inj h
  rw [List.count_set hlt, hi]; simp

theorem eqInner_inv (s : Store) (n k M : Nat) (hsl : s.succVec.length = n)
    (hrow : ∀ (i : Nat) (row : List Adj), s.succVec[i]? = some row → ∀ a ∈ row, a.1 < n) :
    ∀ (fuel : Nat) (parts : List (List Nat)) (visited : List Bool)
    (count : Nat) (queue : List Nat) (part : Nat),
    EqInv n k M parts visited count part → (parts[part]?.getD []).length < M → (∀ q ∈ queue, q < n) →
    ∃ st', eqInner s M fuel ⟨parts, visited, count, queue, part⟩ = some st' ∧
      EqInv n k M st'.parts st'.visited st'.count st'.part ∧ (st'.parts[st'.part]?.getD []).length ≤ M ∧
      (∀ q ∈ st'.queue, q < n) := by
  intro fuel
  induction fuel with
  | zero =>
    intro parts visited count queue part h hlt hq
    exact ⟨_, rfl, h, Nat.le_of_lt hlt, hq⟩
  | succ fuel ih =>
    intro parts visited count queue part h hlt hq
    cases queue with
    | nil => exact ⟨_, rfl, h, Nat.le_of_lt hlt, hq⟩
    | cons cur rest =>
      have hcur : cur < n := hq cur (by simp)
      have hrest : ∀ q ∈ rest, q < n := fun q hm => hq q (List.mem_cons_of_mem _ hm)
      have hcv : cur < visited.length := by rw [h.vlen]; exact hcur
      have hvget : visited[cur]? = some visited[cur] := List.getElem?_eq_getElem hcv
      simp only [eqInner]
      rw [hvget]
      cases hb : visited[cur] with
      | true =>
        simp only
        exact ih parts visited count rest part h hlt hrest
      | false =>
        simp only
        have hvf : visited[cur]? = some false := by rw [hvget, hb]
        have hpl : part < parts.length := by rw [h.plen]; exact h.part_lt
        have hp : parts[part]? = some parts[part] := List.getElem?_eq_getElem hpl
        rw [hp] at hlt ⊢
        simp only [Option.getD_some] at hlt
        simp only
        have hget : (parts.set part (parts[part] ++ [cur]))[part]? = some (parts[part] ++ [cur]) := by
          simp [hpl]
        have h' : EqInv n k M (parts.set part (parts[part] ++ [cur])) (visited.set cur true) (count + 1) part := by
          refine ⟨by simp [h.plen], by simp [h.vlen], h.part_lt, ?_, ?_, ?_, ?_⟩
          · intro j hj hjk
            rw [List.getElem?_set_ne (by omega)]
            exact h.later j hj hjk
          · rw [hget]
            have := h.cnt
            rw [hp] at this
            simp at this ⊢
            omega
          · rw [count_set_true hvf, ← h.vis]
          · intro p hpm i hi
            rcases List.mem_or_eq_of_mem_set hpm with hpm | rfl
            · exact h.bound p hpm i hi
            · rcases List.mem_append.mp hi with hi | hi
              · exact h.bound _ (List.getElem_mem hpl) i hi
              · simp at hi; subst hi; exact hcur
        by_cases hfull : ((parts[part] ++ [cur]).length == M) = true
        · rw [if_pos hfull]
          refine ⟨_, rfl, h', ?_, hrest⟩
          simp only [hget, Option.getD_some]
          simp at hfull ⊢; omega
        · rw [if_neg hfull]
          have hcs : cur < s.succVec.length := by rw [hsl]; exact hcur
          have hsget : s.succVec[cur]? = some s.succVec[cur] := List.getElem?_eq_getElem hcs
          rw [hsget]
          simp only
          apply ih _ _ _ _ _ h'
          · simp only [hget, Option.getD_some]
            simp at hfull ⊢; omega
          · intro q hqm
            rcases List.mem_append.mp hqm with hqm | hqm
            · exact hrest q hqm
            · obtain ⟨a, ha, rfl⟩ := List.mem_map.mp hqm
              exact hrow cur _ hsget a ha

theorem count_true_eq_length {l : List Bool} (h : ∀ i, i < l.length → l[i]?.getD true = true) :
    l.count true = l.length := by
  rw [List.count_eq_length]
  intro b hb
  obtain ⟨i, hi⟩ := List.mem_iff_getElem?.mp hb
  have := h i (getElem?_lt hi)
  rw [hi] at this
  exact this.symm

theorem eqOuter_inv (s : Store) (n k M : Nat) (hM : 0 < M) (hnk : n < k * M) (hsl : s.succVec.length = n)
    (hrow : ∀ (i : Nat) (row : List Adj), s.succVec[i]? = some row → ∀ a ∈ row, a.1 < n) :
    ∀ (fuel : Nat) (parts : List (List Nat)) (visited : List Bool) (count : Nat) (queue : List Nat) (part : Nat),
    EqInv n k M parts visited count part → (parts[part]?.getD []).length < M → (∀ q ∈ queue, q < n) →
    ∃ st', eqOuter s n M fuel ⟨parts, visited, count, queue, part⟩ = some st' ∧
      ∀ p ∈ st'.parts, ∀ i ∈ p, i < n := by
  intro fuel
  induction fuel with
  | zero =>
    intro parts visited count queue part h hlt hq
    exact ⟨_, rfl, h.bound⟩
  | succ fuel ih =>
    intro parts visited count queue part h hlt hq
    simp only [eqOuter]
    by_cases hc : count ≥ n
    · rw [if_pos hc]; exact ⟨_, rfl, h.bound⟩
    · rw [if_neg hc]
      cases hf : (List.range n).find? (fun i => !(visited[i]?.getD true)) with
      | none =>
        exfalso
        rw [List.find?_eq_none] at hf
        have : visited.count true = visited.length := by
          apply count_true_eq_length
          intro i hi
          have := hf i (by rw [List.mem_range, ← h.vlen]; exact hi)
          simpa using this
        rw [← h.vis, h.vlen] at this
        omega
      | some node =>
        simp only
        have hnode : node < n := List.mem_range.mp (List.mem_of_find?_eq_some hf)
        obtain ⟨st', hst', h', hle, hq'⟩ := eqInner_inv s n k M hsl hrow ((queue ++ [node]).length + s.adjTotal + 2)
          parts visited count (queue ++ [node]) part h hlt (by
            intro q hqm
            rcases List.mem_append.mp hqm with hqm | hqm
            · exact hq q hqm
            · simp at hqm; subst hqm; exact hnode)
        rw [hst']
        simp only
        have hpl : st'.part < st'.parts.length := by rw [h'.plen]; exact h'.part_lt
        have hp : st'.parts[st'.part]? = some st'.parts[st'.part] := List.getElem?_eq_getElem hpl
        rw [hp] at hle ⊢
        simp only [Option.getD_some] at hle
        by_cases hfull : st'.parts[st'.part].length = M
        · have hcnt := h'.cnt
          rw [hp] at hcnt
          simp only [Option.getD_some] at hcnt
          have hcn : st'.count ≤ n := by
            rw [h'.vis, ← h'.vlen]; exact List.count_le_length
          have hlt' : st'.part + 1 < k := by
            have e : st'.count = (st'.part + 1) * M := by rw [hcnt, hfull, Nat.add_mul]; simp
            have : (st'.part + 1) * M < k * M := by omega
            exact Nat.lt_of_mul_lt_mul_right this
          have hnext := h'.later (st'.part + 1) (by omega) hlt'
          simp only [Option.map_some, hfull, beq_self_eq_true, if_true]
          apply ih
          · refine ⟨h'.plen, h'.vlen, hlt', ?_, ?_, h'.vis, h'.bound⟩
            · intro j hj hjk; exact h'.later j (by omega) hjk
            · rw [hnext, hcnt, hfull, Nat.add_mul]; simp
          · rw [hnext]; simpa using hM
          · intro q hqm; cases hqm
        · have hne : (some st'.parts[st'.part].length == some M) = false := by simpa using hfull
          simp only [Option.map_some, hne, Bool.false_eq_true, if_false]
          apply ih _ _ _ _ _ h'
          · rw [hp]; simp only [Option.getD_some]; omega
          · exact hq'

theorem eqInv_init (n k M : Nat) (hk : 0 < k) :
    EqInv n k M (List.replicate k []) (List.replicate n false) 0 0 := by
  refine ⟨by simp, by simp, hk, ?_, ?_, ?_, ?_⟩
  · intro j _ hjk; simp [hjk]
  · simp [hk]
  · simp [List.count_replicate]
  · intro p hp i hi
    rw [List.eq_of_mem_replicate hp] at hi; cases hi

theorem bfsEqualSizePartitions_noPanic (s : Store) (hn : NodesInv s) (hvec : s.vecOk = true) (k : Nat) (hk : 0 < k) :
    (s.bfsEqualSizePartitions k).isPanic = false := by
  unfold bfsEqualSizePartitions
  rw [if_neg (by simp; omega)]
  simp only
  obtain ⟨st', hst', hb⟩ := eqOuter_inv s s.numberOfNodes k (s.numberOfNodes / k + 1) (Nat.succ_pos _)
    (Nat.lt_mul_div_succ _ hk) hn.succ_len (vec_lt hvec).1 (s.numberOfNodes + 1) _ _ _ [] _
    (eqInv_init s.numberOfNodes k _ hk) (by simp [hk]) (by intro q hq; cases hq)
  rw [hst']
  simp only
  obtain ⟨l, hl⟩ := Outcome.foldl_ok st'.parts (fun p => ∀ i ∈ p, i < s.nodesVec.length)
    (fun (out : List (List Nat)) (part : List Nat) =>
      Outcome.bind (part.foldl (fun a i => Outcome.bind a (fun l =>
        Outcome.bind (Outcome.ofOption "bfs_equal_size_partitions: get_node_by_index().unwrap()" (s.getNodeByIndex i))
          (fun nd => Outcome.ok (l ++ [nd.name])))) (.ok []))
        (fun names => Outcome.ok (out ++ [names]))) [] hb
    (by
      intro out part hp
      obtain ⟨names, hnames⟩ := Outcome.foldl_ok part (fun i => i < s.nodesVec.length)
        (fun (l : List Nat) (i : Nat) =>
          Outcome.bind (Outcome.ofOption "bfs_equal_size_partitions: get_node_by_index().unwrap()" (s.getNodeByIndex i))
            (fun nd => Outcome.ok (l ++ [nd.name]))) [] hp
        (by
          intro l i hi
          have : s.getNodeByIndex i = some s.nodesVec[i] := by
            simp [getNodeByIndex, hn.rev_eq, hi]
          exact ⟨_, by rw [this]; rfl⟩)
      exact ⟨_, by rw [hnames]; rfl⟩)
  exact Outcome.isPanic_of_ok hl

end NP
end Graphrs
