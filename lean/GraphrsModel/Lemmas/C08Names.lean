/-
  `convert_shortest_path_info_vec_to_t_map` (`Store.spToNames`): it succeeds iff every index it meets is a node position,
  and then it binds `name(index) ↦ ⟨dist, paths renamed⟩` for every entry.
-/
import GraphrsModel.Model.Dijkstra
import GraphrsModel.Lemmas.C08Fold
namespace Graphrs
namespace C08A
open C08F

/-- the name at position `i` (0 when there is none) -/
def nameD (s : Store) (i : Nat) : Nat := ((s.getNodeByIndex i).map (·.name)).getD 0

def isIdx (s : Store) (i : Nat) : Prop := ∃ nd, s.getNodeByIndex i = some nd

def pathH (s : Store) (l : List Nat) (i : Nat) : Outcome (List Nat) :=
  (Outcome.ofOption "convert: get_node_by_index().unwrap()" (s.getNodeByIndex i)).bind fun nd => .ok (l ++ [nd.name])

def convPath (s : Store) (path : List Nat) : Outcome (List Nat) :=
  path.foldl (fun nacc i => Outcome.bind nacc (fun l => pathH s l i)) (.ok [])

def pathsH (s : Store) (ps : List (List Nat)) (path : List Nat) : Outcome (List (List Nat)) :=
  (convPath s path).bind fun np => .ok (ps ++ [np])

def convPaths (s : Store) (paths : List (List Nat)) : Outcome (List (List Nat)) :=
  paths.foldl (fun pacc path => Outcome.bind pacc (fun ps => pathsH s ps path)) (.ok [])

def infoH (s : Store) (out : List (Nat × SPInfo)) (p : Nat × SPInfo) : Outcome (List (Nat × SPInfo)) :=
  (Outcome.ofOption "convert: get_node_by_index().unwrap()" (s.getNodeByIndex p.1)).bind fun name =>
    (convPaths s p.2.paths).bind fun paths => .ok (ainsert out name.name ⟨p.2.dist, paths⟩)

theorem spToNames_eq (s : Store) (l : List (Nat × SPInfo)) :
    s.spToNames l = l.foldl (fun acc p => Outcome.bind acc (fun out => infoH s out p)) (.ok []) := rfl

theorem pathH_ok (s : Store) (l l' : List Nat) (i : Nat) :
    pathH s l i = .ok l' ↔ isIdx s i ∧ l' = l ++ [nameD s i] := by
  unfold pathH isIdx nameD
  cases h : s.getNodeByIndex i with
  | none =>
    simp only [Outcome.ofOption, Outcome.bind]
    constructor
    · intro e; cases e
    · rintro ⟨⟨nd, e⟩, _⟩; cases e
  | some nd =>
    simp only [Outcome.ofOption, Outcome.bind, Outcome.ok.injEq, Option.map_some, Option.getD_some]
    constructor
    · intro e; exact ⟨⟨nd, rfl⟩, e.symm⟩
    · rintro ⟨_, e⟩; exact e.symm

theorem path_rel (s : Store) (path : List Nat) : ∀ b r,
    foldRel (pathH s) b path r ↔ (∀ i ∈ path, isIdx s i) ∧ r = b ++ path.map (nameD s) := by
  induction path with
  | nil => intro b r; simp [foldRel]
  | cons i is ih =>
    intro b r
    simp only [foldRel]
    constructor
    · rintro ⟨b', hb', hr⟩
      obtain ⟨h1, h2⟩ := (pathH_ok ..).1 hb'
      subst h2
      obtain ⟨h3, h4⟩ := (ih _ _).1 hr
      refine ⟨?_, ?_⟩
      · intro j hj
        rw [List.mem_cons] at hj
        rcases hj with e | hj
        · subst e; exact h1
        · exact h3 j hj
      · rw [h4]; simp
    · rintro ⟨h1, h2⟩
      refine ⟨b ++ [nameD s i], (pathH_ok ..).2 ⟨h1 i (List.mem_cons_self ..), rfl⟩, (ih _ _).2 ⟨?_, ?_⟩⟩
      · intro j hj; exact h1 j (List.mem_cons_of_mem _ hj)
      · rw [h2]; simp

theorem convPath_ok (s : Store) (path r : List Nat) :
    convPath s path = .ok r ↔ (∀ i ∈ path, isIdx s i) ∧ r = path.map (nameD s) := by
  unfold convPath
  rw [foldl_ok_iff, path_rel]
  simp

theorem pathsH_ok (s : Store) (ps ps' : List (List Nat)) (path : List Nat) :
    pathsH s ps path = .ok ps' ↔ (∀ i ∈ path, isIdx s i) ∧ ps' = ps ++ [path.map (nameD s)] := by
  unfold pathsH
  cases h : convPath s path with
  | ok r =>
    obtain ⟨h1, h2⟩ := (convPath_ok ..).1 h
    subst h2
    simp only [Outcome.bind, Outcome.ok.injEq]
    constructor
    · intro e; exact ⟨h1, e.symm⟩
    · rintro ⟨_, e⟩; exact e.symm
  | err k =>
    simp only [Outcome.bind]
    constructor
    · intro e; cases e
    · rintro ⟨h1, _⟩
      have := (convPath_ok s path _).2 ⟨h1, rfl⟩
      rw [h] at this; cases this
  | panic m =>
    simp only [Outcome.bind]
    constructor
    · intro e; cases e
    · rintro ⟨h1, _⟩
      have := (convPath_ok s path _).2 ⟨h1, rfl⟩
      rw [h] at this; cases this

theorem paths_rel (s : Store) (paths : List (List Nat)) : ∀ b r,
    foldRel (pathsH s) b paths r ↔
      (∀ path ∈ paths, ∀ i ∈ path, isIdx s i) ∧ r = b ++ paths.map (fun path => path.map (nameD s)) := by
  induction paths with
  | nil => intro b r; simp [foldRel]
  | cons p ps ih =>
    intro b r
    simp only [foldRel]
    constructor
    · rintro ⟨b', hb', hr⟩
      obtain ⟨h1, h2⟩ := (pathsH_ok ..).1 hb'
      subst h2
      obtain ⟨h3, h4⟩ := (ih _ _).1 hr
      refine ⟨?_, ?_⟩
      · intro q hq
        rw [List.mem_cons] at hq
        rcases hq with e | hq
        · subst e; exact h1
        · exact h3 q hq
      · rw [h4]; simp
    · rintro ⟨h1, h2⟩
      refine ⟨b ++ [p.map (nameD s)], (pathsH_ok ..).2 ⟨h1 p (List.mem_cons_self ..), rfl⟩, (ih _ _).2 ⟨?_, ?_⟩⟩
      · intro q hq; exact h1 q (List.mem_cons_of_mem _ hq)
      · rw [h2]; simp

theorem convPaths_ok (s : Store) (paths r : List (List Nat)) :
    convPaths s paths = .ok r ↔
      (∀ path ∈ paths, ∀ i ∈ path, isIdx s i) ∧ r = paths.map (fun path => path.map (nameD s)) := by
  unfold convPaths
  rw [foldl_ok_iff, paths_rel]
  simp

/-- every index of the entry is a node position -/
def valid (s : Store) (p : Nat × SPInfo) : Prop :=
  isIdx s p.1 ∧ ∀ path ∈ p.2.paths, ∀ i ∈ path, isIdx s i

/-- the entry by names -/
def conv (s : Store) (p : Nat × SPInfo) : SPInfo := ⟨p.2.dist, p.2.paths.map (fun path => path.map (nameD s))⟩

theorem infoH_ok (s : Store) (out out' : List (Nat × SPInfo)) (p : Nat × SPInfo) :
    infoH s out p = .ok out' ↔ valid s p ∧ out' = ainsert out (nameD s p.1) (conv s p) := by
  unfold infoH valid conv
  cases h : s.getNodeByIndex p.1 with
  | none =>
    simp only [Outcome.ofOption, Outcome.bind]
    constructor
    · intro e; cases e
    · rintro ⟨⟨⟨nd, e⟩, _⟩, _⟩; rw [h] at e; cases e
  | some nd =>
    have hn : nameD s p.1 = nd.name := by simp [nameD, h]
    rw [hn]
    cases h2 : convPaths s p.2.paths with
    | ok r =>
      obtain ⟨h3, h4⟩ := (convPaths_ok ..).1 h2
      subst h4
      simp only [Outcome.ofOption, Outcome.bind, Outcome.ok.injEq]
      constructor
      · intro e; exact ⟨⟨⟨nd, h⟩, h3⟩, e.symm⟩
      · rintro ⟨_, e⟩; exact e.symm
    | err k =>
      simp only [Outcome.ofOption, Outcome.bind]
      constructor
      · intro e; cases e
      · rintro ⟨⟨_, h3⟩, _⟩
        have := (convPaths_ok s p.2.paths _).2 ⟨h3, rfl⟩
        rw [h2] at this; cases this
    | panic m =>
      simp only [Outcome.ofOption, Outcome.bind]
      constructor
      · intro e; cases e
      · rintro ⟨⟨_, h3⟩, _⟩
        have := (convPaths_ok s p.2.paths _).2 ⟨h3, rfl⟩
        rw [h2] at this; cases this

/-- a successful conversion: every entry was valid; the result binds each name once; every binding comes from an entry -/
theorem spToNames_spec (s : Store) (l out : List (Nat × SPInfo)) (h : s.spToNames l = .ok out) :
    (∀ p ∈ l, valid s p) ∧
    (out.map (·.1)).Nodup ∧
    (∀ k, (alookup out k).isSome = l.any (fun p => nameD s p.1 == k)) ∧
    (∀ k v, alookup out k = some v → ∃ p ∈ l, nameD s p.1 = k ∧ v = conv s p) := by
  rw [spToNames_eq, foldl_ok_iff] at h
  have hst : ∀ b x b', infoH s b x = .ok b' → ∃ v, v = conv s x ∧ b' = ainsert b (nameD s x.1) v := by
    intro b x b' hb
    exact ⟨_, rfl, ((infoH_ok ..).1 hb).2⟩
  obtain ⟨i1, i2, i3⟩ := foldRel_insert (infoH s) (fun p => nameD s p.1) (fun p v => v = conv s p) hst l [] out h
  refine ⟨?_, i3 (by simp), ?_, ?_⟩
  · intro p hp
    obtain ⟨b1, b2, hb⟩ := foldRel_steps _ l _ _ h p hp
    exact ((infoH_ok ..).1 hb).1
  · intro k; rw [i1 k]; simp [alookup]
  · intro k v hv
    rcases i2 k v hv with h1 | h1
    · exact h1
    · simp [alookup] at h1

theorem spToNames_ok (s : Store) (l : List (Nat × SPInfo)) (hall : ∀ p ∈ l, valid s p) :
    ∃ out, s.spToNames l = .ok out := by
  obtain ⟨r, hr⟩ := foldRel_exists (infoH s) l (fun p hp b => ⟨_, (infoH_ok s b _ p).2 ⟨hall p hp, rfl⟩⟩) []
  exact ⟨r, by rw [spToNames_eq, foldl_ok_iff]; exact hr⟩

end C08A
end Graphrs
