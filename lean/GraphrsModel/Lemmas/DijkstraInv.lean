/-
  The loop invariant of the Dijkstra model (lazy deletion), stated over the three components
  (dist, seen, fringe) of `DState`, and its preservation by the abstract steps (pop of a stale
  entry, pop of a fresh entry, skip of an adjacency entry, push).
-/
import GraphrsModel.Model.Dijkstra
import GraphrsModel.Spec.Walk
import GraphrsModel.Lemmas.C04Aux
namespace Graphrs

/-! ## lookup in `Vec<Option<f64>>`-like lists -/

def lk (l : List (Option Int)) (v : Nat) : Option Int := l[v]?.join

theorem lk_set_self (l : List (Option Int)) (u : Nat) (x : Option Int) (h : u < l.length) :
    lk (l.set u x) u = x := by
  simp [lk, h]

theorem lk_set_ne (l : List (Option Int)) (u v : Nat) (x : Option Int) (h : u ≠ v) :
    lk (l.set u x) v = lk l v := by
  simp [lk, List.getElem?_set_ne h]

theorem lk_replicate_none (n v : Nat) : lk (List.replicate n none) v = none := by
  unfold lk
  by_cases h : v < n
  · simp [h]
  · simp [List.getElem?_eq_none (by simpa using Nat.le_of_not_lt h : (List.replicate n (none : Option Int)).length ≤ v)]

theorem lk_lt_of_some {l : List (Option Int)} {v : Nat} {d : Int} (h : lk l v = some d) : v < l.length := by
  unfold lk at h
  by_cases hv : v < l.length
  · exact hv
  · rw [List.getElem?_eq_none (Nat.le_of_not_lt hv)] at h
    simp at h

/-! ## `popFringe` -/

theorem foldl_better_mem (xs : List FNode) (x : FNode) :
    xs.foldl (fun b y => if FNode.better y b then y else b) x ∈ x :: xs := by
  induction xs generalizing x with
  | nil => simp
  | cons y ys ih =>
    simp only [List.foldl_cons]
    have := ih (if FNode.better y x then y else x)
    by_cases h : FNode.better y x = true
    · simp only [h, if_true] at this ⊢
      simp only [List.mem_cons] at this ⊢
      rcases this with h1 | h1
      · exact Or.inr (Or.inl h1)
      · exact Or.inr (Or.inr h1)
    · simp only [h] at this ⊢
      simp only [List.mem_cons] at this ⊢
      rcases this with h1 | h1
      · exact Or.inl h1
      · exact Or.inr (Or.inr h1)

theorem better_le {a b : FNode} (h : FNode.better a b = true) : a.1 ≤ b.1 := by
  unfold FNode.better at h
  simp only [Bool.or_eq_true, decide_eq_true_eq, Bool.and_eq_true, beq_iff_eq] at h
  rcases h with h | ⟨h, _⟩ <;> omega

theorem not_better_le {a b : FNode} (h : ¬ FNode.better a b = true) : b.1 ≤ a.1 := by
  unfold FNode.better at h
  simp only [Bool.or_eq_true, decide_eq_true_eq, Bool.and_eq_true, beq_iff_eq, not_or] at h
  omega

theorem foldl_better_le (xs : List FNode) (x : FNode) :
    ∀ e ∈ x :: xs, (xs.foldl (fun b y => if FNode.better y b then y else b) x).1 ≤ e.1 := by
  induction xs generalizing x with
  | nil => intro e he; simp at he; subst he; simp
  | cons y ys ih =>
    simp only [List.foldl_cons]
    have := ih (if FNode.better y x then y else x)
    intro e he
    have h0 := this _ (List.mem_cons_self ..)
    by_cases h : FNode.better y x = true
    · simp only [h, if_true] at this h0 ⊢
      have hyx := better_le h
      simp only [List.mem_cons] at he
      rcases he with h1 | h1 | h1
      · subst h1; omega
      · subst h1; exact h0
      · exact this e (List.mem_cons_of_mem _ h1)
    · simp only [h, Bool.false_eq_true, if_false] at this h0 ⊢
      have hyx := not_better_le h
      simp only [List.mem_cons] at he
      rcases he with h1 | h1 | h1
      · subst h1; exact h0
      · subst h1; omega
      · exact this e (List.mem_cons_of_mem _ h1)

theorem popFringe_none {fr : List FNode} (h : popFringe fr = none) : fr = [] := by
  cases fr with
  | nil => rfl
  | cons x xs => simp [popFringe] at h

theorem popFringe_some {fr : List FNode} {b : FNode} {rest : List FNode}
    (h : popFringe fr = some (b, rest)) :
    b ∈ fr ∧ rest = fr.erase b ∧ (∀ e ∈ fr, b.1 ≤ e.1) := by
  cases fr with
  | nil => simp [popFringe] at h
  | cons x xs =>
    simp only [popFringe, Option.some.injEq, Prod.mk.injEq] at h
    obtain ⟨h1, h2⟩ := h
    subst h1
    exact ⟨foldl_better_mem xs x, h2.symm, foldl_better_le xs x⟩

/-! ## cutoff -/

theorem overCutoff_mono {cut : Option Int} {a b : Int} (h : overCutoff cut a = false) (hb : b ≤ a) :
    overCutoff cut b = false := by
  unfold overCutoff at h ⊢
  cases cut with
  | none => rfl
  | some c => simp only [decide_eq_false_iff_not] at h ⊢; omega

/-! ## walks with non-negative costs -/

theorem Walk.nonneg {A : Arcs} (hnn : ∀ a ∈ A, 0 ≤ a.2.2) {s t : Nat} {c : Int} (h : Walk A s t c) : 0 ≤ c := by
  induction h with
  | nil => exact Int.le_refl 0
  | snoc _ ha ih => have := hnn _ ha; simp only at this; omega

/-! ## the invariant -/

/-- closedness condition of one arc `(u, x, w)` out of a finalised node with distance `du` -/
def ArcOk (cut : Option Int) (seen : List (Option Int)) (du : Int) (x : Nat) (w : Int) : Prop :=
  overCutoff cut (du + w) = true ∨ ∃ k, lk seen x = some k ∧ k ≤ du + w

structure Inv (A : Arcs) (src n : Nat) (cut : Option Int) (pend : Arcs)
    (dist seen : List (Option Int)) (fr : List FNode) : Prop where
  ldist : dist.length = n
  lseen : seen.length = n
  frLt : ∀ e ∈ fr, e.2.2 < n
  frWalk : ∀ e ∈ fr, Walk A src e.2.2 e.1
  frCut : overCutoff cut 0 = false → ∀ e ∈ fr, overCutoff cut e.1 = false
  frSeen : ∀ e ∈ fr, ∃ k, lk seen e.2.2 = some k ∧ k ≤ e.1
  distWalk : ∀ v d, lk dist v = some d → Walk A src v d
  distCut : overCutoff cut 0 = false → ∀ v d, lk dist v = some d → overCutoff cut d = false
  distSeen : ∀ v d, lk dist v = some d → lk seen v = some d
  mono : ∀ v d, lk dist v = some d → ∀ e ∈ fr, d ≤ e.1
  cover : ∀ v k, lk dist v = none → lk seen v = some k → ∃ cnt, (k, cnt, v) ∈ fr
  closed : ∀ u du, lk dist u = some du → ∀ x w, (u, x, w) ∈ A → (u, x, w) ∈ pend ∨ ArcOk cut seen du x w
  srcOk : ∃ k, lk seen src = some k ∧ k ≤ 0

/-- the invariant while the row of the freshly finalised node `v` (distance `d`) is being relaxed -/
structure RowInv (A : Arcs) (src n : Nat) (cut : Option Int) (v : Nat) (d : Int) (pend : Arcs)
    (dist seen : List (Option Int)) (fr : List FNode) : Prop extends Inv A src n cut pend dist seen fr where
  hv : lk dist v = some d
  hle : ∀ u du, lk dist u = some du → du ≤ d
  hfr : ∀ e ∈ fr, d ≤ e.1
  pendSrc : ∀ a ∈ pend, a.1 = v
  pendA : ∀ a ∈ pend, a ∈ A

/-- well-formed arcs: targets are nodes, costs are non-negative -/
def ArcsWf (A : Arcs) (n : Nat) : Prop := ∀ a ∈ A, a.2.1 < n ∧ 0 ≤ a.2.2

theorem Inv.init (A : Arcs) (src n : Nat) (cut : Option Int) (hsrc : src < n) :
    Inv A src n cut [] (List.replicate n none) ((List.replicate n none).set src (some 0)) [(0, 0, src)] where
  ldist := by simp
  lseen := by simp
  frLt := by intro e he; simp at he; subst he; exact hsrc
  frWalk := by intro e he; simp at he; subst he; exact Walk.nil _
  frCut := by intro h e he; simp at he; subst he; exact h
  frSeen := by
    intro e he; simp at he; subst he
    exact ⟨0, lk_set_self _ _ _ (by simpa using hsrc), Int.le_refl 0⟩
  distWalk := by intro v d h; rw [lk_replicate_none] at h; cases h
  distCut := by intro _ v d h; rw [lk_replicate_none] at h; cases h
  distSeen := by intro v d h; rw [lk_replicate_none] at h; cases h
  mono := by intro v d h; rw [lk_replicate_none] at h; cases h
  cover := by
    intro v k _ hk
    by_cases e : src = v
    · subst e
      rw [lk_set_self _ _ _ (by simpa using hsrc)] at hk
      cases hk
      exact ⟨0, by simp⟩
    · rw [lk_set_ne _ _ _ _ e, lk_replicate_none] at hk; cases hk
  closed := by intro u du h; rw [lk_replicate_none] at h; cases h
  srcOk := ⟨0, lk_set_self _ _ _ (by simpa using hsrc), Int.le_refl 0⟩

/-- popping a stale entry -/
theorem Inv.pop_stale {A : Arcs} {src n : Nat} {cut : Option Int} {dist seen : List (Option Int)}
    {fr : List FNode} (I : Inv A src n cut [] dist seen fr) (b : FNode) (dv : Int)
    (hstale : lk dist b.2.2 = some dv) :
    Inv A src n cut [] dist seen (fr.erase b) where
  ldist := I.ldist
  lseen := I.lseen
  frLt := fun e he => I.frLt e (List.mem_of_mem_erase he)
  frWalk := fun e he => I.frWalk e (List.mem_of_mem_erase he)
  frCut := fun h e he => I.frCut h e (List.mem_of_mem_erase he)
  frSeen := fun e he => I.frSeen e (List.mem_of_mem_erase he)
  distWalk := I.distWalk
  distCut := I.distCut
  distSeen := I.distSeen
  mono := fun v d h e he => I.mono v d h e (List.mem_of_mem_erase he)
  cover := by
    intro v k hn hk
    obtain ⟨cnt, hm⟩ := I.cover v k hn hk
    refine ⟨cnt, (List.mem_erase_of_ne ?_).2 hm⟩
    intro e
    rw [← e] at hstale
    simp only at hstale
    rw [hn] at hstale; cases hstale
  closed := I.closed
  srcOk := I.srcOk

/-- popping a fresh entry: the node is finalised, its whole row `pend` becomes pending -/
theorem Inv.pop_fresh {A : Arcs} {src n : Nat} {cut : Option Int} {dist seen : List (Option Int)}
    {fr : List FNode} (I : Inv A src n cut [] dist seen fr) (d : Int) (cnt v : Nat)
    (hmem : (d, cnt, v) ∈ fr) (hmin : ∀ e ∈ fr, d ≤ e.1) (hfresh : lk dist v = none)
    (pend : Arcs) (hp1 : ∀ x w, (v, x, w) ∈ A → (v, x, w) ∈ pend) (hp2 : ∀ a ∈ pend, a.1 = v)
    (hp3 : ∀ a ∈ pend, a ∈ A) :
    RowInv A src n cut v d pend (dist.set v (some d)) seen (fr.erase (d, cnt, v)) := by
  have hvn : v < dist.length := by rw [I.ldist]; exact I.frLt _ hmem
  have hseenv : lk seen v = some d := by
    obtain ⟨k, hk, hle⟩ := I.frSeen _ hmem
    obtain ⟨c2, hm2⟩ := I.cover v k hfresh hk
    have := hmin _ hm2
    simp only at hk hle this
    have : k = d := by omega
    rw [← this]; exact hk
  have hlk : ∀ u du, lk (dist.set v (some d)) u = some du → (u = v ∧ du = d) ∨ (u ≠ v ∧ lk dist u = some du) := by
    intro u du h
    by_cases e : v = u
    · subst e
      rw [lk_set_self _ _ _ hvn] at h
      cases h; exact Or.inl ⟨rfl, rfl⟩
    · rw [lk_set_ne _ _ _ _ e] at h
      exact Or.inr ⟨fun e' => e e'.symm, h⟩
  refine { ldist := ?_, lseen := I.lseen, frLt := ?_, frWalk := ?_, frCut := ?_, frSeen := ?_, distWalk := ?_,
           distCut := ?_, distSeen := ?_, mono := ?_, cover := ?_, closed := ?_, srcOk := I.srcOk,
           hv := lk_set_self _ _ _ hvn, hle := ?_, hfr := ?_, pendSrc := hp2, pendA := hp3 }
  · simp [I.ldist]
  · exact fun e he => I.frLt e (List.mem_of_mem_erase he)
  · exact fun e he => I.frWalk e (List.mem_of_mem_erase he)
  · exact fun h e he => I.frCut h e (List.mem_of_mem_erase he)
  · exact fun e he => I.frSeen e (List.mem_of_mem_erase he)
  · intro u du h
    rcases hlk u du h with ⟨e1, e2⟩ | ⟨_, h'⟩
    · subst e1 e2; exact I.frWalk _ hmem
    · exact I.distWalk u du h'
  · intro h0 u du h
    rcases hlk u du h with ⟨e1, e2⟩ | ⟨_, h'⟩
    · subst e1 e2; exact I.frCut h0 _ hmem
    · exact I.distCut h0 u du h'
  · intro u du h
    rcases hlk u du h with ⟨e1, e2⟩ | ⟨_, h'⟩
    · subst e1 e2; exact hseenv
    · exact I.distSeen u du h'
  · intro u du h e he
    rcases hlk u du h with ⟨e1, e2⟩ | ⟨_, h'⟩
    · subst e1 e2; exact hmin e (List.mem_of_mem_erase he)
    · exact I.mono u du h' e (List.mem_of_mem_erase he)
  · intro u k hn hk
    have hne : v ≠ u := by
      intro e; subst e; rw [lk_set_self _ _ _ hvn] at hn; cases hn
    rw [lk_set_ne _ _ _ _ hne] at hn
    obtain ⟨c2, hm⟩ := I.cover u k hn hk
    refine ⟨c2, (List.mem_erase_of_ne ?_).2 hm⟩
    intro e
    simp only [Prod.mk.injEq] at e
    exact hne e.2.2.symm
  · intro u du h x w ha
    rcases hlk u du h with ⟨e1, e2⟩ | ⟨_, h'⟩
    · subst e1 e2; exact Or.inl (hp1 x w ha)
    · rcases I.closed u du h' x w ha with hc | hc
      · simp at hc
      · exact Or.inr hc
  · intro u du h
    rcases hlk u du h with ⟨e1, e2⟩ | ⟨_, h'⟩
    · subst e1 e2; exact Int.le_refl _
    · exact I.mono u du h' _ hmem
  · exact fun e he => hmin e (List.mem_of_mem_erase he)

/-- an adjacency entry that needs no update -/
theorem RowInv.skip {A : Arcs} {src n : Nat} {cut : Option Int} {v : Nat} {d : Int} {pend : Arcs}
    {dist seen : List (Option Int)} {fr : List FNode} {u : Nat} {c : Int}
    (R : RowInv A src n cut v d ((v, u, c) :: pend) dist seen fr)
    (hok : ArcOk cut seen d u c) :
    RowInv A src n cut v d pend dist seen fr :=
  { R with
    closed := by
      intro u' du h x w ha
      rcases R.closed u' du h x w ha with hc | hc
      · simp only [List.mem_cons, Prod.mk.injEq] at hc
        rcases hc with ⟨e1, e2, e3⟩ | hc
        · subst e1 e2 e3
          rw [R.hv] at h; cases h
          exact Or.inr hok
        · exact Or.inl hc
      · exact Or.inr hc
    pendSrc := fun a ha => R.pendSrc a (List.mem_cons_of_mem _ ha)
    pendA := fun a ha => R.pendA a (List.mem_cons_of_mem _ ha) }

/-- a finalised head of the arc is always fine (monotonicity of pops) -/
theorem RowInv.final_ok {A : Arcs} {src n : Nat} {cut : Option Int} {v : Nat} {d : Int} {pend : Arcs}
    {dist seen : List (Option Int)} {fr : List FNode} {u : Nat} {c : Int}
    (hA : ArcsWf A n)
    (R : RowInv A src n cut v d ((v, u, c) :: pend) dist seen fr) (du : Int) (hu : lk dist u = some du) :
    du ≤ d + c ∧ ArcOk cut seen d u c := by
  have h1 := R.hle u du hu
  have h2 := (hA _ (R.pendA _ (List.mem_cons_self ..))).2
  simp only at h2
  exact ⟨by omega, Or.inr ⟨du, R.distSeen u du hu, by omega⟩⟩

/-- push of a new fringe entry `(d + c, cnt, u)`, with `seen[u]` (re)set to `d + c` -/
theorem RowInv.push {A : Arcs} {src n : Nat} {cut : Option Int} {v : Nat} {d : Int} {pend : Arcs}
    {dist seen : List (Option Int)} {fr : List FNode} {u : Nat} {c : Int}
    (hA : ArcsWf A n)
    (R : RowInv A src n cut v d ((v, u, c) :: pend) dist seen fr)
    (hcut : overCutoff cut (d + c) = false)
    (hdec : ∀ su, lk seen u = some su → d + c ≤ su)
    (seen' : List (Option Int)) (hs1 : seen'.length = n) (hs2 : lk seen' u = some (d + c))
    (hs3 : ∀ x, x ≠ u → lk seen' x = lk seen x) (cnt : Nat) :
    RowInv A src n cut v d pend dist seen' ((d + c, cnt, u) :: fr) := by
  have harc : (v, u, c) ∈ A := R.pendA _ (List.mem_cons_self ..)
  have hun : u < n := (hA _ harc).1
  have hc0 : 0 ≤ c := (hA _ harc).2
  have hseen_le : ∀ x k, lk seen x = some k → ∃ k', lk seen' x = some k' ∧ k' ≤ k := by
    intro x k hk
    by_cases e : x = u
    · subst e; exact ⟨d + c, hs2, hdec k hk⟩
    · exact ⟨k, by rw [hs3 x e]; exact hk, Int.le_refl _⟩
  refine { ldist := R.ldist, lseen := hs1, frLt := ?_, frWalk := ?_, frCut := ?_, frSeen := ?_,
           distWalk := R.distWalk, distCut := R.distCut, distSeen := ?_, mono := ?_, cover := ?_,
           closed := ?_, srcOk := ?_, hv := R.hv, hle := R.hle, hfr := ?_,
           pendSrc := fun a ha => R.pendSrc a (List.mem_cons_of_mem _ ha),
           pendA := fun a ha => R.pendA a (List.mem_cons_of_mem _ ha) }
  · intro e he
    simp only [List.mem_cons] at he
    rcases he with he | he
    · subst he; exact hun
    · exact R.frLt e he
  · intro e he
    simp only [List.mem_cons] at he
    rcases he with he | he
    · subst he; exact Walk.snoc (R.distWalk v d R.hv) harc
    · exact R.frWalk e he
  · intro h0 e he
    simp only [List.mem_cons] at he
    rcases he with he | he
    · subst he; exact hcut
    · exact R.frCut h0 e he
  · intro e he
    simp only [List.mem_cons] at he
    rcases he with he | he
    · subst he; exact ⟨d + c, hs2, Int.le_refl _⟩
    · obtain ⟨k, hk, hle⟩ := R.frSeen e he
      obtain ⟨k', hk', hle'⟩ := hseen_le _ k hk
      exact ⟨k', hk', by omega⟩
  · intro x dx hx
    have hold := R.distSeen x dx hx
    by_cases e : x = u
    · subst e
      have h1 := hdec dx hold
      have h2 := R.hle x dx hx
      have : d + c = dx := by omega
      rw [hs2, this]
    · rw [hs3 x e]; exact hold
  · intro x dx hx e he
    simp only [List.mem_cons] at he
    rcases he with he | he
    · subst he
      have := R.hle x dx hx
      simp only; omega
    · exact R.mono x dx hx e he
  · intro x k hn hk
    by_cases e : x = u
    · subst e
      rw [hs2] at hk; cases hk
      exact ⟨cnt, List.mem_cons_self ..⟩
    · rw [hs3 x e] at hk
      obtain ⟨c2, hm⟩ := R.cover x k hn hk
      exact ⟨c2, List.mem_cons_of_mem _ hm⟩
  · intro u' du h x w ha
    have hok' : ∀ du' x' w', ArcOk cut seen du' x' w' → ArcOk cut seen' du' x' w' := by
      intro du' x' w' hok
      rcases hok with hok | ⟨k, hk, hle⟩
      · exact Or.inl hok
      · obtain ⟨k', hk', hle'⟩ := hseen_le _ k hk
        exact Or.inr ⟨k', hk', by omega⟩
    rcases R.closed u' du h x w ha with hc | hc
    · simp only [List.mem_cons, Prod.mk.injEq] at hc
      rcases hc with ⟨e1, e2, e3⟩ | hc
      · subst e1 e2 e3
        rw [R.hv] at h; cases h
        exact Or.inr (Or.inr ⟨_, hs2, Int.le_refl _⟩)
      · exact Or.inl hc
    · exact Or.inr (hok' _ _ _ hc)
  · obtain ⟨k, hk, hle⟩ := R.srcOk
    obtain ⟨k', hk', hle'⟩ := hseen_le _ k hk
    exact ⟨k', hk', by omega⟩
  · intro e he
    simp only [List.mem_cons] at he
    rcases he with he | he
    · subst he; simp only; omega
    · exact R.hfr e he

/-- after the row: back to the loop invariant -/
theorem RowInv.done {A : Arcs} {src n : Nat} {cut : Option Int} {v : Nat} {d : Int}
    {dist seen : List (Option Int)} {fr : List FNode}
    (R : RowInv A src n cut v d [] dist seen fr) : Inv A src n cut [] dist seen fr := R.toInv

/-! ## the end: an empty fringe makes the labelling closed, hence exact -/

theorem Inv.final_lower {A : Arcs} {src n : Nat} {cut : Option Int} {dist seen : List (Option Int)}
    (hA : ArcsWf A n) (I : Inv A src n cut [] dist seen []) :
    ∀ t c, Walk A src t c → overCutoff cut c = false → ∃ x, lk dist t = some x ∧ x ≤ c := by
  have hfin : ∀ x k, lk seen x = some k → lk dist x = some k := by
    intro x k hk
    cases hd : lk dist x with
    | none =>
      obtain ⟨cnt, hm⟩ := I.cover x k hd hk
      simp at hm
    | some dx =>
      have := I.distSeen x dx hd
      rw [hk] at this; exact this.symm
  intro t c hw
  induction hw with
  | nil =>
    intro _
    obtain ⟨k, hk, hle⟩ := I.srcOk
    exact ⟨k, hfin _ _ hk, hle⟩
  | snoc hw' ha ih =>
    rename_i u x c' w
    intro hc
    have hw0 : 0 ≤ w := (hA _ ha).2
    obtain ⟨du, hdu, hle⟩ := ih (overCutoff_mono hc (by omega))
    rcases I.closed u du hdu x w ha with h | h | ⟨k, hk, hle2⟩
    · simp at h
    · have := overCutoff_mono hc (by omega : du + w ≤ c' + w)
      rw [this] at h; cases h
    · exact ⟨k, hfin _ _ hk, by omega⟩

/-- **exactness at termination** -/
theorem Inv.final_exact {A : Arcs} {src n : Nat} {cut : Option Int} {dist seen : List (Option Int)}
    (hA : ArcsWf A n) (h0 : overCutoff cut 0 = false) (I : Inv A src n cut [] dist seen []) (t : Nat) (d : Int) :
    lk dist t = some d ↔ (IsDist A src t d ∧ overCutoff cut d = false) := by
  have hnn : ∀ a ∈ A, 0 ≤ a.2.2 := fun a ha => (hA a ha).2
  constructor
  · intro h
    have hcd := I.distCut h0 t d h
    refine ⟨⟨I.distWalk t d h, fun c hw => ?_⟩, hcd⟩
    by_cases hc : overCutoff cut c = false
    · obtain ⟨x, hx, hle⟩ := I.final_lower hA t c hw hc
      rw [h] at hx; cases hx; exact hle
    · by_cases hle : d ≤ c
      · exact hle
      · exact absurd (overCutoff_mono hcd (by omega)) hc
  · rintro ⟨⟨hw, hmin⟩, hc⟩
    obtain ⟨x, hx, hle⟩ := I.final_lower hA t d hw hc
    have := hmin x (I.distWalk t x hx)
    have : x = d := by omega
    rw [← this]; exact hx

end Graphrs
