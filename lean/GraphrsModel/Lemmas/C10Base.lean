/-
  Helper lemmas for Props/C10Model.lean (part 1): facts from the coupling invariant, reachability, the
  generic "fold over the names, skip seen ones" partition lemma.
-/
import GraphrsModel.Props.Core
import GraphrsModel.Props.C10
import GraphrsModel.Model.Components
namespace Graphrs
namespace C10M
open C02

theorem wf_parts (s : Store) (h : s.wf = true) :
    s.nodesOk = true ∧ s.edgesOk = true ∧ s.adjOk = true ∧ s.vecOk = true := by
  simp only [Store.wf, Bool.and_eq_true] at h
  exact ⟨h.1.1.1, h.1.1.2, h.1.2, h.2⟩

theorem names_nodup (s : Store) (h : s.wf = true) : s.getAllNodeNames.Nodup :=
  (nodesP_of s (wf_parts s h).1).namesNodup

theorem hasNode_names (s : Store) (h : s.wf = true) (x : Nat) : s.hasNode x = true ↔ x ∈ s.getAllNodeNames :=
  hasNode_mem (nodesP_of s (wf_parts s h).1) x

theorem succ_names (s : Store) (h : s.wf = true) {x y : Nat} (hy : y ∈ s.abs.succ s.specs.directed x) :
    x ∈ s.getAllNodeNames ∧ y ∈ s.getAllNodeNames :=
  hasEdge_names (edgesP_of s (wf_parts s h).2.1) ((mem_abs_succ s x y).1 hy)

theorem pred_names (s : Store) (h : s.wf = true) {x y : Nat} (hy : y ∈ s.abs.pred s.specs.directed x) :
    x ∈ s.getAllNodeNames ∧ y ∈ s.getAllNodeNames := by
  have := hasEdge_names (edgesP_of s (wf_parts s h).2.1) ((mem_abs_pred s x y).1 hy).2
  exact ⟨this.2, this.1⟩

/-! ### list-sets -/

theorem mem_sunion {α} [DecidableEq α] (s t : List α) (y : α) : y ∈ sunion s t ↔ y ∈ s ∨ y ∈ t :=
  mem_foldl_sinsert t s y

theorem nodup_sunion {α} [DecidableEq α] (s t : List α) (h : s.Nodup) : (sunion s t).Nodup :=
  nodup_foldl_sinsert t s h

theorem sinsert_nil {α} [DecidableEq α] (x : α) : sinsert ([] : List α) x = [x] := by simp [sinsert]

theorem sinsert_append_of_mem {α} [DecidableEq α] (a b : List α) (x : α) (h : x ∈ a) :
    sinsert (a ++ b) x = a ++ b := by
  simp [sinsert, h]

theorem sinsert_append_not_mem {α} [DecidableEq α] (a b : List α) (x : α) (h : x ∉ a) :
    sinsert (a ++ b) x = a ++ sinsert b x := by
  unfold sinsert
  by_cases hb : x ∈ b
  · simp [hb]
  · simp [h, hb]

/-- folding `sinsert` over a list from an accumulator keeps the accumulator as a prefix -/
theorem foldl_sinsert_append {α} [DecidableEq α] (l a b : List α) (hdisj : ∀ x ∈ l, x ∉ a) :
    l.foldl sinsert (a ++ b) = a ++ l.foldl sinsert b := by
  induction l generalizing b with
  | nil => rfl
  | cons x xs ih =>
    rw [List.foldl_cons, List.foldl_cons, sinsert_append_not_mem a b x (hdisj x List.mem_cons_self)]
    exact ih _ (fun y hy => hdisj y (List.mem_cons_of_mem _ hy))

/-- on a duplicate-free list `dedup` is the identity -/
theorem dedup_of_nodup {α} [DecidableEq α] (l : List α) (h : l.Nodup) : dedup l = l := by
  unfold dedup
  have key : ∀ (l acc : List α), (acc ++ l).Nodup → l.foldl sinsert acc = acc ++ l := by
    intro l
    induction l with
    | nil => intro acc _; simp
    | cons x xs ih =>
      intro acc hnd
      have hx : x ∉ acc := by
        intro hc
        rw [List.nodup_append] at hnd
        exact hnd.2.2 x hc x List.mem_cons_self rfl
      rw [List.foldl_cons]
      have : sinsert acc x = acc ++ [x] := by simp [sinsert, hx]
      rw [this, ih (acc ++ [x]) (by simpa using hnd)]
      simp
  simpa using key l [] (by simpa using h)

/-! ### reachability -/

theorem ReachR.trans {nb : Nat → List Nat} {x y z : Nat} (h1 : ReachR nb x y) (h2 : ReachR nb y z) : ReachR nb x z := by
  induction h2 with
  | refl => exact h1
  | step _ hz ih => exact ReachR.step ih hz

theorem ReachR.single {nb : Nat → List Nat} {x y : Nat} (h : y ∈ nb x) : ReachR nb x y :=
  ReachR.step (ReachR.refl x) h

theorem ReachR.head {nb : Nat → List Nat} {x y z : Nat} (h : y ∈ nb x) (h2 : ReachR nb y z) : ReachR nb x z :=
  ReachR.trans (ReachR.single h) h2

theorem ReachR.symm_of {nb : Nat → List Nat} (hs : ∀ x y, y ∈ nb x → x ∈ nb y) {x y : Nat} (h : ReachR nb x y) :
    ReachR nb y x := by
  induction h with
  | refl => exact ReachR.refl _
  | step _ hz ih => exact ReachR.head (hs _ _ hz) ih

theorem ReachR.mono {nb nb' : Nat → List Nat} (hs : ∀ x y, y ∈ nb x → y ∈ nb' x) {x y : Nat} (h : ReachR nb x y) :
    ReachR nb' x y := by
  induction h with
  | refl => exact ReachR.refl _
  | step _ hz ih => exact ReachR.step ih (hs _ _ hz)

theorem ReachR.closed {nb : Nat → List Nat} {P : Nat → Prop} (hP : ∀ x y, P x → y ∈ nb x → P y) {x y : Nat}
    (hx : P x) (h : ReachR nb x y) : P y := by
  induction h with
  | refl => exact hx
  | step _ hz ih => exact hP _ _ ih hz

/-- first step of a non-trivial path -/
theorem ReachR.cases_head {nb : Nat → List Nat} {x z : Nat} (h : ReachR nb x z) :
    x = z ∨ ∃ y, y ∈ nb x ∧ ReachR nb y z := by
  induction h with
  | refl => exact Or.inl rfl
  | step hxy hz ih =>
    rcases ih with rfl | ⟨w, hw, hwy⟩
    · exact Or.inr ⟨_, hz, ReachR.refl _⟩
    · exact Or.inr ⟨w, hw, ReachR.step hwy hz⟩

/-! ### the partition fold -/

/-- one step of the component fold, as a pure function of the class function `cls` -/
def compStep (cls : Nat → List Nat) (acc : List Nat × List (List Nat)) (v : Nat) : List Nat × List (List Nat) :=
  if acc.1.contains v then acc else (sunion acc.1 (cls v), acc.2 ++ [cls v])

/-- **the generic partition lemma**: fold over the names, skipping seen ones; each new set is the class of its start
    under an equivalence relation `R` whose classes stay inside `names` -/
theorem compFold_partition (names : List Nat) (R : Nat → Nat → Prop) (cls : Nat → List Nat)
    (hrefl : ∀ x, R x x) (hsymm : ∀ x y, R x y → R y x) (htrans : ∀ x y z, R x y → R y z → R x z)
    (hclosed : ∀ x ∈ names, ∀ y, R x y → y ∈ names)
    (hcls : ∀ v ∈ names, (cls v).Nodup ∧ ∀ y, y ∈ cls v ↔ R v y) :
    ∀ comps, (names.foldl (compStep cls) ([], [])).2 = comps →
    (∀ c ∈ comps, c ≠ []) ∧ (comps.flatMap id).Nodup ∧ (∀ x, x ∈ comps.flatMap id ↔ x ∈ names) ∧
    (∀ c ∈ comps, ∀ x ∈ c, ∀ y, y ∈ c ↔ R x y) := by
  -- invariant over a processed prefix
  have key : ∀ (todo done : List Nat) (seen : List Nat) (comps : List (List Nat)),
      (∀ v ∈ todo, v ∈ names) →
      (∀ y, y ∈ seen ↔ y ∈ comps.flatMap id) → (comps.flatMap id).Nodup →
      (∀ y ∈ comps.flatMap id, y ∈ names) → (∀ v ∈ done, v ∈ seen) →
      (∀ c ∈ comps, c ≠ [] ∧ ∀ x ∈ c, ∀ y, y ∈ c ↔ R x y) →
      ∃ seen' comps', todo.foldl (compStep cls) (seen, comps) = (seen', comps') ∧
        (∀ y, y ∈ seen' ↔ y ∈ comps'.flatMap id) ∧ (comps'.flatMap id).Nodup ∧
        (∀ y ∈ comps'.flatMap id, y ∈ names) ∧ (∀ v ∈ done ++ todo, v ∈ seen') ∧
        (∀ c ∈ comps', c ≠ [] ∧ ∀ x ∈ c, ∀ y, y ∈ c ↔ R x y) := by
    intro todo
    induction todo with
    | nil =>
      intro done seen comps _ h1 h2 h3 h4 h5
      exact ⟨seen, comps, rfl, h1, h2, h3, by simpa using h4, h5⟩
    | cons v vs ih =>
      intro done seen comps htodo h1 h2 h3 h4 h5
      rw [List.foldl_cons]
      have hv : v ∈ names := htodo v List.mem_cons_self
      have hvs : ∀ w ∈ vs, w ∈ names := fun w hw => htodo w (List.mem_cons_of_mem _ hw)
      by_cases hc : seen.contains v = true
      · have hst : compStep cls (seen, comps) v = (seen, comps) := by
          unfold compStep; simp only [hc, if_true]
        rw [hst]
        obtain ⟨seen', comps', hf, g1, g2, g3, g4, g5⟩ := ih (done ++ [v]) seen comps hvs h1 h2 h3
          (by
            intro w hw
            rcases List.mem_append.mp hw with hw | hw
            · exact h4 w hw
            · rw [List.mem_singleton] at hw; subst hw; simpa using hc) h5
        exact ⟨seen', comps', hf, g1, g2, g3, by simpa using g4, g5⟩
      · have hvseen : v ∉ seen := by simpa using hc
        have hst : compStep cls (seen, comps) v = (sunion seen (cls v), comps ++ [cls v]) := by
          unfold compStep; simp only [hc]; rfl
        rw [hst]
        obtain ⟨hnd, hmem⟩ := hcls v hv
        have hflat : (comps ++ [cls v]).flatMap id = comps.flatMap id ++ cls v := by simp
        have hdisj : ∀ y ∈ comps.flatMap id, y ∉ cls v := by
          intro y hy hyc
          obtain ⟨c, hcm, hyc'⟩ := List.mem_flatMap.mp hy
          have hvy : R v y := (hmem y).1 hyc
          have : v ∈ c := ((h5 c hcm).2 y hyc' v).2 (hsymm _ _ hvy)
          exact hvseen ((h1 v).2 (List.mem_flatMap.mpr ⟨c, hcm, this⟩))
        obtain ⟨seen', comps', hf, g1, g2, g3, g4, g5⟩ := ih (done ++ [v]) (sunion seen (cls v)) (comps ++ [cls v]) hvs
          (by
            intro y
            rw [mem_sunion, hflat, List.mem_append, h1 y])
          (by
            rw [hflat, List.nodup_append]
            refine ⟨h2, hnd, ?_⟩
            intro a ha b hb hab
            subst hab
            exact hdisj a ha hb)
          (by
            intro y hy
            rw [hflat] at hy
            rcases List.mem_append.mp hy with hy | hy
            · exact h3 y hy
            · exact hclosed v hv y ((hmem y).1 hy))
          (by
            intro w hw
            rw [mem_sunion]
            rcases List.mem_append.mp hw with hw | hw
            · exact Or.inl (h4 w hw)
            · rw [List.mem_singleton] at hw; subst hw
              exact Or.inr ((hmem w).2 (hrefl w)))
          (by
            intro c hcm
            rcases List.mem_append.mp hcm with hcm | hcm
            · exact h5 c hcm
            · rw [List.mem_singleton] at hcm; subst hcm
              refine ⟨?_, ?_⟩
              · intro he
                have := (hmem v).2 (hrefl v)
                rw [he] at this; cases this
              · intro x hx y
                have hvx := (hmem x).1 hx
                rw [hmem y]
                exact ⟨fun hvy => htrans _ _ _ (hsymm _ _ hvx) hvy, fun hxy => htrans _ _ _ hvx hxy⟩)
        exact ⟨seen', comps', hf, g1, g2, g3, by simpa using g4, g5⟩
  intro comps hcomps
  obtain ⟨seen', comps', hf, g1, g2, g3, g4, g5⟩ := key names [] [] [] (fun v hv => hv) (by simp) (by simp)
    (by simp) (by simp) (by simp)
  rw [hf] at hcomps
  simp only at hcomps
  subst hcomps
  refine ⟨fun c hc => (g5 c hc).1, g2, ?_, fun c hc => (g5 c hc).2⟩
  intro x
  constructor
  · exact g3 x
  · intro hx
    exact (g1 x).1 (g4 x (by simpa using hx))

end C10M
end Graphrs
